#!/usr/bin/env python3
"""Writes MANIFEST.json from props.py (single source of truth for per-property text)."""
import json, os, subprocess, sys
ROOT = os.path.dirname(os.path.abspath(__file__))
sys.path.insert(0, ROOT)
from props import PROPS
ALL = ["C%02d" % i for i in range(1, 21)]
hooks = subprocess.check_output(["git", "-C", "/repo", "log", "--format=%H %s", "278e2ead60f0df21477ab391d4f6bb9a94daeab1..HEAD"]).decode().splitlines()
hook_commits = [l.split()[0] for l in hooks if l.split(" ", 1)[1].startswith("verif hooks")]
m = {
    "version": 1,
    "setup_cmd": "./setup.sh",
    "hooks": {
        "guard": "verif",
        "enable": "go build -tags verif (harness/go.mod replaces the repository module with /repo's working tree)",
        "baseline_off_cmd": "cd /repo && GOFLAGS=-mod=mod GOPROXY=off GOSUMDB=off go test -json -vet=off -count=1 -timeout 25m ./...",
        "source_commits": hook_commits,
        "add_only": True,
    },
    "engines": [],
    "checks": [],
    "not_applicable": [],
    "notes": "Runtime monitoring only. ./check <ID> quick|thorough builds harness/eng/<id> against /repo's working tree with -tags verif, "
             "runs it as child-process batches, classifies monitor reports against known_findings.json and writes evidence/<ID>.json. "
             "Exit 2 + INCONCLUSIVE is used when a run observed too little; it never happens on the unchanged tree.",
}
for pid in ALL:
    if pid in PROPS and PROPS[pid].get("claimed", True):
        c = PROPS[pid]
        m["engines"].append({"name": c["engine"], "path": "harness/eng/" + c["engine"], "serves_properties": [pid],
                             "kind_free_text": c.get("kind", "Go process driving the real code under generated workloads with monitors")})
        m["checks"].append({
            "property_id": pid,
            "quick_cmd": "./check %s quick" % pid,
            "thorough_cmd": "./check %s thorough" % pid,
            "evidence_file": "evidence/%s.json" % pid,
            "replay_cmd_template": "./check %s quick --replay {path}" % pid,
            "engine": c["engine"],
            "level_claimed": {"category": c["level"], "text": c.get("level_text", c["rule"]), "design_ref": "DESIGN.md §6 " + pid},
            "level_note": c.get("level_note", "; ".join(c.get("assumptions", []))),
            "technique": c.get("technique", "runtime monitoring"),
        })
    else:
        m["not_applicable"].append({"property_id": pid, "reason": PROPS.get(pid, {}).get("na_reason", "monitor not built yet in this tree (work in progress); not claimed")})
json.dump(m, open(os.path.join(ROOT, "MANIFEST.json"), "w"), indent=1)
print("checks:", [c["property_id"] for c in m["checks"]])
