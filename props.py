# Per-property driver configuration: one file per property in props.d/<ID>.py defining PROP.
import glob, os, runpy
PROPS = {}
for _p in sorted(glob.glob(os.path.join(os.path.dirname(os.path.abspath(__file__)), "props.d", "C*.py"))):
    PROPS[os.path.basename(_p)[:-3]] = runpy.run_path(_p)["PROP"]
