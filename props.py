# Per-property configuration of the driver. Text fields end up in evidence files.
PROPS = {
    "C13": {
        "engine": "c13", "race": False, "level": "exploration", "exhaustive": True,
        "crash_is_violation": True,
        "rule": "every point of the grid deputies-per-term(1..9 quick, 1..17 thorough; equal, shrinking, growing and "
                "rotated membership across 3 terms) x slot {1,2,3,10}s x 12 heights (1, 2, mid-term, snapshot, last of "
                "interim, reward block, ...) x every parent miner (+ non-deputy / previous-term parent at height 1 and "
                "reward heights) x parent time x instant tp+k*T+delta (k=0..3n, delta in {0,1ms,T/2,T-1ms}) x every target "
                "deputy is executed against the real GetCorrectMiner / GetMinerDistance / GetDeputyByDistance / "
                "GetNextMineWindow / Validator.VerifyMiner / Miner.getSleepTime; distinct = distinct grid point; "
                "non-trivial = more than one deputy and (k>0 or a special height/parent)",
        "assumptions": ["slot lengths and parent times are whole seconds (as the statement says)",
                        "reference rotation is written from the property statement, independent of the repo code"],
        "min_cases": {"quick": 10000, "thorough": 50000},
    },
    "C01": {
        "engine": "c01", "race": False, "level": "exploration", "crash_is_violation": True,
        "technique": "differential runtime monitoring (miner vs miner' vs repeated mining vs validators with different histories)",
        "rule": "scenario = world (1..5 deputies) + 6..19 consecutive blocks whose candidate lists are drawn from a zoo of all 11 tx types "
                "(valid, failing-but-included, reverting, box-wrapped, template and random bytecode) interleaved with must-discard candidates; "
                "each block is executed by: the honest miner path with all candidates, twice more on fresh managers, another node's miner with the "
                "same survivors but a different discard set, survivors only, and four validators (one validate-only, one that mined and threw away "
                "other candidate sets, one reopened from disk); distinct = distinct (deputy count, height, candidate kind sequence); non-trivial = "
                "at least one discarded candidate and at least two tx types included",
        "assumptions": ["stable pointers of all nodes are aligned at reward heights (refund list is read from the stable candidate file)",
                        "snapshot-height blocks carry no transactions (vote changes inside a snapshot block are C10's known finding)",
                        "block time is crafted in the past; the only wall-clock input of validation is time <= now+1"],
        "min_cases": {"quick": 200, "thorough": 5000},
        "timeout_s": {"quick": 900, "thorough": 10800},
    },
}
