package evmmon

import (
	"encoding/hex"
	"encoding/json"
	"fmt"
	"math/big"
	"runtime/debug"
	"sort"
	"strings"

	"github.com/LemoFoundationLtd/lemochain-core/chain/account"
	"github.com/LemoFoundationLtd/lemochain-core/chain/transaction"
	"github.com/LemoFoundationLtd/lemochain-core/chain/types"
	"github.com/LemoFoundationLtd/lemochain-core/chain/vm"
	"github.com/LemoFoundationLtd/lemochain-core/common"
	"github.com/LemoFoundationLtd/lemochain-core/common/crypto"

	"verif/fx"
)

// Hex is a byte string that travels as hex in witnesses.
type Hex []byte

func (h Hex) MarshalJSON() ([]byte, error) { return json.Marshal(hex.EncodeToString(h)) }
func (h *Hex) UnmarshalJSON(b []byte) error {
	var s string
	if err := json.Unmarshal(b, &s); err != nil {
		return err
	}
	v, err := hex.DecodeString(s)
	*h = v
	return err
}

// PreOp prepares an account inside the case's manager before the monitored call (journaled
// writes through the SafeAccount setters: a contract created / funded / written earlier in
// the same block).
type PreOp struct {
	Addr    string
	Code    Hex               `json:",omitempty"`
	Balance string            `json:",omitempty"`
	Storage map[string]string `json:",omitempty"` // slot (decimal) -> hex value
}

// Case is a fully materialised EVM invocation.
type Case struct {
	Kind  string // generator: random | grammar | template:<name> | precompile:<n> | asset | fixed:<name>
	Pre   []PreOp
	Entry string // call | create | static | callcode | delegate | asset
	// Caller is the account the call comes from; for "delegate" it is the address of the
	// contract frame that delegates (its caller is Origin).
	Caller    string
	Origin    string
	To        string
	Input     Hex
	Gas       uint64
	Value     string // decimal
	TxHash    string
	RewardMgr string // vm.Config.RewardManager
	Note      string `json:",omitempty"`
}

func addr(s string) common.Address { return common.HexToAddress(s) }

func bigOf(s string) *big.Int {
	if s == "" {
		return new(big.Int)
	}
	v, ok := new(big.Int).SetString(s, 10)
	if !ok {
		return new(big.Int)
	}
	return v
}

// Result is everything the monitors look at.
type Result struct {
	Ret       []byte
	Left      uint64
	Err       string // vm error text ("" = success)
	ExecErr   string // TransferAssetTx's non-vm error
	Created   common.Address
	Panic     string // recovered panic of the EVM call itself (normalised)
	PanicSite string
	Abort     *RevertReport // the real RevertToSnapshot panicked

	Before       fx.Obs
	After        fx.Obs
	JBefore      int
	Journal      []LogInfo // change logs appended since Begin
	LogDigest    string    // digest over all change logs of the manager
	FramesJudged int64
	Tr           *Tracer
	Px           *Proxy
	AM           *account.Manager
}

// RunOpts tunes RunCase.
type RunOpts struct {
	Shadow bool // shadow every Snapshot / Revert with Obs
	// StaticMarks enables the nested STATICCALL clause: Obs before the op and when the frame is back.
	StaticMarks bool
}

// StaticFinding is a nested frame (STATICCALL, or a call / create that reported failure) that changed state.
type StaticFinding struct {
	Static  bool
	Failed  bool
	Op      string
	Depth   int
	Diff    []string
	Journal []LogInfo
}

func applyPre(am *account.Manager, pre []PreOp) {
	for _, p := range pre {
		acc := am.GetAccount(addr(p.Addr))
		if p.Balance != "" {
			acc.SetBalance(bigOf(p.Balance))
		}
		if len(p.Code) > 0 {
			acc.SetCode(types.Code(p.Code))
		}
		slots := make([]string, 0, len(p.Storage))
		for k := range p.Storage {
			slots = append(slots, k)
		}
		sort.Strings(slots)
		for _, k := range slots {
			n, _ := new(big.Int).SetString(k, 10)
			v, _ := hex.DecodeString(p.Storage[k])
			_ = acc.SetStorageState(common.BigToHash(n), v)
		}
	}
}

// DigestLogs hashes the manager's change logs (type, address, version, new value, extra).
func DigestLogs(ls types.ChangeLogSlice) string {
	h := make([]byte, 0, 32*len(ls))
	for _, l := range ls {
		func() {
			defer func() {
				if r := recover(); r != nil {
					h = append(h, []byte(l.String())...)
				}
			}()
			x := l.Hash()
			h = append(h, x[:]...)
		}()
	}
	return hex.EncodeToString(crypto.Keccak256(h))
}

// Context builds the vm.Context by hand with the tx processor's own CanTransfer / Transfer.
func (b *Base) Context(c *Case) vm.Context {
	parent := b.Head.Hash()
	return vm.Context{
		CanTransfer: transaction.CanTransfer,
		Transfer:    transaction.Transfer,
		GetHash: func(n uint32) common.Hash {
			if n == b.Head.Height() {
				return parent
			}
			return common.Hash{}
		},
		TxIndex:      0,
		TxHash:       common.HexToHash(c.TxHash),
		BlockHash:    common.Hash{},
		Origin:       addr(c.Origin),
		GasPrice:     new(big.Int).Set(fx.GasPrice),
		MinerAddress: b.W.Deputies[0].Addr,
		GasLimit:     b.Head.GasLimit(),
		BlockHeight:  b.Head.Height() + 1,
		Time:         b.Head.Time() + 3,
	}
}

// RunCase executes the case on a fresh manager at the base head.
func (b *Base) RunCase(c *Case, o RunOpts) (res *Result, statics []StaticFinding) {
	am := account.NewManager(b.Head.Hash(), b.N.DB)
	applyPre(am, c.Pre)
	u := b.Universe(addr(c.Caller), addr(c.To), addr(c.Origin))
	for _, p := range c.Pre {
		u.AddAddr(addr(p.Addr))
		for k := range p.Storage {
			n, _ := new(big.Int).SetString(k, 10)
			u.AddKey(common.BigToHash(n))
		}
	}
	px := NewProxy(am, u, o.Shadow)
	tr := NewTracer()
	res = &Result{Tr: tr, Px: px, AM: am}
	evm := vm.NewEVM(b.Context(c), px, vm.Config{Debug: true, Tracer: tr, RewardManager: addr(c.RewardMgr)})
	if c.Entry == "create" {
		px.seeAddr(crypto.CreateContractAddress(addr(c.Caller), common.HexToHash(c.TxHash)))
	}
	px.Begin()
	res.Before = px.Base.Obs
	res.JBefore = px.Base.JLen

	// frame-exit clause: at every CALL / CALLCODE / DELEGATECALL / STATICCALL / CREATE instruction the state is
	// observed; when the issuing frame executes its next instruction the result flag is on top of the stack:
	// a STATICCALL must have changed nothing, a failed call / create nothing but failure events
	type mark struct {
		depth  int
		static bool
		op     string
		snap   *Snap
	}
	var marks []*mark
	setExtra := func() {
		px.Extra = px.Extra[:0]
		for _, m := range marks {
			px.Extra = append(px.Extra, m.snap)
		}
	}
	judge := func(m *mark, failed bool) {
		res.FramesJudged++
		after := px.Now()
		logs := am.GetChangeLogs()
		var seg types.ChangeLogSlice
		if m.snap.JLen <= len(logs) {
			seg = logs[m.snap.JLen:]
		}
		d := fx.Diff(m.snap.Obs, after, 8)
		bad := OnlyFailureEvents(seg)
		if len(d) > 0 || bad != "" {
			if bad != "" {
				d = append(d, "journal: "+bad)
			}
			statics = append(statics, StaticFinding{Depth: m.depth, Static: m.static, Failed: failed, Op: m.op, Diff: d, Journal: logInfos(seg)})
		}
	}
	if o.StaticMarks {
		tr.OnStep = func(op vm.OpCode, depth int, stack *vm.Stack) {
			// frames that died never come back: drop their marks
			for len(marks) > 0 && marks[len(marks)-1].depth > depth {
				marks = marks[:len(marks)-1]
			}
			if len(marks) > 0 && marks[len(marks)-1].depth == depth {
				m := marks[len(marks)-1]
				marks = marks[:len(marks)-1]
				failed := false
				if d := stack.Data(); len(d) > 0 && d[len(d)-1].Sign() == 0 {
					failed = true
				}
				if m.static || failed {
					judge(m, failed)
				}
				setExtra()
			}
			if isCallOp(op) || op == vm.CREATE {
				inStatic := op == vm.STATICCALL
				for _, m := range marks {
					inStatic = inStatic || m.static
				}
				marks = append(marks, &mark{depth: depth, static: inStatic, op: op.String(), snap: &Snap{ID: -2, Obs: px.Now(), JLen: account.VerifJournalLen(am)}})
				setExtra()
			}
		}
	}

	value := bigOf(c.Value)
	func() {
		defer func() {
			if r := recover(); r != nil {
				if ab, ok := r.(*AbortCase); ok {
					res.Abort = ab.Report
					return
				}
				res.Panic, res.PanicSite = PanicSig(r, debug.Stack())
			}
		}()
		var err error
		switch c.Entry {
		case "call":
			res.Ret, res.Left, err = evm.Call(vm.AccountRef(addr(c.Caller)), addr(c.To), c.Input, c.Gas, value)
		case "create":
			res.Ret, res.Created, res.Left, err = evm.Create(vm.AccountRef(addr(c.Caller)), c.Input, c.Gas, value)
		case "static":
			res.Ret, res.Left, err = evm.StaticCall(vm.AccountRef(addr(c.Caller)), addr(c.To), c.Input, c.Gas)
		case "callcode":
			res.Ret, res.Left, err = evm.CallCode(vm.AccountRef(addr(c.Caller)), addr(c.To), c.Input, c.Gas, value)
		case "delegate":
			parent := vm.NewContract(vm.AccountRef(addr(c.Origin)), vm.AccountRef(addr(c.Caller)), value, c.Gas)
			res.Ret, res.Left, err = evm.DelegateCall(parent, addr(c.To), c.Input, c.Gas)
		case "asset":
			var execErr error
			res.Ret, res.Left, execErr, err = evm.TransferAssetTx(vm.AccountRef(addr(c.Caller)), addr(c.To), c.Gas, c.Input, b.N.DB)
			if execErr != nil {
				res.ExecErr = execErr.Error()
			}
		default:
			panic("unknown entry " + c.Entry)
		}
		if err != nil {
			res.Err = err.Error()
		}
	}()
	if res.Abort == nil && res.Panic == "" {
		px.Extra = nil
		res.After = px.Now()
		logs := am.GetChangeLogs()
		if res.JBefore <= len(logs) {
			res.Journal = logInfos(logs[res.JBefore:])
		}
		res.LogDigest = DigestLogs(logs)
	}
	return res, statics
}

var topicRunFail = types.TopicRunFail.Hex()

// OnlyFailureEvents checks that a journal segment, after the repository's own merge (which
// drops entries that changed nothing, e.g. zero-value transfers), holds nothing but the
// platform's failure events. It returns a description of the first offending entry.
func OnlyFailureEvents(seg types.ChangeLogSlice) string {
	if len(seg) == 0 {
		return ""
	}
	cp := make(types.ChangeLogSlice, len(seg))
	for i, l := range seg {
		cp[i] = l.Copy()
	}
	for _, l := range account.MergeChangeLogs(cp) {
		if l.LogType == account.AddEventLog {
			if ev, ok := l.NewVal.(*types.Event); ok && ev != nil && len(ev.Topics) == 1 && ev.Topics[0] == types.TopicRunFail && len(ev.Data) == 0 {
				continue
			}
			return "foreign-event"
		}
		return l.LogType.String()
	}
	return ""
}

// FieldKind maps an Obs field name to the kind of account attribute.
func FieldKind(f string) string {
	i := strings.Index(f, "/")
	if i < 0 {
		return f
	}
	rest := f[i+1:]
	if j := strings.Index(rest, "/"); j >= 0 {
		rest = rest[:j]
	}
	switch rest {
	case "codeHash", "code":
		return "code"
	case "storageRoot":
		return "root-storage"
	case "assetCodeRoot":
		return "root-asset-code"
	case "assetIdRoot":
		return "root-asset-id"
	case "equityRoot":
		return "root-equity"
	case "assetId":
		return "asset-id"
	}
	return rest
}

// DiffField extracts the field name of a fx.Diff line.
func DiffField(line string) string {
	if i := strings.Index(line, ": "); i >= 0 {
		return line[:i]
	}
	return line
}

// FieldAddr extracts the address part of a field name.
func FieldAddr(f string) string {
	if i := strings.Index(f, "/"); i >= 0 {
		return f[:i]
	}
	return ""
}

func (c *Case) String() string {
	return fmt.Sprintf("%s %s gas=%d value=%s to=%s in=%d", c.Kind, c.Entry, c.Gas, c.Value, c.To, len(c.Input))
}
