// Package evmmon is shared by the C07 and C16 engines: a deterministic base chain with
// committed contracts / assets / candidates, a proxy around *account.Manager that shadows
// every Snapshot / RevertToSnapshot the EVM issues, a tracer, program generators and the
// case runner.
package evmmon

import (
	"fmt"
	"math/big"
	"os"

	"github.com/LemoFoundationLtd/lemochain-core/chain/params"
	"github.com/LemoFoundationLtd/lemochain-core/chain/types"
	"github.com/LemoFoundationLtd/lemochain-core/common"
	"github.com/LemoFoundationLtd/lemochain-core/common/crypto"
	"github.com/LemoFoundationLtd/lemochain-core/common/log"

	"verif/fx"
	"verif/fx/run"
	"verif/scn"
)

// Base is a small real chain (mined and validated through the repository's own miner and
// validator paths) whose head state holds committed tries of every kind: contracts with
// code and storage, an issuer with two asset codes, a holder with equities and asset ids, a
// registered candidate with votes, a multisig account.
type Base struct {
	Cl   *scn.Cluster
	N    *fx.Node
	W    *fx.World
	Head *types.Block

	Zoo     map[string]common.Address
	ZooList []string // deterministic order

	Issuer    fx.Key
	Holder    fx.Key
	Candidate fx.Key
	Voter     fx.Key
	Multisig  fx.Key
	Plain     fx.Key // funded user without anything else
	Sink      common.Address
	Fresh     common.Address // never touched

	Codes []common.Hash // asset codes: [0] token (id == code), [1] common asset
	IDs   []common.Hash // asset / equity ids: [0] == Codes[0]; [1] (holder), [2] (voter), [3] (store-kill-load contract) issued of Codes[1]

	Keys []common.Hash // storage key universe (slots 0..15 and the reward slot)

	Blocks []*types.Block
}

// RewardSlot is the storage key the 0x09 precompile writes.
var RewardSlot = params.TermRewardContract.Hash()

// third generation templates (need the first ones' addresses or own control flow)

// RtCallbackRevert: CALL(CALLER, 1 byte of data); REVERT  -- calls its caller's "other" path, then reverts
func RtCallbackRevert() []byte {
	a := &fx.Asm{}
	a.Op(fx.PUSH1, 0, fx.PUSH1, 0, fx.PUSH1, 1, fx.PUSH1, 0, fx.PUSH1, 0, fx.CALLER, fx.GAS, fx.CALL, fx.POP)
	a.Op(fx.PUSH1, 0, fx.PUSH1, 0, fx.REVERT)
	return a.Bytes()
}

// RtCallbackOK is RtCallbackRevert without the revert (control).
func RtCallbackOK() []byte {
	a := &fx.Asm{}
	a.Op(fx.PUSH1, 0, fx.PUSH1, 0, fx.PUSH1, 1, fx.PUSH1, 0, fx.PUSH1, 0, fx.CALLER, fx.GAS, fx.CALL, fx.POP, fx.STOP)
	return a.Bytes()
}

// RtStoreKillLoad is the "revert after self-destruct" shape:
//
//	1 byte of call data:   SELFDESTRUCT(ADDRESS)
//	>= 2 bytes:            SSTORE(calldata[0:32], calldata[32:64]); STOP   (to give it committed storage)
//	without call data:     SSTORE(k, v); CALL(x); SSTORE(k2, SLOAD(k)+1); STOP
//
// with x = RtCallbackRevert the inner frame kills this contract and reverts.
func RtStoreKillLoad(k, v uint64, x common.Address, k2 uint64) []byte {
	body := &fx.Asm{}
	body.PushU(v).PushU(k).Op(fx.SSTORE)
	body.Op(fx.PUSH1, 0, fx.PUSH1, 0, fx.PUSH1, 0, fx.PUSH1, 0, fx.PUSH1, 0).PushAddr(x).Op(fx.GAS, fx.CALL, fx.POP)
	body.PushU(k).Op(fx.SLOAD, fx.PUSH1, 1, fx.ADD).PushU(k2).Op(fx.SSTORE, fx.STOP)
	a := &fx.Asm{}
	store := 9 + 4 + body.Len()
	kill := store + 9
	a.Op(fx.CALLDATASIZE, fx.DUP1, fx.PUSH1, 1, fx.EQ, 0x61, byte(kill>>8), byte(kill), fx.JUMPI) // 9 bytes
	a.Op(0x61, byte(store>>8), byte(store), fx.JUMPI)                                             // 4 bytes; size != 0 -> store path
	a.Op(body.Bytes()...)
	a.Op(fx.JUMPDEST, fx.PUSH1, 32, fx.CALLDATALOAD, fx.PUSH1, 0, fx.CALLDATALOAD, fx.SSTORE, fx.STOP) // 9 bytes
	a.Op(fx.JUMPDEST, fx.ADDRESS, fx.SELFDESTRUCT)
	return a.Bytes()
}

// RtValueInOut is the EVM form of the version-gap regression: the contract received value;
// an inner CALL with value fails (callee reverts); the contract sends value again (succeeds);
// then the outer frame reverts (or stops, if revert is false).
func RtValueInOut(failing, sink common.Address, revert bool) []byte {
	a := &fx.Asm{}
	a.Op(fx.PUSH1, 0, fx.PUSH1, 0, fx.PUSH1, 0, fx.PUSH1, 0, fx.PUSH1, 1).PushAddr(failing).Op(fx.GAS, fx.CALL, fx.POP)
	a.Op(fx.PUSH1, 0, fx.PUSH1, 0, fx.PUSH1, 0, fx.PUSH1, 0, fx.PUSH1, 1).PushAddr(sink).Op(fx.GAS, fx.CALL, fx.POP)
	if revert {
		a.Op(fx.PUSH1, 0, fx.PUSH1, 0, fx.REVERT)
	} else {
		a.Op(fx.STOP)
	}
	return a.Bytes()
}

// RtDoubleCreate: without call data: CREATE(child); CALL(self, 1 byte); STOP
//
//	with call data:    CREATE(child) (same creator, same tx => same address); REVERT or STOP
func RtDoubleCreate(childRt []byte, innerReverts bool) []byte {
	init := fx.InitCode(childRt)
	n := len(init)
	mk := func(off int) []byte {
		a := &fx.Asm{}
		// inner path selector
		a.Op(fx.CALLDATASIZE, 0x61, 0, 0, fx.JUMPI) // patched below (bytes 2,3)
		// outer: CODECOPY(0, off, n); CREATE(0, 0, n); POP; CALL(self, in=1 byte); POP; STOP
		a.Op(0x61, byte(n>>8), byte(n), 0x61, byte(off>>8), byte(off), fx.PUSH1, 0, fx.CODECOPY)
		a.Op(0x61, byte(n>>8), byte(n), fx.PUSH1, 0, fx.PUSH1, 0, fx.CREATE, fx.POP)
		a.Op(fx.PUSH1, 0, fx.PUSH1, 0, fx.PUSH1, 1, fx.PUSH1, 0, fx.PUSH1, 0, fx.ADDRESS, fx.GAS, fx.CALL, fx.POP, fx.STOP)
		inner := a.Len()
		a.Op(fx.JUMPDEST)
		a.Op(0x61, byte(n>>8), byte(n), 0x61, byte(off>>8), byte(off), fx.PUSH1, 0, fx.CODECOPY)
		a.Op(0x61, byte(n>>8), byte(n), fx.PUSH1, 0, fx.PUSH1, 0, fx.CREATE, fx.POP)
		if innerReverts {
			a.Op(fx.PUSH1, 0, fx.PUSH1, 0, fx.REVERT)
		} else {
			a.Op(fx.STOP)
		}
		b := a.Bytes()
		b[2], b[3] = byte(inner>>8), byte(inner)
		return b
	}
	l := len(mk(0))
	return append(mk(l), init...)
}

// RtCallWithData: <kind>(to, value, in = data bytes placed in memory); SSTORE(k, success+1); STOP
func RtCallWithData(kind byte, to common.Address, gas uint64, value *big.Int, data []byte, k uint64) []byte {
	a := &fx.Asm{}
	// write data to memory word by word
	for off := 0; off < len(data); off += 32 {
		w := make([]byte, 32)
		copy(w, data[off:])
		a.PushBytes(w).PushU(uint64(off)).Op(fx.MSTORE)
	}
	a.Op(fx.PUSH1, 32, fx.PUSH1, 0).PushU(uint64(len(data))).Op(fx.PUSH1, 0)
	if kind == fx.CALL || kind == fx.CALLCODE {
		if value == nil {
			a.Op(fx.CALLVALUE)
		} else {
			a.Push(value)
		}
	}
	a.PushAddr(to)
	if gas == 0 {
		a.Op(fx.GAS)
	} else {
		a.PushU(gas)
	}
	a.Op(kind).Op(fx.PUSH1, 1, fx.ADD).PushU(k).Op(fx.SSTORE, fx.STOP)
	return a.Bytes()
}

// BaseRng is the fixed stream the base chain is built from (independent of VERIF_SEED, so
// witnesses replay against the same chain).
func BaseRng() *run.Rng { return run.NewRng(0xBA5E, 7) }

// NewBase builds the base chain on nNodes nodes (1 is enough for direct-EVM engines).
func NewBase(nNodes int) (*Base, error) {
	r := BaseRng()
	cfg := scn.DefaultCfg()
	cl := scn.NewCluster(r, fx.WorldCfg{Deputies: 3, Users: 10, SlotMs: 3000}, nNodes, cfg)
	b := &Base{Cl: cl, N: cl.Nodes[0], W: cl.W, Zoo: map[string]common.Address{}}
	g := cl.G
	u := cl.W.Users
	b.Plain, b.Issuer, b.Holder, b.Candidate, b.Voter, b.Multisig = u[0], u[1], u[2], u[3], u[4], u[7]
	b.Sink = common.HexToAddress("0x5111c0de")
	b.Fresh = common.HexToAddress("0xf4e5400001")

	step := func(cands []scn.Cand, what string) error {
		t := cl.NextTime()
		res, err := b.N.Mine(cl.Head, t, scn.Txs(cands), "")
		if err != nil {
			return fmt.Errorf("base chain: mining %s: %v", what, err)
		}
		if len(res.Block.Txs) != len(cands) {
			var kinds []string
			inc := scn.Included(res.Block)
			for _, c := range cands {
				if !inc[c.Tx.Hash()] {
					kinds = append(kinds, c.Kind)
				}
			}
			return fmt.Errorf("base chain: %s: miner discarded %v", what, kinds)
		}
		if os.Getenv("EVMMON_DEBUG") != "" {
			log.Setup(log.LevelInfo, false, true)
		}
		for i, e := range cl.InsertAll(res.Block) {
			if e != nil {
				return fmt.Errorf("base chain: %s: node %d rejects: %v", what, i, e)
			}
		}
		cl.Adopt(res.Block)
		cl.StabiliseAll()
		b.Blocks = append(b.Blocks, res.Block)
		return nil
	}
	exp := func() uint64 { return uint64(cl.Head.Time()) + 900 }

	// block 1: funding + first generation zoo
	if err := step(g.Setup(cl.Head.Time()+1), "setup"); err != nil {
		return b, err
	}
	// block 2: second generation + own templates + assets, candidate, multisig
	cands := g.Setup2(cl.Head.Time() + 1)
	deploy := func(kind string, rt []byte, salt uint64) common.Address {
		tx := g.B.Create(cl.W.Founder, fx.InitCode(rt), big.NewInt(0), 2500000, exp()+400+salt)
		cands = append(cands, g.C(tx, "deploy-"+kind, "ok"))
		addr := crypto.CreateContractAddress(cl.W.Founder.Addr, tx.Hash())
		g.Contracts = append(g.Contracts, scn.Contract{Addr: addr, Kind: kind})
		g.U.Addr(addr)
		return addr
	}
	cbRevert := deploy("callback-revert", RtCallbackRevert(), 1)
	cbOK := deploy("callback-ok", RtCallbackOK(), 2)
	deploy("store-kill-load", RtStoreKillLoad(1, 0x77, cbRevert, 2), 3)
	deploy("store-kill-load-ok", RtStoreKillLoad(1, 0x77, cbOK, 2), 4)
	deploy("value-in-out-revert", RtValueInOut(g.ByKind("reverter"), b.Sink, true), 5)
	deploy("value-in-out", RtValueInOut(g.ByKind("reverter"), b.Sink, false), 6)
	deploy("double-create-revert", RtDoubleCreate(fx.RtStore(5, 5), true), 7)
	deploy("double-create", RtDoubleCreate(fx.RtStore(5, 5), false), 8)
	prof := types.Profile{"name": "tok", "symbol": "TOK", "description": "d", "suggestedGasLimit": "60000", "freeze": "false"}
	ca0 := g.B.CreateAsset(b.Issuer, types.TokenAsset, true, true, prof, exp()+1)
	ca1 := g.B.CreateAsset(b.Issuer, types.CommonAsset, true, true, types.Profile{"name": "com", "symbol": "COM", "description": "d", "suggestedGasLimit": "60000", "freeze": "false"}, exp()+2)
	b.Codes = []common.Hash{ca0.Hash(), ca1.Hash()}
	cands = append(cands, g.C(ca0, "create-asset-1", "ok"), g.C(ca1, "create-asset-3", "ok"))
	cands = append(cands, g.C(g.B.Register(b.Candidate, fx.Profile(b.Candidate, u[5].Addr, true, "base candidate"), new(big.Int).Add(params.MinCandidateDeposit, fx.LEMO(10)), exp()+3), "register", "ok"))
	signers := types.Signers{{Address: u[5].Addr, Weight: 50}, {Address: u[6].Addr, Weight: 60}}
	cands = append(cands, g.C(g.B.ModifySigners(b.Multisig, b.Multisig.Addr, signers, exp()+4), "set-multisig", "ok"))
	if err := step(cands, "setup2"); err != nil {
		return b, err
	}
	// block 3: committed storage, equities, votes
	cands = nil
	store, storeif := g.ByKind("store"), g.ByKind("storeif")
	for i, kv := range [][2]uint64{{1, 0x11}, {2, 0x2222}, {3, 3}} {
		cands = append(cands, g.C(g.B.Call(b.Plain, store, big.NewInt(0), 300000, append(fx.Word(kv[0]), fx.Word(kv[1])...), exp()+uint64(i)), "call-store", "ok"))
	}
	cands = append(cands, g.C(g.B.Call(b.Plain, storeif, fx.LEMO(3), 300000, append(fx.Word(1), fx.Word(0x99)...), exp()+5), "call-storeif", "ok"))
	cands = append(cands, g.C(g.B.Call(b.Plain, g.ByKind("store-kill-load"), fx.LEMO(2), 400000, append(fx.Word(3), fx.Word(0x33)...), exp()+6), "call-skl-store", "ok"))
	i0 := g.B.IssueAsset(b.Issuer, b.Holder.Addr, b.Codes[0], big.NewInt(100000), "meta0", exp()+7)
	i1 := g.B.IssueAsset(b.Issuer, b.Holder.Addr, b.Codes[1], big.NewInt(5000), "meta1", exp()+8)
	i2 := g.B.IssueAsset(b.Issuer, b.Voter.Addr, b.Codes[1], big.NewInt(70), "meta2", exp()+9)
	// a contract that can self-destruct holds an asset id and an equity
	i3 := g.B.IssueAsset(b.Issuer, g.ByKind("store-kill-load"), b.Codes[1], big.NewInt(9), "meta3", exp()+12)
	b.IDs = []common.Hash{b.Codes[0], i1.Hash(), i2.Hash(), i3.Hash()}
	cands = append(cands, g.C(i0, "issue-asset", "ok"), g.C(i1, "issue-asset", "ok"), g.C(i2, "issue-asset", "ok"), g.C(i3, "issue-asset", "ok"))
	cands = append(cands, g.C(g.B.Vote(b.Voter, b.Candidate.Addr, exp()+10), "vote", "ok"))
	cands = append(cands, g.C(g.B.Transfer(b.Plain, b.Sink, fx.LEMO(1), exp()+11), "transfer", "ok"))
	if err := step(cands, "state"); err != nil {
		return b, err
	}
	// block 4: one more so that block 3's tries are below the head as well
	if err := step([]scn.Cand{g.C(g.B.Transfer(b.Plain, u[8].Addr, fx.LEMO(1), exp()), "transfer", "ok")}, "tail"); err != nil {
		return b, err
	}
	b.Head = cl.Head
	for _, c := range g.Contracts {
		if _, dup := b.Zoo[c.Kind]; !dup {
			b.Zoo[c.Kind] = c.Addr
			b.ZooList = append(b.ZooList, c.Kind)
		}
	}
	for _, k := range leafKinds {
		if (b.Zoo[k] == common.Address{}) {
			return b, fmt.Errorf("base chain: zoo contract %q missing", k)
		}
	}
	for k := uint64(0); k < 16; k++ {
		b.Keys = append(b.Keys, fx.HashU(k))
	}
	b.Keys = append(b.Keys, RewardSlot)
	return b, nil
}

// Close destroys the nodes.
func (b *Base) Close() {
	if b.Cl != nil {
		b.Cl.Close()
	}
}

// Universe returns a fresh universe with the given addresses plus the key / asset universe
// of the base chain.
func (b *Base) Universe(addrs ...common.Address) *Uni {
	u := NewUni()
	u.AddAddr(addrs...)
	u.AddKey(b.Keys...)
	u.AddCode(b.Codes...)
	u.AddID(b.IDs...)
	return u
}

// Uni wraps fx.Universe with membership tests (the proxy discovers addresses and keys on
// first touch).
type Uni struct {
	U     *fx.Universe
	addrs map[common.Address]bool
	keys  map[common.Hash]bool
	AddrL []common.Address
	KeyL  []common.Hash
	CodeL []common.Hash // asset codes (fixed per case: EVM code cannot name new ones)
	IDL   []common.Hash // asset / equity ids
}

func (u *Uni) AddCode(cs ...common.Hash) { u.CodeL = append(u.CodeL, cs...); u.U.AssetCode(cs...) }
func (u *Uni) AddID(is ...common.Hash)   { u.IDL = append(u.IDL, is...); u.U.AssetID(is...) }

func NewUni() *Uni {
	return &Uni{U: fx.NewUniverse(), addrs: map[common.Address]bool{}, keys: map[common.Hash]bool{}}
}

func (u *Uni) HasAddr(a common.Address) bool { return u.addrs[a] }
func (u *Uni) HasKey(k common.Hash) bool     { return u.keys[k] }

func (u *Uni) AddAddr(as ...common.Address) {
	for _, a := range as {
		if !u.addrs[a] {
			u.addrs[a] = true
			u.AddrL = append(u.AddrL, a)
			u.U.Addr(a)
		}
	}
}

func (u *Uni) AddKey(ks ...common.Hash) {
	for _, k := range ks {
		if !u.keys[k] {
			u.keys[k] = true
			u.KeyL = append(u.KeyL, k)
			u.U.StorageKey(k)
		}
	}
}
