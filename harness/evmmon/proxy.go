package evmmon

import (
	"fmt"
	"math/big"
	"regexp"
	"runtime/debug"
	"strings"

	"github.com/LemoFoundationLtd/lemochain-core/chain/account"
	"github.com/LemoFoundationLtd/lemochain-core/chain/types"
	"github.com/LemoFoundationLtd/lemochain-core/common"

	"verif/fx"
)

// Snap is the shadow record of one Snapshot() call.
type Snap struct {
	ID   int
	JLen int
	Obs  fx.Obs
}

// LogInfo is the part of a change log the classifiers need.
type LogInfo struct {
	Type   string
	Addr   string
	Topics []string `json:",omitempty"`
}

// RevertReport describes one RevertToSnapshot whose outcome differs from the shadow.
type RevertReport struct {
	ID        int
	Live      int      // live snapshots at the time of the revert (nesting)
	Panic     string   `json:",omitempty"`
	PanicSite string   `json:",omitempty"`
	Diff      []string `json:",omitempty"` // "field: snapshot-value != value-after-revert"
	JLenWant  int
	JLenGot   int
	Undone    []LogInfo // journal segment that was undone
	// InnerRevertedSame: an earlier revert already undid a log of the same (account, log type)
	// as one of the logs undone now
	InnerRevertedSame bool
	SnapObs           fx.Obs `json:"-"`
	AfterObs          fx.Obs `json:"-"`
}

// AbortCase is the panic value the proxy re-raises when the real RevertToSnapshot panicked
// (the manager is unusable afterwards); the case runner recovers it.
type AbortCase struct{ Report *RevertReport }

// Proxy implements vm.AccountManager around the real manager. It observes every address and
// storage key before the EVM first touches it, so that all live shadows (and the baseline
// taken by Begin) cover everything the execution names.
type Proxy struct {
	AM   *account.Manager
	U    *Uni
	Opts fx.ObsOpts

	// Shadow switches the Obs bookkeeping on every Snapshot / Revert on (C07 monitor 2 and
	// C16's nested clause 4); without it the proxy only discovers the universe.
	Shadow bool

	Base  *Snap
	Extra []*Snap // additional shadows registered by the engine (kept complete like Base)
	live  []*Snap
	accs  map[common.Address]*accProxy

	Reports     []*RevertReport
	NSnap       int64
	NRevert     int64
	NFields     int64
	MaxLive     int
	Tainted     bool
	Leaked      int64 // snapshots discarded by an outer revert without having been reverted themselves
	reverted    map[int]bool
	undonePairs map[string]bool
}

func NewProxy(am *account.Manager, u *Uni, shadow bool) *Proxy {
	return &Proxy{AM: am, U: u, Opts: fx.ObsOpts{Roots: true}, Shadow: shadow, accs: map[common.Address]*accProxy{}, reverted: map[int]bool{}, undonePairs: map[string]bool{}}
}

// Begin records the baseline.
func (p *Proxy) Begin() {
	p.Base = &Snap{ID: -1, JLen: account.VerifJournalLen(p.AM), Obs: fx.Observe(p.AM, p.U.U, p.Opts)}
}

// Now observes the current state over the current universe.
func (p *Proxy) Now() fx.Obs { return fx.Observe(p.AM, p.U.U, p.Opts) }

func (p *Proxy) shadows() []*Snap {
	out := make([]*Snap, 0, len(p.live)+2)
	if p.Base != nil && p.Base.Obs != nil {
		out = append(out, p.Base)
	}
	for _, s := range p.Extra {
		if s.Obs != nil {
			out = append(out, s)
		}
	}
	for _, s := range p.live {
		if s.Obs != nil {
			out = append(out, s)
		}
	}
	return out
}

// seeAddr is called before the EVM gets hold of an account.
func (p *Proxy) seeAddr(a common.Address) {
	if p.U.HasAddr(a) {
		return
	}
	p.U.AddAddr(a)
	sh := p.shadows()
	if len(sh) == 0 {
		return
	}
	tmp := fx.NewUniverse()
	tmp.Addr(a)
	tmp.StorageKey(p.U.KeyL...)
	tmp.AssetCode(p.U.CodeL...)
	tmp.AssetID(p.U.IDL...)
	o := fx.Observe(p.AM, tmp, p.Opts)
	for _, s := range sh {
		for k, v := range o {
			s.Obs[k] = v
		}
	}
}

// seeKey is called before the EVM reads or writes a storage key.
func (p *Proxy) seeKey(k common.Hash) {
	if p.U.HasKey(k) {
		return
	}
	p.U.AddKey(k)
	sh := p.shadows()
	if len(sh) == 0 {
		return
	}
	tmp := fx.NewUniverse()
	tmp.Addr(p.U.AddrL...)
	tmp.StorageKey(k)
	o := fx.Observe(p.AM, tmp, fx.ObsOpts{})
	suffix := "/storage/" + k.Hex()
	for _, s := range sh {
		for f, v := range o {
			if strings.HasSuffix(f, suffix) {
				s.Obs[f] = v
			}
		}
	}
}

// seeCached adds every key the account currently caches (called before operations that
// reset the whole storage cache).
func (p *Proxy) seeCached(a common.Address) {
	if d := account.VerifDump(p.AM, a); d != nil {
		for _, k := range d.StorageKeys {
			p.seeKey(k)
		}
	}
}

func (p *Proxy) GetAccount(a common.Address) types.AccountAccessor {
	if w := p.accs[a]; w != nil {
		return w
	}
	p.seeAddr(a)
	w := &accProxy{AccountAccessor: p.AM.GetAccount(a), p: p, addr: a}
	p.accs[a] = w
	return w
}

func (p *Proxy) AddEvent(e *types.Event) {
	p.seeAddr(e.Address)
	p.AM.AddEvent(e)
}

func (p *Proxy) Snapshot() int {
	id := p.AM.Snapshot()
	p.NSnap++
	s := &Snap{ID: id, JLen: account.VerifJournalLen(p.AM)}
	if p.Shadow {
		s.Obs = fx.Observe(p.AM, p.U.U, p.Opts)
		p.NFields += int64(len(s.Obs))
	}
	p.live = append(p.live, s)
	if len(p.live) > p.MaxLive {
		p.MaxLive = len(p.live)
	}
	return id
}

var repoFrame = regexp.MustCompile(`(?m)^github\.com/LemoFoundationLtd/lemochain-core/([^\s(]+)\(`)
var hexRe = regexp.MustCompile(`0x[0-9a-fA-F]+`)
var numRe = regexp.MustCompile(`\d+`)

// PanicSig normalises a recovered panic like the driver does for process crashes.
func PanicSig(v interface{}, stack []byte) (msg, site string) {
	msg = fmt.Sprint(v)
	msg = hexRe.ReplaceAllString(msg, "0x?")
	msg = numRe.ReplaceAllString(msg, "N")
	if len(msg) > 90 {
		msg = msg[:90]
	}
	for _, m := range repoFrame.FindAllStringSubmatch(string(stack), -1) {
		if strings.Contains(m[1], "verifhook") {
			continue
		}
		site = m[1]
		break
	}
	return
}

func logInfos(ls types.ChangeLogSlice) []LogInfo {
	out := make([]LogInfo, 0, len(ls))
	for _, l := range ls {
		li := LogInfo{Type: l.LogType.String(), Addr: l.Address.Hex()}
		if ev, ok := l.NewVal.(*types.Event); ok && ev != nil {
			for _, t := range ev.Topics {
				li.Topics = append(li.Topics, t.Hex())
			}
		}
		out = append(out, li)
	}
	return out
}

func (p *Proxy) RevertToSnapshot(id int) {
	p.NRevert++
	idx := -1
	for i := len(p.live) - 1; i >= 0; i-- {
		if p.live[i].ID == id {
			idx = i
			break
		}
	}
	var snap *Snap
	rep := &RevertReport{ID: id, Live: len(p.live)}
	if idx >= 0 {
		snap = p.live[idx]
		logs := p.AM.GetChangeLogs()
		if snap.JLen <= len(logs) {
			rep.Undone = logInfos(logs[snap.JLen:])
		}
		for _, l := range rep.Undone {
			if p.undonePairs[l.Addr+"|"+l.Type] {
				rep.InnerRevertedSame = true
			}
		}
	}
	func() {
		defer func() {
			if r := recover(); r != nil {
				rep.Panic, rep.PanicSite = PanicSig(r, debug.Stack())
			}
		}()
		p.AM.RevertToSnapshot(id)
	}()
	if rep.Panic != "" {
		p.Reports = append(p.Reports, rep)
		panic(&AbortCase{Report: rep})
	}
	if snap != nil {
		for _, s := range p.live[idx+1:] {
			if !p.reverted[s.ID] {
				p.Leaked++
			}
		}
		p.reverted[id] = true
		for _, l := range rep.Undone {
			p.undonePairs[l.Addr+"|"+l.Type] = true
		}
		p.live = p.live[:idx]
		rep.JLenWant, rep.JLenGot = snap.JLen, account.VerifJournalLen(p.AM)
		bad := rep.JLenWant != rep.JLenGot
		if p.Shadow && snap.Obs != nil && !p.Tainted {
			after := fx.Observe(p.AM, p.U.U, p.Opts)
			p.NFields += int64(len(after))
			if d := fx.Diff(snap.Obs, after, 12); len(d) > 0 {
				rep.Diff = d
				rep.SnapObs, rep.AfterObs = snap.Obs, after
				bad = true
			}
		}
		if bad {
			p.Reports = append(p.Reports, rep)
			// once a revert was unfaithful the other shadows are no longer comparable
			p.Tainted = true
		}
	}
}

// accProxy forwards to the real accessor; it tells the proxy about storage keys before the
// access and about whole-cache resets.
type accProxy struct {
	types.AccountAccessor
	p    *Proxy
	addr common.Address
}

func (a *accProxy) GetStorageState(k common.Hash) ([]byte, error) {
	a.p.seeKey(k)
	return a.AccountAccessor.GetStorageState(k)
}

func (a *accProxy) SetStorageState(k common.Hash, v []byte) error {
	a.p.seeKey(k)
	return a.AccountAccessor.SetStorageState(k, v)
}

func (a *accProxy) SetSuicide(b bool) {
	a.p.seeCached(a.addr)
	a.AccountAccessor.SetSuicide(b)
}

func (a *accProxy) SetBalance(v *big.Int) { a.AccountAccessor.SetBalance(v) }
