package evmmon

import (
	"sort"
	"strings"

	"verif/fx"
)

var relatedLogs = map[string][]string{
	"balance":         {"BalanceLog"},
	"storage":         {"StorageLog"},
	"code":            {"CodeLog"},
	"votes":           {"VotesLog"},
	"voteFor":         {"VoteForLog"},
	"candidate":       {"CandidateLog", "CandidateStateLog"},
	"signers":         {"SignerLog"},
	"asset":           {"AssetCodeLog", "AssetCodeStateLog", "AssetCodeTotalSupplyLog"},
	"asset-id":        {"AssetIdLog"},
	"equity":          {"EquityLog"},
	"root-storage":    {"StorageLog"},
	"root-asset-code": {"AssetCodeLog", "AssetCodeStateLog", "AssetCodeTotalSupplyLog"},
	"root-asset-id":   {"AssetIdLog"},
	"root-equity":     {"EquityLog"},
}

func logSlug(t string) string {
	t = strings.TrimSuffix(t, "Log")
	var sb strings.Builder
	for i, r := range t {
		if r >= 'A' && r <= 'Z' {
			if i > 0 {
				sb.WriteByte('-')
			}
			sb.WriteRune(r + 32)
		} else {
			sb.WriteRune(r)
		}
	}
	return sb.String()
}

// OpKind names the kind of undone operation that explains a differing field: "suicide" if
// the account's self-destruct was undone, else the undone log types that write this kind of
// field on this account, else every undone log type on this account, else "untouched".
func OpKind(field string, undone []LogInfo) string {
	a := strings.ToLower(FieldAddr(field))
	on := map[string]bool{}
	for _, l := range undone {
		if strings.ToLower(l.Addr) == a {
			on[l.Type] = true
		}
	}
	if on["SuicideLog"] {
		return "suicide"
	}
	var rel []string
	for _, t := range relatedLogs[FieldKind(field)] {
		if on[t] {
			rel = append(rel, logSlug(t))
		}
	}
	if len(rel) == 0 {
		for t := range on {
			rel = append(rel, logSlug(t))
		}
	}
	if len(rel) == 0 {
		return "untouched"
	}
	sort.Strings(rel)
	return strings.Join(rel, "+")
}

// RevertClasses turns the differences of one revert into mechanism classes (without the
// property prefix). pristine is the observation of the committed parent state over the same
// universe; it decides whether a lost value was dirty / a lost code unsaved.
func RevertClasses(rep *RevertReport, pristine fx.Obs) map[string]string {
	out := map[string]string{}
	for _, d := range rep.Diff {
		f := DiffField(d)
		kind, op := FieldKind(f), OpKind(f, rep.Undone)
		cls := "revert-differs:" + kind + ":after-" + op
		if op == "suicide" {
			switch {
			case kind == "storage" && rep.SnapObs != nil && rep.SnapObs[f] != pristine[f]:
				cls = "revert-after-suicide-loses:dirty-storage"
			case kind == "code" && pristine[FieldAddr(f)+"/codeHash"] == "-":
				cls = "revert-after-suicide-loses:unsaved-code"
			}
		}
		if _, ok := out[cls]; !ok {
			out[cls] = d
		}
	}
	if rep.JLenGot != rep.JLenWant {
		out["revert-differs:journal-length"] = "journal length after the revert differs from the length at the snapshot"
	}
	return out
}

// PanicMechanism names a panic of RevertToSnapshot.
func PanicMechanism(rep *RevertReport) string {
	m := rep.Panic
	switch {
	case strings.Contains(m, "version of change log and account is not match"):
		if rep.InnerRevertedSame {
			return "version-gap-after-inner-revert"
		}
		return "version-gap"
	case strings.Contains(m, "change log data is incorrect"):
		for _, l := range rep.Undone {
			if l.Type == "EquityLog" {
				return "nil-old-equity"
			}
		}
		return "change-log-data-incorrect"
	case strings.Contains(m, "revision cannot be reverted"):
		return "revision-not-exist"
	}
	return Slug(m)
}

// Slug makes a class fragment out of a message.
func Slug(m string) string {
	var sb strings.Builder
	dash := false
	for _, r := range strings.ToLower(m) {
		if (r >= 'a' && r <= 'z') || (r >= '0' && r <= '9') {
			sb.WriteRune(r)
			dash = false
		} else if !dash && sb.Len() > 0 {
			sb.WriteByte('-')
			dash = true
		}
		if sb.Len() > 60 {
			break
		}
	}
	return strings.Trim(sb.String(), "-")
}
