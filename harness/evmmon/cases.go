package evmmon

import (
	"encoding/json"
	"fmt"
	"math/big"

	"github.com/LemoFoundationLtd/lemochain-core/chain/params"
	"github.com/LemoFoundationLtd/lemochain-core/chain/types"
	"github.com/LemoFoundationLtd/lemochain-core/common"

	"verif/fx"
	"verif/fx/run"
)

// Gen draws cases; every case is a function of the Rng handed in.
type Gen struct {
	B *Base
	R *run.Rng
	n int
}

var GasChoices = []uint64{0, 1, 5000, 20000, 20999, 21000, 21001, 100000, 5000000}

const DepthGas = uint64(1) << 62

var hugeValue, _ = new(big.Int).SetString("10000000000000000000000000000", 10) // 1e28 mo > any balance

func (g *Gen) gas() uint64 {
	// bias towards values that let programs run
	switch g.R.Intn(10) {
	case 0, 1, 2:
		return 5000000
	case 3, 4:
		return 100000
	}
	return GasChoices[g.R.Intn(len(GasChoices))]
}

func (g *Gen) value() string {
	switch g.R.Intn(20) {
	case 0, 1, 2, 3, 4:
		return "1"
	case 5, 6:
		return hugeValue.String()
	case 7:
		return fx.LEMO(int64(g.R.Range(1, 5))).String()
	}
	return "0"
}

func (g *Gen) input() []byte {
	switch g.R.Intn(6) {
	case 0:
		return nil
	case 1:
		return g.R.Bytes(4) // selector
	case 2:
		return append(fx.Word(uint64(g.R.Intn(12))), fx.Word(uint64(g.R.Intn(4)))...)
	case 3:
		return []byte{byte(g.R.Intn(256))}
	case 4:
		return append(g.R.Bytes(4), g.R.Bytes(32*g.R.Intn(4))...)
	}
	return g.R.Bytes(g.R.Intn(100))
}

func (g *Gen) caller() common.Address {
	switch g.R.Intn(8) {
	case 0:
		return g.B.Fresh // no funds
	case 1:
		return g.B.W.Founder.Addr
	case 2:
		return g.B.Holder.Addr
	}
	return g.B.Plain.Addr
}

func (g *Gen) freshAddr() common.Address {
	g.n++
	return common.BytesToAddress(append([]byte{0xc0, 0xde, byte(g.n)}, g.R.Bytes(8)...))
}

func (g *Gen) txHash() string { return common.BytesToHash(g.R.Bytes(32)).Hex() }

func (g *Gen) finish(c *Case) *Case {
	if c.Caller == "" {
		c.Caller = g.caller().Hex()
	}
	if c.Origin == "" {
		c.Origin = c.Caller
	}
	if c.TxHash == "" {
		c.TxHash = g.txHash()
	}
	if c.Value == "" {
		c.Value = "0"
	}
	if c.RewardMgr == "" {
		c.RewardMgr = g.B.W.Founder.Addr.Hex()
	}
	return c
}

// place wraps code into a case: as a same-block contract that is called, as init code, or
// as runtime behind the standard constructor.
func (g *Gen) place(kind string, code []byte) *Case {
	c := &Case{Kind: kind, Gas: g.gas(), Value: g.value(), Input: g.input()}
	switch g.R.Intn(12) {
	case 0, 1: // init code
		c.Entry, c.Input = "create", code
	case 2: // deployed through the constructor
		c.Entry, c.Input = "create", fx.InitCode(code)
	case 3:
		a := g.freshAddr()
		c.Entry, c.To, c.Value = "static", a.Hex(), "0"
		c.Pre = []PreOp{{Addr: a.Hex(), Code: code}}
	case 4:
		a := g.freshAddr()
		c.Entry, c.To = "callcode", a.Hex()
		c.Pre = []PreOp{{Addr: a.Hex(), Code: code}}
	case 5:
		a, self := g.freshAddr(), g.freshAddr()
		c.Entry, c.To, c.Caller, c.Origin = "delegate", a.Hex(), self.Hex(), g.caller().Hex()
		c.Pre = []PreOp{{Addr: a.Hex(), Code: code}, {Addr: self.Hex(), Balance: "1000"}}
		if c.Value == hugeValue.String() {
			c.Value = "1"
		}
	default:
		a := g.freshAddr()
		c.Entry, c.To = "call", a.Hex()
		p := PreOp{Addr: a.Hex(), Code: code}
		if g.R.Chance(1, 3) {
			p.Balance = "1000000"
		}
		if g.R.Chance(1, 3) {
			p.Storage = map[string]string{fmt.Sprint(g.R.Intn(4)): "2a"}
		}
		c.Pre = []PreOp{p}
	}
	return g.finish(c)
}

var interesting = []byte{fx.SSTORE, fx.SLOAD, fx.CALL, fx.CREATE, fx.SELFDESTRUCT, fx.LOG0, fx.LOG1, fx.REVERT, fx.RETURN, fx.JUMP, fx.JUMPI, fx.JUMPDEST,
	fx.DELEGATECALL, fx.STATICCALL, fx.CALLCODE, fx.CALLVALUE, fx.ADDRESS, fx.BALANCE, fx.GAS, fx.PUSH1, fx.PUSH1, fx.PUSH1, fx.DUP1, fx.MSTORE, fx.CALLER, fx.CALLDATALOAD, 0x3e /*RETURNDATACOPY*/, 0x3c /*EXTCODECOPY*/, 0x0a /*EXP*/, 0x7f /*PUSH32*/}

// Random: uniformly random bytes, or random bytes biased towards stateful opcodes.
func (g *Gen) Random() *Case {
	n := g.R.Range(1, 120)
	code := g.R.Bytes(n)
	kind := "random"
	if g.R.Chance(1, 2) {
		kind = "random-biased"
		for i := range code {
			if g.R.Chance(1, 2) {
				code[i] = interesting[g.R.Intn(len(interesting))]
			}
		}
	}
	return g.place(kind, code)
}

// ---- grammar generated programs -----------------------------------------------------

type sop struct {
	op          byte
	pops, pushs int
}

var simpleOps = []sop{
	{0x01, 2, 1}, {0x02, 2, 1}, {0x03, 2, 1}, {0x04, 2, 1}, {0x05, 2, 1}, {0x06, 2, 1}, {0x07, 2, 1}, {0x08, 3, 1}, {0x09, 3, 1}, {0x0a, 2, 1}, {0x0b, 2, 1},
	{0x10, 2, 1}, {0x11, 2, 1}, {0x12, 2, 1}, {0x13, 2, 1}, {0x14, 2, 1}, {0x15, 1, 1}, {0x16, 2, 1}, {0x17, 2, 1}, {0x18, 2, 1}, {0x19, 1, 1}, {0x1a, 2, 1},
	{0x1b, 2, 1}, {0x1c, 2, 1}, {0x1d, 2, 1},
	{0x30, 0, 1}, {0x31, 1, 1}, {0x32, 0, 1}, {0x33, 0, 1}, {0x34, 0, 1}, {0x35, 1, 1}, {0x36, 0, 1}, {0x38, 0, 1}, {0x3a, 0, 1}, {0x3b, 1, 1}, {0x3d, 0, 1},
	{0x40, 1, 1}, {0x41, 0, 1}, {0x42, 0, 1}, {0x43, 0, 1}, {0x44, 0, 1}, {0x45, 0, 1},
	{0x50, 1, 0}, {0x54, 1, 1}, {0x58, 0, 1}, {0x59, 0, 1}, {0x5a, 0, 1}, {0x5b, 0, 0},
}

type prog struct {
	g     *Gen
	a     *fx.Asm
	h     int // modelled stack height
	ops   int
	limit int
	raw   bool // sometimes feed raw stack values into memory / call operands
}

func (p *prog) patch2(pos, v int) {
	b := p.a.Bytes()
	b[pos], b[pos+1] = byte(v>>8), byte(v)
	*p.a = fx.Asm{}
	p.a.Op(b...)
}

func (p *prog) pushVal() {
	r := p.g.R
	switch r.Intn(8) {
	case 0:
		p.a.PushBytes(r.Bytes(32))
	case 1:
		p.a.PushAddr(p.someAddr())
	case 2:
		p.a.Push(new(big.Int).Sub(new(big.Int).Lsh(big.NewInt(1), 256), big.NewInt(int64(r.Intn(3)+1))))
	case 3:
		p.a.PushBytes(r.Bytes(r.Range(1, 31)))
	default:
		p.a.PushU(uint64(r.Intn(70)))
	}
	p.h++
}

func (p *prog) small(max int) { p.a.PushU(uint64(p.g.R.Intn(max))); p.h++ }

func (p *prog) someAddr() common.Address {
	r, b := p.g.R, p.g.B
	switch r.Intn(6) {
	case 0:
		return common.BytesToAddress([]byte{byte(r.Range(1, 9))})
	case 1:
		return b.Sink
	case 2:
		return common.BytesToAddress(r.Bytes(20))
	case 3:
		return b.Plain.Addr
	}
	return b.Zoo[b.ZooList[r.Intn(len(b.ZooList))]]
}

// ensure makes at least n items available above the floor.
func (p *prog) ensure(floor, n int) {
	for p.h-floor < n {
		p.pushVal()
	}
}

func (p *prog) offLen() {
	// pushes len then offset (offset ends on top)
	if p.raw && p.g.R.Chance(1, 3) {
		p.pushVal()
		p.pushVal()
		return
	}
	p.small(96)
	p.small(128)
}

func (p *prog) block(floor int, depth int) {
	r := p.g.R
	n := r.Range(1, 14)
	for i := 0; i < n && p.ops < p.limit; i++ {
		p.ops++
		pick := r.Intn(100)
		switch {
		case pick < 34:
			s := simpleOps[r.Intn(len(simpleOps))]
			p.ensure(floor, s.pops)
			p.a.Op(s.op)
			p.h += s.pushs - s.pops
		case pick < 42:
			p.pushVal()
		case pick < 47: // DUPn / SWAPn
			k := r.Range(1, 16)
			if r.Chance(1, 2) {
				p.ensure(floor, k)
				p.a.Op(byte(0x80 + k - 1))
				p.h++
			} else {
				p.ensure(floor, k+1)
				p.a.Op(byte(0x90 + k - 1))
			}
		case pick < 57: // memory
			switch r.Intn(8) {
			case 0:
				p.small(200)
				p.a.Op(fx.MLOAD)
			case 1:
				p.pushVal()
				p.small(200)
				p.a.Op(fx.MSTORE)
				p.h -= 2
			case 2:
				p.pushVal()
				p.small(200)
				p.a.Op(0x53) // MSTORE8
				p.h -= 2
			case 3:
				p.offLen()
				p.a.Op(fx.SHA3)
				p.h--
			case 4: // CALLDATACOPY(mem, data, len)
				p.small(64)
				p.small(64)
				p.small(128)
				p.a.Op(fx.CALLDATACOPY)
				p.h -= 3
			case 5:
				p.small(64)
				p.small(64)
				p.small(128)
				p.a.Op(fx.CODECOPY)
				p.h -= 3
			case 6: // EXTCODECOPY(addr, mem, code, len)
				p.small(64)
				p.small(64)
				p.small(128)
				p.a.PushAddr(p.someAddr())
				p.h++
				p.a.Op(0x3c)
				p.h -= 4
			case 7: // RETURNDATACOPY(mem, off, len)
				p.small(4)
				p.small(4)
				p.small(64)
				p.a.Op(0x3e)
				p.h -= 3
			}
		case pick < 65: // SSTORE(key, val)
			p.pushVal()
			if r.Chance(3, 4) {
				p.small(12)
			} else {
				p.pushVal()
			}
			p.a.Op(fx.SSTORE)
			p.h -= 2
		case pick < 74: // call family
			kind := []byte{fx.CALL, fx.CALL, fx.CALLCODE, fx.DELEGATECALL, fx.STATICCALL}[r.Intn(5)]
			p.small(64) // out len
			p.small(64) // out off
			p.small(68) // in len
			p.small(32) // in off
			if kind == fx.CALL || kind == fx.CALLCODE {
				switch r.Intn(5) {
				case 0:
					p.a.Op(fx.CALLVALUE)
					p.h++
				case 1:
					p.a.PushU(1)
					p.h++
				case 2:
					p.pushVal()
				default:
					p.a.PushU(0)
					p.h++
				}
			}
			switch r.Intn(6) {
			case 0:
				p.a.Op(fx.ADDRESS)
			case 1:
				p.a.Op(fx.CALLER)
			default:
				p.a.PushAddr(p.someAddr())
			}
			p.h++
			switch r.Intn(4) {
			case 0:
				p.a.PushU([]uint64{0, 2300, 30000, 700}[r.Intn(4)])
			case 1:
				p.a.PushBytes(r.Bytes(r.Range(1, 32)))
			default:
				p.a.Op(fx.GAS)
			}
			p.h++
			p.a.Op(kind)
			if kind == fx.CALL || kind == fx.CALLCODE {
				p.h -= 6
			} else {
				p.h -= 5
			}
		case pick < 78: // LOGn
			k := r.Intn(5)
			for j := 0; j < k; j++ {
				p.pushVal()
			}
			p.offLen()
			p.a.Op(byte(fx.LOG0 + k))
			p.h -= k + 2
		case pick < 81: // CREATE(value, off, len)
			p.offLen()
			if r.Chance(1, 3) {
				p.a.PushU(1)
			} else {
				p.a.PushU(0)
			}
			p.h++
			p.a.Op(fx.CREATE)
			p.h -= 2
		case pick < 89 && depth < 3: // if-block
			p.ensure(floor, 1)
			pos := p.a.Len() + 1
			p.a.Op(0x61, 0, 0, fx.JUMPI)
			p.h--
			inner := p.h
			p.block(inner, depth+1)
			if r.Chance(1, 5) {
				p.terminate()
			}
			for p.h > inner {
				p.a.Op(fx.POP)
				p.h--
			}
			p.patch2(pos, p.a.Len())
			p.a.Op(fx.JUMPDEST)
		case pick < 93 && depth < 2: // counted loop
			p.a.PushU(uint64(r.Range(1, 5)))
			p.h++
			top := p.a.Len()
			p.a.Op(fx.JUMPDEST)
			inner := p.h
			p.block(inner, depth+2)
			for p.h > inner {
				p.a.Op(fx.POP)
				p.h--
			}
			p.a.Op(fx.PUSH1, 1, fx.SWAP1, fx.SUB, fx.DUP1, 0x61, byte(top>>8), byte(top), fx.JUMPI, fx.POP)
			p.h--
		case pick < 95: // unstructured jump to a random place (mostly invalid destinations)
			p.small(200)
			p.a.Op(fx.JUMP)
			p.h--
		default:
			p.pushVal()
			p.a.Op(fx.POP)
			p.h--
		}
		for p.h-floor > 40 {
			p.a.Op(fx.POP)
			p.h--
		}
	}
}

func (p *prog) terminate() {
	r := p.g.R
	switch r.Intn(7) {
	case 0:
		p.a.Op(fx.STOP)
	case 1, 2:
		p.small(64)
		p.small(64)
		p.a.Op(fx.RETURN)
		p.h -= 2
	case 3, 4:
		p.small(64)
		p.small(64)
		p.a.Op(fx.REVERT)
		p.h -= 2
	case 5:
		if r.Chance(1, 2) {
			p.a.Op(fx.ADDRESS)
		} else {
			p.a.PushAddr(p.someAddr())
		}
		p.a.Op(fx.SELFDESTRUCT)
	case 6:
		p.a.Op(fx.INVALID)
	}
}

// Grammar: straight-line and branching programs with balanced stacks over all valid opcodes.
func (g *Gen) Grammar() *Case {
	p := &prog{g: g, a: &fx.Asm{}, limit: g.R.Range(3, 60), raw: g.R.Chance(1, 4)}
	for p.ops < p.limit {
		p.block(0, 0)
	}
	if g.R.Chance(4, 5) {
		p.terminate()
	}
	kind := "grammar"
	if p.raw {
		kind = "grammar-raw-operands"
	}
	return g.place(kind, p.a.Bytes())
}

// ---- templates -----------------------------------------------------------------------

var leafKinds = []string{"store", "storeif", "storefix", "reverter", "loop", "invalid", "logger", "suicide-to", "suicide-self", "recursive", "creator",
	"fwd-store", "fwd-reverter", "fwd-suicide", "delegate-store", "callcode-store", "static-store", "fwd-then-revert", "delegate-suicide",
	"callback-revert", "callback-ok", "store-kill-load", "store-kill-load-ok", "value-in-out-revert", "value-in-out", "double-create-revert", "double-create"}

// sameBlock returns runtime code for a template deployed in the case's own block.
func (g *Gen) sameBlock(pre *[]PreOp) (string, common.Address) {
	r := g.R
	a := g.freshAddr()
	var code []byte
	var name string
	switch r.Intn(9) {
	case 0:
		name, code = "sb-store", fx.RtStoreCalldata()
	case 1:
		name, code = "sb-reverter", fx.RtStoreThenRevert(uint64(r.Intn(8)), uint64(r.Range(1, 9)))
	case 2:
		name, code = "sb-suicide-self", fx.RtSuicideSelf()
	case 3:
		name, code = "sb-suicide-to", fx.RtSuicideTo(g.B.Sink)
	case 4:
		name, code = "sb-logger", fx.RtLog(0xabc, 4, 11)
	case 5:
		x := g.freshAddr()
		*pre = append(*pre, PreOp{Addr: x.Hex(), Code: RtCallbackRevert()})
		name, code = "sb-store-kill-load", RtStoreKillLoad(1, 0x77, x, 2)
	case 6:
		name, code = "sb-double-create-revert", RtDoubleCreate(fx.RtStore(5, 5), true)
	case 7:
		name, code = "sb-value-in-out-revert", RtValueInOut(g.B.Zoo["reverter"], g.B.Sink, true)
	case 8:
		name, code = "sb-creator", fx.RtCreateChild(fx.RtStore(uint64(r.Intn(8)), 5), 6)
	}
	p := PreOp{Addr: a.Hex(), Code: code}
	if r.Chance(1, 2) {
		p.Balance = "50"
	}
	if r.Chance(1, 2) {
		p.Storage = map[string]string{fmt.Sprint(r.Intn(6)): "0b"}
	}
	*pre = append(*pre, p)
	return name, a
}

// nest builds a callee: a leaf (committed zoo contract, same-block contract, precompile,
// plain account) or a same-block forwarder around another callee.
func (g *Gen) nest(depth int, pre *[]PreOp) (string, common.Address) {
	r := g.R
	if depth <= 0 || r.Chance(1, 3) {
		switch r.Intn(10) {
		case 0:
			n := r.Range(1, 9)
			return fmt.Sprintf("pc%d", n), common.BytesToAddress([]byte{byte(n)})
		case 1:
			return "eoa", g.B.Sink
		case 2, 3, 4:
			return g.sameBlock(pre)
		}
		k := leafKinds[r.Intn(len(leafKinds))]
		return k, g.B.Zoo[k]
	}
	name, callee := g.nest(depth-1, pre)
	kinds := []byte{fx.CALL, fx.CALL, fx.CALLCODE, fx.DELEGATECALL, fx.STATICCALL}
	kind := kinds[r.Intn(len(kinds))]
	gas := []uint64{0, 0, 2300, 10000, 100000}[r.Intn(5)]
	var value *big.Int
	switch r.Intn(5) {
	case 0:
		value = big.NewInt(0)
	case 1:
		value = big.NewInt(1)
	case 2:
		value = hugeValue
	}
	a := g.freshAddr()
	var code []byte
	kn := map[byte]string{fx.CALL: "call", fx.CALLCODE: "callcode", fx.DELEGATECALL: "delegate", fx.STATICCALL: "static"}[kind]
	switch r.Intn(4) {
	case 0:
		code = fx.RtForwardThenRevert(kind, callee, gas, value)
		kn += "-then-revert"
	case 1:
		code = RtCallWithData(kind, callee, gas, value, g.input(), 10)
		kn += "-data"
	default:
		code = fx.RtForward(kind, callee, gas, value, 10)
	}
	p := PreOp{Addr: a.Hex(), Code: code}
	if r.Chance(1, 2) {
		p.Balance = "100"
	}
	*pre = append(*pre, p)
	return kn + ">" + name, a
}

// Template: contracts with known effects and nested compositions of them.
func (g *Gen) Template() *Case {
	c := &Case{}
	name, to := g.nest(g.R.Intn(4), &c.Pre)
	c.Kind = "template:" + name
	c.To = to.Hex()
	c.Gas, c.Value, c.Input = g.gas(), g.value(), g.input()
	switch g.R.Intn(10) {
	case 0:
		c.Entry, c.Value = "static", "0"
	case 1:
		c.Entry = "callcode"
	default:
		c.Entry = "call"
	}
	if g.R.Chance(1, 2) && (name == "store-kill-load" || name == "sb-store-kill-load" || name == "double-create-revert" || name == "sb-double-create-revert") {
		c.Input = nil
		c.Gas = 5000000
	}
	if name == "recursive" && g.R.Chance(1, 2) {
		c.Gas, c.Entry = DepthGas, "call"
	}
	return g.finish(c)
}

// ---- precompiles ---------------------------------------------------------------------

func rewardJSON(term uint32, v *big.Int) []byte {
	b, _ := json.Marshal(&params.RewardJson{Term: term, Value: v})
	return b
}

// Precompile: inputs for 0x01..0x09, called directly and through a forwarder.
func (g *Gen) Precompile() *Case {
	r := g.R
	n := r.Range(1, 9)
	var in []byte
	switch r.Intn(5) {
	case 0:
		in = nil
	case 1:
		in = r.Bytes(r.Intn(300))
	default:
		switch n {
		case 1:
			in = r.Bytes(128)
			for i := 32; i < 63; i++ {
				in[i] = 0
			}
			in[63] = byte(27 + r.Intn(3))
		case 5:
			lens := [3]uint64{uint64(r.Intn(40)), uint64(r.Intn(40)), uint64(r.Intn(40))}
			if r.Chance(1, 4) {
				lens[r.Intn(3)] = []uint64{1 << 20, 1 << 32, 1<<63 + 5, ^uint64(0)}[r.Intn(4)]
			}
			in = append(append(fx.Word(lens[0]), fx.Word(lens[1])...), fx.Word(lens[2])...)
			in = append(in, r.Bytes(r.Intn(130))...)
		case 6:
			in = append(append(fx.Word(1), fx.Word(2)...), append(fx.Word(1), fx.Word(2)...)...)
			if r.Chance(1, 3) {
				in[r.Intn(len(in))] ^= 1
			}
		case 7:
			in = append(append(fx.Word(1), fx.Word(2)...), r.Bytes(32)...)
		case 8:
			in = r.Bytes(192 * r.Intn(3))
			if r.Chance(1, 3) {
				in = append(in, 1)
			}
		case 9:
			switch r.Intn(8) {
			case 0:
				in = []byte(`{}`)
			case 1:
				in = []byte(`{"term":0}`)
			case 2:
				in = []byte(`{"value":"5"}`)
			case 3:
				in = rewardJSON(uint32(r.Intn(3)), new(big.Int).Mul(params.TermRewardPoolTotal, big.NewInt(2)))
			case 4:
				in = []byte(`{"term":"0x0","value":"-5"}`)
			case 5:
				in = []byte(`{"term":"0xffffffff","value":"7"}`)
			default:
				in = rewardJSON(uint32(r.Intn(3)), fx.LEMO(int64(r.Range(0, 5000))))
			}
		default:
			in = r.Bytes(32 * r.Intn(5))
		}
	}
	pc := common.BytesToAddress([]byte{byte(n)})
	c := &Case{Kind: fmt.Sprintf("precompile:%d", n), Gas: g.gas(), Value: g.value()}
	if n == 9 {
		if r.Chance(2, 3) {
			c.Caller = g.B.W.Founder.Addr.Hex()
		}
		if r.Chance(1, 6) {
			c.RewardMgr = g.B.Plain.Addr.Hex()
			c.Caller = c.RewardMgr
		}
	}
	switch r.Intn(6) {
	case 0:
		c.Entry, c.To, c.Input, c.Value = "static", pc.Hex(), in, "0"
	case 1, 2: // through a forwarder contract (the precompile's caller is the contract)
		kind := []byte{fx.CALL, fx.CALLCODE, fx.DELEGATECALL, fx.STATICCALL}[r.Intn(4)]
		a := g.freshAddr()
		c.Pre = []PreOp{{Addr: a.Hex(), Code: RtCallWithData(kind, pc, 0, big.NewInt(0), in, 10)}}
		c.Entry, c.To = "call", a.Hex()
		c.Kind += ":forwarded"
		if n == 9 && r.Chance(1, 2) {
			c.RewardMgr = a.Hex()
		}
	default:
		c.Entry, c.To, c.Input = "call", pc.Hex(), in
	}
	return g.finish(c)
}

// ---- asset transfers -----------------------------------------------------------------

func transferJSON(id common.Hash, amount *big.Int, input []byte) []byte {
	b, err := json.Marshal(&types.TransferAsset{AssetId: id, Amount: amount, Input: input})
	if err != nil {
		panic(err)
	}
	return b
}

// Asset: evm.TransferAssetTx from the holder to contracts / accounts.
func (g *Gen) Asset() *Case {
	r := g.R
	c := &Case{Kind: "asset", Entry: "asset", Gas: g.gas(), Caller: g.B.Holder.Addr.Hex()}
	id := g.B.IDs[r.Intn(len(g.B.IDs))]
	if r.Chance(1, 8) {
		id = common.BytesToHash(r.Bytes(32))
	}
	var amount *big.Int
	switch r.Intn(6) {
	case 0:
		amount = big.NewInt(0)
	case 1:
		amount = big.NewInt(1 << 40)
	case 2:
		amount = big.NewInt(-5)
	default:
		amount = big.NewInt(int64(r.Range(1, 60)))
	}
	name, to := g.nest(r.Intn(2), &c.Pre)
	switch r.Intn(6) {
	case 0:
		name, to = "zero", common.Address{}
	case 1:
		name, to = "self", g.B.Holder.Addr
	}
	if r.Chance(1, 6) {
		c.Caller = g.B.Voter.Addr.Hex()
	}
	c.Kind = "asset>" + name
	c.To = to.Hex()
	c.Input = transferJSON(id, amount, g.input())
	if r.Chance(1, 12) {
		c.Input = g.R.Bytes(r.Intn(40))
	}
	return g.finish(c)
}

// Next draws one case of the mixed workload.
func (g *Gen) Next() *Case {
	switch p := g.R.Intn(100); {
	case p < 25:
		return g.Random()
	case p < 55:
		return g.Grammar()
	case p < 85:
		return g.Template()
	case p < 93:
		return g.Precompile()
	default:
		return g.Asset()
	}
}

// Fixed is the regression list (every tier, every seed).
func Fixed(b *Base) []*Case {
	g := &Gen{B: b, R: run.NewRng(0xF1, 1)}
	plain, founder := b.Plain.Addr.Hex(), b.W.Founder.Addr.Hex()
	mk := func(name, entry string, to common.Address, gas uint64, value string, in []byte, pre ...PreOp) *Case {
		return g.finish(&Case{Kind: "fixed:" + name, Entry: entry, Caller: plain, To: to.Hex(), Gas: gas, Value: value, Input: in, Pre: pre,
			TxHash: common.BytesToHash([]byte(name)).Hex()})
	}
	var out []*Case
	// revert after self-destruct: committed code, and contract created in the same block
	out = append(out, mk("suicide-revert-committed", "call", b.Zoo["store-kill-load"], 5000000, "0", nil))
	out = append(out, mk("suicide-no-revert-committed", "call", b.Zoo["store-kill-load-ok"], 5000000, "0", nil))
	x, a := common.HexToAddress("0xc0de000000000000000000000000000000000a01"), common.HexToAddress("0xc0de000000000000000000000000000000000a02")
	out = append(out, mk("suicide-revert-same-block", "call", a, 5000000, "0", nil,
		PreOp{Addr: x.Hex(), Code: RtCallbackRevert()}, PreOp{Addr: a.Hex(), Code: RtStoreKillLoad(1, 0x77, x, 2), Balance: "9"}))
	// version gap after inner revert (EVM form)
	out = append(out, mk("version-gap-committed", "call", b.Zoo["value-in-out-revert"], 5000000, "5", nil))
	out = append(out, mk("version-gap-no-revert", "call", b.Zoo["value-in-out"], 5000000, "5", nil))
	v := common.HexToAddress("0xc0de000000000000000000000000000000000a03")
	out = append(out, mk("version-gap-same-block", "call", v, 5000000, "5", nil, PreOp{Addr: v.Hex(), Code: RtValueInOut(b.Zoo["reverter"], b.Sink, true)}))
	// second CREATE by the same creator in the same transaction inside a reverted frame
	out = append(out, mk("double-create-revert", "call", b.Zoo["double-create-revert"], 5000000, "0", nil))
	out = append(out, mk("double-create", "call", b.Zoo["double-create"], 5000000, "0", nil))
	// depth
	out = append(out, mk("depth", "call", b.Zoo["recursive"], DepthGas, "0", nil))
	// asset transfer into a reverting / storing / self-destructing contract, first equity of the receiver
	holder := b.Holder.Addr.Hex()
	for _, k := range []string{"reverter", "store", "suicide-self", "loop", "store-kill-load"} {
		c := mk("asset-to-"+k, "asset", b.Zoo[k], 5000000, "0", transferJSON(b.IDs[1], big.NewInt(7), nil))
		c.Caller, c.Origin = holder, holder
		out = append(out, c)
	}
	c := mk("asset-destroy", "asset", common.Address{}, 100000, "0", transferJSON(b.IDs[0], big.NewInt(7), nil))
	c.Caller, c.Origin = holder, holder
	out = append(out, c)
	// reward precompile: manager / not manager / incomplete JSON
	nine := common.BytesToAddress([]byte{9})
	for i, in := range [][]byte{rewardJSON(0, fx.LEMO(100)), []byte(`{}`), []byte(`{"term":0}`), []byte(`{"value":"5"}`), nil} {
		c := mk(fmt.Sprintf("reward-manager-%d", i), "call", nine, 100000, "0", in)
		c.Caller, c.Origin = founder, founder
		out = append(out, c)
		out = append(out, mk(fmt.Sprintf("reward-stranger-%d", i), "call", nine, 100000, "0", in))
	}
	// static call into a writer, directly and nested
	out = append(out, mk("static-store", "static", b.Zoo["storefix"], 100000, "0", nil))
	out = append(out, mk("static-nested-store", "call", b.Zoo["static-store"], 200000, "0", nil))
	out = append(out, mk("static-fwd-reverter", "static", b.Zoo["fwd-reverter"], 200000, "0", nil))
	// the reward setter reached in a read-only context (only possible when the configured reward manager is a contract)
	c = mk("static-reward-manager", "static", nine, 100000, "0", rewardJSON(1, fx.LEMO(100)))
	c.RewardMgr = c.Caller
	out = append(out, c)
	fw := common.HexToAddress("0xc0de000000000000000000000000000000000a04")
	c = mk("staticcall-reward-from-manager-contract", "call", fw, 300000, "0", nil, PreOp{Addr: fw.Hex(), Code: RtCallWithData(fx.STATICCALL, nine, 0, nil, rewardJSON(1, fx.LEMO(100)), 10)})
	c.RewardMgr = fw.Hex()
	out = append(out, c)
	return out
}
