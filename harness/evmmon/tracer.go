package evmmon

import (
	"fmt"
	"math/big"
	"time"

	"github.com/LemoFoundationLtd/lemochain-core/chain/vm"
	"github.com/LemoFoundationLtd/lemochain-core/common"
)

type frame struct {
	depth    int
	lastGas  uint64
	lastCost uint64
	lastOp   vm.OpCode
	lastVal  bool // last op was CALL/CALLCODE with non-zero value (callee gets the 2300 stipend)
	have     bool
	childGas uint64 // gas the callee frame started with (first step), if it ran any step
	childRun bool
}

// GasFinding is one violated gas clause seen by the tracer.
type GasFinding struct {
	Clause string // cost-above-available | frame-gas-increased | free-op:<OP>
	Op     string
	Depth  int
	Detail string
}

// Tracer implements vm.Tracer: counts executed steps, tracks the call depth and checks the
// per-frame gas clauses.
type Tracer struct {
	Steps    int64
	Faults   int64
	MaxDepth int
	Ops      map[string]int64
	Findings []GasFinding
	frames   []*frame

	// OnStep, if set, is called for every executed step (used for the nested static-call clause).
	OnStep func(op vm.OpCode, depth int, stack *vm.Stack)
	// OnLeave is called when execution is seen back at (or above) a depth after deeper frames ran.
	started, ended bool
	EndGasUsed     uint64
	EndErr         string
}

func NewTracer() *Tracer { return &Tracer{Ops: map[string]int64{}} }

func isCallOp(op vm.OpCode) bool {
	return op == vm.CALL || op == vm.CALLCODE || op == vm.DELEGATECALL || op == vm.STATICCALL
}

func halting(op vm.OpCode) bool {
	return op == vm.STOP || op == vm.RETURN || op == vm.REVERT || op == vm.SELFDESTRUCT
}

func (t *Tracer) find(clause string, op vm.OpCode, depth int, detail string) {
	if len(t.Findings) < 8 {
		t.Findings = append(t.Findings, GasFinding{Clause: clause, Op: op.String(), Depth: depth, Detail: detail})
	}
}

func (t *Tracer) CaptureStart(from common.Address, to common.Address, call bool, input []byte, gas uint64, value *big.Int) error {
	t.started = true
	return nil
}

func (t *Tracer) CaptureState(env *vm.EVM, pc uint64, op vm.OpCode, gas, cost uint64, memory *vm.Memory, stack *vm.Stack, contract *vm.Contract, depth int, err error) error {
	if depth > t.MaxDepth {
		t.MaxDepth = depth
	}
	if err != nil {
		// deferred capture of a step that failed before it was charged / executed
		t.Faults++
		return nil
	}
	t.Steps++
	if t.Ops != nil {
		t.Ops[op.String()]++
	}
	if cost > gas {
		t.find("cost-above-available", op, depth, fmt.Sprintf("cost %d > gas %d", cost, gas))
	}
	if cost == 0 && !halting(op) {
		t.find("free-op:"+op.String(), op, depth, "a non-halting instruction was charged nothing")
	}
	// frame bookkeeping
	for len(t.frames) > 0 && t.frames[len(t.frames)-1].depth > depth {
		t.frames = t.frames[:len(t.frames)-1]
	}
	var f *frame
	if len(t.frames) > 0 && t.frames[len(t.frames)-1].depth == depth {
		f = t.frames[len(t.frames)-1]
	} else {
		f = &frame{depth: depth}
		// tell the parent frame what the callee started with
		if len(t.frames) > 0 {
			par := t.frames[len(t.frames)-1]
			if par.depth == depth-1 && !par.childRun {
				par.childRun, par.childGas = true, gas
			}
		}
		t.frames = append(t.frames, f)
	}
	if f.have {
		bound := f.lastGas - f.lastCost // lastCost <= lastGas was checked
		if f.lastCost > f.lastGas {
			bound = 0
		}
		switch {
		case isCallOp(f.lastOp):
			if f.childRun {
				bound += f.childGas
			} else {
				bound += f.lastCost
				if f.lastVal {
					bound += 2300
				}
			}
		}
		if gas > bound {
			t.find("frame-gas-increased", f.lastOp, depth, fmt.Sprintf("gas after %s is %d, at most %d possible (before %d, cost %d)", f.lastOp.String(), gas, bound, f.lastGas, f.lastCost))
		}
	}
	f.have, f.lastGas, f.lastCost, f.lastOp = true, gas, cost, op
	f.childRun, f.childGas = false, 0
	f.lastVal = false
	if (op == vm.CALL || op == vm.CALLCODE) && stack != nil {
		if d := stack.Data(); len(d) >= 3 && d[len(d)-3].Sign() != 0 {
			f.lastVal = true
		}
	}
	if t.OnStep != nil {
		t.OnStep(op, depth, stack)
	}
	return nil
}

func (t *Tracer) CaptureFault(env *vm.EVM, pc uint64, op vm.OpCode, gas, cost uint64, memory *vm.Memory, stack *vm.Stack, contract *vm.Contract, depth int, err error) error {
	t.Faults++
	return nil
}

func (t *Tracer) CaptureEnd(output []byte, gasUsed uint64, d time.Duration, err error) error {
	t.ended = true
	t.EndGasUsed = gasUsed
	if err != nil {
		t.EndErr = err.Error()
	}
	return nil
}
