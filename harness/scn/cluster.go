package scn

import (
	"encoding/hex"
	"fmt"
	"os"

	"github.com/LemoFoundationLtd/lemochain-core/chain/deputynode"
	"github.com/LemoFoundationLtd/lemochain-core/chain/params"
	"github.com/LemoFoundationLtd/lemochain-core/chain/types"
	"github.com/LemoFoundationLtd/lemochain-core/common"
	"github.com/LemoFoundationLtd/lemochain-core/common/rlp"

	"verif/fx"
	"verif/fx/run"
)

// Chain-wide parameters every chain-level engine process uses (process globals in the repo).
const (
	Term    = 12
	Interim = 3
)

// SetParams shrinks the term so that snapshot, reward and term-boundary heights are reached.
func SetParams() {
	params.TermDuration = Term
	params.InterimDuration = Interim
	params.MinCandidateDeposit = fx.LEMO(1000)
	params.RewardCheckHeight = 5
}

// Cluster is a set of nodes following the same chain.
type Cluster struct {
	W      *fx.World
	WCfg   fx.WorldCfg
	G      *Gen
	R      *run.Rng
	Nodes  []*fx.Node
	Head   *types.Block
	T      uint32
	Dir    string
	Chain  []*types.Block // accepted blocks, in order (height 1..)
	StabAt []uint32       // for every accepted block: stable height after it was processed
	Stable uint32
	Stuck  bool // a stabilisation did not take effect; the scenario cannot continue
}

// NewCluster builds a world and nNodes nodes (all with the outsider identity, so that the
// nodes never add confirms of their own).
func NewCluster(r *run.Rng, wcfg fx.WorldCfg, nNodes int, gcfg Cfg) *Cluster {
	w := fx.NewWorld(wcfg)
	wcfg.GenesisTime = w.GenesisTime
	wcfg.SlotMs = w.SlotMs
	cl := &Cluster{W: w, WCfg: wcfg, R: r, Dir: fx.ScratchDir("cluster")}
	for i := 0; i < nNodes; i++ {
		cl.Nodes = append(cl.Nodes, w.NewNode(fx.PathOf(cl.Dir, fmt.Sprintf("n%d", i)), w.Outsider))
	}
	cl.G = NewGen(w, r, gcfg)
	cl.Head = cl.Nodes[0].BC.CurrentBlock()
	cl.T = cl.Head.Time()
	return cl
}

// Close destroys all nodes.
func (cl *Cluster) Close() {
	for _, n := range cl.Nodes {
		n.Close()
	}
	_ = os.RemoveAll(cl.Dir)
}

// NextTime advances chain time by 1..2 slots (at least one second).
func (cl *Cluster) NextTime() uint32 {
	slot := int(cl.W.SlotMs / 1000)
	if slot < 1 {
		slot = 1
	}
	cl.T = cl.Head.Time() + uint32(cl.R.Range(1, 2*slot))
	return cl.T
}

// Txs extracts the transactions of a candidate list.
func Txs(cs []Cand) types.Transactions {
	out := make(types.Transactions, len(cs))
	for i, c := range cs {
		out[i] = c.Tx
	}
	return out
}

// Included returns the set of tx hashes included in a block (top level).
func Included(b *types.Block) map[common.Hash]bool {
	m := map[common.Hash]bool{}
	for _, tx := range b.Txs {
		m[tx.Hash()] = true
	}
	return m
}

// InsertAll offers the block to every node (wire round trip each time) and returns the errors.
func (cl *Cluster) InsertAll(b *types.Block) []error {
	errs := make([]error, len(cl.Nodes))
	for i, n := range cl.Nodes {
		errs[i] = n.Insert(b, i%2 == 0)
	}
	return errs
}

// Adopt records an accepted block as the new head.
func (cl *Cluster) Adopt(b *types.Block) {
	cl.Head = b
	cl.Chain = append(cl.Chain, b)
	cl.G.Accepted(b)
	cl.StabAt = append(cl.StabAt, cl.Stable)
}

// StabiliseAll makes the head stable on every node.
func (cl *Cluster) StabiliseAll() bool {
	for _, n := range cl.Nodes {
		n.Stabilise(cl.Head)
		if n.BC.StableBlock().Hash() != cl.Head.Hash() {
			// e.g. the store cannot encode the block's change logs (negative vote count, C11)
			cl.Stuck = true
			return false
		}
	}
	cl.Stable = cl.Head.Height()
	cl.G.StableH = cl.Stable
	if len(cl.StabAt) > 0 {
		cl.StabAt[len(cl.StabAt)-1] = cl.Stable
	}
	for _, n := range cl.Nodes {
		n.WaitQueue()
	}
	return true
}

// MustStabiliseSoon reports whether the head has to become stable before the chain may
// continue (the next term's deputies are loaded from a stable snapshot block).
func (cl *Cluster) MustStabiliseSoon() bool {
	h := cl.Head.Height() + 1
	if deputynode.IsRewardBlock(h) || h%params.TermDuration == params.InterimDuration {
		return true
	}
	// keep the unconfirmed tree short
	return cl.Head.Height()-cl.Stable >= 4
}

// IsSnapshotNext tells whether the next block is a term snapshot block.
func (cl *Cluster) IsSnapshotNext() bool { return deputynode.IsSnapshotBlock(cl.Head.Height() + 1) }

// Witness is a fully materialised step: everything needed to rebuild the chain prefix and
// re-run one step without the generator.
type Witness struct {
	World   fx.WorldCfg
	Nodes   int
	Blocks  []string // RLP hex of accepted blocks (with change logs)
	StabAt  []uint32
	Time    uint32
	Cands   []string // RLP hex of the step's candidates
	Kinds   []string
	Expects []string
	Note    string
	// GasLimit is the block gas limit the miners chose for the step (0 = the default strategy)
	GasLimit uint64
}

func encHex(v interface{}) string {
	b, err := rlp.EncodeToBytes(v)
	if err != nil {
		return "ERR:" + err.Error()
	}
	return hex.EncodeToString(b)
}

// Witness materialises the current prefix plus a step.
func (cl *Cluster) Witness(t uint32, cands []Cand, note string) *Witness {
	w := &Witness{World: cl.WCfg, Nodes: len(cl.Nodes), Time: t, Note: note, StabAt: append([]uint32{}, cl.StabAt...), GasLimit: cl.Nodes[0].GasLimit}
	for _, b := range cl.Chain {
		w.Blocks = append(w.Blocks, encHex(b))
	}
	for _, c := range cands {
		w.Cands = append(w.Cands, encHex(c.Tx))
		w.Kinds = append(w.Kinds, c.Kind)
		w.Expects = append(w.Expects, c.Expect)
	}
	return w
}

// Rebuild recreates a cluster from a witness (chain prefix inserted and stabilised as recorded).
func Rebuild(w *Witness) (*Cluster, []Cand, error) {
	r := run.NewRng(0)
	cl := NewCluster(r, w.World, w.Nodes, DefaultCfg())
	for i, hx := range w.Blocks {
		raw, err := hex.DecodeString(hx)
		if err != nil {
			return cl, nil, err
		}
		b := new(types.Block)
		if err := rlp.DecodeBytes(raw, b); err != nil {
			return cl, nil, err
		}
		for j, e := range cl.InsertAll(b) {
			if e != nil {
				return cl, nil, fmt.Errorf("rebuild: node %d rejects recorded block %d: %v", j, b.Height(), e)
			}
		}
		cl.Adopt(b)
		if i < len(w.StabAt) && w.StabAt[i] == b.Height() {
			cl.StabiliseAll()
		}
	}
	for _, n := range cl.Nodes {
		n.GasLimit = w.GasLimit
	}
	var cands []Cand
	for i, hx := range w.Cands {
		raw, err := hex.DecodeString(hx)
		if err != nil {
			return cl, nil, err
		}
		tx := new(types.Transaction)
		if err := rlp.DecodeBytes(raw, tx); err != nil {
			return cl, nil, err
		}
		c := Cand{Tx: tx}
		if i < len(w.Kinds) {
			c.Kind = w.Kinds[i]
		}
		if i < len(w.Expects) {
			c.Expect = w.Expects[i]
		}
		cl.G.U.Tx(tx)
		cands = append(cands, c)
	}
	return cl, cands, nil
}

// LogTypeDiff describes how two change-log lists differ, by log type name.
func LogTypeDiff(a, b types.ChangeLogSlice) string {
	cnt := map[string]int{}
	for _, l := range a {
		cnt[l.LogType.String()]++
	}
	for _, l := range b {
		cnt[l.LogType.String()]--
	}
	out := ""
	for _, name := range sortedKeys(cnt) {
		if cnt[name] > 0 {
			out += "+" + name
		} else if cnt[name] < 0 {
			out += "-" + name
		}
	}
	if out == "" {
		// same multiset: look for the first differing entry
		for i := range a {
			if i >= len(b) || a[i].Hash() != b[i].Hash() {
				return "changed:" + a[i].LogType.String()
			}
		}
		return "same"
	}
	return out
}

func sortedKeys(m map[string]int) []string {
	ks := make([]string, 0, len(m))
	for k := range m {
		ks = append(ks, k)
	}
	for i := 1; i < len(ks); i++ {
		for j := i; j > 0 && ks[j] < ks[j-1]; j-- {
			ks[j], ks[j-1] = ks[j-1], ks[j]
		}
	}
	return ks
}
