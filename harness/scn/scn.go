// Package scn generates chain scenarios: a world, and per block a list of candidate
// transactions drawn from a zoo of all 11 transaction types in valid, failing-but-included
// and must-discard variants. It keeps a light intent model (which contracts, assets,
// candidates and multisig accounts the scenario tried to create) and confirms it by
// reading the node, so generated transactions are mostly meaningful.
package scn

import (
	"encoding/json"
	"fmt"
	"math/big"
	"sort"

	"github.com/LemoFoundationLtd/lemochain-core/chain/params"
	"github.com/LemoFoundationLtd/lemochain-core/chain/types"
	"github.com/LemoFoundationLtd/lemochain-core/common"
	"github.com/LemoFoundationLtd/lemochain-core/common/crypto"

	"verif/fx"
	"verif/fx/run"
)

// Cand is one candidate transaction with the generator's expectation.
type Cand struct {
	Tx   *types.Transaction
	Kind string // zoo entry name (fingerprint material)
	// Expect: "ok" included and succeeds, "fail" included but fails (gas charged),
	// "discard" must not be included, "any" generator does not know
	Expect string
}

type Contract struct {
	Addr common.Address
	Kind string
}

type AssetInfo struct {
	Code      common.Hash
	Issuer    int // user index
	Category  uint32
	Divisible bool
	Replen    bool
	CreatedAt uint32 // height of the creating block
	IDs       []common.Hash
	IDOwner   map[common.Hash]int
	IssuedAt  map[common.Hash]uint32
}

// Gen is the scenario generator state.
type Gen struct {
	W   *fx.World
	B   fx.TxB
	R   *run.Rng
	U   *fx.Universe
	Cfg Cfg

	Contracts  []Contract
	Assets     []*AssetInfo
	Cands      map[int]bool // user index -> registered (intent)
	Unreg      map[int]bool
	Multisig   map[int][]int // user index -> signer user indexes (weights 50 each ...)
	Pending    []func(ok func(common.Hash) bool, height uint32)
	StableH    uint32
	RandomCode bool
	// emitted holds the hash of every candidate (and box sub-transaction) Next has handed out: two draws can
	// coincide in every field (same sender, arguments and expiry), and a transaction that is already in the chain
	// is not something an honest miner is offered by its pool (replays are C04's subject, built there on purpose)
	emitted map[common.Hash]bool
}

// Cfg tunes a generator.
type Cfg struct {
	Users      int
	RandomCode bool // include random-bytecode contracts
	Votes      bool // include vote / candidate txs
	Assets     bool
	Boxes      bool
	Multisig   bool
	Discards   bool // include must-discard candidates
	Known      bool // include the shapes of known findings (oversized modify-asset discard, box)
	// Mode shifts the distribution: "" general, "votes" vote/deposit/balance-boundary heavy,
	// "assets" asset heavy with hostile amounts / senders / receivers.
	Mode            string
	DedicatedIncome bool // candidates' income addresses are accounts that never vote or transact
	Fund            int64 // LEMO given to every user in the first block (0 = 2,000,000)
}

func DefaultCfg() Cfg {
	return Cfg{Users: 10, RandomCode: true, Votes: true, Assets: true, Boxes: true, Multisig: true, Discards: true, Known: true}
}

func NewGen(w *fx.World, r *run.Rng, cfg Cfg) *Gen {
	g := &Gen{W: w, B: fx.TxB{W: w}, R: r, U: fx.NewUniverse(), Cfg: cfg, Cands: map[int]bool{}, Unreg: map[int]bool{}, Multisig: map[int][]int{}}
	g.U.World(w)
	return g
}

func (g *Gen) user() int { return g.R.Intn(len(g.W.Users)) }

// income picks the income address a registering candidate names.
func (g *Gen) income(u int) common.Address {
	if g.Cfg.DedicatedIncome {
		a := fx.NewKey("candidate-income", u).Addr
		g.U.Addr(a)
		return a
	}
	return g.key(g.user()).Addr
}
func (g *Gen) key(i int) fx.Key   { return g.W.Users[i] }
func (g *Gen) exp(t uint32) uint64 { return uint64(t) + uint64(g.R.Range(60, 1700)) }

func (g *Gen) cand(tx *types.Transaction, kind, expect string) Cand {
	g.U.Tx(tx)
	return Cand{Tx: tx, Kind: kind, Expect: expect}
}

// Setup returns the candidates of the first blocks: funding, zoo contracts.
func (g *Gen) Setup(t uint32) []Cand {
	var out []Cand
	exp := uint64(t) + 1000
	for i, u := range g.W.Users {
		fund := g.Cfg.Fund
		if fund == 0 {
			fund = 2000000
		}
		amt := fx.LEMO(fund + int64(200*i))
		if g.Cfg.Fund == 0 {
			amt = fx.LEMO(int64(2000000 + 1000*i))
		}
		out = append(out, g.cand(g.B.Transfer(g.W.Founder, u.Addr, amt, exp+uint64(i)), "fund", "ok"))
	}
	// zoo contracts deployed by the founder
	sink := g.W.Users[0].Addr
	zoo := []struct {
		kind string
		rt   []byte
	}{
		{"store", fx.RtStoreCalldata()},
		{"storeif", fx.RtStoreIfData()},
		{"storefix", fx.RtStore(1, 7)},
		{"reverter", fx.RtStoreThenRevert(2, 9)},
		{"loop", fx.RtLoop()},
		{"invalid", fx.RtInvalid(3, 5)},
		{"logger", fx.RtLog(0xabc, 4, 11)},
		{"suicide-to", fx.RtSuicideTo(sink)},
		{"suicide-self", fx.RtSuicideSelf()},
		{"recursive", fx.RtRecursive()},
		{"creator", fx.RtCreateChild(fx.RtStore(5, 5), 6)},
		{"callcode-value-loop", fx.RtCallcodeValueLoop(700, common.HexToAddress("0x00000000000000000000000000000000000dead1"))},
	}
	for i, z := range zoo {
		tx := g.B.Create(g.W.Founder, fx.InitCode(z.rt), big.NewInt(0), 1500000, exp+100+uint64(i))
		out = append(out, g.cand(tx, "deploy-"+z.kind, "ok"))
		addr := crypto.CreateContractAddress(g.W.Founder.Addr, tx.Hash())
		g.Contracts = append(g.Contracts, Contract{Addr: addr, Kind: z.kind})
		g.U.Addr(addr)
	}
	return out
}

// Setup2 deploys contracts that reference first-generation ones.
func (g *Gen) Setup2(t uint32) []Cand {
	var out []Cand
	exp := uint64(t) + 1000
	byKind := func(k string) common.Address {
		for _, c := range g.Contracts {
			if c.Kind == k {
				return c.Addr
			}
		}
		return common.Address{}
	}
	second := []struct {
		kind string
		rt   []byte
	}{
		{"fwd-store", fx.RtForward(fx.CALL, byKind("storefix"), 0, nil, 10)},
		{"fwd-reverter", fx.RtForward(fx.CALL, byKind("reverter"), 0, nil, 10)},
		{"fwd-suicide", fx.RtForward(fx.CALL, byKind("suicide-to"), 0, nil, 10)},
		{"delegate-store", fx.RtForward(fx.DELEGATECALL, byKind("storefix"), 0, nil, 10)},
		{"callcode-store", fx.RtForward(fx.CALLCODE, byKind("storefix"), 0, big.NewInt(0), 10)},
		{"static-store", fx.RtForward(fx.STATICCALL, byKind("storefix"), 0, nil, 10)},
		{"fwd-then-revert", fx.RtForwardThenRevert(fx.CALL, byKind("storefix"), 0, nil)},
		{"delegate-suicide", fx.RtForward(fx.DELEGATECALL, byKind("suicide-to"), 0, nil, 10)},
	}
	for i, z := range second {
		tx := g.B.Create(g.W.Founder, fx.InitCode(z.rt), big.NewInt(0), 1500000, exp+200+uint64(i))
		out = append(out, g.cand(tx, "deploy-"+z.kind, "ok"))
		addr := crypto.CreateContractAddress(g.W.Founder.Addr, tx.Hash())
		g.Contracts = append(g.Contracts, Contract{Addr: addr, Kind: z.kind})
		g.U.Addr(addr)
	}
	for k := uint64(0); k < 12; k++ {
		g.U.StorageKey(fx.HashU(k))
	}
	return out
}

// ByKind returns the zoo contract of a kind.
func (g *Gen) ByKind(k string) common.Address {
	for _, c := range g.Contracts {
		if c.Kind == k {
			return c.Addr
		}
	}
	return common.Address{}
}

// C is the exported form of cand (fixed regression scenarios build candidates by hand).
func (g *Gen) C(tx *types.Transaction, kind, expect string) Cand { return g.cand(tx, kind, expect) }

func (g *Gen) contract() (Contract, bool) {
	if len(g.Contracts) == 0 {
		return Contract{}, false
	}
	return g.Contracts[g.R.Intn(len(g.Contracts))], true
}

func (g *Gen) randomCode() []byte {
	n := g.R.Range(1, 60)
	b := g.R.Bytes(n)
	// bias towards interesting opcodes
	ops := []byte{fx.SSTORE, fx.SLOAD, fx.CALL, fx.CREATE, fx.SELFDESTRUCT, fx.LOG0, fx.REVERT, fx.RETURN, fx.JUMP, fx.JUMPI, fx.DELEGATECALL, fx.STATICCALL, fx.CALLVALUE, fx.ADDRESS, fx.BALANCE, fx.GAS, fx.PUSH1, fx.PUSH1, fx.PUSH1, fx.DUP1, fx.MSTORE}
	for i := range b {
		if g.R.Chance(1, 2) {
			b[i] = ops[g.R.Intn(len(ops))]
		}
	}
	return b
}

// Next draws the candidate list of one block at chain time t.
func (g *Gen) Next(t uint32, height uint32, n int) []Cand {
	var out []Cand
	if g.emitted == nil {
		g.emitted = map[common.Hash]bool{}
	}
	for len(out) < n {
		np := len(g.Pending)
		c, ok := g.one(t, height)
		if !ok {
			continue
		}
		hs := candHashes(c)
		dup := false
		seen := map[common.Hash]bool{}
		for _, h := range hs {
			if g.emitted[h] || seen[h] {
				dup = true
			}
			seen[h] = true
		}
		if dup {
			g.Pending = g.Pending[:np]
			continue
		}
		for _, h := range hs {
			g.emitted[h] = true
		}
		out = append(out, c...)
	}
	return out
}

// candHashes lists the hashes of the candidates and of the sub-transactions of boxes among them.
func candHashes(cs []Cand) []common.Hash {
	var hs []common.Hash
	for _, c := range cs {
		hs = append(hs, c.Tx.Hash())
		if c.Tx.Type() == params.BoxTx {
			if box, err := types.GetBox(c.Tx.Data()); err == nil {
				for _, s := range box.SubTxList {
					hs = append(hs, s.Hash())
				}
			}
		}
	}
	return hs
}

func (g *Gen) one(t uint32, height uint32) ([]Cand, bool) {
	exp := g.exp(t)
	u := g.user()
	k := g.key(u)
	if _, ms := g.Multisig[u]; ms {
		// multisig accounts cannot sign alone any more; pick another sender most of the time
		if g.R.Chance(3, 4) {
			return nil, false
		}
	}
	if g.Cfg.Discards && g.Cfg.Boxes && g.Cfg.Mode == "" && g.R.Chance(1, 8) {
		if c, ok := g.storePattern(t); ok {
			return c, true
		}
	}
	if g.Cfg.Mode == "" && g.R.Chance(1, 30) {
		// a contract that repeats a CALLCODE with value: what a value-bearing call costs and gives back (stipend) decides
		// whether the gas accounting of the transaction stays within its limit
		if a := g.ByKind("callcode-value-loop"); a != (common.Address{}) {
			return []Cand{g.cand(g.B.Call(k, a, fx.LEMO(1), uint64(g.R.Range(150000, 400000)), nil, exp), "call-callcode-value-loop", "any")}, true
		}
	}
	pick := g.R.Intn(100)
	switch g.Cfg.Mode {
	case "votes":
		// remap: 0-34 transfer, 35-64 vote, 65-79 register family, 80-89 contract call with value, 90-94 gas payer, 95-99 rest
		switch {
		case pick < 35:
			to := g.key(g.user()).Addr
			base := int64(g.R.Range(0, 6)) * 200
			amt := fx.LEMO(base)
			switch g.R.Intn(4) {
			case 0:
				amt.Add(amt, fx.LEMO(int64(g.R.Range(1, 199))))
			case 1:
				amt.Sub(amt, big.NewInt(int64(g.R.Intn(1000))))
				if amt.Sign() < 0 {
					amt.SetInt64(0)
				}
			case 2:
				amt.Add(amt, big.NewInt(int64(g.R.Intn(100000))))
			}
			return []Cand{g.cand(g.B.Transfer(k, to, amt, exp), "transfer", "ok")}, true
		case pick < 65:
			pick = 50
		case pick < 80:
			pick = 60
		case pick < 90:
			pick = 30
		case pick < 95:
			pick = 94
		default:
			pick = g.R.Intn(100)
		}
	case "assets":
		if pick < 75 {
			pick = 70
		} else if pick < 90 {
			pick = 5
		} else {
			pick = g.R.Intn(100)
		}
	}
	switch {
	case pick < 14: // plain transfer
		to := g.key(g.user()).Addr
		if g.R.Chance(1, 4) {
			to = common.BytesToAddress(g.R.Bytes(20))
			g.U.Addr(to)
		}
		amt := new(big.Int).Mul(big.NewInt(int64(g.R.Range(0, 400))), big.NewInt(1e18))
		if g.R.Chance(1, 3) {
			amt.Add(amt, big.NewInt(int64(g.R.Intn(1000))))
		}
		return []Cand{g.cand(g.B.Transfer(k, to, amt, exp), "transfer", "ok")}, true
	case pick < 18 && g.Cfg.Discards: // transfer more than the balance
		amt := fx.LEMO(900000000)
		return []Cand{g.cand(g.B.Transfer(k, g.key(g.user()).Addr, amt, exp), "transfer-overdraft", "discard")}, true
	case pick < 21 && g.Cfg.Discards: // signed by the wrong key
		other := g.key((u + 1) % len(g.W.Users))
		tx := fx.Sign(g.B.Unsigned(params.OrdinaryTx, k.Addr, &other.Addr, fx.LEMO(1), 100000, nil, exp), other)
		return []Cand{g.cand(tx, "bad-signature", "discard")}, true
	case pick < 24 && g.Cfg.Discards: // unfunded sender
		poor := fx.NewKey("poor", g.R.Intn(1000))
		g.U.Addr(poor.Addr)
		return []Cand{g.cand(g.B.Transfer(poor, k.Addr, big.NewInt(1), exp), "unfunded-sender", "discard")}, true
	case pick < 40: // call a zoo contract
		c, ok := g.contract()
		if !ok {
			return nil, false
		}
		if g.R.Chance(1, 3) {
			c = Contract{Addr: g.ByKind("store"), Kind: "store"} // storage churn: set, overwrite and clear a few slots
		}
		gas := uint64(g.R.Range(21000, 400000))
		val := big.NewInt(0)
		if g.R.Chance(1, 3) {
			val = fx.LEMO(int64(g.R.Range(1, 50)))
		}
		data := append(fx.Word(uint64(g.R.Intn(4))), fx.Word(uint64(g.R.Intn(3)))...)
		if g.R.Chance(1, 4) {
			data = g.R.Bytes(g.R.Intn(70))
		}
		return []Cand{g.cand(g.B.Call(k, c.Addr, val, gas, data, exp), "call-"+c.Kind, "any")}, true
	case pick < 46: // deploy a template or random bytecode
		var init []byte
		kind := "create-random"
		if g.Cfg.RandomCode && g.R.Chance(2, 3) {
			if g.R.Chance(1, 2) {
				init = g.randomCode() // random init code
			} else {
				init = fx.InitCode(g.randomCode())
				kind = "create-random-runtime"
			}
		} else {
			init = fx.InitCode(fx.RtStore(uint64(g.R.Intn(8)), uint64(g.R.Range(1, 9))))
			kind = "create-store"
		}
		val := big.NewInt(0)
		if g.R.Chance(1, 4) {
			val = fx.LEMO(int64(g.R.Range(1, 30)))
		}
		tx := g.B.Create(k, init, val, uint64(g.R.Range(60000, 900000)), exp)
		addr := crypto.CreateContractAddress(k.Addr, tx.Hash())
		g.U.Addr(addr)
		g.Contracts = append(g.Contracts, Contract{Addr: addr, Kind: "rnd"})
		return []Cand{g.cand(tx, kind, "any")}, true
	case pick < 56 && g.Cfg.Votes: // vote / re-vote
		var target common.Address
		if len(g.Unreg) > 0 && g.R.Chance(1, 5) {
			// a vote for a candidate that has unregistered must be refused
			var us []int
			for ui := range g.Unreg {
				us = append(us, ui)
			}
			sort.Ints(us)
			target = g.key(us[g.R.Intn(len(us))]).Addr
			return []Cand{g.cand(g.B.Vote(k, target, exp), "vote-for-unregistered", "any")}, true
		} else if g.R.Chance(1, 25) {
			// ... and so must a vote for an account that never registered
			return []Cand{g.cand(g.B.Vote(k, g.key(g.user()).Addr, exp), "vote-for-non-candidate", "any")}, true
		}
		if len(g.Cands) > 0 && g.R.Chance(2, 3) {
			var cis []int
			for ci := range g.Cands {
				cis = append(cis, ci)
			}
			sort.Ints(cis)
			target = g.key(cis[g.R.Intn(len(cis))]).Addr
		} else {
			target = g.W.Deputies[g.R.Intn(len(g.W.Deputies))].Addr
		}
		return []Cand{g.cand(g.B.Vote(k, target, exp), "vote", "any")}, true
	case pick < 63 && g.Cfg.Votes: // register / top-up / unregister
		if g.Unreg[u] {
			return []Cand{g.cand(g.B.Register(k, fx.Profile(k, k.Addr, true, "again"), params.MinCandidateDeposit, exp), "register-again", "discard")}, true
		}
		if !g.Cands[u] && g.R.Chance(1, 6) {
			// a first registration whose profile says "not a candidate": the deposit is taken and counts as votes, but the
			// account is not a registered candidate
			dep := new(big.Int).Add(params.MinCandidateDeposit, fx.LEMO(int64(g.R.Intn(900))))
			g.Unreg[u] = true
			return []Cand{g.cand(g.B.Register(k, fx.Profile(k, g.income(u), false, "not a candidate"), dep, exp), "register-as-non-candidate", "any")}, true
		}
		if !g.Cands[u] {
			dep := new(big.Int).Add(params.MinCandidateDeposit, fx.LEMO(int64(g.R.Intn(500))))
			g.Cands[u] = true
			return []Cand{g.cand(g.B.Register(k, fx.Profile(k, g.income(u), true, "hello"), dep, exp), "register", "any")}, true
		}
		if g.R.Chance(1, 4) {
			g.Unreg[u] = true
			delete(g.Cands, u)
			return []Cand{g.cand(g.B.Register(k, fx.Profile(k, k.Addr, false, ""), big.NewInt(0), exp), "unregister", "any")}, true
		}
		return []Cand{g.cand(g.B.Register(k, fx.Profile(k, g.income(u), true, fmt.Sprintf("intro %d", g.R.Intn(99))), fx.LEMO(int64(g.R.Range(0, 300))), exp), "candidate-update", "any")}, true
	case pick < 80 && g.Cfg.Assets:
		return g.assetTx(t, height, u)
	case pick < 85 && g.Cfg.Multisig:
		return g.multisigTx(t, u)
	case pick < 93 && g.Cfg.Boxes:
		// box of 2-4 simple txs from different senders; a failing sub-tx comes last, so everything before it has run
		var subs types.Transactions
		bexp := exp
		failing := g.Cfg.Discards && g.R.Chance(1, 3)
		n := g.R.Range(2, 3)
		for i := 0; i < n; i++ {
			s := g.key(g.user())
			amt := fx.LEMO(int64(g.R.Range(0, 20)))
			var st *types.Transaction
			if c, ok := g.contract(); ok && g.R.Chance(1, 2) {
				if g.R.Chance(1, 2) {
					c = Contract{Addr: g.ByKind("store"), Kind: "store"}
				}
				data := append(fx.Word(uint64(g.R.Intn(4))), fx.Word(uint64(g.R.Intn(3)))...)
				st = g.B.Call(s, c.Addr, big.NewInt(0), uint64(g.R.Range(30000, 200000)), data, bexp+uint64(i))
			} else {
				st = g.B.Transfer(s, g.key(g.user()).Addr, amt, bexp+uint64(i))
			}
			g.U.Tx(st)
			subs = append(subs, st)
		}
		if failing {
			st := g.B.Transfer(g.key(g.user()), g.key(g.user()).Addr, fx.LEMO(900000000), bexp+9)
			g.U.Tx(st)
			subs = append(subs, st)
		}
		e := "any"
		kind := "box"
		if failing {
			e = "discard"
			kind = "box-failing-sub"
		}
		return []Cand{g.cand(g.B.Box(k, subs, bexp), kind, e)}, true
	case pick < 96: // gas payer
		payer := g.key(g.user())
		to := g.key(g.user()).Addr
		tx := g.B.Reimbursed(params.OrdinaryTx, []fx.Key{k}, k.Addr, &to, payer.Addr, []fx.Key{payer}, fx.LEMO(int64(g.R.Intn(5))), nil, 100000, fx.GasPrice, exp)
		return []Cand{g.cand(tx, "reimbursed", "any")}, true
	default:
		// reward setting by the reward manager (founder) through precompile 0x09
		term := uint32(0)
		if params.TermDuration > 0 {
			term = height / params.TermDuration
		}
		v := fx.LEMO(int64(g.R.Range(0, 5000)))
		data, _ := json.Marshal(&params.RewardJson{Term: term, Value: v})
		tx := g.B.Call(g.W.Founder, params.TermRewardContract, big.NewInt(0), 500000, data, exp)
		return []Cand{g.cand(tx, "set-reward", "any")}, true
	}
}

func (g *Gen) assetTx(t uint32, height uint32, u int) ([]Cand, bool) {
	exp := g.exp(t)
	k := g.key(u)
	// usable assets: created in a block that is stable by now
	var usable []*AssetInfo
	for _, a := range g.Assets {
		if a.CreatedAt != 0 && a.CreatedAt <= g.StableH {
			usable = append(usable, a)
		}
	}
	if len(usable) == 0 || g.R.Chance(1, 6) {
		cat := uint32(g.R.Range(1, 3))
		div := cat != types.NonFungibleAsset
		if cat == types.CommonAsset {
			div = g.R.Chance(1, 2)
		}
		repl := div && g.R.Chance(1, 2)
		tx := g.B.CreateAsset(k, cat, div, repl, types.Profile{"name": fmt.Sprintf("asset%d", len(g.Assets)), "symbol": "AST", "description": "d", "suggestedGasLimit": "60000", "freeze": "false"}, exp)
		a := &AssetInfo{Code: tx.Hash(), Issuer: u, Category: cat, Divisible: div, Replen: repl, IDOwner: map[common.Hash]int{}, IssuedAt: map[common.Hash]uint32{}}
		g.Assets = append(g.Assets, a)
		g.U.AssetCode(a.Code)
		h := height
		g.Pending = append(g.Pending, func(in func(common.Hash) bool, _ uint32) {
			if in(tx.Hash()) && a.CreatedAt == 0 {
				a.CreatedAt = h
			}
		})
		return []Cand{g.cand(tx, fmt.Sprintf("create-asset-%d", cat), "ok")}, true
	}
	a := usable[g.R.Intn(len(usable))]
	ik := g.key(a.Issuer)
	if g.Cfg.Mode == "assets" && g.R.Chance(1, 2) {
		if c, ok := g.hostileAsset(t, height, u, a); ok {
			return c, true
		}
	}
	switch g.R.Intn(6) {
	case 0, 1: // issue
		to := g.user()
		amt := big.NewInt(int64(g.R.Range(1, 100000)))
		tx := g.B.IssueAsset(ik, g.key(to).Addr, a.Code, amt, "meta", exp)
		id := tx.Hash()
		if a.Category == types.TokenAsset {
			id = a.Code
		}
		g.U.AssetID(id)
		h := height
		g.Pending = append(g.Pending, func(in func(common.Hash) bool, _ uint32) {
			if in(tx.Hash()) {
				if _, ok := a.IDOwner[id]; !ok {
					a.IDs = append(a.IDs, id)
					a.IssuedAt[id] = h
				}
				a.IDOwner[id] = to
			}
		})
		return []Cand{g.cand(tx, "issue-asset", "any")}, true
	case 2: // replenish
		if len(a.IDs) == 0 {
			return nil, false
		}
		id := a.IDs[g.R.Intn(len(a.IDs))]
		tx := g.B.ReplenishAsset(ik, g.key(a.IDOwner[id]).Addr, a.Code, id, big.NewInt(int64(g.R.Range(1, 5000))), exp)
		return []Cand{g.cand(tx, "replenish-asset", "any")}, true
	case 3: // modify (sometimes oversized: the known C01 shape needs another tx by the same issuer)
		if g.Cfg.Known && g.Cfg.Discards && g.R.Chance(1, 3) {
			big1 := make([]byte, 700)
			for i := range big1 {
				big1[i] = 'x'
			}
			tx := g.B.ModifyAsset(ik, a.Code, types.Profile{fmt.Sprintf("k%d", g.R.Intn(3)): string(big1)}, exp)
			tx2 := g.B.Transfer(ik, g.key(g.user()).Addr, fx.LEMO(1), exp+1)
			return []Cand{g.cand(tx, "modify-asset-oversized", "discard"), g.cand(tx2, "transfer", "ok")}, true
		}
		fr := "false"
		if g.R.Chance(1, 3) {
			fr = "true"
		}
		tx := g.B.ModifyAsset(ik, a.Code, types.Profile{"freeze": fr, "description": fmt.Sprintf("d%d", g.R.Intn(9))}, exp)
		return []Cand{g.cand(tx, "modify-asset", "any")}, true
	default: // transfer asset
		if len(a.IDs) == 0 {
			return nil, false
		}
		id := a.IDs[g.R.Intn(len(a.IDs))]
		if a.IssuedAt[id] > g.StableH {
			return nil, false
		}
		owner := g.key(a.IDOwner[id])
		to := g.key(g.user()).Addr
		if c, ok := g.contract(); ok && g.R.Chance(1, 4) {
			to = c.Addr
		}
		amt := big.NewInt(int64(g.R.Range(0, 2000)))
		tx := g.B.TransferAsset(owner, to, id, amt, exp)
		return []Cand{g.cand(tx, "transfer-asset", "any")}, true
	}
}

// storePattern emits 2-3 candidates that touch the SAME storage slot of the zoo's store contract: included writes
// (set / overwrite / clear) and a box that writes the slot and is then discarded because its last sub-tx fails, in
// every order. Slots are few, so over the blocks of a scenario every parent state (slot empty / non-empty) occurs.
func (g *Gen) storePattern(t uint32) ([]Cand, bool) {
	store := g.ByKind("store")
	if store == (common.Address{}) {
		return nil, false
	}
	exp := g.exp(t)
	k := uint64(g.R.Intn(4))
	val := func() uint64 {
		if g.R.Chance(1, 2) {
			return 0
		}
		return uint64(g.R.Range(1, 9))
	}
	inc := func(i int) Cand {
		u := g.key(g.user())
		return g.cand(g.B.Call(u, store, big.NewInt(0), 200000, append(fx.Word(k), fx.Word(val())...), exp+uint64(i)), "call-store", "ok")
	}
	disc := func(i int) Cand {
		u1, u2 := g.key(g.user()), g.key(g.user())
		sub1 := g.B.Call(u1, store, big.NewInt(0), 200000, append(fx.Word(k), fx.Word(val())...), exp+uint64(i))
		sub2 := g.B.Transfer(u2, u1.Addr, fx.LEMO(900000000), exp+uint64(i))
		g.U.Tx(sub1)
		g.U.Tx(sub2)
		return g.cand(g.B.Box(g.key(g.user()), types.Transactions{sub1, sub2}, exp+uint64(i)), "box-failing-sub", "discard")
	}
	switch g.R.Intn(4) {
	case 0:
		return []Cand{inc(0), disc(1)}, true
	case 1:
		return []Cand{disc(0), inc(1)}, true
	case 2:
		return []Cand{inc(0), disc(1), inc(2)}, true
	default:
		return []Cand{disc(0), inc(1), disc(2)}, true
	}
}

var hostileAmounts = []string{`"0"`, `"1"`, `"-1"`, `"-60"`, `"115792089237316195423570985008687907853269984665640564039457584007913129639936"`, `"12x"`, `""`, `null`, `7`, `"-0"`}

// hostileAsset draws adversarial asset transactions: raw amounts (zero, negative, 2^256,
// garbage, missing), senders that are issuer / holder / stranger, receivers self / other /
// accepting contract / reverting contract / burn address.
func (g *Gen) hostileAsset(t uint32, height uint32, u int, a *AssetInfo) ([]Cand, bool) {
	exp := g.exp(t)
	ik := g.key(a.Issuer)
	amtRaw := hostileAmounts[g.R.Intn(len(hostileAmounts))]
	stranger := g.key(u)
	switch g.R.Intn(5) {
	case 0: // issue by issuer or stranger with a raw amount
		from := ik
		kind := "issue-asset-raw"
		if g.R.Chance(1, 3) {
			from = stranger
			kind = "issue-asset-by-stranger"
		}
		tx := g.B.IssueAssetRaw(from, g.key(g.user()).Addr, a.Code, amtRaw, "m", exp)
		id := tx.Hash()
		if a.Category == types.TokenAsset {
			id = a.Code
		}
		g.U.AssetID(id)
		to := g.user()
		h := height
		g.Pending = append(g.Pending, func(in func(common.Hash) bool, _ uint32) {
			if in(tx.Hash()) {
				if _, ok := a.IDOwner[id]; !ok {
					a.IDs = append(a.IDs, id)
					a.IssuedAt[id] = h
					a.IDOwner[id] = to
				}
			}
		})
		return []Cand{g.cand(tx, kind, "any")}, true
	case 1: // replenish raw / by stranger
		if len(a.IDs) == 0 {
			return nil, false
		}
		id := a.IDs[g.R.Intn(len(a.IDs))]
		from := ik
		kind := "replenish-asset-raw"
		if g.R.Chance(1, 3) {
			from = stranger
			kind = "replenish-asset-by-stranger"
		}
		return []Cand{g.cand(g.B.ReplenishAssetRaw(from, g.key(a.IDOwner[id]).Addr, a.Code, id, amtRaw, exp), kind, "any")}, true
	default: // transfer with raw amount, odd sender, odd receiver
		if len(a.IDs) == 0 {
			return nil, false
		}
		id := a.IDs[g.R.Intn(len(a.IDs))]
		if a.IssuedAt[id] > g.StableH {
			return nil, false
		}
		from := g.key(a.IDOwner[id])
		kind := "transfer-asset-raw"
		switch g.R.Intn(4) {
		case 0:
			from = stranger
			kind = "transfer-asset-by-stranger"
		case 1:
			from = ik
			kind = "transfer-asset-by-issuer"
		}
		var to common.Address
		switch g.R.Intn(6) {
		case 0:
			to = from.Addr
			kind += "-to-self"
		case 1:
			to = common.Address{}
			kind += "-to-burn"
		case 2:
			to = g.ByKind("storeif")
			kind += "-to-contract"
		case 3:
			to = g.ByKind("reverter")
			kind += "-to-reverting-contract"
		default:
			to = g.key(g.user()).Addr
		}
		if g.R.Chance(1, 2) {
			amtRaw = fmt.Sprintf(`"%d"`, g.R.Range(0, 3000))
		}
		return []Cand{g.cand(g.B.TransferAssetRaw(from, to, id, amtRaw, nil, 2000000, exp), kind, "any")}, true
	}
}

func (g *Gen) multisigTx(t uint32, u int) ([]Cand, bool) {
	exp := g.exp(t)
	k := g.key(u)
	if signers, ok := g.Multisig[u]; ok {
		// spend from the multisig account with both signers
		to := g.key(g.user()).Addr
		tx := g.B.Unsigned(params.OrdinaryTx, k.Addr, &to, fx.LEMO(int64(g.R.Intn(3))), 100000, nil, exp)
		var keys []fx.Key
		for _, s := range signers {
			keys = append(keys, g.key(s))
		}
		if g.R.Chance(1, 4) {
			// the same signers with other weights (either alone stays below the threshold, both together above it)
			ns := types.Signers{{Address: keys[0].Addr, Weight: uint8(g.R.Range(50, 90))}, {Address: keys[1].Addr, Weight: uint8(g.R.Range(50, 90))}}
			return []Cand{g.cand(fx.Sign(g.B.ModifySignersUnsigned(k.Addr, k.Addr, ns, exp), keys...), "multisig-reweigh", "ok")}, true
		}
		e := "ok"
		kind := "multisig-spend"
		if g.Cfg.Discards && g.R.Chance(1, 3) {
			keys = keys[:1]
			e = "discard"
			kind = "multisig-underweight"
		}
		return []Cand{g.cand(fx.Sign(tx, keys...), kind, e)}, true
	}
	if len(g.Multisig) >= 2 || g.Cands[u] {
		return nil, false
	}
	a, b := (u+1)%len(g.W.Users), (u+2)%len(g.W.Users)
	signers := types.Signers{{Address: g.key(a).Addr, Weight: 50}, {Address: g.key(b).Addr, Weight: 60}}
	tx := g.B.ModifySigners(k, k.Addr, signers, exp)
	g.Pending = append(g.Pending, func(in func(common.Hash) bool, _ uint32) {
		if in(tx.Hash()) {
			g.Multisig[u] = []int{a, b}
		}
	})
	return []Cand{g.cand(tx, "set-multisig", "any")}, true
}

// Accepted tells the generator which transactions were included in an accepted block.
func (g *Gen) Accepted(b *types.Block) {
	in := map[common.Hash]bool{}
	for _, tx := range b.Txs {
		in[tx.Hash()] = true
		if box, err := types.GetBox(tx.Data()); err == nil && tx.Type() == params.BoxTx {
			for _, s := range box.SubTxList {
				in[s.Hash()] = true
			}
		}
	}
	for _, p := range g.Pending {
		p(func(h common.Hash) bool { return in[h] }, b.Height())
	}
	g.U.Block(b)
}
