package mon

import (
	"bytes"
	"fmt"
	"math/big"
	"sort"
	"strings"

	"github.com/LemoFoundationLtd/lemochain-core/chain/types"
	"github.com/LemoFoundationLtd/lemochain-core/common"

	"verif/fx"
)

// TopEntry is one entry of a candidate ranking.
type TopEntry struct {
	Addr  common.Address
	Votes *big.Int
}

func TopString(t []TopEntry) string {
	var sb strings.Builder
	for _, e := range t {
		fmt.Fprintf(&sb, "%s:%s ", e.Addr.Hex()[:10], e.Votes)
	}
	return sb.String()
}

// SpecTop is the statement's list: all currently registered candidates sorted by votes
// (descending, ties by address ascending) cut to size, computed from account reads.
func SpecTop(src fx.AccountSource, u *fx.Universe, size int) []TopEntry {
	var all []TopEntry
	for _, a := range u.Addrs() {
		acc := src.GetAccount(a)
		if acc.GetCandidateState(types.CandidateKeyIsCandidate) == types.IsCandidateNode {
			all = append(all, TopEntry{a, acc.GetVotes()})
		}
	}
	sort.Slice(all, func(i, j int) bool {
		if c := all[i].Votes.Cmp(all[j].Votes); c != 0 {
			return c > 0
		}
		return bytes.Compare(all[i].Addr[:], all[j].Addr[:]) < 0
	})
	if len(all) > size {
		all = all[:size]
	}
	return all
}

// RepoTop reads the published list.
func RepoTop(n *fx.Node, block common.Hash) []TopEntry {
	var out []TopEntry
	for _, c := range n.DB.GetCandidatesTop(block) {
		out = append(out, TopEntry{c.GetAddress(), c.GetTotal()})
	}
	return out
}

func SameTop(a, b []TopEntry) bool {
	if len(a) != len(b) {
		return false
	}
	for i := range a {
		if a[i].Addr != b[i].Addr || a[i].Votes.Cmp(b[i].Votes) != 0 {
			return false
		}
	}
	return true
}

// CheckSnapshot judges the deputy list written into a term-snapshot block against the
// ranking at its parent. nodeIDOf returns the node id registered in a candidate's profile.
func CheckSnapshot(b *types.Block, parentTop []TopEntry, n int, nodeIDOf func(common.Address) []byte) (class, msg string) {
	want := parentTop
	if len(want) > n {
		want = want[:n]
	}
	got := b.DeputyNodes
	if len(got) != len(want) {
		return "snapshot-deputy-count", fmt.Sprintf("snapshot block has %d deputies, first N of the parent's list has %d", len(got), len(want))
	}
	for i, d := range got {
		if d.Rank != uint32(i) {
			return "snapshot-rank-not-dense", fmt.Sprintf("deputy %d has rank %d", i, d.Rank)
		}
		if d.MinerAddress != want[i].Addr {
			return "snapshot-deputies-not-top-of-parent-list", fmt.Sprintf("deputy %d is %s, parent's list has %s (%s)", i, d.MinerAddress.Hex(), want[i].Addr.Hex(), TopString(want))
		}
		if id := nodeIDOf(d.MinerAddress); !bytes.Equal(id, d.NodeID) {
			return "snapshot-node-id-wrong", fmt.Sprintf("deputy %d node id differs from its profile", i)
		}
	}
	for i := 1; i < len(got); i++ {
		if got[i].Votes.Cmp(got[i-1].Votes) > 0 {
			return "snapshot-votes-increasing", fmt.Sprintf("deputy votes are not non-increasing by rank (%s): the new term cannot be loaded (NewTermRecord panics when this block becomes stable and at every restart)", got.String())
		}
	}
	return "", ""
}

// TopDiffKind names how a published list deviates from the full sort (mechanism of the
// deviation, used in violation classes).
func TopDiffKind(pub, spec []TopEntry, isCand func(common.Address) bool) string {
	pm := map[common.Address]*big.Int{}
	for _, e := range pub {
		pm[e.Addr] = e.Votes
		if !isCand(e.Addr) {
			return "contains-unregistered-candidate"
		}
	}
	sm := map[common.Address]*big.Int{}
	for _, e := range spec {
		sm[e.Addr] = e.Votes
	}
	for a, v := range pm {
		if sv, ok := sm[a]; ok && sv.Cmp(v) != 0 {
			return "stale-votes"
		}
	}
	if len(pub) < len(spec) {
		return "list-too-short"
	}
	if len(pub) > len(spec) {
		return "list-too-long"
	}
	var minPub *big.Int
	for _, e := range pub {
		if minPub == nil || e.Votes.Cmp(minPub) < 0 {
			minPub = e.Votes
		}
	}
	for _, e := range spec {
		if _, ok := pm[e.Addr]; !ok {
			if minPub != nil && e.Votes.Cmp(minPub) == 0 {
				return "tie-at-cutoff-wrong-member"
			}
			return "higher-voted-candidate-missing"
		}
	}
	return "order"
}
