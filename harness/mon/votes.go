// Package mon holds chain-level monitors that several engines share.
package mon

import (
	"fmt"
	"math/big"

	"github.com/LemoFoundationLtd/lemochain-core/chain/account"
	"github.com/LemoFoundationLtd/lemochain-core/chain/params"
	"github.com/LemoFoundationLtd/lemochain-core/chain/types"
	"github.com/LemoFoundationLtd/lemochain-core/common"

	"verif/fx"
	"verif/scn"
)

// VoteState is the part of the account state the C11 formula speaks about.
type VoteState struct {
	Balance   map[common.Address]*big.Int
	VoteFor   map[common.Address]common.Address
	IsCand    map[common.Address]bool
	Unreg     map[common.Address]bool
	Deposit   map[common.Address]*big.Int
	Votes     map[common.Address]*big.Int
	HasProf   map[common.Address]bool
}

// ReadVoteState reads the vote-related fields of every account of the universe.
func ReadVoteState(src fx.AccountSource, u *fx.Universe) *VoteState {
	s := &VoteState{Balance: map[common.Address]*big.Int{}, VoteFor: map[common.Address]common.Address{}, IsCand: map[common.Address]bool{},
		Unreg: map[common.Address]bool{}, Deposit: map[common.Address]*big.Int{}, Votes: map[common.Address]*big.Int{}, HasProf: map[common.Address]bool{}}
	for _, a := range u.Addrs() {
		acc := src.GetAccount(a)
		s.Balance[a] = acc.GetBalance()
		if vf := acc.GetVoteFor(); vf != (common.Address{}) {
			s.VoteFor[a] = vf
		}
		p := acc.GetCandidate()
		switch p[types.CandidateKeyIsCandidate] {
		case types.IsCandidateNode:
			s.IsCand[a] = true
		case types.NotCandidateNode:
			s.Unreg[a] = true
		}
		if len(p) > 0 {
			s.HasProf[a] = true
		}
		d := new(big.Int)
		if ds := p[types.CandidateKeyDepositAmount]; ds != "" {
			d.SetString(ds, 10)
		}
		s.Deposit[a] = d
		s.Votes[a] = acc.GetVotes()
	}
	return s
}

var (
	voteRate    = func() *big.Int { return params.VoteExchangeRate }
	depositRate = func() *big.Int { return params.DepositExchangeRate }
)

func weight(b *big.Int) *big.Int { return new(big.Int).Div(b, voteRate()) }

// SpecVotes is the statement's formula evaluated on a state.
func SpecVotes(s *VoteState) map[common.Address]*big.Int {
	out := map[common.Address]*big.Int{}
	for c := range s.IsCand {
		out[c] = new(big.Int).Div(s.Deposit[c], depositRate())
	}
	for a, c := range s.VoteFor {
		if s.IsCand[c] {
			out[c].Add(out[c], weight(s.Balance[a]))
		}
	}
	return out
}

// VoteMonitor carries the known-deviation model (drift) along a scenario.
type VoteMonitor struct {
	Drift map[common.Address]*big.Int
}

func NewVoteMonitor() *VoteMonitor { return &VoteMonitor{Drift: map[common.Address]*big.Int{}} }

func (m *VoteMonitor) add(c common.Address, d *big.Int) {
	if d.Sign() == 0 {
		return
	}
	if m.Drift[c] == nil {
		m.Drift[c] = new(big.Int)
	}
	m.Drift[c].Add(m.Drift[c], d)
}

// VoteTxInfo is what was read right before a vote transaction executed.
type VoteTxInfo struct {
	Voter, Old, New common.Address
	W            *big.Int // floor(balance before this tx / rate)
	OldIsCand    bool
}

// PreBlock computes the drift the known deviation produces for one block: the per-tx
// adjustment uses the voter's balance before that tx, the end-of-block adjustment applies
// the block's net delta to the final candidate.
// start/end are the states at the parent and at the block; infos are the vote txs in order.
func (m *VoteMonitor) PreBlock(start, end *VoteState, infos []VoteTxInfo) (trigger bool) {
	byVoter := map[common.Address][]VoteTxInfo{}
	var order []common.Address
	for _, in := range infos {
		if _, ok := byVoter[in.Voter]; !ok {
			order = append(order, in.Voter)
		}
		byVoter[in.Voter] = append(byVoter[in.Voter], in)
	}
	for _, v := range order {
		ws, we := weight(start.Balance[v]), weight(end.Balance[v])
		repo := map[common.Address]*big.Int{}
		spec := map[common.Address]*big.Int{}
		addTo := func(m map[common.Address]*big.Int, c common.Address, d *big.Int) {
			if m[c] == nil {
				m[c] = new(big.Int)
			}
			m[c].Add(m[c], d)
		}
		h0, had := start.VoteFor[v]
		var last common.Address
		for _, in := range byVoter[v] {
			if in.W.Sign() > 0 {
				if in.Old != (common.Address{}) && in.OldIsCand {
					addTo(repo, in.Old, new(big.Int).Neg(in.W))
				}
				addTo(repo, in.New, in.W)
			}
			last = in.New
			if in.W.Cmp(ws) != 0 {
				trigger = true
			}
		}
		// end of block: net balance delta goes to the final candidate (if still a candidate)
		if end.IsCand[last] {
			addTo(repo, last, new(big.Int).Sub(we, ws))
		}
		if had && start.IsCand[h0] {
			addTo(spec, h0, new(big.Int).Neg(ws))
		}
		if end.IsCand[last] {
			addTo(spec, last, we)
		}
		for c, r := range repo {
			d := new(big.Int).Set(r)
			if spec[c] != nil {
				d.Sub(d, spec[c])
			}
			if end.IsCand[c] {
				m.add(c, d)
			}
		}
		for c, sp := range spec {
			if repo[c] == nil && end.IsCand[c] {
				m.add(c, new(big.Int).Neg(sp))
			}
		}
	}
	// unregistered candidates have their votes reset to zero: drift gone
	for c := range m.Drift {
		if !end.IsCand[c] {
			delete(m.Drift, c)
		}
	}
	return trigger
}

// VoteVerdict is the result of comparing a block's end state with the formula.
type VoteVerdict struct {
	Class string // "" = holds
	Msg   string
	Known bool // explained exactly by the known deviation model
}

// Check compares the observed votes at a block's end with the statement's formula.
func (m *VoteMonitor) Check(end *VoteState) []VoteVerdict {
	var out []VoteVerdict
	spec := SpecVotes(end)
	for c := range end.HasProf {
		obs := end.Votes[c]
		if obs == nil {
			obs = new(big.Int)
		}
		if obs.Sign() < 0 {
			d := m.Drift[c]
			sp := spec[c]
			if sp == nil {
				sp = new(big.Int)
			}
			if d != nil && new(big.Int).Add(sp, d).Cmp(obs) == 0 {
				out = append(out, VoteVerdict{Class: "vote-after-boundary-crossing-same-block", Known: true, Msg: fmt.Sprintf("candidate %s has NEGATIVE votes %s (formula %s, known-deviation drift %s)", c.Hex(), obs, spec[c], d)})
			} else {
				out = append(out, VoteVerdict{Class: "negative-votes", Msg: fmt.Sprintf("candidate %s has votes %s", c.Hex(), obs)})
			}
			continue
		}
		if !end.IsCand[c] {
			if obs.Sign() != 0 {
				out = append(out, VoteVerdict{Class: "unregistered-candidate-has-votes", Msg: fmt.Sprintf("%s is not a registered candidate but has %s votes", c.Hex(), obs)})
			}
			continue
		}
		want := spec[c]
		if obs.Cmp(want) == 0 {
			continue
		}
		d := m.Drift[c]
		if d != nil && new(big.Int).Add(want, d).Cmp(obs) == 0 {
			out = append(out, VoteVerdict{Class: "vote-after-boundary-crossing-same-block", Known: true, Msg: fmt.Sprintf("candidate %s: votes %s, formula %s; difference %s is exactly what a vote tx after a 200-LEMO boundary crossing in the same block leaves behind", c.Hex(), obs, want, d)})
			continue
		}
		out = append(out, VoteVerdict{Class: "votes-differ-from-formula", Msg: fmt.Sprintf("candidate %s: votes %s, formula deposit/100+sum(balance/200) = %s (known-deviation drift %v)", c.Hex(), obs, want, d)})
	}
	return out
}

// VoteInfos runs the miner path on the prefixes that end right before each vote tx and
// reads what the vote tx will see. Only top-level vote txs are handled.
func VoteInfos(n *fx.Node, parent *types.Block, t uint32, survivors []scn.Cand, onExec func()) []VoteTxInfo {
	var out []VoteTxInfo
	for i, cd := range survivors {
		if cd.Tx.Type() != params.VoteTx || cd.Tx.To() == nil {
			continue
		}
		var src fx.AccountSource
		if i == 0 {
			src = account.NewManager(parent.Hash(), n.DB)
		} else {
			if _, err := n.Mine(parent, t, scn.Txs(survivors[:i]), ""); err != nil {
				continue
			}
			if onExec != nil {
				onExec()
			}
			src = n.BC.AccountManager()
		}
		v := cd.Tx.From()
		acc := src.GetAccount(v)
		old := acc.GetVoteFor()
		info := VoteTxInfo{Voter: v, Old: old, New: *cd.Tx.To(), W: weight(acc.GetBalance())}
		if old != (common.Address{}) {
			info.OldIsCand = src.GetAccount(old).GetCandidateState(types.CandidateKeyIsCandidate) == types.IsCandidateNode
		}
		out = append(out, info)
	}
	return out
}
