package mon

import (
	"fmt"
	"math/big"

	"github.com/LemoFoundationLtd/lemochain-core/chain/params"
	"github.com/LemoFoundationLtd/lemochain-core/chain/types"
	"github.com/LemoFoundationLtd/lemochain-core/common"

	"verif/fx"
)

// AssetState is what the C12 statement speaks about.
type AssetState struct {
	Assets map[common.Hash]*types.Asset                       // by code (read from the issuer account)
	Issuer map[common.Hash]common.Address                     // code -> issuer
	Equity map[common.Hash]map[common.Address]*types.AssetEquity // id -> holder -> equity
}

// AssetReg remembers which account created which asset code (from CreateAssetTx seen in accepted blocks).
type AssetReg struct {
	Issuer map[common.Hash]common.Address
	IDs    map[common.Hash]bool
}

func NewAssetReg() *AssetReg {
	return &AssetReg{Issuer: map[common.Hash]common.Address{}, IDs: map[common.Hash]bool{}}
}

func eachTx(b *types.Block, f func(tx *types.Transaction)) {
	for _, tx := range b.Txs {
		f(tx)
		if tx.Type() == params.BoxTx {
			if box, err := types.GetBox(tx.Data()); err == nil {
				for _, s := range box.SubTxList {
					f(s)
				}
			}
		}
	}
}

// Learn records creations and issues of an accepted block.
func (r *AssetReg) Learn(b *types.Block) {
	eachTx(b, func(tx *types.Transaction) {
		switch tx.Type() {
		case params.CreateAssetTx:
			r.Issuer[tx.Hash()] = tx.From()
			r.IDs[tx.Hash()] = true
		case params.IssueAssetTx:
			r.IDs[tx.Hash()] = true
		}
	})
}

// ReadAssets reads every known asset and every (holder, id) equity.
func ReadAssets(src fx.AccountSource, u *fx.Universe, r *AssetReg) *AssetState {
	s := &AssetState{Assets: map[common.Hash]*types.Asset{}, Issuer: map[common.Hash]common.Address{}, Equity: map[common.Hash]map[common.Address]*types.AssetEquity{}}
	for code, iss := range r.Issuer {
		a, err := src.GetAccount(iss).GetAssetCode(code)
		if err == nil && a != nil {
			s.Assets[code] = a
			s.Issuer[code] = iss
		}
	}
	for id := range r.IDs {
		for _, h := range u.Addrs() {
			eq, err := src.GetAccount(h).GetEquityState(id)
			if err != nil || eq == nil || eq.Equity == nil {
				continue
			}
			if s.Equity[id] == nil {
				s.Equity[id] = map[common.Address]*types.AssetEquity{}
			}
			s.Equity[id][h] = eq
		}
	}
	return s
}

// AssetVerdict is one finding of the asset monitor.
type AssetVerdict struct {
	Class, Msg string
}

// CheckAssets compares the asset state before and after one accepted block.
func CheckAssets(before, after *AssetState, b *types.Block, onCompare func(n int)) []AssetVerdict {
	var out []AssetVerdict
	v := func(class, msg string) { out = append(out, AssetVerdict{class, msg}) }
	// what the block's transactions are entitled to do
	type key struct {
		id     common.Hash
		holder common.Address
	}
	mayDecrease := map[key]bool{}
	negAmount := false
	minted := map[common.Hash]*big.Int{}  // code -> issue+replenish amounts by the issuer
	mintTx := map[common.Hash]bool{}      // code -> block has issue/replenish tx of the issuer
	destroyBy := map[common.Hash]bool{}   // code -> block has a transfer to the burn address
	unfrozenInBlock := map[common.Hash]bool{}
	eachTx(b, func(tx *types.Transaction) {
		switch tx.Type() {
		case params.TransferAssetTx:
			ta, err := types.GetTransferAsset(tx.Data())
			if err != nil {
				return
			}
			mayDecrease[key{ta.AssetId, tx.From()}] = true
			if ta.Amount != nil && ta.Amount.Sign() < 0 {
				negAmount = true
			}
			if tx.To() != nil && *tx.To() == (common.Address{}) {
				for code, a := range before.Assets {
					_ = a
					if eqs := before.Equity[ta.AssetId]; eqs != nil {
						if e := eqs[tx.From()]; e != nil && e.AssetCode == code {
							destroyBy[code] = true
						}
					}
				}
			}
		case params.IssueAssetTx:
			ia, err := types.GetIssueAsset(tx.Data())
			if err != nil || ia.Amount == nil {
				return
			}
			if iss, ok := after.Issuer[ia.AssetCode]; ok && iss == tx.From() {
				mintTx[ia.AssetCode] = true
				if minted[ia.AssetCode] == nil {
					minted[ia.AssetCode] = new(big.Int)
				}
				minted[ia.AssetCode].Add(minted[ia.AssetCode], ia.Amount)
			}
		case params.ReplenishAssetTx:
			ra, err := types.GetReplenishAsset(tx.Data())
			if err != nil || ra.Amount == nil {
				return
			}
			if iss, ok := after.Issuer[ra.AssetCode]; ok && iss == tx.From() {
				mintTx[ra.AssetCode] = true
				if minted[ra.AssetCode] == nil {
					minted[ra.AssetCode] = new(big.Int)
				}
				minted[ra.AssetCode].Add(minted[ra.AssetCode], ra.Amount)
			}
		case params.ModifyAssetTx:
			mi, err := types.GetModifyAssetInfo(tx.Data())
			if err == nil {
				unfrozenInBlock[mi.AssetCode] = true // any profile change in the block: do not judge "frozen"
			}
		}
	})
	n := 0
	for code, a := range after.Assets {
		// conservation: supply == sum of equities (divisible assets)
		sum := new(big.Int)
		sumBefore := new(big.Int)
		for id, holders := range after.Equity {
			for h, eq := range holders {
				if eq.AssetCode != code {
					continue
				}
				n++
				sum.Add(sum, eq.Equity)
				if eq.Equity.Sign() < 0 {
					v("negative-equity", fmt.Sprintf("holder %s has equity %s of asset id %s", h.Hex(), eq.Equity, id.Hex()))
				}
			}
		}
		for _, holders := range before.Equity {
			for _, eq := range holders {
				if eq.AssetCode == code {
					sumBefore.Add(sumBefore, eq.Equity)
				}
			}
		}
		if a.IsDivisible {
			if a.TotalSupply == nil || a.TotalSupply.Cmp(sum) != 0 {
				cls := "supply-differs-from-sum-of-equity"
				if negAmount {
					cls = "transfer-negative-amount-breaks-conservation"
				}
				v(cls, fmt.Sprintf("asset %s: total supply %v, sum of all holders' equity %s", code.Hex(), a.TotalSupply, sum))
			}
			// supply changes only through the issuer's issue/replenish and a holder's destroy
			old := new(big.Int)
			if ba := before.Assets[code]; ba != nil && ba.TotalSupply != nil {
				old = ba.TotalSupply
			}
			if a.TotalSupply != nil {
				d := new(big.Int).Sub(a.TotalSupply, old)
				if d.Sign() > 0 && !mintTx[code] {
					v("supply-grew-without-issuer-tx", fmt.Sprintf("asset %s supply +%s in a block without issue/replenish by the issuer", code.Hex(), d))
				}
				if d.Sign() > 0 && mintTx[code] && !destroyBy[code] && d.Cmp(minted[code]) > 0 {
					v("supply-grew-more-than-issued", fmt.Sprintf("asset %s supply +%s but issuer txs in the block mint at most %s", code.Hex(), d, minted[code]))
				}
				if d.Sign() < 0 && !destroyBy[code] {
					v("supply-shrank-without-destroy", fmt.Sprintf("asset %s supply %s in a block without a holder destroying equity", code.Hex(), d))
				}
			}
		}
		// frozen assets do not move
		if ba := before.Assets[code]; ba != nil && ba.Profile[types.AssetFreeze] == "true" && !unfrozenInBlock[code] {
			for id, holders := range after.Equity {
				for h, eq := range holders {
					if eq.AssetCode != code {
						continue
					}
					var was *big.Int
					if bh := before.Equity[id]; bh != nil && bh[h] != nil {
						was = bh[h].Equity
					}
					if was == nil || was.Cmp(eq.Equity) != 0 {
						v("frozen-asset-moved", fmt.Sprintf("asset %s is frozen but equity of %s (id %s) changed from %v to %s", code.Hex(), h.Hex(), id.Hex(), was, eq.Equity))
					}
				}
			}
		}
	}
	// no holder other than a transfer's sender decreases
	for id, holders := range before.Equity {
		for h, was := range holders {
			now := new(big.Int)
			if ah := after.Equity[id]; ah != nil && ah[h] != nil {
				now = ah[h].Equity
			}
			n++
			if now.Cmp(was.Equity) < 0 && !mayDecrease[key{id, h}] {
				cls := "third-party-equity-decreased"
				if negAmount {
					cls = "transfer-negative-amount-debits-receiver"
				}
				v(cls, fmt.Sprintf("equity of %s in asset id %s fell from %s to %s although it sent no transfer of that id in this block", h.Hex(), id.Hex(), was.Equity, now))
			}
		}
	}
	if onCompare != nil {
		onCompare(n)
	}
	return out
}
