module verif

go 1.14

require (
	github.com/LemoFoundationLtd/lemochain-core v0.0.0
	github.com/anishathalye/porcupine v1.3.0
)

replace github.com/LemoFoundationLtd/lemochain-core => /repo
