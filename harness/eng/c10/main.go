// C10 — election integrity. Reference-model monitor: at every block on every fork the
// published top-candidate list is compared with a full sort computed from account reads;
// snapshot blocks' deputy lists are judged against the ranking at their parent; the same on a
// node that is restarted at random points.
package main

import (
	"encoding/json"
	"fmt"

	"github.com/LemoFoundationLtd/lemochain-core/chain/account"
	"github.com/LemoFoundationLtd/lemochain-core/chain/deputynode"
	"github.com/LemoFoundationLtd/lemochain-core/chain/types"
	"github.com/LemoFoundationLtd/lemochain-core/common"
	"github.com/LemoFoundationLtd/lemochain-core/store"

	"verif/fx"
	"verif/fx/run"
	"verif/mon"
	"verif/scn"
)

func batches(tier string) int { return 16 }

type state struct {
	restarted bool // node R has been restarted since genesis
}

// checkBlock runs the ranking oracle for one block that both nodes hold.
func checkBlock(c *run.Ctx, cl *scn.Cluster, st *state, blk *types.Block, viol func(class, msg string)) {
	size := store.VerifMaxCandidateCount()
	var tops [][]mon.TopEntry
	for i, n := range cl.Nodes {
		spec := mon.SpecTop(account.NewManager(blk.Hash(), n.DB), cl.G.U, size)
		got := mon.RepoTop(n, blk.Hash())
		c.Stat("top_lists_compared", 1)
		if len(spec) >= size {
			c.Stat("top_lists_full", 1)
		}
		if !mon.SameTop(spec, got) {
			who := "never-restarted-node"
			if i == 1 && st.restarted {
				who = "restarted-node"
			}
			am := account.NewManager(blk.Hash(), n.DB)
			kind := mon.TopDiffKind(got, spec, func(a common.Address) bool {
				return am.GetAccount(a).GetCandidateState(types.CandidateKeyIsCandidate) == types.IsCandidateNode
			})
			viol("top-list-differs-from-full-sort:"+who+":"+kind, fmt.Sprintf("block %d: published %s | full sort %s", blk.Height(), mon.TopString(got), mon.TopString(spec)))
		}
		tops = append(tops, got)
	}
	if len(tops) == 2 && !mon.SameTop(tops[0], tops[1]) && !st.restarted {
		viol("top-list-differs-between-nodes", fmt.Sprintf("block %d: %s vs %s", blk.Height(), mon.TopString(tops[0]), mon.TopString(tops[1])))
	}
}

// step mines and checks one block; returns the adopted block (nil to end the scenario).
func step(c *run.Ctx, cl *scn.Cluster, st *state, parent *types.Block, t uint32, cands []scn.Cand, adopt bool) *types.Block {
	A := cl.Nodes[0]
	viol := func(class, msg string) { c.Violation("C10/"+class, msg, cl.Witness(t, cands, msg)) }
	full, err := A.Mine(parent, t, scn.Txs(cands), "")
	if err != nil {
		c.Note("mine failed: " + err.Error())
		return nil
	}
	blk := full.Block
	cl.G.U.Block(blk)
	parentTop := mon.SpecTop(account.NewManager(parent.Hash(), A.DB), cl.G.U, store.VerifMaxCandidateCount())
	for i, e := range cl.InsertAll(blk) {
		if e != nil {
			c.Stat("block_rejected", 1)
			c.Note(fmt.Sprintf("node %d rejected the mined block at height %d: %v", i, blk.Height(), e))
			return nil
		}
	}
	checkBlock(c, cl, st, blk, viol)
	c.Stat("blocks_checked", 1)
	if deputynode.IsSnapshotBlock(blk.Height()) {
		c.Stat("snapshot_blocks_checked", 1)
		am := account.NewManager(blk.Hash(), A.DB)
		class, msg := mon.CheckSnapshot(blk, parentTop, A.DM.DeputyCount, func(a common.Address) []byte {
			return common.FromHex(am.GetAccount(a).GetCandidateState(types.CandidateKeyNodeID))
		})
		if class != "" {
			viol(class, msg)
			return nil // such a block cannot be stabilised without killing the node
		}
	}
	return blk
}

func scenario(c *run.Ctx, idx int, fixed bool) {
	r := run.NewRng(c.Seed, 10, uint64(idx))
	if fixed {
		r = run.NewRng(9, 10, uint64(idx))
	}
	nDep := 2 + idx%2
	gcfg := scn.Cfg{Users: 12, RandomCode: false, Votes: true, Assets: false, Boxes: false, Multisig: false, Discards: false, Mode: "votes", DedicatedIncome: true, Fund: 4000}
	cl := scn.NewCluster(r, fx.WorldCfg{Deputies: nDep, Users: 12, SlotMs: uint64(1000 * r.Range(2, 5))}, 2, gcfg)
	defer cl.Close()
	st := &state{}
	R := cl.Nodes[1]
	nBlocks := scn.Term + r.Range(1, scn.Interim+4)
	if idx%4 == 3 {
		nBlocks = 2*scn.Term + 2
	}
	// every third scenario: late registrations that become stable together with an empty block behind them
	lateReg := idx%3 == 1 && !fixed
	holdStable := 0 // > 0: this block is not stabilised on its own
	var sideBeforeSnapshot *types.Block
	for bi := 0; bi < nBlocks; bi++ {
		t := cl.NextTime()
		h := cl.Head.Height() + 1
		var cands []scn.Cand
		switch {
		case bi == 0:
			cands = cl.G.Setup(t)
		case bi == 1:
			// every second user registers with deposits that create ties
			// every fifth scenario: about as many registered candidates as the list has slots (deputies included), so that
			// unregistrations leave fewer candidates than slots
			few := -1
			if idx%5 == 4 && !fixed {
				few = store.VerifMaxCandidateCount() - nDep + r.Range(-1, 1)
				if few < 1 {
					few = 1
				}
				c.Stat("scenarios_with_about_as_many_candidates_as_slots", 1)
			}
			for u := 0; u < len(cl.W.Users); u += 1 {
				if u%4 == 3 {
					continue
				}
				if few >= 0 && len(cands) >= few {
					break
				}
				k := cl.W.Users[u]
				dep := fx.LEMO(int64(1000 + 100*(u%3)))
				cl.G.Cands[u] = true
				cands = append(cands, cl.G.C(cl.G.B.Register(k, fx.Profile(k, fx.NewKey("candidate-income", u).Addr, true, "c"), dep, uint64(t)+900+uint64(u)), "register", "ok"))
			}
		case fixed && deputynode.IsSnapshotBlock(h):
			// regression witness: a vote change inside the snapshot block (known finding)
			voter := cl.W.Users[3]
			var low common.Address
			top := mon.SpecTop(account.NewManager(cl.Head.Hash(), cl.Nodes[0].DB), cl.G.U, store.VerifMaxCandidateCount())
			if len(top) >= 2 {
				low = top[len(top)-1].Addr
				if len(top) > cl.Nodes[0].DM.DeputyCount {
					low = top[cl.Nodes[0].DM.DeputyCount-1].Addr
				}
			}
			cands = []scn.Cand{cl.G.C(cl.G.B.Vote(voter, low, uint64(t)+900), "vote", "ok")}
		case !fixed && deputynode.IsSnapshotBlock(h) && idx%2 == 0:
			cands = nil // half of the scenarios keep snapshot blocks empty so that later terms are reached
		case lateReg && (bi == 4 || bi == 8) && !deputynode.IsSnapshotBlock(h) && !deputynode.IsSnapshotBlock(h+1):
			// a candidate registers late; the next block is empty and both become stable together, then node R restarts
			u := map[int]int{4: 3, 8: 7}[bi]
			k := cl.W.Users[u]
			if !cl.G.Cands[u] && !cl.G.Unreg[u] {
				cl.G.Cands[u] = true
				cands = []scn.Cand{cl.G.C(cl.G.B.Register(k, fx.Profile(k, fx.NewKey("candidate-income", u).Addr, true, "late"), fx.LEMO(int64(1000+50*u)), uint64(t)+900), "register", "ok")}
				holdStable = 2
				c.Stat("late_registrations_followed_by_an_empty_block", 1)
			} else {
				cands = cl.G.Next(t, h, r.Range(2, 8))
			}
		case holdStable == 1:
			cands = nil // the empty block behind a late registration
		default:
			cands = cl.G.Next(t, h, r.Range(2, 8))
		}
		c.WAL(map[string]interface{}{"scenario": idx, "block": bi, "seed": c.Seed, "fixed": fixed})
		blk := step(c, cl, st, cl.Head, t, cands, true)
		if blk == nil {
			break
		}
		// side fork on the same parent, a later slot
		if bi >= 2 && (r.Chance(1, 4) || deputynode.IsSnapshotBlock(h+1)) && !deputynode.IsSnapshotBlock(h) {
			t2 := t + uint32(cl.W.SlotMs/1000)
			alt := cl.G.Next(t2, h, r.Range(1, 4))
			if sb := step(c, cl, st, cl.Head, t2, alt, false); sb != nil {
				c.Stat("side_fork_blocks", 1)
				if deputynode.IsSnapshotBlock(h + 1) {
					// the side fork reaches the snapshot height too (with another ranking at its parent): its snapshot block is
					// built and checked on the same nodes right behind the main fork's
					sideBeforeSnapshot = sb
				}
			}
		}
		if sideBeforeSnapshot != nil {
			for _, n := range cl.Nodes {
				if !n.BC.HasBlock(sideBeforeSnapshot.Hash()) || n.BC.StableBlock().Height() >= sideBeforeSnapshot.Height() {
					sideBeforeSnapshot = nil // pruned meanwhile
					break
				}
			}
		}
		if deputynode.IsSnapshotBlock(h) && sideBeforeSnapshot != nil {
			t3 := sideBeforeSnapshot.Time() + uint32(cl.W.SlotMs/1000)
			if t3 <= t {
				t3 = t + 1
			}
			if sb := step(c, cl, st, sideBeforeSnapshot, t3, nil, false); sb != nil {
				c.Stat("snapshot_blocks_on_a_side_fork", 1)
			}
			sideBeforeSnapshot = nil
		}
		shape := ""
		for _, cd := range cands {
			shape += cd.Kind + ","
		}
		c.Case(fmt.Sprintf("d%d h%d %s", nDep, blk.Height(), shape), len(blk.Txs) >= 2, map[string]interface{}{"scenario": idx, "height": blk.Height(), "candidates": shape,
			"included": len(blk.Txs), "top": mon.TopString(mon.RepoTop(cl.Nodes[0], blk.Hash()))})
		cl.Adopt(blk)
		forceRestart := false
		if holdStable > 0 {
			holdStable--
			forceRestart = holdStable == 0
		}
		if holdStable > 0 && !cl.MustStabiliseSoon() {
			continue
		}
		if sideBeforeSnapshot != nil && !cl.MustStabiliseSoon() {
			continue // keep the side fork alive until its snapshot block has been built
		}
		if cl.MustStabiliseSoon() || forceRestart || r.Chance(1, 2) {
			if !cl.StabiliseAll() {
				c.Stat("scenario_stuck_unstabilisable", 1)
				break
			}
			// restart node R at a quiescent point
			if forceRestart || r.Chance(1, 3) {
				R.Reopen()
				st.restarted = true
				c.Stat("restarts", 1)
				viol := func(class, msg string) { c.Violation("C10/"+class, msg, cl.Witness(t, nil, msg)) }
				sb := R.BC.StableBlock()
				spec := mon.SpecTop(account.NewManager(sb.Hash(), R.DB), cl.G.U, store.VerifMaxCandidateCount())
				got := mon.RepoTop(R, sb.Hash())
				c.Stat("top_lists_compared", 1)
				if !mon.SameTop(spec, got) {
					am := account.NewManager(sb.Hash(), R.DB)
					kind := mon.TopDiffKind(got, spec, func(a common.Address) bool {
						return am.GetAccount(a).GetCandidateState(types.CandidateKeyIsCandidate) == types.IsCandidateNode
					})
					viol("top-list-differs-from-full-sort:right-after-restart:"+kind, fmt.Sprintf("stable block %d after restart: published %s | full sort %s", sb.Height(), mon.TopString(got), mon.TopString(spec)))
				}
			}
		}
	}
}

func runAll(c *run.Ctx) {
	fx.Quiet()
	scn.SetParams()
	store.VerifSetMaxCandidateCount(3 + c.Batch%3)
	if c.Batch == 0 {
		scenario(c, 0, true)
	}
	n := c.Pick(96, 2400)
	lo, hi := c.Share(n)
	for i := lo; i < hi; i++ {
		scenario(c, i, false)
	}
}

func replay(c *run.Ctx, raw json.RawMessage) {
	fx.Quiet()
	scn.SetParams()
	var w scn.Witness
	if err := json.Unmarshal(raw, &w); err != nil {
		c.Inconclusive("bad witness: " + err.Error())
		return
	}
	store.VerifSetMaxCandidateCount(3)
	cl, cands, err := scn.Rebuild(&w)
	defer cl.Close()
	if err != nil {
		c.Inconclusive(err.Error())
		return
	}
	step(c, cl, &state{}, cl.Head, w.Time, cands, true)
	c.Case("replay", true, nil)
}

func main() { run.Main(run.Engine{Batches: batches, Run: runAll, Replay: replay}) }
