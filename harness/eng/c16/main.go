// C16 — contract execution is sandboxed: bounded by gas, deterministic, all-or-nothing.
// Runtime monitors around the real EVM on the real account.Manager backend: a tracer (steps,
// per-frame gas, depth), a proxy that shadows every Snapshot/Revert the EVM issues, a
// before/after whole-state observation, a differential second run from an identical fresh
// state, and an end-to-end slice through real transactions and blocks.
package main

import (
	"bytes"
	"encoding/json"
	"fmt"
	"math/big"
	"os"
	"strings"

	"github.com/LemoFoundationLtd/lemochain-core/chain/types"
	"github.com/LemoFoundationLtd/lemochain-core/common"
	"github.com/LemoFoundationLtd/lemochain-core/common/log"

	"verif/evmmon"
	"verif/fx"
	"verif/fx/run"
	"verif/scn"
)

func batches(tier string) int { return 16 }

var rewardAddr = common.BytesToAddress([]byte{9}).Hex()

// emit reports the first violation of every class in this batch (the driver keeps one
// witness per class; the per-batch cap of the protocol must not hide later, different classes).
var emitted = map[string]bool{}

func emit(c *run.Ctx, class, msg string, wit interface{}) {
	if emitted[class] {
		c.Stat("violations_repeated", 1)
		return
	}
	emitted[class] = true
	c.Violation(class, msg, wit)
}

func gasClass(g uint64) string {
	switch {
	case g == 0:
		return "g0"
	case g == 1:
		return "g1"
	case g < 20000:
		return "g5k"
	case g <= 21001:
		return fmt.Sprintf("g%d", g)
	case g <= 100000:
		return "g100k"
	case g <= 5000000:
		return "g5M"
	}
	return "g2^62"
}

func valueClass(v string) string {
	switch {
	case v == "" || v == "0":
		return "v0"
	case v == "1":
		return "v1"
	case len(v) > 25:
		return "v>bal"
	}
	return "vN"
}

func errClass(e string) string {
	switch {
	case e == "":
		return "ok"
	case strings.HasPrefix(e, "invalid opcode"):
		return "invalid-opcode"
	case strings.HasPrefix(e, "stack underflow"):
		return "stack-underflow"
	case strings.HasPrefix(e, "stack limit"):
		return "stack-limit"
	case strings.HasPrefix(e, "invalid jump"):
		return "invalid-jump"
	}
	if len(e) > 40 {
		e = e[:40]
	}
	return e
}

func bucket(n int64) string {
	switch {
	case n == 0:
		return "0"
	case n == 1:
		return "1"
	case n <= 4:
		return "2-4"
	case n <= 32:
		return "5-32"
	}
	return ">32"
}

// check runs one case under all monitors.
func check(c *run.Ctx, b *evmmon.Base, cs *evmmon.Case) {
	c.WAL(cs)
	viol := func(class, msg string) {
		emit(c, "C16/"+class, msg+" -- "+cs.String(), cs)
	}
	r1, statics := b.RunCase(cs, evmmon.RunOpts{Shadow: true, StaticMarks: true})
	c.Stat("evm_runs", 1)
	c.Stat("steps", r1.Tr.Steps)
	c.Stat("snapshots_shadowed", r1.Px.NSnap)
	c.Stat("reverts_checked", r1.Px.NRevert)
	c.Stat("fields_compared", r1.Px.NFields+int64(len(r1.Before))+int64(len(r1.After)))
	for op := range r1.Tr.Ops {
		c.Seen("opcodes_executed", op)
	}
	c.Seen("entries", cs.Entry)
	if os.Getenv("C16_DEBUG") != "" {
		fmt.Fprintf(os.Stderr, "%s => err=%q exec=%q left=%d steps=%d snaps=%d reverts=%d journal=%v panic=%q abort=%v\n", cs.String(), r1.Err, r1.ExecErr, r1.Left, r1.Tr.Steps, r1.Px.NSnap, r1.Px.NRevert, r1.Journal, r1.Panic, r1.Abort)
	}
	// (1) survival
	if r1.Panic != "" {
		viol(fmt.Sprintf("crash:%s@%s", r1.Panic, r1.PanicSite), "the EVM call panicked")
		c.Case("panic "+cs.Kind, true, nil)
		return
	}
	if r1.Abort != nil {
		viol(fmt.Sprintf("crash:%s@%s", r1.Abort.Panic, r1.Abort.PanicSite), fmt.Sprintf("RevertToSnapshot issued by the EVM panicked while undoing %v", r1.Abort.Undone))
		c.Case("abort "+cs.Kind, true, nil)
		return
	}
	c.Seen("outcomes", errClass(r1.Err))
	if r1.ExecErr != "" {
		c.Seen("asset_exec_errors", errClass(r1.ExecErr))
	}
	// steps <= gas+1
	if cs.Gas < 1<<62 && uint64(r1.Tr.Steps) > cs.Gas+1 {
		viol("steps-exceed-gas", fmt.Sprintf("%d interpreter steps with %d gas", r1.Tr.Steps, cs.Gas))
	}
	// (2) gas clauses
	if r1.Left > cs.Gas {
		viol("gas-exceeds-supplied:leftover", fmt.Sprintf("left over gas %d > supplied %d", r1.Left, cs.Gas))
	}
	for _, f := range r1.Tr.Findings {
		if strings.HasPrefix(f.Clause, "free-op:") {
			viol("steps-exceed-gas:"+f.Clause, fmt.Sprintf("%s at depth %d: %s", f.Op, f.Depth, f.Detail))
		} else {
			viol("gas-exceeds-supplied:"+f.Clause, fmt.Sprintf("%s at depth %d: %s", f.Op, f.Depth, f.Detail))
		}
	}
	// (6) depth
	if r1.Tr.MaxDepth > 1025 {
		viol("depth-exceeds-1024", fmt.Sprintf("tracer saw depth %d", r1.Tr.MaxDepth))
	}
	if r1.Tr.MaxDepth == 1025 {
		c.Stat("depth_limit_reached", 1)
	}
	if int64(r1.Tr.MaxDepth) > 1 {
		c.Stat("nested_cases", 1)
	}
	// (3) determinism: same case, identical fresh manager
	r2, _ := b.RunCase(cs, evmmon.RunOpts{})
	c.Stat("evm_runs", 1)
	switch {
	case r2.Panic != "" || r2.Abort != nil:
		viol("nondeterministic:err", "second run from an identical state panicked, first did not")
	default:
		if !bytes.Equal(r1.Ret, r2.Ret) {
			viol("nondeterministic:ret", fmt.Sprintf("return data differs: %x vs %x", r1.Ret, r2.Ret))
		}
		if r1.Left != r2.Left || r1.Tr.Steps != r2.Tr.Steps {
			viol("nondeterministic:gas", fmt.Sprintf("left over gas %d vs %d, steps %d vs %d", r1.Left, r2.Left, r1.Tr.Steps, r2.Tr.Steps))
		}
		if r1.Err != r2.Err || r1.ExecErr != r2.ExecErr {
			viol("nondeterministic:err", fmt.Sprintf("error %q/%q vs %q/%q", r1.Err, r1.ExecErr, r2.Err, r2.ExecErr))
		}
		if d := fx.Diff(r1.After, r2.After, 5); len(d) > 0 {
			viol("nondeterministic:state", fmt.Sprintf("state after the call differs between two runs: %v", d))
		}
		if r1.LogDigest != r2.LogDigest {
			viol("nondeterministic:logs", "change-log digest differs between two runs")
		}
	}
	// (4) failure => state as before, journal grew only by failure events
	failed := r1.Err != "" || r1.ExecErr != ""
	if failed {
		c.Stat("failed_calls_checked", 1)
		seen := map[string]bool{}
		var top []string
		if len(r1.Px.Reports) == 0 { // else the unfaithful rollback is reported with its mechanism below
			top = fx.Diff(r1.Before, r1.After, 12)
		}
		for _, d := range top {
			k := evmmon.FieldKind(evmmon.DiffField(d))
			if !seen[k] {
				seen[k] = true
				viol("failed-call-changed-state:"+k, fmt.Sprintf("call ended with %q/%q but %s", r1.Err, r1.ExecErr, d))
			}
		}
		for _, l := range r1.Journal {
			if l.Type == "AddEventLog" && len(l.Topics) == 1 && l.Topics[0] == types.TopicRunFail.Hex() {
				c.Stat("failure_events_seen", 1)
				continue
			}
			viol("failed-call-changed-state:journal:"+l.Type, fmt.Sprintf("call ended with %q/%q but the journal kept a %s on %s", r1.Err, r1.ExecErr, l.Type, l.Addr))
			break
		}
	}
	// (5) static call => nothing changes
	staticClass := func(d string) string {
		f := evmmon.DiffField(d)
		k := evmmon.FieldKind(f)
		// second predicate for the reward-setter mechanism: the changed slot is the reward table of 0x09
		if k == "storage" && strings.EqualFold(evmmon.FieldAddr(f), rewardAddr) {
			return "storage:reward-precompile"
		}
		return k
	}
	if cs.Entry == "static" {
		c.Stat("static_calls_checked", 1)
		seen := map[string]bool{}
		diffs := fx.Diff(r1.Before, r1.After, 12)
		for _, d := range diffs {
			k := staticClass(d)
			if !seen[k] {
				seen[k] = true
				viol("static-call-changed-state:"+k, "read-only call changed "+d)
			}
		}
		logs := r1.AM.GetChangeLogs()
		if r1.JBefore <= len(logs) && len(diffs) == 0 {
			if bad := evmmon.OnlyFailureEvents(logs[r1.JBefore:]); bad != "" {
				viol("static-call-changed-state:journal:"+bad, "read-only call left a change log: "+bad)
			}
		}
	}
	// (4) at every frame: each RevertToSnapshot the EVM issues belongs to a call that failed; the
	// state must be what it was when that frame took its snapshot
	for _, rep := range r1.Px.Reports {
		seen := map[string]bool{}
		for _, d := range rep.Diff {
			f := evmmon.DiffField(d)
			k := evmmon.FieldKind(f) + ":after-" + evmmon.OpKind(f, rep.Undone)
			if !seen[k] {
				seen[k] = true
				viol("failed-call-changed-state:"+k, fmt.Sprintf("a call failed and was rolled back (nesting %d, undone %s) but %s", rep.Live, undoneTypes(rep.Undone), d))
			}
		}
		if rep.JLenGot != rep.JLenWant {
			viol("failed-call-changed-state:journal-length", fmt.Sprintf("journal length %d after a rollback, %d when the frame started", rep.JLenGot, rep.JLenWant))
		}
	}
	c.Stat("nested_frames_judged", r1.FramesJudged)
	for _, s := range statics {
		k := "journal"
		if len(s.Diff) > 0 && !strings.HasPrefix(s.Diff[0], "journal: ") {
			k = staticClass(s.Diff[0])
		} else if len(s.Diff) > 0 {
			k = "journal:" + strings.TrimPrefix(s.Diff[0], "journal: ")
		}
		if s.Static {
			viol("static-call-changed-state:"+k, fmt.Sprintf("STATICCALL frame at depth %d changed state: %v", s.Depth, s.Diff))
		} else if len(r1.Px.Reports) == 0 {
			// a nested call / create reported failure, no rollback of this execution was unfaithful, yet the state differs
			// from the state at the instruction: the failed frame was not rolled back (completely)
			viol("failed-call-changed-state:"+k+":frame-not-rolled-back", fmt.Sprintf("%s at depth %d returned 0 but state differs from the state at the instruction: %v", s.Op, s.Depth, s.Diff))
		}
	}
	kindFp := cs.Kind
	if i := strings.Index(kindFp, ":"); i >= 0 && !strings.HasPrefix(kindFp, "template") {
		kindFp = kindFp[:i]
	}
	fp := fmt.Sprintf("%s %s %s %s %s snaps=%s reverts=%s depth=%s", kindFp, cs.Entry, gasClass(cs.Gas), valueClass(cs.Value), errClass(r1.Err), bucket(r1.Px.NSnap), bucket(r1.Px.NRevert), bucket(int64(r1.Tr.MaxDepth)))
	nontrivial := r1.Tr.Steps > 0 && (failed || r1.Px.NRevert > 0 || len(r1.Journal) > 0)
	c.Case(fp, nontrivial, map[string]interface{}{"case": cs.String(), "err": r1.Err, "steps": r1.Tr.Steps, "left": r1.Left, "snapshots": r1.Px.NSnap, "reverts": r1.Px.NRevert, "maxDepth": r1.Tr.MaxDepth, "journal": len(r1.Journal)})
}

func undoneTypes(ls []evmmon.LogInfo) string {
	seen := map[string]bool{}
	var out []string
	for _, l := range ls {
		if !seen[l.Type] {
			seen[l.Type] = true
			out = append(out, l.Type)
		}
	}
	return strings.Join(out, "+")
}

// endToEnd continues the base chain with blocks of contract transactions through the real
// miner and validator paths and checks the transaction processor's gas accounting.
func endToEnd(c *run.Ctx, b *evmmon.Base, nBlocks int) {
	r := run.NewRng(c.Seed, 16, 2, uint64(c.Batch))
	g := &evmmon.Gen{B: b, R: r}
	cl := b.Cl
	users := b.W.Users
	for bi := 0; bi < nBlocks; bi++ {
		t := cl.NextTime()
		exp := uint64(t) + 900
		var cands []scn.Cand
		type exp1 struct {
			from   common.Address
			limit  uint64
			amount *big.Int
		}
		want := map[common.Hash]exp1{}
		// one tx per user so that balance deltas are attributable
		for ui, u := range users {
			if ui == 7 { // multisig account cannot sign alone
				continue
			}
			gas := []uint64{21000, 21001, 25000, 60000, 100000, 400000, 2000000}[r.Intn(7)]
			amount := big.NewInt(0)
			if r.Chance(1, 3) {
				amount = big.NewInt(int64(r.Range(1, 1000)))
			}
			var tx *types.Transaction
			kind := ""
			switch r.Intn(4) {
			case 0:
				cs := g.Grammar()
				code := cs.Input
				if len(cs.Pre) > 0 {
					code = cs.Pre[0].Code
				}
				if gas < 60000 {
					gas = 60000 + gas
				}
				tx = cl.G.B.Create(u, code, amount, gas, exp+uint64(ui))
				kind = "e2e-create-grammar"
			case 1:
				if gas < 60000 {
					gas = 60000 + gas
				}
				tx = cl.G.B.Create(u, fx.InitCode(r.Bytes(r.Range(1, 60))), amount, gas, exp+uint64(ui))
				kind = "e2e-create-random"
			default:
				k := b.ZooList[r.Intn(len(b.ZooList))]
				if k == "double-create-revert" {
					// known finding C07/revert-differs:code:after-code: a block with this call cannot be saved by any
					// node ("save account error"), which would end the end-to-end slice of this batch
					k = "double-create"
				}
				tx = cl.G.B.Call(u, b.Zoo[k], amount, gas, g.R.Bytes(r.Intn(3)*32), exp+uint64(ui))
				kind = "e2e-call-" + k
			}
			cands = append(cands, cl.G.C(tx, kind, "any"))
			want[tx.Hash()] = exp1{u.Addr, gas, amount}
		}
		c.WAL(map[string]interface{}{"e2e_block": bi, "batch": c.Batch})
		uni := fx.NewUniverse()
		for _, u := range users {
			uni.Addr(u.Addr)
		}
		before := fx.ObserveAt(b.N.DB, cl.Head.Hash(), uni, fx.ObsOpts{})
		res, err := b.N.Mine(cl.Head, t, scn.Txs(cands), "")
		if err != nil {
			c.Note("e2e: mining failed: " + err.Error())
			return
		}
		blk := res.Block
		if res2, err := b.N.Mine(cl.Head, t, scn.Txs(cands), ""); err != nil || res2.Block.Hash() != blk.Hash() {
			emit(c, "C16/nondeterministic:block", fmt.Sprintf("mining the same contract transactions twice gives different blocks (err %v)", err), cl.Witness(t, cands, "e2e"))
		}
		var sum uint64
		for _, tx := range blk.Txs {
			sum += tx.GasUsed()
			c.Stat("e2e_txs", 1)
			if tx.GasUsed() > tx.GasLimit() {
				emit(c, "C16/gas-exceeds-supplied:tx-gas-used", fmt.Sprintf("tx gas used %d > gas limit %d", tx.GasUsed(), tx.GasLimit()), cl.Witness(t, cands, "e2e"))
			}
		}
		if sum != blk.GasUsed() || blk.GasUsed() > blk.GasLimit() {
			emit(c, "C16/gas-exceeds-supplied:block-gas-used", fmt.Sprintf("block gas used %d, sum of txs %d, limit %d", blk.GasUsed(), sum, blk.GasLimit()), cl.Witness(t, cands, "e2e"))
		}
		if os.Getenv("C16_DEBUG") != "" {
			log.Setup(log.LevelDebug, false, true)
		}
		for i, e := range cl.InsertAll(blk) {
			if e != nil {
				c.Note(fmt.Sprintf("e2e: node %d rejects the block: %v (C01's concern)", i, e))
				if os.Getenv("C16_DEBUG") != "" {
					for _, cd := range cands {
						fmt.Fprintf(os.Stderr, "cand %s included=%v data=%x\n", cd.Kind, scn.Included(blk)[cd.Tx.Hash()], cd.Tx.Data())
					}
					for _, l := range blk.ChangeLogs {
						fmt.Fprintf(os.Stderr, "  %s\n", l.String())
					}
				}
				return
			}
		}
		fx.Quiet()
		after := fx.ObserveAt(b.N.DB, blk.Hash(), uni, fx.ObsOpts{})
		for _, tx := range blk.Txs {
			w := want[tx.Hash()]
			k := w.from.Hex() + "/balance"
			b0, _ := new(big.Int).SetString(before[k], 10)
			b1, _ := new(big.Int).SetString(after[k], 10)
			if b0 == nil || b1 == nil {
				continue
			}
			spent := new(big.Int).Sub(b0, b1)
			max := new(big.Int).Mul(new(big.Int).SetUint64(w.limit), fx.GasPrice)
			max.Add(max, w.amount)
			if spent.Cmp(max) > 0 {
				emit(c, "C16/gas-exceeds-supplied:tx-fee", fmt.Sprintf("sender paid %s, more than gasLimit*price+amount = %s", spent, max), cl.Witness(t, cands, "e2e"))
			}
			c.Stat("e2e_fee_checks", 1)
		}
		cl.Adopt(blk)
		if cl.MustStabiliseSoon() || r.Chance(1, 2) {
			cl.StabiliseAll()
		}
		c.Case(fmt.Sprintf("e2e block included=%d discarded=%d", len(blk.Txs), len(cands)-len(blk.Txs)), len(blk.Txs) > 0, nil)
	}
}

func runAll(c *run.Ctx) {
	fx.Quiet()
	scn.SetParams()
	b, err := evmmon.NewBase(1)
	defer b.Close()
	if err != nil {
		c.Inconclusive(err.Error())
		return
	}
	if c.Batch == 0 {
		for _, cs := range evmmon.Fixed(b) {
			check(c, b, cs)
		}
	}
	n := c.Pick(3000, 200000)
	lo, hi := c.Share(n)
	only := os.Getenv("C16_ONLY")
	for i := lo; i < hi; i++ {
		if only != "" && only != fmt.Sprint(i) {
			continue
		}
		g := &evmmon.Gen{B: b, R: run.NewRng(c.Seed, 16, 1, uint64(i))}
		check(c, b, g.Next())
	}
	endToEnd(c, b, c.Pick(2, 12))
}

func replay(c *run.Ctx, raw json.RawMessage) {
	fx.Quiet()
	scn.SetParams()
	b, err := evmmon.NewBase(1)
	defer b.Close()
	if err != nil {
		c.Inconclusive(err.Error())
		return
	}
	var cs evmmon.Case
	if err := json.Unmarshal(raw, &cs); err != nil || cs.Entry == "" {
		c.Inconclusive("witness is not a materialised EVM case (end-to-end witnesses are chain prefixes; replay them with C01's engine)")
		return
	}
	check(c, b, &cs)
}

func main() { run.Main(run.Engine{Batches: batches, Run: runAll, Replay: replay}) }
