package main

// Surface e: the node is the *dialling* side. In production DialManager.runDialTask connects
// to an address it learnt from discovery and calls Server.HandleConn(conn, nodeID), which runs
// Peer.DoHandshake(prv, nodeID) as client: the node writes its hello and then reads whatever
// the listener answers (readHandshakeRespMsg: same framing as the hello, ECIES to the
// dialler's key). The listener is the attacker here. It knows the dialler's public key (it
// is inside the hello, which is encrypted to the listener's own key), so it can encrypt
// anything to the dialler; it reads the hello off the wire and then plays its script.

import (
	"bytes"
	"encoding/binary"
	"fmt"
	"io"
	"math/big"
	"net"
	"sync/atomic"
	"time"

	"github.com/LemoFoundationLtd/lemochain-core/common/crypto"
	"github.com/LemoFoundationLtd/lemochain-core/common/crypto/ecies"
	"github.com/LemoFoundationLtd/lemochain-core/network/p2p"

	"verif/fx"
	"verif/fx/run"
)

const respLen = 220 // bytes of a valid handshake response incl. the 6 byte header (checked at start-up)

// readFrame takes one length-prefixed unit off the wire (watchdog d).
func readFrame(c net.Conn, d time.Duration) ([]byte, error) {
	_ = c.SetReadDeadline(time.Now().Add(d))
	defer c.SetReadDeadline(time.Time{})
	hdr := make([]byte, 6)
	if _, err := io.ReadFull(c, hdr); err != nil {
		return nil, err
	}
	if hdr[0] != 0x5a || hdr[1] != 0x48 {
		return nil, fmt.Errorf("magic %x", hdr[:2])
	}
	n := binary.BigEndian.Uint32(hdr[2:])
	if n > 1<<16 {
		return nil, fmt.Errorf("declared length %d", n)
	}
	body := make([]byte, n)
	if _, err := io.ReadFull(c, body); err != nil {
		return nil, err
	}
	return body, nil
}

// helloWellFormed: what the node sent decrypts with the listener's key to [sig(65), pub(64) = the node's id, nonce(32)].
func (x *wireExec) helloWellFormed(body []byte) bool {
	plain, err := ecies.ImportECDSA(x.attKey.Priv).Decrypt(body, nil, nil)
	if err != nil {
		return false
	}
	t, err := parseRLP(plain)
	if err != nil || !t.isList() || len(t.L) != 3 {
		return false
	}
	return len(t.L[0].B) == 2*65 && t.L[1].B == fmt.Sprintf("%x", x.nodeKey.NodeID) && len(t.L[2].B) == 2*32
}

// exchangeDial runs one outgoing connection of the node against a scripted listener.
// cs == nil: warm-up with an honest listener (which is also the self-test of the "resp"
// construction: the node must accept it and deliver the probe).
func (x *wireExec) exchangeDial(cs *Case, wit interface{}) {
	const surface = "e"
	cconn, sconn := net.Pipe()
	sv := x.serve(sconn, &x.attID)
	// a pipe has no buffer: take the hello like the kernel of a real listener would
	hello, err := readFrame(cconn, wireWatchdog)
	if err != nil {
		x.s.Inconclusive("the dialling node did not write its hello: " + err.Error())
		cconn.Close()
		return
	}
	helloOK := x.helloWellFormed(hello)
	var nodeClosed int32
	drained := make(chan struct{})
	received := int64(6 + len(hello))
	go func() {
		defer close(drained)
		buf := make([]byte, 4096)
		for {
			n, err := cconn.Read(buf)
			atomic.AddInt64(&received, int64(n))
			if err != nil {
				atomic.StoreInt32(&nodeClosed, 1)
				return
			}
		}
	}()
	script := &WireScript{Frames: []Frame{{Kind: "resp", Len: -1}}, Cut: -1, End: "probe"}
	if cs != nil {
		script = cs.Wire
	}
	stream, err := x.materialise(script, nil, script.Cut)
	if err != nil {
		x.s.Inconclusive("cannot materialise case: " + err.Error())
		cconn.Close()
		return
	}
	a := startAlloc() // from here on the harness allocates nothing of size
	sent := x.writeChunks(cconn, stream, script.Chunks, surface, wit)
	stream = nil
	end := script.End
	if end == "probe" && script.Cut >= 0 {
		end = "hold" // a cut stream need not hold a complete unit: no verdict can be demanded
	}
	closedWithin := func(d time.Duration) bool {
		deadline := time.Now().Add(d)
		for atomic.LoadInt32(&nodeClosed) == 0 && time.Now().Before(deadline) {
			time.Sleep(200 * time.Microsecond)
		}
		return atomic.LoadInt32(&nodeClosed) != 0
	}
	outcome := "kept"
	verdict, hsErr := false, error(nil)
	switch end {
	case "probe":
		// the listener answered with at least one complete unit: the node's handshake has to come to a verdict
		select {
		case hsErr = <-sv.hsErr:
			verdict = true
		case <-time.After(wireWatchdog):
		}
		switch {
		case !verdict:
			x.s.Violation("C15/node-unresponsive:e:handshake-neither-completes-nor-fails",
				fmt.Sprintf("the listener answered the node's hello with a complete unit; the node's handshake neither failed nor completed within %v", wireWatchdog), wit)
			outcome = "stuck"
		case hsErr != nil:
			// HandleConn closes a connection whose handshake failed
			if closedWithin(wireWatchdog) {
				outcome = "refused-and-closed"
			} else {
				outcome = "refused-left-open"
			}
		default:
			// the node took the listener for a peer: does it go on serving the connection?
			fr, err := p2p.VerifPackFrame(p2p.VerifAesKey(sv.peer), p2p.MsgCode(probeCode), probePayload)
			if err == nil {
				_ = cconn.SetWriteDeadline(time.Now().Add(wireWatchdog))
				if m, err := cconn.Write(fr); err == nil {
					sent += int64(m)
				}
			}
			deadline := time.Now().Add(wireWatchdog)
			for atomic.LoadInt64(&sv.probes) == 0 && atomic.LoadInt32(&nodeClosed) == 0 && time.Now().Before(deadline) {
				time.Sleep(200 * time.Microsecond)
			}
			switch {
			case atomic.LoadInt64(&sv.probes) > 0:
				outcome = "kept-in-sync"
			case atomic.LoadInt32(&nodeClosed) != 0:
				outcome = "accepted-then-closed"
			default:
				x.s.Violation("C15/node-unresponsive:e:neither-processes-nor-closes",
					fmt.Sprintf("after the handshake the node neither delivered a well-formed frame nor closed the connection within %v", wireWatchdog), wit)
				outcome = "stuck"
			}
		}
	case "hold":
		if closedWithin(holdTime) {
			outcome = "closed-by-node"
		} else {
			outcome = "node-waits"
			if waitsUnbounded(sv, &nodeClosed) {
				// nothing bounds this read; in production it is DialManager's only loop that sits here
				x.s.Stat(surface+"_node_waits_without_read_deadline", 1)
				x.s.Violation("C15/node-unresponsive:"+surface+":waits-for-remote-without-read-deadline",
					"the listener went silent and the dialling node waits for it in a read with no deadline armed: the only dialling goroutine is held for as long as the remote likes", wit)
			} else {
				x.s.Stat(surface+"_node_waits_under_a_read_deadline", 1)
			}
		}
	default:
		if atomic.LoadInt32(&nodeClosed) != 0 {
			outcome = "closed-by-node"
		} else {
			outcome = "open-at-remote-close"
		}
	}
	_ = cconn.Close()
	// liveness: everything the node started for this connection must finish now
	ok := waitCh(sv.runDone, wireWatchdog) && waitCh(sv.consumed, wireWatchdog) && waitCh(drained, wireWatchdog)
	if cs == nil {
		if outcome != "kept-in-sync" {
			x.s.Inconclusive(fmt.Sprintf("the node did not complete a dial to an honest listener built by the harness (outcome %s, handshake error %v)", outcome, hsErr))
		}
		return
	}
	if !verdict {
		select {
		case hsErr = <-sv.hsErr:
			verdict = true
		default:
		}
	}
	x.s.Stat("connections_"+surface, 1)
	x.s.Stat("bytes_sent_"+surface, sent)
	x.s.Stat("bytes_received_from_node_"+surface, atomic.LoadInt64(&received))
	x.s.Stat("frames_delivered_to_consumer", atomic.LoadInt64(&sv.msgs))
	x.s.Stat("e_probes_delivered_after_dial", atomic.LoadInt64(&sv.probes))
	x.s.Seen("connection_outcomes_"+surface, outcome)
	x.s.Stat("outcome_"+surface+"_"+outcome, 1)
	if helloOK {
		x.s.Stat("e_node_hellos_well_formed", 1)
	} else {
		x.s.Stat("e_node_hellos_not_understood", 1)
	}
	switch {
	case !verdict:
		x.s.Stat("e_handshake_result_missing", 1)
	case hsErr == nil:
		x.s.Stat("e_handshakes_accepted", 1)
	default:
		x.s.Stat("e_handshakes_refused", 1)
		x.s.Seen("e_handshake_errors", trimErr(hsErr))
	}
	if !ok {
		x.s.Violation("C15/node-unresponsive:"+surface+":connection-goroutines-do-not-end",
			fmt.Sprintf("handshake / Peer.Run / reader still running %v after the remote closed the connection", wireWatchdog), wit)
	}
	checkAlloc(x.s, surface, a, len(script.Frames)+1, sent, atomic.LoadInt64(&received), wit)
}

// ---------- case lists ----------

// eciesRawLens: every length of the encrypted part around the cipher's block size, then
// larger ones up to the handshake reader's cap (65536 = 65 + 65439 + 32).
func eciesRawLens() []int {
	var out []int
	for n := 0; n <= 40; n++ {
		out = append(out, n)
	}
	return append(out, 47, 48, 49, 64, 100, 117, 118, 1000, 4096, 65439, 65440)
}

func eciesRawKind(n int, mac string) string {
	k := "ecies-valid-mac"
	if mac != "" {
		k = "ecies-mac-" + mac
	}
	switch {
	case n == 0:
		return k + "-encrypted-part-empty"
	case n < 16:
		return k + "-encrypted-part-shorter-than-iv"
	case n == 16:
		return k + "-encrypted-part-iv-only"
	case n <= 65439:
		return k + "-encrypted-part-iv-and-data"
	}
	return k + "-above-handshake-cap"
}

// eciesRawSweep is shared by surfaces a and e (end = what the surface does after a complete unit).
func eciesRawSweep(add func(kind string, w WireScript), end string) {
	one := func(f Frame) WireScript { return WireScript{Frames: []Frame{f}, Cut: -1, End: end} }
	for _, n := range eciesRawLens() {
		var plain []Seg
		if n > 0 {
			plain = []Seg{{Rnd: n, Seed: uint64(1000 + n)}}
		}
		add(eciesRawKind(n, ""), one(Frame{Kind: "ecies-raw", Len: -1, Plain: plain}))
	}
	for _, n := range []int{1, 8, 15, 16} { // other contents of the short part: the outcome must not depend on them
		add(eciesRawKind(n, "")+"-zero", one(Frame{Kind: "ecies-raw", Len: -1, Plain: []Seg{{Fill: n}}}))
		add(eciesRawKind(n, "")+"-ff", one(Frame{Kind: "ecies-raw", Len: -1, Plain: []Seg{{Fill: n, Byte: 0xff}}}))
	}
	for _, n := range []int{0, 1, 15, 16, 17, 117} {
		var plain []Seg
		if n > 0 {
			plain = []Seg{{Rnd: n, Seed: uint64(2000 + n)}}
		}
		add(eciesRawKind(n, "bad"), one(Frame{Kind: "ecies-raw", Len: -1, Mac: "bad", Plain: plain}))
	}
	for _, n := range []int{1, 15, 16, 32, 33, 34, 47, 48, 49, 149} { // no tag: the reader takes the last 32 bytes for it
		add(eciesRawKind(n, "none"), one(Frame{Kind: "ecies-raw", Len: -1, Mac: "none", Plain: []Seg{{Rnd: n, Seed: uint64(3000 + n)}}}))
	}
	// awkward splits of the smallest crashing shape
	for _, ch := range [][]int{{1}, {6}, {7}, {6, 65, 1}, {71, 1}} {
		w := one(Frame{Kind: "ecies-raw", Len: -1, Plain: []Seg{{Rnd: 1, Seed: 1001}}})
		w.Chunks = ch
		add(eciesRawKind(1, "")+"-split", w)
	}
}

// curvePoint is a valid public key (X||Y) nobody in the exchange owns.
func curvePoint() []byte { return fx.NewKey("c15-point", 0).NodeID }

func sweepE() []Case {
	var out []Case
	add := func(kind string, w WireScript) {
		out = append(out, Case{S: "e", Kind: kind, Wire: &w})
	}
	one := func(f Frame, end string) WireScript { return WireScript{Frames: []Frame{f}, Cut: -1, End: end} }
	resp := Frame{Kind: "resp", Len: -1}
	// an honest listener, whole and in awkward splits: the dial has to succeed and the connection has to work
	for _, ch := range chunkSets {
		add("valid-response", WireScript{Frames: []Frame{resp}, Chunks: ch, Cut: -1, End: "probe"})
	}
	add("valid-response-then-silence", one(resp, "hold"))
	add("valid-response-then-close", one(resp, "close"))
	// (i) a valid response with one absurd field (resp-mut: empty item = keep the valid value)
	keep := &Node{}
	mut := func(kind string, items ...*Node) {
		add("response-field-"+kind, one(Frame{Kind: "resp-mut", Len: -1, Payload: &Payload{Tree: nL(items...)}}, "probe"))
	}
	pt := curvePoint()
	wrongY := append([]byte{}, pt...)
	wrongY[63] ^= 1
	negY := append([]byte{}, pt...)
	ny := new(big.Int).Sub(crypto.S256().Params().P, new(big.Int).SetBytes(pt[32:])).Bytes()
	copy(negY[32:], make([]byte, 32))
	copy(negY[64-len(ny):], ny)
	b32 := &Node{Rnd: 32, Seed: 3}
	mut("none")
	mut("pub-random-not-on-curve", &Node{Rnd: 64, Seed: 2})
	mut("pub-zero", &Node{Fill: 64})
	mut("pub-ff", &Node{Fill: 64, Byte: 0xff})
	mut("pub-x-valid-y-wrong", nB(wrongY))
	mut("pub-x-zero", nB(append(make([]byte, 32), pt[32:]...)))
	mut("pub-y-zero", nB(append(append([]byte{}, pt[:32]...), make([]byte, 32)...)))
	mut("pub-x-is-field-prime", nB(append(crypto.S256().Params().P.Bytes(), pt[32:]...)))
	mut("pub-other-valid-point", nB(pt))
	mut("pub-valid-point-negated", nB(negY))
	mut("pub-generator", nB(append(crypto.S256().Params().Gx.Bytes(), crypto.S256().Params().Gy.Bytes()...)))
	mut("pub-63-bytes", &Node{Rnd: 63, Seed: 5})
	mut("pub-65-bytes-random", &Node{Rnd: 65, Seed: 5})
	mut("pub-65-bytes-prefixed-valid-point", nB(append([]byte{4}, pt...)))
	mut("pub-33-bytes-compressed-point", nB(append([]byte{2 + pt[63]&1}, pt[:32]...)))
	mut("pub-1-byte", nB([]byte{4}))
	mut("pub-empty", &Node{Empty: true})
	mut("pub-missing", &Node{Drop: true})
	mut("pub-list", nL(nB(pt)))
	mut("pub-list-of-coordinates", nL(nB(pt[:32]), nB(pt[32:])))
	mut("pub-10k-bytes", &Node{Rnd: 10000, Seed: 5})
	mut("nonce-zero", keep, &Node{Fill: 32})
	mut("nonce-ff", keep, &Node{Fill: 32, Byte: 0xff})
	mut("nonce-random", keep, b32)
	mut("nonce-31-bytes", keep, &Node{Rnd: 31, Seed: 6})
	mut("nonce-33-bytes", keep, &Node{Rnd: 33, Seed: 6})
	mut("nonce-empty", keep, &Node{Empty: true})
	mut("nonce-missing", keep, &Node{Drop: true})
	mut("nonce-list", keep, nL(b32))
	mut("nonce-10k-bytes", keep, &Node{Rnd: 10000, Seed: 6})
	mut("both-missing", &Node{Drop: true}, &Node{Drop: true})
	mut("both-zero", &Node{Fill: 64}, &Node{Fill: 32})
	mut("both-ff", &Node{Fill: 64, Byte: 0xff}, &Node{Fill: 32, Byte: 0xff})
	mut("swapped", b32, nB(pt))
	mut("extra-item", keep, keep, b32)
	mut("extra-10k-items", keep, keep, nRep(10000, b32))
	mut("bad-pub-and-extra-item", &Node{Fill: 64}, keep, b32)
	// (ii) a valid envelope around hostile plaintext: arbitrary RLP trees and bytes that are no RLP at all
	env := func(kind string, p *Payload, plain []Seg) {
		add("envelope-"+kind, one(Frame{Kind: "ecies", Len: -1, Plain: plain, Payload: p}, "probe"))
	}
	for _, n := range []int{1, 2, 31, 64, 100, 101, 102, 1000, 65000} {
		env("random", nil, []Seg{{Rnd: n, Seed: uint64(n) + 11}})
	}
	env("zeros", nil, []Seg{{Fill: 101}})
	env("ff", nil, []Seg{{Fill: 101, Byte: 0xff}})
	shapes := envelopeShapes()
	for _, k := range sortedNodeKeys(shapes) {
		env(k, &Payload{Tree: shapes[k]}, nil)
		env(k+"-cut", &Payload{Tree: shapes[k], Cut: 1}, nil)
	}
	env("rlp-huge-string-header", &Payload{Raw: []Seg{{Hex: "bb7fffffff"}, {Rnd: 40, Seed: 9}}}, nil)
	env("rlp-huge-list-header", &Payload{Raw: []Seg{{Hex: "fb7fffffff"}, {Rnd: 40, Seed: 9}}}, nil)
	env("rlp-64bit-length", &Payload{Raw: []Seg{{Hex: "bfffffffffffffffff"}, {Rnd: 40, Seed: 9}}}, nil)
	env("rlp-list-header-then-huge-string-header", &Payload{Raw: []Seg{{Hex: "f865bb7fffffff"}, {Rnd: 94, Seed: 9}}}, nil)
	// the node's own hello sent back to it would need the node's key; a hello of the listener instead of a response:
	env("a-hello-instead-of-a-response", &Payload{Tree: nL(&Node{Rnd: 65, Seed: 1}, nB(pt), b32)}, nil)
	// (iii) hand-built envelopes: valid tag around an encrypted part of any length
	eciesRawSweep(add, "probe")
	// (iv) raw bytes. Truncation of a valid response at every offset (0 = the listener says nothing at all)
	for k := 0; k < respLen; k++ {
		end := "close"
		if k%9 == 4 || k == 0 {
			end = "hold"
		}
		add("trunc-valid-response", WireScript{Frames: []Frame{resp}, Cut: int64(k), End: end})
	}
	add("nothing-then-close", WireScript{Cut: -1, End: "close"})
	for _, m := range []string{"0000", "5a49", "485a", "ffff", "5a", "485454502f312e3120", "16030100"} {
		add("wrong-magic", WireScript{Frames: []Frame{{Magic: m, Kind: "raw", Len: -1, Plain: []Seg{{Rnd: 64, Seed: 1}}}}, Cut: -1, End: "hold"})
	}
	for _, n := range []int{1, 2, 15, 16, 64, 65, 66, 97, 98, 99, 112, 113, 114, 214, 1000, 65536} {
		for _, first := range []int{-1, 2, 3, 4} { // first body byte: random / the three values the ECIES decoder accepts
			segs := []Seg{{Rnd: n, Seed: uint64(n)}}
			if first >= 0 {
				segs = []Seg{{Fill: 1, Byte: byte(first)}}
				if n > 1 {
					segs = append(segs, Seg{Rnd: n - 1, Seed: uint64(n)})
				}
			}
			add("exact-declared-garbage", one(Frame{Kind: "raw", Len: -1, Plain: segs}, "probe"))
		}
	}
	// a valid ephemeral key followed by garbage: passes the point checks, fails at the tag
	for _, n := range []int{33, 34, 48, 149} {
		add("valid-ephemeral-key-then-garbage", one(Frame{Kind: "raw", Len: -1, Plain: []Seg{hx(append([]byte{4}, pt...)), {Rnd: n, Seed: uint64(n)}}}, "probe"))
	}
	add("declared-zero", one(Frame{Kind: "raw", Len: 0}, "probe"))
	add("declared-zero-then-data", one(Frame{Kind: "raw", Len: 0, Plain: []Seg{{Rnd: 100, Seed: 3}}}, "probe"))
	for _, n := range []int64{1024, 65535, 65536, 65537, MiB, frameCap, frameCap + 1, overCapLen, 1 << 30, 1<<32 - 1} {
		for _, end := range []string{"close", "hold"} {
			add(fmt.Sprintf("declared-%s-little-data", sizeName(n)), WireScript{Frames: []Frame{{Kind: "raw", Len: n, Plain: []Seg{{Rnd: 512, Seed: 5}}}}, Cut: -1, End: end})
		}
		add(fmt.Sprintf("declared-%s-header-only", sizeName(n)), one(Frame{Kind: "raw", Len: n}, "hold"))
	}
	add("declared-less-than-sent", one(Frame{Kind: "raw", Len: 100, Plain: []Seg{{Fill: 1, Byte: 4}, {Rnd: 400, Seed: 7}}}, "probe"))
	// (v) more than one unit: what follows an accepted response belongs to the session, not to the handshake
	add("valid-response-then-garbage", WireScript{Frames: []Frame{resp, {Kind: "raw", Len: -1, Plain: []Seg{{Rnd: 100, Seed: 8}}}}, Cut: -1, End: "probe"})
	add("valid-response-twice", WireScript{Frames: []Frame{resp, resp}, Cut: -1, End: "probe"})
	add("refused-response-then-valid-response", WireScript{Frames: []Frame{{Kind: "resp-mut", Len: -1, Payload: &Payload{Tree: nL(&Node{Fill: 64})}}, resp}, Cut: -1, End: "probe"})
	return out
}

func randomE(seed uint64, i int) Case {
	r := run.NewRng(seed, 0xe, uint64(i))
	w := WireScript{Cut: -1, End: "probe", Chunks: chunkSets[r.Intn(len(chunkSets))]}
	kind := ""
	switch r.Intn(9) {
	case 0: // valid response, cut somewhere, odd splits
		w.Frames = []Frame{{Kind: "resp", Len: -1}}
		w.Cut = int64(r.Intn(respLen))
		w.End = []string{"close", "hold"}[r.Intn(2)]
		kind = "rnd-trunc-valid-response"
	case 1: // declared length unrelated to the data
		decl := []int64{0, 1, 5, 64, 97, 98, 214, 1 << 16, 1<<16 + 1, MiB, frameCap, 1<<32 - 1}[r.Intn(12)]
		n := r.Intn(400)
		w.Frames = []Frame{{Kind: "raw", Len: decl, Plain: []Seg{rndSeg(r, n)}}}
		w.End = []string{"close", "hold"}[r.Intn(2)]
		kind = "rnd-declared-vs-actual"
	case 2: // exact garbage with an accepted first byte
		n := r.Range(1, 600)
		segs := []Seg{{Fill: 1, Byte: byte(r.Range(2, 4))}}
		if n > 1 {
			segs = append(segs, rndSeg(r, n-1))
		}
		w.Frames = []Frame{{Kind: "raw", Len: -1, Plain: segs}}
		kind = "rnd-ecies-shaped-garbage"
	case 3: // envelope around random bytes
		n := r.Intn(300)
		w.Frames = []Frame{{Kind: "ecies", Len: -1, Plain: []Seg{rndSeg(r, n)}}}
		kind = "rnd-envelope-random"
	case 4: // envelope around a random tree
		t := randomTree(r, 3)
		w.Frames = []Frame{{Kind: "ecies", Len: -1, Payload: &Payload{Tree: t, Cut: r.Intn(3)}}}
		kind = "rnd-envelope-tree"
	case 5, 6: // valid response with random field replacements
		items := []*Node{{}, {}}
		sizes := []int{64, 32}
		for j := range items {
			switch r.Intn(9) {
			case 0:
				items[j] = &Node{Rnd: sizes[j], Seed: r.Uint64()}
			case 1:
				items[j] = &Node{Fill: sizes[j], Byte: byte(r.Intn(256))}
			case 2:
				items[j] = &Node{Rnd: sizes[j] + r.Range(-2, 2), Seed: r.Uint64()}
			case 3:
				items[j] = &Node{Empty: true}
			case 4:
				items[j] = &Node{Drop: true}
			case 5:
				items[j] = nL(randomTree(r, 1))
			case 6:
				if j == 0 { // a valid point with some bit flipped
					p := append([]byte{}, curvePoint()...)
					p[r.Intn(64)] ^= 1 << uint(r.Intn(8))
					items[j] = nB(p)
				}
			}
		}
		if r.Chance(1, 6) {
			items = append(items, randomTree(r, 2))
		}
		w.Frames = []Frame{{Kind: "resp-mut", Len: -1, Payload: &Payload{Tree: nL(items...)}}}
		kind = "rnd-response-fields"
	case 7: // hand-built envelope, mostly around the block size
		w.Frames = []Frame{randomEciesRaw(r)}
		kind = "rnd-" + eciesRawKind(segLen(w.Frames[0].Plain), w.Frames[0].Mac)
	case 8: // a valid response and something behind it
		w.Frames = []Frame{{Kind: "resp", Len: -1}, {Kind: "raw", Len: -1, Plain: []Seg{rndSeg(r, r.Range(1, 200))}}}
		if r.Chance(1, 3) {
			w.Frames[1].Magic = []string{"0000", "5a00", "ff48"}[r.Intn(3)]
		}
		kind = "rnd-valid-response-then-garbage"
	}
	return Case{S: "e", Kind: kind, Wire: &w}
}

func randomEciesRaw(r *run.Rng) Frame {
	n := r.Intn(16)
	switch r.Intn(4) {
	case 0:
		n = r.Range(16, 64)
	case 1:
		n = r.Range(65, 2000)
	}
	f := Frame{Kind: "ecies-raw", Len: -1}
	if n > 0 {
		f.Plain = []Seg{rndSeg(r, n)}
	}
	switch r.Intn(8) {
	case 0:
		f.Mac = "bad"
	case 1:
		f.Mac = "none"
	}
	return f
}

// checkWireConstants verifies the message sizes the truncation sweeps are built on.
func (x *wireExec) checkWireConstants() error {
	if n := len(x.validHello()); n != helloLen {
		return fmt.Errorf("a valid hello has %d bytes, the sweep assumes %d", n, helloLen)
	}
	b, err := x.materialise(&WireScript{Frames: []Frame{{Kind: "resp", Len: -1}}, Cut: -1}, nil, -1)
	if err != nil {
		return err
	}
	if len(b) != respLen {
		return fmt.Errorf("a valid handshake response has %d bytes, the sweep assumes %d", len(b), respLen)
	}
	if !bytes.Equal(b[:2], []byte{0x5a, 0x48}) {
		return fmt.Errorf("unexpected framing of the handshake response")
	}
	return nil
}
