package main

// Payload generators: generic classes (valid for any message code), typed right-shape
// payloads with absurd values per message code, and structural mutation of valid objects.

import (
	"fmt"

	"github.com/LemoFoundationLtd/lemochain-core/chain/types"

	"verif/fx/run"
)

const nGeneric = 14

// genericPayload returns payload class cl (0..nGeneric-1) for any code.
func genericPayload(r *run.Rng, cl int) *Payload {
	switch cl {
	case 0:
		return nil // empty
	case 1:
		return &Payload{Raw: []Seg{rndSeg(r, r.Range(1, 64))}}
	case 2:
		return &Payload{Raw: []Seg{rndSeg(r, r.Range(500, 5000))}}
	case 3:
		return &Payload{Tree: nL()}
	case 4:
		return &Payload{Tree: &Node{}}
	case 5: // list of k random strings
		k := []int{1, 2, 3, 4, 5, 12}[r.Intn(6)]
		items := make([]*Node, k)
		for i := range items {
			items[i] = &Node{Rnd: []int{1, 4, 20, 32, 65}[r.Intn(5)], Seed: r.Uint64()}
		}
		return &Payload{Tree: nL(items...)}
	case 6: // a string where a list is expected
		return &Payload{Tree: &Node{Rnd: r.Range(1, 200), Seed: r.Uint64()}}
	case 7: // deep nesting
		return &Payload{Tree: nested([]int{10, 1000, 20000}[r.Intn(3)])}
	case 8: // string header announcing far more than follows
		return &Payload{Raw: []Seg{{Hex: []string{"b90fff", "ba0fffff", "bb7fffffff", "bf7fffffffffffffff"}[r.Intn(4)]}, rndSeg(r, r.Intn(50))}}
	case 9: // list header announcing far more than follows
		return &Payload{Raw: []Seg{{Hex: []string{"f90fff", "fa0fffff", "fb7fffffff", "ff7fffffffffffffff"}[r.Intn(4)]}, rndSeg(r, r.Intn(50))}}
	case 10: // non canonical sizes / leading zeros
		return &Payload{Raw: []Seg{{Hex: []string{"c3820001", "c2b800", "c4b90000", "c28100", "c3f800c0"}[r.Intn(5)]}}}
	case 11: // valid tree, cut short
		return &Payload{Tree: randomTree(r, 3), Cut: r.Range(1, 3)}
	case 12: // valid tree followed by trailing bytes
		t := randomTree(r, 2)
		return &Payload{Raw: []Seg{hx(t.enc()), rndSeg(r, r.Range(1, 9))}}
	default: // very many small items
		return &Payload{Tree: nL(nRep([]int{1000, 100000}[r.Intn(2)], nB([]byte{byte(r.Intn(256))})))}
	}
}

// genCtx carries what typed generators know about the node under attack (nothing on surface b).
type genCtx struct {
	r        *run.Rng
	f        *chainFx
	cur, sta uint32
}

func (g *genCtx) height() *Node {
	pool := []uint64{0, 1, 2, uint64(g.sta), uint64(g.cur), uint64(g.cur) + 1, uint64(g.cur) + 2, 1 << 16, 1 << 31, 1<<32 - 2, 1<<32 - 1}
	if g.r.Chance(1, 12) {
		return nB([]byte{1, 0, 0, 0, 0}) // does not fit uint32
	}
	return nU(pool[g.r.Intn(len(pool))])
}

func (g *genCtx) hash() *Node {
	var known [][]byte
	if g.f != nil {
		for _, b := range g.f.baseBlocks() {
			h := b.Hash()
			known = append(known, h[:])
		}
		gh := g.f.node.BC.Genesis().Hash()
		known = append(known, gh[:])
	}
	switch k := g.r.Intn(10); {
	case k < 2:
		return &Node{Fill: 32}
	case k < 4:
		return &Node{Rnd: 32, Seed: g.r.Uint64()}
	case k == 4:
		return &Node{Fill: 32, Byte: 0xff}
	case k == 5:
		return &Node{Rnd: []int{0, 1, 31, 33}[g.r.Intn(4)], Seed: g.r.Uint64()} // wrong length
	default:
		if len(known) == 0 {
			return &Node{Rnd: 32, Seed: g.r.Uint64()}
		}
		return nB(known[g.r.Intn(len(known))])
	}
}

func (g *genCtx) sig() *Node {
	switch g.r.Intn(5) {
	case 0:
		return &Node{Fill: 65}
	case 1:
		return &Node{Fill: 65, Byte: 0xff}
	case 2:
		return &Node{Rnd: 64, Seed: g.r.Uint64()} // wrong length
	default:
		return &Node{Rnd: 65, Seed: g.r.Uint64()}
	}
}

func (g *genCtx) nodeString() *Node {
	id := g.r.Bytes(64)
	hexid := fmt.Sprintf("%x", id)
	valid := ""
	if g.f != nil {
		valid = fmt.Sprintf("%x", g.f.cl.W.Deputies[1].NodeID)
	} else {
		valid = "5e3600755f9b512a65603b38e30885c98cbac70259c3235c9b3f42ee563b480edea351ba0ff5748a638fe0aeff5d845bf37a3b437831871b48fd32f33cd9a3c0"
	}
	ep := []string{"1.2.3.4:7001", "127.0.0.1:0", "999.1.1.1:1", "1.2.3.4:99999", "1.2.3.4", ":::", "", "[::1]:80"}[g.r.Intn(8)]
	var s string
	switch g.r.Intn(12) {
	case 0:
		s = ""
	case 1:
		s = "@"
	case 2:
		s = hexid + "@" + ep // 128 hex chars, almost never a curve point
	case 3:
		s = valid + "@" + ep
	case 4:
		s = "0x" + hexid[:126] + "@" + ep // 128 chars, decodes to 63 bytes
	case 5:
		s = repHex("zz", 64) + "@" + ep // 128 chars, not hex
	case 6:
		s = hexid[:127] + "g@" + ep
	case 7:
		s = valid + "@" + ep + "@" + ep
	case 8:
		s = valid[:100] + "@" + ep
	case 9:
		s = valid
	case 10:
		s = string(g.r.Bytes(g.r.Range(1, 300)))
	default:
		s = "0X" + hexid[:126] + "@1.2.3.4:7001"
	}
	return nB([]byte(s))
}

// typed returns a payload of the right shape for code with absurd values; variant selects
// among the shapes of that code. ok=false: the code has no typed shape.
func (g *genCtx) typed(code uint32, variant int) (*Payload, bool) {
	r := g.r
	status := func() *Node { return nL(g.height(), g.hash(), g.height(), g.hash()) }
	switch code {
	case 0x02: // protocol handshake
		chain := nU([]uint64{0, 1, 200, 65535, 65536}[r.Intn(5)])
		return &Payload{Tree: nL(chain, g.hash(), g.height(), status())}, true
	case 0x03:
		return &Payload{Tree: status()}, true
	case 0x04:
		return &Payload{Tree: nL(g.height())}, true
	case 0x05:
		return &Payload{Tree: nL(g.height(), g.hash())}, true
	case 0x07, 0x0e:
		pairs := [][2]uint64{{0, 0}, {0, uint64(g.cur)}, {uint64(g.cur), 1<<32 - 1}, {1, 1<<32 - 1}, {0, 1<<32 - 1}, {5, 3}, {1<<32 - 1, 1<<32 - 1}, {uint64(g.cur), uint64(g.cur) + 9}, {0, 1 << 20}, {uint64(g.sta), uint64(g.cur)}}
		p := pairs[variant%len(pairs)]
		return &Payload{Tree: nL(nU(p[0]), nU(p[1]))}, true
	case 0x09:
		return &Payload{Tree: nL(g.hash(), g.height(), g.sig())}, true
	case 0x0a:
		return &Payload{Tree: nL(g.height(), g.hash())}, true
	case 0x0b:
		n := []int{0, 1, 3, 100, 3000}[variant%5]
		items := []*Node{}
		if n > 0 {
			items = append(items, nRep(n, g.sig()))
		}
		if g.f != nil && variant%3 == 1 { // a real block with real and garbage signatures mixed
			b := g.f.blocks[len(g.f.blocks)-1]
			h := b.Hash()
			for _, sd := range g.f.node.ConfirmsOf(b) {
				items = append(items, nB(sd[:]))
			}
			return &Payload{Tree: nL(nU(uint64(b.Height())), nB(h[:]), nL(items...))}, true
		}
		return &Payload{Tree: nL(g.height(), g.hash(), nL(items...))}, true
	case 0x0c:
		return &Payload{Tree: nL(nU([]uint64{0, 1, 1<<32 - 1, 1<<63 - 1, 1<<64 - 1}[r.Intn(5)]))}, true
	case 0x0d:
		n := []int{0, 1, 2, 5, 200}[variant%5]
		items := make([]*Node, 0, n)
		for i := 0; i < n; i++ {
			items = append(items, g.nodeString())
		}
		if variant%7 == 6 {
			items = []*Node{nRep(100000, g.nodeString())}
		}
		return &Payload{Tree: nL(nU(uint64(r.Intn(3))), nL(items...))}, true
	case 0x06:
		return g.txsPayload(variant), true
	case 0x08:
		return g.blocksPayload(variant), true
	}
	return nil, false
}

// setNow marks the expiration field (index 12) of a transaction tree as "now + d seconds".
func setNow(tx *Node, d int64) {
	if tx.isList() && len(tx.L) == 16 {
		tx.L[12] = &Node{NowPlus: &d}
	}
}

func (g *genCtx) txsPayload(variant int) *Payload {
	r := g.r
	if g.f == nil {
		return &Payload{Tree: nL(randomTree(r, 2), randomTree(r, 2))}
	}
	pickTx := func() *Node {
		t := treeOf(g.f.txs[r.Intn(len(g.f.txs))])
		setNow(t, int64(r.Range(30, 1500)))
		return t
	}
	switch variant % 8 {
	case 0: // valid transactions (fresh expiration, stale signature: the pool does not check signatures)
		n := r.Range(1, 5)
		items := make([]*Node, n)
		for i := range items {
			items[i] = pickTx()
		}
		return &Payload{Tree: nL(items...)}
	case 1: // one mutated transaction
		t := pickTx()
		mutate(r, t, r.Range(1, 3), true)
		return &Payload{Tree: nL(t)}
	case 2: // several mutated ones
		n := r.Range(2, 6)
		items := make([]*Node, n)
		for i := range items {
			items[i] = pickTx()
			mutate(r, items[i], r.Range(1, 2), true)
		}
		return &Payload{Tree: nL(items...)}
	case 3: // the same transaction many times
		return &Payload{Tree: nL(nRep([]int{100, 5000}[r.Intn(2)], pickTx()))}
	case 4: // expiration classes
		t := pickTx()
		d := []int64{-1, 0, 1799, 1800, 1801, 1 << 31, -1 << 31}[r.Intn(7)]
		setNow(t, d)
		return &Payload{Tree: nL(t)}
	case 5: // absurd numbers in every numeric field
		t := pickTx()
		for _, i := range []int{0, 1, 2, 7, 8, 9, 10} {
			if r.Chance(1, 2) {
				t.L[i] = []*Node{{}, nU(1<<64 - 1), &Node{Fill: 32, Byte: 0xff}, &Node{Fill: 40, Byte: 0xff}, nU(1)}[r.Intn(5)]
			}
		}
		return &Payload{Tree: nL(t)}
	case 6: // box with garbage / nested content
		t := pickTx()
		t.L[0] = nU(10)  // params.BoxTx
		t.L[5] = &Node{} // a box has no recipient
		switch r.Intn(4) {
		case 0:
			t.L[11] = &Node{Rnd: r.Range(1, 300), Seed: r.Uint64()}
		case 1:
			t.L[11] = nB([]byte(`{"subTxList":[]}`))
		case 2:
			t.L[11] = nB([]byte(`{"subTxList":[null,null]}`))
		default:
			t.L[11] = nB([]byte(`{"subTxList":[{"type":"10","data":"0x7b7d"}]}`))
		}
		return &Payload{Tree: nL(t)}
	default: // every tx type number with the data of another type
		t := pickTx()
		t.L[0] = nU(uint64(r.Intn(14)))
		return &Payload{Tree: nL(t)}
	}
}

func (g *genCtx) blocksPayload(variant int) *Payload {
	r := g.r
	if g.f == nil {
		return &Payload{Tree: nL(randomTree(r, 3))}
	}
	bases := g.f.baseBlocks()
	pick := func() *Node {
		b := bases[r.Intn(len(bases))]
		if r.Chance(1, 3) {
			return treeOf(b) // with change logs
		}
		return treeOf(b.ShallowCopy())
	}
	switch variant % 8 {
	case 0: // known / withheld valid blocks as they are
		n := r.Range(1, 3)
		items := make([]*Node, n)
		for i := range items {
			items[i] = pick()
		}
		return &Payload{Tree: nL(items...)}
	case 1, 2: // one mutated block
		t := pick()
		mutate(r, t, r.Range(1, 3), false)
		return &Payload{Tree: nL(t)}
	case 3: // header numbers absurd
		t := pick()
		h := t.L[0]
		for _, i := range []int{5, 6, 7, 8} {
			if r.Chance(1, 2) {
				h.L[i] = []*Node{{}, nU(1<<32 - 1), nU(1<<64 - 1), nU(1), nU(uint64(g.cur) + 5)}[r.Intn(5)]
			}
		}
		return &Payload{Tree: nL(t)}
	case 4: // 10^4 confirms of garbage
		t := pick()
		t.L[3] = nL(nRep([]int{1000, 10000}[r.Intn(2)], g.sig()))
		return &Payload{Tree: nL(t)}
	case 5: // unknown parent: the block is cached and its parent requested
		t := pick()
		t.L[0].L[0] = &Node{Rnd: 32, Seed: r.Uint64()}
		t.L[0].L[5] = g.height()
		return &Payload{Tree: nL(t)}
	case 6: // absurd deputy node list / optional parts
		t := pick()
		t.L[4] = nL(nRep(r.Range(1, 2000), nL(&Node{Rnd: 20, Seed: 1}, &Node{Rnd: 64, Seed: 2}, nU(uint64(r.Intn(70000))), nU(r.Uint64()))))
		return &Payload{Tree: nL(t)}
	default: // the same block very often
		return &Payload{Tree: nL(nRep([]int{50, 500}[r.Intn(2)], pick()))}
	}
}

// ---- structural mutation of a valid object's RLP tree ----

type slot struct {
	parent *Node
	idx    int
	depth  int
}

func slots(n *Node, depth int, out *[]slot) {
	if !n.isList() {
		return
	}
	for i, ch := range n.L {
		*out = append(*out, slot{n, i, depth})
		if len(*out) < 4000 {
			slots(ch, depth+1, out)
		}
	}
}

var mutOps = []string{"empty", "emptylist", "zero", "ff", "longer", "shorter", "huge", "wrap", "flatten", "drop", "dup", "rep", "swap", "rnd", "one", "max32", "max64"}

// mutate applies k random operators and returns their names. keepExp protects the
// expiration slot of a top-level transaction (index 12) so that the mutant still gets past
// the time check most of the time.
func mutate(r *run.Rng, root *Node, k int, keepExp bool) []string {
	var ops []string
	for j := 0; j < k; j++ {
		var all []slot
		slots(root, 0, &all)
		if len(all) == 0 {
			return ops
		}
		// half of the time stay near the top (header fields, top-level lists)
		var cand []slot
		if r.Chance(1, 2) {
			for _, s := range all {
				if s.depth <= 1 {
					cand = append(cand, s)
				}
			}
		}
		if len(cand) == 0 {
			cand = all
		}
		s := cand[r.Intn(len(cand))]
		if keepExp && s.parent == root && s.idx == 12 && r.Chance(3, 4) {
			continue
		}
		cur := s.parent.L[s.idx]
		op := mutOps[r.Intn(len(mutOps))]
		ops = append(ops, fmt.Sprintf("%s@d%d", op, s.depth))
		curLen := len(cur.B) / 2
		if cur.Rnd > 0 {
			curLen = cur.Rnd
		}
		switch op {
		case "empty":
			s.parent.L[s.idx] = &Node{}
		case "emptylist":
			s.parent.L[s.idx] = nL()
		case "zero":
			s.parent.L[s.idx] = nB([]byte{0})
		case "one":
			s.parent.L[s.idx] = nU(1)
		case "max32":
			s.parent.L[s.idx] = nU(1<<32 - 1)
		case "max64":
			s.parent.L[s.idx] = nU(1<<64 - 1)
		case "ff":
			if curLen == 0 {
				curLen = 1
			}
			s.parent.L[s.idx] = &Node{Fill: curLen, Byte: 0xff}
		case "longer":
			s.parent.L[s.idx] = &Node{Fill: curLen + 1, Byte: 0x7f}
		case "shorter":
			if curLen > 1 {
				s.parent.L[s.idx] = &Node{Rnd: curLen - 1, Seed: r.Uint64()}
			} else {
				s.parent.L[s.idx] = &Node{}
			}
		case "huge":
			s.parent.L[s.idx] = &Node{Rnd: []int{257, 70000, 1100000}[r.Intn(3)], Seed: r.Uint64()}
		case "wrap":
			s.parent.L[s.idx] = nL(cur)
		case "flatten":
			s.parent.L[s.idx] = nB(cur.enc())
		case "drop":
			s.parent.L = append(s.parent.L[:s.idx:s.idx], s.parent.L[s.idx+1:]...)
		case "dup":
			s.parent.L = append(s.parent.L[:s.idx+1:s.idx+1], s.parent.L[s.idx:]...)
			s.parent.L[s.idx+1] = cur.clone()
		case "rep":
			c := cur.clone()
			c.Rep = []int{2, 100, 10000}[r.Intn(3)]
			s.parent.L[s.idx] = c
		case "swap":
			o := r.Intn(len(s.parent.L))
			s.parent.L[s.idx], s.parent.L[o] = s.parent.L[o], s.parent.L[s.idx]
		case "rnd":
			if curLen == 0 {
				curLen = 8
			}
			s.parent.L[s.idx] = &Node{Rnd: curLen, Seed: r.Uint64()}
		}
	}
	return ops
}

// keep the import of types honest (tx field positions above follow the wire layout of types.Transaction)
var _ = types.Transactions{}
