package main

// Fully materialised, generator-free descriptions of hostile inputs. Every case that is
// executed is one Case value; it is what goes into the write-ahead log, into witnesses and
// what Replay re-executes. Large inputs stay compact through Seg (fill / seeded random
// bytes) and Node.Rep (repeated RLP items).

import (
	"encoding/hex"
	"fmt"
	"regexp"
	"strings"
	"time"

	"verif/fx/run"
)

// Seg is a piece of a byte string.
type Seg struct {
	Hex  string `json:"hex,omitempty"`
	Fill int    `json:"fill,omitempty"` // Fill bytes of value Byte
	Byte byte   `json:"byte,omitempty"`
	Rnd  int    `json:"rnd,omitempty"` // Rnd bytes from splitmix(Seed)
	Seed uint64 `json:"seed,omitempty"`
}

func segLen(ss []Seg) int {
	n := 0
	for _, s := range ss {
		n += len(s.Hex)/2 + s.Fill + s.Rnd
	}
	return n
}

func segBytes(ss []Seg) []byte {
	out := make([]byte, 0, segLen(ss))
	for _, s := range ss {
		if s.Hex != "" {
			b, err := hex.DecodeString(s.Hex)
			if err != nil {
				panic("bad hex in case: " + err.Error())
			}
			out = append(out, b...)
		}
		for i := 0; i < s.Fill; i++ {
			out = append(out, s.Byte)
		}
		if s.Rnd > 0 {
			out = append(out, run.NewRng(s.Seed, 77).Bytes(s.Rnd)...)
		}
	}
	return out
}

func hx(b []byte) Seg { return Seg{Hex: hex.EncodeToString(b)} }

// Node is an RLP item: a byte string (B / Rnd / Fill), or a list (L non-nil or IsList).
// Rep > 1 repeats the item inside its parent list.
type Node struct {
	B      string  `json:"b,omitempty"`
	L      []*Node `json:"l,omitempty"`
	IsList bool    `json:"list,omitempty"`
	Rep    int     `json:"rep,omitempty"`
	Nest   int     `json:"nest,omitempty"` // the item is wrapped in this many single-element lists (deep nesting stays flat in JSON)
	Rnd    int     `json:"rnd,omitempty"`
	Seed   uint64  `json:"seed,omitempty"`
	Fill   int     `json:"fill,omitempty"`
	Byte   byte    `json:"byte,omitempty"`
	// NowPlus: an unsigned integer item whose value is the wall clock (seconds) at execution
	// time plus this offset (the only wall-clock coupled input: handleTxsMsg compares the
	// expiration of received transactions with time.Now).
	NowPlus *int64 `json:"nowplus,omitempty"`
	// Ctr: an unsigned integer item whose value is Ctr-1 plus the repetition index of the
	// message it is sent in (Msg.Rep): lets a compact case send thousands of distinct messages.
	Ctr uint64 `json:"ctr,omitempty"`
	// Only meaningful inside the replacement tree of a "resp-mut" frame, where an empty item
	// means "keep the valid field": Empty = replace the field by the empty string, Drop = leave
	// the field out.
	Empty bool `json:"empty,omitempty"`
	Drop  bool `json:"drop,omitempty"`
}

// repIndex is the repetition index used for Ctr items while a payload is encoded.
var repIndex uint64

func (n *Node) hasCtr() bool {
	if n == nil {
		return false
	}
	if n.Ctr > 0 {
		return true
	}
	for _, ch := range n.L {
		if ch.hasCtr() {
			return true
		}
	}
	return false
}

func nB(b []byte) *Node       { return &Node{B: hex.EncodeToString(b)} }
func nL(items ...*Node) *Node { return &Node{L: items, IsList: true} }
func nU(v uint64) *Node {
	if v == 0 {
		return &Node{}
	}
	var b []byte
	for x := v; x > 0; x >>= 8 {
		b = append([]byte{byte(x)}, b...)
	}
	return nB(b)
}
func nRnd(n int, seed uint64) *Node { return &Node{Rnd: n, Seed: seed} }
func nRep(n int, item *Node) *Node {
	c := *item
	c.Rep = n
	return &c
}

func (n *Node) isList() bool { return n.IsList || n.L != nil }

func (n *Node) clone() *Node {
	if n == nil {
		return nil
	}
	c := *n
	if n.L != nil {
		c.L = make([]*Node, len(n.L))
		for i, ch := range n.L {
			c.L[i] = ch.clone()
		}
	}
	return &c
}

func rlpHead(base byte, n int) []byte {
	if n < 56 {
		return []byte{base + byte(n)}
	}
	var lb []byte
	for x := n; x > 0; x >>= 8 {
		lb = append([]byte{byte(x)}, lb...)
	}
	return append([]byte{base + 55 + byte(len(lb))}, lb...)
}

// enc encodes one occurrence of the node (Rep is applied by the parent).
func (n *Node) enc() []byte {
	if n.Nest > 0 {
		c := *n
		c.Nest = 0
		inner := c.enc()
		// headers from the inside out, then one concatenation (linear in the output size)
		heads := make([][]byte, n.Nest)
		total := len(inner)
		for i := 0; i < n.Nest; i++ {
			heads[i] = rlpHead(0xc0, total)
			total += len(heads[i])
		}
		b := make([]byte, 0, total)
		for i := n.Nest - 1; i >= 0; i-- {
			b = append(b, heads[i]...)
		}
		return append(b, inner...)
	}
	if n.isList() {
		var body []byte
		for _, ch := range n.L {
			one := ch.enc()
			r := ch.Rep
			if r < 1 {
				r = 1
			}
			for i := 0; i < r; i++ {
				body = append(body, one...)
			}
		}
		return append(rlpHead(0xc0, len(body)), body...)
	}
	var b []byte
	switch {
	case n.Ctr > 0:
		return nU(n.Ctr - 1 + repIndex).enc()
	case n.NowPlus != nil:
		v := time.Now().Unix() + *n.NowPlus
		if v < 0 {
			v = 0
		}
		return nU(uint64(v)).enc()
	case n.Rnd > 0:
		b = run.NewRng(n.Seed, 78).Bytes(n.Rnd)
	case n.Fill > 0:
		b = make([]byte, n.Fill)
		for i := range b {
			b[i] = n.Byte
		}
	default:
		var err error
		b, err = hex.DecodeString(n.B)
		if err != nil {
			panic("bad hex in rlp node")
		}
	}
	if len(b) == 1 && b[0] < 0x80 {
		return b
	}
	return append(rlpHead(0x80, len(b)), b...)
}

// parseRLP turns canonical RLP into a tree (used to mutate valid objects structurally).
func parseRLP(b []byte) (*Node, error) {
	n, rest, err := parseItem(b, 0)
	if err != nil {
		return nil, err
	}
	if len(rest) != 0 {
		return nil, fmt.Errorf("trailing bytes")
	}
	return n, nil
}

func parseItem(b []byte, depth int) (*Node, []byte, error) {
	if len(b) == 0 {
		return nil, nil, fmt.Errorf("short")
	}
	if depth > 64 {
		return nil, nil, fmt.Errorf("deep")
	}
	t := b[0]
	readLen := func(base byte) (int, int, error) { // content length, header length
		if t <= base+55 {
			return int(t - base), 1, nil
		}
		ll := int(t - base - 55)
		if len(b) < 1+ll {
			return 0, 0, fmt.Errorf("short")
		}
		n := 0
		for _, x := range b[1 : 1+ll] {
			n = n<<8 | int(x)
		}
		return n, 1 + ll, nil
	}
	switch {
	case t < 0x80:
		return nB(b[:1]), b[1:], nil
	case t < 0xc0:
		n, h, err := readLen(0x80)
		if err != nil || len(b) < h+n {
			return nil, nil, fmt.Errorf("short")
		}
		return nB(b[h : h+n]), b[h+n:], nil
	default:
		n, h, err := readLen(0xc0)
		if err != nil || len(b) < h+n {
			return nil, nil, fmt.Errorf("short")
		}
		body := b[h : h+n]
		out := &Node{IsList: true, L: []*Node{}}
		for len(body) > 0 {
			ch, rest, err := parseItem(body, depth+1)
			if err != nil {
				return nil, nil, err
			}
			out.L = append(out.L, ch)
			body = rest
		}
		return out, b[h+n:], nil
	}
}

// Payload of a message / an object: either an RLP tree (optionally cut short) or raw segments.
type Payload struct {
	Tree *Node `json:"tree,omitempty"`
	Cut  int   `json:"cut,omitempty"` // drop this many trailing bytes of the encoding
	Raw  []Seg `json:"raw,omitempty"`
}

// bytesAt encodes the payload for repetition i (only payloads with Ctr items differ).
func (p *Payload) bytesAt(i int) []byte {
	repIndex = uint64(i)
	defer func() { repIndex = 0 }()
	return p.bytes()
}

func (p *Payload) varies() bool { return p != nil && p.Tree.hasCtr() }

func (p *Payload) bytes() []byte {
	if p == nil {
		return nil
	}
	if p.Tree != nil {
		b := p.Tree.enc()
		if p.Cut > 0 && p.Cut <= len(b) {
			b = b[:len(b)-p.Cut]
		}
		return b
	}
	return segBytes(p.Raw)
}

// ---- wire scripts (surfaces a and b) ----

// Frame is one length-prefixed unit on the wire.
type Frame struct {
	Magic string `json:"magic,omitempty"` // hex; "" = 5a48
	Len   int64  `json:"len"`             // declared length; -1 = actual body length
	// Body kinds: "raw" bytes as they are; "ecies" ECIES envelope to the node key around the
	// plaintext (a); "aes" well-formed frame = AES-CBC(PKCS5(code||payload)) (b); "cbc" AES-CBC of
	// the plaintext as it is, no padding added, length must be a multiple of 16 (b): controls the
	// padding class the node sees. "ecies-raw" (a, e): hand-built ECIES message to the node key
	// whose encrypted part is Plain exactly as given (any length, also shorter than the IV) under
	// a tag chosen by Mac. "hello" / "hello-mut" (a): valid first handshake message / with fields
	// replaced. "resp" / "resp-mut" (e): valid handshake response of a listener / with fields of
	// Payload.Tree = [pub?, nonce?, extra...] replacing the valid ones.
	Kind    string   `json:"kind"`
	Mac     string   `json:"mac,omitempty"` // ecies-raw: "" valid tag, "bad" one bit flipped, "none" no tag appended
	Code    uint32   `json:"code,omitempty"`
	Plain   []Seg    `json:"plain,omitempty"`
	Payload *Payload `json:"payload,omitempty"`
}

// WireScript is what the attacker does on one connection.
type WireScript struct {
	Frames []Frame `json:"frames"`
	Chunks []int   `json:"chunks,omitempty"` // write sizes, cycled; empty = one write per frame
	Cut    int64   `json:"cut"`              // send only this many bytes in total; -1 = everything
	// NodeWrite > 0 (surface b): after the handshake the node itself sends one message of this many payload bytes through
	// Peer.WriteMsg (as the protocol manager does) with a short write deadline, while the remote takes only RemoteReads
	// bytes of it off the connection and then stops reading
	NodeWrite   int `json:"nodeWrite,omitempty"`
	RemoteReads int `json:"remoteReads,omitempty"`
	End    string  `json:"end"`              // "close": close after sending; "hold": keep silent, close after the node did or the hold time passed; "probe" (b): send one more well-formed frame and see whether the node delivers it or closes; "probe" (e): wait for the verdict of the node's handshake, then the same if it accepted
}

// Msg is one well-framed protocol message (surface c).
type Msg struct {
	Code    uint32   `json:"code"`
	Payload *Payload `json:"payload,omitempty"`
	Rep     int      `json:"rep,omitempty"` // send it this many times (stress)
}

// Obj is a decodable-but-absurd object handed straight to the chain (surface d).
type Obj struct {
	What    string   `json:"what"` // "block" | "tx" | "confirms"
	Payload *Payload `json:"payload"`
	Resign  bool     `json:"resign,omitempty"` // block: recompute tx root and sign the header with the in-turn deputy key; tx: sign with the sender key of the base tx
	Base    int      `json:"base,omitempty"`   // which fixture object was mutated (index into the deterministic fixture list)
	Height  uint32   `json:"height,omitempty"` // confirms: height / hash are part of the payload tree [height, hash, [sigs]]
	Ops     []string `json:"ops,omitempty"`    // mutation operators applied (fingerprint material)
}

// Case is one executed input.
type Case struct {
	S     string      `json:"s"`   // surface a|b|c|d|e
	Idx   int         `json:"idx"` // index in the surface's list (fixed list: negative numbers are not used; Fixed tells)
	Fixed bool        `json:"fixed,omitempty"`
	Kind  string      `json:"kind"` // structural class (fingerprint)
	Wire  *WireScript `json:"wire,omitempty"`
	// c
	HS     *Payload `json:"hs,omitempty"` // reply to the protocol handshake on a fresh connection (nil = honest reply)
	HSCode uint32   `json:"hscode,omitempty"`
	Msgs   []Msg    `json:"msgs,omitempty"`
	Slow   bool     `json:"slow,omitempty"` // attacker does not read replies while sending
	// d
	Obj  *Obj   `json:"obj,omitempty"`
	Lazy string `json:"lazy,omitempty"` // fixed list only: build Obj from the fixture at execution time (the logged case carries the result)
}

// ---- crash signature, same normal form as the driver's (check: crash_signature) ----

const modPath = "github.com/LemoFoundationLtd/lemochain-core"

var (
	rePanic  = regexp.MustCompile(`(?m)^(panic: .*|fatal error: .*)$`)
	reFrame  = regexp.MustCompile(`(?m)^(github\.com/LemoFoundationLtd/lemochain-core/[^\s(]+)\(`)
	reHexNum = regexp.MustCompile(`0x[0-9a-fA-F]+`)
	reNum    = regexp.MustCompile(`\d+`)
)

func crashSignature(stderr string) string {
	loc := rePanic.FindStringIndex(stderr)
	if loc == nil {
		return ""
	}
	line := stderr[loc[0]:loc[1]]
	frame := ""
	for _, m := range reFrame.FindAllStringSubmatch(stderr[loc[1]:], -1) {
		if strings.Contains(m[1], "verifhook") {
			continue
		}
		frame = strings.Replace(m[1], modPath+"/", "", 1)
		break
	}
	msg := reHexNum.ReplaceAllString(line, "0x?")
	msg = reNum.ReplaceAllString(msg, "N")
	if len(msg) > 90 {
		msg = msg[:90]
	}
	return "crash:" + msg + "@" + frame
}
