package main

// Case lists of the wire surfaces. Each list is a deterministic sweep (the same in every
// tier and for every seed) followed by seeded random cases; case i of the random part is a
// function of (seed, i) only.

import (
	"fmt"

	"verif/fx/run"
)

const (
	frameCap   = 25 * MiB // params.MaxPackageLength
	helloLen   = 287      // bytes of a valid first handshake message incl. the 6 byte header (checked at start-up)
	overCapLen = 64 * MiB // smallest "clearly above the allowance" length used by the exploration (1 GiB and 4 GiB-1 run once, in the fixed list)
)

var chunkSets = [][]int{nil, {1}, {2}, {3, 1}, {5}, {6}, {7}, {6, 1000}, {2, 4, 1000000}, {16}, {17, 3}, {64}, {1000}, {4096}}

func rndSeg(r *run.Rng, n int) Seg { return Seg{Rnd: n, Seed: r.Uint64()} }

// ---------- surface a ----------

func sweepA() []Case {
	var out []Case
	add := func(kind string, w WireScript) {
		out = append(out, Case{S: "a", Kind: kind, Wire: &w})
	}
	// truncation of a valid first message at every offset
	for k := 0; k < helloLen; k++ {
		end := "close"
		if k%9 == 4 {
			end = "hold"
		}
		add("trunc-valid-hello", WireScript{Frames: []Frame{{Kind: "hello", Len: -1}}, Cut: int64(k), End: end})
	}
	// the valid message itself, whole and in awkward splits
	for _, ch := range chunkSets {
		add("valid-hello", WireScript{Frames: []Frame{{Kind: "hello", Len: -1}}, Chunks: ch, Cut: -1, End: "hold"})
	}
	// wrong magic / prefix experiments
	for _, m := range []string{"0000", "5a49", "485a", "ffff", "5a", "474554202f20", "16030100"} {
		add("wrong-magic", WireScript{Frames: []Frame{{Magic: m, Kind: "raw", Len: -1, Plain: []Seg{{Rnd: 64, Seed: 1}}}}, Cut: -1, End: "hold"})
	}
	// length prefix classes
	for _, n := range []int{1, 2, 15, 16, 64, 65, 66, 97, 98, 112, 113, 114, 200, 281, 1000, 65536} {
		for _, first := range []int{-1, 2, 3, 4} { // first body byte: random / the three values the ECIES decoder accepts
			segs := []Seg{{Rnd: n, Seed: uint64(n)}}
			if first >= 0 {
				segs = []Seg{{Fill: 1, Byte: byte(first)}}
				if n > 1 {
					segs = append(segs, Seg{Rnd: n - 1, Seed: uint64(n)})
				}
			}
			add("exact-declared-garbage", WireScript{Frames: []Frame{{Kind: "raw", Len: -1, Plain: segs}}, Cut: -1, End: "hold"})
		}
	}
	add("declared-zero", WireScript{Frames: []Frame{{Kind: "raw", Len: 0}}, Cut: -1, End: "hold"})
	add("declared-zero-then-data", WireScript{Frames: []Frame{{Kind: "raw", Len: 0, Plain: []Seg{{Rnd: 100, Seed: 3}}}}, Cut: -1, End: "hold"})
	for _, n := range []int64{1024, 65536, MiB, frameCap - 1, frameCap, frameCap + 1, overCapLen} {
		for _, end := range []string{"close", "hold"} {
			add(fmt.Sprintf("declared-%s-little-data", sizeName(n)), WireScript{Frames: []Frame{{Kind: "raw", Len: n, Plain: []Seg{{Rnd: 512, Seed: 5}}}}, Cut: -1, End: end})
		}
		add(fmt.Sprintf("declared-%s-header-only", sizeName(n)), WireScript{Frames: []Frame{{Kind: "raw", Len: n}}, Cut: -1, End: "hold"})
	}
	// valid ECIES envelope around hostile plaintext
	env := func(kind string, p *Payload, plain []Seg) {
		add("envelope-"+kind, WireScript{Frames: []Frame{{Kind: "ecies", Len: -1, Plain: plain, Payload: p}}, Cut: -1, End: "hold"})
	}
	env("empty", nil, nil)
	for _, n := range []int{1, 2, 31, 64, 161, 168, 169, 1000, 100000} {
		env("random", nil, []Seg{{Rnd: n, Seed: uint64(n) + 11}})
	}
	b65, b64, b32 := &Node{Rnd: 65, Seed: 1}, &Node{Rnd: 64, Seed: 2}, &Node{Rnd: 32, Seed: 3}
	shapes := envelopeShapes()
	for _, k := range sortedNodeKeys(shapes) {
		env(k, &Payload{Tree: shapes[k]}, nil)
		env(k+"-cut", &Payload{Tree: shapes[k], Cut: 1}, nil)
	}
	env("rlp-huge-string-header", &Payload{Raw: []Seg{{Hex: "bb7fffffff"}, {Rnd: 40, Seed: 9}}}, nil)
	env("rlp-huge-list-header", &Payload{Raw: []Seg{{Hex: "fb7fffffff"}, {Rnd: 40, Seed: 9}}}, nil)
	env("rlp-64bit-length", &Payload{Raw: []Seg{{Hex: "bfffffffffffffffff"}, {Rnd: 40, Seed: 9}}}, nil)
	// valid plaintext with one absurd field (hello-mut: empty item = keep the valid value)
	keep := &Node{}
	mut := func(kind string, items ...*Node) {
		add("hello-field-"+kind, WireScript{Frames: []Frame{{Kind: "hello-mut", Len: -1, Payload: &Payload{Tree: nL(items...)}}}, Cut: -1, End: "hold"})
	}
	mut("none")
	mut("sig-zero", &Node{Fill: 65})
	mut("sig-ff", &Node{Fill: 65, Byte: 0xff})
	mut("sig-random", b65)
	mut("sig-v-4", &Node{Rnd: 64, Seed: 4}, keep, keep) // wrong length: array decoding fails
	mut("sig-recid-ff", &Node{B: repHex("11", 64) + "ff"})
	mut("pub-zero", keep, &Node{Fill: 64})
	mut("pub-ff", keep, &Node{Fill: 64, Byte: 0xff})
	mut("pub-random-not-on-curve", keep, b64)
	mut("pub-short", keep, &Node{Rnd: 63, Seed: 5})
	mut("nonce-zero", keep, keep, &Node{Fill: 32})
	mut("nonce-short", keep, keep, &Node{Rnd: 31, Seed: 6})
	mut("extra-item", keep, keep, keep, b32)
	// hand-built envelopes: valid tag around an encrypted part of any length (ecies.Encrypt cannot produce < 16)
	eciesRawSweep(add, "hold")
	// two frames back to back (the second one must not be read as part of the handshake)
	add("valid-hello-then-garbage", WireScript{Frames: []Frame{{Kind: "hello", Len: -1}, {Kind: "raw", Len: -1, Plain: []Seg{{Rnd: 100, Seed: 8}}}}, Cut: -1, End: "hold"})
	return out
}

// envelopeShapes: RLP trees that are not the expected handshake message (surfaces a and e).
func envelopeShapes() map[string]*Node {
	b65, b64, b32 := &Node{Rnd: 65, Seed: 1}, &Node{Rnd: 64, Seed: 2}, &Node{Rnd: 32, Seed: 3}
	return map[string]*Node{
		"rlp-empty-list":         nL(),
		"rlp-empty-string":       &Node{},
		"rlp-one-string":         b65,
		"rlp-two-items":          nL(b65, b64),
		"rlp-three-short":        nL(nB([]byte{1}), nB([]byte{2}), nB([]byte{3})),
		"rlp-three-long":         nL(&Node{Rnd: 66, Seed: 1}, &Node{Rnd: 65, Seed: 2}, &Node{Rnd: 33, Seed: 3}),
		"rlp-lists-for-items":    nL(nL(b65), nL(b64), nL(b32)),
		"rlp-four-items":         nL(b65, b64, b32, b32),
		"rlp-right-shape-random": nL(b65, b64, b32),
		"rlp-right-shape-zero":   nL(&Node{Fill: 65}, &Node{Fill: 64}, &Node{Fill: 32}),
		"rlp-right-shape-ff":     nL(&Node{Fill: 65, Byte: 0xff}, &Node{Fill: 64, Byte: 0xff}, &Node{Fill: 32, Byte: 0xff}),
		"rlp-10k-items":          nL(nRep(10000, b32)),
		"rlp-nested-1000":        nested(1000),
	}
}

func repHex(b string, n int) string {
	s := ""
	for i := 0; i < n; i++ {
		s += b
	}
	return s
}

func nested(depth int) *Node {
	return &Node{IsList: true, Nest: depth}
}

func sortedNodeKeys(m map[string]*Node) []string {
	ks := make([]string, 0, len(m))
	for k := range m {
		ks = append(ks, k)
	}
	for i := 1; i < len(ks); i++ {
		for j := i; j > 0 && ks[j] < ks[j-1]; j-- {
			ks[j], ks[j-1] = ks[j-1], ks[j]
		}
	}
	return ks
}

func sizeName(n int64) string {
	switch {
	case n == frameCap:
		return "25MiB"
	case n == frameCap-1:
		return "25MiB-1"
	case n == frameCap+1:
		return "25MiB+1"
	case n == 1<<30:
		return "1GiB"
	case n == 1<<32-1:
		return "4GiB-1"
	case n >= MiB && n%MiB == 0:
		return fmt.Sprintf("%dMiB", n/MiB)
	case n >= 1024 && n%1024 == 0:
		return fmt.Sprintf("%dKiB", n/1024)
	}
	return fmt.Sprint(n)
}

func randomA(seed uint64, i int) Case {
	r := run.NewRng(seed, 0xa, uint64(i))
	w := WireScript{Cut: -1, End: []string{"close", "hold"}[r.Intn(2)], Chunks: chunkSets[r.Intn(len(chunkSets))]}
	kind := ""
	switch r.Intn(7) {
	case 6: // hand-built envelope, mostly around the block size
		w.Frames = []Frame{randomEciesRaw(r)}
		kind = "rnd-" + eciesRawKind(segLen(w.Frames[0].Plain), w.Frames[0].Mac)
	case 0: // valid hello, cut somewhere, odd splits
		w.Frames = []Frame{{Kind: "hello", Len: -1}}
		w.Cut = int64(r.Intn(helloLen + 1))
		kind = "rnd-trunc-valid-hello"
	case 1: // declared length unrelated to the data
		decl := []int64{0, 1, 5, 64, 200, 287, 1 << 16, MiB, frameCap, overCapLen}[r.Intn(10)]
		n := r.Intn(400)
		w.Frames = []Frame{{Kind: "raw", Len: decl, Plain: []Seg{rndSeg(r, n)}}}
		kind = "rnd-declared-vs-actual"
	case 2: // exact garbage with an accepted first byte
		n := r.Range(1, 600)
		segs := []Seg{{Fill: 1, Byte: byte(r.Range(2, 4))}}
		if n > 1 {
			segs = append(segs, rndSeg(r, n-1))
		}
		w.Frames = []Frame{{Kind: "raw", Len: -1, Plain: segs}}
		kind = "rnd-ecies-shaped-garbage"
	case 3: // envelope around random RLP-ish bytes
		n := r.Intn(300)
		w.Frames = []Frame{{Kind: "ecies", Len: -1, Plain: []Seg{rndSeg(r, n)}}}
		kind = "rnd-envelope-random"
	case 4: // envelope around a random tree
		t := randomTree(r, 3)
		w.Frames = []Frame{{Kind: "ecies", Len: -1, Payload: &Payload{Tree: t, Cut: r.Intn(3)}}}
		kind = "rnd-envelope-tree"
	case 5: // valid hello with random field replacements
		items := []*Node{{}, {}, {}}
		sizes := []int{65, 64, 32}
		for j := range items {
			switch r.Intn(5) {
			case 0:
				items[j] = &Node{Rnd: sizes[j], Seed: r.Uint64()}
			case 1:
				items[j] = &Node{Fill: sizes[j], Byte: byte(r.Intn(256))}
			case 2:
				items[j] = &Node{Rnd: sizes[j] + r.Range(-2, 2), Seed: r.Uint64()}
			}
		}
		w.Frames = []Frame{{Kind: "hello-mut", Len: -1, Payload: &Payload{Tree: nL(items...)}}}
		kind = "rnd-hello-fields"
	}
	return Case{S: "a", Kind: kind, Wire: &w}
}

// randomTree draws a small arbitrary RLP tree.
func randomTree(r *run.Rng, depth int) *Node {
	if depth == 0 || r.Chance(1, 3) {
		switch r.Intn(5) {
		case 0:
			return &Node{}
		case 1:
			return nB([]byte{byte(r.Intn(256))})
		case 2:
			return &Node{Rnd: []int{20, 32, 64, 65}[r.Intn(4)], Seed: r.Uint64()}
		case 3:
			return nU(r.Uint64() >> uint(r.Intn(64)))
		default:
			return &Node{Rnd: r.Intn(100), Seed: r.Uint64()}
		}
	}
	n := r.Intn(6)
	items := make([]*Node, 0, n)
	for i := 0; i < n; i++ {
		items = append(items, randomTree(r, depth-1))
	}
	return nL(items...)
}

// ---------- surface b ----------

func plainFrame(code uint32, payload []byte) []byte {
	b := []byte{byte(code >> 24), byte(code >> 16), byte(code >> 8), byte(code)}
	return append(b, payload...)
}

// padded builds a block-aligned plaintext whose tail makes the node see the wanted padding
// class: body bytes, then padLen bytes of value padByte.
func padded(body []byte, padLen int, padByte byte) []Seg {
	out := []Seg{}
	if len(body) > 0 {
		out = append(out, hx(body))
	}
	if padLen > 0 {
		out = append(out, Seg{Fill: padLen, Byte: padByte})
	}
	return out
}

func sweepB() []Case {
	var out []Case
	add := func(kind string, w WireScript) {
		out = append(out, Case{S: "b", Kind: kind, Wire: &w})
	}
	one := func(f Frame, end string) WireScript { return WireScript{Frames: []Frame{f}, Cut: -1, End: end} }
	// raw ciphertext of every small length and some larger ones, declared = actual
	lens := []int{}
	for n := 1; n <= 49; n++ {
		lens = append(lens, n)
	}
	lens = append(lens, 63, 64, 65, 100, 255, 256, 257, 1000, 1024, 4095, 4096, 4097, 65535, 65536)
	for _, n := range lens {
		k := "raw-ciphertext-len-multiple-of-16"
		if n%16 != 0 {
			k = "raw-ciphertext-len-not-multiple-of-16"
		}
		add(k, one(Frame{Kind: "raw", Len: -1, Plain: []Seg{{Rnd: n, Seed: uint64(n)}}}, "probe"))
	}
	add("declared-zero", one(Frame{Kind: "raw", Len: 0}, "probe"))
	for _, m := range []string{"0000", "5a49", "485a", "ffff"} {
		add("wrong-magic", one(Frame{Magic: m, Kind: "raw", Len: -1, Plain: []Seg{{Rnd: 32, Seed: 1}}}, "probe"))
	}
	// the node writes, the remote stalls after taking part of the frame
	for _, size := range []int{12, 4000, 300000} {
		for _, took := range []int{0, 1, 2, 5, 6, 7, 16, 22, 23, 100, 3000, 100000, size + 100} {
			if took > size+100 {
				continue
			}
			k := "node-write-remote-takes-part-of-the-frame"
			if took == 0 {
				k = "node-write-remote-takes-nothing"
			} else if took >= size+100 {
				k = "node-write-remote-takes-everything"
			}
			w := WireScript{Cut: -1, End: "close", NodeWrite: size, RemoteReads: took}
			out = append(out, Case{S: "b", Kind: k, Wire: &w})
		}
	}
	// declared length classes around the cap: header and a little data only
	for _, n := range []int64{frameCap - 16, frameCap - 1, frameCap, frameCap + 1, frameCap + 16, overCapLen, 1 << 30, 1<<31 - 1, 1 << 31, 1<<32 - 1} {
		add("declared-"+sizeName(n)+"-little-data", one(Frame{Kind: "raw", Len: n, Plain: []Seg{{Rnd: 1024, Seed: 2}}}, "hold"))
		add("declared-"+sizeName(n)+"-header-only", one(Frame{Kind: "raw", Len: n}, "close"))
	}
	// padding classes: what the node sees after CBC decryption
	body := []byte{0, 0, 0, 3, 0xc0}
	for blocks := 1; blocks <= 2; blocks++ {
		total := 16 * blocks
		for plainLen := 0; plainLen < total; plainLen++ { // valid padding leaving plainLen bytes: 0..3 is shorter than a message code
			pl := make([]byte, plainLen)
			copy(pl, body)
			kind := "padding-valid-plaintext-ge-4"
			if plainLen < 4 {
				kind = fmt.Sprintf("padding-valid-plaintext-%d-bytes", plainLen)
			}
			add(kind, one(Frame{Kind: "cbc", Len: -1, Plain: padded(pl, total-plainLen, byte(total-plainLen))}, "probe"))
			if total-plainLen > 16 {
				out[len(out)-1].Kind = "padding-byte-above-block-size"
			}
		}
		full := make([]byte, total-1)
		copy(full, body)
		for _, pb := range []byte{0, 17, 32, 0x80, 0xff} {
			add("padding-byte-invalid", one(Frame{Kind: "cbc", Len: -1, Plain: padded(full, 1, pb)}, "probe"))
		}
		// right pad byte, wrong filler
		bad := make([]byte, total-4)
		copy(bad, body)
		add("padding-filler-mismatch", one(Frame{Kind: "cbc", Len: -1, Plain: append(padded(bad, 3, 9), Seg{Fill: 1, Byte: 4})}, "probe"))
	}
	// well-formed frames: every code with basic payload classes
	for code := uint32(0); code <= 0x21; code++ {
		for pc := 0; pc < 4; pc++ {
			var p *Payload
			name := ""
			switch pc {
			case 0:
				name = "empty"
			case 1:
				name = "random"
				p = &Payload{Raw: []Seg{{Rnd: 40 + int(code), Seed: uint64(code)}}}
			case 2:
				name = "rlp-wrong-shape"
				p = &Payload{Tree: nL(nB([]byte{1}), nL(), &Node{Rnd: 32, Seed: uint64(code)})}
			case 3:
				name = "rlp-numbers-max"
				p = &Payload{Tree: nL(nU(1<<32-1), &Node{Fill: 32, Byte: 0xff}, nU(1<<32-1), &Node{Fill: 32, Byte: 0xff})}
			}
			k := "well-formed-code-in-range-" + name
			if code > 0x1f {
				k = "well-formed-code-out-of-range-" + name
			}
			add(k, one(Frame{Kind: "aes", Len: -1, Code: code, Payload: p}, "probe"))
		}
	}
	for _, code := range []uint32{0x100, 0xffff, 0x7fffffff, 0x80000000, 0xffffffff} {
		add("well-formed-code-huge", one(Frame{Kind: "aes", Len: -1, Code: code}, "probe"))
	}
	// truncation of a well-formed frame at every offset, then close
	for k := 0; k <= 6+48; k++ {
		end := "close"
		if k%5 == 2 {
			end = "hold"
		}
		add("trunc-well-formed-frame", WireScript{Frames: []Frame{{Kind: "aes", Len: -1, Code: 3, Payload: &Payload{Raw: []Seg{{Rnd: 40, Seed: 4}}}}}, Cut: int64(k), End: end})
	}
	// sequences and splits
	seq := []Frame{
		{Kind: "aes", Len: -1, Code: 4, Payload: &Payload{Tree: nL(nU(0))}},
		{Kind: "aes", Len: -1, Code: 1},
		{Kind: "aes", Len: -1, Code: 7, Payload: &Payload{Tree: nL(nU(0), nU(1<<32-1))}},
		{Kind: "aes", Len: -1, Code: 0x1f, Payload: &Payload{Raw: []Seg{{Rnd: 5000, Seed: 4}}}},
	}
	for _, ch := range chunkSets {
		add("sequence-split", WireScript{Frames: seq, Chunks: ch, Cut: -1, End: "probe"})
	}
	// many frames quickly (the consumer keeps up; the peer's queue holds 10)
	many := make([]Frame, 0, 400)
	for i := 0; i < 400; i++ {
		many = append(many, Frame{Kind: "aes", Len: -1, Code: uint32(2 + i%30), Payload: &Payload{Raw: []Seg{{Rnd: i % 97, Seed: uint64(i)}}}})
	}
	add("burst-400-frames", WireScript{Frames: many, Cut: -1, End: "probe"})
	add("burst-400-frames-bytewise", WireScript{Frames: many[:40], Chunks: []int{1}, Cut: -1, End: "probe"})
	// one frame of exactly the maximum size, completely sent: plaintext 4+payload padded to 25 MiB
	add("full-size-frame-at-cap", one(Frame{Kind: "aes", Len: -1, Code: 3, Payload: &Payload{Raw: []Seg{{Fill: frameCap - 4 - 1, Byte: 0x61}}}}, "probe"))
	add("full-size-frame-above-cap", one(Frame{Kind: "aes", Len: -1, Code: 3, Payload: &Payload{Raw: []Seg{{Fill: frameCap - 4, Byte: 0x61}}}}, "probe"))
	return out
}

func randomB(seed uint64, i int) Case {
	r := run.NewRng(seed, 0xb, uint64(i))
	w := WireScript{Cut: -1, End: "probe", Chunks: chunkSets[r.Intn(len(chunkSets))]}
	kind := ""
	nf := 1
	if r.Chance(1, 3) {
		nf = r.Range(2, 5)
	}
	for j := 0; j < nf; j++ {
		var f Frame
		k := ""
		switch r.Intn(7) {
		case 0: // raw ciphertext of arbitrary length
			n := r.Range(1, 2000)
			if r.Chance(1, 3) {
				n = 16 * r.Range(1, 100)
			}
			f = Frame{Kind: "raw", Len: -1, Plain: []Seg{rndSeg(r, n)}}
			k = "raw16"
			if n%16 != 0 {
				k = "rawodd"
			}
		case 1: // block aligned plaintext with a chosen tail
			blocks := r.Range(1, 4)
			pl := r.Bytes(16 * blocks)
			pl[len(pl)-1] = byte(r.Intn(20))
			if r.Chance(1, 2) { // make the padding valid
				pad := int(pl[len(pl)-1])
				if pad >= 1 && pad <= 16 {
					for q := 0; q < pad; q++ {
						pl[len(pl)-1-q] = byte(pad)
					}
				}
			}
			f = Frame{Kind: "cbc", Len: -1, Plain: []Seg{hx(pl)}}
			k = "cbc"
		case 2, 3: // well-formed, random code, generic payload
			code := uint32(r.Intn(0x22))
			f = Frame{Kind: "aes", Len: -1, Code: code, Payload: genericPayload(r, r.Intn(nGeneric))}
			k = "aes"
		case 4: // well-formed with typed payload of absurd values (no chain behind this surface: consumer only decodes nothing)
			g := &genCtx{r: r}
			code := uint32(r.Range(2, 0x0e))
			p, _ := g.typed(code, r.Intn(8))
			f = Frame{Kind: "aes", Len: -1, Code: code, Payload: p}
			k = "aes-typed"
		case 5: // declared length disagrees with the data
			decl := []int64{0, 1, 15, 16, 17, 4096, frameCap, frameCap + 1, 1<<32 - 1}[r.Intn(9)]
			f = Frame{Kind: "raw", Len: decl, Plain: []Seg{rndSeg(r, 16*r.Intn(8))}}
			k = "decl"
			w.End = "hold"
		case 6: // wrong magic in the middle of the stream
			f = Frame{Magic: []string{"0000", "5a00", "ff48"}[r.Intn(3)], Kind: "raw", Len: -1, Plain: []Seg{rndSeg(r, 32)}}
			k = "magic"
		}
		w.Frames = append(w.Frames, f)
		kind += k + "+"
	}
	if r.Chance(1, 5) {
		w.Cut = int64(r.Intn(200))
		w.End = []string{"close", "hold"}[r.Intn(2)]
		kind += "cut"
	}
	return Case{S: "b", Kind: "rnd-" + kind, Wire: &w}
}
