package main

// Case lists of surfaces c and d. Case i is a function of (seed, i) and of the node's
// heights at the moment it is materialised; what is executed and logged is the
// materialised case.

import (
	"fmt"

	"github.com/LemoFoundationLtd/lemochain-core/chain/types"

	"verif/fx"
	"verif/fx/run"
)

const (
	nCodes     = 0x21 // 0..0x20
	nTypedVars = 14
	nClassesC  = nGeneric + nTypedVars
	sweepC     = nCodes * nClassesC // 924
)

// codes that have a typed shape; other codes borrow the shape of one of these
var typedCodes = []uint32{0x02, 0x03, 0x04, 0x05, 0x06, 0x07, 0x08, 0x09, 0x0a, 0x0b, 0x0c, 0x0d, 0x0e}

func caseC(seed uint64, idx int, f *chainFx) Case {
	r := run.NewRng(seed, 0xc, uint64(idx))
	g := &genCtx{r: r, f: f, cur: f.node.BC.CurrentBlock().Height(), sta: f.node.BC.StableBlock().Height()}
	switch {
	case idx%53 == 52: // hostile answer to the protocol handshake on a fresh connection
		var p *Payload
		kind := ""
		code := uint32(0x02)
		switch r.Intn(4) {
		case 0:
			cl := r.Intn(nGeneric)
			p = genericPayload(r, cl)
			kind = fmt.Sprintf("generic%d", cl)
		case 1, 2:
			p, _ = g.typed(0x02, r.Intn(8))
			kind = "typed"
		default:
			code = uint32(r.Intn(nCodes))
			p, _ = g.typed(0x02, r.Intn(8))
			kind = "other-code"
		}
		if p == nil {
			p = &Payload{}
		}
		// and then carry on as if nothing happened
		follow, _ := g.typed(0x07, r.Intn(10))
		return Case{S: "c", Idx: idx, Kind: "handshake-reply-" + kind, HS: p, HSCode: code, Msgs: []Msg{{Code: 0x07, Payload: follow}}}
	case idx%211 == 210: // many messages quickly
		var msgs []Msg
		kind := ""
		switch (idx / 211) % 6 {
		case 4: // more distinct heights than the confirm cache keeps (10240)
			msgs = []Msg{{Code: 0x09, Payload: &Payload{Tree: nL(&Node{Rnd: 32, Seed: r.Uint64()}, &Node{Ctr: uint64(g.cur) + 10 + 1}, &Node{Rnd: 65, Seed: 1})}, Rep: 10300}}
			kind = "confirms-for-10300-distinct-heights"
		case 5: // more distinct heights than the block cache keeps (10240), one small orphan block per message
			msgs = []Msg{{Code: 0x08, Payload: &Payload{Tree: nL(orphanBlock(r.Uint64(), uint64(g.cur)+10))}, Rep: 10300},
				{Code: 0x08, Payload: &Payload{Tree: nL(orphanBlock(r.Uint64(), uint64(g.cur)+20000))}, Rep: 14}}
			kind = "orphan-blocks-at-10300-distinct-heights"
		case 0:
			msgs = []Msg{{Code: 0x04, Payload: &Payload{Tree: nL(nU(0))}, Rep: 3000}}
			kind = "status-requests"
		case 1:
			msgs = []Msg{{Code: 0x07, Payload: &Payload{Tree: nL(nU(0), nU(uint64(g.cur)))}, Rep: 200}}
			kind = "whole-chain-requests"
		case 2:
			msgs = []Msg{{Code: 0x09, Payload: &Payload{Tree: nL(&Node{Rnd: 32, Seed: r.Uint64()}, nU(uint64(g.cur)+3), &Node{Rnd: 65, Seed: 1})}, Rep: 3000}}
			kind = "confirms-for-unknown-block"
		default:
			for i := 0; i < 300; i++ {
				code := typedCodes[r.Intn(len(typedCodes))]
				if code == 0x06 || code == 0x08 || code == 0x02 {
					code = 0x0a
				}
				p, _ := g.typed(code, r.Intn(10))
				msgs = append(msgs, Msg{Code: code, Payload: p})
			}
			kind = "mixed"
		}
		return Case{S: "c", Idx: idx, Kind: "burst-" + kind, Msgs: msgs}
	case idx%223 == 222: // the remote does not read what the node answers
		var msgs []Msg
		switch r.Intn(3) {
		case 0:
			msgs = []Msg{{Code: 0x04, Payload: &Payload{Tree: nL(nU(0))}, Rep: 400}}
		case 1:
			msgs = []Msg{{Code: 0x07, Payload: &Payload{Tree: nL(nU(0), nU(uint64(g.cur)))}, Rep: 120}}
		default:
			msgs = []Msg{{Code: 0x0a, Payload: &Payload{Tree: nL(nU(1), &Node{Fill: 32})}, Rep: 400}, {Code: 0x0c, Payload: &Payload{Tree: nL(nU(1))}, Rep: 100}}
		}
		return Case{S: "c", Idx: idx, Kind: "slow-reader", Msgs: msgs, Slow: true}
	}
	sw := idx % sweepC
	pass := idx / sweepC
	code := uint32(sw % nCodes)
	cl := sw / nCodes
	if cl < nGeneric {
		return Case{S: "c", Idx: idx, Kind: fmt.Sprintf("code-0x%02x-generic%d", code, cl), Msgs: []Msg{{Code: code, Payload: genericPayload(r, cl)}}}
	}
	variant := cl - nGeneric + nTypedVars*pass
	shapeOf := code
	kind := fmt.Sprintf("code-0x%02x-typed%d", code, cl-nGeneric)
	if _, ok := g.typed(code, 0); !ok {
		shapeOf = typedCodes[(int(code)+variant)%len(typedCodes)]
		kind = fmt.Sprintf("code-0x%02x-shape-of-0x%02x", code, shapeOf)
	}
	g.r = run.NewRng(seed, 0xc, uint64(idx), 1)
	p, _ := g.typed(shapeOf, variant)
	return Case{S: "c", Idx: idx, Kind: kind, Msgs: []Msg{{Code: code, Payload: p}}}
}

// ---- surface d ----

var dKinds = []string{
	"block-mutant", "block-mutant", "block-mutant-resigned", "block-mutant-resigned", "block-mutant-resigned",
	"block-header-numbers-resigned", "block-confirms-absurd", "block-deputies-absurd-resigned", "block-with-mutant-tx-resigned",
	"tx-mutant", "tx-mutant", "tx-mutant-resigned", "tx-mutant-resigned", "tx-numbers-resigned", "tx-box-garbage", "tx-type-swap-resigned", "tx-json-data-garbage-resigned",
	"confirms-valid-mixed", "confirms-garbage", "confirms-wrong-height", "confirms-malleated",
}

func caseD(seed uint64, idx int, f *chainFx) Case {
	r := run.NewRng(seed, 0xd, uint64(idx))
	g := &genCtx{r: r, f: f, cur: f.node.BC.CurrentBlock().Height(), sta: f.node.BC.StableBlock().Height()}
	kind := dKinds[idx%len(dKinds)]
	bases := f.baseBlocks()
	pickBlock := func() (*Node, int) {
		// prefer blocks the node can still take: the withheld child / sibling and unstable ones
		i := len(bases) - 1 - r.Intn(4)
		if r.Chance(1, 4) {
			i = r.Intn(len(bases))
		}
		if r.Chance(1, 3) {
			return treeOf(bases[i]), i
		}
		return treeOf(bases[i].ShallowCopy()), i
	}
	pickTx := func() (*Node, int) {
		i := r.Intn(len(f.txs))
		if r.Chance(1, 2) { // prefer candidates that are in no accepted block
			i = len(f.txs) - 1 - r.Intn(len(f.spare)+len(f.next.Txs))
		}
		return treeOf(f.txs[i]), i
	}
	o := &Obj{}
	switch kind {
	case "block-mutant", "block-mutant-resigned":
		t, i := pickBlock()
		o.What, o.Base = "block", i
		o.Ops = mutate(r, t, r.Range(1, 3), false)
		o.Payload = &Payload{Tree: t}
	case "block-header-numbers-resigned":
		t, i := pickBlock()
		o.What, o.Base = "block", i
		h := t.L[0]
		for _, j := range []int{5, 6, 7, 8} { // height, gas limit, gas used, time
			if r.Chance(1, 2) {
				h.L[j] = []*Node{{}, nU(1<<32 - 1), nU(1<<64 - 1), nU(1), nU(uint64(g.cur) + 1), nU(1 << 31)}[r.Intn(6)]
				o.Ops = append(o.Ops, fmt.Sprintf("h%d", j))
			}
		}
		if r.Chance(1, 3) {
			h.L[11] = &Node{Rnd: []int{256, 257, 100000}[r.Intn(3)], Seed: 3} // extra data
			o.Ops = append(o.Ops, "extra")
		}
		if r.Chance(1, 2) { // without transactions the header gets past the per-transaction checks
			t.L[1] = nL()
			o.Ops = append(o.Ops, "notxs")
		}
		o.Payload = &Payload{Tree: t}
	case "block-confirms-absurd":
		t, i := pickBlock()
		o.What, o.Base = "block", i
		switch r.Intn(3) {
		case 0:
			t.L[3] = nL(nRep([]int{100, 10000}[r.Intn(2)], g.sig()))
		case 1: // the miner's own signature as a confirm, repeated
			t.L[3] = nL(nRep(50, nB(f.baseBlocks()[i].Header.SignData)))
		default: // real confirms, each twice, plus malleated twins
			var items []*Node
			for _, sd := range f.node.ConfirmsOf(bases[i]) {
				items = append(items, nB(sd[:]), nB(sd[:]), nB(fx.HighS(sd[:])))
			}
			t.L[3] = nL(items...)
		}
		o.Payload = &Payload{Tree: t}
	case "block-deputies-absurd-resigned":
		t, i := pickBlock()
		o.What, o.Base = "block", i
		dn := func() *Node {
			return nL(&Node{Rnd: 20, Seed: r.Uint64()}, &Node{Rnd: []int{64, 0, 1, 65}[r.Intn(4)], Seed: r.Uint64()}, nU([]uint64{0, 1, 65535, 65536, 1<<32 - 1}[r.Intn(5)]), []*Node{{}, nU(1), &Node{Fill: 40, Byte: 0xff}}[r.Intn(3)])
		}
		t.L[4] = nL(nRep([]int{1, 3, 5000}[r.Intn(3)], dn()))
		if r.Chance(1, 2) {
			t.L[0].L[10] = &Node{Rnd: 32, Seed: 5} // a deputy root to go with it
		}
		o.Payload = &Payload{Tree: t}
	case "block-with-mutant-tx-resigned":
		t, i := pickBlock()
		o.What, o.Base = "block", i
		txs := t.L[1]
		if len(txs.L) > 0 {
			j := r.Intn(len(txs.L))
			o.Ops = mutate(r, txs.L[j], r.Range(1, 2), false)
		} else {
			tx, _ := pickTx()
			o.Ops = mutate(r, tx, 1, false)
			txs.L = append(txs.L, tx)
		}
		o.Payload = &Payload{Tree: t}
	case "tx-mutant", "tx-mutant-resigned":
		t, i := pickTx()
		o.What, o.Base = "tx", i
		o.Ops = mutate(r, t, r.Range(1, 3), true)
		o.Payload = &Payload{Tree: t}
	case "tx-numbers-resigned":
		t, i := pickTx()
		o.What, o.Base = "tx", i
		for _, j := range []int{1, 2, 7, 8, 9, 10, 12} { // version, chain id, gas price, gas limit, gas used, amount, expiration
			if r.Chance(1, 3) {
				t.L[j] = []*Node{{}, nU(1<<64 - 1), &Node{Fill: 32, Byte: 0xff}, &Node{Fill: 33, Byte: 0xff}, nU(1), nU(uint64(f.nextT) + 1800), nU(uint64(f.nextT) + 1801)}[r.Intn(7)]
				o.Ops = append(o.Ops, fmt.Sprintf("f%d", j))
			}
		}
		o.Payload = &Payload{Tree: t}
	case "tx-box-garbage":
		t, i := pickTx()
		o.What, o.Base = "tx", i
		t.L[0] = nU(10)
		t.L[5] = &Node{}
		boxes := []string{`{"subTxList":[]}`, `{"subTxList":[null]}`, `{"subTxList":null}`, `{}`, `[]`, `null`, `{"subTxList":[{}]}`,
			`{"subTxList":[{"type":"10","version":"1","chainID":"200","from":"Lemo83GN72GYH2NZ8BA729Z9TCT7KQ5FC3CR6DJG","gasPrice":"1","gasLimit":"1","amount":"1","expirationTime":"1","sigs":[],"gasPayerSigs":[]}]}`,
			`{"subTxList":[[[[[[[[[[]]]]]]]]]]}`, `{"subTxList":"x"}`}
		b := (idx / len(dKinds)) % (len(boxes) + 1) // systematic
		if b == len(boxes) {
			t.L[11] = &Node{Rnd: r.Range(1, 400), Seed: r.Uint64()}
		} else {
			t.L[11] = nB([]byte(boxes[b]))
		}
		o.Ops = []string{fmt.Sprintf("box%d", b)}
		o.Payload = &Payload{Tree: t}
	case "tx-type-swap-resigned":
		t, i := pickTx()
		o.What, o.Base = "tx", i
		ty := r.Intn(13)
		t.L[0] = nU(uint64(ty))
		if r.Chance(1, 2) { // make the recipient rule fit the new type
			if ty == 1 || ty == 3 || ty == 4 || ty == 7 || ty == 10 {
				t.L[5] = &Node{}
			} else if len(t.L[5].B) == 0 {
				t.L[5] = &Node{Rnd: 20, Seed: r.Uint64()}
			}
		}
		o.Ops = []string{fmt.Sprintf("type%d", ty)}
		o.Payload = &Payload{Tree: t}
	case "tx-json-data-garbage-resigned": // typed txs carry JSON in data: feed each type absurd JSON
		t, i := pickTx()
		o.What, o.Base = "tx", i
		combo := idx / len(dKinds) // systematic: every (type, document) pair in turn
		ty := []uint64{3, 4, 5, 6, 7, 8, 9}[combo%7]
		t.L[0] = nU(ty)
		if ty == 3 || ty == 4 || ty == 7 {
			t.L[5] = &Node{}
		} else if len(t.L[5].B) == 0 {
			t.L[5] = &Node{Rnd: 20, Seed: r.Uint64()}
		}
		docs := []string{`null`, `{}`, `[]`, `""`, `0`, `{"assetCode":null}`, `{"assetCode":"0x00","supplyAmount":"-1"}`, `{"supplyAmount":"99999999999999999999999999999999999999999999999999999999999999999999999999999999"}`,
			`{"signers":null}`, `{"signers":[]}`, `{"signers":[null]}`, `{"signers":[{"address":"Lemo83GN72GYH2NZ8BA729Z9TCT7KQ5FC3CR6DJG","weight":"255"},{"address":"Lemo83GN72GYH2NZ8BA729Z9TCT7KQ5FC3CR6DJG","weight":"255"}]}`,
			`{"category":"9","decimal":"4294967295","totalSupply":"1","isReplenishable":true,"isDivisible":true,"issuer":"","profile":null}`, `{"category":"1","profile":{"":""}}`,
			`{"assetId":"0x","transferAmount":"-5","input":"0x"}`, `{"assetCode":"0x01","updateProfile":null}`, `{"isCandidate":"false"}`, `{"nodeID":"", "host":"", "port":"99999999999"}`, `{"a":{"a":{"a":{"a":{"a":{"a":{}}}}}}}`}
		d := (combo / 7) % len(docs)
		t.L[11] = nB([]byte(docs[d]))
		o.Ops = []string{fmt.Sprintf("type%d-doc%d", ty, d)}
		o.Payload = &Payload{Tree: t}
	case "confirms-valid-mixed", "confirms-garbage", "confirms-wrong-height", "confirms-malleated":
		o.What = "confirms"
		i := len(f.blocks) - 1 - r.Intn(3)
		b := f.blocks[i]
		o.Base = i
		h := b.Hash()
		height := nU(uint64(b.Height()))
		var items []*Node
		real := f.node.ConfirmsOf(b)
		switch kind {
		case "confirms-valid-mixed":
			for _, sd := range real {
				if r.Chance(2, 3) {
					items = append(items, nB(sd[:]))
				}
				if r.Chance(1, 3) {
					items = append(items, g.sig())
				}
			}
		case "confirms-garbage":
			items = []*Node{nRep([]int{1, 50, 3000}[r.Intn(3)], g.sig())}
			if r.Chance(1, 2) {
				hn := g.hash()
				if len(hn.B) == 64 || hn.Rnd == 32 || hn.Fill == 32 {
					return Case{S: "d", Idx: idx, Kind: kind, Obj: &Obj{What: "confirms", Base: i, Payload: &Payload{Tree: nL(g.height(), hn, nL(items...))}}}
				}
			}
		case "confirms-wrong-height":
			height = g.height()
			for _, sd := range real {
				items = append(items, nB(sd[:]))
			}
		case "confirms-malleated":
			for _, sd := range real {
				items = append(items, nB(fx.HighS(sd[:])), nB(sd[:]))
			}
			var own types.SignData
			copy(own[:], b.Header.SignData)
			items = append(items, nB(own[:]), nB(fx.HighS(own[:])))
		}
		o.Payload = &Payload{Tree: nL(height, nB(h[:]), nL(items...))}
	}
	o.Resign = len(kind) > 9 && kind[len(kind)-9:] == "-resigned"
	return Case{S: "d", Idx: idx, Kind: kind, Obj: o}
}

// orphanBlock is a minimal decodable block with an unknown parent whose height counts up
// from base with every repetition of the message.
func orphanBlock(seed uint64, base uint64) *Node {
	h := nL(&Node{Rnd: 32, Seed: seed}, &Node{Rnd: 20, Seed: seed + 1}, &Node{Rnd: 32, Seed: seed + 2}, &Node{}, &Node{}, &Node{Ctr: base + 1},
		nU(105000000), nU(0), nU(1700000100), &Node{Rnd: 65, Seed: seed + 3}, &Node{}, &Node{})
	return nL(h, nL(), nL(), nL(), nL())
}
