// C15 — hostile network bytes. The real p2p handshake, frame reader / decryptor, the real
// ProtocolManager behind a scripted remote peer and the real chain entry points are fed
// hostile input; monitors watch process survival, liveness, goroutine population and
// allocation per input.
//
// Process structure: the driver starts one batch process per batch; a batch process is a
// supervisor that runs every surface in a worker child (the same binary, "worker" command).
// A worker executes its cases in order and writes the case (plus the recent window of
// cases) to a write-ahead file before executing it. If the worker dies (a panic on any
// goroutine of the node kills the process: nothing on these paths recovers), the supervisor
// turns the death into a violation whose class is the panic message and first repository
// frame and whose witness is the logged window, and restarts the worker behind the killing
// case, so one crasher does not hide the rest of the exploration.
package main

import (
	"bufio"
	"bytes"
	"encoding/json"
	"fmt"
	"io/ioutil"
	"os"
	"os/exec"
	"path/filepath"
	"runtime/debug"
	"strconv"
	"sync"
	"syscall"
	"time"

	"verif/fx"
	"verif/fx/run"
)

// Sink is what the surfaces report to; *run.Ctx implements it (replay), and the worker
// implements it by printing events for its supervisor.
type Sink interface {
	WAL(v interface{})
	Case(fingerprint string, nontrivial bool, sample interface{})
	Stat(name string, n int64)
	Seen(set, member string)
	Violation(class, msg string, witness interface{})
	Note(msg string)
	Inconclusive(msg string)
}

// ---- worker side ----

type event struct {
	E      string              `json:"e"`
	FP     string              `json:"fp,omitempty"`
	NT     bool                `json:"nt,omitempty"`
	Sample json.RawMessage     `json:"sample,omitempty"`
	Stats  map[string]int64    `json:"stats,omitempty"`
	Seen   map[string][]string `json:"seen,omitempty"`
	Class  string              `json:"class,omitempty"`
	Msg    string              `json:"msg,omitempty"`
	Wit    json.RawMessage     `json:"wit,omitempty"`
	Next   int                 `json:"next,omitempty"`
}

type workerSink struct {
	mu      sync.Mutex
	out     *bufio.Writer
	walPath string
	stats   map[string]int64
	seen    map[string]map[string]bool
	samples int
}

func (w *workerSink) emit(e event) {
	b, _ := json.Marshal(e)
	w.out.Write(b)
	w.out.WriteByte('\n')
	w.out.Flush()
}

// WAL appends the case about to run to the write-ahead file (one JSON line per case; the
// lines since the last reset are the window of cases the node has seen since its monitors
// last found it healthy).
func (w *workerSink) WAL(v interface{}) {
	b, _ := json.Marshal(v)
	f, err := os.OpenFile(w.walPath, os.O_APPEND|os.O_CREATE|os.O_WRONLY, 0644)
	if err != nil {
		return
	}
	f.Write(append(b, '\n'))
	f.Close()
}

func (w *workerSink) walReset() { _ = os.Remove(w.walPath) }

func raw(v interface{}) json.RawMessage {
	if v == nil {
		return nil
	}
	b, err := json.Marshal(v)
	if err != nil {
		return nil
	}
	return b
}

func (w *workerSink) flushLocked() {
	if len(w.stats) == 0 && len(w.seen) == 0 {
		return
	}
	e := event{E: "obs", Stats: w.stats, Seen: map[string][]string{}}
	for k, m := range w.seen {
		for mem := range m {
			e.Seen[k] = append(e.Seen[k], mem)
		}
	}
	w.emit(e)
	w.stats = map[string]int64{}
	w.seen = map[string]map[string]bool{}
}

func (w *workerSink) Case(fp string, nt bool, sample interface{}) {
	w.mu.Lock()
	defer w.mu.Unlock()
	w.flushLocked()
	e := event{E: "case", FP: fp, NT: nt}
	if nt && sample != nil && w.samples < 2 {
		e.Sample = raw(sample)
		w.samples++
	}
	w.emit(e)
}

func (w *workerSink) Stat(name string, n int64) {
	w.mu.Lock()
	w.stats[name] += n
	w.mu.Unlock()
}

func (w *workerSink) Seen(set, member string) {
	w.mu.Lock()
	m := w.seen[set]
	if m == nil {
		m = map[string]bool{}
		w.seen[set] = m
	}
	m[member] = true
	w.mu.Unlock()
}

func (w *workerSink) Violation(class, msg string, wit interface{}) {
	w.mu.Lock()
	defer w.mu.Unlock()
	w.flushLocked()
	w.emit(event{E: "viol", Class: class, Msg: msg, Wit: raw(wit)})
}

func (w *workerSink) Note(msg string) {
	w.mu.Lock()
	defer w.mu.Unlock()
	w.emit(event{E: "note", Msg: msg})
}

func (w *workerSink) Inconclusive(msg string) {
	w.mu.Lock()
	defer w.mu.Unlock()
	w.emit(event{E: "inconclusive", Msg: msg})
}

// restart asks the supervisor for a fresh process continuing at case next (used after a
// monitor found persistent damage: a leaked or runaway goroutine would spoil later
// measurements).
func (w *workerSink) restart(next int, reason string) {
	w.mu.Lock()
	w.flushLocked()
	w.emit(event{E: "restart", Next: next, Msg: reason})
	w.mu.Unlock()
	os.Stdout.Sync()
	os.Exit(0)
}

func (w *workerSink) done() {
	w.mu.Lock()
	w.flushLocked()
	w.emit(event{E: "done"})
	w.mu.Unlock()
}

// plan describes what one worker invocation has to do.
type plan struct {
	Tier     string
	Seed     uint64
	Batch    int
	NBatches int
	Scratch  string
	Surface  string // a|b|c|d|e|f (f = fixed regression list)
	From, To int    // case index range of the surface
}

func (p plan) thorough() bool { return p.Tier == "thorough" }
func (p plan) pick(q, t int) int {
	if p.thorough() {
		return t
	}
	return q
}

func workerMain(args []string) {
	debug.SetTraceback("all")
	if len(args) < 8 {
		fmt.Fprintln(os.Stderr, "usage: eng worker tier seed batch nbatches scratch surface from to")
		os.Exit(3)
	}
	var p plan
	p.Tier = args[0]
	p.Seed, _ = strconv.ParseUint(args[1], 10, 64)
	p.Batch, _ = strconv.Atoi(args[2])
	p.NBatches, _ = strconv.Atoi(args[3])
	p.Scratch = args[4]
	p.Surface = args[5]
	p.From, _ = strconv.Atoi(args[6])
	p.To, _ = strconv.Atoi(args[7])
	w := &workerSink{out: bufio.NewWriterSize(os.Stdout, 1<<16), walPath: walFile(p.Scratch, p.Batch),
		stats: map[string]int64{}, seen: map[string]map[string]bool{}}
	fx.Quiet()
	runSurface(w, p, func(next int, reason string) { w.restart(next, reason) })
	w.done()
	os.Stdout.Sync()
	os.Exit(0)
}

func walFile(scratch string, batch int) string {
	return filepath.Join(scratch, fmt.Sprintf("c15-wal-%d.json", batch))
}

// ---- supervisor side ----

// walRec is what a worker writes before executing a case.
type walRec struct {
	Surface string `json:"surface"`
	Idx     int    `json:"idx"`    // index of the case about to run
	Window  []Case `json:"window"` // recent cases on the same node, oldest first; the last one is case Idx
}

const maxWindow = 32

func readWal(path string) walRec {
	var rec walRec
	wb, err := ioutil.ReadFile(path)
	if err != nil {
		return rec
	}
	for _, ln := range bytes.Split(wb, []byte{'\n'}) {
		if len(ln) == 0 {
			continue
		}
		var cs Case
		if json.Unmarshal(ln, &cs) != nil {
			continue
		}
		rec.Window = append(rec.Window, cs)
		rec.Idx = cs.Idx
		rec.Surface = cs.S
	}
	if len(rec.Window) > maxWindow {
		rec.Window = rec.Window[len(rec.Window)-maxWindow:]
	}
	return rec
}

const workerSilenceWatchdog = 240 * time.Second

func supervise(c *run.Ctx, p plan) {
	from := p.From
	deadRestarts := 0
	for from < p.To {
		_ = os.Remove(walFile(p.Scratch, p.Batch))
		errPath := filepath.Join(p.Scratch, fmt.Sprintf("c15-worker-%d-%s-%d.stderr", p.Batch, p.Surface, from))
		ef, err := os.Create(errPath)
		if err != nil {
			c.Inconclusive("cannot create worker stderr file: " + err.Error())
			return
		}
		cmd := exec.Command(os.Args[0], "worker", p.Tier, fmt.Sprint(p.Seed), fmt.Sprint(p.Batch), fmt.Sprint(p.NBatches), p.Scratch, p.Surface, fmt.Sprint(from), fmt.Sprint(p.To))
		cmd.Stderr = ef
		cmd.Dir = p.Scratch
		cmd.SysProcAttr = &syscall.SysProcAttr{Pdeathsig: syscall.SIGKILL}
		stdout, err := cmd.StdoutPipe()
		if err != nil {
			c.Inconclusive("worker pipe: " + err.Error())
			return
		}
		c.WAL(map[string]interface{}{"supervisor": true, "surface": p.Surface, "from": from, "to": p.To})
		if err := cmd.Start(); err != nil {
			c.Inconclusive("worker start: " + err.Error())
			return
		}
		c.Stat("worker_processes", 1)
		lines := make(chan []byte, 256)
		go func() {
			rd := bufio.NewReaderSize(stdout, 1<<20)
			for {
				ln, err := rd.ReadBytes('\n')
				if len(ln) > 0 {
					lines <- ln
				}
				if err != nil {
					close(lines)
					return
				}
			}
		}()
		done, next, hung := false, -1, false
		timer := time.NewTimer(workerSilenceWatchdog)
	loop:
		for {
			select {
			case ln, ok := <-lines:
				if !ok {
					break loop
				}
				if !timer.Stop() {
					select {
					case <-timer.C:
					default:
					}
				}
				timer.Reset(workerSilenceWatchdog)
				var e event
				if json.Unmarshal(ln, &e) != nil {
					continue
				}
				switch e.E {
				case "case":
					var s interface{}
					if len(e.Sample) > 0 {
						s = e.Sample
					}
					c.Case(e.FP, e.NT, s)
				case "obs":
					for k, v := range e.Stats {
						c.Stat(k, v)
					}
					for k, ms := range e.Seen {
						for _, m := range ms {
							c.Seen(k, m)
						}
					}
				case "viol":
					c.Violation(e.Class, e.Msg, e.Wit)
				case "note":
					c.Note(e.Msg)
				case "inconclusive":
					c.Inconclusive(e.Msg)
				case "restart":
					next = e.Next
					if e.Msg == "dead" {
						deadRestarts++
					}
				case "done":
					done = true
				}
			case <-timer.C:
				hung = true
				_ = cmd.Process.Signal(syscall.SIGQUIT)
				time.Sleep(2 * time.Second)
				_ = cmd.Process.Kill()
			}
		}
		timer.Stop()
		_ = cmd.Wait()
		ef.Close()
		if done {
			return
		}
		if next >= 0 {
			c.Stat("worker_restarts_requested", 1)
			from = next
			if deadRestarts > 3 {
				// every fresh node ends up unresponsive (reported each time): the rest of the list would only repeat it
				c.Note(fmt.Sprintf("surface %s abandoned at case %d after %d nodes became unresponsive", p.Surface, from, deadRestarts))
				c.Stat("surfaces_abandoned", 1)
				return
			}
			continue
		}
		// the worker died
		rec := readWal(walFile(p.Scratch, p.Batch))
		haveWal := len(rec.Window) > 0
		eb, _ := ioutil.ReadFile(errPath)
		stderr := string(eb)
		if len(stderr) > 400000 {
			stderr = stderr[:400000]
		}
		sig := crashSignature(stderr)
		tail := stderr
		if len(tail) > 5000 {
			tail = tail[:5000]
		}
		wit := map[string]interface{}{"surface": p.Surface, "stderr_head": tail}
		if haveWal {
			wit["window"] = rec.Window
			wit["idx"] = rec.Idx
		}
		switch {
		case hung:
			deadRestarts++
			c.Violation("C15/node-unresponsive:worker-silent", fmt.Sprintf("worker of surface %s produced no event for %v", p.Surface, workerSilenceWatchdog), wit)
		case sig != "":
			c.Stat("child_crashes", 1)
			c.Seen("crash_classes", sig)
			c.Violation("C15/"+sig, "node process died while processing hostile input on surface "+p.Surface+": "+sig, wit)
		case killedBySignal(cmd, syscall.SIGKILL):
			// no message of the Go runtime: the kernel (out-of-memory killer) ended the process
			c.Stat("child_crashes", 1)
			c.Violation("C15/crash:killed-by-SIGKILL-without-runtime-message", "node process was killed from outside while processing hostile input on surface "+p.Surface+" (the kernel's out-of-memory killer is the usual sender)", wit)
		default:
			c.Inconclusive(fmt.Sprintf("worker of surface %s died without a panic message (state %v): %s", p.Surface, cmd.ProcessState, tailOf(stderr, 600)))
		}
		if deadRestarts > 3 {
			c.Note(fmt.Sprintf("surface %s abandoned after %d silent / unresponsive worker processes", p.Surface, deadRestarts))
			c.Stat("surfaces_abandoned", 1)
			return
		}
		if !haveWal {
			c.Inconclusive("worker of surface " + p.Surface + " died before its first case")
			return
		}
		from = rec.Idx + 1
	}
}

func killedBySignal(cmd *exec.Cmd, sig syscall.Signal) bool {
	if cmd.ProcessState == nil {
		return false
	}
	ws, ok := cmd.ProcessState.Sys().(syscall.WaitStatus)
	return ok && ws.Signaled() && ws.Signal() == sig
}

func tailOf(s string, n int) string {
	if len(s) > n {
		return s[len(s)-n:]
	}
	return s
}

func batches(tier string) int { return 16 }

func runBatch(c *run.Ctx) {
	fx.Quiet()
	base := plan{Tier: c.Tier, Seed: c.Seed, Batch: c.Batch, NBatches: c.NBatches, Scratch: c.Scratch}
	only := os.Getenv("C15_ONLY") // debugging aid: restrict to some surfaces, e.g. "ab"
	want := func(s string) bool {
		if only == "" {
			return true
		}
		for _, ch := range only {
			if string(ch) == s {
				return true
			}
		}
		return false
	}
	// fixed regression list: its cases are spread over the batches like everything else
	if want("f") {
		p := base
		p.Surface = "f"
		p.From, p.To = c.Share(len(fixedCases()))
		supervise(c, p)
	}
	for _, s := range []string{"a", "e", "b", "c", "d"} {
		if !want(s) {
			continue
		}
		p := base
		p.Surface = s
		p.From, p.To = c.Share(surfaceSize(p, s))
		supervise(c, p)
	}
}

// replay re-executes a witness in this process. A crash of the replay process is classified
// by the driver with the same normal form the supervisor uses.
func replay(c *run.Ctx, rawWit json.RawMessage) {
	fx.Quiet()
	var w struct {
		Window []Case `json:"window"`
		Case   *Case  `json:"case"`
	}
	if err := json.Unmarshal(rawWit, &w); err != nil {
		c.Inconclusive("bad witness: " + err.Error())
		return
	}
	cases := w.Window
	if w.Case != nil {
		cases = []Case{*w.Case}
	}
	if len(cases) == 0 {
		c.Inconclusive("witness holds no case")
		return
	}
	p := plan{Tier: "quick", Seed: c.Seed, Scratch: c.Scratch, NBatches: 1}
	runCases(c, p, cases, func(int, string) {})
}

func main() {
	if len(os.Args) > 1 && os.Args[1] == "worker" {
		workerMain(os.Args[2:])
		return
	}
	run.Main(run.Engine{Batches: batches, Run: runBatch, Replay: replay})
}
