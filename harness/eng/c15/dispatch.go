package main

// Which cases exist for a tier, and how a worker walks through its share.

import (
	"runtime/debug"
	"time"
)

var (
	sweepACache []Case
	sweepBCache []Case
	sweepECache []Case
)

func sweepAList() []Case {
	if sweepACache == nil {
		sweepACache = sweepA()
	}
	return sweepACache
}

func sweepBList() []Case {
	if sweepBCache == nil {
		sweepBCache = sweepB()
	}
	return sweepBCache
}

func sweepEList() []Case {
	if sweepECache == nil {
		sweepECache = sweepE()
	}
	return sweepECache
}

func surfaceSize(p plan, s string) int {
	switch s {
	case "a":
		return len(sweepAList()) + p.pick(480, 12000)
	case "b":
		return len(sweepBList()) + p.pick(960, 24000)
	case "c":
		return p.pick(2112, 52800)
	case "d":
		return p.pick(1512, 37800)
	case "e":
		return len(sweepEList()) + p.pick(480, 12000)
	case "f":
		return len(fixedCases())
	}
	return 0
}

func wireCase(p plan, s string, i int) Case {
	var cs Case
	if s == "a" {
		if sw := sweepAList(); i < len(sw) {
			cs = sw[i]
		} else {
			cs = randomA(p.Seed, i-len(sw))
		}
	} else if s == "e" {
		if sw := sweepEList(); i < len(sw) {
			cs = sw[i]
		} else {
			cs = randomE(p.Seed, i-len(sw))
		}
	} else {
		if sw := sweepBList(); i < len(sw) {
			cs = sw[i]
		} else {
			cs = randomB(p.Seed, i-len(sw))
		}
	}
	cs.Idx = i
	return cs
}

type walResetter interface{ walReset() }

func resetWAL(s Sink) {
	if w, ok := s.(walResetter); ok {
		w.walReset()
	}
}

// execSet creates the executors lazily (the fixed list and replays mix surfaces).
type execSet struct {
	s    Sink
	last Case
	wire *wireExec
	pm   *pmExec
	ch   *chainExec
}

func (e *execSet) run(cs Case) bool {
	e.last = cs
	switch cs.S {
	case "a", "b", "e":
		if e.wire == nil {
			e.wire = newWireExec(e.s)
		}
		resetWAL(e.s)
		e.s.WAL(cs)
		e.wire.exec(cs)
	case "c":
		if e.pm == nil {
			x, err := newPMExec(e.s)
			if err != nil {
				e.s.Inconclusive(err.Error())
				return false
			}
			e.pm = x
		}
		e.s.WAL(cs)
		e.pm.exec(cs)
	case "d":
		if e.ch == nil {
			x, err := newChainExec(e.s)
			if err != nil {
				e.s.Inconclusive(err.Error())
				return false
			}
			e.ch = x
		}
		if cs.Lazy != "" && cs.Obj == nil {
			cs = e.ch.materialiseLazy(cs)
		}
		e.s.WAL(cs)
		e.ch.exec(cs)
	}
	return true
}

func (e *execSet) reason() string {
	if e.pm != nil && e.pm.dead {
		return "dead"
	}
	return "dirty"
}

// groupEnd runs the end-of-group monitors of whatever executor is in use; false = replace the process.
func (e *execSet) groupEnd(surface string) bool {
	good := true
	switch surface {
	case "a", "b", "e":
		if e.wire != nil {
			good = e.wire.gm.check(e.s, surface, 3*time.Second, map[string]interface{}{"case": e.last})
			debug.FreeOSMemory()
		}
	case "c":
		if e.pm != nil {
			good = e.pm.groupEnd()
		}
	case "d":
		if e.ch != nil {
			good = e.ch.groupEnd()
		}
	}
	resetWAL(e.s)
	return good
}

func runSurface(s Sink, p plan, restart func(next int, reason string)) {
	e := &execSet{s: s}
	if p.Surface == "f" {
		all := fixedCases()
		for i := p.From; i < p.To && i < len(all); i++ {
			cs := all[i]
			cs.Idx = i
			cs.Fixed = true
			if !e.run(cs) {
				return
			}
			s.Stat("fixed_regression_cases", 1)
			if !e.groupEnd(cs.S) && i+1 < p.To {
				restart(i+1, e.reason())
			}
		}
		return
	}
	gs := groupSize
	if p.Surface == "a" || p.Surface == "b" || p.Surface == "e" {
		gs = 40
	}
	for i := p.From; i < p.To; i++ {
		var cs Case
		switch p.Surface {
		case "a", "b", "e":
			cs = wireCase(p, p.Surface, i)
		case "c":
			if e.pm == nil {
				x, err := newPMExec(s)
				if err != nil {
					s.Inconclusive(err.Error())
					return
				}
				e.pm = x
			}
			cs = caseC(p.Seed, i, e.pm.f)
		case "d":
			if e.ch == nil {
				x, err := newChainExec(s)
				if err != nil {
					s.Inconclusive(err.Error())
					return
				}
				e.ch = x
			}
			cs = caseD(p.Seed, i, e.ch.f)
		}
		cs.Idx = i
		if !e.run(cs) {
			return
		}
		if e.pm != nil && e.pm.dead {
			// a liveness probe failed: nothing more can be learnt from this process
			if i+1 < p.To {
				restart(i+1, "dead")
			}
			return
		}
		if (i-p.From+1)%gs == 0 || i+1 == p.To {
			if !e.groupEnd(p.Surface) && i+1 < p.To {
				restart(i+1, e.reason())
			}
		}
	}
}

// runCases executes materialised cases (replay of a witness).
func runCases(s Sink, p plan, cases []Case, restart func(int, string)) {
	e := &execSet{s: s}
	last := ""
	for _, cs := range cases {
		if !e.run(cs) {
			return
		}
		last = cs.S
	}
	if last != "" {
		e.groupEnd(last)
	}
}
