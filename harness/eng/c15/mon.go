package main

// Monitors shared by all surfaces: allocation per input, goroutine population, watchdogs.

import (
	"fmt"
	"io/ioutil"
	"os"
	"regexp"
	"runtime"
	"sort"
	"strings"
	"time"

	"github.com/LemoFoundationLtd/lemochain-core/chain/params"
)

const MiB = 1 << 20

// allocBound is the allowance of the property for one input / one connection on which the
// remote sent n bytes: twice the documented frame cap plus 32 bytes per byte received plus
// 1 MiB of slack for the background activity of the process.
func allocBound(n int64) uint64 {
	return allocBoundN(1, n)
}

// allocBoundN is the allowance of an input that consists of units separate frames /
// messages: the constant part (one maximal frame and its decrypted copy) is granted per unit.
func allocBoundN(units int, n int64) uint64 {
	if units < 1 {
		units = 1
	}
	return uint64(units)*2*uint64(params.MaxPackageLength) + 32*uint64(n) + MiB
}

func totalAlloc() uint64 {
	var m runtime.MemStats
	runtime.ReadMemStats(&m)
	return m.TotalAlloc
}

// allocProbe measures the bytes allocated by the whole process between start and check.
// The harness allocates in the same heap (it builds what it sends), which the 32x factor
// absorbs; only one case runs at a time in a worker process.
type allocProbe struct{ before uint64 }

func startAlloc() allocProbe { return allocProbe{before: totalAlloc()} }
func (a allocProbe) delta() uint64 {
	now := totalAlloc()
	if now < a.before {
		return 0
	}
	return now - a.before
}

// checkAlloc judges one input. answered = bytes the node wrote back to the remote in answer:
// data a request asks for has to be materialised, so it counts like bytes received
// (request/response amplification is recorded, not judged).
func checkAlloc(s Sink, surface string, a allocProbe, units int, sent, answered int64, wit interface{}) bool {
	d := a.delta()
	s.Stat("alloc_checks", 1)
	s.Stat("alloc_bytes_observed_"+surface, int64(d))
	if d > allocBound(sent) {
		s.Stat("alloc_above_single_unit_allowance_"+surface, 1) // explained by the number of units or by the answer
	}
	// amplification actually observed (recorded, not judged): allocated bytes per byte received, log2 bucket
	if sent > 0 {
		b := 0
		for r := d / uint64(sent); r > 1; r >>= 1 {
			b++
		}
		s.Seen("alloc_per_byte_received_log2_"+surface, fmt.Sprintf("%02d", b))
	}
	if lim := allocBoundN(units, sent+answered); d > lim {
		s.Violation("C15/allocation-out-of-proportion:"+surface,
			fmt.Sprintf("the process allocated %d bytes (%.1f MiB) while handling an input of %d bytes in %d frame(s)/message(s) (it wrote %d bytes back); allowance units*2*MaxPackageLength+32*bytes+1MiB = %d", d, float64(d)/MiB, sent, units, answered, lim), wit)
		return false
	}
	return true
}

var reFuncNum = regexp.MustCompile(`\.func\d+(\.\d+)*`)

// gInfo describes the live goroutines that share an entry function.
type gInfo struct {
	n      int
	busy   int            // running / runnable / in a syscall when sampled
	inside map[string]int // innermost repository function of the blocked ones
}

func shortFn(fn string) string {
	fn = strings.TrimPrefix(fn, modPath+"/")
	return reFuncNum.ReplaceAllString(fn, ".func")
}

// goroutineSigs groups every live goroutine of the node by its entry function (the bottom
// frame of its stack: stable no matter where a busy goroutine happens to be sampled).
// Goroutines whose entry is a harness function are not the node's and are left out; the
// harness watches those with explicit watchdogs.
var stackBuf = make([]byte, 1<<20) // reused: the monitor must not allocate much itself

func goroutineSigs() map[string]*gInfo {
	var buf []byte
	for {
		n := runtime.Stack(stackBuf, true)
		if n < len(stackBuf) {
			buf = stackBuf[:n]
			break
		}
		stackBuf = make([]byte, 2*len(stackBuf))
	}
	out := map[string]*gInfo{}
	for _, blk := range strings.Split(string(buf), "\n\n") {
		lines := strings.Split(blk, "\n")
		if len(lines) < 2 || !strings.HasPrefix(lines[0], "goroutine ") {
			continue
		}
		state := ""
		if i := strings.Index(lines[0], "["); i > 0 {
			state = strings.TrimSuffix(lines[0][i+1:], "]:")
			if j := strings.Index(state, ","); j > 0 {
				state = state[:j]
			}
		}
		entry, inner := "", ""
		for _, ln := range lines[1:] {
			if strings.HasPrefix(ln, "created by ") && entry == "" {
				// no frames available: fall back to the creator
				fn := strings.TrimPrefix(ln, "created by ")
				if i := strings.Index(fn, " in goroutine"); i > 0 {
					fn = fn[:i]
				}
				entry = "created-by:" + fn
				continue
			}
			if ln == "" || strings.HasPrefix(ln, "\t") || strings.HasPrefix(ln, "created by ") {
				continue
			}
			fn := ln
			if i := strings.LastIndex(fn, "("); i > 0 {
				fn = fn[:i]
			}
			entry = fn
			if inner == "" && strings.HasPrefix(fn, modPath+"/") {
				inner = fn
			}
		}
		if entry == "" || strings.HasPrefix(entry, "main.") || strings.HasPrefix(entry, "verif/") {
			continue
		}
		k := shortFn(strings.Replace(entry, "created-by:"+modPath+"/", "created-by:", 1))
		gi := out[k]
		if gi == nil {
			gi = &gInfo{inside: map[string]int{}}
			out[k] = gi
		}
		gi.n++
		switch state {
		case "running", "runnable", "syscall":
			gi.busy++
		default:
			if inner != "" {
				gi.inside[shortFn(inner)]++
			}
		}
	}
	return out
}

func population(m map[string]*gInfo) int {
	n := 0
	for _, g := range m {
		n += g.n
	}
	return n
}

// gorMon watches the goroutine population of the node against a baseline.
type gorMon struct {
	base     int
	baseSigs map[string]*gInfo
}

func newGorMon() *gorMon {
	// let start-up goroutines settle first
	prev := -1
	for i := 0; i < 50; i++ {
		n := population(goroutineSigs())
		if n == prev {
			break
		}
		prev = n
		time.Sleep(10 * time.Millisecond)
	}
	// a goroutine that is on a CPU while the sample is taken may be reported without a stack;
	// the baseline is therefore the per-entry maximum over several samples
	s := goroutineSigs()
	for i := 0; i < 8; i++ {
		time.Sleep(7 * time.Millisecond)
		for k, v := range goroutineSigs() {
			if old := s[k]; old == nil || v.n > old.n {
				s[k] = v
			}
		}
	}
	if d := os.Getenv("C15_DEBUG_GOR"); d != "" && d != "1" {
		n := runtime.Stack(stackBuf, true)
		_ = ioutil.WriteFile(d, stackBuf[:n], 0644)
	}
	return &gorMon{base: population(s), baseSigs: s}
}

// settle waits (watchdog) until no entry function has more goroutines than at the baseline
// and returns the excess if that does not happen.
func (g *gorMon) settle(wait time.Duration) (map[string]*gInfo, int) {
	deadline := time.Now().Add(wait)
	everBusy := map[string]int{}
	lastShape, since := "", time.Now()
	polls := 0
	for {
		polls++
		now := goroutineSigs()
		ex := map[string]*gInfo{}
		for k, v := range now {
			if v.busy > 0 {
				everBusy[k]++ // number of samples in which a goroutine of this kind was computing
			}
			b := 0
			if bv := g.baseSigs[k]; bv != nil {
				b = bv.n
			}
			if v.n > b {
				c := *v
				c.n = v.n - b
				ex[k] = &c
			}
		}
		if len(ex) == 0 {
			return nil, population(now)
		}
		// an excess that consists of blocked goroutines only and has not changed for 1.5 s (longer
		// than any deadline of the scripted transport) will not go away: no need to sit out the rest
		shape, anyBusy := "", false
		sk := make([]string, 0, len(ex))
		for k := range ex {
			sk = append(sk, k)
		}
		sort.Strings(sk)
		for _, k := range sk {
			shape += fmt.Sprintf("%s=%d;", k, ex[k].n)
			if ex[k].busy > 0 {
				anyBusy = true
			}
		}
		if shape != lastShape || anyBusy {
			lastShape, since = shape, time.Now()
		}
		if time.Now().After(deadline) || time.Since(since) > 1500*time.Millisecond {
			// a goroutine that was computing in most samples is busy even if the last sample caught it waiting
			for k, gi := range ex {
				if gi.busy == 0 && polls > 2 && 2*everBusy[k] > polls {
					gi.busy = 1
				}
			}
			return ex, population(now)
		}
		time.Sleep(25 * time.Millisecond)
	}
}

// check reports every kind of goroutine that outlived its input: class = entry function of
// the goroutine, plus where it is blocked (or "busy" if it is still computing). It returns
// false if the process should be replaced (its baseline is spoilt).
func (g *gorMon) check(s Sink, surface string, wait time.Duration, wit interface{}) bool {
	s.Stat("goroutine_checks", 1)
	ex, n := g.settle(wait)
	if ex == nil {
		return true
	}
	keys := make([]string, 0, len(ex))
	for k := range ex {
		keys = append(keys, k)
	}
	sort.Strings(keys)
	if os.Getenv("C15_DEBUG_GOR") != "" {
		d := "baseline:"
		for k, v := range g.baseSigs {
			d += fmt.Sprintf(" %s=%d", k, v.n)
		}
		d += " | now:"
		for k, v := range goroutineSigs() {
			d += fmt.Sprintf(" %s=%d", k, v.n)
		}
		s.Note(d)
	}
	replace := false
	for _, k := range keys {
		gi := ex[k]
		where := "busy"
		if gi.busy == 0 {
			best, bn := "", 0
			for f, c := range gi.inside {
				if c > bn || (c == bn && f < best) {
					best, bn = f, c
				}
			}
			where = "blocked-in:" + best
		}
		if gi.busy > 0 {
			replace = true // a goroutine that keeps computing spoils later measurements
		} else {
			// a goroutine blocked for good is inert: absorb it into the baseline and go on
			b := g.baseSigs[k]
			if b == nil {
				b = &gInfo{inside: map[string]int{}}
				g.baseSigs[k] = b
			}
			b.n += gi.n
			g.base += gi.n
		}
		sig := k + ":" + where
		s.Seen("leaked_goroutine_kinds", sig)
		s.Stat("leaked_goroutines", int64(gi.n))
		s.Violation("C15/goroutine-leak:"+sig,
			fmt.Sprintf("%d goroutine(s) started as %s are still alive (%s) after the remote went away and everything else settled (surface %s; node goroutines %d)", gi.n, k, where, surface, n), wit)
	}
	return !replace
}
