package main

// ECIES messages built by hand. ecies.Encrypt of the repository can only produce messages
// whose encrypted part is an IV plus the CTR ciphertext (>= 16 bytes). Anybody who knows the
// recipient's public key (= its NodeID) can, however, compute the MAC key and therefore
// put *any* bytes of *any* length between the ephemeral key and a valid tag. This file is
// that remote: the scheme of common/crypto/ecies (ECIES_AES128_SHA256 on secp256k1) written
// out with the standard library only.
//
//	R      ephemeral key pair on the recipient's curve
//	z      x coordinate of R.priv * recipient.pub, left padded to 32 bytes
//	K      SHA-256(00 00 00 01 || z)              (NIST concatenation KDF, one round, s1 empty)
//	Ke     K[:16]                                 (AES-128-CTR key)
//	Km     SHA-256(K[16:])
//	tag    HMAC-SHA-256(Km, em)                   (s2 empty)
//	msg    04 || R.x || R.y || em || tag
//	em     of an honest sender: IV(16) || AES-CTR(Ke, IV, plaintext)

import (
	"bytes"
	"crypto/aes"
	"crypto/cipher"
	"crypto/ecdsa"
	"crypto/elliptic"
	"crypto/hmac"
	"crypto/rand"
	"crypto/sha256"
	"fmt"

	"github.com/LemoFoundationLtd/lemochain-core/common/crypto/ecies"
)

// eciesSession is one ephemeral key agreed with a recipient.
type eciesSession struct {
	rb []byte // marshalled ephemeral public key (65 bytes)
	ke []byte // encryption key
	km []byte // MAC key
}

func newEciesSession(pub *ecdsa.PublicKey) (*eciesSession, error) {
	curve := pub.Curve
	d, rx, ry, err := elliptic.GenerateKey(curve, rand.Reader)
	if err != nil {
		return nil, err
	}
	zx, _ := curve.ScalarMult(pub.X, pub.Y, d)
	if zx == nil {
		return nil, fmt.Errorf("shared point at infinity")
	}
	z := make([]byte, 32)
	zb := zx.Bytes()
	copy(z[32-len(zb):], zb)
	h := sha256.New()
	h.Write([]byte{0, 0, 0, 1})
	h.Write(z)
	k := h.Sum(nil)
	km := sha256.Sum256(k[16:])
	return &eciesSession{rb: elliptic.Marshal(curve, rx, ry), ke: k[:16], km: km[:]}, nil
}

// seal returns R || em || tag. mac: "" = the valid tag, "bad" = the valid tag with one bit
// flipped, "none" = no tag at all (the last 32 bytes of em are taken for it by the reader).
func (s *eciesSession) seal(em []byte, mac string) []byte {
	m := hmac.New(sha256.New, s.km)
	m.Write(em)
	tag := m.Sum(nil)
	switch mac {
	case "bad":
		tag[len(tag)-1] ^= 1
	case "none":
		tag = nil
	}
	out := make([]byte, 0, len(s.rb)+len(em)+len(tag))
	out = append(out, s.rb...)
	out = append(out, em...)
	return append(out, tag...)
}

// honestEm is what an honest sender puts between R and the tag.
func (s *eciesSession) honestEm(plain []byte) []byte {
	blk, err := aes.NewCipher(s.ke)
	if err != nil {
		panic(err)
	}
	em := make([]byte, 16+len(plain))
	if _, err := rand.Read(em[:16]); err != nil {
		panic(err)
	}
	cipher.NewCTR(blk, em[:16]).XORKeyStream(em[16:], plain)
	return em
}

// eciesRaw builds a message to pub around the given encrypted part.
func eciesRaw(pub *ecdsa.PublicKey, em []byte, mac string) ([]byte, error) {
	s, err := newEciesSession(pub)
	if err != nil {
		return nil, err
	}
	return s.seal(em, mac), nil
}

// eciesSelfTest checks the construction against the repository's own Decrypt with shapes
// every version of the repository has to accept (encrypted part >= one block): without it a
// mistake in this file would turn every "valid MAC" case into a plain MAC failure unnoticed.
func eciesSelfTest(prv *ecdsa.PrivateKey) error {
	rcpt := ecies.ImportECDSA(prv)
	for _, plain := range [][]byte{[]byte("verif-c15 ecies self test"), {7}, {}} {
		s, err := newEciesSession(&prv.PublicKey)
		if err != nil {
			return err
		}
		got, err := rcpt.Decrypt(s.seal(s.honestEm(plain), ""), nil, nil)
		if err != nil {
			return fmt.Errorf("hand-built ECIES message refused by the repository's Decrypt: %v", err)
		}
		if !bytes.Equal(got, plain) {
			return fmt.Errorf("hand-built ECIES message decrypts to %x, want %x", got, plain)
		}
		if _, err := rcpt.Decrypt(s.seal(s.honestEm(plain), "bad"), nil, nil); err == nil {
			return fmt.Errorf("hand-built ECIES message with a wrong tag accepted")
		}
	}
	return nil
}
