package main

// Surface c: the real ProtocolManager of a live node behind a scripted remote peer. The
// scripted peer implements p2p.IPeer the way p2p.Peer behaves towards the manager (ReadMsg
// blocks until a message or close, WriteMsg honours the write deadline the manager set,
// Close is idempotent and ends in a DeletePeer event like the server's), and is injected
// over the public event bus exactly as p2p.Server injects real peers.

import (
	"crypto/ecdsa"
	"encoding/hex"
	"errors"
	"fmt"
	"io"
	"strings"
	"sync"
	"sync/atomic"
	"time"

	"github.com/LemoFoundationLtd/lemochain-core/chain/params"
	"github.com/LemoFoundationLtd/lemochain-core/common/rlp"
	"github.com/LemoFoundationLtd/lemochain-core/common/subscribe"
	"github.com/LemoFoundationLtd/lemochain-core/network"
	"github.com/LemoFoundationLtd/lemochain-core/network/p2p"

	"verif/fx"
)

const (
	pmWatchdog     = 15 * time.Second
	deadlineScale  = 20 // write deadlines of the scripted transport run 20x faster than the real ones (20 s -> 1 s, 3 s -> 150 ms)
	defaultWriteDl = 20 * time.Second
	groupSize      = 32
)

type outMsg struct {
	code uint32
	data []byte
}

type sPeer struct {
	id       p2p.NodeID
	in       chan *p2p.Msg
	out      chan outMsg
	closed   chan struct{}
	once     sync.Once
	mu       sync.Mutex
	wd       time.Duration
	status   int32
	byNode   int32 // 1: Close was called by the node
	selfCls  int32
	written  int64
	answered *int64 // bytes the node wrote, summed over all connections of the executor
}

var errPeerClosed = errors.New("scripted peer closed")
var errWriteTimeout = errors.New("scripted peer write timeout")

func newSPeer(k fx.Key) *sPeer {
	p := &sPeer{in: make(chan *p2p.Msg), out: make(chan outMsg, 64), closed: make(chan struct{}), wd: defaultWriteDl}
	copy(p.id[:], k.NodeID)
	return p
}

func (p *sPeer) ReadMsg() (*p2p.Msg, error) {
	select {
	case <-p.closed:
		return nil, io.EOF
	case m := <-p.in:
		return m, nil
	}
}

func (p *sPeer) WriteMsg(code p2p.MsgCode, msg []byte) error {
	p.mu.Lock()
	wd := p.wd
	p.wd = defaultWriteDl
	p.mu.Unlock()
	select {
	case <-p.closed:
		return errPeerClosed
	default:
	}
	cp := append([]byte(nil), msg...)
	t := time.NewTimer(wd / deadlineScale)
	defer t.Stop()
	select {
	case p.out <- outMsg{uint32(code), cp}:
		atomic.AddInt64(&p.written, 1)
		if p.answered != nil {
			atomic.AddInt64(p.answered, int64(len(cp))+4)
		}
		return nil
	case <-p.closed:
		return errPeerClosed
	case <-t.C:
		return errWriteTimeout
	}
}

func (p *sPeer) SetWriteDeadline(d time.Duration) {
	p.mu.Lock()
	p.wd = d
	p.mu.Unlock()
}
func (p *sPeer) RNodeID() *p2p.NodeID                                        { return &p.id }
func (p *sPeer) RAddress() string                                            { return "10.66.0.1:7001" }
func (p *sPeer) LAddress() string                                            { return "127.0.0.1:7001" }
func (p *sPeer) DoHandshake(prv *ecdsa.PrivateKey, nodeID *p2p.NodeID) error { return nil }
func (p *sPeer) Run() error {
	<-p.closed
	return nil
}
func (p *sPeer) NeedReConnect() bool { return false }
func (p *sPeer) SetStatus(s int32)   { atomic.StoreInt32(&p.status, s) }

// Close is what the node calls; remoteClose is the attacker going away. Both end in the
// DeletePeer event the p2p server publishes for a real peer.
func (p *sPeer) Close() {
	if atomic.LoadInt32(&p.selfCls) == 0 {
		atomic.StoreInt32(&p.byNode, 1)
	}
	p.once.Do(func() {
		close(p.closed)
		go subscribe.Send(subscribe.DeletePeer, p2p.IPeer(p))
	})
}

func (p *sPeer) remoteClose() {
	atomic.StoreInt32(&p.selfCls, 1)
	p.Close()
}

func (p *sPeer) isClosed() bool {
	select {
	case <-p.closed:
		return true
	default:
		return false
	}
}

type pmExec struct {
	s        Sink
	f        *chainFx
	pm       *network.ProtocolManager
	disc     *p2p.DiscoverManager
	cur      *sPeer
	nConn    int
	gm       *gorMon
	window   []Case
	replies  map[uint32]int64
	repMu    sync.Mutex
	pause    int32 // 1: the attacker does not read (slow reader)
	answered int64
	dead     bool // a liveness probe failed: the process has to be replaced
	drainWG  sync.WaitGroup
}

func newPMExec(s Sink) (*pmExec, error) {
	f, err := newChainFx()
	if err != nil {
		return nil, err
	}
	x := &pmExec{s: s, f: f, replies: map[uint32]int64{}}
	n := f.node
	x.disc = p2p.NewDiscoverManager(n.Dir)
	var self p2p.NodeID
	copy(self[:], n.Self.NodeID)
	x.pm = network.NewProtocolManager(f.cl.W.ChainID, self, n.BC, n.DM, n.Pool, n.BC.TxGuard(), x.disc, 10, params.VersionUint(), n.Dir)
	x.pm.Start()
	time.Sleep(250 * time.Millisecond)
	// warm-up: one honest connection that is closed again
	if !x.connect(nil, 0) {
		return nil, fmt.Errorf("fixture: the node does not complete an honest protocol handshake")
	}
	if !x.statusRoundTrip() {
		return nil, fmt.Errorf("fixture: the node does not answer an honest status request")
	}
	x.disconnect()
	time.Sleep(50 * time.Millisecond)
	x.gm = newGorMon()
	return x, nil
}

func (x *pmExec) honestHandshake() []byte {
	bc := x.f.node.BC
	hs := &network.ProtocolHandshake{ChainID: x.f.cl.W.ChainID, GenesisHash: bc.Genesis().Hash(), NodeVersion: params.VersionUint(),
		LatestStatus: network.LatestStatus{CurHeight: bc.CurrentBlock().Height(), CurHash: bc.CurrentBlock().Hash(), StaHeight: bc.StableBlock().Height(), StaHash: bc.StableBlock().Hash()}}
	return hs.Bytes()
}

// startDrain reads everything the node writes on p until p closes.
func (x *pmExec) startDrain(p *sPeer, status chan<- struct{}) {
	x.drainWG.Add(1)
	go func() {
		defer x.drainWG.Done()
		for {
			for atomic.LoadInt32(&x.pause) != 0 && !p.isClosed() {
				time.Sleep(time.Millisecond)
			}
			select {
			case <-p.closed:
				// take what is already queued, then stop
				for {
					select {
					case m := <-p.out:
						x.count(m.code)
					default:
						return
					}
				}
			case m := <-p.out:
				x.count(m.code)
				if m.code == uint32(p2p.LstStatusMsg) {
					select {
					case status <- struct{}{}:
					default:
					}
				}
			}
		}
	}()
}

func (x *pmExec) count(code uint32) {
	x.repMu.Lock()
	x.replies[code]++
	x.repMu.Unlock()
}

var statusCh = make(chan struct{}, 1024)

// connect opens a new scripted connection and answers the node's protocol handshake,
// honestly (hs == nil) or with the given payload.
func (x *pmExec) connect(hs *Payload, hsCode uint32) bool {

	if x.dead {
		return false
	}
	x.nConn++
	p := newSPeer(fx.NewKey("c15-remote", x.nConn))
	p.answered = &x.answered
	// the bus delivers synchronously (it spins until the manager's peer loop takes the event)
	delivered := make(chan struct{})
	go func() {
		subscribe.Send(subscribe.AddNewPeer, p2p.IPeer(p))
		close(delivered)
	}()
	if !waitCh(delivered, pmWatchdog) {
		if !x.dead {
			where, all := stuckWhere()
			x.s.Violation("C15/node-unresponsive:c:new-peer-event-not-taken:"+where,
				fmt.Sprintf("the manager's peer loop does not take a new-peer event within %v; goroutines of the manager: %s", pmWatchdog, all), map[string]interface{}{"window": append([]Case(nil), x.window...)})
		}
		x.dead = true
		return false
	}
	// the node speaks first
	select {
	case m := <-p.out:
		x.count(m.code)
		if m.code != uint32(p2p.ProHandshakeMsg) {
			x.s.Stat("c_unexpected_first_message", 1)
		}
	case <-p.closed:
		x.s.Stat("c_connection_refused", 1)
		return false
	case <-time.After(pmWatchdog):
		x.s.Stat("c_no_handshake_from_node", 1)
		p.remoteClose()
		return false
	}
	x.startDrain(p, statusCh)
	content := x.honestHandshake()
	code := uint32(p2p.ProHandshakeMsg)
	if hs != nil {
		content = hs.bytes()
		code = hsCode
	}
	x.cur = p
	if !x.sendRaw(code, content) {
		return false
	}
	x.s.Stat("c_connections", 1)
	return true
}

func (x *pmExec) disconnect() {
	if x.cur != nil {
		x.cur.remoteClose()
		x.cur = nil
	}
}

// sendRaw delivers one message to the node like p2p.Peer.handle does.
func (x *pmExec) sendRaw(code uint32, content []byte) bool {
	p := x.cur
	if p == nil || p.isClosed() {
		return false
	}
	if len(content) == 0 {
		content = nil
	}
	t := time.NewTimer(pmWatchdog)
	defer t.Stop()
	select {
	case p.in <- &p2p.Msg{Code: p2p.MsgCode(code), Content: content, ReceivedAt: time.Now()}:
		return true
	case <-p.closed:
		return false
	case <-t.C:
		x.s.Stat("c_node_stopped_reading", 1)
		return false
	}
}

// statusRoundTrip is the liveness probe: an honest status request must be answered.
func (x *pmExec) statusRoundTrip() bool {
	for len(statusCh) > 0 {
		<-statusCh
	}
	req, _ := rlp.EncodeToBytes(&network.GetLatestStatus{Revert: 0})
	if !x.sendRaw(uint32(p2p.GetLstStatusMsg), req) {
		return false
	}
	t := time.NewTimer(pmWatchdog)
	defer t.Stop()
	select {
	case <-statusCh:
		return true
	case <-x.cur.closed:
		return false
	case <-t.C:
		return false
	}
}

// alive makes sure the node still serves an honest remote: on the current connection if the
// node kept it, else on a new one.
func (x *pmExec) alive() (ok bool, reconnected bool) {

	if x.cur != nil && !x.cur.isClosed() {
		if x.statusRoundTrip() {
			return true, false
		}
		if !x.cur.isClosed() {
			return false, false // open but mute
		}
	}
	for try := 0; try < 3; try++ {
		x.cur = nil
		if x.connect(nil, 0) && x.statusRoundTrip() {
			return true, true
		}
		time.Sleep(100 * time.Millisecond) // the DeletePeer event of the previous connection may still be on its way
	}
	return false, true
}

func (x *pmExec) exec(cs Case) {
	if x.dead {
		return
	}
	x.window = append(x.window, cs)
	wit := map[string]interface{}{"window": append([]Case(nil), x.window...)}
	contents := make([][]byte, len(cs.Msgs))
	for i, m := range cs.Msgs {
		contents[i] = m.Payload.bytes()
	}
	var hsBytes []byte
	if cs.HS != nil {
		hsBytes = cs.HS.bytes()
	}
	a := startAlloc() // the harness's own buffers are built before this point
	ans0 := atomic.LoadInt64(&x.answered)
	sent := int64(0)
	outcome := "kept"
	if cs.HS != nil {
		x.disconnect()
		if !x.connect(&Payload{Raw: []Seg{{Hex: hex.EncodeToString(hsBytes)}}}, cs.HSCode) {
			outcome = "refused"
		}
		sent += int64(len(hsBytes))
	} else if x.cur == nil || x.cur.isClosed() {
		x.cur = nil
		if !x.connect(nil, 0) {
			time.Sleep(100 * time.Millisecond)
			x.connect(nil, 0)
		}
	}
	if cs.Slow {
		atomic.StoreInt32(&x.pause, 1)
	}
	nmsg := 0
	for mi, m := range cs.Msgs {
		content := contents[mi]
		rep := m.Rep
		if rep < 1 {
			rep = 1
		}
		for i := 0; i < rep; i++ {
			if i > 0 && m.Payload.varies() {
				content = m.Payload.bytesAt(i)
			}
			if !x.sendRaw(m.Code, content) {
				break
			}
			sent += int64(len(content)) + 4
			nmsg++
		}
	}
	if cs.Slow {
		time.Sleep(300 * time.Millisecond) // the node's writers sit in their (scaled) deadlines meanwhile
		atomic.StoreInt32(&x.pause, 0)
	}
	x.s.Stat("c_messages_sent", int64(nmsg))
	x.s.Stat("bytes_sent_c", sent)
	// liveness round trip (also flushes the manager's queue: messages are handled in order)
	closedByNode := x.cur != nil && x.cur.isClosed() && atomic.LoadInt32(&x.cur.byNode) == 1
	ok, re := x.alive()
	if re || closedByNode {
		outcome = "closed-by-node"
	}
	if !ok {
		where, all := stuckWhere()
		x.s.Violation("C15/node-unresponsive:c:no-answer-to-status-request:"+where,
			fmt.Sprintf("after the input the node does not answer an honest status request within %v; goroutines of the manager: %s", pmWatchdog, all), wit)
		x.dead = true
	}
	x.s.Seen("connection_outcomes_c", outcome)
	x.s.Stat("outcome_c_"+outcome, 1)
	for _, m := range cs.Msgs {
		x.s.Seen("codes_sent_c", fmt.Sprintf("0x%02x", m.Code))
	}
	ans := atomic.LoadInt64(&x.answered) - ans0
	x.s.Stat("bytes_answered_c", ans)
	checkAlloc(x.s, "c", a, nmsg+1, sent, ans, wit)
	x.s.Case("c/"+cs.Kind, len(cs.Msgs) > 0 || cs.HS != nil, cs)
}

// groupEnd: the remote goes away, the node's timers get time to drain its caches, then the
// goroutine population must be back at the baseline and a fresh remote must be served.
// Returns false when the process should be replaced.
func (x *pmExec) groupEnd() bool {
	wit := map[string]interface{}{"window": append([]Case(nil), x.window...)}
	time.Sleep(650 * time.Millisecond) // one period of the block cache timer (500 ms)
	ok, _ := x.alive()
	if !ok && !x.dead {
		where, all := stuckWhere()
		x.s.Violation("C15/node-unresponsive:c:no-answer-to-status-request:"+where, "at the end of a group the node does not answer an honest status request; goroutines of the manager: "+all, wit)
	}
	if x.dead {
		x.window = nil
		return false
	}
	x.disconnect()
	good := x.gm.check(x.s, "c", 4*time.Second, wit)
	// once the work the remote had asked for is done (or the settle time is over) nothing may keep
	// allocating: a quiet window of 300 ms must stay far below one frame
	a := startAlloc()
	time.Sleep(300 * time.Millisecond)
	if d := a.delta(); d > 16*MiB {
		x.s.Violation("C15/allocation-out-of-proportion:c:keeps-allocating-after-remote-left", fmt.Sprintf("the node allocated %d bytes (%.1f MiB) within 300 ms, seconds after the remote stopped sending and left", d, float64(d)/MiB), wit)
		good = false
	}
	x.repMu.Lock()
	for c, n := range x.replies {
		x.s.Stat(fmt.Sprintf("c_messages_from_node_0x%02x", c), n)
	}
	x.replies = map[uint32]int64{}
	x.repMu.Unlock()
	bc := x.f.node.BC
	x.s.Seen("c_chain_heads_seen", fmt.Sprintf("cur%d/sta%d", bc.CurrentBlock().Height(), bc.StableBlock().Height()))
	x.window = nil
	return good && ok
}

func (x *pmExec) close() {
	x.disconnect()
}

// stuckWhere tells where the manager's per-peer handler (or, failing that, its block loop)
// is blocked: the mechanism part of an unresponsive-node class.
func stuckWhere() (string, string) {
	sigs := goroutineSigs()
	all := ""
	where := "handler-not-blocked"
	for _, entry := range []string{"network.(*ProtocolManager).handlePeer", "network.(*ProtocolManager).rcvBlockLoop", "network.(*ProtocolManager).peerLoop", "network.(*ProtocolManager).txConfirmLoop", "network.(*ProtocolManager).stableBlockLoop"} {
		gi := sigs[entry]
		if gi == nil {
			continue
		}
		best, bn := "", 0
		for f, c := range gi.inside {
			if f == "network.(*MsgCache).Pop" || f == entry {
				continue // waiting for the next message / event: the normal idle position
			}
			if c > bn || (c == bn && f < best) {
				best, bn = f, c
			}
		}
		pos := ""
		for f, c := range gi.inside {
			pos += fmt.Sprintf("%s x%d ", f, c)
		}
		all += fmt.Sprintf("%s: %s; ", entry, pos)
		if best == "" {
			continue
		}
		short := entry[strings.LastIndex(entry, ".")+1:]
		if where == "handler-not-blocked" {
			where = short + "-blocked-in:" + best
		} else {
			where += "+" + short + "-blocked-in:" + best
		}
	}
	return where, all
}
