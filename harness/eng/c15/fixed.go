package main

// The fixed regression list: deterministic witnesses of the defects this engine found on
// the unchanged tree, plus the expensive boundary cases that must run exactly once per
// run. Executed in every tier and for every seed.

// Fixture constants (chainfx.go builds the same chain in every process).
const (
	fxCur = fxBlocks
	fxSta = fxStableBlocks
)

func fixedCases() []Case {
	oneB := func(kind string, f Frame, end string) Case {
		return Case{S: "b", Kind: kind, Wire: &WireScript{Frames: []Frame{f}, Cut: -1, End: end}}
	}
	oneA := func(kind string, f Frame, end string) Case {
		return Case{S: "a", Kind: kind, Wire: &WireScript{Frames: []Frame{f}, Cut: -1, End: end}}
	}
	oneE := func(kind string, f Frame, end string) Case {
		return Case{S: "e", Kind: kind, Wire: &WireScript{Frames: []Frame{f}, Cut: -1, End: end}}
	}
	msg := func(kind string, code uint32, t *Node) Case {
		return Case{S: "c", Kind: kind, Msgs: []Msg{{Code: code, Payload: &Payload{Tree: t}}}}
	}
	hex128 := repHex("ab", 64)
	return []Case{
		// AesDecrypt: CryptBlocks on a ciphertext that is not a multiple of the block size
		oneB("fixed-raw-ciphertext-17-bytes", Frame{Kind: "raw", Len: -1, Plain: []Seg{{Rnd: 17, Seed: 17}}}, "probe"),
		oneB("fixed-raw-ciphertext-1-byte", Frame{Kind: "raw", Len: -1, Plain: []Seg{{Rnd: 1, Seed: 1}}}, "probe"),
		// unpackFrame: valid padding that leaves fewer than 4 bytes of plaintext
		oneB("fixed-padding-leaves-0-bytes", Frame{Kind: "cbc", Len: -1, Plain: []Seg{{Fill: 16, Byte: 16}}}, "probe"),
		oneB("fixed-padding-leaves-2-bytes", Frame{Kind: "cbc", Len: -1, Plain: []Seg{{Hex: "0003"}, {Fill: 14, Byte: 14}}}, "probe"),
		// readHandshakeBuf: the handshake length cap is 1 GiB and the buffer is allocated after 6 bytes
		oneA("fixed-handshake-declared-1GiB", Frame{Kind: "raw", Len: 1 << 30, Plain: []Seg{{Rnd: 512, Seed: 5}}}, "hold"),
		oneA("fixed-handshake-declared-1GiB+1", Frame{Kind: "raw", Len: 1<<30 + 1, Plain: []Seg{{Rnd: 512, Seed: 5}}}, "hold"),
		oneA("fixed-handshake-declared-4GiB-1", Frame{Kind: "raw", Len: 1<<32 - 1, Plain: []Seg{{Rnd: 512, Seed: 5}}}, "hold"),
		oneA("fixed-handshake-declared-64MiB", Frame{Kind: "raw", Len: overCapLen, Plain: []Seg{{Rnd: 512, Seed: 5}}}, "hold"),
		// ecies.Decrypt / symDecrypt: a valid tag around an encrypted part shorter than the IV (anybody who knows the NodeID can compute the tag)
		oneA("fixed-ecies-valid-mac-encrypted-part-1-byte", Frame{Kind: "ecies-raw", Len: -1, Plain: []Seg{{Rnd: 1, Seed: 1}}}, "hold"),
		oneA("fixed-ecies-valid-mac-encrypted-part-15-bytes", Frame{Kind: "ecies-raw", Len: -1, Plain: []Seg{{Rnd: 15, Seed: 15}}}, "hold"),
		oneE("fixed-dial-ecies-valid-mac-encrypted-part-1-byte", Frame{Kind: "ecies-raw", Len: -1, Plain: []Seg{{Rnd: 1, Seed: 1}}}, "probe"),
		// importPubKey on the dialling side: a listener's response whose key is no curve point / is not there at all
		oneE("fixed-dial-response-pub-not-on-curve", Frame{Kind: "resp-mut", Len: -1, Payload: &Payload{Tree: nL(&Node{Rnd: 64, Seed: 2})}}, "probe"),
		oneE("fixed-dial-response-pub-zero", Frame{Kind: "resp-mut", Len: -1, Payload: &Payload{Tree: nL(&Node{Fill: 64})}}, "probe"),
		oneE("fixed-dial-response-not-rlp", Frame{Kind: "ecies", Len: -1, Plain: []Seg{{Fill: 101, Byte: 0xff}}}, "probe"),
		// ParseNodeString: 128 characters that do not decode to 64 bytes
		msg("fixed-discover-response-node-id-0x-prefixed", 0x0d, nL(nU(1), nL(nB([]byte("0x"+hex128[:126]+"@1.2.3.4:7001"))))),
		msg("fixed-discover-response-node-id-not-hex", 0x0d, nL(nU(1), nL(nB([]byte(repHex("zz", 64)+"@1.2.3.4:7001"))))),
		// checkBoxTx: JSON null inside the sub transaction list
		{S: "c", Kind: "fixed-box-with-null-sub-tx", Msgs: []Msg{{Code: 0x06, Payload: &Payload{Tree: nL(boxTxTree(`{"subTxList":[null]}`))}}}},
		// respBlocks: a block range that ends at 2^32-1
		msg("fixed-get-blocks-to-max-height", 0x07, nL(nU(fxCur), nU(1<<32-1))),
		msg("fixed-get-blocks-with-logs-to-max-height", 0x0e, nL(nU(1), nU(1<<32-1))),
		// ConfirmCache.Push / BlockCache.Add call Clear() while holding their own mutex once they hold more than 10240 heights
		{S: "c", Kind: "fixed-confirms-for-10300-distinct-heights", Msgs: []Msg{{Code: 0x09, Payload: &Payload{Tree: nL(&Node{Rnd: 32, Seed: 9}, &Node{Ctr: fxCur + 10 + 1}, &Node{Rnd: 65, Seed: 1})}, Rep: 10300}}},
		{S: "c", Kind: "fixed-orphan-blocks-at-10300-distinct-heights", Msgs: []Msg{{Code: 0x08, Payload: &Payload{Tree: nL(orphanBlock(9, fxCur+10))}, Rep: 10300},
			{Code: 0x08, Payload: &Payload{Tree: nL(orphanBlock(10, fxCur+20000))}, Rep: 14}}},
		// GetCorrectMiner panics on instants before 1e10 ms: a block signed by a deputy with time 0 / 1970
		{S: "d", Kind: "fixed-deputy-signed-block-time-zero", Lazy: "next-block-time-zero-resigned"},
		{S: "d", Kind: "fixed-deputy-signed-block-time-1970", Lazy: "next-block-time-1970-resigned"},
		// unmarshalAndVerifyData: json.Unmarshal("null", &pointer) leaves a nil pointer; reached on the miner path
		{S: "d", Kind: "fixed-modify-signers-data-null", Lazy: "modify-signers-data-null-resigned"},
		// TxPool.addTx formats tx.Amount() in decimal (under the pool lock) for every amount above 500000 LEMO; nothing bounds the size of the number
		{S: "d", Kind: "fixed-tx-amount-of-4MB", Obj: &Obj{What: "tx", Payload: &Payload{Tree: hugeAmountTx(&Node{B: "6553f418"})}}},
		{S: "c", Kind: "fixed-tx-amount-of-4MB", Msgs: []Msg{{Code: 0x06, Payload: &Payload{Tree: nL(hugeAmountTx(&Node{NowPlus: &exp600}))}}}},
		// checkBoxTx again, through the chain entry point
		{S: "d", Kind: "fixed-box-with-null-sub-tx", Obj: &Obj{What: "tx", Payload: &Payload{Tree: boxTxTreeAt(`{"subTxList":[null]}`, 1700000600)}}},
	}
}

// boxTxTree is a transaction of type box whose data is the given JSON document; every other
// field is plain (the pool path checks neither signatures nor balances).
func boxTxTree(doc string) *Node {
	exp := int64(600)
	return nL(nU(10), nU(1), nU(200), &Node{Rnd: 20, Seed: 1}, &Node{}, &Node{}, &Node{}, nU(1000000000), nU(3000000), &Node{}, &Node{},
		nB([]byte(doc)), &Node{NowPlus: &exp}, &Node{}, nL(), nL())
}

// boxTxTreeAt is boxTxTree with a fixed expiration (chain time of the fixture).
func boxTxTreeAt(doc string, exp uint64) *Node {
	t := boxTxTree(doc)
	t.L[12] = nU(exp)
	return t
}

var exp600 = int64(600)

// hugeAmountTx is an ordinary transfer whose amount is a 4 MB number.
func hugeAmountTx(exp *Node) *Node {
	return nL(&Node{}, nU(1), nU(200), &Node{Rnd: 20, Seed: 1}, &Node{}, &Node{Rnd: 20, Seed: 2}, &Node{}, nU(1000000000), nU(100000), &Node{},
		&Node{Fill: 4000000, Byte: 0xab}, &Node{}, exp, &Node{}, nL(), nL())
}
