package main

// Surface d: objects that decode but are absurd, handed straight to the chain's entry
// points the network layer uses: BlockChain.InsertBlock, BlockChain.InsertConfirms,
// Transaction.VerifyTxBody, TxGuard.ExistTx, TxPool.AddTx and (for what the pool accepted)
// the miner path that would pick the transaction up.

import (
	"fmt"
	"time"

	"github.com/LemoFoundationLtd/lemochain-core/chain/types"
	"github.com/LemoFoundationLtd/lemochain-core/common"
	"github.com/LemoFoundationLtd/lemochain-core/common/crypto"
	"github.com/LemoFoundationLtd/lemochain-core/common/rlp"
	"github.com/LemoFoundationLtd/lemochain-core/network"

	"verif/fx"
)

type chainExec struct {
	s      Sink
	f      *chainFx
	gm     *gorMon
	window []Case
}

func newChainExec(s Sink) (*chainExec, error) {
	f, err := newChainFx()
	if err != nil {
		return nil, err
	}
	x := &chainExec{s: s, f: f}
	time.Sleep(50 * time.Millisecond)
	x.gm = newGorMon()
	return x, nil
}

// resignBlock makes the (mutated) block look like the work of a deputy: transaction root
// recomputed, miner = the deputy whose turn it is at the block's time on its parent (else
// deputy 0), header signed with that deputy's key.
func (x *chainExec) resignBlock(b *types.Block) {
	n := x.f.node
	miner := x.f.cl.W.Deputies[0]
	// (the schedule function the fixture asks refuses instants before 1e10 ms by panicking: do not
	// call it from the harness with such a time; the node will get there on its own path)
	if parent := n.BC.GetBlockByHash(b.ParentHash()); parent != nil && int64(b.Time())*1000 >= 1e10 {
		if k, err := n.InTurn(parent.Header, b.Time()); err == nil {
			miner = k
		}
	}
	b.Header.MinerAddress = miner.Addr
	b.Header.TxRoot = b.Txs.MerkleRootSha()
	h := b.Header.Hash()
	sig, err := crypto.Sign(h[:], miner.Priv)
	if err == nil {
		b.Header.SignData = sig
	}
}

func (x *chainExec) resignTx(tx *types.Transaction) (out *types.Transaction) {
	// the signing helpers of the repository are wallet code, not a network path: if they cannot
	// cope with the mutant it simply stays as it is
	defer func() {
		if r := recover(); r != nil {
			out = tx
		}
	}()
	k, ok := x.f.cl.W.KeyByAddr(tx.From())
	if !ok {
		return tx
	}
	fl := fx.Fields(tx)
	fl.Sigs = nil
	t2, err := fl.Tx()
	if err != nil {
		return tx
	}
	signed, err := types.MakeSigner().SignTx(t2, k.Priv)
	if err != nil {
		return tx
	}
	return signed
}

func errClass(e error) string {
	if e == nil {
		return "nil"
	}
	return trimErr(e)
}

func (x *chainExec) exec(cs Case) {
	x.window = append(x.window, cs)
	wit := map[string]interface{}{"window": append([]Case(nil), x.window...)}
	if cs.Lazy != "" && cs.Obj == nil {
		cs = x.materialiseLazy(cs)
		x.window[len(x.window)-1] = cs
	}
	o := cs.Obj
	n := x.f.node
	fx.SetSelf(n.Self)
	raw := o.Payload.bytes()
	a := startAlloc()
	decoded := false
	switch o.What {
	case "block":
		b := new(types.Block)
		if err := rlp.DecodeBytes(raw, b); err != nil {
			x.s.Stat("d_block_undecodable", 1)
			break
		}
		decoded = true
		if o.Resign {
			x.resignBlock(b)
		}
		err := n.BC.InsertBlock(b)
		x.s.Stat("d_blocks_inserted", 1)
		x.s.Seen("d_insert_block_results", errClass(err))
		if err == nil {
			x.s.Stat("d_blocks_accepted", 1)
		}
	case "tx":
		tx := new(types.Transaction)
		if err := rlp.DecodeBytes(raw, tx); err != nil {
			x.s.Stat("d_tx_undecodable", 1)
			break
		}
		decoded = true
		if o.Resign {
			tx = x.resignTx(tx)
		}
		head := n.BC.CurrentBlock()
		t := x.f.nextT
		e1 := tx.VerifyTxBody(x.f.cl.W.ChainID, uint64(t), false)
		e2 := tx.VerifyTxBody(x.f.cl.W.ChainID, uint64(t), true)
		x.s.Stat("d_txs_verified", 1)
		x.s.Seen("d_verify_tx_results", errClass(e1))
		_ = e2
		exists := n.BC.TxGuard().ExistTx(head.Hash(), tx)
		x.s.Stat("d_txguard_queries", 1)
		if exists {
			x.s.Stat("d_txguard_says_exists", 1)
		}
		if e1 == nil && !exists {
			// what handleTxsMsg does next, then what the miner does with the pool
			if err := n.Pool.AddTx(tx); err == nil {
				x.s.Stat("d_txs_pooled", 1)
				picked := n.Pool.GetTxs(t, 100)
				res, err := n.Mine(head, t, picked, "")
				x.s.Stat("d_mined_with_absurd_tx", 1)
				if err == nil {
					x.s.Stat("d_absurd_txs_included", int64(len(res.Block.Txs)))
					x.s.Stat("d_absurd_txs_discarded", int64(len(res.Invalid)))
				} else {
					x.s.Seen("d_mine_errors", errClass(err))
				}
				n.Pool.DelTxs(picked)
			}
		}
	case "confirms":
		var bcf network.BlockConfirms
		if err := rlp.DecodeBytes(raw, &bcf); err != nil {
			x.s.Stat("d_confirms_undecodable", 1)
			break
		}
		decoded = true
		n.BC.InsertConfirms(bcf.Height, bcf.Hash, bcf.Pack)
		x.s.Stat("d_confirm_packets_inserted", 1)
		x.s.Stat("d_confirm_sigs_inserted", int64(len(bcf.Pack)))
	}
	checkAlloc(x.s, "d", a, 1, int64(len(raw)), 0, wit)
	fp := "d/" + cs.Kind
	if !decoded {
		fp += "/undecodable"
	}
	x.s.Seen("d_kinds", cs.Kind)
	x.s.Case(fp, decoded, cs)
}

// groupEnd: the chain must still take its lock and serve reads; goroutines must be gone.
func (x *chainExec) groupEnd() bool {
	wit := map[string]interface{}{"window": append([]Case(nil), x.window...)}
	n := x.f.node
	done := make(chan struct{})
	go func() {
		b1 := n.BC.GetBlockByHeight(1)
		if b1 != nil {
			n.BC.InsertConfirms(1, b1.Hash(), []types.SignData{{}}) // takes the chain lock
		}
		_ = n.BC.CurrentBlock().Height()
		_ = n.BC.HasBlock(common.Hash{})
		close(done)
	}()
	ok := waitCh(done, pmWatchdog)
	if !ok {
		x.s.Violation("C15/node-unresponsive:d:chain-lock-not-released", fmt.Sprintf("InsertConfirms / reads do not return within %v after hostile objects", pmWatchdog), wit)
	}
	x.s.Stat("d_liveness_checks", 1)
	good := x.gm.check(x.s, "d", 4*time.Second, wit)
	x.s.Seen("d_chain_heads_seen", fmt.Sprintf("cur%d/sta%d", n.BC.CurrentBlock().Height(), n.BC.StableBlock().Height()))
	x.window = nil
	return good && ok
}

func (x *chainExec) close() {}

// materialiseLazy builds the fixed-list cases that need the fixture's objects.
func (x *chainExec) materialiseLazy(cs Case) Case {
	switch cs.Lazy {
	case "next-block-time-zero-resigned", "next-block-time-1970-resigned":
		t := treeOf(x.f.next.ShallowCopy())
		t.L[1] = nL() // no transactions: their expiration would be checked against the block time first
		if cs.Lazy == "next-block-time-zero-resigned" {
			t.L[0].L[8] = &Node{}
		} else {
			t.L[0].L[8] = nU(9999999)
		}
		cs.Obj = &Obj{What: "block", Payload: &Payload{Tree: t}, Resign: true, Base: len(x.f.blocks)}
	case "modify-signers-data-null-resigned":
		// a funded user's plain transfer turned into a modify-signers transaction whose data is the JSON document null
		for i := len(x.f.txs) - len(x.f.spare); i < len(x.f.txs); i++ {
			tx := x.f.txs[i]
			if _, ok := x.f.cl.W.KeyByAddr(tx.From()); ok && tx.Type() == 0 && tx.To() != nil {
				t := treeOf(tx)
				t.L[0] = nU(9)
				t.L[8] = nU(2000000)
				t.L[10] = &Node{}
				t.L[11] = nB([]byte("null"))
				cs.Obj = &Obj{What: "tx", Payload: &Payload{Tree: t}, Resign: true, Base: i}
				break
			}
		}
		if cs.Obj == nil {
			cs.Obj = &Obj{What: "tx", Payload: &Payload{Tree: nL()}}
		}
	}
	return cs
}
