package main

// The live small chain surfaces c and d attack: one real node (fixture world of 3 deputies)
// that accepted a few real blocks full of real transactions of the scenario zoo. The chain
// is a function of nothing but constants, so every worker process and every replay builds
// the same one and object indexes in cases (Obj.Base) mean the same thing everywhere.

import (
	"fmt"

	"github.com/LemoFoundationLtd/lemochain-core/chain/types"
	"github.com/LemoFoundationLtd/lemochain-core/common/rlp"

	"verif/fx"
	"verif/fx/run"
	"verif/scn"
)

type chainFx struct {
	cl     *scn.Cluster
	node   *fx.Node
	blocks []*types.Block       // accepted blocks, heights 1..
	next   *types.Block         // a valid block on top of the head that was never inserted
	fork   *types.Block         // a valid sibling of the head (same parent, other time slot), never inserted
	txs    []*types.Transaction // valid transactions: everything in the blocks plus unmined candidates
	spare  types.Transactions   // valid candidates that are in no block (pool material)
	nextT  uint32
}

const fxStableBlocks = 4
const fxBlocks = 6

func newChainFx() (*chainFx, error) {
	scn.SetParams()
	r := run.NewRng(15, 1500)
	cl := scn.NewCluster(r, fx.WorldCfg{Deputies: 3, Users: 10, SlotMs: 3000}, 1, scn.DefaultCfg())
	f := &chainFx{cl: cl, node: cl.Nodes[0]}
	for bi := 0; bi < fxBlocks; bi++ {
		t := cl.NextTime()
		var cands []scn.Cand
		switch bi {
		case 0:
			cands = cl.G.Setup(t)
		case 1:
			cands = cl.G.Setup2(t)
		default:
			cands = cl.G.Next(t, cl.Head.Height()+1, 10)
		}
		res, err := f.node.Mine(cl.Head, t, scn.Txs(cands), "")
		if err != nil {
			return nil, fmt.Errorf("fixture: mine block %d: %v", bi+1, err)
		}
		for i, e := range cl.InsertAll(res.Block) {
			if e != nil {
				return nil, fmt.Errorf("fixture: node %d rejects block %d: %v", i, bi+1, e)
			}
		}
		cl.Adopt(res.Block)
		f.blocks = append(f.blocks, res.Block)
		f.txs = append(f.txs, res.Block.Txs...)
		if bi < fxStableBlocks {
			cl.StabiliseAll()
		}
	}
	// a valid sibling of the head and a valid child of the head, both kept back
	parent := f.blocks[len(f.blocks)-2]
	tf := f.blocks[len(f.blocks)-1].Time() + 7
	if res, err := f.node.Mine(parent, tf, scn.Txs(cl.G.Next(tf, parent.Height()+1, 3)), ""); err == nil {
		f.fork = res.Block
	}
	t := cl.NextTime()
	f.nextT = t
	cands := cl.G.Next(t, cl.Head.Height()+1, 8)
	res, err := f.node.Mine(cl.Head, t, scn.Txs(cands), "")
	if err != nil {
		return nil, fmt.Errorf("fixture: mine next block: %v", err)
	}
	f.next = res.Block
	f.txs = append(f.txs, res.Block.Txs...)
	f.spare = scn.Txs(cl.G.Next(t, cl.Head.Height()+1, 12))
	f.txs = append(f.txs, f.spare...)
	return f, nil
}

func (f *chainFx) close() {
	if f != nil && f.cl != nil {
		f.cl.Close()
	}
}

// baseBlocks are the blocks mutation starts from: every accepted block, the withheld child
// and the withheld sibling.
func (f *chainFx) baseBlocks() []*types.Block {
	out := append([]*types.Block{}, f.blocks...)
	out = append(out, f.next)
	if f.fork != nil {
		out = append(out, f.fork)
	}
	return out
}

func mustRLP(v interface{}) []byte {
	b, err := rlp.EncodeToBytes(v)
	if err != nil {
		panic(err)
	}
	return b
}

func treeOf(v interface{}) *Node {
	n, err := parseRLP(mustRLP(v))
	if err != nil {
		panic(err)
	}
	return n
}
