package main

// Surfaces a (before / during the encryption handshake; e, the same with the node as the
// dialling side, is in dial.go) and b (after a real handshake):
// the attacker owns one end of a net.Pipe, the node's real code owns the other end and is
// run in exactly the goroutine structure p2p.Server uses: HandleConn (NewPeer, DoHandshake
// as server, close on error) in one goroutine, then Peer.Run (heartbeat loop + read loop)
// and a consumer draining Peer.ReadMsg like the ProtocolManager does.

import (
	"bytes"
	"crypto/aes"
	"crypto/cipher"
	"crypto/elliptic"
	"crypto/rand"
	"encoding/binary"
	"encoding/hex"
	"fmt"
	"io"
	"net"
	"sync"
	"sync/atomic"
	"time"

	"github.com/LemoFoundationLtd/lemochain-core/common/crypto"
	"github.com/LemoFoundationLtd/lemochain-core/common/crypto/ecies"
	"github.com/LemoFoundationLtd/lemochain-core/network/p2p"

	"verif/fx"
)

const (
	wireWatchdog = 30 * time.Second // generous: nothing legitimate takes longer than the node's 25 s frame read timeout
	holdTime     = 120 * time.Millisecond
	probeCode    = 0x1e
)

var probePayload = []byte("verif-c15-probe")

type wireExec struct {
	s       Sink
	nodeKey fx.Key
	nodeID  p2p.NodeID
	attKey  fx.Key
	attID   p2p.NodeID
	gm      *gorMon
}

func newWireExec(s Sink) *wireExec {
	x := &wireExec{s: s, nodeKey: fx.NewKey("c15-node", 0), attKey: fx.NewKey("c15-attacker", 0)}
	copy(x.nodeID[:], x.nodeKey.NodeID)
	copy(x.attID[:], x.attKey.NodeID)
	if err := eciesSelfTest(x.nodeKey.Priv); err != nil {
		s.Inconclusive(err.Error())
	}
	if err := x.checkWireConstants(); err != nil {
		s.Inconclusive(err.Error())
	}
	// warm up lazily initialised globals (curve tables, metrics) so that they are not charged to the first case
	x.exchange(nil, nil)
	x.exchangeDial(nil, nil)
	x.gm = newGorMon()
	return x
}

// captureConn records what the client handshake writes and fails the read.
type captureConn struct{ bytes.Buffer }

func (c *captureConn) Read(p []byte) (int, error) { return 0, io.EOF }

// validHello is a complete, valid first handshake message of the repository's own client code.
func (x *wireExec) validHello() []byte {
	cc := &captureConn{}
	_, _ = p2p.VerifClientEncHandshake(cc, x.attKey.Priv, &x.nodeID)
	return cc.Bytes()
}

// helloPlain builds the plaintext of a valid first handshake message with public API only
// (same construction as the client code), so that single fields can be replaced.
func (x *wireExec) helloPlain() (sig, pub, nonce []byte) {
	nonce = make([]byte, 32)
	_, _ = rand.Read(nonce)
	rp, _ := x.nodeID.PubKey()
	token, err := ecies.ImportECDSA(x.attKey.Priv).GenerateShared(ecies.ImportECDSAPublic(rp), 16, 16)
	if err != nil {
		panic(err)
	}
	signed := make([]byte, len(token))
	for i := range token {
		signed[i] = token[i] ^ nonce[i]
	}
	eph, err := ecies.GenerateKey(rand.Reader, crypto.S256(), nil)
	if err != nil {
		panic(err)
	}
	sig, err = crypto.Sign(signed, eph.ExportECDSA())
	if err != nil {
		panic(err)
	}
	return sig, x.attKey.NodeID, nonce
}

func cbcRaw(key, plain []byte) []byte {
	blk, err := aes.NewCipher(key)
	if err != nil {
		panic(err)
	}
	out := make([]byte, len(plain))
	cipher.NewCBCEncrypter(blk, key[:blk.BlockSize()]).CryptBlocks(out, plain)
	return out
}

// materialise turns the script into the byte stream, generating at most limit bytes
// (limit < 0: everything). key is the session key (nil before the handshake).
func (x *wireExec) materialise(w *WireScript, key []byte, limit int64) ([]byte, error) {
	var out []byte
	full := func() bool { return limit >= 0 && int64(len(out)) >= limit }
	for _, f := range w.Frames {
		if full() {
			break
		}
		var body []byte
		lazy := []Seg(nil)
		switch f.Kind {
		case "raw":
			lazy = f.Plain
		case "hello":
			h := x.validHello()
			body = h[6:]
		case "hello-mut":
			// valid plaintext with the fields of Payload.Tree overriding: tree = [sig?, pub?, nonce?] where an
			// item with B=="" and not a list means "keep the valid value"
			sig, pub, nonce := x.helloPlain()
			items := []*Node{nB(sig), nB(pub), nB(nonce)}
			if f.Payload != nil && f.Payload.Tree != nil {
				for i, ch := range f.Payload.Tree.L {
					if ch.isList() || ch.B != "" || ch.Rnd > 0 || ch.Fill > 0 {
						if i < len(items) {
							items[i] = ch
						} else {
							items = append(items, ch)
						}
					}
				}
			}
			plain := nL(items...).enc()
			rp, _ := x.nodeID.PubKey()
			ct, err := ecies.Encrypt(rand.Reader, ecies.ImportECDSAPublic(rp), plain, nil, nil)
			if err != nil {
				return nil, err
			}
			body = ct
		case "ecies":
			plain := segBytes(f.Plain)
			if f.Payload != nil {
				plain = append(plain, f.Payload.bytes()...)
			}
			rp, _ := x.nodeID.PubKey()
			ct, err := ecies.Encrypt(rand.Reader, ecies.ImportECDSAPublic(rp), plain, nil, nil)
			if err != nil {
				return nil, err
			}
			body = ct
		case "ecies-raw":
			// MAC-valid (or Mac-chosen) envelope whose encrypted part is exactly the given bytes
			em := segBytes(f.Plain)
			if f.Payload != nil {
				em = append(em, f.Payload.bytes()...)
			}
			rp, _ := x.nodeID.PubKey()
			ct, err := eciesRaw(rp, em, f.Mac)
			if err != nil {
				return nil, err
			}
			body = ct
		case "resp", "resp-mut":
			// the response of a listener to the node's hello: [RandomPubKey(64), RespNonce(32)] encrypted to the
			// dialler; resp-mut: items of Payload.Tree replace the valid ones (empty non-list item = keep)
			eph, err := ecies.GenerateKey(rand.Reader, crypto.S256(), nil)
			if err != nil {
				return nil, err
			}
			nonce := make([]byte, 32)
			_, _ = rand.Read(nonce)
			items := []*Node{nB(elliptic.Marshal(crypto.S256(), eph.PublicKey.X, eph.PublicKey.Y)[1:]), nB(nonce)}
			if f.Kind == "resp-mut" && f.Payload != nil && f.Payload.Tree != nil {
				var kept []*Node
				for i, ch := range f.Payload.Tree.L {
					switch {
					case ch.Drop:
						if i < len(items) {
							items[i] = nil
						}
					case ch.isList() || ch.B != "" || ch.Rnd > 0 || ch.Fill > 0 || ch.Empty:
						if i < len(items) {
							items[i] = ch
						} else {
							items = append(items, ch)
						}
					}
				}
				for _, it := range items {
					if it != nil {
						kept = append(kept, it)
					}
				}
				items = kept
			}
			rp, _ := x.nodeID.PubKey()
			ct, err := ecies.Encrypt(rand.Reader, ecies.ImportECDSAPublic(rp), nL(items...).enc(), nil, nil)
			if err != nil {
				return nil, err
			}
			body = ct
		case "aes":
			if key == nil {
				return nil, fmt.Errorf("aes frame before the handshake")
			}
			payload := segBytes(f.Plain)
			if f.Payload != nil {
				payload = append(payload, f.Payload.bytes()...)
			}
			fr, err := p2p.VerifPackFrame(key, p2p.MsgCode(f.Code), payload)
			if err != nil {
				return nil, err
			}
			body = fr[6:]
		case "cbc":
			if key == nil {
				return nil, fmt.Errorf("cbc frame before the handshake")
			}
			plain := segBytes(f.Plain)
			if len(plain)%16 != 0 {
				return nil, fmt.Errorf("cbc plaintext not block aligned")
			}
			body = cbcRaw(key, plain)
		default:
			return nil, fmt.Errorf("unknown frame kind %q", f.Kind)
		}
		magic := []byte{0x5a, 0x48}
		if f.Magic != "" {
			m, err := hex.DecodeString(f.Magic)
			if err != nil {
				return nil, err
			}
			magic = m
		}
		out = append(out, magic...)
		if len(magic) == 2 { // a shorter / longer "magic" is a raw prefix experiment without length field
			n := f.Len
			if n < 0 {
				n = int64(len(body) + segLen(lazy))
			}
			var lb [4]byte
			binary.BigEndian.PutUint32(lb[:], uint32(n))
			out = append(out, lb[:]...)
		}
		out = append(out, body...)
		for _, sg := range lazy {
			if full() {
				break
			}
			if sg.Fill > 0 && limit >= 0 {
				need := limit - int64(len(out))
				if int64(sg.Fill) > need {
					sg.Fill = int(need)
				}
			}
			out = append(out, segBytes([]Seg{sg})...)
		}
	}
	if limit >= 0 && int64(len(out)) > limit {
		out = out[:limit]
	}
	return out, nil
}

// dlConn is the node's end of the pipe; it remembers whether the node has a read deadline
// armed (recorded as evidence: a read without deadline lasts as long as the remote likes).
type dlConn struct {
	net.Conn
	readArmed int32
}

func (c *dlConn) note(t time.Time) {
	v := int32(1)
	if t.IsZero() {
		v = 0
	}
	atomic.StoreInt32(&c.readArmed, v)
}
func (c *dlConn) SetDeadline(t time.Time) error     { c.note(t); return c.Conn.SetDeadline(t) }
func (c *dlConn) SetReadDeadline(t time.Time) error { c.note(t); return c.Conn.SetReadDeadline(t) }

// waitsUnbounded decides whether the node sits in a read that nothing bounds: the remote is silent, the node has
// not closed the connection and no read deadline is armed on its end. Between the end of the handshake (which
// clears its deadline) and the first frame read of Peer.Run the deadline is legitimately unarmed for an instant, so
// the state has to persist over a generous period before it counts.
func waitsUnbounded(sv *srvSide, nodeClosed *int32) bool {
	deadline := time.Now().Add(5 * time.Second)
	for time.Now().Before(deadline) {
		if atomic.LoadInt32(&sv.conn.readArmed) != 0 || atomic.LoadInt32(nodeClosed) != 0 {
			return false
		}
		time.Sleep(2 * time.Millisecond)
	}
	return true
}

// srvSide is the node's end of one connection, driven like p2p.Server drives it.
type srvSide struct {
	peer     p2p.IPeer
	conn     *dlConn
	hsErr    chan error    // result of DoHandshake
	runDone  chan struct{} // Peer.Run returned
	consumed chan struct{} // consumer goroutine ended
	msgs     int64
	probes   int64
	codes    sync.Map
}

// remote == nil: the node is the listener (Server.listenLoop -> HandleConn(fd, nil)); otherwise
// it is the dialler (DialManager.runDialTask -> HandleConn(conn, nodeID)).
func (x *wireExec) serve(sconn net.Conn, remote *p2p.NodeID) *srvSide {
	sv := &srvSide{hsErr: make(chan error, 1), runDone: make(chan struct{}), consumed: make(chan struct{})}
	sv.conn = &dlConn{Conn: sconn}
	sv.peer = p2p.NewPeer(sv.conn)
	go func() {
		// Server.HandleConn
		err := sv.peer.DoHandshake(x.nodeKey.Priv, remote)
		if err != nil {
			_ = sv.conn.Close()
			sv.hsErr <- err
			close(sv.runDone)
			close(sv.consumed)
			return
		}
		sv.hsErr <- nil
		// ProtocolManager side: drain ReadMsg
		go func() {
			defer close(sv.consumed)
			for {
				m, err := sv.peer.ReadMsg()
				if err != nil {
					return
				}
				atomic.AddInt64(&sv.msgs, 1)
				sv.codes.Store(uint32(m.Code), true)
				if uint32(m.Code) == probeCode && bytes.Equal(m.Content, probePayload) {
					atomic.AddInt64(&sv.probes, 1)
				}
			}
		}()
		// Server.runPeer
		_ = sv.peer.Run()
		sv.peer.Close()
		close(sv.runDone)
	}()
	return sv
}

func waitCh(ch <-chan struct{}, d time.Duration) bool {
	select {
	case <-ch:
		return true
	case <-time.After(d):
		return false
	}
}

// exchange runs one connection. handshake=false: the script is sent instead of a handshake
// (surface a). handshake=true: the repository's own client handshake runs first, then the
// script is sent as raw bytes (surface b). cs == nil: warm-up with an honest exchange.
func (x *wireExec) exchange(cs *Case, wit interface{}) {
	surface := "b"
	if cs != nil {
		surface = cs.S
	}
	cconn, sconn := net.Pipe()
	sv := x.serve(sconn, nil)
	var nodeClosed int32
	drained := make(chan struct{})
	var received int64
	startDrain := func() {
		go func() {
			defer close(drained)
			buf := make([]byte, 4096)
			for {
				n, err := cconn.Read(buf)
				atomic.AddInt64(&received, int64(n))
				if err != nil {
					atomic.StoreInt32(&nodeClosed, 1)
					return
				}
			}
		}()
	}
	var key []byte
	if cs == nil || cs.S == "b" {
		cp := p2p.NewPeer(cconn)
		if err := cp.DoHandshake(x.attKey.Priv, &x.nodeID); err != nil {
			x.s.Inconclusive("honest client handshake failed: " + err.Error())
			cconn.Close()
			return
		}
		key = p2p.VerifAesKey(cp)
		if e := <-sv.hsErr; e != nil {
			x.s.Inconclusive("server side of an honest handshake failed: " + e.Error())
			cconn.Close()
			return
		}
		sv.hsErr <- nil
	}
	startDrain()
	script := &WireScript{Cut: -1, End: "probe"}
	if cs != nil {
		script = cs.Wire
	}
	stream, err := x.materialise(script, key, script.Cut)
	if err != nil {
		x.s.Inconclusive("cannot materialise case: " + err.Error())
		cconn.Close()
		return
	}
	wantProbe := key != nil && script.End == "probe"
	if wantProbe {
		fr, _ := p2p.VerifPackFrame(key, p2p.MsgCode(probeCode), probePayload)
		stream = append(stream, fr...)
	}
	// write in chunks; a write fails as soon as the node closed its end
	a := startAlloc() // from here on the harness allocates nothing of size
	sent := x.writeChunks(cconn, stream, script.Chunks, surface, wit)
	stream = nil
	// what does the node do with it?
	outcome := "kept"
	if wantProbe {
		deadline := time.Now().Add(wireWatchdog)
		for atomic.LoadInt64(&sv.probes) == 0 && atomic.LoadInt32(&nodeClosed) == 0 && time.Now().Before(deadline) {
			time.Sleep(200 * time.Microsecond)
		}
		switch {
		case atomic.LoadInt64(&sv.probes) > 0:
			outcome = "kept-in-sync"
		case atomic.LoadInt32(&nodeClosed) != 0:
			outcome = "closed-by-node"
		default:
			x.s.Violation("C15/node-unresponsive:"+surface+":neither-processes-nor-closes",
				fmt.Sprintf("after the input the node neither delivered a following well-formed frame nor closed the connection within %v", wireWatchdog), wit)
			outcome = "stuck"
		}
	} else if script.End == "hold" {
		deadline := time.Now().Add(holdTime)
		for atomic.LoadInt32(&nodeClosed) == 0 && time.Now().Before(deadline) {
			time.Sleep(200 * time.Microsecond)
		}
		if atomic.LoadInt32(&nodeClosed) != 0 {
			outcome = "closed-by-node"
		} else {
			outcome = "node-waits"
			if waitsUnbounded(sv, &nodeClosed) {
				x.s.Stat(surface+"_node_waits_without_read_deadline", 1)
				x.s.Violation("C15/node-unresponsive:"+surface+":waits-for-remote-without-read-deadline",
					"the remote went silent and the node waits for it in a read with no deadline armed: the goroutine (for a dialled connection: the only dialling goroutine) is held for as long as the remote likes", wit)
			} else {
				x.s.Stat(surface+"_node_waits_under_a_read_deadline", 1)
			}
		}
	} else {
		if atomic.LoadInt32(&nodeClosed) != 0 {
			outcome = "closed-by-node"
		} else {
			outcome = "open-at-remote-close"
		}
	}
	_ = cconn.Close()
	// liveness: everything the node started for this connection must finish now
	ok := waitCh(sv.runDone, wireWatchdog) && waitCh(sv.consumed, wireWatchdog) && waitCh(drained, wireWatchdog)
	if cs == nil {
		return
	}
	x.s.Stat("connections_"+surface, 1)
	x.s.Stat("bytes_sent_"+surface, sent)
	x.s.Stat("bytes_received_from_node_"+surface, atomic.LoadInt64(&received))
	x.s.Stat("frames_delivered_to_consumer", atomic.LoadInt64(&sv.msgs))
	x.s.Seen("connection_outcomes_"+surface, outcome)
	x.s.Stat("outcome_"+surface+"_"+outcome, 1)
	sv.codes.Range(func(k, v interface{}) bool {
		x.s.Seen("codes_delivered_by_peer_run", fmt.Sprintf("0x%02x", k.(uint32)))
		return true
	})
	if cs.S == "a" {
		select {
		case e := <-sv.hsErr:
			if e == nil {
				x.s.Stat("a_handshakes_accepted", 1)
			} else {
				x.s.Stat("a_handshakes_refused", 1)
				x.s.Seen("a_handshake_errors", trimErr(e))
			}
		default:
			x.s.Stat("a_handshake_result_missing", 1)
		}
	}
	if !ok {
		x.s.Violation("C15/node-unresponsive:"+surface+":connection-goroutines-do-not-end",
			fmt.Sprintf("handshake / Peer.Run / reader still running %v after the remote closed the connection", wireWatchdog), wit)
	}
	checkAlloc(x.s, surface, a, len(script.Frames), sent, atomic.LoadInt64(&received), wit)
}

// writeChunks writes the stream in the script's write sizes; a write fails as soon as the
// node closed its end. It returns the number of bytes the node took.
func (x *wireExec) writeChunks(cconn net.Conn, stream []byte, chunks []int, surface string, wit interface{}) int64 {
	sent := int64(0)
	ci, nw := 0, 0
	for off := 0; off < len(stream); {
		n := len(stream) - off
		if len(chunks) > 0 {
			c := chunks[ci%len(chunks)]
			ci++
			if c < 1 {
				c = 1
			}
			if c < n {
				n = c
			}
		}
		if nw%512 == 0 { // arming the deadline allocates a timer: not for every two-byte write
			_ = cconn.SetWriteDeadline(time.Now().Add(wireWatchdog))
		}
		nw++
		m, err := cconn.Write(stream[off : off+n])
		sent += int64(m)
		off += m
		if err != nil {
			if ne, ok := err.(net.Error); ok && ne.Timeout() {
				x.s.Violation("C15/node-unresponsive:"+surface+":stops-reading-without-closing",
					fmt.Sprintf("the node neither read nor closed the connection for %v", wireWatchdog), wit)
			}
			break
		}
	}
	return sent
}

func trimErr(e error) string {
	s := e.Error()
	s = reHexNum.ReplaceAllString(s, "0x?")
	s = reNum.ReplaceAllString(s, "N")
	if len(s) > 60 {
		s = s[:60]
	}
	return s
}

// exchangeNodeWrite: the remote stalls while the node writes. After an honest handshake the node sends one message
// through Peer.WriteMsg under a short write deadline; the remote takes only part of the frame. The write has to come back
// (with an error or not) and everything the node started for the connection has to end when the remote leaves.
func (x *wireExec) exchangeNodeWrite(cs *Case, wit interface{}) {
	cconn, sconn := net.Pipe()
	sv := x.serve(sconn, nil)
	cp := p2p.NewPeer(cconn)
	if err := cp.DoHandshake(x.attKey.Priv, &x.nodeID); err != nil {
		x.s.Inconclusive("honest client handshake failed: " + err.Error())
		cconn.Close()
		return
	}
	if e := <-sv.hsErr; e != nil {
		x.s.Inconclusive("server side of an honest handshake failed: " + e.Error())
		cconn.Close()
		return
	}
	sv.hsErr <- nil
	script := cs.Wire
	// the remote takes RemoteReads bytes, then nothing more
	took := make(chan struct{})
	go func() {
		defer close(took)
		if script.RemoteReads > 0 {
			_, _ = io.ReadFull(cconn, make([]byte, script.RemoteReads))
		}
	}()
	payload := make([]byte, script.NodeWrite)
	for i := range payload {
		payload[i] = byte(i)
	}
	done := make(chan error, 1)
	go func() {
		sv.peer.SetWriteDeadline(60 * time.Millisecond)
		done <- sv.peer.WriteMsg(p2p.MsgCode(probeCode), payload)
	}()
	x.s.Stat("b_node_writes_to_a_stalling_remote", 1)
	select {
	case err := <-done:
		if err != nil {
			x.s.Stat("b_node_write_returned_an_error", 1)
			x.s.Seen("b_node_write_errors", trimErr(err))
		} else {
			x.s.Stat("b_node_write_completed", 1)
		}
	case <-time.After(wireWatchdog):
		x.s.Violation("C15/node-unresponsive:b:write-to-stalled-remote-never-returns",
			fmt.Sprintf("the remote took %d bytes of a frame and stopped reading; the node's WriteMsg (write deadline 60 ms) did not return within %v", script.RemoteReads, wireWatchdog), wit)
	}
	_ = cconn.Close()
	<-took
	if !(waitCh(sv.runDone, wireWatchdog) && waitCh(sv.consumed, wireWatchdog)) {
		x.s.Violation("C15/node-unresponsive:b:connection-goroutines-do-not-end",
			fmt.Sprintf("Peer.Run / reader still running %v after the remote closed a connection on which a write of the node had stalled", wireWatchdog), wit)
	}
	x.s.Stat("connections_b", 1)
}

func (x *wireExec) exec(cs Case) {
	wit := map[string]interface{}{"case": cs}
	if cs.S == "e" {
		x.exchangeDial(&cs, wit)
	} else if cs.S == "b" && cs.Wire != nil && cs.Wire.NodeWrite > 0 {
		x.exchangeNodeWrite(&cs, wit)
	} else {
		x.exchange(&cs, wit)
	}
	nt := cs.Wire != nil && (len(cs.Wire.Frames) > 0)
	x.s.Case(cs.S+"/"+cs.Kind, nt, cs)
}
