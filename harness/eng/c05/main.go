// C05 — LEMO conservation, exact gas, no negative balance. Conservation monitor over
// per-transaction balance deltas obtained by running the real miner path on every prefix of
// a block's transaction list, plus whole-block checks on the accepted block.
package main

import (
	"encoding/json"
	"fmt"
	"math/big"

	"github.com/LemoFoundationLtd/lemochain-core/chain/account"
	"github.com/LemoFoundationLtd/lemochain-core/chain/deputynode"
	"github.com/LemoFoundationLtd/lemochain-core/chain/params"
	"github.com/LemoFoundationLtd/lemochain-core/chain/types"
	"github.com/LemoFoundationLtd/lemochain-core/chain/vm"
	"github.com/LemoFoundationLtd/lemochain-core/common"
	"github.com/LemoFoundationLtd/lemochain-core/common/crypto"

	"verif/fx"
	"verif/fx/run"
	"verif/scn"
)

func batches(tier string) int { return 16 }

type balances map[common.Address]*big.Int

func readBalances(src fx.AccountSource, u *fx.Universe) balances {
	out := balances{}
	for _, a := range u.Addrs() {
		out[a] = src.GetAccount(a).GetBalance()
	}
	return out
}

func sum(b balances) *big.Int {
	s := new(big.Int)
	for _, v := range b {
		s.Add(s, v)
	}
	return s
}

// incomeOf reads the miner's income address the way the statement describes it: the income
// address registered in the miner's candidate profile.
func incomeOf(src fx.AccountSource, miner common.Address) (common.Address, bool) {
	s := src.GetAccount(miner).GetCandidateState(types.CandidateKeyIncomeAddress)
	if s == "" {
		return common.Address{}, false
	}
	a, err := common.StringToAddress(s)
	if err != nil {
		return common.Address{}, false
	}
	return a, true
}

// subTxs returns the sub transactions of a box as recorded in the (mined) box payload.
func subTxs(tx *types.Transaction) types.Transactions {
	if tx.Type() != params.BoxTx {
		return nil
	}
	box, err := types.GetBox(tx.Data())
	if err != nil {
		return nil
	}
	return box.SubTxList
}

// expectedRewards recomputes the term rewards a reward block must issue, independently:
// floor(total*votes/sumVotes) rounded down to 1 LEMO, equal split if nobody has votes.
func expectedRewards(n *fx.Node, blk *types.Block) (*big.Int, string) {
	if !deputynode.IsRewardBlock(blk.Height()) {
		return new(big.Int), ""
	}
	// the term that just ended signed height-1
	termIdx := deputynode.GetSignerTermIndexByHeight(blk.Height() - 1)
	snap := n.BC.GetBlockByHeight(termIdx * params.TermDuration)
	if snap == nil {
		return nil, "snapshot block not found"
	}
	nodes := snap.DeputyNodes
	if len(nodes) > n.DM.DeputyCount {
		// all nodes of the record are paid (TermRecord.Nodes), not only the first DeputyCount
	}
	// reward setting as stored after this block
	am := account.NewManager(blk.Hash(), n.DB)
	raw, err := am.GetAccount(params.TermRewardContract).GetStorageState(params.TermRewardContract.Hash())
	if err != nil {
		return nil, err.Error()
	}
	total := new(big.Int)
	if len(raw) > 0 {
		m := map[string]struct {
			Value string `json:"value"`
		}{}
		if err := json.Unmarshal(raw, &m); err != nil {
			return nil, "reward map: " + err.Error()
		}
		if r, ok := m[fmt.Sprint(termIdx)]; ok {
			total.SetString(r.Value, 10)
		}
	}
	if total.Sign() == 0 {
		return new(big.Int), ""
	}
	sumVotes := new(big.Int)
	for _, d := range nodes {
		sumVotes.Add(sumVotes, d.Votes)
	}
	out := new(big.Int)
	one := fx.LEMO(1)
	for _, d := range nodes {
		r := new(big.Int)
		if sumVotes.Sign() == 0 {
			r.Div(total, big.NewInt(int64(len(nodes))))
		} else {
			r.Mul(total, d.Votes)
			r.Div(r, sumVotes)
		}
		r.Sub(r, new(big.Int).Mod(r, one))
		out.Add(out, r)
	}
	return out, ""
}

type txView struct {
	hash            string
	typ             uint16
	own, subGas     uint64
	boxDeviation    *big.Int
	sumDelta, sumRs *big.Int
}

func checkStep(c *run.Ctx, cl *scn.Cluster, t uint32, cands []scn.Cand) *types.Block {
	A := cl.Nodes[0]
	parent := cl.Head
	viol := func(class, msg string) { c.Violation("C05/"+class, msg, cl.Witness(t, cands, msg)) }
	full, err := A.Mine(parent, t, scn.Txs(cands), "")
	if err != nil {
		c.Note("mine failed: " + err.Error())
		return nil
	}
	blk := full.Block
	cl.G.U.Block(blk)
	U := cl.G.U
	inc := scn.Included(blk)
	var survivors []scn.Cand
	for _, cd := range cands {
		if inc[cd.Tx.Hash()] {
			survivors = append(survivors, cd)
		}
	}
	reward := deputynode.IsRewardBlock(blk.Height())
	// state after the empty prefix (Finalize effects only)
	var curIncome common.Address
	var curHasIncome bool
	mineBal := func(list []scn.Cand) (balances, *types.Block, bool) {
		r, err := A.Mine(parent, t, scn.Txs(list), "")
		if err != nil {
			return nil, nil, false
		}
		c.Stat("prefix_executions", 1)
		U.Block(r.Block)
		// fees are credited at the end of the block to the income address registered *then*
		curIncome, curHasIncome = incomeOf(A.BC.AccountManager(), r.Block.MinerAddress())
		if curHasIncome {
			U.Addr(curIncome)
		}
		return readBalances(A.BC.AccountManager(), U), r.Block, true
	}
	prev, _, ok := mineBal(nil)
	if !ok {
		return nil
	}
	income, hasIncome := curIncome, curHasIncome
	cumFees := new(big.Int)
	for i := range survivors {
		prevIncome, prevHas, prevCum := income, hasIncome, new(big.Int).Set(cumFees)
		cur, pblk, ok := mineBal(survivors[:i+1])
		if !ok || len(pblk.Txs) != i+1 {
			c.Stat("prefix_not_reproducible", 1)
			break
		}
		// re-read prev over the possibly extended universe
		if len(cur) != len(prev) {
			prev, _, ok = mineBal(survivors[:i])
			cur, pblk, _ = mineBal(survivors[:i+1])
			if !ok {
				break
			}
		}
		income, hasIncome = curIncome, curHasIncome
		tx := pblk.Txs[i]
		c.Stat("txs_checked", 1)
		c.Seen("tx_types_checked", fmt.Sprint(tx.Type()))
		subs := subTxs(tx)
		var subGas uint64
		feeDebit := map[common.Address]*big.Int{}
		fees := new(big.Int)
		addFee := func(p common.Address, gas uint64, price *big.Int) {
			f := new(big.Int).Mul(new(big.Int).SetUint64(gas), price)
			if feeDebit[p] == nil {
				feeDebit[p] = new(big.Int)
			}
			feeDebit[p].Add(feeDebit[p], f)
			fees.Add(fees, f)
		}
		for _, s := range subs {
			subGas += s.GasUsed()
			addFee(s.GasPayer(), s.GasUsed(), s.GasPrice())
			if s.GasUsed() > s.GasLimit() {
				viol("gas-used-exceeds-limit", fmt.Sprintf("sub tx type %d used %d of limit %d", s.Type(), s.GasUsed(), s.GasLimit()))
			}
		}
		if tx.GasUsed() < subGas {
			viol("box-gas-less-than-subtxs", fmt.Sprintf("box gasUsed %d < sum of sub-tx gas %d", tx.GasUsed(), subGas))
			break
		}
		own := tx.GasUsed() - subGas
		addFee(tx.GasPayer(), own, tx.GasPrice())
		if own > tx.GasLimit() {
			viol("gas-used-exceeds-limit", fmt.Sprintf("tx type %d used %d (own part) of limit %d", tx.Type(), own, tx.GasLimit()))
		}
		// residual deltas: remove the fee flows the statement prescribes
		sumRes := new(big.Int)
		res := map[common.Address]*big.Int{}
		for a, v := range cur {
			d := new(big.Int).Sub(v, prev[a])
			if fd := feeDebit[a]; fd != nil {
				d.Add(d, fd)
			}
			if hasIncome && a == income {
				d.Sub(d, new(big.Int).Add(prevCum, fees))
			}
			if prevHas && a == prevIncome {
				d.Add(d, prevCum)
			}
			if d.Sign() != 0 {
				res[a] = d
			}
			sumRes.Add(sumRes, d)
			if v.Sign() < 0 {
				viol("negative-balance", fmt.Sprintf("balance of %s is %s", a.Hex(), v.String()))
			}
		}
		cumFees.Add(cumFees, fees)
		if !hasIncome || !prevHas {
			// fees vanish when the miner has no income address (the code logs an error)
			c.Stat("miner_without_income_address", 1)
			prev = cur
			continue
		}
		kind := fmt.Sprintf("txtype-%d", tx.Type())
		rewardTouch := reward && tx.To() != nil && *tx.To() == params.TermRewardContract
		if sumRes.Sign() > 0 && !rewardTouch {
			dev := new(big.Int).Mul(new(big.Int).SetUint64(subGas), tx.GasPrice())
			if tx.Type() == params.BoxTx && subGas > 0 && sumRes.Cmp(dev) == 0 {
				viol("box-subtx-gas-credited-twice", fmt.Sprintf("box with %d sub-txs: sum of all balances grows by subGas*boxPrice = %s (sub-tx gas credited to the miner by RunBoxTxs and again as part of the box's gasUsed)", len(subs), dev.String()))
				// continue with the deviation removed
				sumRes.Sub(sumRes, dev)
				if hasIncome {
					if res[income] != nil {
						res[income].Sub(res[income], dev)
						if res[income].Sign() == 0 {
							delete(res, income)
						}
					}
				}
			} else {
				viol("lemo-created:"+kind, fmt.Sprintf("sum of balance changes beyond prescribed fee flows is +%s for a tx of type %d", sumRes.String(), tx.Type()))
			}
		}
		// A failure event at the callee address proves a top-level failure only if the callee cannot
		// re-enter itself (inner failing frames emit the same event); so the clause is judged for the
		// templates whose top-level outcome is known, and their failure event is required.
		failed := false
		switch survivors[i].Kind {
		case "call-reverter", "call-loop", "call-invalid":
			failed = true
			if !topLevelFailed(pblk, tx) {
				viol("failing-template-left-no-failure-event", "a call that must fail ("+survivors[i].Kind+") recorded no platform failure event")
			}
		}
		// plain transfer = recipient without code, neither at the parent nor (created earlier in this block) in the state this prefix leaves
		plainTransfer := tx.Type() == params.OrdinaryTx && tx.To() != nil && !hasCode(A, parent, *tx.To()) && vm.PrecompiledContracts[*tx.To()] == nil
		if plainTransfer {
			if code, err := A.BC.AccountManager().GetAccount(*tx.To()).GetCode(); err != nil || len(code) > 0 || A.BC.AccountManager().GetAccount(*tx.To()).GetSuicide() {
				plainTransfer = false
			}
		}
		switch {
		case tx.Type() == params.BoxTx || rewardTouch:
			// atomic group: only conservation judged above
		case failed:
			if len(res) != 0 {
				viol("failed-tx-moved-funds:"+kind, fmt.Sprintf("tx failed (platform failure event) but balances beyond gas changed: %v", resStr(res)))
			}
			c.Stat("failed_txs_checked", 1)
		case plainTransfer:
			want := map[common.Address]*big.Int{}
			if tx.From() != *tx.To() && tx.Amount().Sign() != 0 {
				want[tx.From()] = new(big.Int).Neg(tx.Amount())
				want[*tx.To()] = tx.Amount()
			}
			if !sameRes(res, want) {
				viol("transfer-amount-wrong", fmt.Sprintf("plain transfer of %s: residual deltas %v", tx.Amount().String(), resStr(res)))
			}
			c.Stat("plain_transfers_checked", 1)
		case tx.Type() == params.RegisterTx:
			// deposit moves between the candidate and the deposit pool only
			for a := range res {
				if a != tx.From() && a != params.DepositPoolAddress {
					viol("register-moved-third-party-funds", fmt.Sprintf("register tx changed %s: %v", a.Hex(), resStr(res)))
				}
			}
			if sumRes.Sign() != 0 {
				viol("register-not-conserving", "register tx residual sum "+sumRes.String())
			}
		case tx.Type() == params.VoteTx || tx.Type() == params.CreateAssetTx || tx.Type() == params.IssueAssetTx || tx.Type() == params.ReplenishAssetTx ||
			tx.Type() == params.ModifyAssetTx || tx.Type() == params.ModifySignersTx:
			if len(res) != 0 {
				viol("non-value-tx-moved-funds:"+kind, fmt.Sprintf("tx type %d moved LEMO beyond gas: %v", tx.Type(), resStr(res)))
			}
		}
		prev = cur
	}
	// a candidate that is not included costs nothing: compare survivors-only with all candidates
	if len(survivors) != len(cands) {
		balAll := readBalancesAfter(A, parent, t, cands, U, c)
		balSurv := readBalancesAfter(A, parent, t, survivors, U, c)
		if balAll != nil && balSurv != nil {
			for a, v := range balAll {
				if balSurv[a] == nil || v.Cmp(balSurv[a]) != 0 {
					viol("discarded-tx-cost-something", fmt.Sprintf("balance of %s differs between mining with and without the discarded candidates: %s vs %v", a.Hex(), v, balSurv[a]))
					break
				}
			}
			c.Stat("discard_sets_checked", 1)
		}
	}
	// whole block on the accepted chain
	var gasSum uint64
	for _, tx := range blk.Txs {
		gasSum += tx.GasUsed()
	}
	if gasSum != blk.GasUsed() {
		viol("header-gas-differs-from-tx-gas", fmt.Sprintf("header.GasUsed %d != sum of tx.GasUsed %d", blk.GasUsed(), gasSum))
	}
	before := readBalances(account.NewManager(parent.Hash(), A.DB), U) // before insertion: an instantly stable block replaces the persisted state
	for i, e := range cl.InsertAll(blk) {
		if e != nil {
			c.Stat("block_rejected", 1)
			c.Note(fmt.Sprintf("node %d rejected the mined block (C01's domain): %v", i, e))
			return nil
		}
	}
	after := readBalances(account.NewManager(blk.Hash(), A.DB), U)
	delta := new(big.Int).Sub(sum(after), sum(before))
	rw, msg := expectedRewards(A, blk)
	if rw == nil {
		c.Note("reward spec unavailable: " + msg)
		rw = new(big.Int)
	}
	// known deviation term
	dev := new(big.Int)
	for _, tx := range blk.Txs {
		var sg uint64
		for _, s := range subTxs(tx) {
			sg += s.GasUsed()
		}
		dev.Add(dev, new(big.Int).Mul(new(big.Int).SetUint64(sg), tx.GasPrice()))
	}
	limit := new(big.Int).Add(rw, dev)
	if !hasIncome {
		limit = rw
	}
	if delta.Cmp(limit) > 0 {
		viol("block-creates-lemo", fmt.Sprintf("sum of balances grows by %s; rewards %s (+known box deviation %s)", delta, rw, dev))
	}
	if reward {
		c.Stat("reward_blocks_checked", 1)
		if rw.Sign() > 0 {
			c.Stat("reward_blocks_with_payout", 1)
		}
	}
	// addresses without a balance/suicide log did not change
	touched := map[common.Address]bool{}
	for _, l := range blk.ChangeLogs {
		if l.LogType == account.BalanceLog || l.LogType == account.SuicideLog {
			touched[l.Address] = true
		}
	}
	for a, v := range after {
		if !touched[a] && v.Cmp(before[a]) != 0 {
			viol("balance-changed-without-log", fmt.Sprintf("%s changed from %s to %s but the block publishes no balance log for it", a.Hex(), before[a], v))
		}
		if v.Sign() < 0 {
			viol("negative-balance", a.Hex())
		}
	}
	c.Stat("blocks_checked", 1)
	c.Stat("balances_compared", int64(len(after)))
	return blk
}

func readBalancesAfter(n *fx.Node, parent *types.Block, t uint32, list []scn.Cand, u *fx.Universe, c *run.Ctx) balances {
	if _, err := n.Mine(parent, t, scn.Txs(list), ""); err != nil {
		return nil
	}
	c.Stat("prefix_executions", 1)
	return readBalances(n.BC.AccountManager(), u)
}

func hasCode(n *fx.Node, parent *types.Block, a common.Address) bool {
	code, err := account.NewManager(parent.Hash(), n.DB).GetAccount(a).GetCode()
	return err != nil || len(code) > 0
}

func topLevelFailed(b *types.Block, tx *types.Transaction) bool {
	var target common.Address
	if tx.To() != nil {
		target = *tx.To()
	} else {
		target = crypto.CreateContractAddress(tx.From(), tx.Hash())
	}
	for _, l := range b.ChangeLogs {
		if l.LogType != account.AddEventLog {
			continue
		}
		ev, ok := l.NewVal.(*types.Event)
		if !ok || ev == nil || ev.TxHash != tx.Hash() || ev.Address != target {
			continue
		}
		for _, tp := range ev.Topics {
			if tp == types.TopicRunFail {
				return true
			}
		}
	}
	return false
}

func sameRes(a, b map[common.Address]*big.Int) bool {
	if len(a) != len(b) {
		return false
	}
	for k, v := range a {
		if b[k] == nil || b[k].Cmp(v) != 0 {
			return false
		}
	}
	return true
}

func resStr(m map[common.Address]*big.Int) string {
	s := ""
	for a, v := range m {
		s += a.Hex()[:10] + ":" + v.String() + " "
	}
	return s
}

func scenario(c *run.Ctx, idx int, fixed bool) {
	r := run.NewRng(c.Seed, 5, uint64(idx))
	if fixed {
		r = run.NewRng(11, 5, uint64(idx))
	}
	nDep := 1 + idx%4
	cl := scn.NewCluster(r, fx.WorldCfg{Deputies: nDep, Users: 10, SlotMs: uint64(1000 * r.Range(2, 8))}, 2, scn.DefaultCfg())
	defer cl.Close()
	nBlocks := r.Range(5, 8)
	if idx%2 == 0 {
		nBlocks = scn.Term + scn.Interim + 3
	}
	for bi := 0; bi < nBlocks; bi++ {
		t := cl.NextTime()
		var cands []scn.Cand
		switch {
		case bi == 0:
			cands = cl.G.Setup(t)
		case bi == 1:
			cands = cl.G.Setup2(t)
		case cl.IsSnapshotNext():
			cands = nil
		case fixed && bi == 2:
			// regression witness of the known box finding: a box with one plain transfer
			u1, u2 := cl.W.Users[1], cl.W.Users[2]
			sub := cl.G.B.Transfer(u2, u1.Addr, fx.LEMO(1), uint64(t)+900)
			cands = []scn.Cand{cl.G.C(cl.G.B.Box(u1, types.Transactions{sub}, uint64(t)+900), "box", "ok")}
		default:
			cands = cl.G.Next(t, cl.Head.Height()+1, r.Range(3, 9))
			if deputynode.IsRewardBlock(cl.Head.Height()+1+1) || deputynode.IsRewardBlock(cl.Head.Height()+1) || r.Chance(1, 5) {
				// make sure reward blocks usually have something to pay
				term := (cl.Head.Height() + 1) / params.TermDuration
				if cl.Head.Height()+1 > params.TermDuration+params.InterimDuration {
					term = (cl.Head.Height() - params.InterimDuration) / params.TermDuration
				}
				if deputynode.IsRewardBlock(cl.Head.Height() + 1) {
					term = deputynode.GetSignerTermIndexByHeight(cl.Head.Height())
				}
				data, _ := json.Marshal(&params.RewardJson{Term: term, Value: fx.LEMO(int64(r.Range(1, 900)))})
				cands = append(cands, cl.G.C(cl.G.B.Call(cl.W.Founder, params.TermRewardContract, big.NewInt(0), 500000, data, uint64(t)+600), "set-reward", "any"))
			}
		}
		// every fourth block the miners choose a small block gas limit, so that candidates (and sub-txs of boxes) run into it
		lim := uint64(0)
		if bi >= 2 && r.Chance(1, 4) {
			lim = uint64(r.Range(200000, 600000))
		}
		for _, n := range cl.Nodes {
			n.GasLimit = lim
		}
		if lim != 0 {
			c.Stat("blocks_with_small_gas_limit", 1)
		}
		c.WAL(map[string]interface{}{"scenario": idx, "block": bi, "seed": c.Seed, "fixed": fixed})
		blk := checkStep(c, cl, t, cands)
		if blk == nil {
			break
		}
		shape := ""
		types_ := map[uint16]bool{}
		for _, tx := range blk.Txs {
			types_[tx.Type()] = true
		}
		for _, cd := range cands {
			shape += cd.Kind + ","
		}
		c.Case(fmt.Sprintf("d%d h%d %s", nDep, blk.Height(), shape), len(types_) >= 2 || deputynode.IsRewardBlock(blk.Height()),
			map[string]interface{}{"scenario": idx, "height": blk.Height(), "candidates": shape, "included": len(blk.Txs), "gasUsed": blk.GasUsed()})
		cl.Adopt(blk)
		if cl.MustStabiliseSoon() || r.Chance(1, 2) {
			if !cl.StabiliseAll() {
				c.Stat("scenario_stuck_unstabilisable", 1)
				break
			}
		}
	}
}

func runAll(c *run.Ctx) {
	fx.Quiet()
	scn.SetParams()
	if c.Batch == 0 {
		scenario(c, 1, true)
	}
	n := c.Pick(48, 1200)
	lo, hi := c.Share(n)
	for i := lo; i < hi; i++ {
		scenario(c, i, false)
	}
}

func replay(c *run.Ctx, raw json.RawMessage) {
	fx.Quiet()
	scn.SetParams()
	var w scn.Witness
	if err := json.Unmarshal(raw, &w); err != nil {
		c.Inconclusive("bad witness: " + err.Error())
		return
	}
	cl, cands, err := scn.Rebuild(&w)
	defer cl.Close()
	if err != nil {
		c.Inconclusive(err.Error())
		return
	}
	checkStep(c, cl, w.Time, cands)
	c.Case("replay", true, nil)
}

func main() { run.Main(run.Engine{Batches: batches, Run: runAll, Replay: replay}) }
