// C07 — the change journal is faithful: exact revert at any nesting; redo reproduces the block.
// Three runtime monitors: (1) a direct driver issuing every SafeAccount setter interleaved
// with Snapshot/RevertToSnapshot at arbitrary nesting against a shadow of whole-state
// observations; (2) the same shadow on every Snapshot/Revert the EVM itself issues while it
// runs template / nested / asset programs (proxy at the vm.AccountManager boundary);
// (3) redo differential: RebuildAll(block) on the parent state vs the executed state.
package main

import (
	"encoding/json"
	"fmt"
	"math/big"
	"os"
	"runtime/debug"
	"sort"
	"strings"

	"github.com/LemoFoundationLtd/lemochain-core/chain/account"
	"github.com/LemoFoundationLtd/lemochain-core/chain/types"
	"github.com/LemoFoundationLtd/lemochain-core/common"

	"verif/evmmon"
	"verif/fx"
	"verif/fx/run"
	"verif/scn"
)

func batches(tier string) int { return 16 }

// viol emits the first violation of every class in this batch (the driver keeps one witness
// per class; the per-batch cap of the protocol must not hide later, different classes).
var emitted = map[string]bool{}

func viol(c *run.Ctx, class, msg string, wit interface{}) {
	if emitted[class] {
		c.Stat("violations_repeated", 1)
		return
	}
	emitted[class] = true
	c.Violation(class, msg, wit)
}

// ---------------------------------------------------------------------------------------
// monitor 1: direct driver

// Op is one materialised step of a sequence.
type Op struct {
	K string // bal sto code kill votefor votes cand candstate signers asset supply assetstate assetid equity event snap revert
	A int    `json:",omitempty"` // address index
	B int    `json:",omitempty"` // key / code / id / target index; for snap: the label of the new snapshot; for revert: the label to revert to (skipped if that snapshot is not live)
	V string `json:",omitempty"` // value
	S string `json:",omitempty"` // second value (profile key)
}

// Seq is a witness of monitor 1.
type Seq struct {
	Monitor string // "direct"
	Name    string `json:",omitempty"`
	Ops     []Op
	// FinalCheck: after the last op revert to the outermost snapshot, touch every account's
	// balance, Finalise and compare with a manager that only did the touching.
	FinalCheck bool
}

type env struct {
	b     *evmmon.Base
	addrs []common.Address
	keys  []common.Hash
	codes []common.Hash
	ids   []common.Hash
	uni   *fx.Universe
	// control of the final check: Obs and log digest of "snapshot; touch; Finalise" on a fresh manager
	ctlObs    fx.Obs
	ctlLogs   string
	prist     fx.Obs
	pristFull fx.Obs // with version records: what a fresh manager at the head must always observe
	shrunk    map[string]bool
}

// checkPristine: whatever a dropped manager did (reverted or not, finalised or not, never
// saved) must be invisible to a fresh manager at the same parent.
func (e *env) checkPristine(c *run.Ctx, wit interface{}) {
	now := fx.Observe(account.NewManager(e.b.Head.Hash(), e.b.N.DB), e.uni, fx.ObsOpts{Roots: true, Versions: true})
	c.Stat("fresh_view_checks", 1)
	d := fx.Diff(e.pristFull, now, 6)
	if len(d) == 0 {
		return
	}
	seen := map[string]bool{}
	for _, l := range d {
		k := evmmon.FieldKind(evmmon.DiffField(l))
		if !seen[k] {
			seen[k] = true
			viol(c, "C07/discard-leaks-into-parent-view:"+k, "a manager that was dropped without Save changed what a fresh manager at the same parent observes: "+l, wit)
		}
	}
	// re-base so that one leak is reported once
	e.pristFull = now
	am := account.NewManager(e.b.Head.Hash(), e.b.N.DB)
	e.prist = fx.Observe(am, e.uni, fx.ObsOpts{Roots: true})
	am = account.NewManager(e.b.Head.Hash(), e.b.N.DB)
	am.Snapshot()
	e.touch(am)
	_ = am.Finalise()
	e.ctlObs = fx.Observe(am, e.uni, fx.ObsOpts{Roots: true})
	e.ctlLogs = logList(am.GetChangeLogs())
}

func newEnv(b *evmmon.Base) *env {
	e := &env{b: b, shrunk: map[string]bool{}}
	e.addrs = []common.Address{b.Zoo["store"], b.Zoo["store-kill-load"], b.Issuer.Addr, b.Holder.Addr, b.Candidate.Addr, b.Fresh}
	e.keys = []common.Hash{fx.HashU(1), fx.HashU(2), fx.HashU(3), fx.HashU(5)}
	e.codes = b.Codes
	e.ids = b.IDs
	e.uni = fx.NewUniverse()
	e.uni.Addr(e.addrs...)
	e.uni.Addr(b.Voter.Addr, b.Plain.Addr)
	e.uni.StorageKey(e.keys...)
	e.uni.AssetCode(e.codes...)
	e.uni.AssetID(e.ids...)
	am := account.NewManager(b.Head.Hash(), b.N.DB)
	e.prist = fx.Observe(am, e.uni, fx.ObsOpts{Roots: true})
	e.pristFull = fx.Observe(account.NewManager(b.Head.Hash(), b.N.DB), e.uni, fx.ObsOpts{Roots: true, Versions: true})
	am = account.NewManager(b.Head.Hash(), b.N.DB)
	am.Snapshot()
	e.touch(am)
	if err := am.Finalise(); err != nil {
		panic(err)
	}
	e.ctlObs = fx.Observe(am, e.uni, fx.ObsOpts{Roots: true})
	e.ctlLogs = logList(am.GetChangeLogs())
	return e
}

func (e *env) touch(am *account.Manager) {
	for _, a := range e.addrs {
		acc := am.GetAccount(a)
		acc.SetBalance(new(big.Int).Add(acc.GetBalance(), big.NewInt(1)))
	}
}

func logList(ls types.ChangeLogSlice) string {
	var sb strings.Builder
	for _, l := range ls {
		fmt.Fprintf(&sb, "%s@%s;", l.LogType.String(), l.Address.Hex()[:10])
	}
	return sb.String()
}

var profKeys = []string{types.CandidateKeyIsCandidate, types.CandidateKeyHost, types.CandidateKeyIntroduction, "extra"}
var assetProfKeys = []string{"freeze", "description", "newkey"}

func storageVal(v string) []byte {
	if v == "nil" {
		return nil
	}
	b := common.FromHex("0x" + v)
	if b == nil {
		b = []byte{}
	}
	return b
}

// pre reports whether the system could issue this setter call in the current state.
func (e *env) pre(am *account.Manager, o Op) bool {
	if o.A < 0 || o.A >= len(e.addrs) {
		return false
	}
	acc := am.GetAccount(e.addrs[o.A])
	hasCode := func() bool {
		h := acc.GetCodeHash()
		return h != (common.Hash{}) && h != common.Sha3Nil
	}
	eoa := !hasCode() && !acc.GetSuicide()
	switch o.K {
	case "code":
		// contract creation: evm.Create refuses a non-empty account (IsEmpty looks at the saved version records)
		// (contract addresses are never addresses of key holders, so no asset / candidate / vote / signer attributes)
		if hasCode() || acc.GetSuicide() || !acc.IsEmpty() || len(acc.GetCandidate()) > 0 || len(acc.GetSigners()) > 0 || acc.GetVotes().Sign() != 0 || acc.GetVoteFor() != (common.Address{}) {
			return false
		}
		for _, cd := range e.codes {
			if _, err := acc.GetAssetCode(cd); err != types.ErrAssetNotExist {
				return false
			}
		}
		return true
	case "kill":
		return hasCode() && !acc.GetSuicide()
	case "sto":
		return hasCode() // only contract code writes storage (SSTORE)
	case "supply", "assetstate":
		// asset transactions are sent by externally owned accounts; asset-state writes only on existing assets
		as, err := acc.GetAssetCode(e.codes[o.B%len(e.codes)])
		return eoa && err == nil && as != nil
	case "asset":
		_, err := acc.GetAssetCode(e.codes[o.B%len(e.codes)])
		return eoa && err == types.ErrAssetNotExist // CreateAssetTx always creates a new code
	case "candstate":
		// the system writes single profile keys only on registered candidates (unregister, refund)
		return eoa && len(acc.GetCandidate()) > 0
	case "cand", "signers", "votes", "votefor":
		return eoa // candidate / vote / multisig transactions are sent by externally owned accounts
	}
	return true
}

// apply issues the setter through the SafeAccount (journaled).
func (e *env) apply(am *account.Manager, o Op) error {
	acc := am.GetAccount(e.addrs[o.A])
	switch o.K {
	case "bal":
		v, _ := new(big.Int).SetString(o.V, 10)
		acc.SetBalance(v)
	case "sto":
		return acc.SetStorageState(e.keys[o.B%len(e.keys)], storageVal(o.V))
	case "code":
		acc.SetCode(types.Code(common.FromHex("0x" + o.V)))
	case "kill":
		acc.SetSuicide(true)
	case "votefor":
		acc.SetVoteFor(e.addrs[o.B%len(e.addrs)])
	case "votes":
		v, _ := new(big.Int).SetString(o.V, 10)
		acc.SetVotes(v)
	case "cand":
		p := types.Profile{}
		if o.V != "" {
			_ = json.Unmarshal([]byte(o.V), &p)
		}
		acc.SetCandidate(p)
	case "candstate":
		acc.SetCandidateState(o.S, o.V)
	case "signers":
		var sg types.Signers
		n := o.B % 4
		for i := 0; i < n; i++ {
			sg = append(sg, types.SignAccount{Address: e.addrs[(o.A+i+1)%len(e.addrs)], Weight: uint8(40 + 10*i)})
		}
		return acc.SetSingers(sg)
	case "asset":
		code := e.codes[o.B%len(e.codes)]
		return acc.SetAssetCode(code, &types.Asset{Category: types.TokenAsset, IsDivisible: true, AssetCode: code, Decimal: 3, TotalSupply: big.NewInt(0), IsReplenishable: true,
			Issuer: e.addrs[o.A], Profile: types.Profile{"name": o.V, "freeze": "false"}})
	case "supply":
		v, _ := new(big.Int).SetString(o.V, 10)
		return acc.SetAssetCodeTotalSupply(e.codes[o.B%len(e.codes)], v)
	case "assetstate":
		return acc.SetAssetCodeState(e.codes[o.B%len(e.codes)], o.S, o.V)
	case "assetid":
		return acc.SetAssetIdState(e.ids[o.B%len(e.ids)], o.V)
	case "equity":
		v, _ := new(big.Int).SetString(o.V, 10)
		id := e.ids[o.B%len(e.ids)]
		code := e.codes[1]
		if id == e.codes[0] {
			code = e.codes[0]
		}
		return acc.SetEquityState(id, &types.AssetEquity{AssetCode: code, AssetId: id, Equity: v})
	case "event":
		am.AddEvent(&types.Event{Address: e.addrs[o.A], Topics: []common.Hash{common.HexToHash("0x" + o.V)}, Data: []byte(o.S)})
	default:
		return fmt.Errorf("unknown op %q", o.K)
	}
	return nil
}

type dviol struct {
	class string
	msg   string
}

type liveSnap struct {
	label int
	id    int
	jlen  int
	obs   fx.Obs
}

type seqStats struct {
	ops, snaps, reverts, fields, maxNest, skipped int64
	kinds                                         map[string]bool
	finalChecked                                  bool
	shape                                         strings.Builder
}

// runSeq executes a materialised sequence under the shadow monitor.
func (e *env) runSeq(s *Seq) (viols []dviol, st *seqStats) {
	st = &seqStats{kinds: map[string]bool{}}
	am := account.NewManager(e.b.Head.Hash(), e.b.N.DB)
	opts := fx.ObsOpts{Roots: true}
	var live []liveSnap
	undonePairs := map[string]bool{}
	add := func(class, msg string) {
		for _, v := range viols {
			if v.class == class {
				return
			}
		}
		viols = append(viols, dviol{class, msg})
	}
	lastKind := map[string]string{} // not used for classes; kept for messages
	_ = lastKind
	// revert with shadow; returns false if the manager is unusable afterwards
	revert := func(level int) bool {
		sn := live[level]
		logs := am.GetChangeLogs()
		rep := &evmmon.RevertReport{ID: sn.id, Live: len(live), JLenWant: sn.jlen}
		if sn.jlen <= len(logs) {
			for _, l := range logs[sn.jlen:] {
				li := evmmon.LogInfo{Type: l.LogType.String(), Addr: l.Address.Hex()}
				rep.Undone = append(rep.Undone, li)
				if undonePairs[li.Addr+"|"+li.Type] {
					rep.InnerRevertedSame = true
				}
			}
		}
		func() {
			defer func() {
				if r := recover(); r != nil {
					rep.Panic, rep.PanicSite = evmmon.PanicSig(r, debug.Stack())
				}
			}()
			am.RevertToSnapshot(sn.id)
		}()
		st.reverts++
		if rep.Panic != "" {
			add("crash:revert-panics:"+evmmon.PanicMechanism(rep), fmt.Sprintf("RevertToSnapshot panicked: %s @%s while undoing %v", rep.Panic, rep.PanicSite, typesOf(rep.Undone)))
			return false
		}
		for _, l := range rep.Undone {
			undonePairs[l.Addr+"|"+l.Type] = true
		}
		live = live[:level]
		after := fx.Observe(am, e.uni, opts)
		st.fields += int64(len(after))
		rep.JLenGot = account.VerifJournalLen(am)
		rep.Diff = fx.Diff(sn.obs, after, 12)
		rep.SnapObs, rep.AfterObs = sn.obs, after
		bad := false
		for cls, d := range evmmon.RevertClasses(rep, e.prist) {
			add(cls, fmt.Sprintf("after RevertToSnapshot (nesting %d, undone %v): %s", rep.Live, typesOf(rep.Undone), d))
			bad = true
		}
		// once a revert was unfaithful the later shadows are no longer comparable: stop judging
		return !bad
	}
	for _, o := range s.Ops {
		switch o.K {
		case "snap":
			id := am.Snapshot()
			live = append(live, liveSnap{label: o.B, id: id, jlen: account.VerifJournalLen(am), obs: fx.Observe(am, e.uni, opts)})
			st.snaps++
			st.shape.WriteByte('(')
			if int64(len(live)) > st.maxNest {
				st.maxNest = int64(len(live))
			}
		case "revert":
			lv := -1
			for i := range live {
				if live[i].label == o.B {
					lv = i
				}
			}
			if lv < 0 {
				st.skipped++
				continue
			}
			fmt.Fprintf(&st.shape, ")%d", len(live)-lv)
			if !revert(lv) {
				return
			}
		default:
			if !e.pre(am, o) {
				st.skipped++
				continue
			}
			var perr string
			var err error
			func() {
				defer func() {
					if r := recover(); r != nil {
						perr, _ = evmmon.PanicSig(r, debug.Stack())
					}
				}()
				err = e.apply(am, o)
			}()
			if perr != "" {
				add("crash:setter-panics:"+o.K+":"+evmmon.Slug(perr), "setter panicked: "+perr)
				return
			}
			if err != nil {
				st.skipped++
			}
			st.ops++
			st.kinds[o.K] = true
			st.shape.WriteString(o.K[:2])
		}
	}
	if s.FinalCheck && len(live) > 0 && live[0].label == 0 && live[0].jlen == 0 && len(viols) == 0 {
		if !revert(0) {
			return
		}
		st.finalChecked = true
		e.touch(am)
		var ferr error
		var perr string
		func() {
			defer func() {
				if r := recover(); r != nil {
					perr, _ = evmmon.PanicSig(r, debug.Stack())
				}
			}()
			ferr = am.Finalise()
		}()
		if perr != "" || ferr != nil {
			add("crash:finalise-after-revert:"+evmmon.Slug(perr+fmt.Sprint(ferr)), fmt.Sprintf("Finalise after a full revert failed: %s %v", perr, ferr))
			return
		}
		obs := fx.Observe(am, e.uni, opts)
		for _, d := range fx.Diff(e.ctlObs, obs, 12) {
			f := evmmon.DiffField(d)
			k := evmmon.FieldKind(f)
			what := map[string]string{"root-storage": "storage", "root-asset-code": "asset-profile", "root-asset-id": "asset-id", "root-equity": "equity"}[k]
			if what == "" {
				what = k
			}
			add("undo-leaves-dirty-entry:"+what, "everything was reverted, yet after Finalise (with one unrelated balance change per account) "+d+" (control = never applied)")
		}
		if ll := logList(am.GetChangeLogs()); ll != e.ctlLogs && len(viols) == 0 {
			add("undo-leaves-dirty-entry:change-logs", fmt.Sprintf("change logs after full revert + Finalise differ from never having applied anything: %s vs %s", ll, e.ctlLogs))
		}
	}
	return
}

func typesOf(ls []evmmon.LogInfo) []string {
	seen := map[string]bool{}
	var out []string
	for _, l := range ls {
		if !seen[l.Type] {
			seen[l.Type] = true
			out = append(out, l.Type)
		}
	}
	return out
}

// genSeq draws a sequence; it executes it on a scratch manager to know which calls the
// system could issue at each point.
func (e *env) genSeq(r *run.Rng, n int) *Seq {
	s := &Seq{Monitor: "direct", FinalCheck: true}
	am := account.NewManager(e.b.Head.Hash(), e.b.N.DB)
	var live, labels []int
	nextLabel := 0
	push := func(o Op) bool {
		ok := true
		func() {
			defer func() {
				if rec := recover(); rec != nil {
					ok = false
				}
			}()
			switch o.K {
			case "snap":
				live = append(live, am.Snapshot())
				labels = append(labels, o.B)
			case "revert":
				lv := -1
				for i, l := range labels {
					if l == o.B {
						lv = i
					}
				}
				am.RevertToSnapshot(live[lv])
				live, labels = live[:lv], labels[:lv]
			default:
				_ = e.apply(am, o)
			}
		}()
		s.Ops = append(s.Ops, o)
		return ok
	}
	push(Op{K: "snap", B: nextLabel})
	nextLabel++
	// the known self-destruct defect ends the judged part of a sequence at the first reverted kill:
	// most sequences stay free of kills so that everything else is explored at full length
	withKill := r.Chance(3, 10)
	vals := []string{"nil", "", "00", "01", "2a", "0000ff", "ffffffffffffffffffffffffffffffffffffffffffffffffffffffffffffffff", "00000000000000000000000000000000000000000000000000000000000000aa"}
	for len(s.Ops) < n {
		var o Op
		o.A = r.Intn(len(e.addrs))
		pick := r.Intn(100)
		switch {
		case pick < 14:
			if len(live) >= 9 {
				continue
			}
			o = Op{K: "snap", B: nextLabel}
			nextLabel++
		case pick < 26:
			if len(live) <= 1 && r.Chance(3, 4) { // keep the outermost snapshot most of the time
				continue
			}
			if len(live) == 0 {
				continue
			}
			lv := len(live) - 1
			if r.Chance(1, 3) {
				lv = r.Intn(len(live))
			}
			if lv == 0 && r.Chance(2, 3) && len(live) > 1 {
				lv = 1
			}
			o = Op{K: "revert", B: labels[lv]}
		case pick < 36:
			cur := am.GetAccount(e.addrs[o.A]).GetBalance()
			switch r.Intn(4) {
			case 0:
				o.V = "0"
			case 1:
				o.V = new(big.Int).Add(cur, big.NewInt(int64(r.Range(1, 1000)))).String()
			case 2:
				o.V = cur.String()
			default:
				o.V = fmt.Sprint(r.Intn(100000))
			}
			o.K = "bal"
		case pick < 50:
			o.K, o.B, o.V = "sto", r.Intn(len(e.keys)), vals[r.Intn(len(vals))]
		case pick < 55:
			o.K, o.V = "code", fmt.Sprintf("60%02x600055", r.Intn(256))
		case pick < 62:
			if !withKill {
				continue
			}
			o.K = "kill"
		case pick < 66:
			o.K, o.B = "votefor", r.Intn(len(e.addrs))
		case pick < 70:
			o.K, o.V = "votes", fmt.Sprint(r.Intn(5000))
		case pick < 73:
			o.K = "cand"
			if r.Chance(3, 4) {
				p := types.Profile{profKeys[r.Intn(len(profKeys))]: fmt.Sprint(r.Intn(3)), types.CandidateKeyIsCandidate: []string{"true", "false"}[r.Intn(2)]}
				bs, _ := json.Marshal(p)
				o.V = string(bs)
			}
		case pick < 77:
			o.K, o.S, o.V = "candstate", profKeys[r.Intn(len(profKeys))], []string{"", "true", "false", "x"}[r.Intn(4)]
		case pick < 80:
			o.K, o.B = "signers", r.Intn(4)
		case pick < 83:
			o.K, o.B, o.V = "asset", r.Intn(len(e.codes)), fmt.Sprintf("a%d", r.Intn(9))
		case pick < 87:
			o.K, o.B, o.V = "supply", r.Intn(len(e.codes)), fmt.Sprint(r.Intn(100000))
			o.A = []int{2, 2, o.A}[r.Intn(3)]
		case pick < 91:
			o.K, o.B, o.S, o.V = "assetstate", r.Intn(len(e.codes)), assetProfKeys[r.Intn(len(assetProfKeys))], []string{"", "true", "false", "text"}[r.Intn(4)]
			o.A = []int{2, 2, o.A}[r.Intn(3)]
		case pick < 94:
			o.K, o.B, o.V = "assetid", r.Intn(len(e.ids)), []string{"", "meta", "other"}[r.Intn(3)]
		case pick < 98:
			o.K, o.B, o.V = "equity", r.Intn(len(e.ids)), fmt.Sprint(r.Intn(1000))
		default:
			o.K, o.V, o.S = "event", fmt.Sprintf("%064x", r.Intn(1000)), "d"
		}
		if o.K != "snap" && o.K != "revert" && !e.pre(am, o) {
			continue
		}
		if !push(o) {
			break // a revert panicked while generating: the monitored run will report it
		}
		if len(live) == 0 {
			push(Op{K: "snap", B: 0}) // keep an outermost snapshot that precedes every write (final check)
		}
	}
	return s
}

// shrink removes ops while the class keeps firing.
func (e *env) shrink(s *Seq, class string) *Seq {
	fires := func(t *Seq) bool {
		vs, _ := e.runSeq(t)
		for _, v := range vs {
			if v.class == class {
				return true
			}
		}
		return false
	}
	cur := &Seq{Monitor: s.Monitor, Name: s.Name, FinalCheck: s.FinalCheck, Ops: append([]Op{}, s.Ops...)}
	if !strings.HasPrefix(class, "undo-leaves-dirty-entry") && cur.FinalCheck {
		t := *cur
		t.FinalCheck = false
		if fires(&t) {
			cur = &t
		}
	}
	for changed := true; changed; {
		changed = false
		for i := len(cur.Ops) - 1; i >= 0; i-- {
			t := &Seq{Monitor: cur.Monitor, Name: cur.Name, FinalCheck: cur.FinalCheck}
			t.Ops = append(append([]Op{}, cur.Ops[:i]...), cur.Ops[i+1:]...)
			if fires(t) {
				cur = t
				changed = true
			}
		}
	}
	return cur
}

func (e *env) checkSeq(c *run.Ctx, s *Seq, doShrink bool) {
	c.WAL(s)
	vs, st := e.runSeq(s)
	c.Stat("direct_sequences", 1)
	c.Stat("direct_setter_calls", st.ops)
	c.Stat("direct_snapshots", st.snaps)
	c.Stat("direct_reverts_checked", st.reverts)
	c.Stat("fields_compared", st.fields)
	if st.finalChecked {
		c.Stat("final_finalise_checks", 1)
	}
	for k := range st.kinds {
		c.Seen("setter_kinds", k)
	}
	c.Seen("max_nesting", fmt.Sprint(st.maxNest))
	for _, v := range vs {
		w := s
		if doShrink && !e.shrunk[v.class] {
			e.shrunk[v.class] = true
			w = e.shrink(s, v.class)
		}
		viol(c, "C07/"+v.class, fmt.Sprintf("%s [minimal sequence: %s]", v.msg, render(w)), w)
	}
	e.checkPristine(c, s)
	shape := st.shape.String()
	c.Case("direct "+shape, st.reverts >= 2 && st.maxNest >= 2 && len(st.kinds) >= 4, map[string]interface{}{"monitor": "direct", "ops": len(s.Ops), "setters": st.ops, "snapshots": st.snaps, "reverts": st.reverts, "maxNesting": st.maxNest, "shape": shape})
}

func render(s *Seq) string {
	var parts []string
	for _, o := range s.Ops {
		switch o.K {
		case "snap":
			parts = append(parts, fmt.Sprintf("S%d=Snapshot", o.B))
		case "revert":
			parts = append(parts, fmt.Sprintf("Revert(S%d)", o.B))
		default:
			parts = append(parts, fmt.Sprintf("%s(a%d,%d,%q)", o.K, o.A, o.B, o.V))
		}
	}
	if s.FinalCheck {
		parts = append(parts, "Revert(outermost); touch balances; Finalise")
	}
	if len(parts) > 14 {
		parts = append(parts[:14], "...")
	}
	return strings.Join(parts, "; ")
}

// fixedSeqs: regression list of monitor 1 (address indexes: 0 store, 1 store-kill-load,
// 2 issuer, 3 holder, 4 candidate, 5 fresh).
func fixedSeqs() []*Seq {
	sn, s1, rv := Op{K: "snap", B: 0}, Op{K: "snap", B: 1}, func(l int) Op { return Op{K: "revert", B: l} }
	return []*Seq{
		{Monitor: "direct", Name: "version-gap-after-inner-revert", Ops: []Op{sn, {K: "bal", A: 3, V: "10"}, s1, {K: "bal", A: 3, V: "20"}, rv(1), {K: "bal", A: 3, V: "30"}, rv(0)}},
		{Monitor: "direct", Name: "version-gap-all-types", FinalCheck: true, Ops: []Op{sn,
			{K: "sto", A: 0, B: 0, V: "01"}, {K: "votes", A: 4, V: "5"}, {K: "votefor", A: 3, B: 4}, {K: "candstate", A: 4, S: "extra", V: "x"}, {K: "equity", A: 3, B: 1, V: "5"}, {K: "assetid", A: 3, B: 1, V: "m"}, {K: "supply", A: 2, B: 0, V: "7"}, {K: "assetstate", A: 2, B: 0, S: "freeze", V: "true"}, {K: "signers", A: 3, B: 2}, {K: "event", A: 0, V: "01", S: "d"},
			s1,
			{K: "sto", A: 0, B: 0, V: "02"}, {K: "votes", A: 4, V: "6"}, {K: "votefor", A: 3, B: 2}, {K: "candstate", A: 4, S: "extra", V: "y"}, {K: "equity", A: 3, B: 1, V: "6"}, {K: "assetid", A: 3, B: 1, V: "n"}, {K: "supply", A: 2, B: 0, V: "8"}, {K: "assetstate", A: 2, B: 0, S: "freeze", V: "false"}, {K: "signers", A: 3, B: 3}, {K: "event", A: 0, V: "02", S: "d"},
			rv(1),
			{K: "sto", A: 0, B: 0, V: "03"}, {K: "votes", A: 4, V: "7"}, {K: "votefor", A: 3, B: 5}, {K: "candstate", A: 4, S: "extra", V: "z"}, {K: "equity", A: 3, B: 1, V: "7"}, {K: "assetid", A: 3, B: 1, V: "o"}, {K: "supply", A: 2, B: 0, V: "9"}, {K: "assetstate", A: 2, B: 0, S: "freeze", V: "true"}, {K: "signers", A: 3, B: 1}, {K: "event", A: 0, V: "03", S: "d"},
			rv(0)}},
		{Monitor: "direct", Name: "suicide-revert-dirty-storage", Ops: []Op{{K: "sto", A: 1, B: 0, V: "05"}, sn, {K: "kill", A: 1}, rv(0)}},
		{Monitor: "direct", Name: "suicide-revert-unsaved-code", Ops: []Op{{K: "code", A: 5, V: "6001600055"}, {K: "sto", A: 5, B: 0, V: "05"}, sn, {K: "kill", A: 5}, rv(0)}},
		{Monitor: "direct", Name: "suicide-revert-committed-only", Ops: []Op{sn, {K: "kill", A: 0}, rv(0)}},
		{Monitor: "direct", Name: "undo-storage-on-empty-root", FinalCheck: true, Ops: []Op{sn, {K: "code", A: 5, V: "6001600055"}, {K: "sto", A: 5, B: 0, V: "05"}}},
		{Monitor: "direct", Name: "undo-asset-profile-new-key", FinalCheck: true, Ops: []Op{sn, {K: "assetstate", A: 2, B: 0, S: "newkey", V: "x"}}},
		{Monitor: "direct", Name: "undo-asset-id-on-empty-root", FinalCheck: true, Ops: []Op{sn, {K: "assetid", A: 5, B: 1, V: "m"}}},
		{Monitor: "direct", Name: "undo-first-equity", FinalCheck: true, Ops: []Op{sn, {K: "equity", A: 5, B: 1, V: "5"}}},
		{Monitor: "direct", Name: "undo-new-asset", FinalCheck: true, Ops: []Op{sn, {K: "asset", A: 5, B: 0, V: "a"}, {K: "supply", A: 5, B: 0, V: "9"}, {K: "assetstate", A: 5, B: 0, S: "freeze", V: "true"}}},
		{Monitor: "direct", Name: "undo-candidate", FinalCheck: true, Ops: []Op{sn, {K: "cand", A: 5, V: `{"isCandidate":"true","host":"h"}`}, {K: "candstate", A: 5, S: "extra", V: "1"}, {K: "votes", A: 5, V: "9"}, s1, {K: "cand", A: 5, V: ""}, rv(1)}},
	}
}

// ---------------------------------------------------------------------------------------
// monitor 2: proxy around the manager while the EVM runs

func checkEVM(c *run.Ctx, b *evmmon.Base, e *env, cs *evmmon.Case) {
	c.WAL(map[string]interface{}{"Monitor": "evm", "Case": cs})
	res, _ := b.RunCase(cs, evmmon.RunOpts{Shadow: true})
	c.Stat("evm_programs", 1)
	c.Stat("evm_snapshots_shadowed", res.Px.NSnap)
	c.Stat("evm_reverts_checked", res.Px.NRevert)
	c.Stat("fields_compared", res.Px.NFields)
	c.Stat("evm_revision_ids_leaked_by_evm", res.Px.Leaked)
	wit := map[string]interface{}{"Monitor": "evm", "Case": cs}
	if res.Abort != nil {
		viol(c, "C07/crash:revert-panics:"+evmmon.PanicMechanism(res.Abort), fmt.Sprintf("RevertToSnapshot issued by the EVM panicked: %s @%s while undoing %v -- %s", res.Abort.Panic, res.Abort.PanicSite, typesOf(res.Abort.Undone), cs.String()), wit)
	}
	if res.Panic != "" {
		// not a journal matter (C16 reports EVM panics); noted for the evidence only
		c.Stat("evm_panics_outside_revert", 1)
	}
	var prist fx.Obs
	for _, rep := range res.Px.Reports {
		if rep.Panic != "" {
			continue
		}
		if prist == nil {
			prist = fx.Observe(account.NewManager(b.Head.Hash(), b.N.DB), res.Px.U.U, fx.ObsOpts{Roots: true})
		}
		for cls, d := range evmmon.RevertClasses(rep, prist) {
			viol(c, "C07/"+cls, fmt.Sprintf("RevertToSnapshot issued by the EVM (nesting %d, undone %v): %s -- %s", rep.Live, typesOf(rep.Undone), d, cs.String()), wit)
		}
	}
	// a call that failed without the EVM issuing any rollback at all: the journal was never asked to undo it (an
	// unfaithful rollback is reported with its mechanism above; here nothing was rolled back)
	if (res.Err != "" || res.ExecErr != "") && len(res.Px.Reports) == 0 && res.Panic == "" {
		c.Stat("failed_calls_without_any_rollback_checked", 1)
		seen := map[string]bool{}
		for _, d := range fx.Diff(res.Before, res.After, 12) {
			k := evmmon.FieldKind(evmmon.DiffField(d))
			if !seen[k] {
				seen[k] = true
				viol(c, "C07/failed-call-not-rolled-back:"+k, fmt.Sprintf("the call ended with %q/%q, no RevertToSnapshot was issued, and %s -- %s", res.Err, res.ExecErr, d, cs.String()), wit)
			}
		}
	}
	e.checkPristine(c, wit)
	kind := cs.Kind
	c.Case(fmt.Sprintf("evm %s %s snaps=%d reverts=%d live=%d", kind, cs.Entry, res.Px.NSnap, res.Px.NRevert, res.Px.MaxLive), res.Px.NRevert > 0 && res.Px.MaxLive >= 2,
		map[string]interface{}{"monitor": "evm", "case": cs.String(), "snapshots": res.Px.NSnap, "reverts": res.Px.NRevert, "maxLive": res.Px.MaxLive})
}

// ---------------------------------------------------------------------------------------
// monitor 3: redo of the published change logs vs execution

func dropSuicide(o fx.Obs) fx.Obs {
	// the self-destruct flag lives in memory only and is not part of the saved account; the
	// executed state is read back from the database, so the flag is not comparable
	for k := range o {
		if strings.HasSuffix(k, "/suicide") {
			delete(o, k)
		}
	}
	return o
}

func checkRedo(c *run.Ctx, n *fx.Node, u *fx.Universe, blk *types.Block, wit interface{}) {
	pub := fx.Wire(blk, true) // the published form: change logs after an RLP round trip
	am := account.NewManager(blk.ParentHash(), n.DB)
	var perr, site string
	var err error
	func() {
		defer func() {
			if r := recover(); r != nil {
				perr, site = evmmon.PanicSig(r, debug.Stack())
			}
		}()
		err = am.RebuildAll(pub)
	}()
	c.Stat("redo_blocks", 1)
	c.Stat("redo_logs", int64(len(pub.ChangeLogs)))
	for _, l := range pub.ChangeLogs {
		c.Seen("redo_log_types", l.LogType.String())
	}
	if perr != "" {
		viol(c, "C07/crash:redo-panics:"+evmmon.Slug(perr), fmt.Sprintf("RebuildAll panicked: %s @%s", perr, site), wit)
		return
	}
	if err != nil {
		viol(c, "C07/redo-fails:"+evmmon.Slug(err.Error()), "RebuildAll returned "+err.Error(), wit)
		return
	}
	redo := dropSuicide(fx.Observe(am, u, fx.ObsOpts{}))
	exec := dropSuicide(fx.ObserveAt(n.DB, blk.Hash(), u, fx.ObsOpts{}))
	c.Stat("fields_compared", int64(len(redo)+len(exec)))
	seen := map[string]bool{}
	for _, d := range fx.Diff(exec, redo, 12) {
		f := evmmon.DiffField(d)
		kind := evmmon.FieldKind(f)
		cls := "redo-differs:" + kind
		// second predicate for the named mechanism: the account has a SuicideLog and a BalanceLog
		// placed before it in the published list, and the field is its balance
		if kind == "balance" {
			a := strings.ToLower(evmmon.FieldAddr(f))
			bal, sui := -1, -1
			for i, l := range pub.ChangeLogs {
				if strings.ToLower(l.Address.Hex()) != a {
					continue
				}
				if l.LogType == account.BalanceLog && bal < 0 {
					bal = i
				}
				if l.LogType == account.SuicideLog {
					sui = i
				}
			}
			if bal >= 0 && sui > bal {
				cls = "redo-differs:suicide-then-credit"
			}
		}
		if !seen[cls] {
			seen[cls] = true
			viol(c, "C07/"+cls, fmt.Sprintf("block %d: executed vs redo of its published change logs: %s", blk.Height(), d), wit)
		}
	}
}

// checkDiscards: whatever the miner tried and did not package was rolled back through the journal, so the block must
// be the one the miner produces when it is offered the packaged transactions only.
func checkDiscards(c *run.Ctx, cl *scn.Cluster, t uint32, cands []scn.Cand, blk *types.Block) {
	if len(blk.Txs) >= len(cands) {
		return
	}
	c.Stat("discard_blocks_checked", 1)
	c.Stat("discarded_or_left_out_candidates", int64(len(cands)-len(blk.Txs)))
	pure, err := cl.Nodes[0].Mine(cl.Head, t, fx.CloneTxs(blk.Txs), "")
	same := err == nil && len(pure.Block.Txs) == len(blk.Txs)
	for i := 0; same && i < len(blk.Txs); i++ {
		same = pure.Block.Txs[i].Hash() == blk.Txs[i].Hash()
	}
	switch {
	case err != nil:
		c.Stat("discard_pure_run_failed", 1)
	case !same:
		// e.g. a rolled-back box keeps its gas subtracted from the block's gas pool: another packaged list, nothing to compare
		c.Stat("discard_pure_run_packaged_differently", 1)
	case pure.Block.Hash() != blk.Hash():
		d := scn.LogTypeDiff(blk.ChangeLogs, pure.Block.ChangeLogs)
		if d == "same" {
			d = "header-only"
		}
		parts := strings.FieldsFunc(strings.Replace(d, "changed:", "", -1), func(r rune) bool { return r == '+' || r == '-' })
		sort.Strings(parts)
		var uniq []string
		for i, p := range parts {
			if i == 0 || p != parts[i-1] {
				uniq = append(uniq, p)
			}
		}
		viol(c, "C07/discarded-tx-leaves-trace:"+strings.Join(uniq, "+"), fmt.Sprintf("block %d: the miner's block with %d candidates tried and not packaged differs from its block over the packaged %d alone: %s", blk.Height(), len(cands)-len(blk.Txs), len(blk.Txs), d),
			map[string]interface{}{"Monitor": "redo", "Chain": cl.Witness(t, cands, "discard")})
	}
}

func redoScenario(c *run.Ctx, idx int) {
	r := run.NewRng(c.Seed, 7, 3, uint64(idx))
	wcfg := fx.WorldCfg{Deputies: 1 + idx%3, Users: 10, SlotMs: uint64(1000 * r.Range(2, 6))}
	cl := scn.NewCluster(r, wcfg, 1, scn.DefaultCfg())
	defer cl.Close()
	nBlocks := r.Range(6, 9)
	for bi := 0; bi < nBlocks; bi++ {
		t := cl.NextTime()
		var cands []scn.Cand
		switch {
		case bi == 0:
			cands = cl.G.Setup(t)
		case bi == 1:
			cands = cl.G.Setup2(t)
		case cl.IsSnapshotNext():
			cands = nil
		default:
			cands = cl.G.Next(t, cl.Head.Height()+1, r.Range(4, 12))
		}
		c.WAL(map[string]interface{}{"Monitor": "redo", "scenario": idx, "block": bi})
		// every third block the miner chooses a small block gas limit, so that candidates (also sub-transactions in the
		// middle of a box) run into the exhausted gas pool and are left out
		cl.Nodes[0].GasLimit = 0
		if bi >= 2 && r.Chance(1, 3) {
			cl.Nodes[0].GasLimit = uint64(r.Range(200000, 600000))
			c.Stat("discard_blocks_with_small_gas_limit", 1)
		}
		res, err := cl.Nodes[0].Mine(cl.Head, t, scn.Txs(cands), "")
		if err != nil {
			c.Note(fmt.Sprintf("redo scenario %d: mining failed: %v", idx, err))
			return
		}
		blk := res.Block
		checkDiscards(c, cl, t, cands, blk)
		if _, err := fx.WireE(blk, true); err != nil {
			c.Stat("redo_block_with_unencodable_logs", 1) // C11's known finding (negative votes); nothing published to redo
			return
		}
		wit := map[string]interface{}{"Monitor": "redo", "Chain": cl.Witness(t, cands, "redo")}
		if errs := cl.InsertAll(blk); errs[0] != nil {
			c.Stat("redo_block_rejected_by_validator", 1) // C01's known findings; no executed state to compare with
			return
		}
		cl.G.U.Block(blk)
		checkRedo(c, cl.Nodes[0], cl.G.U, blk, wit)
		kinds := map[string]bool{}
		for _, l := range blk.ChangeLogs {
			kinds[l.LogType.String()] = true
		}
		ks := make([]string, 0, len(kinds))
		for k := range kinds {
			ks = append(ks, k)
		}
		sort.Strings(ks)
		c.Case("redo "+strings.Join(ks, ","), len(ks) >= 3, map[string]interface{}{"monitor": "redo", "height": blk.Height(), "logs": len(blk.ChangeLogs), "types": ks})
		cl.Adopt(blk)
		if cl.MustStabiliseSoon() || r.Chance(1, 2) {
			cl.StabiliseAll()
		}
	}
}

// fixedRedo: funded -> self-destructs -> funded again, in one block.
func fixedRedo(c *run.Ctx, b *evmmon.Base) {
	cl := b.Cl
	g := cl.G
	t := cl.NextTime()
	exp := uint64(t) + 900
	s := b.Zoo["suicide-to"]
	u := b.W.Users
	cands := []scn.Cand{
		g.C(g.B.Call(u[8], s, fx.LEMO(5), 200000, nil, exp), "call-suicide-to", "ok"),
		g.C(g.B.Transfer(u[9], s, fx.LEMO(3), exp+1), "transfer", "ok"),
		g.C(g.B.Call(u[6], b.Zoo["store"], big.NewInt(0), 200000, append(fx.Word(2), fx.Word(0)...), exp+2), "call-store-clear", "ok"),
		g.C(g.B.Call(u[5], b.Zoo["creator"], fx.LEMO(1), 900000, nil, exp+3), "call-creator", "ok"),
	}
	c.WAL(map[string]interface{}{"Monitor": "redo", "fixed": "suicide-then-credit"})
	res, err := b.N.Mine(cl.Head, t, scn.Txs(cands), "")
	if err != nil {
		c.Inconclusive("fixed redo scenario: mining failed: " + err.Error())
		return
	}
	wit := map[string]interface{}{"Monitor": "redo", "Chain": cl.Witness(t, cands, "redo fixed")}
	if errs := cl.InsertAll(res.Block); errs[0] != nil {
		c.Inconclusive("fixed redo scenario: block rejected: " + errs[0].Error())
		return
	}
	g.U.Block(res.Block)
	g.U.StorageKey(b.Keys...)
	if os.Getenv("C07_DEBUG") != "" {
		fmt.Fprintf(os.Stderr, "fixed redo: included %d of %d\n", len(res.Block.Txs), len(cands))
		for _, l := range res.Block.ChangeLogs {
			fmt.Fprintf(os.Stderr, "  %s\n", l.String())
		}
	}
	checkRedo(c, b.N, g.U, res.Block, wit)
	c.Case("redo fixed suicide-then-credit", true, map[string]interface{}{"monitor": "redo", "fixed": "suicide-then-credit", "included": len(res.Block.Txs)})
	cl.Adopt(res.Block)
	cl.StabiliseAll()
	// consequence probe (noted, not judged here: acceptance of honest blocks is C01's property): a block that
	// contains the double-create-revert call
	t = cl.NextTime()
	cands = []scn.Cand{g.C(g.B.Call(u[8], b.Zoo["double-create-revert"], big.NewInt(0), 900000, nil, uint64(t)+900), "call-double-create-revert", "ok")}
	if res, err := b.N.Mine(cl.Head, t, scn.Txs(cands), ""); err == nil {
		if errs := cl.InsertAll(res.Block); errs[0] != nil {
			c.Note(fmt.Sprintf("consequence of C07/revert-differs:code:after-code: the honest miner's block with %d tx calling the double-create-revert contract is rejected by the node: %v", len(res.Block.Txs), errs[0]))
			c.Stat("double_create_block_rejected", 1)
		} else {
			cl.Adopt(res.Block)
		}
	}
}

// fixedSigners: only the weights of a multi-signature account's signers change (both, then one), then one signer is
// replaced; every block's published logs are replayed.
func fixedSigners(c *run.Ctx, b *evmmon.Base) {
	cl := b.Cl
	g := cl.G
	u := b.W.Users
	acc, s1, s2, s3 := b.Multisig, u[5], u[6], u[4] // the base chain registered {u5: 50, u6: 60} for this account
	steps := []struct {
		name    string
		signers types.Signers
		keys    []fx.Key
	}{
		{"weights-only", types.Signers{{Address: s1.Addr, Weight: 70}, {Address: s2.Addr, Weight: 80}}, []fx.Key{s1, s2}},
		{"one-weight-only", types.Signers{{Address: s1.Addr, Weight: 70}, {Address: s2.Addr, Weight: 55}}, []fx.Key{s1, s2}},
		{"signer-replaced", types.Signers{{Address: s1.Addr, Weight: 70}, {Address: s3.Addr, Weight: 55}}, []fx.Key{s1, s2}},
	}
	for _, st := range steps {
		t := cl.NextTime()
		tx := fx.Sign(g.B.ModifySignersUnsigned(acc.Addr, acc.Addr, st.signers, uint64(t)+900), st.keys...)
		cands := []scn.Cand{g.C(tx, "signers-"+st.name, "ok")}
		c.WAL(map[string]interface{}{"Monitor": "redo", "fixed": "signers-" + st.name})
		res, err := b.N.Mine(cl.Head, t, scn.Txs(cands), "")
		if err != nil || len(res.Block.Txs) != 1 {
			c.Note("fixed signers scenario: step " + st.name + " not packaged")
			return
		}
		wit := map[string]interface{}{"Monitor": "redo", "Chain": cl.Witness(t, cands, "redo fixed signers")}
		if errs := cl.InsertAll(res.Block); errs[0] != nil {
			c.Note("fixed signers scenario: block rejected: " + errs[0].Error())
			return
		}
		g.U.Block(res.Block)
		checkRedo(c, b.N, g.U, res.Block, wit)
		c.Case("redo fixed signers "+st.name, true, map[string]interface{}{"monitor": "redo", "fixed": "signers-" + st.name})
		cl.Adopt(res.Block)
		cl.StabiliseAll()
	}
}

// ---------------------------------------------------------------------------------------

func runAll(c *run.Ctx) {
	fx.Quiet()
	scn.SetParams()
	b, err := evmmon.NewBase(1)
	defer b.Close()
	if err != nil {
		c.Inconclusive(err.Error())
		return
	}
	e := newEnv(b)
	only := os.Getenv("C07_ONLY")
	if c.Batch == 0 && only == "" {
		for _, s := range fixedSeqs() {
			e.checkSeq(c, s, false)
		}
		for _, cs := range evmmon.Fixed(b) {
			checkEVM(c, b, e, cs)
		}
	}
	// monitor 1
	n := c.Pick(400, 10000)
	lo, hi := c.Share(n)
	for i := lo; i < hi; i++ {
		if only != "" && only != fmt.Sprint(i) {
			continue
		}
		r := run.NewRng(c.Seed, 7, 1, uint64(i))
		s := e.genSeq(r, r.Range(40, 80))
		e.checkSeq(c, s, true)
	}
	// monitor 2
	n = c.Pick(300, 7500)
	lo, hi = c.Share(n)
	for i := lo; i < hi; i++ {
		if only != "" {
			break
		}
		g := &evmmon.Gen{B: b, R: run.NewRng(c.Seed, 7, 2, uint64(i))}
		var cs *evmmon.Case
		switch p := g.R.Intn(10); {
		case p < 6:
			cs = g.Template()
		case p < 8:
			cs = g.Asset()
		case p < 9:
			cs = g.Grammar()
		default:
			cs = g.Precompile()
		}
		checkEVM(c, b, e, cs)
	}
	// monitor 3
	if only == "" {
		n = c.Pick(16, 400)
		lo, hi = c.Share(n)
		for i := lo; i < hi; i++ {
			redoScenario(c, i)
		}
		if c.Batch == 0 {
			fixedRedo(c, b)
			fixedSigners(c, b)
		}
	}
}

func replay(c *run.Ctx, raw json.RawMessage) {
	fx.Quiet()
	scn.SetParams()
	var head struct {
		Monitor string
		Case    *evmmon.Case
		Chain   *scn.Witness
	}
	if err := json.Unmarshal(raw, &head); err != nil {
		c.Inconclusive("bad witness: " + err.Error())
		return
	}
	switch head.Monitor {
	case "direct", "evm":
		b, err := evmmon.NewBase(1)
		defer b.Close()
		if err != nil {
			c.Inconclusive(err.Error())
			return
		}
		e := newEnv(b)
		if head.Monitor == "evm" {
			checkEVM(c, b, e, head.Case)
			return
		}
		var s Seq
		if err := json.Unmarshal(raw, &s); err != nil {
			c.Inconclusive("bad witness: " + err.Error())
			return
		}
		e.checkSeq(c, &s, false)
	case "redo":
		if head.Chain == nil {
			c.Inconclusive("redo witness without chain")
			return
		}
		cl, cands, err := scn.Rebuild(head.Chain)
		defer cl.Close()
		if err != nil {
			c.Inconclusive(err.Error())
			return
		}
		res, err := cl.Nodes[0].Mine(cl.Head, head.Chain.Time, scn.Txs(cands), "")
		if err != nil {
			c.Inconclusive("replay: mining failed: " + err.Error())
			return
		}
		checkDiscards(c, cl, head.Chain.Time, cands, res.Block)
		if errs := cl.InsertAll(res.Block); errs[0] != nil {
			c.Note("replay: block rejected: " + errs[0].Error())
			c.Case("replay redo", true, nil)
			return
		}
		cl.G.U.Block(res.Block)
		for k := uint64(0); k < 16; k++ {
			cl.G.U.StorageKey(fx.HashU(k))
		}
		checkRedo(c, cl.Nodes[0], cl.G.U, res.Block, raw)
		c.Case("replay redo", true, nil)
	default:
		c.Inconclusive("unknown witness kind " + head.Monitor)
	}
}

func main() { run.Main(run.Engine{Batches: batches, Run: runAll, Replay: replay}) }
