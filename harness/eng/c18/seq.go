package main

import (
	"fmt"

	"github.com/LemoFoundationLtd/lemochain-core/chain/txpool"

	"verif/fx/run"
)

// Monitor 1: sequential op sequences against the statement's clauses.

type SeqOp struct {
	Op   string `json:"op"` // add | adds | get | del
	IDs  []int  `json:"ids,omitempty"`
	Time uint32 `json:"time,omitempty"`
	Size int    `json:"size,omitempty"`
}

func (o SeqOp) String() string {
	switch o.Op {
	case "get":
		return fmt.Sprintf("GetTxs(%d,%d)", o.Time, o.Size)
	case "add":
		return fmt.Sprintf("AddTx(%d)", o.IDs[0])
	case "adds":
		return fmt.Sprintf("AddTxs(%v)", o.IDs)
	default:
		return fmt.Sprintf("DelTxs(%v)", o.IDs)
	}
}

type SeqCase struct {
	Mon  string   `json:"mon"`
	Kind string   `json:"kind"`
	U    []TxSpec `json:"universe"`
	Ops  []SeqOp  `json:"ops"`
	What string   `json:"what,omitempty"`
}

type viol struct {
	class string
	msg   string
	at    int
}

type seqStats struct {
	ops, accepted, rejected, selections, complete, entries, dels, gcResets, expiredMoves, maxAppended, partialAdds int64
	orphanStates, boxAccepted, absentBoxDeletes                                                                    int64
}

const orphanSuffix = ":orphaned-by-box-delete"

// shadow mirrors the pool's slice + hash index bookkeeping as written in tx_pool.go. It never decides a
// verdict: it only names the mechanism of a violation the oracle has found. "orphaned" means that at some
// point since the pool last reset its storage a pending entry (or the sub-tx link of a pending box) had no
// index entry pointing at it any more -- the state the deletion of a box (DelTxs or expiry) leaves behind
// when the sub-tx index entries it removes belong to other entries.
type shadow struct {
	u        *Universe
	slots    []int
	index    map[int]int
	orphaned bool
	wiped    uint64 // entries that were still in the slice when an emptied index made the pool reset its storage
}

func newShadow(u *Universe) *shadow { return &shadow{u: u, index: map[int]int{}} }

func (p *shadow) add(id int) {
	if _, ok := p.index[id]; ok {
		return
	}
	for _, s := range p.u.Specs[id].Subs {
		if _, ok := p.index[s]; ok {
			return
		}
	}
	p.wiped &^= bit(id)
	p.slots = append(p.slots, id)
	p.index[id] = len(p.slots) - 1
	for _, s := range p.u.Specs[id].Subs {
		p.index[s] = len(p.slots) - 1
	}
}

func (p *shadow) delOne(id int) {
	if i, ok := p.index[id]; ok {
		p.slots[i] = -1
		delete(p.index, id)
	}
	for _, s := range p.u.Specs[id].Subs {
		delete(p.index, s)
	}
}

func (p *shadow) del(ids []int) {
	for _, id := range ids {
		p.delOne(id)
	}
	p.scan()
	if len(p.index) == 0 {
		for _, id := range p.slots {
			if id >= 0 {
				p.wiped |= bit(id)
			}
		}
		p.slots = nil
		p.orphaned = false
	}
}

func (p *shadow) get(time uint32, size int) {
	n := 0
	for _, id := range p.slots {
		if id < 0 {
			continue
		}
		if p.u.EffExp[id] < uint64(time) {
			p.delOne(id)
			continue
		}
		if n++; n >= size {
			break
		}
	}
	p.scan()
}

func (p *shadow) scan() {
	for i, id := range p.slots {
		if id < 0 {
			continue
		}
		if j, ok := p.index[id]; !ok || j != i {
			p.orphaned = true
		}
		for _, s := range p.u.Specs[id].Subs {
			if j, ok := p.index[s]; !ok || j != i {
				p.orphaned = true
			}
		}
	}
}

// execSeq runs ops on a fresh pool in lock-step with the model and returns the first violation.
func execSeq(u *Universe, ops []SeqOp, st *seqStats) *viol {
	pool := txpool.NewTxPool()
	var s mstate
	var deleted, ever uint64
	appended := int64(0)
	sh := newShadow(u)
	cls := func(base string, involved uint64) string {
		if sh.orphaned || involved&sh.wiped != 0 {
			return "C18/" + base + orphanSuffix
		}
		return "C18/" + base
	}
	for i, op := range ops {
		st.ops++
		switch op.Op {
		case "add":
			id := op.IDs[0]
			sh.add(id)
			if err := pool.AddTx(u.Txs[id]); err == nil {
				s = s.addOK(id)
				deleted &^= bit(id)
				ever |= bit(id)
				appended++
				st.accepted++
				if u.IsBox(id) {
					st.boxAccepted++
				}
			} else {
				st.rejected++
			}
		case "adds":
			for _, id := range op.IDs {
				sh.add(id)
			}
			n := pool.AddTxs(u.txsOf(op.IDs))
			appended += int64(n)
			st.accepted += int64(n)
			st.rejected += int64(len(op.IDs) - n)
			switch {
			case n == len(op.IDs):
				for _, id := range op.IDs {
					s = s.addOK(id)
					deleted &^= bit(id)
					ever |= bit(id)
				}
			case n == 0:
			default:
				// the pool does not say which ones it took
				st.partialAdds++
				for _, id := range op.IDs {
					if s.must&bit(id) == 0 {
						s.may |= bit(id)
						deleted &^= bit(id)
						ever |= bit(id)
					}
				}
			}
		case "del":
			st.dels++
			removed, _ := u.delEffect(op.IDs)
			for _, id := range op.IDs {
				if u.IsBox(id) && (s.must|s.may)&bit(id) == 0 {
					st.absentBoxDeletes++
				}
			}
			sh.del(op.IDs)
			s = s.del(u, op.IDs)
			deleted |= removed
			pool.DelTxs(u.txsOf(op.IDs))
			if pool.IsEmpty() {
				// the pool has reset its storage
				appended = 0
				st.gcResets++
			}
		case "get":
			st.selections++
			sel := pool.GetTxs(op.Time, op.Size)
			sh.get(op.Time, op.Size)
			if sh.orphaned {
				st.orphanStates++
			}
			ids := u.selIDs(sel)
			st.entries += int64(len(ids))
			var selM uint64
			expired := u.expiredMask(op.Time)
			for _, id := range ids {
				if id < 0 {
					return &viol{"C18/selection-never-accepted", fmt.Sprintf("op %d %s handed out a transaction that was never submitted", i, op), i}
				}
				if selM&bit(id) != 0 {
					return &viol{cls("selection-duplicate", bit(id)), fmt.Sprintf("op %d %s handed out tx %d twice: %v", i, op, id, ids), i}
				}
				selM |= bit(id)
			}
			for _, id := range ids {
				if expired&bit(id) != 0 {
					return &viol{cls("selection-expired", bit(id)), fmt.Sprintf("op %d %s handed out tx %d whose expiration is %d", i, op, id, u.EffExp[id]), i}
				}
			}
			for _, id := range ids {
				if deleted&bit(id) != 0 {
					return &viol{cls("selection-deleted", bit(id)), fmt.Sprintf("op %d %s handed out tx %d which the pool was told to delete after its last accepted submission", i, op, id), i}
				}
				if ever&bit(id) == 0 {
					return &viol{cls("selection-never-accepted", bit(id)), fmt.Sprintf("op %d %s handed out tx %d which the pool never accepted", i, op, id), i}
				}
			}
			for _, id := range ids {
				if both := u.subsM[id] & selM; both != 0 {
					return &viol{cls("selection-box-and-subtx", bit(id)|both), fmt.Sprintf("op %d %s handed out box %d together with its sub txs %v", i, op, id, idsOf(both)), i}
				}
			}
			if len(ids) < op.Size {
				st.complete++
				if missing := s.must &^ expired &^ selM; missing != 0 {
					return &viol{cls("accepted-tx-lost:sequential", missing), fmt.Sprintf("op %d %s (whole pool fits) does not contain accepted, undeleted, unexpired txs %v; got %v", i, op, idsOf(missing), ids), i}
				}
			}
			if s.must&expired != 0 {
				st.expiredMoves++
			}
			s = s.afterGet(u, op.Time, selM)
		}
		if appended > st.maxAppended {
			st.maxAppended = appended
		}
	}
	return nil
}

// shrinkSeq greedily removes ops while the same class keeps firing.
func shrinkSeq(u *Universe, ops []SeqOp, class string) []SeqOp {
	cur := append([]SeqOp{}, ops...)
	budget := 4000
	for changed := true; changed && budget > 0; {
		changed = false
		for i := len(cur) - 1; i >= 0 && budget > 0; i-- {
			cand := append(append([]SeqOp{}, cur[:i]...), cur[i+1:]...)
			budget--
			var st seqStats
			if v := execSeq(u, cand, &st); v != nil && v.class == class {
				cur = cand[:v.at+1]
				changed = true
				if i > len(cur) {
					i = len(cur)
				}
			}
		}
	}
	return cur
}

const seqT0 = 100000

// genSeq draws one sequential case.
func genSeq(r *run.Rng, idx int) *SeqCase {
	kinds := []string{"mixed", "churn", "expiry", "boxy", "mixed", "boxy", "expiry", "mixed"}
	kind := kinds[idx%len(kinds)]
	nPlain, nBox, nOps := r.Range(6, 30), r.Range(0, 6), r.Range(30, 120)
	churn := kind == "churn"
	switch kind {
	case "churn":
		nPlain, nBox, nOps = r.Range(8, 34), r.Range(0, 6), r.Range(500, 900)
	case "expiry":
		nPlain, nBox, nOps = r.Range(5, 20), r.Range(0, 4), r.Range(40, 120)
	case "boxy":
		nPlain, nBox, nOps = r.Range(3, 9), r.Range(3, 8), r.Range(20, 90)
	}
	// every other case lists the sub txs of a box in front of the box whenever it deletes a box: such
	// deletions never leave an entry without index, so these cases explore past the orphaned-index defect
	safe := (idx/len(kinds))%2 == 1 || churn // long histories have to survive
	if safe {
		kind += "-subsfirst"
	}
	cs := &SeqCase{Mon: "seq", Kind: kind}
	cs.U = genUniverse(r, nPlain, nBox, kinds[idx%len(kinds)] == "expiry")
	expand := func(ids []int) []int {
		if !safe {
			return ids
		}
		var out []int
		for _, id := range ids {
			out = append(out, cs.U[id].Subs...)
			out = append(out, id)
		}
		return out
	}
	n := len(cs.U)
	if churn {
		// an anchor that stays pending for the whole history keeps the pool from resetting its storage
		cs.U = append(cs.U, TxSpec{ID: n, Exp: seqT0 + 100000})
		cs.Ops = append(cs.Ops, SeqOp{Op: "add", IDs: []int{n}})
	}
	var boxes []int
	for _, s := range cs.U {
		if len(s.Subs) > 0 {
			boxes = append(boxes, s.ID)
		}
	}
	in := map[int]bool{} // generator's guess of what is pending (bias only)
	guess := func() []int {
		var out []int
		for i := 0; i < n; i++ {
			if in[i] {
				out = append(out, i)
			}
		}
		return out
	}
	now := uint32(seqT0 - 3)
	w := map[string][6]int{ // add adds get del delall delbox
		"mixed":  {35, 10, 25, 25, 2, 3},
		"churn":  {44, 5, 8, 42, 0, 1},
		"expiry": {30, 6, 45, 15, 1, 3},
		"boxy":   {34, 10, 22, 18, 2, 14},
	}[kinds[idx%len(kinds)]]
	total := 0
	for _, x := range w {
		total += x
	}
	for len(cs.Ops) < nOps {
		p := r.Intn(total)
		k := 0
		for ; k < 6; k++ {
			if p < w[k] {
				break
			}
			p -= w[k]
		}
		switch k {
		case 0:
			id := r.Intn(n)
			if churn && r.Chance(2, 3) {
				// prefer something that is not pending so that the slice keeps growing
				for t := 0; t < 4 && in[id]; t++ {
					id = r.Intn(n)
				}
			}
			cs.Ops = append(cs.Ops, SeqOp{Op: "add", IDs: []int{id}})
			in[id] = true
		case 1:
			var ids []int
			for j, m := 0, r.Range(2, 6); j < m; j++ {
				id := r.Intn(n)
				ids = append(ids, id)
				in[id] = true
			}
			if r.Chance(1, 10) {
				ids = append(ids, ids[0])
			}
			cs.Ops = append(cs.Ops, SeqOp{Op: "adds", IDs: ids})
		case 2:
			now += uint32(r.Range(0, 3))
			if r.Chance(1, 10) && now > seqT0+20 {
				now -= 20
			}
			t := int(now) + r.Range(-3, 6)
			size := 1000
			switch p := r.Intn(100); {
			case p < 15:
				size = len(guess()) + r.Range(0, 1)
				if size < 1 {
					size = 1
				}
			case p < 35:
				size = r.Range(1, 5)
			}
			cs.Ops = append(cs.Ops, SeqOp{Op: "get", Time: uint32(t), Size: size})
		case 3:
			var ids []int
			g := guess()
			for j, m := 0, r.Range(1, 4); j < m; j++ {
				if len(g) > 0 && r.Chance(7, 10) {
					ids = append(ids, g[r.Intn(len(g))])
				} else {
					ids = append(ids, r.Intn(n))
				}
			}
			for _, id := range ids {
				delete(in, id)
			}
			cs.Ops = append(cs.Ops, SeqOp{Op: "del", IDs: expand(ids)})
		case 4:
			ids := r.Perm(n)
			cs.Ops = append(cs.Ops, SeqOp{Op: "del", IDs: expand(ids)})
			in = map[int]bool{}
		case 5:
			if len(boxes) == 0 {
				continue
			}
			id := boxes[r.Intn(len(boxes))]
			cs.Ops = append(cs.Ops, SeqOp{Op: "del", IDs: expand([]int{id})})
			delete(in, id)
		}
	}
	if churn {
		// empty the pool after the capacity has grown (gc shrinks it again), then go on
		cs.Ops = append(cs.Ops, SeqOp{Op: "del", IDs: expand(r.Perm(n))}, SeqOp{Op: "get", Time: now, Size: 1000})
		for j, m := 0, r.Range(3, 140); j < m; j++ {
			cs.Ops = append(cs.Ops, SeqOp{Op: "add", IDs: []int{r.Intn(n)}})
			if j%7 == 6 {
				cs.Ops = append(cs.Ops, SeqOp{Op: "del", IDs: expand([]int{r.Intn(n), r.Intn(n)})})
			}
		}
		cs.Ops = append(cs.Ops, SeqOp{Op: "get", Time: now, Size: 1000})
	}
	return cs
}

// genUniverse draws nPlain transfers and nBox boxes over them, expirations around seqT0.
func genUniverse(r *run.Rng, nPlain, nBox int, nearOnly bool) []TxSpec {
	var specs []TxSpec
	for i := 0; i < nPlain; i++ {
		exp := uint64(seqT0 + 100000)
		if nearOnly || r.Chance(6, 10) {
			exp = uint64(seqT0 + r.Range(0, 60))
		}
		specs = append(specs, TxSpec{ID: i, Exp: exp})
	}
	hot := r.Range(2, 4)
	if hot > nPlain {
		hot = nPlain
	}
	for b := 0; b < nBox && nPlain >= 2; b++ {
		k := r.Range(2, 3)
		if k > nPlain {
			k = nPlain
		}
		var subs []int
		seen := map[int]bool{}
		for len(subs) < k {
			var id int
			if r.Chance(6, 10) {
				id = r.Intn(hot)
			} else {
				id = r.Intn(nPlain)
			}
			if seen[id] {
				if len(seen) >= hot && len(seen) >= nPlain {
					break
				}
				id = r.Intn(nPlain)
				if seen[id] {
					continue
				}
			}
			seen[id] = true
			subs = append(subs, id)
		}
		min := specs[subs[0]].Exp
		for _, s := range subs {
			if specs[s].Exp < min {
				min = specs[s].Exp
			}
		}
		exp := min
		switch p := r.Intn(100); {
		case p < 45:
			if d := uint64(r.Range(0, 5)); exp > seqT0 && exp-d >= seqT0-2 {
				exp -= d
			}
		case p < 85:
		default:
			exp = min + uint64(r.Range(1, 30)) // a box that outlives one of its sub txs
		}
		specs = append(specs, TxSpec{ID: len(specs), Exp: exp, Subs: subs})
	}
	return specs
}

func fmtOps(ops []SeqOp) string {
	s := ""
	for i, o := range ops {
		if i > 0 {
			s += "; "
		}
		s += o.String()
	}
	return s
}

// runSeqCase executes one case, reports and shrinks a violation. It returns true if silent.
func runSeqCase(c *run.Ctx, cs *SeqCase, st *seqStats, shrink bool) bool {
	u, err := BuildUniverse(cs.U)
	if err != nil {
		c.Inconclusive("sequential case: " + err.Error())
		return true
	}
	v := execSeq(u, cs.Ops, st)
	if v == nil {
		return true
	}
	ops := cs.Ops[:v.at+1]
	if shrink && reported(v.class) < 2 {
		ops = shrinkSeq(u, ops, v.class)
		var tmp seqStats
		if v2 := execSeq(u, ops, &tmp); v2 != nil && v2.class == v.class {
			v = v2
		}
	}
	w := &SeqCase{Mon: "seq", Kind: cs.Kind, U: cs.U, Ops: ops}
	w.What = v.msg + " | sequence: " + fmtOps(ops) + " | universe: " + fmtUniverse(cs.U, ops)
	report(c, v.class, w.What, w)
	return false
}

// fmtUniverse prints the specs of the txs an op list mentions (and their relatives).
func fmtUniverse(specs []TxSpec, ops []SeqOp) string {
	used := map[int]bool{}
	for _, o := range ops {
		for _, id := range o.IDs {
			used[id] = true
			for _, s := range specs[id].Subs {
				used[s] = true
			}
		}
	}
	out := ""
	for _, s := range specs {
		if !used[s.ID] {
			continue
		}
		if len(s.Subs) > 0 {
			out += fmt.Sprintf("%d=box%v exp %d, ", s.ID, s.Subs, s.Exp)
		} else {
			out += fmt.Sprintf("%d=tx exp %d, ", s.ID, s.Exp)
		}
	}
	return out
}
