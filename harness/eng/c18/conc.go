package main

import (
	"fmt"
	"runtime"
	"sort"
	"sync"
	"sync/atomic"
	"time"

	"github.com/anishathalye/porcupine"

	"github.com/LemoFoundationLtd/lemochain-core/chain/txpool"

	"verif/fx/run"
)

// Monitor 2: concurrent histories. Every call is recorded at the client boundary with two
// stamps from one atomic counter; the checks run offline on the recorded history.

type COp struct {
	Proc  int    `json:"proc"`
	Op    string `json:"op"`
	IDs   []int  `json:"ids,omitempty"`
	Time  uint32 `json:"time,omitempty"`
	Size  int    `json:"size,omitempty"`
	Yield int    `json:"yield,omitempty"` // scheduler yields before the call (program, not result)
	Call  int64  `json:"call"`
	Ret   int64  `json:"ret"`
	OK    bool   `json:"ok,omitempty"`    // AddTx returned nil
	Count int    `json:"count,omitempty"` // AddTxs result
	Sel   []int  `json:"sel,omitempty"`   // GetTxs result as ids, in order, duplicates kept
	Panic string `json:"panic,omitempty"`
}

func (o COp) String() string {
	switch o.Op {
	case "get":
		return fmt.Sprintf("p%d GetTxs(%d,%d)=%v [%d,%d]", o.Proc, o.Time, o.Size, o.Sel, o.Call, o.Ret)
	case "add":
		return fmt.Sprintf("p%d AddTx(%d)=%v [%d,%d]", o.Proc, o.IDs[0], o.OK, o.Call, o.Ret)
	case "adds":
		return fmt.Sprintf("p%d AddTxs(%v)=%d [%d,%d]", o.Proc, o.IDs, o.Count, o.Call, o.Ret)
	default:
		return fmt.Sprintf("p%d DelTxs(%v) [%d,%d]", o.Proc, o.IDs, o.Call, o.Ret)
	}
}

type ConcCase struct {
	Mon   string    `json:"mon"`
	U     []TxSpec  `json:"universe"`
	Progs [][]SeqOp `json:"programs"`
	Yield [][]int   `json:"yields"`
	Hist  []COp     `json:"history,omitempty"`
	What  string    `json:"what,omitempty"`
}

const concT0 = 200000
const concSize = 64 // larger than any universe: every selection scans the whole pool

// genConc draws one concurrent case: 4..8 clients, <= 30 calls over <= 9 txs.
func genConc(r *run.Rng, idx int) *ConcCase {
	nPlain, nBox := r.Range(2, 6), r.Range(1, 3)
	if idx%5 < 2 {
		nBox = 0 // box-free histories: nothing in them can be attributed to the box-delete mechanism
	}
	cs := &ConcCase{Mon: "conc"}
	var specs []TxSpec
	for i := 0; i < nPlain; i++ {
		exp := uint64(concT0 + 100000)
		if r.Chance(1, 3) {
			exp = uint64(concT0 + r.Range(0, 6))
		}
		specs = append(specs, TxSpec{ID: i, Exp: exp})
	}
	for b := 0; b < nBox; b++ {
		k := 2
		if nPlain >= 3 && r.Chance(1, 3) {
			k = 3
		}
		p := r.Perm(nPlain)[:k]
		min := specs[p[0]].Exp
		for _, s := range p {
			if specs[s].Exp < min {
				min = specs[s].Exp
			}
		}
		specs = append(specs, TxSpec{ID: len(specs), Exp: min, Subs: append([]int{}, p...)})
	}
	cs.U = specs
	n := len(specs)
	// AddTxs lists stay inside one independent group (box/sub-tx component)
	groups := (&Universe{Specs: specs}).groups()
	procs := r.Range(4, 8)
	total := r.Range(12, 30)
	cs.Progs = make([][]SeqOp, procs)
	cs.Yield = make([][]int, procs)
	for k := 0; k < total; k++ {
		p := k % procs
		if k >= procs {
			p = r.Intn(procs)
		}
		var op SeqOp
		switch q := r.Intn(100); {
		case q < 38:
			op = SeqOp{Op: "add", IDs: []int{r.Intn(n)}}
		case q < 48:
			g := idsOf(groups[r.Intn(len(groups))])
			if len(g) < 2 {
				op = SeqOp{Op: "add", IDs: g}
			} else {
				pp := r.Perm(len(g))
				m := 2
				if len(g) > 2 && r.Chance(1, 2) {
					m = 3
				}
				var ids []int
				for _, x := range pp[:m] {
					ids = append(ids, g[x])
				}
				op = SeqOp{Op: "adds", IDs: ids}
			}
		case q < 75:
			op = SeqOp{Op: "get", Time: uint32(concT0 + r.Range(-2, 8)), Size: concSize}
		default:
			m := 1
			if r.Chance(1, 3) {
				m = 2
			}
			pp := r.Perm(n)
			var ids []int
			for _, id := range pp[:m] {
				if idx%2 == 1 {
					// sub txs first: such deletions never leave an entry without index (see genSeq)
					ids = append(ids, specs[id].Subs...)
				}
				ids = append(ids, id)
			}
			op = SeqOp{Op: "del", IDs: ids}
		}
		cs.Progs[p] = append(cs.Progs[p], op)
		cs.Yield[p] = append(cs.Yield[p], r.Intn(4))
	}
	return cs
}

// execConc runs the programs concurrently on a fresh pool and returns the recorded history.
func execConc(u *Universe, cs *ConcCase) []COp {
	pool := txpool.NewTxPool()
	var clock int64
	start := make(chan struct{})
	var wg sync.WaitGroup
	recs := make([][]COp, len(cs.Progs))
	for p := range cs.Progs {
		wg.Add(1)
		go func(p int) {
			defer wg.Done()
			prog := cs.Progs[p]
			out := make([]COp, 0, len(prog))
			<-start
			for k, op := range prog {
				y := 0
				if p < len(cs.Yield) && k < len(cs.Yield[p]) {
					y = cs.Yield[p][k]
				}
				for j := 0; j < y; j++ {
					runtime.Gosched()
				}
				rec := COp{Proc: p, Op: op.Op, IDs: op.IDs, Time: op.Time, Size: op.Size, Yield: y}
				func() {
					defer func() {
						if e := recover(); e != nil {
							rec.Panic = fmt.Sprint(e)
							rec.Ret = atomic.AddInt64(&clock, 1)
						}
					}()
					switch op.Op {
					case "add":
						tx := u.Txs[op.IDs[0]]
						rec.Call = atomic.AddInt64(&clock, 1)
						err := pool.AddTx(tx)
						rec.Ret = atomic.AddInt64(&clock, 1)
						rec.OK = err == nil
					case "adds":
						txs := u.txsOf(op.IDs)
						rec.Call = atomic.AddInt64(&clock, 1)
						n := pool.AddTxs(txs)
						rec.Ret = atomic.AddInt64(&clock, 1)
						rec.Count = n
					case "del":
						txs := u.txsOf(op.IDs)
						rec.Call = atomic.AddInt64(&clock, 1)
						pool.DelTxs(txs)
						rec.Ret = atomic.AddInt64(&clock, 1)
					case "get":
						rec.Call = atomic.AddInt64(&clock, 1)
						sel := pool.GetTxs(op.Time, op.Size)
						rec.Ret = atomic.AddInt64(&clock, 1)
						rec.Sel = u.selIDs(sel)
					}
				}()
				out = append(out, rec)
			}
			recs[p] = out
		}(p)
	}
	close(start)
	wg.Wait()
	var hist []COp
	for _, r := range recs {
		hist = append(hist, r...)
	}
	sort.Slice(hist, func(i, j int) bool { return hist[i].Call < hist[j].Call })
	return hist
}

type concStats struct {
	histories, ops, overlaps, selections, entries, lossJudged, soundJudged int64
	porcOK, porcIllegal, porcUnknown, porcPartitioned                      int64
}

// boxDeleteSeen tells whether a call that makes the pool delete a box began before stamp `before`: a
// DelTxs listing a box, or a selection at a time past a box's expiration. Only such calls can leave pending
// entries without index entry (see shadow in seq.go); without a sequential order the concurrent checker
// cannot be more precise, so every violation of a history that contains one is attributed to that mechanism.
func boxDeleteSeen(u *Universe, hist []COp, before int64) bool {
	for _, o := range hist {
		if o.Call >= before {
			continue
		}
		switch o.Op {
		case "del":
			for _, id := range o.IDs {
				if u.IsBox(id) {
					return true
				}
			}
		case "get":
			for id := range u.Specs {
				if u.IsBox(id) && u.EffExp[id] < uint64(o.Time) {
					return true
				}
			}
		}
	}
	return false
}

// checkIntervals is the conservative offline checker: it reports only what no linearization
// of the recorded intervals can explain.
func checkIntervals(u *Universe, hist []COp, st *concStats) []viol {
	var out []viol
	n := len(u.Specs)
	type iv struct {
		call, ret int64
	}
	maybeAdds := make([][]iv, n) // calls that may have put x into the pool
	defAdds := make([][]iv, n)   // calls that certainly did
	deleters := make([][]iv, n)  // calls that told the pool to delete x (listed, or sub tx of a listed box)
	removers := make([][]iv, n)  // calls after which x may legitimately be gone
	for _, o := range hist {
		if o.Panic != "" {
			continue
		}
		i := iv{o.Call, o.Ret}
		switch o.Op {
		case "add":
			if o.OK {
				x := o.IDs[0]
				maybeAdds[x] = append(maybeAdds[x], i)
				defAdds[x] = append(defAdds[x], i)
			}
		case "adds":
			if o.Count > 0 {
				for _, x := range o.IDs {
					maybeAdds[x] = append(maybeAdds[x], i)
					if o.Count == len(o.IDs) {
						defAdds[x] = append(defAdds[x], i)
					}
				}
			}
		case "del":
			removed, maybe := u.delEffect(o.IDs)
			for _, x := range idsOf(removed) {
				deleters[x] = append(deleters[x], i)
				removers[x] = append(removers[x], i)
			}
			for _, x := range idsOf(maybe) {
				removers[x] = append(removers[x], i)
			}
		case "get":
			for _, x := range idsOf(u.expiredMask(o.Time)) {
				removers[x] = append(removers[x], i)
			}
		}
	}
	cls := func(base string, involved uint64, before int64) string {
		if boxDeleteSeen(u, hist, before) {
			return "C18/" + base + orphanSuffix
		}
		return "C18/" + base
	}
	for _, g := range hist {
		if g.Op != "get" || g.Panic != "" {
			continue
		}
		st.selections++
		st.entries += int64(len(g.Sel))
		var selM uint64
		bad := false
		for _, id := range g.Sel {
			if id < 0 {
				out = append(out, viol{class: "C18/selection-never-accepted", msg: g.String() + " handed out a transaction that was never submitted"})
				bad = true
				continue
			}
			if selM&bit(id) != 0 {
				out = append(out, viol{class: cls("selection-duplicate", bit(id), g.Ret), msg: fmt.Sprintf("%s handed out tx %d twice", g, id)})
				bad = true
			}
			selM |= bit(id)
		}
		if bad {
			continue
		}
		expired := u.expiredMask(g.Time)
		for _, id := range g.Sel {
			if expired&bit(id) != 0 {
				out = append(out, viol{class: cls("selection-expired", bit(id), g.Ret), msg: fmt.Sprintf("%s handed out tx %d whose expiration is %d", g, id, u.EffExp[id])})
			}
			if both := u.subsM[id] & selM; both != 0 {
				out = append(out, viol{class: cls("selection-box-and-subtx", bit(id)|both, g.Ret), msg: fmt.Sprintf("%s handed out box %d together with its sub txs %v", g, id, idsOf(both))})
			}
			// soundness: some (possibly) accepted add began before the selection returned and is not
			// followed by a delete that lies completely between that add and the selection
			st.soundJudged++
			began, ok := false, false
			for _, a := range maybeAdds[id] {
				if a.call >= g.Ret {
					continue
				}
				began = true
				killed := false
				for _, d := range deleters[id] {
					if a.ret < d.call && d.ret < g.Call {
						killed = true
						break
					}
				}
				if !killed {
					ok = true
					break
				}
			}
			if !began {
				out = append(out, viol{class: cls("selection-never-accepted", bit(id), g.Ret), msg: fmt.Sprintf("%s handed out tx %d although no accepted submission of it began before the selection returned", g, id)})
			} else if !ok {
				out = append(out, viol{class: cls("selection-deleted", bit(id), g.Ret), msg: fmt.Sprintf("%s handed out tx %d although every accepted submission of it was followed by a delete that completed before the selection began", g, id)})
			}
		}
		if len(g.Sel) >= g.Size {
			continue
		}
		// no loss: an add that was certainly accepted and completed before the selection began, with no
		// delete / expiry-dropping query that could be ordered between them
		for x := 0; x < n; x++ {
			if selM&bit(x) != 0 || expired&bit(x) != 0 {
				continue
			}
			for _, a := range defAdds[x] {
				if a.ret >= g.Call {
					continue
				}
				st.lossJudged++
				excused := false
				for _, rm := range removers[x] {
					if rm.ret > a.call && rm.call < g.Ret {
						excused = true
						break
					}
				}
				if !excused {
					out = append(out, viol{class: cls("accepted-tx-lost:concurrent", bit(x), g.Ret), msg: fmt.Sprintf("%s does not contain tx %d whose accepted submission [%d,%d] completed before and which no delete or expiry could have removed", g, x, a.call, a.ret)})
					break
				}
			}
		}
	}
	return out
}

// ---- porcupine ----

type pIn struct {
	op   string
	ids  []int
	time uint32
	mask uint64 // projection mask (all ones for the whole history)
}
type pOut struct {
	ok    bool
	count int
	sel   uint64
	dup   bool
}

// poolModel is the sequential specification: a set of pending txs (must) plus the txs the
// statement allows the pool to have dropped (may). Rejections are unconstrained.
func poolModel(u *Universe) porcupine.Model {
	nm := porcupine.NondeterministicModel{
		Init: func() []interface{} { return []interface{}{mstate{}} },
		Step: func(state interface{}, input interface{}, output interface{}) []interface{} {
			s := state.(mstate)
			in := input.(pIn)
			out := output.(pOut)
			switch in.op {
			case "add":
				if out.ok {
					return []interface{}{s.addOK(in.ids[0])}
				}
				return []interface{}{s}
			case "adds":
				k := len(in.ids)
				if out.count < 0 || out.count > k {
					return nil
				}
				var res []interface{}
				for sub := 0; sub < 1<<uint(k); sub++ {
					c := 0
					ns := s
					for j := 0; j < k; j++ {
						if sub&(1<<uint(j)) != 0 {
							c++
							ns = ns.addOK(in.ids[j])
						}
					}
					if c == out.count {
						res = append(res, ns)
					}
				}
				return res
			case "del":
				ns := s.del(u, in.ids)
				ns.must &= in.mask
				ns.may &= in.mask
				return []interface{}{ns}
			case "get":
				if out.dup {
					return nil
				}
				expired := u.expiredMask(in.time)
				if out.sel&expired != 0 {
					return nil
				}
				if out.sel&^(s.must|s.may) != 0 {
					return nil
				}
				if (s.must&^expired)&^out.sel != 0 {
					return nil
				}
				ns := s.afterGet(u, in.time, out.sel)
				// a complete scan that did not return an unexpired "may" entry settles that it is gone
				ns.may &^= (s.may &^ expired) &^ out.sel
				return []interface{}{ns}
			}
			return nil
		},
		Equal: func(a, b interface{}) bool { return a.(mstate) == b.(mstate) },
		DescribeOperation: func(input interface{}, output interface{}) string {
			in := input.(pIn)
			out := output.(pOut)
			switch in.op {
			case "add":
				return fmt.Sprintf("AddTx(%d)=%v", in.ids[0], out.ok)
			case "adds":
				return fmt.Sprintf("AddTxs(%v)=%d", in.ids, out.count)
			case "del":
				return fmt.Sprintf("DelTxs(%v)", in.ids)
			}
			return fmt.Sprintf("GetTxs(%d)=%v", in.time, idsOf(out.sel))
		},
	}
	return nm.ToModel()
}

func toPorc(hist []COp, mask uint64) []porcupine.Operation {
	var ops []porcupine.Operation
	for _, o := range hist {
		in := pIn{op: o.Op, time: o.Time, mask: mask}
		out := pOut{ok: o.OK, count: o.Count}
		switch o.Op {
		case "get":
			for _, id := range o.Sel {
				if id < 0 {
					out.dup = true
					continue
				}
				if out.sel&bit(id) != 0 {
					out.dup = true
				}
				out.sel |= bit(id)
			}
			out.sel &= mask
		case "adds":
			// lists never leave their group: either fully inside the projection or outside
			if maskOf(o.IDs)&mask == 0 {
				continue
			}
			in.ids = o.IDs
		case "add":
			if bit(o.IDs[0])&mask == 0 {
				continue
			}
			in.ids = o.IDs
		case "del":
			var ids []int
			for _, id := range o.IDs {
				if bit(id)&mask != 0 {
					ids = append(ids, id)
				}
			}
			if len(ids) == 0 {
				continue
			}
			in.ids = ids
		}
		ops = append(ops, porcupine.Operation{ClientId: o.Proc, Input: in, Call: o.Call, Output: out, Return: o.Ret})
	}
	return ops
}

const porcTimeout = 3 * time.Second

// checkPorcupine checks the whole history, and per independent tx group when the whole
// history does not finish in time. Returns "Ok", "Illegal" or "Unknown".
func checkPorcupine(u *Universe, hist []COp, st *concStats) porcupine.CheckResult {
	for _, o := range hist {
		if o.Panic != "" {
			return porcupine.Unknown
		}
	}
	model := poolModel(u)
	all := ^uint64(0)
	res := porcupine.CheckOperationsTimeout(model, toPorc(hist, all), porcTimeout)
	if res != porcupine.Unknown {
		return res
	}
	st.porcPartitioned++
	final := porcupine.Ok
	for _, g := range u.groups() {
		r := porcupine.CheckOperationsTimeout(model, toPorc(hist, g), porcTimeout)
		if r == porcupine.Illegal {
			return porcupine.Illegal
		}
		if r == porcupine.Unknown {
			final = porcupine.Unknown
		}
	}
	return final
}

func countOverlaps(hist []COp) int64 {
	var n int64
	for i := range hist {
		for j := i + 1; j < len(hist); j++ {
			if hist[j].Call < hist[i].Ret && hist[i].Call < hist[j].Ret && hist[i].Proc != hist[j].Proc {
				n++
			}
		}
	}
	return n
}

// checkHistory runs all offline checks on a recorded history and reports violations.
func checkHistory(c *run.Ctx, u *Universe, cs *ConcCase, hist []COp, st *concStats) bool {
	st.histories++
	st.ops += int64(len(hist))
	st.overlaps += countOverlaps(hist)
	report := func(class, msg string) {
		w := *cs
		w.Hist = hist
		w.What = msg + " | history: " + fmtHist(hist) + " | universe: " + fmtUniverse(cs.U, progOps(cs))
		report(c, class, w.What, &w)
	}
	for _, o := range hist {
		if o.Panic != "" {
			report("C18/pool-call-panics", fmt.Sprintf("%s panicked: %s", o.Op, o.Panic))
			return false
		}
	}
	vs := checkIntervals(u, hist, st)
	seen := map[string]bool{}
	for _, v := range vs {
		if !seen[v.class] {
			seen[v.class] = true
			report(v.class, v.msg)
		}
	}
	res := checkPorcupine(u, hist, st)
	switch res {
	case porcupine.Ok:
		st.porcOK++
	case porcupine.Unknown:
		st.porcUnknown++
	case porcupine.Illegal:
		st.porcIllegal++
		if len(vs) == 0 {
			class := "C18/history-not-linearizable"
			if boxDeleteSeen(u, hist, 1<<62) {
				class += orphanSuffix
			}
			report(class, "no sequential order of the recorded calls that respects their real-time order is a run of a set-like pool")
		}
	}
	return len(vs) == 0 && res != porcupine.Illegal
}

func progOps(cs *ConcCase) []SeqOp {
	var out []SeqOp
	for _, p := range cs.Progs {
		out = append(out, p...)
	}
	return out
}

func fmtHist(hist []COp) string {
	s := ""
	for i, o := range hist {
		if i > 0 {
			s += "; "
		}
		s += o.String()
	}
	return s
}

// runFixedConc is the deterministic witness of the one class only the linearizability check can see: the
// schedule (a delete of an absent box that overlaps the submission of one of its sub txs) is scripted, the
// calls are real. DelTxs([box]) orphans the freshly added sub tx 2; it is still handed out; deleting the
// only other entry empties the index, the pool resets its storage and tx 2 is gone although it was neither
// deleted after its submission (if the delete is ordered first) nor may be handed out (if ordered second).
func runFixedConc(c *run.Ctx, st *concStats) {
	far := uint64(concT0 + 100000)
	cs := &ConcCase{Mon: "conc", U: []TxSpec{{ID: 0, Exp: far}, {ID: 1, Exp: far}, {ID: 2, Exp: far}, {ID: 3, Exp: far, Subs: []int{1, 2}}}}
	u, err := BuildUniverse(cs.U)
	if err != nil {
		c.Inconclusive("fixed concurrent case: " + err.Error())
		return
	}
	pool := txpool.NewTxPool()
	var clock int64
	stamp := func() int64 { clock++; return clock }
	get := func(p int) COp {
		o := COp{Proc: p, Op: "get", Time: concT0, Size: concSize, Call: stamp()}
		o.Sel = u.selIDs(pool.GetTxs(o.Time, o.Size))
		o.Ret = stamp()
		return o
	}
	a0 := COp{Proc: 0, Op: "add", IDs: []int{0}, Call: stamp()}
	a0.OK = pool.AddTx(u.Txs[0]) == nil
	a0.Ret = stamp()
	a2 := COp{Proc: 1, Op: "add", IDs: []int{2}, Call: stamp()}
	a2.OK = pool.AddTx(u.Txs[2]) == nil
	// client 1 has its reply but is descheduled before it takes the return stamp
	d3 := COp{Proc: 2, Op: "del", IDs: []int{3}, Call: stamp()}
	pool.DelTxs(u.txsOf(d3.IDs))
	d3.Ret = stamp()
	a2.Ret = stamp()
	g1 := get(0)
	d0 := COp{Proc: 0, Op: "del", IDs: []int{0}, Call: stamp()}
	pool.DelTxs(u.txsOf(d0.IDs))
	d0.Ret = stamp()
	g2 := get(0)
	hist := []COp{a0, a2, d3, g1, d0, g2}
	cs.Progs = [][]SeqOp{{{Op: "add", IDs: []int{0}}, {Op: "get", Time: concT0, Size: concSize}, {Op: "del", IDs: []int{0}}, {Op: "get", Time: concT0, Size: concSize}},
		{{Op: "add", IDs: []int{2}}}, {{Op: "del", IDs: []int{3}}}}
	checkHistory(c, u, cs, hist, st)
	c.Case("conc fixed-delete-overlapping-subtx-add", true, nil)

	// second witness, one client: the expiry of a pending box removes the index entry of a sub tx that was accepted
	// on its own after the delete of an absent box had unlinked it; the next DelTxs resets the storage (same ops as
	// the sequential witness "fixed-orphan-wiped-by-reset", judged by the interval checker)
	cs2 := &ConcCase{Mon: "conc", U: []TxSpec{{ID: 0, Exp: far}, {ID: 1, Exp: far}, {ID: 2, Exp: far}, {ID: 3, Exp: concT0 + 5, Subs: []int{0, 1}}, {ID: 4, Exp: far, Subs: []int{0, 2}}}}
	late := SeqOp{Op: "get", Time: concT0 + 10, Size: concSize}
	cs2.Progs = [][]SeqOp{{{Op: "add", IDs: []int{3}}, {Op: "del", IDs: []int{4}}, {Op: "add", IDs: []int{0}}, late, {Op: "del", IDs: []int{1}}, late}}
	u2, err := BuildUniverse(cs2.U)
	if err != nil {
		c.Inconclusive("fixed concurrent case: " + err.Error())
		return
	}
	checkHistory(c, u2, cs2, execConc(u2, cs2), st)
	c.Case("conc fixed-orphan-wiped-by-reset", true, nil)
}
