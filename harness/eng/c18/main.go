// C18 — the transaction pool behaves like a set of pending txs under any interleaving.
//
// Three monitors over the real txpool.TxPool:
//  1. sequential op sequences checked clause by clause against a must/may set model,
//  2. concurrent histories recorded at the client boundary, checked offline by a conservative
//     interval checker and by porcupine against the same model (all under the race detector),
//  3. fork switches driven through the real consensus engine of a node, comparing the pool
//     with the fork the node is on after every event.
package main

import (
	"bufio"
	"bytes"
	"encoding/json"
	"fmt"
	"io/ioutil"
	"os"
	"os/exec"
	"path/filepath"
	"regexp"
	"sort"
	"strings"
	"sync"
	"syscall"

	"verif/fx"
	"verif/fx/run"
)

func batches(tier string) int { return 16 }

var (
	reportMu    sync.Mutex
	reportCount = map[string]int{}
)

func reported(class string) int {
	reportMu.Lock()
	defer reportMu.Unlock()
	return reportCount[class]
}

// report counts every violation by class (evidence) and emits at most two witnesses per class and
// process, so that frequent classes cannot use up the run protocol's per-batch budget and hide rare ones.
func report(c *run.Ctx, class, msg string, witness interface{}) {
	c.Stat("violations "+class, 1)
	reportMu.Lock()
	reportCount[class]++
	n := reportCount[class]
	reportMu.Unlock()
	if n <= 2 {
		c.Violation(class, msg, witness)
	}
}

const childEnv = "C18_CHILD"

// ---- fixed regression cases (run in every tier and for every seed, batch 0) ----

// fixedSeq are the deterministic witnesses of what the monitors found on the unchanged tree.
// Universe of all of them: txs 0,1,2 (far expiration), box 3 = [0,1], box 4 = [0,2].
func fixedSeq() []*SeqCase {
	far := uint64(seqT0 + 100000)
	u := []TxSpec{{ID: 0, Exp: far}, {ID: 1, Exp: far}, {ID: 2, Exp: far}, {ID: 3, Exp: far, Subs: []int{0, 1}}, {ID: 4, Exp: far, Subs: []int{0, 2}}}
	add := func(id int) SeqOp { return SeqOp{Op: "add", IDs: []int{id}} }
	del := func(ids ...int) SeqOp { return SeqOp{Op: "del", IDs: ids} }
	get := SeqOp{Op: "get", Time: seqT0, Size: 1000}
	// box 3 = [0,1] expires at seqT0+5 in the last case
	u2 := append([]TxSpec{}, u...)
	u2[3] = TxSpec{ID: 3, Exp: seqT0 + 5, Subs: []int{0, 1}}
	late := SeqOp{Op: "get", Time: seqT0 + 10, Size: 1000}
	return []*SeqCase{
		// the same through expiry: box 3 is pending, deleting the absent box 4 unlinks their shared sub tx 0, tx 0 is
		// accepted on its own, the expiry of box 3 removes tx 0's index entry, the next DelTxs finds the index empty and
		// resets the storage: the accepted, undeleted, unexpired tx 0 is gone
		{Mon: "seq", Kind: "fixed-orphan-wiped-by-reset", U: u2, Ops: []SeqOp{add(3), del(4), add(0), late, del(1), late}},
		// deleting a box that is not pending orphans its standalone sub tx (index entry gone, slot kept) ...
		{Mon: "seq", Kind: "fixed-orphan-handed-out", U: u, Ops: []SeqOp{add(2), add(0), del(3), get}},
		// ... which can then no longer be deleted,
		{Mon: "seq", Kind: "fixed-orphan-undeletable", U: u, Ops: []SeqOp{add(2), add(0), del(3), del(0), get}},
		// ... is handed out twice after a re-submission,
		{Mon: "seq", Kind: "fixed-orphan-duplicate", U: u, Ops: []SeqOp{add(2), add(0), del(3), add(0), get}},
		// ... and together with a box that contains it.
		{Mon: "seq", Kind: "fixed-orphan-with-box", U: u, Ops: []SeqOp{add(2), add(0), del(3), add(3), get}},
		// two boxes sharing a sub tx: deleting the absent one unlinks the shared sub tx of the pending one
		{Mon: "seq", Kind: "fixed-shared-subtx", U: u, Ops: []SeqOp{add(3), del(4), add(0), get}},
	}
}

func runFixedSeq(c *run.Ctx, st *seqStats) {
	for _, cs := range fixedSeq() {
		runSeqCase(c, cs, st, false)
		c.Case("seq "+cs.Kind, true, nil)
	}
}

// ---- run ----

func runAll(c *run.Ctx) {
	fx.Quiet()
	if os.Getenv(childEnv) == "fork" {
		runForkChild(c)
		return
	}
	only := os.Getenv("C18_ONLY") // seq | conc | fork (debugging aid)
	if only == "" || only == "seq" {
		runSeq(c)
	}
	if only == "" || only == "conc" {
		runConc(c)
	}
	if only == "" || only == "fork" {
		spawnForkChild(c, os.Args[1:])
	}
}

func runSeq(c *run.Ctx) {
	var st seqStats
	if c.Batch == 0 {
		runFixedSeq(c, &st)
	}
	n := c.Pick(4800, 96000)
	lo, hi := c.Share(n)
	for i := lo; i < hi; i++ {
		r := run.NewRng(c.Seed, 1, uint64(i))
		cs := genSeq(r, i)
		before := st
		runSeqCase(c, cs, &st, true)
		nb := 0
		for _, s := range cs.U {
			if len(s.Subs) > 0 {
				nb++
			}
		}
		crossed := st.maxAppended > 128
		fp := fmt.Sprintf("seq %s tx%d box%d ops%d cap%v gc%v exp%v", cs.Kind, len(cs.U)/8, nb, len(cs.Ops)/40, crossed, st.gcResets > before.gcResets, st.expiredMoves > before.expiredMoves)
		nontrivial := st.selections-before.selections > 0 && st.dels-before.dels > 0 && st.accepted-before.accepted > 1
		var sample interface{}
		if i == lo {
			sample = map[string]interface{}{"mon": "seq", "kind": cs.Kind, "txs": len(cs.U), "boxes": nb, "ops": len(cs.Ops), "first_ops": fmtOps(cs.Ops[:8])}
		}
		c.Case(fp, nontrivial, sample)
		if crossed {
			c.Stat("seq_cases_crossing_capacity_128", 1)
		}
		st.maxAppended = 0
	}
	c.Stat("seq_ops", st.ops)
	c.Stat("seq_adds_accepted", st.accepted)
	c.Stat("seq_adds_rejected", st.rejected)
	c.Stat("seq_box_adds_accepted", st.boxAccepted)
	c.Stat("seq_partial_addtxs", st.partialAdds)
	c.Stat("seq_deletes", st.dels)
	c.Stat("seq_deletes_of_absent_box", st.absentBoxDeletes)
	c.Stat("seq_selections", st.selections)
	c.Stat("seq_selections_whole_pool", st.complete)
	c.Stat("seq_selection_entries_checked", st.entries)
	c.Stat("seq_selections_with_expired_pending", st.expiredMoves)
	c.Stat("seq_gc_resets", st.gcResets)
	c.Stat("seq_selections_in_orphaned_index_state", st.orphanStates)
}

func runConc(c *run.Ctx) {
	var st concStats
	if c.Batch == 0 {
		runFixedConc(c, &st)
	}
	n := c.Pick(4800, 96000)
	lo, hi := c.Share(n)
	for i := lo; i < hi; i++ {
		r := run.NewRng(c.Seed, 2, uint64(i))
		cs := genConc(r, i)
		u, err := BuildUniverse(cs.U)
		if err != nil {
			c.Inconclusive("concurrent case: " + err.Error())
			continue
		}
		hist := execConc(u, cs)
		ov := countOverlaps(hist)
		checkHistory(c, u, cs, hist, &st)
		nb := 0
		for _, s := range cs.U {
			if len(s.Subs) > 0 {
				nb++
			}
		}
		kinds := map[string]int{}
		for _, o := range hist {
			kinds[o.Op]++
		}
		fp := fmt.Sprintf("conc p%d tx%d box%d a%d m%d g%d d%d", len(cs.Progs), len(cs.U), nb, kinds["add"], kinds["adds"], kinds["get"], kinds["del"])
		var sample interface{}
		if i == lo {
			sample = map[string]interface{}{"mon": "conc", "clients": len(cs.Progs), "txs": len(cs.U), "boxes": nb, "calls": len(hist), "overlapping_pairs": ov, "history": fmtHist(hist)}
		}
		c.Case(fp, ov > 0 && kinds["get"] > 0, sample)
	}
	c.Stat("conc_histories", st.histories)
	c.Stat("conc_calls", st.ops)
	c.Stat("conc_overlapping_call_pairs", st.overlaps)
	c.Stat("conc_selections", st.selections)
	c.Stat("conc_selection_entries_checked", st.entries)
	c.Stat("conc_presence_judgements", st.lossJudged)
	c.Stat("conc_soundness_judgements", st.soundJudged)
	c.Stat("porcupine_ok", st.porcOK)
	c.Stat("porcupine_illegal", st.porcIllegal)
	c.Stat("porcupine_inconclusive_timeout", st.porcUnknown)
	c.Stat("porcupine_fell_back_to_partitions", st.porcPartitioned)
}

// ---- fork monitor child ----

func flushForkStats(c *run.Ctx, st *forkStats) {
	c.Stat("fork_events", st.events)
	c.Stat("fork_blocks_inserted", st.inserts)
	c.Stat("fork_head_extensions", st.extends)
	c.Stat("fork_side_fork_inserts", st.sideInserts)
	c.Stat("fork_switches", st.switches)
	c.Stat("fork_switches_by_confirms", st.confirmSwitches)
	c.Stat("fork_stabilisations", st.stabilises)
	c.Stat("fork_client_submissions", st.adds)
	c.Stat("fork_client_submissions_accepted", st.addsAccepted)
	c.Stat("fork_pool_entries_compared", st.poolEntries)
	c.Stat("fork_path_txs_checked_absent", st.pathTxs)
	c.Stat("fork_abandoned_txs_checked_present", st.abandonedTxs)
	c.Stat("fork_must_be_present_checks", st.mustPresent)
	c.Stat("fork_absences_explained_by_box_exclusivity", st.excused)
	c.Stat("fork_blocks_mined_from_pool_selection", st.fromPool)
	c.Stat("fork_blocks_rejected_by_subject", st.insertRejected)
}

func runForkChild(c *run.Ctx) {
	var st forkStats
	if c.Batch == 0 {
		runFixedFork(c, &st)
	}
	n := c.Pick(64, 1280)
	lo, hi := c.Share(n)
	for i := lo; i < hi; i++ {
		if only := os.Getenv("C18_FORK_ONLY"); only != "" && only != fmt.Sprint(i) {
			continue
		}
		v0 := st.violations
		runForkScenario(c, i, &st)
		c.Stat(fmt.Sprintf("fork_scenarios_mode%d", i%4), 1)
		if st.violations > v0 {
			c.Stat(fmt.Sprintf("fork_scenarios_mode%d_ended_by_a_violation", i%4), 1)
		}
	}
	flushForkStats(c, &st)
}

// spawnForkChild re-executes this binary for the fork monitor with the race detector's reports
// redirected: the fork monitor drives a whole node whose background goroutines have data races
// of their own (property C19); only reports that involve chain/txpool belong to C18.
func spawnForkChild(c *run.Ctx, args []string) {
	logPrefix := filepath.Join(c.Scratch, fmt.Sprintf("forkrace-%d", c.Batch))
	cmd := exec.Command(os.Args[0], args...)
	env := []string{}
	for _, e := range os.Environ() {
		if !strings.HasPrefix(e, "GORACE=") && !strings.HasPrefix(e, childEnv+"=") {
			env = append(env, e)
		}
	}
	env = append(env, childEnv+"=fork", "GORACE=halt_on_error=0 exitcode=0 history_size=5 log_path="+logPrefix)
	cmd.Env = env
	cmd.Stderr = os.Stderr
	cmd.SysProcAttr = &syscall.SysProcAttr{Pdeathsig: syscall.SIGKILL}
	var out bytes.Buffer
	cmd.Stdout = &out
	err := cmd.Run()
	done := false
	sc := bufio.NewScanner(&out)
	sc.Buffer(make([]byte, 1<<20), 1<<28)
	for sc.Scan() {
		line := sc.Text()
		if strings.Contains(line, `"t":"done"`) {
			done = true
			continue
		}
		os.Stdout.WriteString(line + "\n")
	}
	// (a race-built child exits with the detector's exit code when it has reported anything: only the
	// "done" line tells whether it finished)
	if !done {
		// the child's stderr (panic trace) is already on ours: die without the "done" line so that the
		// driver classifies the crash
		fmt.Fprintf(os.Stderr, "fork monitor child did not finish: %v\n", err)
		os.Stdout.Sync()
		os.Exit(3)
	}
	// race reports of the child
	files, _ := filepath.Glob(logPrefix + ".*")
	for _, f := range files {
		b, err := ioutil.ReadFile(f)
		if err != nil {
			continue
		}
		for _, rep := range strings.Split(string(b), "WARNING: DATA RACE")[1:] {
			rep = strings.Split(rep, "==================")[0]
			if strings.Contains(rep, "/chain/txpool.") {
				// hand it to the driver's race classifier
				fmt.Fprintf(os.Stderr, "==================\nWARNING: DATA RACE%s==================\n", rep)
				c.Stat("fork_race_reports_involving_txpool", 1)
			} else {
				c.Stat("fork_race_reports_outside_txpool_ignored", 1)
				c.Seen("fork_race_classes_outside_txpool_ignored", raceClass(rep))
			}
		}
	}
}

var frameRe = regexp.MustCompile(`(?m)^  (github\.com/LemoFoundationLtd/lemochain-core/\S+)\(\)`)

// raceClass names a report by the innermost in-repo functions of its two access stacks.
func raceClass(rep string) string {
	secs := regexp.MustCompile(`\n(?:Previous )?(?:[Aa]tomic )?(?:[Ww]rite|[Rr]ead) (?:at|by) `).Split("\n"+rep, -1)
	var fns []string
	for _, s := range secs[1:] {
		s = strings.Split(s, "\nGoroutine ")[0]
		if m := frameRe.FindStringSubmatch(s); m != nil {
			fns = append(fns, strings.TrimPrefix(m[1], "github.com/LemoFoundationLtd/lemochain-core/"))
		} else {
			fns = append(fns, "?")
		}
	}
	if len(fns) > 2 {
		fns = fns[:2]
	}
	sort.Strings(fns)
	return strings.Join(fns, "<->")
}

// ---- replay ----

func replay(c *run.Ctx, raw json.RawMessage) {
	fx.Quiet()
	var head struct {
		Mon    string          `json:"mon"`
		Report json.RawMessage `json:"report"`
	}
	if err := json.Unmarshal(raw, &head); err != nil {
		c.Inconclusive("bad witness: " + err.Error())
		return
	}
	switch head.Mon {
	case "seq":
		var cs SeqCase
		if err := json.Unmarshal(raw, &cs); err != nil {
			c.Inconclusive("bad witness: " + err.Error())
			return
		}
		var st seqStats
		runSeqCase(c, &cs, &st, false)
		c.Case("replay seq", true, nil)
	case "conc":
		var cs ConcCase
		if err := json.Unmarshal(raw, &cs); err != nil {
			c.Inconclusive("bad witness: " + err.Error())
			return
		}
		u, err := BuildUniverse(cs.U)
		if err != nil {
			c.Inconclusive("bad witness: " + err.Error())
			return
		}
		var st concStats
		// the recorded history is the witness: the offline checkers are deterministic on it
		silent := checkHistory(c, u, &cs, cs.Hist, &st)
		// and the programs are run again to see whether the schedule shows up once more
		for i := 0; i < 300 && silent; i++ {
			silent = checkHistory(c, u, &cs, execConc(u, &cs), &st)
		}
		c.Case("replay conc", true, nil)
	case "fork":
		if os.Getenv(childEnv) == "fork" {
			var cs ForkCase
			if err := json.Unmarshal(raw, &cs); err != nil {
				c.Inconclusive("bad witness: " + err.Error())
				return
			}
			var st forkStats
			replayFork(c, &cs, &st)
			c.Case("replay fork", true, nil)
			return
		}
		spawnForkChild(c, os.Args[1:])
	default:
		if len(head.Report) > 0 {
			c.Note("race witnesses are reports of the race detector; re-run the tier to reproduce")
			return
		}
		c.Inconclusive("witness of unknown monitor " + head.Mon)
	}
}

func main() { run.Main(run.Engine{Batches: batches, Run: runAll, Replay: replay}) }
