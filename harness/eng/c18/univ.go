package main

import (
	"fmt"
	"math/big"
	"sync"

	"github.com/LemoFoundationLtd/lemochain-core/chain/params"
	"github.com/LemoFoundationLtd/lemochain-core/chain/types"
	"github.com/LemoFoundationLtd/lemochain-core/common"

	"verif/fx"
)

// TxSpec describes one transaction of a case's universe. A spec with Subs is a box whose
// sub transactions are the (plain) specs with those ids.
type TxSpec struct {
	ID   int    `json:"id"`
	Exp  uint64 `json:"exp"`
	Subs []int  `json:"subs,omitempty"`
}

// Universe is the materialised tx set of a pool-level case (monitors 1 and 2).
type Universe struct {
	Specs  []TxSpec
	Txs    []*types.Transaction
	Hash   []common.Hash
	ByHash map[common.Hash]int
	EffExp []uint64 // own expiration, for a box the minimum over itself and its sub txs
	subsM  []uint64 // box id -> mask of its sub ids
	boxesM []uint64 // id -> mask of boxes containing it
}

var (
	poolWorldOnce sync.Once
	poolWorld     *fx.World
)

// pw is a key-only world (no node) used to sign the transactions of pool-level cases.
func pw() *fx.World {
	poolWorldOnce.Do(func() { poolWorld = fx.NewWorld(fx.WorldCfg{Deputies: 1, Users: 6}) })
	return poolWorld
}

func bit(i int) uint64 { return uint64(1) << uint(i) }

func maskOf(ids []int) uint64 {
	var m uint64
	for _, i := range ids {
		m |= bit(i)
	}
	return m
}

func idsOf(m uint64) []int {
	var out []int
	for i := 0; m != 0; i++ {
		if m&1 != 0 {
			out = append(out, i)
		}
		m >>= 1
	}
	return out
}

// BuildUniverse signs the transactions of the specs (ids must be 0..n-1 in order, plain
// specs before the boxes that use them, n <= 64).
func BuildUniverse(specs []TxSpec) (*Universe, error) {
	if len(specs) > 64 {
		return nil, fmt.Errorf("universe too large: %d", len(specs))
	}
	w := pw()
	b := fx.TxB{W: w}
	u := &Universe{Specs: specs, ByHash: map[common.Hash]int{}}
	n := len(specs)
	u.Txs = make([]*types.Transaction, n)
	u.Hash = make([]common.Hash, n)
	u.EffExp = make([]uint64, n)
	u.subsM = make([]uint64, n)
	u.boxesM = make([]uint64, n)
	for i, s := range specs {
		if s.ID != i {
			return nil, fmt.Errorf("spec %d has id %d", i, s.ID)
		}
		from := w.Users[i%len(w.Users)]
		u.EffExp[i] = s.Exp
		if len(s.Subs) == 0 {
			to := w.Users[(i+1)%len(w.Users)].Addr
			u.Txs[i] = b.Transfer(from, to, big.NewInt(int64(1000+i)), s.Exp)
		} else {
			var subs types.Transactions
			for _, sid := range s.Subs {
				if sid >= i || len(specs[sid].Subs) != 0 {
					return nil, fmt.Errorf("box %d has bad sub %d", i, sid)
				}
				subs = append(subs, u.Txs[sid])
				u.subsM[i] |= bit(sid)
				u.boxesM[sid] |= bit(i)
				if specs[sid].Exp < u.EffExp[i] {
					u.EffExp[i] = specs[sid].Exp
				}
			}
			data, err := types.MarshalBoxData(subs)
			if err != nil {
				return nil, err
			}
			// the gas limit makes boxes with equal content distinct transactions
			u.Txs[i] = fx.Sign(b.Unsigned(params.BoxTx, from.Addr, nil, nil, 3000000+uint64(i), data, s.Exp), from)
			// the pool finds sub transactions by decoding the box payload: they must hash like the originals
			box, err := types.GetBox(u.Txs[i].Data())
			if err != nil || len(box.SubTxList) != len(s.Subs) {
				return nil, fmt.Errorf("box %d does not decode: %v", i, err)
			}
			for k, st := range box.SubTxList {
				if st.Hash() != u.Hash[s.Subs[k]] {
					return nil, fmt.Errorf("box %d sub %d hashes differently inside the box", i, k)
				}
			}
		}
		u.Hash[i] = u.Txs[i].Hash()
		if _, dup := u.ByHash[u.Hash[i]]; dup {
			return nil, fmt.Errorf("duplicate hash for spec %d", i)
		}
		u.ByHash[u.Hash[i]] = i
	}
	return u, nil
}

func (u *Universe) IsBox(i int) bool { return len(u.Specs[i].Subs) > 0 }

// txsOf returns the transaction objects of ids.
func (u *Universe) txsOf(ids []int) types.Transactions {
	out := make(types.Transactions, len(ids))
	for i, id := range ids {
		out[i] = u.Txs[id]
	}
	return out
}

// selIDs maps a selection to ids (-1 for a transaction that is not in the universe).
func (u *Universe) selIDs(sel types.Transactions) []int {
	out := make([]int, len(sel))
	for i, tx := range sel {
		if tx == nil {
			out[i] = -1
			continue
		}
		if id, ok := u.ByHash[tx.Hash()]; ok {
			out[i] = id
		} else {
			out[i] = -1
		}
	}
	return out
}

// expiredMask returns the ids a query at `time` must treat as expired.
func (u *Universe) expiredMask(time uint32) uint64 {
	var m uint64
	for i, e := range u.EffExp {
		if e < uint64(time) {
			m |= bit(i)
		}
	}
	return m
}

// delEffect is what "DelTxs(ids)" means for the model (see assumptions):
// removed = the listed txs plus the sub txs of listed boxes (a box in a block executes its sub
// txs: they are "told to delete"); maybe = boxes that contain a removed tx (they can no longer
// be executed; the pool may drop them or keep them, the statement does not say).
func (u *Universe) delEffect(ids []int) (removed, maybe uint64) {
	for _, i := range ids {
		removed |= bit(i) | u.subsM[i]
	}
	for _, i := range idsOf(removed) {
		maybe |= u.boxesM[i]
	}
	maybe &^= removed
	return
}

// groups returns the connected components of the box/sub relation as masks.
func (u *Universe) groups() []uint64 {
	n := len(u.Specs)
	parent := make([]int, n)
	for i := range parent {
		parent[i] = i
	}
	var find func(int) int
	find = func(x int) int {
		for parent[x] != x {
			parent[x] = parent[parent[x]]
			x = parent[x]
		}
		return x
	}
	for i := range u.Specs {
		for _, s := range u.Specs[i].Subs {
			parent[find(i)] = find(s)
		}
	}
	m := map[int]uint64{}
	var order []int
	for i := 0; i < n; i++ {
		r := find(i)
		if _, ok := m[r]; !ok {
			order = append(order, r)
		}
		m[r] |= bit(i)
	}
	var out []uint64
	for _, r := range order {
		out = append(out, m[r])
	}
	return out
}

// mstate is the reference model: the set of txs the pool must hold and the set it may hold.
type mstate struct{ must, may uint64 }

func (s mstate) addOK(id int) mstate {
	s.must |= bit(id)
	s.may &^= bit(id)
	return s
}

func (s mstate) del(u *Universe, ids []int) mstate {
	removed, maybe := u.delEffect(ids)
	s.must &^= removed
	s.may &^= removed
	moved := s.must & maybe
	s.must &^= moved
	s.may |= moved
	return s
}

// afterGet moves entries that were expired at the query time to "may" (the pool is allowed to
// drop them for good) and promotes "may" entries that were handed out (they are pending).
func (s mstate) afterGet(u *Universe, time uint32, sel uint64) mstate {
	ex := s.must & u.expiredMask(time)
	s.must &^= ex
	s.may |= ex
	seen := s.may & sel
	s.must |= seen
	s.may &^= seen
	return s
}
