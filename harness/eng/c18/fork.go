package main

import (
	"encoding/hex"
	"fmt"
	"math/big"
	"os"

	"github.com/LemoFoundationLtd/lemochain-core/chain/params"
	"github.com/LemoFoundationLtd/lemochain-core/chain/types"
	"github.com/LemoFoundationLtd/lemochain-core/common"
	"github.com/LemoFoundationLtd/lemochain-core/common/rlp"

	"verif/fx"
	"verif/fx/run"
)

// Monitor 3: fork switches driven through the real engine. One subject node receives the
// blocks of a tree built by a second (builder) node; after every event the content of the
// subject's pool is compared with the fork the subject is on.

type ForkEvent struct {
	Kind  string `json:"kind"`            // add | insert | stabilise
	Tx    int    `json:"tx,omitempty"`    // add: universe index
	Block string `json:"block,omitempty"` // insert: RLP hex with change logs
	Hash  string `json:"hash,omitempty"`  // stabilise: block hash
	Note  string `json:"note,omitempty"`
}

type ForkCase struct {
	Mon      string      `json:"mon"`
	Deputies int         `json:"deputies"`
	Users    int         `json:"users"`
	SlotMs   uint64      `json:"slotMs"`
	Txs      []string    `json:"txs"` // RLP hex of the universe
	Events   []ForkEvent `json:"events"`
	// OnlyAtSwitch: judge the pool only after events that switched the fork (strict reading of the statement)
	OnlyAtSwitch bool   `json:"onlyAtSwitch,omitempty"`
	What         string `json:"what,omitempty"`
}

type fblock struct {
	b      *types.Block
	hash   common.Hash
	parent common.Hash
	top    uint64 // universe ids included at top level
	exec   uint64 // universe ids executed as sub txs of an included box
}

type forkStats struct {
	events, inserts, extends, sideInserts, switches, confirmSwitches, stabilises, adds, addsAccepted int64
	poolEntries, pathTxs, abandonedTxs, mustPresent, excused, foreign, insertRejected, fromPool      int64
	violations                                                                                       int64
}

type forkRun struct {
	c       *run.Ctx
	cs      *ForkCase
	w       *fx.World
	dir     string
	subject *fx.Node
	txs     []*types.Transaction
	byHash  map[common.Hash]int
	subsM   []uint64
	boxesM  []uint64
	blocks  map[common.Hash]*fblock
	genesis common.Hash

	head     common.Hash
	accepted uint64 // accepted by the pool from the harness (client submissions)
	// required: txs the pool must hold now. A tx becomes required when a client submission of it is accepted and
	// when it is a (top-level) tx of a block abandoned by a fork switch; it stops being required when it gets onto
	// the current fork (top-level or executed inside a box: the engine tells the pool to delete it) and when the
	// pool was entitled to drop it because a box / sub-tx relative is pending or on the current fork.
	required   uint64
	everInPool uint64
	boxDelSubs uint64 // sub txs of boxes the engine has told the pool to delete (boxes on a current fork)
	st         *forkStats
	failed     bool

	lastInserted  *fblock
	readdedBySide uint64 // txs that were on the current fork when a side-fork block carrying them was inserted
	onlyAtSwitch  bool   // judge the pool only after events that switched the fork (strict reading of the statement)
}

func newForkRun(c *run.Ctx, cs *ForkCase, st *forkStats) *forkRun {
	w := fx.NewWorld(fx.WorldCfg{Deputies: cs.Deputies, Users: cs.Users, SlotMs: cs.SlotMs})
	fr := &forkRun{c: c, cs: cs, w: w, dir: fx.ScratchDir("c18fork"), byHash: map[common.Hash]int{}, blocks: map[common.Hash]*fblock{}, st: st}
	fr.onlyAtSwitch = cs.OnlyAtSwitch
	fr.subject = w.NewNode(fx.PathOf(fr.dir, "subject"), w.Outsider)
	g := fr.subject.BC.CurrentBlock()
	fr.genesis = g.Hash()
	fr.head = g.Hash()
	fr.blocks[g.Hash()] = &fblock{b: g, hash: g.Hash()}
	return fr
}

func (fr *forkRun) close() {
	fr.subject.Close()
	_ = os.RemoveAll(fr.dir)
}

func encHex(v interface{}) string {
	b, err := rlp.EncodeToBytes(v)
	if err != nil {
		panic(err)
	}
	return hex.EncodeToString(b)
}

// setUniverse registers the universe (from transactions or from a witness).
func (fr *forkRun) setUniverse(txs []*types.Transaction) {
	fr.txs = txs
	n := len(txs)
	fr.subsM = make([]uint64, n)
	fr.boxesM = make([]uint64, n)
	for i, tx := range txs {
		fr.byHash[tx.Hash()] = i
	}
	for i, tx := range txs {
		if tx.Type() != params.BoxTx {
			continue
		}
		box, err := types.GetBox(tx.Data())
		if err != nil {
			panic(err)
		}
		for _, s := range box.SubTxList {
			if sid, ok := fr.byHash[s.Hash()]; ok {
				fr.subsM[i] |= bit(sid)
				fr.boxesM[sid] |= bit(i)
			}
		}
	}
}

func (fr *forkRun) relatives(x int) uint64 {
	rel := fr.subsM[x] | fr.boxesM[x]
	for _, s := range idsOf(fr.subsM[x]) {
		rel |= fr.boxesM[s]
	}
	return rel &^ bit(x)
}

func (fr *forkRun) register(b *types.Block) *fblock {
	fb := &fblock{b: b, hash: b.Hash(), parent: b.ParentHash()}
	for _, tx := range b.Txs {
		if id, ok := fr.byHash[tx.Hash()]; ok {
			fb.top |= bit(id)
			fb.exec |= fr.subsM[id]
		}
	}
	fr.blocks[fb.hash] = fb
	return fb
}

// path returns the blocks from h down to genesis.
func (fr *forkRun) path(h common.Hash) []*fblock {
	var out []*fblock
	for {
		fb, ok := fr.blocks[h]
		if !ok {
			return out
		}
		out = append(out, fb)
		if h == fr.genesis {
			return out
		}
		h = fb.parent
	}
}

func (fr *forkRun) violation(class, msg string) {
	fr.failed = true
	fr.st.violations++
	w := *fr.cs
	w.What = msg
	report(fr.c, class, msg, &w)
}

// apply executes one event on the subject and runs the oracle.
func (fr *forkRun) apply(ev ForkEvent) error {
	fr.cs.Events = append(fr.cs.Events, ev)
	fr.st.events++
	fr.lastInserted = nil
	switch ev.Kind {
	case "add":
		fr.st.adds++
		tx := fr.txs[ev.Tx]
		// what the RPC and the network handler do before AddTx
		if !fr.subject.BC.TxGuard().ExistTx(fr.subject.BC.CurrentBlock().Hash(), tx) {
			if err := fr.subject.Pool.AddTx(fx.WireTx(tx)); err == nil {
				fr.accepted |= bit(ev.Tx)
				fr.required |= bit(ev.Tx)
				fr.st.addsAccepted++
			}
		}
	case "insert":
		raw, err := hex.DecodeString(ev.Block)
		if err != nil {
			return err
		}
		b := new(types.Block)
		if err := rlp.DecodeBytes(raw, b); err != nil {
			return err
		}
		fr.st.inserts++
		if err := fr.subject.Insert(b, true); err != nil {
			fr.st.insertRejected++
			return fmt.Errorf("subject rejects block %d %s: %v", b.Height(), b.Hash().Prefix(), err)
		}
		fr.lastInserted = fr.register(b)
	case "stabilise":
		h := common.HexToHash(ev.Hash)
		fb, ok := fr.blocks[h]
		if !ok {
			return fmt.Errorf("stabilise: unknown block %s", ev.Hash)
		}
		fr.st.stabilises++
		fr.subject.Stabilise(fb.b)
	}
	fr.check(ev)
	return nil
}

func (fr *forkRun) check(ev ForkEvent) {
	oldHead := fr.head
	cur := fr.subject.BC.CurrentBlock()
	newHead := cur.Hash()
	if _, ok := fr.blocks[newHead]; !ok {
		fr.c.Note("fork monitor: subject's head is not a block of the scenario")
		return
	}
	newPath := fr.path(newHead)
	var onTop, onExec uint64
	for _, fb := range newPath {
		onTop |= fb.top
		onExec |= fb.exec
	}
	fr.required &^= onTop | onExec
	for _, fb := range newPath {
		for _, id := range idsOf(fb.top) {
			fr.boxDelSubs |= fr.subsM[id]
		}
	}
	switched := false
	var abandoned uint64
	nOld, nNew := 0, 0
	if newHead != oldHead {
		if fr.blocks[newHead].parent == oldHead {
			fr.st.extends++
		} else {
			switched = true
			onNew := map[common.Hash]bool{}
			for _, fb := range newPath {
				onNew[fb.hash] = true
			}
			for _, fb := range fr.path(oldHead) {
				if onNew[fb.hash] {
					break
				}
				abandoned |= fb.top
				nOld++
			}
			onOld := map[common.Hash]bool{}
			for _, fb := range fr.path(oldHead) {
				onOld[fb.hash] = true
			}
			for _, fb := range newPath {
				if onOld[fb.hash] {
					break
				}
				nNew++
			}
			fr.st.switches++
			if ev.Kind == "stabilise" {
				fr.st.confirmSwitches++
			}
			fr.c.Seen("fork_switch_shapes", fmt.Sprintf("abandon%d/adopt%d/%s", nOld, nNew, ev.Kind))
		}
	} else if ev.Kind == "insert" {
		fr.st.sideInserts++
	}
	fr.head = newHead

	// read the pool without expiring anything
	sel := fr.subject.Pool.GetTxs(0, 1<<20)
	var pm uint64
	for _, tx := range sel {
		id, ok := fr.byHash[tx.Hash()]
		if !ok {
			fr.st.foreign++
			continue
		}
		if pm&bit(id) != 0 {
			cls := "C18/selection-duplicate"
			if bit(id)&fr.boxDelSubs != 0 {
				cls += orphanSuffix
			}
			fr.violation(cls, fmt.Sprintf("after %s the pool hands out tx %d twice", fr.describe(ev), id))
			return
		}
		pm |= bit(id)
	}
	fr.st.poolEntries += int64(len(sel))
	fr.everInPool |= pm
	if os.Getenv("C18_FORK_TRACE") != "" {
		fmt.Fprintf(os.Stderr, "trace: %-60s head h%d %s stable h%d switched=%v pool=%v path=%v exec=%v\n", fr.describe(ev), cur.Height(), newHead.Prefix(),
			fr.subject.BC.StableBlock().Height(), switched, idsOf(pm), idsOf(onTop), idsOf(onExec))
	}
	for _, id := range idsOf(pm) {
		if both := fr.subsM[id] & pm; both != 0 {
			cls := "C18/selection-box-and-subtx"
			if both&fr.boxDelSubs != 0 {
				cls += orphanSuffix
			}
			fr.violation(cls, fmt.Sprintf("after %s the pool hands out box %d together with its sub txs %v", fr.describe(ev), id, idsOf(both)))
			return
		}
	}
	// a side-fork block (head unchanged) whose txs are on the current fork: the engine hands them to the pool
	if ev.Kind == "insert" && newHead == oldHead && fr.lastInserted != nil {
		fr.readdedBySide |= fr.lastInserted.top & (onTop | onExec)
	}
	if fr.onlyAtSwitch && !switched {
		return
	}
	// no tx of the current fork's path may be in the pool
	fr.st.pathTxs += int64(len(idsOf(onTop | onExec)))
	reported := map[string]bool{}
	for _, x := range idsOf(pm & (onTop | onExec)) {
		mech := ""
		switch {
		case bit(x)&fr.readdedBySide != 0:
			mech = ":readded-by-side-fork-block"
		case bit(x)&onTop == 0:
			mech = ":subtx-of-box-on-fork"
		case switched:
			mech = ":after-switch"
		case ev.Kind == "add":
			mech = ":after-submission"
		default:
			mech = ":after-extension"
		}
		cls := "C18/fork-switch:current-fork-tx-in-pool" + mech
		if !reported[cls] {
			reported[cls] = true
			fr.violation(cls, fmt.Sprintf("after %s (fork switch by this event: %v) the pool contains tx %d which is on the path of the current fork (head h%d %s)",
				fr.describe(ev), switched, x, cur.Height(), newHead.Prefix()))
		}
	}
	// txs that must be in the pool (see forkRun.required)
	fr.st.abandonedTxs += int64(len(idsOf(abandoned &^ (onTop | onExec))))
	fr.required |= abandoned &^ (onTop | onExec)
	want := fr.required
	fr.st.mustPresent += int64(len(idsOf(want)))
	for _, x := range idsOf(want &^ pm) {
		if fr.relatives(x)&(pm|onTop|onExec) != 0 {
			fr.st.excused++ // box / sub-tx exclusivity explains the absence
			fr.required &^= bit(x)
			continue
		}
		cls := "C18/accepted-tx-lost:chain"
		if switched && abandoned&bit(x) != 0 {
			cls = "C18/fork-switch:abandoned-tx-missing"
		}
		if dropped := fr.boxesM[x] & (fr.everInPool | fr.accepted) &^ pm; dropped != 0 {
			cls += ":subtx-of-dropped-box"
		}
		if !reported[cls] {
			reported[cls] = true
			fr.violation(cls, fmt.Sprintf("after %s tx %d is neither on the current fork's path nor in the pool (in a block abandoned by this event's fork switch: %v)", fr.describe(ev), x, abandoned&bit(x) != 0))
		}
	}
}

func (fr *forkRun) describe(ev ForkEvent) string {
	switch ev.Kind {
	case "add":
		return fmt.Sprintf("submitting tx %d", ev.Tx)
	case "stabilise":
		if fb, ok := fr.blocks[common.HexToHash(ev.Hash)]; ok {
			return fmt.Sprintf("confirms making block h%d %s stable", fb.b.Height(), fb.hash.Prefix())
		}
		return "confirms"
	}
	return "InsertBlock(" + ev.Note + ")"
}

// ---- scenario construction (builder side) ----

type forkBuilder struct {
	fr      *forkRun
	r       *run.Rng
	builder *fx.Node
	stable  common.Hash
	queue   []common.Hash // mined, not yet delivered to the subject
	deliv   map[common.Hash]bool
	order   []common.Hash
	times   map[string]bool
}

func newForkBuilder(fr *forkRun, r *run.Rng) *forkBuilder {
	fb := &forkBuilder{fr: fr, r: r, deliv: map[common.Hash]bool{}, times: map[string]bool{}}
	fb.builder = fr.w.NewNode(fx.PathOf(fr.dir, "builder"), fr.w.Outsider)
	fb.stable = fr.genesis
	fb.deliv[fr.genesis] = true
	fb.order = append(fb.order, fr.genesis)
	return fb
}

func (b *forkBuilder) close() { b.builder.Close() }

// mine builds a block on parent at chain time t with the given candidate txs and inserts it
// into the builder. It returns the block (nil if mining failed or the block already exists).
func (b *forkBuilder) mine(parent *types.Block, t uint32, cands types.Transactions) *types.Block {
	key := fmt.Sprintf("%x/%d", parent.Hash(), t)
	for b.times[key] {
		t++
		key = fmt.Sprintf("%x/%d", parent.Hash(), t)
	}
	b.times[key] = true
	res, err := b.builder.Mine(parent, t, cands, "")
	if err != nil {
		b.fr.c.Note("fork builder: mining failed: " + err.Error())
		return nil
	}
	if err := b.builder.Insert(res.Block, true); err != nil {
		b.fr.c.Note(fmt.Sprintf("fork builder: builder rejects its own block h%d: %v", res.Block.Height(), err))
		return nil
	}
	return res.Block
}

// isDesc tells whether h descends from (or is) anc among the blocks known to the run.
func (b *forkBuilder) isDesc(known map[common.Hash]*types.Block, h, anc common.Hash) bool {
	for {
		if h == anc {
			return true
		}
		blk, ok := known[h]
		if !ok || blk.Height() == 0 {
			return false
		}
		h = blk.ParentHash()
	}
}

// forkScript is a scenario under construction: world, funded and stable block 1, universe.
type forkScript struct {
	c     *run.Ctx
	fr    *forkRun
	b     *forkBuilder
	known map[common.Hash]*types.Block // every mined block
	txs   []*types.Transaction
	b1    *types.Block
}

func (s *forkScript) close() {
	s.b.close()
	s.fr.close()
}

func (s *forkScript) deliver(blk *types.Block, note string) bool {
	if err := s.fr.apply(ForkEvent{Kind: "insert", Block: encHex(blk), Note: note}); err != nil {
		s.c.Note("fork scenario: " + err.Error())
		return false
	}
	s.b.deliv[blk.Hash()] = true
	return true
}

// usedOn returns the universe ids already executed on the path from h to genesis.
func (s *forkScript) usedOn(h common.Hash) uint64 {
	usedM := uint64(0)
	for {
		blk := s.known[h]
		for _, tx := range blk.Txs {
			if id, ok := s.fr.byHash[tx.Hash()]; ok {
				usedM |= bit(id) | s.fr.subsM[id]
			}
		}
		if blk.Height() == 0 {
			return usedM
		}
		h = blk.ParentHash()
	}
}

// mineOn mines a block with the universe txs `ids` on parent, dt seconds after it.
func (s *forkScript) mineOn(parent common.Hash, dt uint32, ids []int) *types.Block {
	pb := s.known[parent]
	var list types.Transactions
	for _, id := range ids {
		list = append(list, s.txs[id])
	}
	blk := s.b.mine(pb, pb.Time()+dt, list)
	if blk == nil {
		return nil
	}
	if _, dup := s.known[blk.Hash()]; dup {
		return nil
	}
	s.known[blk.Hash()] = blk
	return blk
}

// newForkScript builds the world, a funding block that is stable on both nodes, and the
// universe returned by mkTxs (called with the funding block's time).
func newForkScript(c *run.Ctx, cs *ForkCase, st *forkStats, r *run.Rng, mkTxs func(w *fx.World, t1 uint32) []*types.Transaction) *forkScript {
	fr := newForkRun(c, cs, st)
	b := newForkBuilder(fr, r)
	s := &forkScript{c: c, fr: fr, b: b, known: map[common.Hash]*types.Block{}}
	w := fr.w
	txb := fx.TxB{W: w}
	gen := fr.blocks[fr.genesis].b
	s.known[gen.Hash()] = gen
	t1 := gen.Time() + uint32(r.Range(1, 5))
	var fund types.Transactions
	for i, u := range w.Users {
		fund = append(fund, txb.Transfer(w.Founder, u.Addr, fx.LEMO(int64(1000+i)), uint64(t1)+600+uint64(i)))
	}
	b1 := b.mine(gen, t1, fund)
	if b1 == nil || len(b1.Txs) != len(fund) {
		c.Note("fork scenario: funding block failed")
		s.close()
		return nil
	}
	s.known[b1.Hash()] = b1
	s.b1 = b1
	s.txs = mkTxs(w, t1)
	fr.setUniverse(s.txs)
	for _, tx := range s.txs {
		cs.Txs = append(cs.Txs, encHex(tx))
	}
	if !s.deliver(b1, "funding block h1") {
		s.close()
		return nil
	}
	b.builder.Stabilise(b1)
	if err := fr.apply(ForkEvent{Kind: "stabilise", Hash: b1.Hash().Hex()}); err != nil {
		c.Note(err.Error())
		s.close()
		return nil
	}
	b.stable = b1.Hash()
	if fr.subject.BC.StableBlock().Hash() != b1.Hash() {
		c.Note("fork scenario: funding block did not become stable")
		s.close()
		return nil
	}
	return s
}

// runForkScenario draws and executes one fork scenario.
func runForkScenario(c *run.Ctx, idx int, st *forkStats) {
	r := run.NewRng(c.Seed, 3, uint64(idx))
	cs := &ForkCase{Mon: "fork", Deputies: 3 + idx%3, Users: 8, SlotMs: 3000}
	sw0 := st.switches
	// modes: 0 everything; 1 and 2 keep side-fork blocks free of txs that are on the subject's current fork at
	// mining time (such blocks trigger the side-fork re-add finding at once and end the scenario) and deliver
	// without delay; 1 and 3 have no boxes
	mode := idx % 4
	avoid := mode == 1 || mode == 2
	nBox := r.Range(1, 3)
	if mode == 1 || mode == 3 {
		nBox = 0
	}
	sc := newForkScript(c, cs, st, r, func(w *fx.World, t1 uint32) []*types.Transaction {
		txb := fx.TxB{W: w}
		nPlain := r.Range(8, 18)
		var txs []*types.Transaction
		base := uint64(t1) + 900
		for i := 0; i < nPlain; i++ {
			from := w.Users[r.Intn(len(w.Users))]
			to := w.Users[r.Intn(len(w.Users))]
			txs = append(txs, txb.Transfer(from, to.Addr, big.NewInt(int64(1e15+i)), base+uint64(i)))
		}
		for k := 0; k < nBox; k++ {
			p := r.Perm(nPlain)
			if r.Chance(1, 2) {
				// boxes tend to share tx 0
				for i, x := range p {
					if x == 0 {
						p[0], p[i] = p[i], p[0]
					}
				}
			}
			subs := types.Transactions{txs[p[0]], txs[p[1]]}
			txs = append(txs, txb.Box(w.Users[r.Intn(len(w.Users))], subs, base-uint64(1+k)))
		}
		return txs
	})
	if sc == nil {
		return
	}
	defer sc.close()
	fr, b, known, txs := sc.fr, sc.b, sc.known, sc.txs
	deliver := sc.deliver
	n := len(txs)
	// client submissions before the forks grow
	for _, id := range r.Perm(n) {
		if r.Chance(4, 5) {
			if fr.apply(ForkEvent{Kind: "add", Tx: id}); fr.failed {
				return
			}
		}
	}
	steps := r.Range(10, 22)
	nStab := 0
	focus := b.stable
	shape := ""
	for s := 0; s < steps && !fr.failed; s++ {
		c.WAL(map[string]interface{}{"mon": "fork", "scenario": idx, "step": s, "seed": c.Seed})
		// candidates for the parent: blocks descending from the stable block
		var cands []common.Hash
		for h := range known {
			if b.isDesc(known, h, b.stable) {
				cands = append(cands, h)
			}
		}
		sortHashes(cands)
		// forks grow in bursts: keep extending the fork in focus so that side forks overtake the current one
		if _, ok := known[focus]; !ok || !b.isDesc(known, focus, b.stable) {
			focus = b.stable
		}
		onHeadFork := b.isDesc(known, fr.head, focus) // focus is an ancestor of (or is) the subject's head
		switch p := r.Intn(100); {
		case !onHeadFork && p < 80:
			// keep the rival fork growing
		case p < 45 && b.isDesc(known, fr.head, b.stable):
			focus = fr.head
		case p < 60:
			focus = b.stable
		case p < 80:
			focus = cands[r.Intn(len(cands))]
		}
		parent := focus
		pb := known[parent]
		t := pb.Time() + uint32(r.Range(1, 9))
		usedM := sc.usedOn(parent)
		if avoid && parent != fr.head {
			usedM |= sc.usedOn(fr.head)
		}
		var pick []int
		fromPool := false
		if parent == fr.head && b.deliv[parent] && r.Chance(1, 4) {
			// what the node's own miner would take
			fromPool = true
			st.fromPool++
			for _, tx := range fr.subject.Pool.GetTxs(t, r.Range(1, 4)) {
				if id, ok := fr.byHash[tx.Hash()]; ok {
					pick = append(pick, id)
				}
			}
		} else {
			for k, m := 0, r.Range(0, 4); k < m; k++ {
				pick = append(pick, r.Intn(n))
			}
		}
		var list types.Transactions
		var ids []int
		var inPool uint64
		if avoid {
			for _, tx := range fr.subject.Pool.GetTxs(0, 1<<20) {
				if id, ok := fr.byHash[tx.Hash()]; ok {
					inPool |= bit(id)
				}
			}
		}
		for _, id := range pick {
			if avoid && fr.subsM[id]&inPool != 0 {
				continue // a box whose sub tx is pending on its own triggers the orphaned-index finding at once
			}
			if usedM&(bit(id)|fr.subsM[id]) != 0 {
				continue // already on this fork (itself, inside a box, or one of its sub txs)
			}
			usedM |= bit(id) | fr.subsM[id]
			list = append(list, txs[id])
			ids = append(ids, id)
		}
		blk := b.mine(pb, t, list)
		if blk == nil {
			continue
		}
		if _, dup := known[blk.Hash()]; dup {
			continue
		}
		known[blk.Hash()] = blk
		focus = blk.Hash()
		note := fmt.Sprintf("h%d %s on %s txs %v", blk.Height(), blk.Hash().Prefix(), parent.Prefix(), ids)
		if fromPool {
			note += " (selected from the subject's pool)"
		}
		shape += fmt.Sprintf("%d", blk.Height())
		if b.deliv[parent] && (avoid || r.Chance(7, 10)) {
			if !deliver(blk, note) {
				return
			}
		} else {
			b.queue = append(b.queue, blk.Hash())
		}
		// deliver one queued block whose parent has arrived
		if r.Chance(1, 2) {
			for qi, h := range b.queue {
				qb := known[h]
				if b.deliv[qb.ParentHash()] && b.isDesc(known, h, b.stable) {
					b.queue = append(b.queue[:qi], b.queue[qi+1:]...)
					if !deliver(qb, fmt.Sprintf("h%d %s (delayed)", qb.Height(), qb.Hash().Prefix())) {
						return
					}
					break
				}
			}
		}
		if fr.failed {
			return
		}
		// a new client submission
		if r.Chance(1, 5) {
			fr.apply(ForkEvent{Kind: "add", Tx: r.Intn(n)})
		}
		// confirms arrive for some delivered unstable block (possibly on a side fork)
		if nStab < 2 && r.Chance(1, 8) && !fr.failed {
			var opts []common.Hash
			for _, h := range cands {
				if h != b.stable && b.deliv[h] && known[h].Height() <= known[b.stable].Height()+2 {
					opts = append(opts, h)
				}
			}
			if len(opts) > 0 {
				h := opts[r.Intn(len(opts))]
				nStab++
				b.builder.Stabilise(known[h])
				if err := fr.apply(ForkEvent{Kind: "stabilise", Hash: h.Hex()}); err != nil {
					c.Note(err.Error())
					return
				}
				b.stable = h
				shape += "S"
				var keep []common.Hash
				for _, q := range b.queue {
					if b.isDesc(known, q, b.stable) {
						keep = append(keep, q)
					}
				}
				b.queue = keep
			}
		}
	}
	// flush the queue
	for progress := true; progress && !fr.failed; {
		progress = false
		for qi, h := range b.queue {
			qb := known[h]
			if b.deliv[qb.ParentHash()] && b.isDesc(known, h, b.stable) {
				b.queue = append(b.queue[:qi], b.queue[qi+1:]...)
				if !deliver(qb, fmt.Sprintf("h%d %s (delayed)", qb.Height(), qb.Hash().Prefix())) {
					return
				}
				progress = true
				break
			}
		}
	}
	c.Case(fmt.Sprintf("fork d%d m%d boxes%d %s", cs.Deputies, mode, nBox, shape), st.switches > sw0, map[string]interface{}{
		"mon": "fork", "scenario": idx, "mode": mode, "fork_switches": st.switches - sw0, "deputies": cs.Deputies, "txs": n, "boxes": nBox, "block_heights": shape, "events": len(cs.Events)})
}

func sortHashes(hs []common.Hash) {
	for i := 1; i < len(hs); i++ {
		for j := i; j > 0 && string(hs[j][:]) < string(hs[j-1][:]); j-- {
			hs[j], hs[j-1] = hs[j-1], hs[j]
		}
	}
}

// replayFork re-executes a recorded fork case on a fresh subject.
func replayFork(c *run.Ctx, cs *ForkCase, st *forkStats) {
	events := cs.Events
	cp := *cs
	cp.Events = nil
	fr := newForkRun(c, &cp, st)
	defer fr.close()
	var txs []*types.Transaction
	for _, hx := range cs.Txs {
		raw, err := hex.DecodeString(hx)
		if err != nil {
			c.Inconclusive("bad witness: " + err.Error())
			return
		}
		tx := new(types.Transaction)
		if err := rlp.DecodeBytes(raw, tx); err != nil {
			c.Inconclusive("bad witness: " + err.Error())
			return
		}
		txs = append(txs, tx)
	}
	fr.setUniverse(txs)
	for _, ev := range events {
		if err := fr.apply(ev); err != nil {
			c.Note("replay: " + err.Error())
		}
		if fr.failed {
			return
		}
	}
}
