package main

import (
	"fmt"
	"math/big"

	"github.com/LemoFoundationLtd/lemochain-core/chain/types"

	"verif/fx"
	"verif/fx/run"
)

// fixedForkUniverse: txs 0..5 are transfers, 6 = box[0,1].
func fixedForkUniverse(w *fx.World, t1 uint32) []*types.Transaction {
	txb := fx.TxB{W: w}
	base := uint64(t1) + 900
	var txs []*types.Transaction
	for i := 0; i < 6; i++ {
		txs = append(txs, txb.Transfer(w.Users[i], w.Users[(i+1)%len(w.Users)].Addr, big.NewInt(int64(1e15+i)), base+uint64(i)))
	}
	txs = append(txs, txb.Box(w.Users[6], types.Transactions{txs[0], txs[1]}, base-1))
	return txs
}

// runFixedFork executes the deterministic fork witnesses (every tier, every seed, batch 0).
func runFixedFork(c *run.Ctx, st *forkStats) {
	for variant := 0; variant < 3; variant++ {
		r := run.NewRng(7, 98, uint64(variant))
		cs := &ForkCase{Mon: "fork", Deputies: 3, Users: 8, SlotMs: 3000, OnlyAtSwitch: variant == 1}
		sc := newForkScript(c, cs, st, r, fixedForkUniverse)
		if sc == nil {
			c.Inconclusive("fixed fork scenario could not be set up")
			continue
		}
		step := func(parent *types.Block, dt uint32, ids []int, name string) *types.Block {
			if parent == nil || sc.fr.failed {
				return nil
			}
			blk := sc.mineOn(parent.Hash(), dt, ids)
			if blk == nil {
				return nil
			}
			if !sc.deliver(blk, fmt.Sprintf("%s h%d on %s txs %v", name, blk.Height(), parent.Hash().Prefix(), ids)) {
				return nil
			}
			return blk
		}
		switch variant {
		case 0:
			// a side-fork block that repeats a tx of the current fork: the engine puts the block's txs
			// into the pool without asking whether they are on the current branch
			a2 := step(sc.b1, 1, []int{2}, "a2")
			step(sc.b1, 4, []int{2, 3}, "c2 (side fork)")
			_ = a2
		case 1:
			// the same below the fork point of a later switch: tx 2 is in p2, which both forks share
			p2 := step(sc.b1, 1, []int{2}, "p2")
			a3 := step(p2, 1, []int{4}, "a3")
			step(sc.b1, 7, []int{2}, "c2 (side fork from the stable block)")
			b3 := step(p2, 4, []int{5}, "b3 (side fork)")
			b4 := step(b3, 1, nil, "b4 (side fork)")
			step(b4, 1, nil, "b5 (fork switch)")
			_ = a3
		case 2:
			// a box arrives in a block while one of its sub txs is pending on its own
			sc.fr.apply(ForkEvent{Kind: "add", Tx: 0})
			sc.fr.apply(ForkEvent{Kind: "add", Tx: 3})
			step(sc.b1, 1, []int{6}, "a2 with box[0,1]")
		}
		c.Case(fmt.Sprintf("fork fixed%d", variant), true, nil)
		sc.close()
	}
}
