package main

// Cache level: network.BlockCache and network.ConfirmCache driven directly, in lock-step with
// a sorted multimap reference model. After every operation the real cache is read back through
// its public API (Iterate with a callback that keeps everything, Size, FirstHeight / Pop, Size
// and the tag-only entry dump) and compared with the model clause by clause.

import (
	"fmt"
	"runtime"
	"sort"
	"strings"
	"time"

	"github.com/LemoFoundationLtd/lemochain-core/chain/types"
	"github.com/LemoFoundationLtd/lemochain-core/common"
	"github.com/LemoFoundationLtd/lemochain-core/network"

	"verif/fx/run"
)

// CacheOp is one materialised operation of a cache history.
type CacheOp struct {
	Op   string `json:"op"`             // block cache: add remove clear iterate | confirm cache: push pop clear
	H    uint32 `json:"h,omitempty"`    // height (add/remove: of the block; clear: threshold; push/pop)
	ID   int    `json:"id,omitempty"`   // block identity (add/remove) or block-hash identity (push/pop)
	Sig  int    `json:"sig,omitempty"`  // push: signature identity
	Take []int  `json:"take,omitempty"` // iterate: identities for which the callback answers true
	N    int    `json:"n,omitempty"`    // fill: number of distinct heights to add (overflow cases)
}

// CacheCase is a replayable cache history.
type CacheCase struct {
	Kind string    `json:"kind"` // "block-cache" | "confirm-cache"
	Name string    `json:"name,omitempty"`
	Ops  []CacheOp `json:"ops"`
}

func fakeBlock(h uint32, id int) *types.Block {
	return &types.Block{Header: &types.Header{Height: h, Time: uint32(id), GasLimit: 1, Extra: "c20"}}
}

func idHash(id int) common.Hash {
	var h common.Hash
	h[0] = 0xc2
	h[28], h[29], h[30], h[31] = byte(id>>24), byte(id>>16), byte(id>>8), byte(id)
	return h
}

func idSig(id int) types.SignData {
	var s types.SignData
	s[0] = 0x51
	s[61], s[62], s[63], s[64] = byte(id>>24), byte(id>>16), byte(id>>8), byte(id)
	return s
}

// violOnce emits at most one witness per class and process; every observation is counted.
type violSink struct {
	c    *run.Ctx
	seen map[string]bool
}

func (v *violSink) viol(class, msg string, wit interface{}) {
	v.c.Stat("violations "+class, 1)
	if v.seen[class] {
		return
	}
	v.seen[class] = true
	v.c.Violation(class, msg, wit)
}

// ---------------------------------------------------------------------------------------
// block cache

type bcModel struct {
	byH map[uint32]map[int]bool // height -> block ids
}

func (m *bcModel) size() int {
	n := 0
	for _, s := range m.byH {
		n += len(s)
	}
	return n
}

func (m *bcModel) heights() []uint32 {
	hs := make([]uint32, 0, len(m.byH))
	for h, s := range m.byH {
		if len(s) > 0 {
			hs = append(hs, h)
		}
	}
	sort.Slice(hs, func(i, j int) bool { return hs[i] < hs[j] })
	return hs
}

func (m *bcModel) first() uint32 {
	hs := m.heights()
	if len(hs) == 0 {
		return 0
	}
	return hs[0]
}

// addKind names where a new height lies relative to the height slots the cache holds (the
// slots, read through the tag-only dump, may include heights whose blocks are all gone).
func addKind(slots []network.VerifHeightGroup, h uint32) string {
	hs := make([]uint32, 0, len(slots))
	for _, g := range slots {
		hs = append(hs, g.Height)
	}
	if len(hs) == 0 {
		return "add-to-empty"
	}
	for _, x := range hs {
		if x == h {
			return "add-equal"
		}
	}
	if h < hs[0] {
		return "add-before"
	}
	if h > hs[len(hs)-1] {
		return "add-after"
	}
	return "add-between"
}

type visit struct {
	h  uint32
	id int
}

// dumpBlockCache reads the whole cache through Iterate without consuming anything.
func dumpBlockCache(bc *network.BlockCache) []visit {
	var out []visit
	bc.Iterate(func(b *types.Block) bool {
		out = append(out, visit{b.Height(), int(b.Time())})
		return false
	})
	return out
}

// compareBlockCache returns the clauses that fail (order, lost, duplicate, not-removed, size).
// Order is judged on what Iterate visits and on the height slots themselves (the cache's
// state is "blocks grouped by height, ascending": a slot out of place that happens to be
// empty or last shows up only operations later, in Clear / Remove / the next Add).
func compareBlockCache(m *bcModel, vis []visit, size int, slots []network.VerifHeightGroup) (clauses []string, detail string) {
	var d []string
	for i := 1; i < len(vis); i++ {
		if vis[i].h < vis[i-1].h {
			clauses = append(clauses, "order")
			d = append(d, fmt.Sprintf("iteration visits height %d after height %d", vis[i].h, vis[i-1].h))
			break
		}
	}
	if len(clauses) == 0 {
		for i := 1; i < len(slots); i++ {
			if slots[i].Height <= slots[i-1].Height {
				clauses = append(clauses, "order")
				d = append(d, fmt.Sprintf("the slot of height %d is stored behind the slot of height %d", slots[i].Height, slots[i-1].Height))
				break
			}
		}
	}
	seen := map[int]int{}
	for _, v := range vis {
		seen[v.id]++
	}
	lost, dup, extra := 0, 0, 0
	for h, s := range m.byH {
		for id := range s {
			if seen[id] == 0 {
				lost++
				if lost == 1 {
					d = append(d, fmt.Sprintf("block #%d of height %d is no longer visited", id, h))
				}
			}
		}
	}
	for _, v := range vis {
		if !m.byH[v.h][v.id] {
			extra++
			if extra == 1 {
				d = append(d, fmt.Sprintf("block #%d of height %d is visited although it was removed or never added", v.id, v.h))
			}
		}
	}
	for id, n := range seen {
		if n > 1 {
			dup++
			if dup == 1 {
				d = append(d, fmt.Sprintf("block #%d is visited %d times", id, n))
			}
		}
	}
	if lost > 0 {
		clauses = append(clauses, "lost")
	}
	if dup > 0 {
		clauses = append(clauses, "duplicate")
	}
	if extra > 0 {
		clauses = append(clauses, "not-removed")
	}
	if size != m.size() {
		clauses = append(clauses, "size")
		d = append(d, fmt.Sprintf("Size() = %d, model holds %d blocks", size, m.size()))
	}
	return clauses, strings.Join(d, "; ")
}

func heightsOf(vis []visit) []uint32 {
	out := make([]uint32, len(vis))
	for i, v := range vis {
		out[i] = v.h
	}
	return out
}

// runBlockCacheCase executes one history; returns false when a content clause failed.
func runBlockCacheCase(c *run.Ctx, vs *violSink, cs *CacheCase) bool {
	bc := network.NewBlockCache()
	m := &bcModel{byH: map[uint32]map[int]bool{}}
	firstAgrees := true
	for i, op := range cs.Ops {
		kind := op.Op
		switch op.Op {
		case "add":
			kind = addKind(bc.VerifGroups(), op.H)
			bc.Add(fakeBlock(op.H, op.ID))
			if m.byH[op.H] == nil {
				m.byH[op.H] = map[int]bool{}
			}
			m.byH[op.H][op.ID] = true
		case "remove":
			bc.Remove(fakeBlock(op.H, op.ID))
			if s := m.byH[op.H]; s != nil {
				delete(s, op.ID)
				if len(s) == 0 {
					delete(m.byH, op.H)
				}
			}
		case "clear":
			bc.Clear(op.H)
			for h := range m.byH {
				if h <= op.H {
					delete(m.byH, h)
				}
			}
		case "iterate":
			take := map[int]bool{}
			for _, id := range op.Take {
				take[id] = true
			}
			var vis []visit
			bc.Iterate(func(b *types.Block) bool {
				vis = append(vis, visit{b.Height(), int(b.Time())})
				return take[int(b.Time())]
			})
			// the consuming pass itself must visit exactly the model's content, ascending
			if cl, det := compareBlockCache(m, vis, m.size(), nil); len(cl) > 0 {
				for _, x := range cl {
					vs.viol("C20/block-cache:"+x+":iterate", fmt.Sprintf("step %d (consuming iterate): %s; visited heights %v, model heights %v", i, det, heightsOf(vis), m.heights()), cs)
				}
				return false
			}
			for h, s := range m.byH {
				for id := range s {
					if take[id] {
						delete(s, id)
					}
				}
				if len(s) == 0 {
					delete(m.byH, h)
				}
			}
		default:
			continue
		}
		c.Stat("cache_block_ops", 1)
		c.Seen("cache_block_op_kinds", kind)
		vis := dumpBlockCache(bc)
		c.Stat("cache_block_reads_compared", int64(len(vis))+2)
		slots := bc.VerifGroups()
		if cl, det := compareBlockCache(m, vis, bc.Size(), slots); len(cl) > 0 {
			for _, x := range cl {
				vs.viol("C20/block-cache:"+x+":"+kind, fmt.Sprintf("step %d (%s height %d): %s; iteration heights %v, model heights %v", i, op.Op, op.H, det, heightsOf(vis), m.heights()), cs)
			}
			return false
		}
		fh := bc.FirstHeight()
		if fh != m.first() {
			if firstAgrees {
				mech, empty := kind, ""
				for _, g := range slots {
					if g.Height == fh && len(g.Hashes) == 0 {
						mech, empty = "empty-slot-kept", " (the cache still keeps a slot for that height although a consuming Iterate took its last block)"
					}
				}
				vs.viol("C20/block-cache:first-height:"+mech, fmt.Sprintf("step %d (%s): FirstHeight() = %d, lowest cached height is %d%s", i, op.Op, fh, m.first(), empty), cs)
			}
			firstAgrees = false
		} else {
			firstAgrees = true
		}
	}
	return true
}

// genBlockCacheCase: heights from a small range so that before / between / after / equal all occur.
func genBlockCacheCase(r *run.Rng) *CacheCase {
	cs := &CacheCase{Kind: "block-cache"}
	n := r.Range(4, 40)
	span := uint32(r.Range(6, 40))
	base := uint32(r.Range(3, 50))
	nextID := 1
	type live struct {
		id int
		h  uint32
	}
	var lives []live
	for i := 0; i < n; i++ {
		x := r.Intn(100)
		switch {
		case x < 60 || len(lives) == 0:
			h := base + uint32(r.Intn(int(span)))
			if len(lives) > 0 && r.Chance(1, 6) { // a sibling or the very same block again
				l := lives[r.Intn(len(lives))]
				h = l.h
				if r.Chance(1, 3) {
					cs.Ops = append(cs.Ops, CacheOp{Op: "add", H: l.h, ID: l.id})
					continue
				}
			}
			cs.Ops = append(cs.Ops, CacheOp{Op: "add", H: h, ID: nextID})
			lives = append(lives, live{nextID, h})
			nextID++
		case x < 72:
			l := lives[r.Intn(len(lives))]
			if r.Chance(1, 5) { // a block that is not cached (other id, maybe a cached height)
				cs.Ops = append(cs.Ops, CacheOp{Op: "remove", H: l.h, ID: 100000 + i})
			} else {
				cs.Ops = append(cs.Ops, CacheOp{Op: "remove", H: l.h, ID: l.id})
			}
		case x < 82:
			cs.Ops = append(cs.Ops, CacheOp{Op: "clear", H: base + uint32(r.Intn(int(span)+4)) - 2})
		default:
			var take []int
			for _, l := range lives {
				if r.Chance(1, 3) {
					take = append(take, l.id)
				}
			}
			cs.Ops = append(cs.Ops, CacheOp{Op: "iterate", Take: take})
		}
	}
	return cs
}

// ---------------------------------------------------------------------------------------
// confirm cache

type ccKey struct {
	h  uint32
	id int
}

func runConfirmCacheCase(c *run.Ctx, vs *violSink, cs *CacheCase) bool {
	cc := network.NewConfirmCache()
	m := map[ccKey][]int{} // (height, block hash id) -> signature ids in push order
	msize := func() int {
		n := 0
		for _, l := range m {
			n += len(l)
		}
		return n
	}
	sigID := func(s [65]byte) int { return int(s[61])<<24 | int(s[62])<<16 | int(s[63])<<8 | int(s[64]) }
	hashID := func(h common.Hash) int { return int(h[28])<<24 | int(h[29])<<16 | int(h[30])<<8 | int(h[31]) }
	for i, op := range cs.Ops {
		switch op.Op {
		case "push":
			cc.Push(&network.BlockConfirmData{Hash: idHash(op.ID), Height: op.H, SignInfo: idSig(op.Sig)})
			k := ccKey{op.H, op.ID}
			m[k] = append(m[k], op.Sig)
		case "pop":
			got := cc.Pop(op.H, idHash(op.ID))
			k := ccKey{op.H, op.ID}
			want := append([]int(nil), m[k]...)
			delete(m, k)
			var gotIDs []int
			wrongKey := false
			for _, d := range got {
				gotIDs = append(gotIDs, sigID(d.SignInfo))
				if d.Height != op.H || d.Hash != idHash(op.ID) {
					wrongKey = true
				}
			}
			a, b := append([]int(nil), gotIDs...), append([]int(nil), want...)
			sort.Ints(a)
			sort.Ints(b)
			if fmt.Sprint(a) != fmt.Sprint(b) || wrongKey {
				clause := "pop-content"
				if len(a) < len(b) {
					clause = "lost"
				} else if len(a) > len(b) {
					clause = "duplicate"
				}
				vs.viol("C20/confirm-cache:"+clause+":pop", fmt.Sprintf("step %d: Pop(%d, #%d) returned signatures %v, pushed and not yet popped or cleared: %v", i, op.H, op.ID, gotIDs, want), cs)
				return false
			}
			c.Stat("cache_confirm_reads_compared", int64(len(got))+1)
		case "clear":
			cc.Clear(op.H)
			for k := range m {
				if k.h <= op.H {
					delete(m, k)
				}
			}
		default:
			continue
		}
		c.Stat("cache_confirm_ops", 1)
		c.Seen("cache_confirm_op_kinds", op.Op)
		// read back
		ents := cc.VerifEntries()
		c.Stat("cache_confirm_reads_compared", int64(len(ents))+1)
		got := map[ccKey][]int{}
		for _, e := range ents {
			k := ccKey{e.Height, hashID(e.Hash)}
			got[k] = append(got[k], sigID(e.Sig))
		}
		var clauses []string
		var det []string
		for k, want := range m {
			a, b := append([]int(nil), got[k]...), append([]int(nil), want...)
			sort.Ints(a)
			sort.Ints(b)
			if fmt.Sprint(a) != fmt.Sprint(b) {
				cl := "lost"
				if len(a) > len(b) {
					cl = "duplicate"
				}
				clauses = append(clauses, cl)
				det = append(det, fmt.Sprintf("block #%d at height %d holds %v, expected %v", k.id, k.h, got[k], want))
				break
			}
		}
		for k, l := range got {
			if _, ok := m[k]; !ok && len(l) > 0 {
				clauses = append(clauses, "not-removed")
				det = append(det, fmt.Sprintf("block #%d at height %d still holds %v", k.id, k.h, l))
				break
			}
		}
		if s := cc.Size(); s != msize() {
			clauses = append(clauses, "size")
			det = append(det, fmt.Sprintf("Size() = %d, model holds %d confirms", s, msize()))
		}
		if len(clauses) > 0 {
			for _, x := range clauses {
				vs.viol("C20/confirm-cache:"+x+":"+op.Op, fmt.Sprintf("step %d (%s height %d): %s", i, op.Op, op.H, strings.Join(det, "; ")), cs)
			}
			return false
		}
	}
	return true
}

func genConfirmCacheCase(r *run.Rng) *CacheCase {
	cs := &CacheCase{Kind: "confirm-cache"}
	n := r.Range(4, 40)
	span := r.Range(3, 12)
	base := uint32(r.Range(3, 50))
	type blk struct {
		h  uint32
		id int
	}
	var blks []blk
	nextSig := 1
	for i := 0; i < n; i++ {
		x := r.Intn(100)
		switch {
		case x < 60 || len(blks) == 0:
			var b blk
			if len(blks) > 0 && r.Chance(2, 3) {
				b = blks[r.Intn(len(blks))]
				if r.Chance(1, 4) { // another block hash of the same height
					b = blk{b.h, len(blks) + 1}
					blks = append(blks, b)
				}
			} else {
				b = blk{base + uint32(r.Intn(span)), len(blks) + 1}
				blks = append(blks, b)
			}
			sig := nextSig
			if r.Chance(1, 8) && nextSig > 1 {
				sig = r.Range(1, nextSig-1) // the same signature again
			} else {
				nextSig++
			}
			cs.Ops = append(cs.Ops, CacheOp{Op: "push", H: b.h, ID: b.id, Sig: sig})
		case x < 82:
			b := blks[r.Intn(len(blks))]
			if r.Chance(1, 5) {
				b.id += 1000 // unknown hash at a known height
			}
			if r.Chance(1, 8) {
				b.h += 100 // unknown height
			}
			cs.Ops = append(cs.Ops, CacheOp{Op: "pop", H: b.h, ID: b.id})
		default:
			cs.Ops = append(cs.Ops, CacheOp{Op: "clear", H: base + uint32(r.Intn(span+4)) - 2})
		}
	}
	return cs
}

// ---------------------------------------------------------------------------------------
// overflow: both caches empty themselves when they hold more than 10240 heights. The call
// that crosses the limit runs under a watchdog; the verdict is taken from the goroutine's
// stack (blocked in Lock called from Clear called from the adding function = it waits for
// the mutex it holds itself), never from the elapsed time.

func runOverflowCase(c *run.Ctx, vs *violSink, cs *CacheCase) {
	n := 10242
	if len(cs.Ops) > 0 && cs.Ops[0].N > 0 {
		n = cs.Ops[0].N
	}
	done := make(chan struct{})
	var bc *network.BlockCache
	var cc *network.ConfirmCache
	adder := "network.(*BlockCache).Add"
	clearer := "network.(*BlockCache).Clear"
	if cs.Kind == "confirm-cache-overflow" {
		adder, clearer = "network.(*ConfirmCache).Push", "network.(*ConfirmCache).Clear"
	}
	go func() {
		defer close(done)
		if cs.Kind == "confirm-cache-overflow" {
			cc = network.NewConfirmCache()
			for i := 0; i < n; i++ {
				cc.Push(&network.BlockConfirmData{Hash: idHash(i), Height: uint32(i + 1), SignInfo: idSig(i)})
			}
		} else {
			bc = network.NewBlockCache()
			for i := 0; i < n; i++ {
				bc.Add(fakeBlock(uint32(i+1), i))
			}
		}
	}()
	what := strings.TrimSuffix(cs.Kind, "-overflow")
	select {
	case <-done:
		c.Stat("cache_overflow_cases_completed", 1)
		size := 0
		if bc != nil {
			size = bc.Size()
		} else {
			size = cc.Size()
		}
		c.Seen("cache_overflow_size_after", fmt.Sprintf("%s:%d-heights-added:size-%d", what, n, size))
		if size > 10240 {
			vs.viol("C20/"+what+":unbounded", fmt.Sprintf("%d distinct heights added, the cache holds %d entries (limit 10240)", n, size), cs)
		}
	case <-time.After(6 * time.Second):
		buf := make([]byte, 1<<22)
		buf = buf[:runtime.Stack(buf, true)]
		self := false
		for _, g := range strings.Split(string(buf), "\n\n") {
			iLock := strings.Index(g, "sync.(*Mutex).Lock")
			iClear := strings.Index(g, clearer)
			iAdd := strings.Index(g, adder)
			if iLock >= 0 && iClear > iLock && iAdd > iClear {
				self = true
			}
		}
		if self {
			vs.viol("C20/"+what+":overflow-self-deadlock", fmt.Sprintf("the call that adds height number %d (> 10240) never returns: %s calls %s while it holds the cache mutex, and %s locks the same mutex again", 10241, adder, clearer, clearer), cs)
		} else {
			c.Inconclusive("cache overflow case did not finish within its watchdog and is not blocked at the expected place")
		}
	}
}

func runCacheCase(c *run.Ctx, vs *violSink, cs *CacheCase) {
	switch cs.Kind {
	case "block-cache":
		runBlockCacheCase(c, vs, cs)
	case "confirm-cache":
		runConfirmCacheCase(c, vs, cs)
	case "block-cache-overflow", "confirm-cache-overflow":
		runOverflowCase(c, vs, cs)
	}
}

func cacheFingerprint(cs *CacheCase) (string, bool) {
	kinds := map[string]int{}
	for _, op := range cs.Ops {
		kinds[op.Op]++
	}
	var ks []string
	for k, n := range kinds {
		b := "1"
		if n > 8 {
			b = "9+"
		} else if n > 2 {
			b = "3-8"
		}
		ks = append(ks, k+b)
	}
	sort.Strings(ks)
	return cs.Kind + "/" + strings.Join(ks, ","), len(kinds) >= 3
}
