// C20 — sync converges. Two monitors:
//
//  1. PM level (pm.go, gen.go): the real ProtocolManager on a real chain receives a valid linear
//     segment from scripted remotes in a seeded permutation with duplicates, confirms before
//     their blocks and transaction batches; after every message was delivered and at most
//     len(segment)+5 drains of the block cache its current and stable blocks must equal those
//     of a twin that got the same blocks and confirms in order, and every valid transaction of
//     every TxsMsg must be in the pool exactly once. One history per process (the event bus,
//     the node key and the logger are process globals); the batch process spawns them and
//     filters their race reports (only reports whose racing access is in package network
//     belong to this property; the chain's own background goroutines are property C19).
//  2. Cache level (cache.go): BlockCache / ConfirmCache against a sorted multimap model.
package main

import (
	"bufio"
	"bytes"
	"encoding/json"
	"fmt"
	"io/ioutil"
	"os"
	"os/exec"
	"path/filepath"
	"regexp"
	"sort"
	"strconv"
	"strings"
	"syscall"

	"verif/fx"
	"verif/fx/run"
)

const childEnv = "C20_CHILD"

func batches(tier string) int {
	if tier == "thorough" {
		return 64
	}
	return 16
}

func runAll(c *run.Ctx) {
	fx.Quiet()
	if job := os.Getenv(childEnv); job != "" {
		runChild(c, job)
		return
	}
	vs := &violSink{c: c, seen: map[string]bool{}}

	// fixed regression list: in every tier and seed
	if c.Batch == 0 {
		for _, cs := range fixedCacheCases() {
			if strings.HasSuffix(cs.Kind, "-overflow") {
				continue
			}
			c.WAL(cs)
			runCacheCase(c, vs, cs)
			fp, _ := cacheFingerprint(cs)
			c.Case("fixed/"+cs.Name+"/"+fp, true, nil)
			c.Stat("fixed_cache_cases", 1)
		}
	}
	if c.Batch == 1%c.NBatches {
		for _, cs := range fixedCacheCases() {
			if !strings.HasSuffix(cs.Kind, "-overflow") {
				continue
			}
			c.WAL(cs)
			runCacheCase(c, vs, cs)
			c.Case("fixed/"+cs.Name, true, nil)
			c.Stat("fixed_cache_cases", 1)
		}
	}
	for k := range fixedPMNames {
		if k%c.NBatches == c.Batch {
			spawnPM(c, fmt.Sprintf("fixed:%d", k), fmt.Sprintf("pmfixed-%d", k))
		}
	}

	// cache level
	nb := c.Pick(1500, 30000)
	lo, hi := c.Share(nb)
	for i := lo; i < hi; i++ {
		cs := genBlockCacheCase(run.NewRng(c.Seed, 21, uint64(i)))
		c.WAL(cs)
		runBlockCacheCase(c, vs, cs)
		fp, nt := cacheFingerprint(cs)
		var sample interface{}
		if i == lo {
			sample = cs
		}
		c.Case(fp, nt, sample)
	}
	nc := c.Pick(500, 10000)
	lo, hi = c.Share(nc)
	for i := lo; i < hi; i++ {
		cs := genConfirmCacheCase(run.NewRng(c.Seed, 22, uint64(i)))
		c.WAL(cs)
		runConfirmCacheCase(c, vs, cs)
		fp, nt := cacheFingerprint(cs)
		c.Case(fp, nt, nil)
	}

	// PM level: one child process per history
	np := c.Pick(48, 960)
	lo, hi = c.Share(np)
	for i := lo; i < hi; i++ {
		if only := os.Getenv("C20_PM_ONLY"); only != "" && only != fmt.Sprint(i) {
			continue
		}
		spawnPM(c, fmt.Sprintf("gen:%d", i), fmt.Sprintf("pm-%d", i))
	}
}

// runChild executes one PM history in this (fresh) process.
func runChild(c *run.Ctx, job string) {
	vs := &violSink{c: c, seen: map[string]bool{}}
	var cs *PMCase
	var err error
	switch {
	case strings.HasPrefix(job, "gen:"):
		f := strings.Split(job, ":")
		idx, _ := strconv.Atoi(f[1])
		try, _ := strconv.Atoi(f[2])
		cs, err = genPMCase(c.Seed, idx, try, c.Scratch)
	case strings.HasPrefix(job, "fixed:"):
		f := strings.Split(job, ":")
		k, _ := strconv.Atoi(f[1])
		try, _ := strconv.Atoi(f[2])
		cs, err = fixedPMCase(k, try, c.Scratch)
	case strings.HasPrefix(job, "replay:"):
		var b []byte
		b, err = ioutil.ReadFile(job[7:])
		if err == nil {
			cs = new(PMCase)
			err = json.Unmarshal(b, cs)
		}
	}
	if err != nil || cs == nil {
		c.Inconclusive(fmt.Sprintf("pm case %s could not be built: %v", job, err))
		return
	}
	c.WAL(cs)
	execPM(c, vs, cs)
	fp, nt := pmFingerprint(cs)
	c.Seen("pm_modes", cs.Mode)
	c.Case(fp, nt, map[string]interface{}{"kind": "pm", "name": cs.Name, "mode": cs.Mode, "deputies": cs.World.Deputies, "blocks": len(cs.Blocks),
		"peers": cs.Peers, "deferServe": cs.DeferServe, "steps": len(cs.Steps), "txs": len(cs.Txs), "fingerprint": fp})
}

// spawnPM re-executes this binary for one PM history with the race detector's log redirected,
// forwards its result lines and hands the race reports that belong to this property to the driver.
func spawnPM(c *run.Ctx, job, name string) {
	// The race build also switches on checkptr, and the repository's sha3 (xorInUnaligned:
	// converts &buf[0] of a 136..167 byte input to *[21]uint64 but reads only len(buf) bytes)
	// trips it whenever such a buffer ends its allocation: a fatal error that depends on the
	// heap layout, not on the history. Such a child is started again.
	for try := 0; ; try++ {
		j := job
		if !strings.HasPrefix(job, "replay:") {
			j = fmt.Sprintf("%s:%d", job, try)
		}
		if spawnPMOnce(c, j, fmt.Sprintf("%s-t%d", name, try), try < 5) {
			return
		}
		c.Stat("pm_children_restarted_after_checkptr_abort_in_sha3", 1)
	}
}

// spawnPMOnce returns false when the child has to be started again.
func spawnPMOnce(c *run.Ctx, job, name string, mayRetry bool) bool {
	sub := filepath.Join(c.Scratch, name)
	_ = os.MkdirAll(sub, 0755)
	logPrefix := filepath.Join(sub, "race")
	cmd := exec.Command(os.Args[0], "run", c.Tier, fmt.Sprint(c.Seed), fmt.Sprint(c.Batch), fmt.Sprint(c.NBatches), sub)
	env := []string{}
	for _, e := range os.Environ() {
		if !strings.HasPrefix(e, "GORACE=") && !strings.HasPrefix(e, childEnv+"=") && !strings.HasPrefix(e, "TMPDIR=") {
			env = append(env, e)
		}
	}
	env = append(env, childEnv+"="+job, "TMPDIR="+sub, "GORACE=halt_on_error=0 exitcode=0 history_size=5 log_path="+logPrefix)
	cmd.Env = env
	cmd.Dir = sub
	var errBuf bytes.Buffer
	cmd.Stderr = &errBuf
	cmd.SysProcAttr = &syscall.SysProcAttr{Pdeathsig: syscall.SIGKILL}
	var out bytes.Buffer
	cmd.Stdout = &out
	err := cmd.Run()
	done := false
	sc := bufio.NewScanner(&out)
	sc.Buffer(make([]byte, 1<<20), 1<<28)
	var lines []string
	for sc.Scan() {
		line := sc.Text()
		if strings.Contains(line, `"t":"done"`) {
			done = true
			continue
		}
		lines = append(lines, line)
	}
	if !done && mayRetry && strings.Contains(errBuf.String(), "fatal error: checkptr") && strings.Contains(errBuf.String(), "sha3.xorInUnaligned") {
		_ = os.RemoveAll(sub)
		return false
	}
	for _, line := range lines {
		os.Stdout.WriteString(line + "\n")
	}
	if !done {
		// die without the "done" line so that the driver classifies the crash from our stderr
		os.Stderr.Write(errBuf.Bytes())
		fmt.Fprintf(os.Stderr, "\npm history child %s did not finish: %v\n", job, err)
		if b, e := ioutil.ReadFile(filepath.Join(sub, fmt.Sprintf("wal-%d.json", c.Batch))); e == nil {
			_ = ioutil.WriteFile(filepath.Join(c.Scratch, fmt.Sprintf("wal-%d.json", c.Batch)), b, 0644)
		}
		os.Stdout.Sync()
		os.Exit(3)
	}
	if os.Getenv("C20_CHILD_STDERR") != "" {
		os.Stderr.Write(errBuf.Bytes())
	}
	files, _ := filepath.Glob(logPrefix + ".*")
	for _, f := range files {
		b, err := ioutil.ReadFile(f)
		if err != nil {
			continue
		}
		for _, rep := range strings.Split(string(b), "WARNING: DATA RACE")[1:] {
			rep = strings.Split(rep, "==================")[0]
			cls, mine := raceClass(rep)
			if mine && onHarnessObject(rep) {
				// the racing memory belongs to a scripted remote (reached through the manager's
				// unsynchronised peer map): a follow-up of the reports on the map itself
				c.Stat("pm_race_reports_on_harness_objects_ignored", 1)
				c.Seen("pm_race_classes_on_harness_objects_ignored", cls)
			} else if mine {
				fmt.Fprintf(os.Stderr, "==================\nWARNING: DATA RACE%s==================\n", rep)
				c.Stat("pm_race_reports_in_package_network", 1)
			} else {
				c.Stat("pm_race_reports_outside_package_network_ignored", 1)
				c.Seen("pm_race_classes_outside_package_network_ignored", cls)
			}
		}
	}
	_ = os.RemoveAll(sub)
	return true
}

var anyFrameRe = regexp.MustCompile(`(?m)^  (\S+)\(\)`)

// onHarnessObject: the innermost frame of one of the two accesses is harness code.
func onHarnessObject(rep string) bool {
	secs := regexp.MustCompile(`\n(?:Previous )?(?:[Aa]tomic )?(?:[Ww]rite|[Rr]ead) (?:at|by) `).Split("\n"+rep, -1)
	for _, s := range secs[1:] {
		s = strings.Split(s, "\nGoroutine ")[0]
		if m := anyFrameRe.FindStringSubmatch(s); m != nil && strings.HasPrefix(m[1], "main.") {
			return true
		}
	}
	return false
}

var frameRe = regexp.MustCompile(`(?m)^  (github\.com/LemoFoundationLtd/lemochain-core/\S+)\(\)`)

// raceClass names a report by the innermost in-repo functions of its two access stacks and
// tells whether one of them is in package network (or network/p2p).
func raceClass(rep string) (string, bool) {
	secs := regexp.MustCompile(`\n(?:Previous )?(?:[Aa]tomic )?(?:[Ww]rite|[Rr]ead) (?:at|by) `).Split("\n"+rep, -1)
	var fns []string
	mine := false
	for _, s := range secs[1:] {
		s = strings.Split(s, "\nGoroutine ")[0]
		fn := "?"
		for _, m := range frameRe.FindAllStringSubmatch(s, -1) {
			if strings.Contains(m[1], "verifhook") {
				continue
			}
			fn = strings.TrimPrefix(m[1], "github.com/LemoFoundationLtd/lemochain-core/")
			break
		}
		if strings.HasPrefix(fn, "network.") || strings.HasPrefix(fn, "network/p2p.") {
			mine = true
		}
		fns = append(fns, fn)
	}
	if len(fns) > 2 {
		fns = fns[:2]
	}
	sort.Strings(fns)
	return strings.Join(fns, "<->"), mine
}

// ---- replay ----

func replay(c *run.Ctx, raw json.RawMessage) {
	fx.Quiet()
	var head struct {
		Kind string `json:"kind"`
	}
	if err := json.Unmarshal(raw, &head); err != nil || head.Kind == "" {
		c.Inconclusive("this witness is not a case of the engine (race reports are re-found by running the tier)")
		return
	}
	vs := &violSink{c: c, seen: map[string]bool{}}
	if head.Kind == "pm" {
		f := filepath.Join(c.Scratch, "replay-case.json")
		if err := ioutil.WriteFile(f, raw, 0644); err != nil {
			c.Inconclusive(err.Error())
			return
		}
		spawnPM(c, "replay:"+f, "pmreplay")
		return
	}
	cs := new(CacheCase)
	if err := json.Unmarshal(raw, cs); err != nil {
		c.Inconclusive("bad witness: " + err.Error())
		return
	}
	runCacheCase(c, vs, cs)
	c.Case("replay/"+cs.Kind, true, nil)
}

func main() { run.Main(run.Engine{Batches: batches, Run: runAll, Replay: replay}) }
