package main

// Fixed regression list: executed in every tier and for every seed.

import (
	"fmt"

	"verif/fx"
)

func fixedCacheCases() []*CacheCase {
	add := func(h uint32, id int) CacheOp { return CacheOp{Op: "add", H: h, ID: id} }
	return []*CacheCase{
		// design-time finding (ii): heights 5, 9, 12 then 7
		{Kind: "block-cache", Name: "add-between-5-9-12-then-7", Ops: []CacheOp{add(5, 1), add(9, 2), add(12, 3), add(7, 4)}},
		// several insertions between existing heights, then removal and clearing across them
		{Kind: "block-cache", Name: "add-between-repeatedly", Ops: []CacheOp{add(5, 1), add(9, 2), add(12, 3), add(7, 4), add(8, 5), add(6, 6), add(11, 7), add(10, 8),
			{Op: "remove", H: 9, ID: 2}, {Op: "clear", H: 7}, {Op: "iterate", Take: []int{5, 7}}, add(9, 9), {Op: "clear", H: 100}}},
		// between the last two heights (nothing behind the insertion point to overwrite)
		{Kind: "block-cache", Name: "add-between-last-two", Ops: []CacheOp{add(4, 1), add(9, 2), add(8, 3), add(7, 4)}},
		// the lowest height is drained, a higher one stays: which parent does the timer ask for?
		{Kind: "block-cache", Name: "first-height-after-drain", Ops: []CacheOp{add(5, 1), add(9, 2), {Op: "iterate", Take: []int{1}}, add(7, 3), {Op: "iterate", Take: []int{3}}}},
		// siblings, the same block twice, removal of one sibling and of a block that is not cached
		{Kind: "block-cache", Name: "siblings-and-repeats", Ops: []CacheOp{add(5, 1), add(5, 2), add(5, 1), add(6, 3), {Op: "remove", H: 5, ID: 1}, {Op: "remove", H: 5, ID: 77}, {Op: "remove", H: 5, ID: 2}, {Op: "remove", H: 8, ID: 9}, add(5, 4), {Op: "clear", H: 5}}},
		{Kind: "confirm-cache", Name: "push-pop-clear", Ops: []CacheOp{{Op: "push", H: 5, ID: 1, Sig: 1}, {Op: "push", H: 5, ID: 2, Sig: 2}, {Op: "push", H: 5, ID: 1, Sig: 3}, {Op: "push", H: 5, ID: 1, Sig: 3},
			{Op: "push", H: 7, ID: 3, Sig: 4}, {Op: "pop", H: 5, ID: 1}, {Op: "pop", H: 5, ID: 1}, {Op: "pop", H: 6, ID: 1}, {Op: "push", H: 5, ID: 1, Sig: 5}, {Op: "clear", H: 5}, {Op: "pop", H: 7, ID: 3}, {Op: "pop", H: 5, ID: 2}}},
		// more than 10240 heights: the caches are meant to empty themselves
		{Kind: "block-cache-overflow", Name: "block-cache-10242-heights", Ops: []CacheOp{{Op: "fill", N: 10242}}},
		{Kind: "confirm-cache-overflow", Name: "confirm-cache-10242-heights", Ops: []CacheOp{{Op: "fill", N: 10242}}},
	}
}

var fixedPMNames = []string{"tx-batch-of-8", "orphans-5-9-12-then-7", "all-confirms-before-blocks-reverse", "every-block-twice-in-order", "two-orphan-islands-filled-downwards", "remotes-join-and-leave-while-syncing",
	"confirm-arrives-while-its-block-is-inserted-3ms", "confirm-arrives-while-its-block-is-inserted-8ms", "confirm-arrives-while-its-block-is-inserted-20ms",
	"copy-of-block-being-drained-heads-a-message-0ms", "copy-of-block-being-drained-heads-a-message-2ms",
	"confirm-and-second-copy-arrive-while-the-block-is-inserted"}

func seq(lo, hi int) []int {
	var out []int
	for i := lo; i <= hi; i++ {
		out = append(out, i)
	}
	return out
}

// fixedPMCase builds fixed history k (segments are mined deterministically, like generated ones).
// try > 0 varies the transactions inside the blocks (see spawnPM), nothing of the delivery.
func fixedPMCase(k, try int, scratch string) (*PMCase, error) {
	if k < 0 || k >= len(fixedPMNames) {
		return nil, fmt.Errorf("no fixed pm case %d", k)
	}
	nDep, n := 3, 12
	switch k {
	case 0:
		n = 6
	case 2:
		nDep, n = 5, 8
	case 3:
		nDep, n = 4, 6
	case 5:
		nDep, n = 3, 10
	case 6, 7, 8:
		nDep, n = 5, 6
	case 9, 10:
		nDep, n = 3, 7
	case 11:
		nDep, n = 3, 5
	}
	wcfg := fx.WorldCfg{Deputies: nDep, Users: 6, SlotMs: 10000}
	w := fx.NewWorld(wcfg)
	wcfg.GenesisTime, wcfg.SlotMs = w.GenesisTime, w.SlotMs
	sp := segSpec{Deputies: nDep, N: n}
	for i := 0; i < n; i++ {
		sp.Dt = append(sp.Dt, []int{5, 3, 11, 2, 25, 7}[i%6])
		sp.TxsPer = append(sp.TxsPer, (i+try)%3)
	}
	if k == 9 || k == 10 || k == 11 {
		sp.TxsPer[4] = 40 // block 5 takes a while to verify
	}
	blocks, sigs, err := mineSegment(w, fx.PathOf(scratch, fmt.Sprintf("mine-fixed-%d", k)), sp)
	if err != nil {
		return nil, err
	}
	cs := &PMCase{Kind: "pm", Name: fixedPMNames[k], Mode: "fixed:" + fixedPMNames[k], World: wcfg}
	if err := materialise(cs, blocks, sigs); err != nil {
		return nil, err
	}
	all := func(i int) []int { return seq(0, len(sigs[i])-1) }
	blk := func(peer int, hs ...int) Step {
		st := Step{Kind: "blocks", Peer: peer}
		for _, h := range hs {
			st.Blocks = append(st.Blocks, BlockRef{Idx: h - 1})
		}
		return st
	}
	confirmsOf := func(peer int, h int) []Step {
		var out []Step
		for _, s := range cs.Twin[h-1] {
			out = append(out, Step{Kind: "confirm", Peer: peer, Block: h - 1, Sig: s})
		}
		return out
	}
	switch k {
	case 0: // design-time finding (i): one batch of eight valid transactions
		cs.Peers = []PeerSpec{{Deputy: 0}}
		for i := 0; i < n; i++ {
			cs.Twin = append(cs.Twin, all(i))
		}
		for i := 0; i < 8; i++ {
			cs.Txs = append(cs.Txs, TxSpec{Kind: "transfer", From: i % 6, To: (i + 1) % 6, Amount: int64(100 + i), Life: 600 + 10*i})
		}
		cs.Steps = append(cs.Steps, blk(0, 1, 2, 3), Step{Kind: "txs", Peer: 0, Txs: seq(0, 7)}, blk(0, 4, 5, 6))
		for h := 1; h <= n; h++ {
			cs.Steps = append(cs.Steps, confirmsOf(0, h)...)
		}
	case 1: // design-time finding (ii) through the manager: the cache sees 5, 9, 12 and then 7
		cs.Peers = []PeerSpec{{Deputy: -1}}
		cs.DeferServe = true
		for i := 0; i < n; i++ {
			cs.Twin = append(cs.Twin, all(i))
		}
		cs.Steps = append(cs.Steps, blk(0, 1, 2, 3), blk(0, 5), blk(0, 9), blk(0, 12), blk(0, 7), Step{Kind: "tick"}, blk(0, 4), blk(0, 6), blk(0, 8), blk(0, 10), blk(0, 11))
		for h := 1; h <= n; h++ {
			cs.Steps = append(cs.Steps, confirmsOf(0, h)...)
		}
	case 2: // every confirm first, then the blocks from the top down, two remotes
		cs.Peers = []PeerSpec{{Deputy: 1}, {Deputy: -1}}
		for i := 0; i < n; i++ {
			if i == n-1 {
				cs.Twin = append(cs.Twin, []int{0}) // the top block stays unstable
			} else {
				cs.Twin = append(cs.Twin, all(i))
			}
		}
		for h := n; h >= 1; h-- {
			for j, st := range confirmsOf(0, h) {
				st.Peer = j % 2
				cs.Steps = append(cs.Steps, st)
			}
		}
		for h := n; h >= 1; h-- {
			cs.Steps = append(cs.Steps, blk(h%2, h))
		}
	case 3: // every block twice, in order; confirms behind their blocks; single-transaction batches
		cs.Peers = []PeerSpec{{Deputy: 0}, {Deputy: 1, Announce: true}}
		for i := 0; i < n; i++ {
			cs.Twin = append(cs.Twin, all(i))
		}
		for i := 0; i < 4; i++ {
			cs.Txs = append(cs.Txs, TxSpec{Kind: "transfer", From: i, To: i + 1, Amount: int64(300 + i), Life: 900})
		}
		for h := 1; h <= n; h++ {
			cs.Steps = append(cs.Steps, blk(0, h, h))
			cs.Steps = append(cs.Steps, confirmsOf(1, h)...)
			cs.Steps = append(cs.Steps, blk(1, h))
			if h <= 4 {
				cs.Steps = append(cs.Steps, Step{Kind: "txs", Peer: h % 2, Txs: []int{h - 1}}, Step{Kind: "txs", Peer: (h + 1) % 2, Txs: []int{h - 1}})
			}
		}
	case 4: // two islands of orphans; the node's own parent requests fill the upper one downwards (8 lands between 5 and 9, then 7)
		cs.Peers = []PeerSpec{{Deputy: -1}, {Deputy: 2}}
		for i := 0; i < n; i++ {
			if i%2 == 0 {
				cs.Twin = append(cs.Twin, all(i))
			} else {
				cs.Twin = append(cs.Twin, nil)
			}
		}
		cs.Steps = append(cs.Steps, blk(0, 1, 2), blk(1, 5), blk(0, 4), Step{Kind: "pause", Ms: 20}, blk(1, 9), Step{Kind: "tick"}, blk(0, 12), Step{Kind: "tick"}, blk(1, 3), blk(0, 6, 10, 11))
		for h := 1; h <= n; h++ {
			cs.Steps = append(cs.Steps, confirmsOf(h%2, h)...)
		}
	case 5: // remotes announce, join and leave while blocks become stable and transactions are relayed (the peer set changes under the loops that read it)
		cs.Peers = []PeerSpec{{Deputy: 0}, {Deputy: -1, Announce: true}, {Deputy: 1, Late: true, Announce: true}, {Deputy: -1, Late: true}}
		cs.DeferServe = true
		for i := 0; i < n; i++ {
			cs.Twin = append(cs.Twin, all(i))
		}
		for i := 0; i < 9; i++ {
			cs.Txs = append(cs.Txs, TxSpec{Kind: "transfer", From: i % 6, To: (i + 2) % 6, Amount: int64(700 + i), Life: 700 + i})
		}
		round := func(peer int, h int, tx int) {
			cs.Steps = append(cs.Steps, blk(peer, h))
			cs.Steps = append(cs.Steps, confirmsOf(peer, h)...)
			cs.Steps = append(cs.Steps, Step{Kind: "txs", Peer: peer, Txs: []int{tx}}, Step{Kind: "pause", Ms: 30})
		}
		round(0, 1, 0)
		round(1, 2, 1)
		cs.Steps = append(cs.Steps, Step{Kind: "join", Peer: 2})
		round(2, 3, 2)
		round(0, 4, 3)
		cs.Steps = append(cs.Steps, Step{Kind: "join", Peer: 3})
		round(3, 5, 4)
		cs.Steps = append(cs.Steps, Step{Kind: "leave", Peer: 2}, Step{Kind: "pause", Ms: 30})
		round(1, 6, 5)
		round(3, 7, 6)
		cs.Steps = append(cs.Steps, Step{Kind: "leave", Peer: 3}, Step{Kind: "pause", Ms: 30})
		round(0, 8, 7)
		round(1, 10, 8)
		cs.Steps = append(cs.Steps, blk(0, 9))
		cs.Steps = append(cs.Steps, confirmsOf(0, 9)...)
	case 6, 7, 8:
		// The top block becomes stable only with its third confirm, and that confirm arrives (from
		// another remote) a few milliseconds behind the block itself: while the block loop, which has
		// already taken the early confirms out of the confirm cache, is still inserting the block
		// behind a queue of confirm insertions for the lower blocks.
		cs.Peers = []PeerSpec{{Deputy: 0}, {Deputy: 1}, {Deputy: -1}}
		for i := 0; i < n; i++ {
			if i == n-1 {
				cs.Twin = append(cs.Twin, []int{0, 1, 2})
			} else {
				cs.Twin = append(cs.Twin, []int{0, 1})
			}
		}
		cs.Steps = append(cs.Steps, blk(0, 1, 2, 3, 4, 5))
		for h := 1; h < n; h++ {
			cs.Steps = append(cs.Steps, confirmsOf(h%2, h)...)
		}
		cs.Steps = append(cs.Steps,
			Step{Kind: "confirm", Peer: 1, Block: n - 1, Sig: 0}, Step{Kind: "confirm", Peer: 0, Block: n - 1, Sig: 1}, // early: cached
			Step{Kind: "tick"})
		for rep := 0; rep < 8; rep++ { // the queue: repeated confirms of the lower blocks, each inserted under the chain lock
			for h := 1; h < n; h++ {
				cs.Steps = append(cs.Steps, Step{Kind: "confirm", Peer: 2, Block: h - 1, Sig: rep % 2})
			}
		}
		cs.Steps = append(cs.Steps, blk(0, n), Step{Kind: "pause", Ms: []int{3, 8, 20}[k-6]}, Step{Kind: "confirm", Peer: 1, Block: n - 1, Sig: 2})
	case 9, 10:
		// Block 5 waits in the cache; once its parent is in the chain the next drain inserts it in a
		// goroutine of its own. Right behind that drain a BlocksMsg brings another copy of block 5
		// followed by the top block 7 (whose parent 6 is still missing, so it has to be kept).
		cs.Peers = []PeerSpec{{Deputy: 0}, {Deputy: -1}}
		cs.DeferServe = true
		for i := 0; i < n; i++ {
			cs.Twin = append(cs.Twin, all(i))
		}
		cs.Steps = append(cs.Steps, blk(0, 1, 2, 3), blk(1, 5), Step{Kind: "tick"}, blk(0, 4), Step{Kind: "tick"})
		if k == 10 {
			cs.Steps = append(cs.Steps, Step{Kind: "pause", Ms: 2})
		}
		cs.Steps = append(cs.Steps, blk(1, 5, 7), Step{Kind: "tick"}, blk(0, 6))
		for h := 1; h <= n; h++ {
			cs.Steps = append(cs.Steps, confirmsOf(h%2, h)...)
		}
	case 11:
		// The top block 5 is inserted by the drain (slowly). Meanwhile its only confirm arrives (and is
		// cached: the block is not visible yet) and then another copy of block 5: the manager merges
		// the cached confirm into that copy, whose insertion then fails because the first copy wins.
		cs.Peers = []PeerSpec{{Deputy: 0}, {Deputy: -1}}
		cs.DeferServe = true
		for i := 0; i < n; i++ {
			if i == n-1 {
				cs.Twin = append(cs.Twin, []int{0})
			} else {
				cs.Twin = append(cs.Twin, nil)
			}
		}
		cs.Steps = append(cs.Steps, blk(0, 1, 2, 3), blk(1, 5), Step{Kind: "tick"}, blk(0, 4), Step{Kind: "tick"}, Step{Kind: "pause", Ms: 2},
			Step{Kind: "confirm", Peer: 0, Block: n - 1, Sig: 0}, Step{Kind: "pause", Ms: 3}, blk(1, 5))
	}
	return cs, nil
}
