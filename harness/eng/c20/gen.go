package main

// Generator of PM histories: a valid linear segment is mined on a helper node with the
// repository's miner path at crafted past chain times; the delivery schedule is a seeded
// permutation with duplicates. Everything ends up materialised in the PMCase.

import (
	"encoding/hex"
	"fmt"
	"time"

	"github.com/LemoFoundationLtd/lemochain-core/chain/types"
	"github.com/LemoFoundationLtd/lemochain-core/common/rlp"

	"verif/fx"
	"verif/fx/run"
)

type segSpec struct {
	Deputies int
	N        int
	// per block (index 0 = height 1): how many of the other deputies' confirms are delivered: -1 all, else count
	Confirms []int
	TxsPer   []int
	Dt       []int
	// TxLife: expiration of the segment's transactions relative to their block's time (0 = 600)
	TxLife int
}

// mineSegment builds the blocks of a segment on a throw-away node. Block 1 funds the users.
func mineSegment(w *fx.World, dir string, sp segSpec) ([]*types.Block, [][]types.SignData, error) {
	M := w.NewNode(dir, w.Outsider)
	defer func() {
		M.Destroy()
	}()
	B := fx.TxB{W: w}
	head := M.BC.Genesis()
	var blocks []*types.Block
	var sigs [][]types.SignData
	seq := int64(1)
	life := uint64(600)
	if sp.TxLife > 0 {
		life = uint64(sp.TxLife)
	}
	for i := 0; i < sp.N; i++ {
		t := head.Time() + uint32(sp.Dt[i])
		var txs types.Transactions
		if i == 0 {
			for k, u := range w.Users {
				txs = append(txs, B.Transfer(w.Founder, u.Addr, fx.LEMO(100000), uint64(t)+1500+uint64(k)))
			}
		} else {
			for k := 0; k < sp.TxsPer[i]; k++ {
				seq++
				from := w.Users[int(seq)%len(w.Users)]
				to := w.Users[int(seq*7+3)%len(w.Users)]
				switch seq % 5 {
				case 0:
					txs = append(txs, B.Vote(from, w.Deputies[int(seq)%len(w.Deputies)].Addr, uint64(t)+life+uint64(seq)))
				case 1:
					sub := B.Transfer(to, from.Addr, fx.LEMO(seq), uint64(t)+life+100+uint64(seq))
					txs = append(txs, B.Box(from, types.Transactions{sub}, uint64(t)+life+uint64(seq)))
				default:
					txs = append(txs, B.Transfer(from, to.Addr, fx.LEMO(seq), uint64(t)+life+uint64(seq)))
				}
			}
		}
		res, err := M.Mine(head, t, txs, fmt.Sprintf("c20-%d", i))
		if err != nil {
			return nil, nil, fmt.Errorf("mine block %d: %v", i+1, err)
		}
		if err := M.Insert(res.Block, true); err != nil {
			return nil, nil, fmt.Errorf("helper rejects its own block %d: %v", i+1, err)
		}
		head = res.Block
		blocks = append(blocks, res.Block)
		sigs = append(sigs, M.ConfirmsOf(res.Block))
	}
	return blocks, sigs, nil
}

func materialise(cs *PMCase, blocks []*types.Block, sigs [][]types.SignData) error {
	cs.Blocks, cs.Sigs = nil, nil
	for i, b := range blocks {
		enc, err := rlp.EncodeToBytes(wireBlock(b, nil))
		if err != nil {
			return err
		}
		cs.Blocks = append(cs.Blocks, hex.EncodeToString(enc))
		var ss []string
		for _, s := range sigs[i] {
			ss = append(ss, hex.EncodeToString(s[:]))
		}
		cs.Sigs = append(cs.Sigs, ss)
	}
	return nil
}

var modes = []string{"shuffle", "reverse", "confirms-first", "near-order", "islands", "shuffle", "islands"}

func genTxSpecs(r *run.Rng, n int) []TxSpec {
	var out []TxSpec
	for i := 0; i < n; i++ {
		s := TxSpec{Kind: "transfer", From: r.Intn(6), To: r.Intn(6), Amount: int64(1000 + i), Life: r.Range(300, 1500)}
		switch x := r.Intn(20); {
		case x == 0:
			s.Kind = "vote"
		case x == 1:
			s.Kind = "create"
		case x == 2:
			s.Kind = "box"
			s.Life = r.Range(300, 800)
			for k := 0; k < r.Range(1, 3); k++ {
				s.Subs = append(s.Subs, TxSpec{Kind: "transfer", From: r.Intn(6), To: r.Intn(6), Amount: int64(5000 + 10*i + k), Life: r.Range(900, 1500)})
			}
		case x == 3:
			s.Kind, s.Life = "expired", -r.Range(5, 500)
		case x == 4:
			s.Kind = "wrong-chain"
		case x == 5:
			s.Kind, s.Life = "far-future", 1800+r.Range(120, 900)
		}
		out = append(out, s)
	}
	return out
}

// genPMCase builds history number idx of a seed.
// try > 0 draws another case for the same index (see spawnPM: the race build's checkptr aborts in sha3).
func genPMCase(seed uint64, idx, try int, scratch string) (*PMCase, error) {
	r := run.NewRng(seed, 20, uint64(idx), uint64(try))
	if try == 0 {
		r = run.NewRng(seed, 20, uint64(idx))
	}
	nDep := []int{1, 2, 3, 3, 4, 5, 5}[r.Intn(7)]
	n := r.Range(6, 12)
	wcfg := fx.WorldCfg{Deputies: nDep, Users: 6, SlotMs: 10000}
	// recent: the segment's chain time ends shortly before the wall clock, so that transactions of its blocks are still
	// valid for the transaction handler (which compares expirations with time.Now) and can be sent in batches together
	// with fresh ones (kind "in-chain"): structure and order of the case stay a function of the seed, the timestamps not
	recent := r.Chance(1, 3)
	if recent {
		wcfg.GenesisTime = uint32(time.Now().Unix()) - 500
	}
	w := fx.NewWorld(wcfg)
	wcfg.GenesisTime, wcfg.SlotMs = w.GenesisTime, w.SlotMs
	sp := segSpec{Deputies: nDep, N: n}
	if recent {
		sp.TxLife = 1200
	}
	for i := 0; i < n; i++ {
		sp.Dt = append(sp.Dt, []int{1, 2, 3, 7, 11, 19, 25, 33}[r.Intn(8)])
		sp.TxsPer = append(sp.TxsPer, r.Intn(4))
	}
	sp.Dt[0] = 5
	blocks, sigs, err := mineSegment(w, fx.PathOf(scratch, fmt.Sprintf("mine-%d", idx)), sp)
	if err != nil {
		return nil, err
	}
	cs := &PMCase{Kind: "pm", World: wcfg, Mode: modes[r.Intn(len(modes))]}
	if err := materialise(cs, blocks, sigs); err != nil {
		return nil, err
	}
	// which confirms exist at all (the twin gets exactly these)
	for i := 0; i < n; i++ {
		k := len(sigs[i])
		var sel []int
		switch x := r.Intn(8); {
		case x < 4: // all
			for s := 0; s < k; s++ {
				sel = append(sel, s)
			}
		case x < 6: // none
		default: // some
			for s := 0; s < k; s++ {
				if r.Chance(1, 2) {
					sel = append(sel, s)
				}
			}
		}
		cs.Twin = append(cs.Twin, sel)
	}
	// remotes
	np := r.Range(1, 3)
	for p := 0; p < np; p++ {
		ps := PeerSpec{Deputy: -1}
		if r.Chance(1, 2) && p < nDep {
			ps.Deputy = p
		}
		ps.Announce = r.Chance(1, 6)
		cs.Peers = append(cs.Peers, ps)
	}
	cs.DeferServe = r.Chance(1, 3)
	cs.Txs = genTxSpecs(r, r.Intn(15))
	if recent {
		for i := 1; i < len(blocks); i++ {
			for k := range blocks[i].Txs {
				if r.Chance(1, 2) {
					cs.Txs = append(cs.Txs, TxSpec{Kind: "in-chain", From: i, To: k})
				}
			}
		}
	}

	// block delivery order
	var order []int
	switch cs.Mode {
	case "reverse":
		for i := n - 1; i >= 0; i-- {
			order = append(order, i)
		}
	case "near-order":
		for i := 0; i < n; i++ {
			order = append(order, i)
		}
		for k := 0; k < n; k++ {
			i := r.Intn(n - 1)
			j := i + 1 + r.Intn(2)
			if j < n {
				order[i], order[j] = order[j], order[i]
			}
		}
	case "islands":
		// a prefix in order, then every second / third block (separate islands of orphans), the gaps later
		pre := r.Range(0, 3)
		var first, later []int
		for i := 0; i < n; i++ {
			switch {
			case i < pre:
				order = append(order, i)
			case r.Chance(2, 5):
				first = append(first, i)
			default:
				later = append(later, i)
			}
		}
		for _, k := range r.Perm(len(first)) {
			order = append(order, first[k])
		}
		for _, k := range r.Perm(len(later)) {
			order = append(order, later[k])
		}
	default:
		order = r.Perm(n)
	}
	// duplicates
	var withDups []int
	for _, i := range order {
		withDups = append(withDups, i)
	}
	for _, i := range order {
		for r.Chance(1, 4) {
			pos := r.Intn(len(withDups) + 1)
			withDups = append(withDups[:pos], append([]int{i}, withDups[pos:]...)...)
		}
	}
	// chunk into BlocksMsg batches of 1..4
	var blockSteps []Step
	for k := 0; k < len(withDups); {
		sz := []int{1, 1, 1, 2, 2, 3, 4}[r.Intn(7)]
		if k+sz > len(withDups) {
			sz = len(withDups) - k
		}
		st := Step{Kind: "blocks", Peer: r.Intn(np)}
		for _, i := range withDups[k : k+sz] {
			ref := BlockRef{Idx: i}
			for _, s := range cs.Twin[i] {
				if r.Chance(1, 4) {
					ref.Embed = append(ref.Embed, s)
				}
			}
			st.Blocks = append(st.Blocks, ref)
		}
		blockSteps = append(blockSteps, st)
		k += sz
	}
	// the other steps
	var other []Step
	for i := 0; i < n; i++ {
		for _, s := range cs.Twin[i] {
			other = append(other, Step{Kind: "confirm", Peer: r.Intn(np), Block: i, Sig: s})
			for r.Chance(1, 5) {
				other = append(other, Step{Kind: "confirm", Peer: r.Intn(np), Block: i, Sig: s})
			}
		}
		if len(cs.Twin[i]) > 0 && r.Chance(1, 3) {
			var pack []int
			for _, s := range cs.Twin[i] {
				if r.Chance(2, 3) {
					pack = append(pack, s)
				}
			}
			if len(pack) > 0 {
				other = append(other, Step{Kind: "confirms", Peer: r.Intn(np), Block: i, Sigs: pack})
			}
		}
	}
	// transaction batches: every tx at least once, some again in another batch
	if len(cs.Txs) > 0 {
		var pool []int
		for i := range cs.Txs {
			pool = append(pool, i)
			if r.Chance(1, 6) {
				pool = append(pool, i)
			}
		}
		perm := r.Perm(len(pool))
		for k := 0; k < len(perm); {
			sz := r.Range(1, 8)
			if k+sz > len(perm) {
				sz = len(perm) - k
			}
			st := Step{Kind: "txs", Peer: r.Intn(np)}
			for _, q := range perm[k : k+sz] {
				st.Txs = append(st.Txs, pool[q])
			}
			other = append(other, st)
			k += sz
		}
	}
	for k := r.Intn(4); k > 0; k-- {
		other = append(other, Step{Kind: "tick"})
	}
	for k := r.Intn(4); k > 0; k-- {
		other = append(other, Step{Kind: "pause", Ms: []int{1, 5, 20, 60}[r.Intn(4)]})
	}
	if cs.Mode != "confirms-first" {
		p := r.Perm(len(other))
		sh := make([]Step, len(other))
		for i, k := range p {
			sh[i] = other[k]
		}
		other = sh
	} else {
		// all confirms first (in a random order), the rest shuffled behind them
		var cf, rest []Step
		for _, s := range other {
			if s.Kind == "confirm" || s.Kind == "confirms" {
				cf = append(cf, s)
			} else {
				rest = append(rest, s)
			}
		}
		var sh []Step
		for _, k := range r.Perm(len(cf)) {
			sh = append(sh, cf[k])
		}
		cs.Steps = append(cs.Steps, sh...)
		other = nil
		for _, k := range r.Perm(len(rest)) {
			other = append(other, rest[k])
		}
	}
	// interleave
	bi, oi := 0, 0
	for bi < len(blockSteps) || oi < len(other) {
		remB, remO := len(blockSteps)-bi, len(other)-oi
		if remO == 0 || (remB > 0 && r.Intn(remB+remO) < remB) {
			cs.Steps = append(cs.Steps, blockSteps[bi])
			bi++
		} else {
			cs.Steps = append(cs.Steps, other[oi])
			oi++
		}
	}
	// a remote that joins late, takes over some deliveries and goes away again
	if r.Chance(1, 3) && len(cs.Steps) >= 6 {
		late := len(cs.Peers)
		cs.Peers = append(cs.Peers, PeerSpec{Deputy: -1, Late: true, Announce: r.Chance(1, 4)})
		a := r.Intn(len(cs.Steps) * 2 / 3)
		b := a + 2 + r.Intn(len(cs.Steps)-a-1)
		if b > len(cs.Steps) {
			b = len(cs.Steps)
		}
		var out []Step
		for i, st := range cs.Steps {
			if i == a {
				out = append(out, Step{Kind: "join", Peer: late})
			}
			if i == b {
				out = append(out, Step{Kind: "leave", Peer: late})
			}
			if i >= a && i < b && st.Kind != "tick" && st.Kind != "pause" && r.Chance(1, 3) {
				st.Peer = late
			}
			out = append(out, st)
		}
		if b >= len(cs.Steps) {
			out = append(out, Step{Kind: "leave", Peer: late})
		}
		cs.Steps = out
	}
	return cs, nil
}

// pmFingerprint: structural shape of a history.
func pmFingerprint(cs *PMCase) (string, bool) {
	nb, nc, nt, ticks := 0, 0, 0, 0
	for _, s := range cs.Steps {
		switch s.Kind {
		case "blocks":
			nb += len(s.Blocks)
		case "confirm", "confirms":
			nc++
		case "txs":
			nt++
		case "tick":
			ticks++
		}
	}
	bucket := func(n int) string {
		switch {
		case n == 0:
			return "0"
		case n <= 3:
			return "1-3"
		case n <= 10:
			return "4-10"
		}
		return "11+"
	}
	ann, late := 0, 0
	for _, p := range cs.Peers {
		if p.Announce {
			ann++
		}
		if p.Late {
			late++
		}
	}
	fp := fmt.Sprintf("pm/%s/dep%d/n%d/peers%d/late%d/ann%d/defer%v/dups%s/conf%s/txb%s/ticks%d", cs.Mode, cs.World.Deputies, len(cs.Blocks), len(cs.Peers), late, ann, cs.DeferServe,
		bucket(nb-len(cs.Blocks)), bucket(nc), bucket(nt), ticks)
	return fp, len(cs.Blocks) >= 2 && (nb > 0 || nt > 0)
}
