package main

// PM level: the real network.ProtocolManager wired to a real chain like main/node does, and
// one to three scripted remotes (p2p.IPeer) injected over the public event bus. The remotes
// perform the protocol handshake, deliver a valid linear segment as BlocksMsg / ConfirmMsg /
// ConfirmsMsg / TxsMsg in the order the case prescribes and answer the node's GetBlocksMsg /
// GetConfirmsMsg / GetLstStatusMsg requests from the segment. Logical time is the number of
// drains of the block cache the manager has finished (its own loop notifications, switched
// on through the tag-only export). One history per process.

import (
	"crypto/ecdsa"
	"encoding/hex"
	"errors"
	"fmt"
	"io"
	"math/big"
	"sort"
	"strings"
	"sync"
	"sync/atomic"
	"time"

	"github.com/LemoFoundationLtd/lemochain-core/chain/params"
	"github.com/LemoFoundationLtd/lemochain-core/chain/types"
	"github.com/LemoFoundationLtd/lemochain-core/common"
	"github.com/LemoFoundationLtd/lemochain-core/common/rlp"
	"github.com/LemoFoundationLtd/lemochain-core/common/subscribe"
	"github.com/LemoFoundationLtd/lemochain-core/network"
	"github.com/LemoFoundationLtd/lemochain-core/network/p2p"

	"verif/fx"
	"verif/fx/run"
)

const watchdog = 20 * time.Second // wall-clock watchdogs only ever produce INCONCLUSIVE

// TxSpec describes one transaction of a TxsMsg. Expirations are relative to the wall clock at
// execution because handleTxsMsg compares them with time.Now.
type TxSpec struct {
	Kind   string   `json:"kind"` // transfer vote create box | invalid: expired wrong-chain far-future
	From   int      `json:"from"`
	To     int      `json:"to"`
	Amount int64    `json:"amount"`
	Life   int      `json:"life"`
	Subs   []TxSpec `json:"subs,omitempty"`
}

func (t TxSpec) valid() bool {
	switch t.Kind {
	case "transfer", "vote", "create", "box":
		return true
	}
	return false
}

type PeerSpec struct {
	Deputy   int  `json:"deputy"`         // >= 0: the remote has this deputy's node id; -1: a node that is no deputy
	Announce bool `json:"announce"`       // its handshake announces the top of the segment (the node starts a range sync)
	Late     bool `json:"late,omitempty"` // connects at its "join" step and goes away at its "leave" step
}

type BlockRef struct {
	Idx   int   `json:"i"`
	Embed []int `json:"embed,omitempty"` // confirms (indexes into Sigs[Idx]) carried inside the block
}

type Step struct {
	Peer   int        `json:"peer"`
	Kind   string     `json:"kind"` // blocks confirm confirms txs tick pause join leave
	Blocks []BlockRef `json:"blocks,omitempty"`
	Block  int        `json:"block,omitempty"`
	Sig    int        `json:"sig,omitempty"`
	Sigs   []int      `json:"sigs,omitempty"`
	Txs    []int      `json:"txs,omitempty"`
	Ms     int        `json:"ms,omitempty"`
}

// PMCase is a fully materialised history.
type PMCase struct {
	Kind       string      `json:"kind"` // "pm"
	Name       string      `json:"name,omitempty"`
	Mode       string      `json:"mode"`
	World      fx.WorldCfg `json:"world"`
	Blocks     []string    `json:"blocks"` // RLP of the segment's blocks (height 1..n), without change logs and confirms
	Sigs       [][]string  `json:"sigs"`   // per block: the confirm signatures of the other deputies
	Twin       [][]int     `json:"twin"`   // per block: the signatures that are delivered (each at least once as ConfirmMsg); the in-order twin gets exactly these
	Txs        []TxSpec    `json:"txs"`
	Peers      []PeerSpec  `json:"peers"`
	DeferServe bool        `json:"deferServe"` // the remotes answer block requests only after the scripted deliveries
	Steps      []Step      `json:"steps"`
}

// ---------------------------------------------------------------------------------------
// scripted remote

type outMsg struct {
	code p2p.MsgCode
	data []byte
}

type sPeer struct {
	idx    int
	id     p2p.NodeID
	in     chan *p2p.Msg
	out    chan outMsg
	closed chan struct{}
	once   sync.Once
	status int32
	serveQ chan network.GetBlocksData
	lstCh  chan struct{}
	top    uint32 // highest block this remote has sent so far
	left   bool   // the remote went away on purpose
	// a leaving remote stops answering requests first, so that nothing is in flight when it closes
	leaving int32
	serveMu sync.Mutex
}

var errPeerClosed = errors.New("scripted peer closed")
var errWriteTimeout = errors.New("scripted peer write timeout")

func newSPeer(idx int, nodeID []byte) *sPeer {
	p := &sPeer{idx: idx, in: make(chan *p2p.Msg), out: make(chan outMsg, 1024), closed: make(chan struct{}),
		serveQ: make(chan network.GetBlocksData, 4096), lstCh: make(chan struct{}, 64)}
	copy(p.id[:], nodeID)
	return p
}

func (p *sPeer) ReadMsg() (*p2p.Msg, error) {
	select {
	case <-p.closed:
		return nil, io.EOF
	case m := <-p.in:
		return m, nil
	}
}

func (p *sPeer) WriteMsg(code p2p.MsgCode, msg []byte) error {
	select {
	case <-p.closed:
		return errPeerClosed
	default:
	}
	cp := append([]byte(nil), msg...)
	t := time.NewTimer(10 * time.Second)
	defer t.Stop()
	select {
	case p.out <- outMsg{code, cp}:
		return nil
	case <-p.closed:
		return errPeerClosed
	case <-t.C:
		return errWriteTimeout
	}
}

func (p *sPeer) SetWriteDeadline(d time.Duration)                            {}
func (p *sPeer) RNodeID() *p2p.NodeID                                        { return &p.id }
func (p *sPeer) RAddress() string                                            { return fmt.Sprintf("10.20.0.%d:7001", p.idx+1) }
func (p *sPeer) LAddress() string                                            { return "127.0.0.1:7001" }
func (p *sPeer) DoHandshake(prv *ecdsa.PrivateKey, nodeID *p2p.NodeID) error { return nil }
func (p *sPeer) Run() error {
	<-p.closed
	return nil
}
func (p *sPeer) NeedReConnect() bool { return false }
func (p *sPeer) SetStatus(s int32)   { atomic.StoreInt32(&p.status, s) }

// Close ends in the DeletePeer event the p2p server publishes for a real peer.
func (p *sPeer) Close() {
	p.once.Do(func() {
		close(p.closed)
		go subscribe.Send(subscribe.DeletePeer, p2p.IPeer(p))
	})
}

func (p *sPeer) isClosed() bool {
	select {
	case <-p.closed:
		return true
	default:
		return false
	}
}

// send delivers one message to the node like p2p.Peer.handle does.
func (p *sPeer) send(code p2p.MsgCode, content []byte) bool {
	t := time.NewTimer(watchdog)
	defer t.Stop()
	select {
	case p.in <- &p2p.Msg{Code: code, Content: content, ReceivedAt: time.Now()}:
		return true
	case <-p.closed:
		return false
	case <-t.C:
		return false
	}
}

// ---------------------------------------------------------------------------------------
// observing proxies at the manager's chain / pool interfaces (they only record and delegate)

type insertRec struct {
	seq int64
	err error
}

type chainProxy struct {
	n   *fx.Node
	seq *int64
	mu  sync.Mutex
	ins map[common.Hash][]insertRec // InsertBlock calls by block hash
	cfs map[common.Hash]int         // signatures handed to InsertConfirms by block hash
}

func (cp *chainProxy) Genesis() *types.Block          { return cp.n.BC.Genesis() }
func (cp *chainProxy) HasBlock(hash common.Hash) bool { return cp.n.BC.HasBlock(hash) }
func (cp *chainProxy) GetBlockByHeight(height uint32) *types.Block {
	return cp.n.BC.GetBlockByHeight(height)
}
func (cp *chainProxy) GetBlockByHash(hash common.Hash) *types.Block {
	return cp.n.BC.GetBlockByHash(hash)
}
func (cp *chainProxy) CurrentBlock() *types.Block        { return cp.n.BC.CurrentBlock() }
func (cp *chainProxy) StableBlock() *types.Block         { return cp.n.BC.StableBlock() }
func (cp *chainProxy) IsInBlackList(b *types.Block) bool { return cp.n.BC.IsInBlackList(b) }
func (cp *chainProxy) InsertBlock(block *types.Block) error {
	h := block.Hash()
	err := cp.n.BC.InsertBlock(block)
	s := atomic.AddInt64(cp.seq, 1)
	cp.mu.Lock()
	cp.ins[h] = append(cp.ins[h], insertRec{s, err})
	cp.mu.Unlock()
	return err
}
func (cp *chainProxy) InsertConfirms(height uint32, blockHash common.Hash, sigList []types.SignData) {
	cp.n.BC.InsertConfirms(height, blockHash, sigList)
	cp.mu.Lock()
	cp.cfs[blockHash] += len(sigList)
	cp.mu.Unlock()
}

// insertedAt returns the sequence stamp of the first successful insert (0: none) and the
// errors of failed inserts.
func (cp *chainProxy) insertedAt(h common.Hash) (int64, []string) {
	cp.mu.Lock()
	defer cp.mu.Unlock()
	var at int64
	var errs []string
	for _, r := range cp.ins[h] {
		if r.err == nil {
			if at == 0 {
				at = r.seq
			}
		} else {
			errs = append(errs, r.err.Error())
		}
	}
	return at, errs
}

type poolProxy struct {
	n    *fx.Node
	mu   sync.Mutex
	adds map[common.Hash]int
	errs map[common.Hash]int
}

func (pp *poolProxy) GetTxs(time uint32, size int) types.Transactions {
	return pp.n.Pool.GetTxs(time, size)
}
func (pp *poolProxy) AddTx(tx *types.Transaction) error {
	h := tx.Hash()
	err := pp.n.Pool.AddTx(tx)
	pp.mu.Lock()
	pp.adds[h]++
	if err != nil {
		pp.errs[h]++
	}
	pp.mu.Unlock()
	return err
}

// ---------------------------------------------------------------------------------------
// executor

type pmRun struct {
	c   *run.Ctx
	vs  *violSink
	cs  *PMCase
	w   *fx.World
	V   *fx.Node
	pm  *network.ProtocolManager
	cp  *chainProxy
	pp  *poolProxy
	seq int64

	blocks []*types.Block
	sigs   [][]types.SignData
	byHash map[common.Hash]int
	txs    []*types.Transaction
	peers  []*sPeer

	ticks, rcvs, stables int64
	blocksMsgSent        int64
	serveGate            chan struct{}
	served               int64
	reqs                 int64
	cfReqs               int64

	deliveredAt     []int64 // per block: stamp of its first delivery
	orphanAtArrival []bool  // per block: some copy was delivered while the node did not have the parent
	sigEarly        [][]bool
	sigFirstAt      [][]int64
	wg              sync.WaitGroup
	mu              sync.Mutex
	sentMsgs        [][]int // every BlocksMsg handed to the node (scripted and served): block indexes in message order
}

func decodeBlocks(cs *PMCase) ([]*types.Block, [][]types.SignData, error) {
	var blocks []*types.Block
	var sigs [][]types.SignData
	for i, hx := range cs.Blocks {
		raw, err := hex.DecodeString(hx)
		if err != nil {
			return nil, nil, err
		}
		b := new(types.Block)
		if err := rlp.DecodeBytes(raw, b); err != nil {
			return nil, nil, fmt.Errorf("block %d: %v", i, err)
		}
		blocks = append(blocks, b)
		var ss []types.SignData
		if i < len(cs.Sigs) {
			for _, sx := range cs.Sigs[i] {
				sb, _ := hex.DecodeString(sx)
				ss = append(ss, types.BytesToSignData(sb))
			}
		}
		sigs = append(sigs, ss)
	}
	return blocks, sigs, nil
}

func pick(ss []types.SignData, idx []int) []types.SignData {
	var out []types.SignData
	for _, i := range idx {
		if i >= 0 && i < len(ss) {
			out = append(out, ss[i])
		}
	}
	return out
}

// wireBlock is the block as a remote sends it: without change logs, with the given confirms.
func wireBlock(b *types.Block, confirms []types.SignData) *types.Block {
	return &types.Block{Header: b.Header, Txs: b.Txs, Confirms: confirms, DeputyNodes: b.DeputyNodes}
}

var initCode = []byte{0x60, 0x00, 0x60, 0x00, 0xf3}

func buildTx(w *fx.World, s TxSpec, now uint64) *types.Transaction {
	B := fx.TxB{W: w}
	u := func(i int) fx.Key { return w.Users[((i%len(w.Users))+len(w.Users))%len(w.Users)] }
	exp := uint64(int64(now) + int64(s.Life))
	switch s.Kind {
	case "vote":
		return B.Vote(u(s.From), w.Deputies[((s.To%len(w.Deputies))+len(w.Deputies))%len(w.Deputies)].Addr, exp)
	case "create":
		return B.Create(u(s.From), append(append([]byte(nil), initCode...), byte(s.Amount), byte(s.Amount>>8)), nil, 500000, exp)
	case "box":
		var subs types.Transactions
		for _, x := range s.Subs {
			subs = append(subs, buildTx(w, x, now))
		}
		return B.Box(u(s.From), subs, exp)
	case "wrong-chain":
		to := u(s.To).Addr
		return fx.Sign(types.NewTransaction(u(s.From).Addr, to, big.NewInt(s.Amount), 100000, fx.GasPrice, nil, params.OrdinaryTx, w.ChainID+1, exp, "", ""), u(s.From))
	default: // transfer, expired, far-future: the life decides
		return B.Transfer(u(s.From), u(s.To).Addr, big.NewInt(s.Amount), exp)
	}
}

// twinOf feeds the segment in order (block, then its confirms) to a fresh node.
func twinOf(w *fx.World, dir string, blocks []*types.Block, sigs [][]types.SignData, twin [][]int) (cur, sta *types.Block, err error) {
	T := w.NewNode(dir, w.Outsider)
	defer func() {
		T.Close()
		time.Sleep(30 * time.Millisecond)
	}()
	for i, b := range blocks {
		if e := T.Insert(wireBlock(b, nil), false); e != nil {
			return nil, nil, fmt.Errorf("the in-order twin rejects block %d: %v", i+1, e)
		}
		if i < len(twin) {
			if ss := pick(sigs[i], twin[i]); len(ss) > 0 {
				T.Confirms(b, ss)
			}
		}
	}
	return T.BC.CurrentBlock(), T.BC.StableBlock(), nil
}

func (x *pmRun) stamp() int64 { return atomic.AddInt64(&x.seq, 1) }

func (x *pmRun) pollUntil(cond func() bool, d time.Duration) bool {
	deadline := time.Now().Add(d)
	for !cond() {
		if time.Now().After(deadline) {
			return false
		}
		time.Sleep(2 * time.Millisecond)
	}
	return true
}

func (x *pmRun) handshakeOf(p *sPeer, spec PeerSpec) []byte {
	g := x.V.BC.Genesis()
	st := network.LatestStatus{CurHeight: 0, CurHash: g.Hash(), StaHeight: 0, StaHash: g.Hash()}
	if spec.Announce && len(x.blocks) > 0 {
		top := x.blocks[len(x.blocks)-1]
		st.CurHeight, st.CurHash = top.Height(), top.Hash()
	}
	hs := &network.ProtocolHandshake{ChainID: x.w.ChainID, GenesisHash: g.Hash(), NodeVersion: params.VersionUint(), LatestStatus: st}
	return hs.Bytes()
}

// remoteLoop consumes everything the node writes to this remote and answers like a node would.
func (x *pmRun) remoteLoop(p *sPeer, spec PeerSpec) {
	defer x.wg.Done()
	for {
		var m outMsg
		select {
		case <-p.closed:
			return
		case m = <-p.out:
		}
		x.c.Stat(fmt.Sprintf("pm_node_wrote_0x%02x", uint32(m.code)), 1)
		switch m.code {
		case p2p.ProHandshakeMsg:
			go p.send(p2p.ProHandshakeMsg, x.handshakeOf(p, spec))
		case p2p.GetBlocksMsg:
			var q network.GetBlocksData
			if rlp.DecodeBytes(m.data, &q) == nil {
				atomic.AddInt64(&x.reqs, 1)
				select {
				case p.serveQ <- q:
				default:
				}
			}
		case p2p.GetConfirmsMsg:
			var q network.GetConfirmInfo
			if rlp.DecodeBytes(m.data, &q) == nil {
				atomic.AddInt64(&x.cfReqs, 1)
				res := &network.BlockConfirms{Height: q.Height, Hash: q.Hash}
				idx := -1
				if q.Hash != (common.Hash{}) {
					if i, ok := x.byHash[q.Hash]; ok {
						idx = i
					}
				} else if q.Height >= 1 && int(q.Height) <= len(x.blocks) {
					idx = int(q.Height) - 1
				}
				if idx >= 0 {
					res.Pack = pick(x.sigs[idx], x.cs.Twin[idx])
				}
				buf, _ := rlp.EncodeToBytes(res)
				go p.send(p2p.ConfirmsMsg, buf)
			}
		case p2p.GetLstStatusMsg:
			g := x.V.BC.Genesis()
			st := &network.LatestStatus{CurHeight: 0, CurHash: g.Hash(), StaHeight: 0, StaHash: g.Hash()}
			if t := atomic.LoadUint32(&p.top); t > 0 {
				st.CurHeight, st.CurHash = t, x.blocks[t-1].Hash()
			}
			buf, _ := rlp.EncodeToBytes(st)
			go p.send(p2p.LstStatusMsg, buf)
		case p2p.LstStatusMsg:
			select {
			case p.lstCh <- struct{}{}:
			default:
			}
		}
	}
}

// serveLoop answers block requests from the segment (like ProtocolManager.respBlocks: chunks of ten).
func (x *pmRun) serveLoop(p *sPeer) {
	defer x.wg.Done()
	for {
		var q network.GetBlocksData
		select {
		case <-p.closed:
			return
		case q = <-p.serveQ:
		}
		select {
		case <-p.closed:
			return
		case <-x.serveGate:
		}
		if q.From > q.To {
			continue
		}
		p.serveMu.Lock()
		if atomic.LoadInt32(&p.leaving) != 0 {
			p.serveMu.Unlock()
			return
		}
		var chunk []BlockRef
		flush := func() {
			if len(chunk) > 0 {
				x.sendBlocks(p, chunk, true)
				chunk = nil
			}
		}
		for h := q.From; h <= q.To && int(h) <= len(x.blocks); h++ {
			if h < 1 {
				continue
			}
			all := make([]int, len(x.cs.Twin[h-1]))
			copy(all, x.cs.Twin[h-1])
			chunk = append(chunk, BlockRef{Idx: int(h - 1), Embed: all})
			if len(chunk) == 10 {
				flush()
			}
		}
		flush()
		p.serveMu.Unlock()
	}
}

func (x *pmRun) sendBlocks(p *sPeer, refs []BlockRef, served bool) bool {
	var bs types.Blocks
	var idxs []int
	defer func() {
		x.mu.Lock()
		x.sentMsgs = append(x.sentMsgs, idxs)
		x.mu.Unlock()
	}()
	for _, r := range refs {
		if r.Idx < 0 || r.Idx >= len(x.blocks) {
			continue
		}
		b := x.blocks[r.Idx]
		idxs = append(idxs, r.Idx)
		bs = append(bs, wireBlock(b, pick(x.sigs[r.Idx], r.Embed)))
		x.mu.Lock()
		if x.deliveredAt[r.Idx] == 0 {
			x.deliveredAt[r.Idx] = x.stamp()
		}
		if !x.V.BC.HasBlock(b.ParentHash()) {
			x.orphanAtArrival[r.Idx] = true
			x.c.Stat("pm_blocks_sent_before_parent_in_chain", 1)
		}
		if x.V.BC.HasBlock(b.Hash()) {
			x.c.Stat("pm_blocks_sent_again_when_already_in_chain", 1)
		}
		x.mu.Unlock()
		for {
			t := atomic.LoadUint32(&p.top)
			if b.Height() <= t || atomic.CompareAndSwapUint32(&p.top, t, b.Height()) {
				break
			}
		}
	}
	buf, err := rlp.EncodeToBytes(&bs)
	if err != nil {
		return false
	}
	if !p.send(p2p.BlocksMsg, buf) {
		return false
	}
	atomic.AddInt64(&x.blocksMsgSent, 1)
	if served {
		atomic.AddInt64(&x.served, int64(len(bs)))
		x.c.Stat("pm_blocks_served_on_request", int64(len(bs)))
	} else {
		x.c.Stat("pm_blocks_delivered", int64(len(bs)))
		x.c.Stat("pm_blocks_msgs", 1)
	}
	return true
}

// connect injects remote i over the event bus and waits until the manager has registered it.
func (x *pmRun) connect(i int) bool {
	ps := x.cs.Peers[i]
	var id []byte
	if ps.Deputy >= 0 && ps.Deputy < len(x.w.Deputies) {
		id = x.w.Deputies[ps.Deputy].NodeID
	} else {
		id = fx.NewKey("c20-remote", i).NodeID
	}
	p := newSPeer(i, id)
	x.peers[i] = p
	x.wg.Add(2)
	go x.remoteLoop(p, ps)
	go x.serveLoop(p)
	before := x.pm.VerifPeerCount()
	done := make(chan struct{})
	go func() {
		subscribe.Send(subscribe.AddNewPeer, p2p.IPeer(p))
		close(done)
	}()
	select {
	case <-done:
	case <-time.After(watchdog):
		x.c.Inconclusive("the manager did not take a new-peer event")
		return false
	}
	if !x.pollUntil(func() bool { return x.pm.VerifPeerCount() > before }, watchdog) {
		x.c.Inconclusive(fmt.Sprintf("remote %d was not registered after an honest protocol handshake", i))
		return false
	}
	x.c.Stat("pm_remotes_connected", 1)
	return true
}

func (x *pmRun) deliver(st Step) {
	if st.Peer < 0 || st.Peer >= len(x.peers) {
		return
	}
	if st.Kind == "join" {
		if x.peers[st.Peer] == nil {
			x.connect(st.Peer)
		}
		return
	}
	p := x.peers[st.Peer]
	if st.Kind == "tick" || st.Kind == "pause" {
		p = nil
	} else if p == nil || p.isClosed() {
		x.c.Stat("pm_steps_skipped_remote_not_connected", 1)
		return
	}
	switch st.Kind {
	case "leave":
		// a polite remote: it goes away only after the node has handled what it sent (the manager
		// throws away the unread messages of a connection that ends)
		atomic.StoreInt32(&p.leaving, 1)
		p.serveMu.Lock()
		p.serveMu.Unlock()
		x.flushPeer(p)
		p.left = true
		p.Close()
		x.c.Stat("pm_remotes_left_during_the_history", 1)
	case "blocks":
		x.sendBlocks(p, st.Blocks, false)
	case "confirm":
		if st.Block < 0 || st.Block >= len(x.blocks) || st.Sig < 0 || st.Sig >= len(x.sigs[st.Block]) {
			return
		}
		b := x.blocks[st.Block]
		if x.sigFirstAt[st.Block][st.Sig] == 0 {
			x.sigFirstAt[st.Block][st.Sig] = x.stamp()
			if !x.V.BC.HasBlock(b.Hash()) {
				x.sigEarly[st.Block][st.Sig] = true
				x.c.Stat("pm_confirms_delivered_before_their_block", 1)
			} else {
				x.c.Stat("pm_confirms_delivered_after_their_block", 1)
			}
		} else {
			x.c.Stat("pm_confirms_delivered_again", 1)
		}
		buf, _ := rlp.EncodeToBytes(&network.BlockConfirmData{Hash: b.Hash(), Height: b.Height(), SignInfo: x.sigs[st.Block][st.Sig]})
		if p.send(p2p.ConfirmMsg, buf) {
			x.c.Stat("pm_confirm_msgs", 1)
		}
	case "confirms":
		if st.Block < 0 || st.Block >= len(x.blocks) {
			return
		}
		b := x.blocks[st.Block]
		buf, _ := rlp.EncodeToBytes(&network.BlockConfirms{Height: b.Height(), Hash: b.Hash(), Pack: pick(x.sigs[st.Block], st.Sigs)})
		if p.send(p2p.ConfirmsMsg, buf) {
			x.c.Stat("pm_confirms_pack_msgs", 1)
		}
	case "txs":
		var txs types.Transactions
		for _, i := range st.Txs {
			if i >= 0 && i < len(x.txs) {
				txs = append(txs, x.txs[i])
			}
		}
		buf, err := rlp.EncodeToBytes(&txs)
		if err == nil && p.send(p2p.TxsMsg, buf) {
			inChain, known, fresh := 0, 0, 0
			for _, i := range st.Txs {
				if i >= 0 && i < len(x.cs.Txs) {
					if x.cs.Txs[i].Kind == "in-chain" {
						inChain++
						if x.V.BC.TxGuard().ExistTx(x.V.BC.CurrentBlock().Hash(), x.txs[i]) {
							known++
						}
					} else if x.cs.Txs[i].valid() {
						fresh++
					}
				}
			}
			x.c.Stat("pm_in_chain_txs_sent", int64(inChain))
			if known > 0 && fresh > 0 {
				x.c.Stat("pm_batches_with_fresh_txs_and_txs_already_on_the_branch", 1)
			}
			x.c.Stat("pm_txs_msgs", 1)
			x.c.Stat("pm_txs_sent", int64(len(txs)))
			x.c.Seen("pm_tx_batch_sizes", fmt.Sprint(len(txs)))
		}
	case "tick":
		t0 := atomic.LoadInt64(&x.ticks)
		x.pollUntil(func() bool { return atomic.LoadInt64(&x.ticks) > t0 }, 3*time.Second)
		x.c.Stat("pm_tick_barriers", 1)
	case "pause":
		time.Sleep(time.Duration(st.Ms) * time.Millisecond)
	}
}

// flushPeer: the remote asks for the node's status and waits for the answer (the manager
// handles the messages of one remote in order). False only when the watchdog expired.
func (x *pmRun) flushPeer(p *sPeer) bool {
	if p.isClosed() {
		x.c.Stat("pm_remote_closed_by_node", 1)
		return true
	}
	statusReq, _ := rlp.EncodeToBytes(&network.GetLatestStatus{Revert: 0})
	for len(p.lstCh) > 0 {
		<-p.lstCh
	}
	if !p.send(p2p.GetLstStatusMsg, statusReq) {
		x.c.Stat("pm_remote_closed_by_node", 1)
		return true
	}
	select {
	case <-p.lstCh:
	case <-p.closed:
		x.c.Stat("pm_remote_closed_by_node", 1)
	case <-time.After(watchdog):
		return false
	}
	return true
}

func execPM(c *run.Ctx, vs *violSink, cs *PMCase) {
	fx.Quiet()
	x := &pmRun{c: c, vs: vs, cs: cs, byHash: map[common.Hash]int{}, serveGate: make(chan struct{})}
	var err error
	x.blocks, x.sigs, err = decodeBlocks(cs)
	if err != nil || len(x.blocks) == 0 {
		c.Inconclusive(fmt.Sprintf("bad pm case: %v", err))
		return
	}
	for len(cs.Twin) < len(x.blocks) {
		cs.Twin = append(cs.Twin, nil)
	}
	x.w = fx.NewWorld(cs.World)
	w := x.w
	dir := fx.ScratchDir("c20pm")
	n := len(x.blocks)
	for i, b := range x.blocks {
		x.byHash[b.Hash()] = i
	}
	x.deliveredAt = make([]int64, n)
	x.orphanAtArrival = make([]bool, n)
	x.sigEarly = make([][]bool, n)
	x.sigFirstAt = make([][]int64, n)
	for i := range x.sigs {
		x.sigEarly[i] = make([]bool, len(x.sigs[i]))
		x.sigFirstAt[i] = make([]int64, len(x.sigs[i]))
	}

	// 1. the in-order twin (closed before the manager subscribes to the process-wide bus)
	expCur, expSta, err := twinOf(w, fx.PathOf(dir, "twin"), x.blocks, x.sigs, cs.Twin)
	if err != nil {
		c.Inconclusive(err.Error())
		return
	}
	c.Seen("pm_twin_final_heights", fmt.Sprintf("cur%d/sta%d", expCur.Height(), expSta.Height()))

	// 2. the node under observation, wired like main/node
	x.V = w.NewNode(fx.PathOf(dir, "node"), w.Outsider)
	x.cp = &chainProxy{n: x.V, seq: &x.seq, ins: map[common.Hash][]insertRec{}, cfs: map[common.Hash]int{}}
	x.pp = &poolProxy{n: x.V, adds: map[common.Hash]int{}, errs: map[common.Hash]int{}}
	var self p2p.NodeID
	copy(self[:], x.V.Self.NodeID)
	disc := p2p.NewDiscoverManager(x.V.Dir)
	x.pm = network.NewProtocolManager(w.ChainID, self, x.cp, x.V.DM, x.pp, x.V.BC.TxGuard(), disc, 10, params.VersionUint(), x.V.Dir)
	evs := x.pm.VerifEvents()
	go func() {
		for e := range evs {
			switch e {
			case network.VerifEvQueueTimer:
				atomic.AddInt64(&x.ticks, 1)
			case network.VerifEvRcvBlocks:
				atomic.AddInt64(&x.rcvs, 1)
			case network.VerifEvStableBlock:
				atomic.AddInt64(&x.stables, 1)
			}
		}
	}()
	x.pm.Start()
	time.Sleep(250 * time.Millisecond)

	// 3. remotes
	x.peers = make([]*sPeer, len(cs.Peers))
	for i, ps := range cs.Peers {
		if ps.Late {
			continue
		}
		if !x.connect(i) {
			return
		}
	}
	if !cs.DeferServe {
		close(x.serveGate)
	}

	// 4. transactions (expirations relative to now)
	now := uint64(time.Now().Unix())
	for _, s := range cs.Txs {
		if s.Kind == "in-chain" {
			// a transaction of a block of the segment (still valid by the wall clock): whether it is in the pool at the
			// end depends on the order of its batch and its block and is not judged; the fresh ones of its batch are
			if s.From >= 0 && s.From < len(x.blocks) && s.To >= 0 && s.To < len(x.blocks[s.From].Txs) {
				x.txs = append(x.txs, x.blocks[s.From].Txs[s.To])
			} else {
				x.txs = append(x.txs, buildTx(w, TxSpec{Kind: "expired", Life: -100}, now))
			}
			continue
		}
		x.txs = append(x.txs, buildTx(w, s, now))
	}

	// 5. scripted deliveries
	for _, st := range cs.Steps {
		x.deliver(st)
		c.Seen("pm_step_kinds", st.Kind)
	}
	if cs.DeferServe {
		close(x.serveGate)
	}

	// 6. flush: every remote gets an answer to a status request (the manager handles a remote's
	// messages in order), then every BlocksMsg handed over has gone through the block loop
	for _, p := range x.peers {
		if p == nil || p.left {
			continue
		}
		if !x.flushPeer(p) {
			c.Inconclusive("the node did not answer a status request within the watchdog")
			return
		}
	}
	quiet := func() bool { return atomic.LoadInt64(&x.rcvs) >= atomic.LoadInt64(&x.blocksMsgSent) }
	if !x.pollUntil(quiet, watchdog) {
		c.Inconclusive("the block loop did not take every delivered blocks message within the watchdog")
		return
	}

	// 7. oracle: logical deadline in drains of the block cache
	tick0 := atomic.LoadInt64(&x.ticks)
	budget := int64(n + 5)
	const poolBudget = 3
	converged := func() bool {
		return x.V.BC.CurrentBlock().Hash() == expCur.Hash() && x.V.BC.StableBlock().Hash() == expSta.Hash()
	}
	poolJudged := false
	poolOK := false
	start := time.Now()
	for {
		t := atomic.LoadInt64(&x.ticks) - tick0
		if !poolJudged {
			lost, dup, _ := x.poolState()
			if len(lost) == 0 && len(dup) == 0 {
				poolOK = true
			} else {
				poolOK = false
			}
			if poolOK && converged() {
				break
			}
			if t >= poolBudget && !poolOK {
				poolJudged = true
				x.judgePool()
			}
		} else if converged() {
			break
		}
		if t >= budget {
			break
		}
		if time.Since(start) > time.Duration(budget+8)*time.Second {
			c.Inconclusive(fmt.Sprintf("only %d drains of the block cache were observed in %v", t, time.Since(start)))
			return
		}
		time.Sleep(5 * time.Millisecond)
	}
	used := atomic.LoadInt64(&x.ticks) - tick0
	c.Stat("pm_drain_ticks_waited", used)
	c.Seen("pm_drain_ticks_until_verdict", fmt.Sprint(used))
	if !poolJudged {
		// one more look when the chain converged first: every handler goroutine has had its time
		x.judgePool()
	}
	x.judgeChain(expCur, expSta, used, budget)

	// evidence
	stranded := 0
	for _, e := range x.pm.VerifConfirmCache().VerifEntries() {
		if x.V.BC.HasBlock(e.Hash) && e.Height > x.V.BC.StableBlock().Height() {
			stranded++
		}
	}
	c.Stat("pm_confirms_left_in_confirm_cache_for_unstable_blocks_in_chain_not_judged", int64(stranded))
	c.Stat("pm_histories", 1)
	c.Stat("pm_block_requests_from_node", atomic.LoadInt64(&x.reqs))
	c.Stat("pm_confirm_requests_from_node", atomic.LoadInt64(&x.cfReqs))
	c.Stat("pm_stable_events", atomic.LoadInt64(&x.stables))
	c.Stat("pm_blocks_msgs_through_block_loop", atomic.LoadInt64(&x.rcvs))
	c.Seen("pm_node_final_heights", fmt.Sprintf("cur%d/sta%d", x.V.BC.CurrentBlock().Height(), x.V.BC.StableBlock().Height()))
	for _, p := range x.peers {
		if p != nil {
			p.Close()
		}
	}
	// the DeletePeer events are taken by the manager's peer loop like those of real peers
	time.Sleep(50 * time.Millisecond)
}

// poolState reads the pool with a time below every expiration and compares it with the valid
// transactions that were sent.
func (x *pmRun) poolState() (lost, dup []int, invalidIn int) {
	got := x.V.Pool.GetTxs(1, 8192)
	cnt := map[common.Hash]int{}
	for _, tx := range got {
		cnt[tx.Hash()]++
	}
	sent := map[int]bool{}
	for _, st := range x.cs.Steps {
		if st.Kind == "txs" {
			for _, i := range st.Txs {
				sent[i] = true
			}
		}
	}
	for i, tx := range x.txs {
		if !sent[i] {
			continue
		}
		k := cnt[tx.Hash()]
		if x.cs.Txs[i].valid() {
			if k == 0 {
				lost = append(lost, i)
			} else if k > 1 {
				dup = append(dup, i)
			}
		} else if k > 0 {
			invalidIn++
		}
	}
	return
}

func (x *pmRun) judgePool() {
	lost, dup, invalidIn := x.poolState()
	nvalid := 0
	sent := map[int]bool{}
	for _, st := range x.cs.Steps {
		if st.Kind == "txs" {
			for _, i := range st.Txs {
				if !sent[i] && i >= 0 && i < len(x.txs) && x.cs.Txs[i].valid() {
					nvalid++
				}
				sent[i] = true
			}
		}
	}
	x.c.Stat("pm_valid_txs_looked_up_in_pool", int64(nvalid))
	x.c.Stat("pm_invalid_txs_found_in_pool_not_judged", int64(invalidIn))
	x.pp.mu.Lock()
	var addDesc []string
	for i, tx := range x.txs {
		if k := x.pp.adds[tx.Hash()]; k > 0 {
			addDesc = append(addDesc, fmt.Sprintf("#%d x%d", i, k))
		}
	}
	x.pp.mu.Unlock()
	sort.Strings(addDesc)
	if len(lost) > 0 {
		x.vs.viol("C20/tx-batch:lost", fmt.Sprintf("%d of %d valid transactions sent in TxsMsg batches are not in the pool (missing: %v); the manager called AddTx for: %s", len(lost), nvalid, lost, strings.Join(addDesc, ", ")), x.cs)
	}
	if len(dup) > 0 {
		x.vs.viol("C20/tx-batch:duplicated", fmt.Sprintf("transactions %v are in the pool more than once", dup), x.cs)
	}
}

func (x *pmRun) judgeChain(expCur, expSta *types.Block, used, budget int64) {
	cur, sta := x.V.BC.CurrentBlock(), x.V.BC.StableBlock()
	if cur.Hash() == expCur.Hash() && sta.Hash() == expSta.Hash() {
		x.c.Stat("pm_histories_converged", 1)
		return
	}
	cached := map[common.Hash]bool{}
	var cachedHeights []uint32
	for _, g := range x.pm.VerifBlockCache().VerifGroups() {
		for _, h := range g.Hashes {
			cached[h] = true
		}
		cachedHeights = append(cachedHeights, g.Height)
	}
	if cur.Hash() != expCur.Hash() {
		shape, fate, detail := "", "", ""
		if _, ours := x.byHash[cur.Hash()]; !ours && cur.Height() > 0 {
			shape, fate = "foreign-current-block", "diverged"
		} else if cur.Height() > expCur.Height() {
			shape, fate = "ahead-of-twin", "diverged"
		} else {
			// the first block of the segment the node does not have
			idx := int(cur.Height()) // block of height cur+1
			for i, b := range x.blocks {
				if !x.V.BC.HasBlock(b.Hash()) {
					idx = i
					break
				}
			}
			b := x.blocks[idx]
			shape = "block-after-parent"
			if x.orphanAtArrival[idx] {
				shape = "block-before-parent"
			}
			at, errs := x.cp.insertedAt(b.Hash())
			// did a message carry it behind a block whose insertion returned an error?
			behind := ""
			x.mu.Lock()
			for _, msg := range x.sentMsgs {
				for pos, j := range msg {
					if j != idx {
						continue
					}
					for _, e := range msg[:pos] {
						if _, es := x.cp.insertedAt(x.blocks[e].Hash()); len(es) > 0 {
							behind = fmt.Sprintf("; a BlocksMsg carried it behind block %d, for which InsertBlock returned %v although that block is in the chain: %v", e+1, es, x.V.BC.HasBlock(x.blocks[e].Hash()))
						}
					}
				}
			}
			x.mu.Unlock()
			switch {
			case cached[b.Hash()]:
				fate = "stuck-in-cache"
			case at == 0 && len(errs) > 0:
				fate = "insert-refused"
			case at != 0:
				fate = "inserted-but-not-current"
			case behind != "":
				fate = "rest-of-message-dropped-after-insert-error"
			default:
				fate = "lost-from-cache"
			}
			detail = fmt.Sprintf("first missing block: height %d (delivered %s; insert errors %v%s)", b.Height(), shape, errs, behind)
		}
		x.vs.viol("C20/not-converged:current:"+shape+":"+fate,
			fmt.Sprintf("after every message was delivered and %d drains of the block cache (budget %d) the node's current block is height %d, the in-order twin's is %d; %s; block cache slots now: %v; mode %s", used, budget, cur.Height(), expCur.Height(), detail, cachedHeights, x.cs.Mode), x.cs)
		return
	}
	// current agrees, stable does not
	shape, fate := "", ""
	if sta.Height() > expSta.Height() {
		shape, fate = "ahead-of-twin", "diverged"
	} else {
		idx := int(expSta.Height()) - 1
		early := false
		for _, s := range x.cs.Twin[idx] {
			if s >= 0 && s < len(x.sigEarly[idx]) && x.sigEarly[idx][s] {
				early = true
			}
		}
		shape = "confirm-after-block"
		if early {
			shape = "confirm-before-block"
		}
		left := 0
		for _, e := range x.pm.VerifConfirmCache().VerifEntries() {
			if e.Hash == expSta.Hash() {
				left++
			}
		}
		have := 0
		if nb := x.V.BC.GetBlockByHash(expSta.Hash()); nb != nil {
			have = len(nb.Confirms)
		}
		_, insErrs := x.cp.insertedAt(expSta.Hash())
		switch {
		case left > 0:
			fate = "left-in-confirm-cache"
		case have < len(x.cs.Twin[idx]) && len(insErrs) > 0:
			// InsertBlock was also called with a copy of this block that lost against another copy
			// (the manager merges the cached confirms into the copy it is about to insert)
			fate = "merged-into-a-copy-whose-insert-failed"
		case have < len(x.cs.Twin[idx]):
			fate = "confirm-dropped"
		default:
			fate = "confirms-stored-but-not-stable"
		}
		x.cp.mu.Lock()
		handed := x.cp.cfs[expSta.Hash()]
		x.cp.mu.Unlock()
		x.vs.viol("C20/not-converged:stable:"+shape+":"+fate,
			fmt.Sprintf("after every message was delivered and %d drains of the block cache (budget %d) the node's stable block is height %d, the in-order twin's is %d; block %d was sent %d confirms, its stored copy holds %d, %d are still in the confirm cache, %d signatures were handed to InsertConfirms, InsertBlock errors for that block: %v; mode %s",
				used, budget, sta.Height(), expSta.Height(), expSta.Height(), len(x.cs.Twin[idx]), have, left, handed, insErrs, x.cs.Mode), x.cs)
		return
	}
	x.vs.viol("C20/not-converged:stable:"+shape+":"+fate, "the node's stable block is ahead of the in-order twin's", x.cs)
}
