package main

import (
	"fmt"
	"os"
	"sort"
	"strings"
	"time"

	"github.com/LemoFoundationLtd/lemochain-core/chain/types"

	"verif/fx"
	"verif/fx/run"
)

// Linearizability by sequential replay. The sequential specification is the implementation
// itself: a candidate order is executed request by request on a fresh node. What runs
// asynchronously in the concurrent execution and changes compared state — the background
// batch confirm that UpdateStable starts for the heights that just became stable — is a
// pseudo request of its own in a candidate order: one per height, ordered after the request
// that moved the stable block and after the lower heights of the same batch, otherwise free.
// In replays the real goroutine ends at its yield site and the harness calls
// Confirmer.BatchConfirmStable(h, h) at the chosen position.
//
// A mining request is replayed by inserting the block the node actually mined (MineBlock
// stamps the wall clock), with the extra condition that its parent is the head at that point;
// a mining request may also be a no-op (not in turn / slot boundary passed).

type token struct {
	Kind    byte // 'r' request, 'b' background confirm of one height
	R       int  // request (flat index); for 'b' the spawning request
	Variant int  // mine: -1 no-op, j = inserts mined block j; 'b': the height
}

func (t token) String() string {
	switch {
	case t.Kind == 'b':
		return fmt.Sprintf("bg(h%d after r%d)", t.Variant, t.R)
	case t.Variant >= 0:
		return fmt.Sprintf("r%d=mined%d", t.R, t.Variant)
	case t.Variant == -1:
		return fmt.Sprintf("r%d=no-op", t.R)
	}
	return fmt.Sprintf("r%d", t.R)
}

type searcher struct {
	c      *run.Ctx
	w      *fx.World
	rr     *RunRecord
	cap    int
	reqs   []*Req
	before [][]int // before[i] = requests that must precede i
	mined  []*types.Block
	known  []knownBlock
	own    string
	finals []State // outcomes of the complete candidate orders
	best   int
	bestAt string
	bestOr string
	noneOK bool
}

type searchResult struct {
	matched   bool
	exhausted bool
	replays   int
	part      string
	msg       string
	order     string
	bgOps     int
}

func newSearcher(c *run.Ctx, w *fx.World, rr *RunRecord, cap int) *searcher {
	s := &searcher{c: c, w: w, rr: rr, cap: cap, best: -1}
	// flat request list in the order of rr.Recs
	for _, rc := range rr.Recs {
		s.reqs = append(s.reqs, &rr.Mat.Clients[rc.Client][rc.Idx])
	}
	s.before = make([][]int, len(rr.Recs))
	for i, a := range rr.Recs {
		for j, b := range rr.Recs {
			if i == j {
				continue
			}
			if (b.Client == a.Client && b.Idx < a.Idx) || b.Ret < a.Call {
				s.before[i] = append(s.before[i], j)
			}
		}
	}
	for _, hx := range rr.Mined {
		s.mined = append(s.mined, decBlock(hx))
	}
	s.known = knownOf(rr.Mat, s.mined)
	s.own = shortID(w.Deputies[rr.Mat.SelfIdx].NodeID)
	return s
}

type replayRun struct {
	seq        []token
	alts       [][]token
	complete   bool
	mismatchAt int
	final      State
	bgOps      int
}

type bgQueue struct {
	spawner int
	heights []uint32
}

// runOrder executes prefix and then continues with the default policy (background confirms
// right after their spawner, requests by return stamp).
func (s *searcher) runOrder(prefix []token) *replayRun {
	out := &replayRun{mismatchAt: -1}
	dir := fx.ScratchDir("c19r")
	curPlan.Store(replayPlan)
	n, err := setupNode(s.w, s.rr.Mat, fx.PathOf(dir, "n"))
	defer retire(n)
	if err != nil {
		fmt.Fprintln(os.Stderr, "c19: replay setup failed:", err)
		out.mismatchAt = 0
		return out
	}
	done := make([]bool, len(s.reqs))
	used := make([]bool, len(s.mined))
	var queues []*bgQueue
	for step := 0; ; step++ {
		// enabled tokens
		var enabled []token
		for _, q := range queues {
			if len(q.heights) > 0 {
				enabled = append(enabled, token{'b', q.spawner, int(q.heights[0])})
			}
		}
		var ready []int
		for i := range s.reqs {
			if done[i] {
				continue
			}
			ok := true
			for _, j := range s.before[i] {
				if !done[j] {
					ok = false
					break
				}
			}
			if ok {
				ready = append(ready, i)
			}
		}
		sort.Slice(ready, func(a, b int) bool { return s.rr.Recs[ready[a]].Ret < s.rr.Recs[ready[b]].Ret })
		head := n.BC.CurrentBlock().Hash()
		for _, i := range ready {
			if s.reqs[i].Kind != "mine" {
				enabled = append(enabled, token{'r', i, -2})
				continue
			}
			// default first: a mined block whose parent is the head, else the no-op
			// (a mined block whose parent is not the head here cannot have been mined at this point)
			for j, mb := range s.mined {
				if !used[j] && mb.ParentHash() == head {
					enabled = append(enabled, token{'r', i, j})
				}
			}
			enabled = append(enabled, token{'r', i, -1})
		}
		if len(enabled) == 0 {
			out.complete = true
			break
		}
		var tok token
		if step < len(prefix) {
			tok = prefix[step]
			found := false
			for _, e := range enabled {
				if e == tok {
					found = true
				}
			}
			if !found {
				out.seq = append(out.seq, tok)
				out.alts = append(out.alts, nil)
				out.mismatchAt = step
				return out
			}
			out.alts = append(out.alts, nil)
		} else {
			tok = enabled[0]
			out.alts = append(out.alts, append([]token(nil), enabled[1:]...))
		}
		out.seq = append(out.seq, tok)

		// execute
		a := n.BC.StableBlock().Height()
		fine := true
		switch {
		case tok.Kind == 'b':
			for _, q := range queues {
				if q.spawner == tok.R && len(q.heights) > 0 && int(q.heights[0]) == tok.Variant {
					q.heights = q.heights[1:]
				}
			}
			h := uint32(tok.Variant)
			n.Engine().VerifConfirmer().BatchConfirmStable(h, h)
			out.bgOps++
		case s.reqs[tok.R].Kind == "mine":
			done[tok.R] = true
			if tok.Variant >= 0 {
				used[tok.Variant] = true
				mb := s.mined[tok.Variant]
				if mb.ParentHash() != head {
					fine = false // MineBlock builds on the head
				} else if err := n.BC.InsertBlock(decBlock(s.rr.Mined[tok.Variant])); err != nil {
					fine = false
				}
			}
		default:
			done[tok.R] = true
			ok, _ := prepare(s.rr.Mat, s.reqs[tok.R]).exec(n)
			fine = ok == s.rr.Recs[tok.R].OK
		}
		if !fine {
			out.mismatchAt = step
			return out
		}
		if tok.Kind == 'r' {
			if b := n.BC.StableBlock().Height(); b > a {
				q := &bgQueue{spawner: tok.R}
				for h := a + 1; h <= b; h++ {
					q.heights = append(q.heights, h)
				}
				queues = append(queues, q)
			}
		}
	}
	out.final = readState(n, s.known, s.own)
	return out
}

func orderString(seq []token) string {
	var parts []string
	for _, t := range seq {
		parts = append(parts, t.String())
	}
	return strings.Join(parts, " ")
}

func (s *searcher) matchesAny(st *State) bool {
	for i := range s.finals {
		if part, _ := diffState(st, &s.finals[i]); part == "" {
			return true
		}
	}
	return false
}

func (s *searcher) search() searchResult {
	res := searchResult{}
	stack := [][]token{{}}
	watchdog := time.Now().Add(90 * time.Second)
	for len(stack) > 0 {
		if res.replays >= s.cap || time.Now().After(watchdog) {
			return res // inconclusive
		}
		p := stack[len(stack)-1]
		stack = stack[:len(stack)-1]
		rr := s.runOrder(p)
		res.replays++
		if rr.complete {
			part, matched := diffState(&s.rr.Final, &rr.final)
			s.finals = append(s.finals, rr.final)
			if part == "" {
				res.matched = true
				res.order = orderString(rr.seq)
				res.bgOps = rr.bgOps
				return res
			}
			if matched > s.best {
				s.best, s.bestAt, s.bestOr = matched, part, orderString(rr.seq)
			}
		}
		// alternatives found at or after the end of the prefix, deepest explored first
		last := len(rr.seq)
		for k := len(p); k < last && k < len(rr.alts); k++ {
			for i := len(rr.alts[k]) - 1; i >= 0; i-- {
				np := append(append([]token(nil), rr.seq[:k]...), rr.alts[k][i])
				stack = append(stack, np)
			}
		}
	}
	res.exhausted = true
	if s.best < 0 {
		res.part = "results"
		res.msg = fmt.Sprintf("no sequential order of the %d recorded requests (consistent with real-time precedence and program order) reproduces the recorded per-request results (%d orders/prefixes replayed)", len(s.reqs), res.replays)
	} else {
		res.part = s.bestAt
		res.msg = fmt.Sprintf("the final state of the concurrent execution equals the outcome of no sequential order of the same %d requests (%d replays); closest order [%s] differs in: %s", len(s.reqs), res.replays, s.bestOr, s.bestAt)
	}
	return res
}
