// C19 — the consensus engine is thread-safe under concurrent blocks, confirms and mining.
//
// One real node (identity = a deputy, so it signs confirms and can mine) per history. A small
// block tree with recent timestamps and the other deputies' confirm packets are built first
// on a helper node; then 2-4 client goroutines issue InsertBlock / InsertConfirms / the real
// MineBlock concurrently while 1-2 reader goroutines run the read queries an RPC thread runs.
// Three monitors:
//
//  1. the Go race detector over everything (reports are counted and classified by the driver);
//  2. emitted signatures: every BlockConfirmData the node publishes on the public confirm
//     topic must recover to the node's own id and name a block (hash at that height) the
//     harness offered or the node mined; every self-mined block's header signature likewise;
//  3. linearizability by sequential replay: call/return stamps (one atomic counter) and the
//     result class of each mutating request are recorded; the final observable state must
//     equal the outcome of SOME sequential order consistent with real-time precedence and
//     per-client program order, where candidate orders are executed on fresh nodes by the
//     real implementation (lin.go).
//
// Process layout (process globals: the self node key, sigCache, the event bus): phase 0 builds
// the material of every history of this batch on helper nodes (this needs to switch the self
// key to whichever deputy is in turn, so it happens before any node under test exists);
// then the self key is set ONCE and never written again.
package main

import (
	"encoding/hex"
	"encoding/json"
	"fmt"
	"os"
	"time"

	"github.com/LemoFoundationLtd/lemochain-core/chain/types"
	"github.com/LemoFoundationLtd/lemochain-core/common/rlp"
	"github.com/LemoFoundationLtd/lemochain-core/common/verifhook"

	"verif/fx"
	"verif/fx/run"
)

// Yield sites (hook H7) in the repository.
const (
	siteSig   = "consensus.SignBlock:between-cache-stores"
	siteBatch = "consensus.batchConfirmStable:before-sign"
	siteIter  = "store.IterateUnConfirms:before-walk"
	sitePut   = "store.FileQueue.Put:between-empty-and-flush"
	sitePutB  = "store.FileQueue.PutBatch:between-empty-and-flush"
	siteWB    = "store.SyncFileDB.start:before-put"
	siteLockB = "consensus.InsertBlock:holding-chain-lock"
	siteLockC = "consensus.InsertConfirms:holding-chain-lock"
)

var allSites = []string{siteSig, siteBatch, siteIter, sitePut, sitePutB, siteWB, siteLockB, siteLockC}

// TBlock is one pre-built block.
type TBlock struct {
	Hex    string // RLP (wire form: no change logs, no confirms)
	Parent int    // index in Tree; -1 = the prefix tip (or genesis)
	Height uint32
	Hash   string
	Miner  int // deputy index
	Time   uint32
	Txs    int
	InTurn bool // chosen so that the self deputy is in turn on this block during the run window
}

// Req is one mutating request.
type Req struct {
	Kind        string   // "block" | "confirms" | "mine"
	Block       int      `json:",omitempty"` // tree index
	Embed       []string `json:",omitempty"` // block: confirm signatures carried inside the block
	Sigs        []string `json:",omitempty"` // confirms
	Signers     []int    `json:",omitempty"` // deputy indexes behind Embed / Sigs
	WrongHeight bool     `json:",omitempty"`
	PreDelay    int      `json:",omitempty"` // 0 none, 1 yield, >1 sleep microseconds
}

// Material is everything a history needs (also the replay format).
type Material struct {
	Idx      int
	Shape    string
	World    fx.WorldCfg
	SelfIdx  int
	T0       uint32
	Prefix   []TBlock // linear, stabilised during setup
	Tree     []TBlock
	Pre      []int   // tree blocks already inserted during setup
	Clients  [][]Req // mutating clients, program order
	Readers  int
	ReadSeed uint64
	Yield    map[string]int // site -> 0 off, 1 runtime.Gosched, >1 sleep microseconds
	PoolTx   string         `json:",omitempty"` // a transaction waiting in the node's pool (RLP hex)
}

// Rec is the recorded execution of one request.
type Rec struct {
	Client int
	Idx    int
	Call   int64
	Ret    int64
	OK     bool
	Err    string `json:",omitempty"`
}

// State is the observable final state that is compared.
type State struct {
	Blocks   []string            // sorted hashes of the offered/mined blocks the node holds
	Head     string              // hash
	Stable   string              // hash
	StableH  uint32              // height of the stable block
	Confirms map[string][]string // block hash -> sorted signer node ids (header signer + confirms); own id removed for stable blocks
}

// RunRecord is a recorded concurrent history (witness of a linearizability violation).
type RunRecord struct {
	Kind  string // "lin"
	Mat   *Material
	Recs  []Rec
	Mined []string // blocks the node mined during the history (RLP hex, wire form)
	Final State
}

// SigWitness is the witness of an emitted-signature violation.
type SigWitness struct {
	Kind    string // "sig"
	What    string // "confirm" | "mined-block"
	Own     string // own node id (hex)
	Hash    string
	Height  uint32
	Sig     string
	Known   map[string]uint32 // offered/mined blocks: hash -> height
	Claimed string            // the class the online monitor computed
}

func batches(tier string) int {
	if tier == "thorough" {
		return 320 // ~3 units of 5 executions each: a process must finish inside the mining window of its material
	}
	return 16
}

func encBlock(b *types.Block) string {
	e, err := rlp.EncodeToBytes(b)
	if err != nil {
		panic(err)
	}
	return hex.EncodeToString(e)
}

func decBlock(s string) *types.Block {
	raw, err := hex.DecodeString(s)
	if err != nil {
		panic(err)
	}
	b := new(types.Block)
	if err := rlp.DecodeBytes(raw, b); err != nil {
		panic(err)
	}
	return b
}

func sigHex(s types.SignData) string { return hex.EncodeToString(s[:]) }

func hexSig(s string) types.SignData {
	raw, _ := hex.DecodeString(s)
	return types.BytesToSignData(raw)
}

// unit is one piece of work: `reps` executions of history `hist`.
type unit struct {
	hist  int
	fixed bool
	chunk int
	reps  int
}

const nFixed = 8

func units(c *run.Ctx) []unit {
	nh := c.Pick(44, 240)
	chunks, reps := 1, 3
	if c.Thorough() {
		chunks, reps = 4, 5
	}
	var us []unit
	for h := 0; h < nFixed; h++ {
		for k := 0; k < chunks; k++ {
			us = append(us, unit{hist: h, fixed: true, chunk: k, reps: reps})
		}
	}
	for h := 0; h < nh; h++ {
		for k := 0; k < chunks; k++ {
			us = append(us, unit{hist: h, chunk: k, reps: reps})
		}
	}
	return us
}

func runAll(c *run.Ctx) {
	fx.Quiet()
	all := units(c)
	lo, hi := c.Share(len(all))
	mine := all[lo:hi]
	if len(mine) == 0 {
		return
	}
	selfIdx := c.Batch % 3
	T0 := uint32(time.Now().Unix())

	// phase 0: build all material (switches the process-global self key; nothing else is running)
	type job struct {
		u   unit
		mat *Material
	}
	var jobs []job
	for _, u := range mine {
		var r *run.Rng
		shape := ""
		if u.fixed {
			r = run.NewRng(77, 19, uint64(u.hist))
			shape = []string{"deepchain", "forks", "mine", "bgsign", "lateconfirms", "lateconfirms", "minerace", "minerace"}[u.hist%8]
		} else {
			r = run.NewRng(c.Seed, 19, uint64(u.hist))
		}
		mat, err := buildMaterial(r, u.hist, shape, T0, selfIdx)
		if err != nil {
			c.Stat("material_build_failed", 1)
			fmt.Fprintln(os.Stderr, "c19: build failed:", err)
			continue
		}
		if u.fixed {
			mat.Idx = -1 - u.hist
		}
		jobs = append(jobs, job{u, mat})
	}
	time.Sleep(30 * time.Millisecond)

	// phase 1: the self key is written here for the last time
	w0 := fx.NewWorld(fx.WorldCfg{Deputies: 5})
	fx.SetSelf(w0.Deputies[selfIdx])
	verifhook.SetYield(yieldHandler)
	theBus.start()

	if c.Batch == 0 && len(jobs) > 0 {
		// hook census: one extra execution with a counting handler (its atomics order the
		// goroutines that pass the sites, so this run is not a good race probe; it only
		// shows that every site is reached)
		runHistory(c, jobs[0].mat, -1, true)
	}
	for _, j := range jobs {
		for rep := 0; rep < j.u.reps; rep++ {
			runHistory(c, j.mat, j.u.chunk*j.u.reps+rep, false)
		}
	}
	// let late emissions arrive, then judge them too
	time.Sleep(100 * time.Millisecond)
	theBus.judge(c, w0.Deputies[selfIdx])
}

func replay(c *run.Ctx, raw json.RawMessage) {
	fx.Quiet()
	var k struct{ Kind string }
	if err := json.Unmarshal(raw, &k); err != nil {
		c.Inconclusive("bad witness: " + err.Error())
		return
	}
	switch k.Kind {
	case "sig":
		var w SigWitness
		if err := json.Unmarshal(raw, &w); err != nil {
			c.Inconclusive("bad witness: " + err.Error())
			return
		}
		own, _ := hex.DecodeString(w.Own)
		sig, _ := hex.DecodeString(w.Sig)
		if cls := judgeSig(own, w.Hash, w.Height, sig, w.Known, w.What); cls != "" {
			c.Violation("C19/emitted-signature:"+cls, "replayed predicate over the recorded emission", w)
		}
		c.Case("replay sig", true, nil)
	case "lin":
		var rr RunRecord
		if err := json.Unmarshal(raw, &rr); err != nil {
			c.Inconclusive("bad witness: " + err.Error())
			return
		}
		w := fx.NewWorld(rr.Mat.World)
		fx.SetSelf(w.Deputies[rr.Mat.SelfIdx])
		verifhook.SetYield(yieldHandler)
		theBus.start()
		s := newSearcher(c, w, &rr, 600)
		res := s.search()
		switch {
		case res.matched:
			c.Note(fmt.Sprintf("recorded outcome equals sequential order %s (after %d replays)", res.order, res.replays))
		case res.exhausted:
			c.Violation("C19/not-linearizable:"+res.part, res.msg, &rr)
		default:
			c.Inconclusive("linearizability search stopped at its replay cap")
		}
		c.Case("replay lin", true, nil)
	default:
		c.Inconclusive("witness of kind '" + k.Kind + "' (race reports and crashes are reproduced by running the tier again)")
	}
}

func main() { run.Main(run.Engine{Batches: batches, Run: runAll, Replay: replay}) }
