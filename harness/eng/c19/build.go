package main

import (
	"encoding/hex"
	"fmt"
	"math/big"
	"os"

	"github.com/LemoFoundationLtd/lemochain-core/chain/types"
	"github.com/LemoFoundationLtd/lemochain-core/common"
	"github.com/LemoFoundationLtd/lemochain-core/common/rlp"

	"verif/fx"
	"verif/fx/run"
)

// runWindow is how long after T0 (seconds) the concurrent phases of a process may still run;
// "in turn now" blocks are chosen so that the self deputy stays in turn during [T0+1, T0+runWindow].
func runWindow(slotMs uint64) uint32 {
	switch {
	case slotMs >= 100000:
		return 70
	case slotMs >= 60000:
		return 40
	default:
		return 25
	}
}

func deputyIdx(w *fx.World, a common.Address) int {
	for i, k := range w.Deputies {
		if k.Addr == a {
			return i
		}
	}
	return -1
}

// selfInTurnOn reports whether deputy self is the in-turn miner on a block (height, time, miner)
// during the whole run window, according to the repository's own schedule function.
func selfInTurnOn(B *fx.Node, height uint32, t uint32, miner common.Address, self fx.Key, T0 uint32) bool {
	h := &types.Header{Height: height, Time: t, MinerAddress: miner}
	for _, at := range []uint32{T0 + 1, T0 + runWindow(B.W.SlotMs)/2, T0 + runWindow(B.W.SlotMs)} {
		k, err := B.InTurn(h, at)
		if err != nil || k.Addr != self.Addr {
			return false
		}
	}
	return true
}

// findInTurnTime searches a block time in [lo,hi] such that the block mined at that time on
// parent leaves the self deputy in turn during the run window.
func findInTurnTime(r *run.Rng, B *fx.Node, parent *types.Block, lo, hi uint32, self fx.Key, T0 uint32) (uint32, bool) {
	if lo > hi {
		return 0, false
	}
	span := int(hi - lo + 1)
	start := r.Intn(6) // early times leave room for descendants
	for i := 0; i < span; i++ {
		t := lo + uint32((start+i)%span)
		m, err := B.InTurn(parent.Header, t)
		if err != nil {
			continue
		}
		if selfInTurnOn(B, parent.Height()+1, t, m.Addr, self, T0) {
			return t, true
		}
	}
	return 0, false
}

func tblock(w *fx.World, b *types.Block, parent int, inTurn bool) TBlock {
	wire := &types.Block{Header: b.Header, Txs: b.Txs}
	return TBlock{Hex: encBlock(wire), Parent: parent, Height: b.Height(), Hash: b.Hash().Hex(), Miner: deputyIdx(w, b.MinerAddress()),
		Time: b.Time(), Txs: len(b.Txs), InTurn: inTurn}
}

// buildMaterial builds one history on a helper node with the outsider identity. The helper
// never stabilises anything, so none of its background goroutines reads the self key.
func buildMaterial(r *run.Rng, idx int, shape string, T0 uint32, selfIdx int) (mat *Material, err error) {
	for try := 0; try < 4; try++ {
		if mat, err = buildMaterial1(r, idx, shape, T0, selfIdx); err == nil {
			return mat, nil
		}
	}
	return nil, err
}

func buildMaterial1(r *run.Rng, idx int, shape string, T0 uint32, selfIdx int) (*Material, error) {
	if shape == "" {
		shape = []string{"random", "random", "deepchain", "forks", "mine", "bgsign", "lateconfirms", "minerace"}[r.Intn(8)]
	}
	nDep := r.Range(3, 5)
	// lateconfirms: a chain whose deepest pre-inserted block becomes stable first, so that its ancestors are stable
	// with few confirms; then single-signature packets for those ancestors arrive back to back (each one a
	// read-modify-write of the stored block through the write-behind queue)
	chainLike := shape == "bgsign" || shape == "lateconfirms" || shape == "minerace"
	if chainLike {
		nDep = r.Range(4, 5) // with 3 deputies miner + own signature already make a block stable
	}
	slot := []uint64{40000, 60000, 100000}[r.Intn(3)]
	wcfg := fx.WorldCfg{Deputies: nDep, Users: 3, SlotMs: slot, GenesisTime: T0 - 600}
	w := fx.NewWorld(wcfg)
	self := w.Deputies[selfIdx]
	dir := fx.ScratchDir("c19b")
	B := w.NewNode(fx.PathOf(dir, "builder"), w.Outsider)
	defer func() { B.Close(); _ = os.RemoveAll(dir) }()
	mat := &Material{Idx: idx, Shape: shape, World: wcfg, SelfIdx: selfIdx, T0: T0, Yield: map[string]int{}}
	TB := fx.TxB{W: w}
	txn := 0
	mkTx := func(t uint32) types.Transactions {
		txn++
		return types.Transactions{TB.Transfer(w.Founder, w.Users[txn%3].Addr, fx.LEMO(int64(txn)), uint64(t)+600+uint64(txn))}
	}

	// stabilised linear prefix, old blocks
	head := B.BC.Genesis()
	t := T0 - 500
	for i, pl := 0, r.Range(0, 2); i < pl; i++ {
		t += uint32(r.Range(15, 90))
		var txs types.Transactions
		if i == 0 {
			txs = mkTx(t)
		}
		res, err := B.Mine(head, t, txs, fmt.Sprintf("c19p%d", i))
		if err != nil {
			return nil, fmt.Errorf("prefix mine: %v", err)
		}
		if err := B.Insert(res.Block, true); err != nil {
			return nil, fmt.Errorf("prefix insert: %v", err)
		}
		mat.Prefix = append(mat.Prefix, tblock(w, res.Block, -1, false))
		head = res.Block
	}

	// the tree above the prefix tip; block times in [T0-200, T0-10]
	type tn struct {
		b     *types.Block
		idx   int
		depth int
	}
	nodes := []tn{{head, -1, 0}}
	want := r.Range(3, 8)
	if shape == "deepchain" || chainLike {
		want = r.Range(5, 7)
	}
	hi := T0 - 10
	seen := map[common.Hash]bool{}
	for attempt := 0; attempt < 4*want && len(mat.Tree) < want; attempt++ {
		var p tn
		switch {
		case shape == "lateconfirms" && len(mat.Tree) == 1:
			// the first block is a decoy: the chain starts next to it. The node signs the decoy when it is inserted and
			// therefore none of the chain's blocks (another fork, not far enough); when the chain's tip becomes stable the
			// background signer has the ancestors to sign while the late packets for them arrive
			p = nodes[0]
		case chainLike:
			p = nodes[len(nodes)-1]
		case shape == "deepchain":
			p = nodes[len(nodes)-1]
			if r.Chance(1, 6) && len(nodes) > 2 {
				p = nodes[r.Intn(len(nodes))]
			}
		case shape == "forks":
			p = nodes[r.Intn(len(nodes))]
			if r.Chance(1, 3) {
				p = nodes[0]
			}
		default:
			if r.Chance(3, 5) {
				p = nodes[len(nodes)-1]
			} else {
				p = nodes[r.Intn(len(nodes))]
			}
		}
		lo := p.b.Time() + 1
		if lo < T0-200 {
			lo = T0 - 200
		}
		if lo > hi {
			continue
		}
		var bt uint32
		inTurn := false
		if r.Chance(2, 3) || shape == "mine" || shape == "minerace" {
			bt, inTurn = findInTurnTime(r, B, p.b, lo, hi, self, T0)
		}
		if !inTurn {
			span := int(hi - lo + 1)
			if max := nDep*int(slot/1000) + 5; span > max {
				span = max
			}
			bt = lo + uint32(r.Intn(span))
		}
		var txs types.Transactions
		if r.Chance(1, 3) {
			txs = mkTx(bt)
		}
		res, err := B.Mine(p.b, bt, txs, fmt.Sprintf("c19t%d", len(mat.Tree)))
		if err != nil {
			continue
		}
		if seen[res.Block.Hash()] {
			continue
		}
		if err := B.Insert(res.Block, true); err != nil {
			continue
		}
		seen[res.Block.Hash()] = true
		mat.Tree = append(mat.Tree, tblock(w, res.Block, p.idx, inTurn))
		nodes = append(nodes, tn{res.Block, len(mat.Tree) - 1, p.depth + 1})
	}
	if len(mat.Tree) < 2 {
		return nil, fmt.Errorf("tree too small (%d)", len(mat.Tree))
	}

	// the other deputies' confirm signatures (never the miner's, never our own)
	signersOf := func(i int) []int {
		var out []int
		for d := 0; d < nDep; d++ {
			if d != mat.Tree[i].Miner && d != selfIdx {
				out = append(out, d)
			}
		}
		return out
	}
	sign := func(i int, ds []int) []string {
		var out []string
		for _, d := range ds {
			out = append(out, sigHex(fx.SignBlock(common.HexToHash(mat.Tree[i].Hash), w.Deputies[d])))
		}
		return out
	}
	pick := func(ds []int, k int) []int {
		p := r.Perm(len(ds))
		var out []int
		for _, j := range p[:k] {
			out = append(out, ds[j])
		}
		return out
	}

	// blocks inserted during setup: an ancestor-closed initial segment
	inPre := map[int]bool{}
	npre := r.Intn(3)
	if chainLike {
		npre = 3
	}
	if shape == "minerace" {
		npre = 1
	}
	if shape == "lateconfirms" {
		npre = 4
	}
	for i := 0; i < len(mat.Tree) && len(mat.Pre) < npre; i++ {
		if p := mat.Tree[i].Parent; p == -1 || inPre[p] {
			mat.Pre = append(mat.Pre, i)
			inPre[i] = true
		}
	}

	// requests (<= 7): blocks in creation order, confirm packets and mining at random positions
	var reqs []Req
	budget := 7
	nMine := 0
	switch {
	case shape == "mine":
		nMine = r.Range(1, 2)
	case r.Chance(1, 2):
		nMine = 1
	}
	nConf := r.Range(1, 3)
	if shape == "deepchain" {
		nConf = r.Range(2, 3)
	}
	nBlocks := budget - nMine - nConf
	var blockReqs []Req
	for i := range mat.Tree {
		if inPre[i] || len(blockReqs) >= nBlocks {
			continue
		}
		rq := Req{Kind: "block", Block: i}
		if ds := signersOf(i); r.Chance(1, 4) && len(ds) > 0 {
			rq.Signers = pick(ds, r.Range(1, len(ds)))
			rq.Embed = sign(i, rq.Signers)
		}
		blockReqs = append(blockReqs, rq)
	}
	// confirm targets: blocks that are offered or pre-inserted; deep ones preferred so that the
	// stable block jumps over ancestors that still lack confirms (background batch confirm)
	offered := map[int]bool{}
	for i := range inPre {
		offered[i] = true
	}
	for _, rq := range blockReqs {
		offered[rq.Block] = true
	}
	var targets []int
	for i := range mat.Tree {
		if offered[i] {
			targets = append(targets, i)
		}
	}
	var confReqs []Req
	for k := 0; k < nConf && len(targets) > 0; k++ {
		var ti int
		if r.Chance(2, 3) {
			ti = targets[len(targets)-1-r.Intn((len(targets)+1)/2)]
		} else {
			ti = targets[r.Intn(len(targets))]
		}
		ds := signersOf(ti)
		if len(ds) == 0 {
			continue
		}
		n := len(ds)
		if r.Chance(1, 3) {
			n = r.Range(1, len(ds))
		}
		rq := Req{Kind: "confirms", Block: ti, Signers: pick(ds, n)}
		rq.Sigs = sign(ti, rq.Signers)
		rq.WrongHeight = r.Chance(1, 12)
		confReqs = append(confReqs, rq)
	}
	reqs = append(reqs, blockReqs...)
	insertAt := func(rq Req, min int) {
		pos := min + r.Intn(len(reqs)-min+1)
		reqs = append(reqs, Req{})
		copy(reqs[pos+1:], reqs[pos:])
		reqs[pos] = rq
	}
	for _, rq := range confReqs {
		min := 0
		if r.Chance(2, 3) {
			// usually after the request that offers the target block
			for i, o := range reqs {
				if o.Kind == "block" && o.Block == rq.Block {
					min = i + 1
				}
			}
		}
		insertAt(rq, min)
	}
	for k := 0; k < nMine; k++ {
		insertAt(Req{Kind: "mine"}, len(reqs)/2)
	}
	if len(reqs) > budget {
		reqs = reqs[:budget]
	}
	nClients := r.Range(2, 4)
	mat.Clients = make([][]Req, nClients)
	if shape == "lateconfirms" && len(mat.Pre) > 1 {
		// client 0: the packet that makes the deepest pre-inserted block stable. The others: one packet per signer for
		// each ancestor, the packets of one ancestor back to back on one client or spread over the clients
		ti := mat.Pre[len(mat.Pre)-1]
		first := Req{Kind: "confirms", Block: ti, Signers: signersOf(ti)}
		first.Sigs = sign(ti, first.Signers)
		mat.Clients[0] = append(mat.Clients[0], first)
		started := map[int]bool{}
		left := budget - 1
		for _, ai := range mat.Pre[:len(mat.Pre)-1] {
			if ai == 0 {
				continue // the decoy
			}
			ds := signersOf(ai)
			ds = pick(ds, len(ds))
			sameClient := r.Chance(1, 2)
			cl := 1 + r.Intn(nClients-1)
			for _, d := range ds {
				if left == 0 {
					break
				}
				left--
				rq := Req{Kind: "confirms", Block: ai, Signers: []int{d}}
				rq.Sigs = sign(ai, rq.Signers)
				if !sameClient {
					cl = r.Intn(nClients)
				}
				if !started[cl] && cl != 0 {
					// the first late packet of a client waits for the stabilising packet to have a chance to finish
					rq.PreDelay = r.Range(1500, 4000)
					started[cl] = true
				}
				mat.Clients[cl] = append(mat.Clients[cl], rq)
			}
		}
		reqs = nil
	}
	if shape == "minerace" {
		// client 0 inserts the chain block by block, each insertion holding the chain lock for a few milliseconds (yield
		// site); client 1 (and 2) ask the node to mine in between: whatever a mining request read before it got the lock
		// is stale by then. Every block of the chain leaves the node in turn, so mining can succeed on each of them
		nClients = r.Range(2, 3)
		mat.Clients = make([][]Req, nClients)
		left := budget
		for i := range mat.Tree {
			if inPre[i] || left <= 3 {
				continue
			}
			mat.Clients[0] = append(mat.Clients[0], Req{Kind: "block", Block: i})
			left--
		}
		for k := 0; k < 3 && left > 0; k++ {
			cl := 1 + k%(nClients-1)
			mat.Clients[cl] = append(mat.Clients[cl], Req{Kind: "mine", PreDelay: r.Range(300, 3000)})
			left--
		}
		reqs = nil
	}
	if shape == "bgsign" && len(mat.Pre) > 0 {
		// client 0 starts with the packet that makes the deepest pre-inserted block stable: the
		// stable block jumps over ancestors that lack confirms and the background signer starts
		// while the other clients insert the next blocks (which the node signs in the foreground)
		ti := mat.Pre[len(mat.Pre)-1]
		rq := Req{Kind: "confirms", Block: ti, Signers: signersOf(ti)}
		rq.Sigs = sign(ti, rq.Signers)
		mat.Clients[0] = append(mat.Clients[0], rq)
		if len(reqs) >= budget {
			reqs = reqs[:budget-1]
		}
	}
	for _, rq := range reqs {
		switch r.Intn(3) {
		case 1:
			rq.PreDelay = 1
		case 2:
			rq.PreDelay = r.Range(100, 1500)
		}
		cl := r.Intn(nClients)
		if shape == "bgsign" {
			cl = 1 + r.Intn(nClients-1)
			if rq.PreDelay > 1 {
				rq.PreDelay = r.Range(100, 2500)
			}
		}
		mat.Clients[cl] = append(mat.Clients[cl], rq)
	}
	mat.Readers = r.Range(1, 2)
	mat.ReadSeed = r.Uint64()
	for _, s := range allSites {
		switch r.Intn(10) {
		case 0, 1, 2, 3:
			mat.Yield[s] = 0
		case 4, 5, 6:
			mat.Yield[s] = 1
		default:
			mat.Yield[s] = r.Range(1000, 5000)
		}
	}
	if shape == "deepchain" || shape == "bgsign" {
		// widen the window in which the background signer overlaps the foreground
		mat.Yield[siteBatch] = r.Range(500, 3000)
		mat.Yield[siteSig] = r.Range(500, 3000)
	}
	if shape == "minerace" {
		mat.Yield[siteLockB] = r.Range(2000, 5000)
		mat.Yield[siteLockC] = 0
	}
	if shape == "mine" {
		// requests holding the chain lock for a while: whatever a request read before it got the lock is stale by then
		mat.Yield[siteLockB] = r.Range(1000, 4000)
		mat.Yield[siteLockC] = r.Range(500, 2000)
	}
	if shape == "lateconfirms" {
		// keep writes pending in the write-behind queue for a while
		mat.Yield[sitePut] = r.Range(1000, 5000)
		mat.Yield[sitePutB] = r.Range(1000, 5000)
		mat.Yield[siteBatch] = r.Range(500, 3000)
		mat.Yield[siteWB] = r.Range(500, 3000) // a slow disk: several writes of one key are pending at a time
	}
	if nMine > 0 && r.Chance(1, 2) {
		// a transaction for the miner: the founder (reward manager) calls the reward precompile
		nine := common.BytesToAddress([]byte{9})
		data := make([]byte, 64)
		data[31] = 1
		data[63] = 7
		tx := TB.Call(w.Founder, nine, big.NewInt(0), 200000, data, uint64(T0)+1200)
		enc, err := rlp.EncodeToBytes(tx)
		if err == nil {
			mat.PoolTx = hex.EncodeToString(enc)
		}
	}
	return mat, nil
}

// shapeOf is the structural fingerprint of a history.
func shapeOf(m *Material) string {
	s := fmt.Sprintf("%s n%d self%d slot%d prefix%d pre%d tree[", m.Shape, m.World.Deputies, m.SelfIdx, m.World.SlotMs/1000, len(m.Prefix), len(m.Pre))
	for _, b := range m.Tree {
		s += fmt.Sprintf("%d<%d ", b.Height, b.Parent)
	}
	s += "] clients["
	for _, cl := range m.Clients {
		for _, rq := range cl {
			switch rq.Kind {
			case "block":
				s += fmt.Sprintf("b%d+%d ", rq.Block, len(rq.Embed))
			case "confirms":
				s += fmt.Sprintf("c%dx%d ", rq.Block, len(rq.Sigs))
			default:
				s += "m "
			}
		}
		s += "| "
	}
	s += fmt.Sprintf("] readers%d", m.Readers)
	for _, site := range allSites {
		v := m.Yield[site]
		if v > 1 {
			v = 2
		}
		s += fmt.Sprintf(" y%d", v)
	}
	return s
}
