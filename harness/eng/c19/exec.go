package main

import (
	"bytes"
	"encoding/hex"
	"fmt"
	"os"
	"regexp"
	"runtime"
	"sort"
	"strings"
	"sync"
	"sync/atomic"
	"time"

	"github.com/LemoFoundationLtd/lemochain-core/chain"
	"github.com/LemoFoundationLtd/lemochain-core/chain/account"
	"github.com/LemoFoundationLtd/lemochain-core/chain/deputynode"
	"github.com/LemoFoundationLtd/lemochain-core/chain/txpool"
	"github.com/LemoFoundationLtd/lemochain-core/chain/types"
	"github.com/LemoFoundationLtd/lemochain-core/common"
	"github.com/LemoFoundationLtd/lemochain-core/common/flag"
	"github.com/LemoFoundationLtd/lemochain-core/common/rlp"
	"github.com/LemoFoundationLtd/lemochain-core/common/subscribe"
	"github.com/LemoFoundationLtd/lemochain-core/network"
	"github.com/LemoFoundationLtd/lemochain-core/store"

	"verif/fx"
	"verif/fx/run"
)

// ---------------------------------------------------------------------------------------
// yield handler (hook H7). The handler itself must not synchronise the goroutines that pass
// through it (that would hide races from the detector): it reads an immutable plan through
// one atomic load and otherwise only yields or sleeps.

type yieldPlan struct {
	replay bool           // sequential replay: the background batch confirm is run by the harness instead
	mode   map[string]int // site -> 0 off, 1 Gosched, >1 sleep microseconds
	count  bool           // census run only
}

var curPlan atomic.Value // *yieldPlan
var siteHits [16]int64

var replayPlan = &yieldPlan{replay: true}

func siteIdx(site string) int {
	for i, s := range allSites {
		if s == site {
			return i
		}
	}
	return len(allSites)
}

func yieldHandler(site string) {
	p, _ := curPlan.Load().(*yieldPlan)
	if p == nil {
		return
	}
	if p.replay {
		if site == siteBatch {
			// the goroutine "go dp.batchConfirmStable(..)" ends here; the harness calls
			// Confirmer.BatchConfirmStable itself at the position the candidate order gives it
			runtime.Goexit()
		}
		return
	}
	if p.count {
		atomic.AddInt64(&siteHits[siteIdx(site)], 1)
	}
	switch v := p.mode[site]; {
	case v == 1:
		runtime.Gosched()
	case v > 1:
		time.Sleep(time.Duration(v) * time.Microsecond)
	}
}

// ---------------------------------------------------------------------------------------
// the public event bus: emitted confirms and mined blocks of every node of this process

type emitted struct {
	hash   common.Hash
	height uint32
	sig    types.SignData
}

type bus struct {
	mu       sync.Mutex
	started  bool
	confirms []emitted
	mined    []*types.Block
	known    map[string]uint32 // offered / mined blocks: hash -> height
	judged   int
	deferred []emitted // named a block that was not known yet; judged again at the end
	fired    map[string]bool
	checked  int64
}

var theBus = &bus{known: map[string]uint32{}, fired: map[string]bool{}}

func (b *bus) start() {
	b.mu.Lock()
	defer b.mu.Unlock()
	if b.started {
		return
	}
	b.started = true
	chC := make(chan *network.BlockConfirmData, 1<<14)
	chM := make(chan *types.Block, 1<<12)
	subscribe.Sub(subscribe.NewConfirm, chC)
	subscribe.Sub(subscribe.NewMinedBlock, chM)
	go func() {
		for p := range chC {
			e := emitted{hash: p.Hash, height: p.Height, sig: p.SignInfo}
			b.mu.Lock()
			b.confirms = append(b.confirms, e)
			b.mu.Unlock()
		}
	}()
	go func() {
		for blk := range chM {
			b.mu.Lock()
			b.mined = append(b.mined, blk)
			b.mu.Unlock()
		}
	}()
}

func (b *bus) register(hash string, height uint32) {
	b.mu.Lock()
	b.known[hash] = height
	b.mu.Unlock()
}

func (b *bus) counts() (int, int) {
	b.mu.Lock()
	defer b.mu.Unlock()
	return len(b.confirms), len(b.mined)
}

func (b *bus) minedSince(mark int) []*types.Block {
	b.mu.Lock()
	defer b.mu.Unlock()
	return append([]*types.Block(nil), b.mined[mark:]...)
}

// judgeSig is the emitted-signature predicate; "" = fine.
func judgeSig(own []byte, hashHex string, height uint32, sig []byte, known map[string]uint32, what string) string {
	id, err := types.BytesToSignData(sig).RecoverNodeID(common.HexToHash(hashHex))
	if err != nil || !bytes.Equal(id, own) {
		if what == "mined-block" {
			return "mined-block-wrong-signer"
		}
		return "wrong-signer"
	}
	if what == "mined-block" {
		return ""
	}
	h, ok := known[hashHex]
	if !ok {
		return "unknown-block"
	}
	if h != height {
		return "wrong-hash-for-height"
	}
	return ""
}

func (b *bus) report(c *run.Ctx, cls string, e emitted, self fx.Key, what string) {
	if b.fired[cls] {
		c.Stat("violations emitted-signature:"+cls, 1)
		return
	}
	b.fired[cls] = true
	c.Stat("violations emitted-signature:"+cls, 1)
	known := map[string]uint32{}
	for k, v := range b.known {
		known[k] = v
	}
	w := SigWitness{Kind: "sig", What: what, Own: hex.EncodeToString(self.NodeID), Hash: e.hash.Hex(), Height: e.height, Sig: hex.EncodeToString(e.sig[:]), Known: known, Claimed: cls}
	msg := fmt.Sprintf("the node emitted a %s for block %s at height %d whose signature ", what, e.hash.Prefix(), e.height)
	switch cls {
	case "wrong-signer", "mined-block-wrong-signer":
		msg += "does not recover to the node's own id over that hash"
	case "unknown-block":
		msg += "is its own, but no such block was ever offered to or mined by the node"
	default:
		msg += "is its own, but the block with that hash has another height"
	}
	c.Violation("C19/emitted-signature:"+cls, msg, w)
}

// judge checks every emission that has arrived since the last call.
func (b *bus) judge(c *run.Ctx, self fx.Key) { b.judgeX(c, self, false) }

func (b *bus) judgeX(c *run.Ctx, self fx.Key, final bool) {
	b.mu.Lock()
	defer b.mu.Unlock()
	todo := append([]emitted(nil), b.confirms[b.judged:]...)
	b.judged = len(b.confirms)
	todo = append(todo, b.deferred...)
	b.deferred = nil
	for _, e := range todo {
		cls := judgeSig(self.NodeID, e.hash.Hex(), e.height, e.sig[:], b.known, "confirm")
		if cls == "unknown-block" && !final {
			b.deferred = append(b.deferred, e)
			continue
		}
		b.checked++
		c.Stat("emitted_confirms_checked", 1)
		if cls != "" {
			b.report(c, cls, e, self, "confirm")
		}
	}
}

// ---------------------------------------------------------------------------------------
// nodes

// newNode is fx.World.NewNode without touching the process-global self key.
func newNode(w *fx.World, dir string, self fx.Key) *fx.Node {
	n := &fx.Node{W: w, Dir: dir, Self: self}
	n.DB = store.NewChainDataBase(dir)
	if _, err := n.DB.GetBlockByHeight(0); err != nil {
		chain.SetupGenesisBlock(n.DB, w.Genesis)
	}
	n.DM = deputynode.NewManager(len(w.Deputies), n.DB)
	n.Pool = txpool.NewTxPool()
	bc, err := chain.NewBlockChain(chain.Config{ChainID: w.ChainID, MineTimeout: w.SlotMs}, n.DM, n.DB, flag.CmdFlags{}, n.Pool)
	if err != nil {
		panic(err)
	}
	n.BC = bc
	return n
}

// bgConfirm runs the background confirm of the heights (a, b] synchronously (replay plan).
func bgConfirm(n *fx.Node, a, b uint32) {
	for h := a + 1; h <= b; h++ {
		n.Engine().VerifConfirmer().BatchConfirmStable(h, h)
	}
}

// setupNode creates a node and brings it to the history's initial state. It runs under the
// replay plan, i.e. deterministically: the background confirm is executed inline.
func setupNode(w *fx.World, mat *Material, dir string) (*fx.Node, error) {
	n := newNode(w, dir, w.Deputies[mat.SelfIdx])
	step := func(f func() error) error {
		a := n.BC.StableBlock().Height()
		if err := f(); err != nil {
			return err
		}
		bgConfirm(n, a, n.BC.StableBlock().Height())
		return nil
	}
	for _, pb := range mat.Prefix {
		pb := pb
		b := decBlock(pb.Hex)
		if err := step(func() error { return n.BC.InsertBlock(b) }); err != nil {
			return n, fmt.Errorf("prefix block h%d: %v", pb.Height, err)
		}
		var sigs []types.SignData
		for d, k := range w.Deputies {
			if d != pb.Miner && d != mat.SelfIdx {
				sigs = append(sigs, fx.SignBlock(b.Hash(), k))
			}
		}
		_ = step(func() error { _ = n.Engine().InsertConfirms(pb.Height, b.Hash(), sigs); return nil })
		if n.BC.StableBlock().Hash() != b.Hash() {
			return n, fmt.Errorf("prefix block h%d did not become stable", pb.Height)
		}
	}
	for _, i := range mat.Pre {
		b := decBlock(mat.Tree[i].Hex)
		// a refusal is not an error here (a sibling of a block that became stable at once is
		// ignored); setup is the same deterministic sequence for the concurrent and the replay nodes
		_ = step(func() error { _ = n.BC.InsertBlock(b); return nil })
	}
	if mat.PoolTx != "" {
		raw, _ := hex.DecodeString(mat.PoolTx)
		tx := new(types.Transaction)
		if err := rlp.DecodeBytes(raw, tx); err == nil {
			_ = n.Pool.AddTx(tx)
		}
	}
	return n, nil
}

// prepared is a request with its inputs decoded (fresh objects: the engine mutates what it is given).
type prepared struct {
	rq     *Req
	block  *types.Block
	height uint32
	hash   common.Hash
	sigs   []types.SignData
}

func prepare(mat *Material, rq *Req) *prepared {
	p := &prepared{rq: rq}
	switch rq.Kind {
	case "block":
		p.block = decBlock(mat.Tree[rq.Block].Hex)
		for _, s := range rq.Embed {
			p.block.Confirms = append(p.block.Confirms, hexSig(s))
		}
	case "confirms":
		p.height = mat.Tree[rq.Block].Height
		if rq.WrongHeight {
			p.height++
		}
		p.hash = common.HexToHash(mat.Tree[rq.Block].Hash)
		for _, s := range rq.Sigs {
			p.sigs = append(p.sigs, hexSig(s))
		}
	}
	return p
}

// exec issues the request. Mining returns no result: whether it produced a block is learnt
// from the mined-block topic.
func (p *prepared) exec(n *fx.Node) (bool, string) {
	switch p.rq.Kind {
	case "block":
		err := n.BC.InsertBlock(p.block)
		if err != nil {
			return false, err.Error()
		}
		return true, ""
	case "confirms":
		// BlockChain.InsertConfirms drops the error; the engine entry it forwards to returns it
		err := n.Engine().InsertConfirms(p.height, p.hash, p.sigs)
		if err != nil {
			return false, err.Error()
		}
		return true, ""
	default:
		n.BC.MineBlock(600000)
		return true, ""
	}
}

// ---------------------------------------------------------------------------------------
// observable state

type knownBlock struct {
	hash   common.Hash
	height uint32
	signer string // header signer (recovered from the harness's own copy)
}

func shortID(id []byte) string {
	if len(id) > 8 {
		id = id[:8]
	}
	return hex.EncodeToString(id)
}

func headerSigner(b *types.Block) string {
	id, err := types.BytesToSignData(b.Header.SignData).RecoverNodeID(b.Hash())
	if err != nil {
		return "unrecoverable-header-signature"
	}
	return shortID(id)
}

func knownOf(mat *Material, mined []*types.Block) []knownBlock {
	var out []knownBlock
	add := func(tb TBlock) {
		b := decBlock(tb.Hex)
		out = append(out, knownBlock{b.Hash(), tb.Height, headerSigner(b)})
	}
	for _, tb := range mat.Prefix {
		add(tb)
	}
	for _, tb := range mat.Tree {
		add(tb)
	}
	for _, b := range mined {
		out = append(out, knownBlock{b.Hash(), b.Height(), headerSigner(b)})
	}
	return out
}

// readState reads the compared state through the node's public read entry points.
func readState(n *fx.Node, known []knownBlock, own string) State {
	st := State{Confirms: map[string][]string{}}
	head, stable := n.BC.CurrentBlock(), n.BC.StableBlock()
	st.Head, st.Stable, st.StableH = head.Hash().Hex(), stable.Hash().Hex(), stable.Height()
	for _, kb := range known {
		if !n.BC.HasBlock(kb.hash) {
			continue
		}
		hx := kb.hash.Hex()
		st.Blocks = append(st.Blocks, hx)
		set := map[string]bool{kb.signer: true}
		confirms, err := n.DB.GetConfirms(kb.hash)
		if err != nil {
			set["confirms-unreadable"] = true
		}
		for _, cf := range confirms {
			id, err := cf.RecoverNodeID(kb.hash)
			if err != nil {
				set["unrecoverable:"+hex.EncodeToString(cf[:6])] = true
				continue
			}
			set[shortID(id)] = true
		}
		if kb.height <= st.StableH {
			// normalisation: on stable blocks the node's own (background) signature is not compared
			delete(set, own)
		}
		var ids []string
		for id := range set {
			ids = append(ids, id)
		}
		sort.Strings(ids)
		st.Confirms[hx] = ids
	}
	sort.Strings(st.Blocks)
	return st
}

// diffState names the first part that differs ("" = equal) and how many parts matched before it.
func diffState(a, b *State) (string, int) {
	if strings.Join(a.Blocks, ",") != strings.Join(b.Blocks, ",") {
		return "blocks", 0
	}
	if a.Head != b.Head {
		return "head", 1
	}
	if a.Stable != b.Stable {
		return "stable", 2
	}
	for h, ids := range a.Confirms {
		if strings.Join(ids, ",") != strings.Join(b.Confirms[h], ",") {
			return "confirms", 3
		}
	}
	if len(a.Confirms) != len(b.Confirms) {
		return "confirms", 3
	}
	return "", 4
}

func digest(n *fx.Node, known []knownBlock) string {
	var sb strings.Builder
	sb.WriteString(n.BC.CurrentBlock().Hash().Prefix())
	sb.WriteString(n.BC.StableBlock().Hash().Prefix())
	for _, kb := range known {
		if n.BC.HasBlock(kb.hash) {
			cf, _ := n.DB.GetConfirms(kb.hash)
			fmt.Fprintf(&sb, "%d", len(cf))
		} else {
			sb.WriteByte('-')
		}
	}
	a, b := theBus.counts()
	fmt.Fprintf(&sb, "/%d/%d", a, b)
	return sb.String()
}

// quiesce waits until nothing observable has changed for 200 ms (bounded).
func quiesce(n *fx.Node, known []knownBlock) bool {
	last, since := "", time.Now()
	deadline := time.Now().Add(6 * time.Second)
	for time.Now().Before(deadline) {
		d := digest(n, known)
		if d != last {
			last, since = d, time.Now()
		} else if time.Since(since) >= 200*time.Millisecond {
			return true
		}
		time.Sleep(20 * time.Millisecond)
	}
	return false
}

// ---------------------------------------------------------------------------------------
// readers

var staleRe = regexp.MustCompile(`the block not exist|hash != database\.LastConfirm|item top30 is nil|item or item'block is nil`)

type readerResult struct {
	reads, stalePanics int
	anomalies          []string
	panics             []string
}

func reader(n *fx.Node, mat *Material, w *fx.World, id int, stop *int32, hashes []common.Hash, res *readerResult) {
	r := run.NewRng(mat.ReadSeed, uint64(id))
	var lastStable uint32
	addr := []common.Address{w.Founder.Addr, w.Users[0].Addr, w.Users[1].Addr, w.Deputies[0].Addr}
	nine := common.BytesToAddress([]byte{9})
	one := func(op int) {
		defer func() {
			if e := recover(); e != nil {
				msg := fmt.Sprint(e)
				if staleRe.MatchString(msg) {
					res.stalePanics++ // the hash named in the request was pruned between two reads: also happens sequentially
					return
				}
				msg = regexp.MustCompile(`0x[0-9a-fA-F]+|\d+`).ReplaceAllString(msg, "N")
				if len(msg) > 80 {
					msg = msg[:80]
				}
				res.panics = append(res.panics, fmt.Sprintf("op%d:%s", op, msg))
			}
		}()
		switch op {
		case 0:
			if n.BC.CurrentBlock() == nil {
				res.anomalies = append(res.anomalies, "current-block-nil")
			}
		case 1:
			h := n.BC.StableBlock().Height()
			if h < lastStable {
				res.anomalies = append(res.anomalies, "stable-height-decreased-for-one-reader")
			}
			lastStable = h
		case 2:
			if b := n.BC.GetBlockByHash(hashes[r.Intn(len(hashes))]); b != nil {
				_ = b.Height()
			}
		case 3:
			_ = n.BC.GetBlockByHeight(uint32(r.Intn(8)))
		case 4:
			_ = n.BC.GetCandidatesTop(n.BC.CurrentBlock().Hash())
		case 5:
			cnt := 0
			n.DB.IterateUnConfirms(func(b *types.Block) { cnt += int(b.Height()) })
		case 6:
			_ = n.BC.AccountManager().GetCanonicalAccount(addr[r.Intn(len(addr))]).GetBalance()
		case 7:
			am := account.NewManager(n.BC.StableBlock().Hash(), n.DB)
			_ = am.GetAccount(addr[r.Intn(len(addr))]).GetBalance()
		case 8:
			accM := account.NewReadOnlyManager(n.DB, false)
			to := addr[1]
			if r.Chance(1, 2) {
				to = nine
			}
			_, _ = n.BC.TxProcessor().ReadContract(accM, n.BC.CurrentBlock().Header, to, make([]byte, 64), 200*time.Millisecond)
		case 9:
			_ = n.BC.HasBlock(hashes[r.Intn(len(hashes))])
		case 10:
			cf, _ := n.DB.GetConfirms(hashes[r.Intn(len(hashes))])
			_ = len(cf)
		case 11:
			if b, err := n.DB.LoadLatestBlock(); err == nil {
				_ = b.Height()
			}
		}
	}
	for i := 0; i < 4000; i++ {
		if i >= 24 && atomic.LoadInt32(stop) != 0 {
			break
		}
		one(r.Intn(12))
		res.reads++
		switch r.Intn(4) {
		case 0:
			runtime.Gosched()
		case 1:
			time.Sleep(time.Duration(r.Range(50, 400)) * time.Microsecond)
		}
	}
}

// ---------------------------------------------------------------------------------------
// one concurrent execution of a history

func runHistory(c *run.Ctx, mat *Material, rep int, census bool) {
	w := fx.NewWorld(mat.World)
	self := w.Deputies[mat.SelfIdx]
	own := shortID(self.NodeID)
	dir := fx.ScratchDir("c19n")
	curPlan.Store(replayPlan)
	n, err := setupNode(w, mat, fx.PathOf(dir, "n"))
	if err != nil {
		c.Stat("setup_failed", 1)
		fmt.Fprintln(os.Stderr, "c19: setup failed:", err)
		return
	}
	defer retire(n)
	for _, tb := range mat.Prefix {
		theBus.register(tb.Hash, tb.Height)
	}
	for _, tb := range mat.Tree {
		theBus.register(tb.Hash, tb.Height)
	}
	c.WAL(map[string]interface{}{"history": mat, "rep": rep})
	known := knownOf(mat, nil)
	var hashes []common.Hash
	for _, kb := range known {
		hashes = append(hashes, kb.hash)
	}
	hashes = append(hashes, common.HexToHash("0x01"), n.BC.Genesis().Hash())
	_, minedMark := theBus.counts()
	stableBefore := n.BC.StableBlock().Height()

	plan := &yieldPlan{mode: mat.Yield, count: census}
	if rep%3 == 2 && !census {
		plan = &yieldPlan{mode: map[string]int{}} // every third repetition runs without injected delays
	}
	curPlan.Store(plan)

	var ctr int64
	var recs [][]Rec = make([][]Rec, len(mat.Clients))
	start := make(chan struct{})
	var wgM, wgR sync.WaitGroup
	for ci := range mat.Clients {
		ci := ci
		recs[ci] = make([]Rec, len(mat.Clients[ci]))
		preps := make([]*prepared, len(mat.Clients[ci]))
		for i := range mat.Clients[ci] {
			preps[i] = prepare(mat, &mat.Clients[ci][i])
		}
		wgM.Add(1)
		go func() {
			defer wgM.Done()
			<-start
			for i, p := range preps {
				switch d := p.rq.PreDelay; {
				case d == 1:
					runtime.Gosched()
				case d > 1:
					time.Sleep(time.Duration(d) * time.Microsecond)
				}
				rc := &recs[ci][i]
				rc.Client, rc.Idx = ci, i
				rc.Call = atomic.AddInt64(&ctr, 1)
				rc.OK, rc.Err = p.exec(n)
				rc.Ret = atomic.AddInt64(&ctr, 1)
			}
		}()
	}
	var stop int32
	rres := make([]readerResult, mat.Readers)
	for ri := 0; ri < mat.Readers; ri++ {
		ri := ri
		wgR.Add(1)
		go func() {
			defer wgR.Done()
			<-start
			reader(n, mat, w, ri, &stop, hashes, &rres[ri])
		}()
	}
	close(start)
	wgM.Wait()
	atomic.StoreInt32(&stop, 1)
	wgR.Wait()

	if !quiesce(n, known) {
		c.Stat("quiescence_not_reached", 1)
	}
	mined := theBus.minedSince(minedMark)
	var minedHex []string
	var minedCopies []*types.Block
	for _, b := range mined {
		cp := &types.Block{Header: b.Header, Txs: b.Txs}
		minedCopies = append(minedCopies, cp)
		minedHex = append(minedHex, encBlock(cp))
		theBus.register(cp.Hash().Hex(), cp.Height())
		c.Stat("mined_blocks_checked", 1)
		if len(cp.Txs) > 0 {
			c.Stat("mined_blocks_with_txs", 1)
		}
		if cls := judgeSig(self.NodeID, cp.Hash().Hex(), cp.Height(), cp.Header.SignData, nil, "mined-block"); cls != "" {
			var sd types.SignData
			copy(sd[:], cp.Header.SignData)
			theBus.mu.Lock()
			theBus.report(c, cls, emitted{cp.Hash(), cp.Height(), sd}, self, "mined-block")
			theBus.mu.Unlock()
		}
	}
	known = knownOf(mat, minedCopies)
	final := readState(n, known, own)
	curPlan.Store(replayPlan)
	theBus.judge(c, self)

	// no-loss: a confirm packet the node accepted (InsertConfirms returned nil) is a completed write; every valid
	// deputy signature it carried must be among the confirms of that block for as long as the node holds the block
	held := map[string]bool{}
	for _, h := range final.Blocks {
		held[h] = true
	}
	for ci := range recs {
		for i := range recs[ci] {
			rq := mat.Clients[ci][i]
			if rq.Kind != "confirms" || !recs[ci][i].OK || rq.WrongHeight {
				continue
			}
			hx := common.HexToHash(mat.Tree[rq.Block].Hash).Hex()
			if !held[hx] {
				continue
			}
			have := map[string]bool{}
			for _, id := range final.Confirms[hx] {
				have[id] = true
			}
			for _, d := range rq.Signers {
				c.Stat("accepted_confirms_checked_for_loss", 1)
				if id := shortID(w.Deputies[d].NodeID); !have[id] && id != own {
					c.Violation("C19/accepted-confirm-lost", fmt.Sprintf("InsertConfirms accepted a packet with the signature of deputy %d for block %s (height %d), but the block's stored confirms do not contain it after the history: %v",
						d, hx[:12], mat.Tree[rq.Block].Height, final.Confirms[hx]), &RunRecord{Kind: "lin", Mat: mat, Recs: flatten(recs), Mined: minedHex, Final: final})
				}
			}
		}
	}

	// statistics
	var flat []Rec
	nMineReq := 0
	for ci := range recs {
		for i := range recs[ci] {
			flat = append(flat, recs[ci][i])
			rq := mat.Clients[ci][i]
			if rq.Kind == "mine" {
				nMineReq++
			} else if recs[ci][i].OK {
				c.Stat("requests_ok:"+rq.Kind, 1)
			} else {
				c.Stat("requests_err:"+rq.Kind, 1)
				c.Seen("request_errors", rq.Kind+": "+recs[ci][i].Err)
			}
		}
	}
	overl := 0
	for i := range flat {
		for j := i + 1; j < len(flat); j++ {
			if flat[i].Client != flat[j].Client && flat[i].Call < flat[j].Ret && flat[j].Call < flat[i].Ret {
				overl++
			}
		}
	}
	c.Stat("history_runs", 1)
	c.Stat("requests", int64(len(flat)))
	c.Stat("overlapping_request_pairs", int64(overl))
	c.Stat("mine_requests", int64(nMineReq))
	c.Stat("mine_produced_block", int64(len(mined)))
	stableAdv := int64(final.StableH) - int64(stableBefore)
	c.Stat("stable_heights_advanced", stableAdv)
	for i := range rres {
		c.Stat("reads", int64(rres[i].reads))
		c.Stat("reads_panicked_on_stale_hash", int64(rres[i].stalePanics))
		for _, a := range rres[i].anomalies {
			c.Violation("C19/read-anomaly:"+a, "a reader observed "+a+" while requests were running", map[string]interface{}{"Kind": "read", "history": mat})
		}
		for _, p := range rres[i].panics {
			op := p[:strings.Index(p, ":")]
			c.Violation("C19/read-panics:"+p, "read query "+op+" panicked while requests were running (not a stale-hash panic)", map[string]interface{}{"Kind": "read", "history": mat})
		}
	}
	if census {
		for i, s := range allSites {
			c.Stat("census_yield_hits:"+s, atomic.LoadInt64(&siteHits[i]))
		}
		return
	}

	// linearizability
	rr := &RunRecord{Kind: "lin", Mat: mat, Recs: flat, Mined: minedHex, Final: final}
	s := newSearcher(c, w, rr, c.Pick(40, 150))
	res := s.search()
	c.Stat("lin_searches", 1)
	c.Stat("lin_replays", int64(res.replays))
	switch {
	case res.matched && res.replays == 1:
		c.Stat("lin_matched_first_order", 1)
	case res.matched:
		c.Stat("lin_matched_after_search", 1)
	case res.exhausted:
		// a late background confirm may have landed after the quiescence window: read again
		time.Sleep(time.Second)
		curPlan.Store(plan)
		quiesce(n, known)
		curPlan.Store(replayPlan)
		again := readState(n, known, own)
		if s.matchesAny(&again) {
			c.Stat("lin_matched_after_late_background_work", 1)
		} else {
			c.Stat("violations not-linearizable:"+res.part, 1)
			c.Violation("C19/not-linearizable:"+res.part, res.msg, rr)
		}
	default:
		c.Stat("linearizability_inconclusive", 1)
	}
	c.Stat("bg_confirm_ops_in_matching_order", int64(res.bgOps))

	nontrivial := overl > 0 && (stableAdv > 0 || len(mined) > 0)
	c.Case(shapeOf(mat), nontrivial, map[string]interface{}{"shape": mat.Shape, "deputies": mat.World.Deputies, "tree": len(mat.Tree), "clients": len(mat.Clients),
		"requests": len(flat), "overlapping_pairs": overl, "stable_advanced": stableAdv, "mined": len(mined), "lin_replays": res.replays, "order": res.order})
}

func flatten(recs [][]Rec) []Rec {
	var out []Rec
	for _, rs := range recs {
		out = append(out, rs...)
	}
	return out
}

var retired []*fx.Node

// retire stops a node. The database stays open: UpdateStable arms 30 s timers whose callbacks
// read it; the process exits (and the driver removes the scratch directory) soon enough.
func retire(n *fx.Node) {
	if n == nil {
		return
	}
	if n.BC != nil {
		n.BC.Stop()
	}
	retired = append(retired, n)
}
