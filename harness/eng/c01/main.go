// C01 — deterministic state transition. Differential monitor: the same (parent, header
// fields, ordered tx list) is executed by miners with different discard sets, repeatedly on
// fresh managers, and by validators with different histories; hashes, acceptance and
// every observable account field must agree.
package main

import (
	"encoding/json"
	"fmt"
	"math/big"
	"os"
	"sort"
	"strings"
	"time"

	"github.com/LemoFoundationLtd/lemochain-core/chain/account"
	"github.com/LemoFoundationLtd/lemochain-core/chain/params"
	"github.com/LemoFoundationLtd/lemochain-core/chain/types"

	"verif/fx"
	"verif/fx/run"
	"verif/scn"
)

func batches(tier string) int { return 16 }

type stepResult struct {
	block *types.Block
	ok    bool
}

// checkStep runs all determinism checks for one step on a cluster whose head is the parent.
// It returns the block to adopt (nil if none could be accepted).
func checkStep(c *run.Ctx, cl *scn.Cluster, t uint32, cands []scn.Cand, reopen bool) *types.Block {
	A, B := cl.Nodes[0], cl.Nodes[1]
	parent := cl.Head
	viol := func(class, msg string) {
		c.Violation("C01/"+class, msg, cl.Witness(t, cands, msg))
	}
	rM, err := A.Mine(parent, t, scn.Txs(cands), "")
	if err != nil {
		c.Note(fmt.Sprintf("mine failed at height %d: %v", parent.Height()+1, err))
		return nil
	}
	blk := rM.Block
	inc := scn.Included(blk)
	c.Stat("blocks_mined", 1)
	c.Stat("txs_included", int64(len(blk.Txs)))
	c.Stat("txs_discarded", int64(len(rM.Invalid)))
	var survivors, discards []scn.Cand
	for _, cd := range cands {
		if inc[cd.Tx.Hash()] {
			survivors = append(survivors, cd)
			if cd.Expect == "discard" {
				c.Stat("expected_discard_but_included", 1)
				c.Seen("expected_discard_but_included", cd.Kind)
			}
		} else {
			discards = append(discards, cd)
			if cd.Expect == "ok" {
				c.Stat("expected_ok_but_discarded", 1)
				c.Seen("expected_ok_but_discarded", cd.Kind)
			}
		}
	}
	// M'': repeat on fresh managers (map iteration orders)
	for i := 0; i < 2; i++ {
		r2, err := A.Mine(parent, t, scn.Txs(cands), "")
		if err != nil || r2.Block.Hash() != blk.Hash() {
			viol("repeat-mining-differs", fmt.Sprintf("mining the same candidates twice gave %v vs %v (err %v); logs %s", blk.Hash().Hex(), hashOf(r2), err, logDiff(blk, r2)))
			break
		}
		c.Stat("executions", 1)
	}
	// M': same survivors, different discard set at different positions, on another node
	var alt []scn.Cand
	alt = append(alt, survivors...)
	for i := len(discards) - 1; i >= 0; i-- {
		if cl.R.Chance(1, 2) {
			pos := cl.R.Intn(len(alt) + 1)
			alt = append(alt[:pos], append([]scn.Cand{discards[i]}, alt[pos:]...)...)
		}
	}
	rAlt, err := B.Mine(parent, t, scn.Txs(alt), "")
	c.Stat("executions", 1)
	leak := false
	if err != nil {
		leak = true
	} else if !sameTxList(rAlt.Block, blk) {
		// a discard became valid at its new position: not the same ordered tx list, nothing to compare
		c.Stat("alt_list_included_differently", 1)
	} else if rAlt.Block.Hash() != blk.Hash() {
		leak = true
	}
	// B*: survivors only
	rPure, err2 := B.Mine(parent, t, scn.Txs(survivors), "")
	c.Stat("executions", 1)
	if err2 != nil {
		leak = true
	} else if !sameTxList(rPure.Block, blk) {
		// e.g. a box that ran into the block gas limit was rolled back but its gas stays subtracted from the block's
		// gas pool, so later candidates were left out that fit when the box is never tried. Which candidates a miner
		// packages is its policy; the statement speaks about the result for the same ordered list.
		c.Stat("survivors_alone_packaged_differently", 1)
		leak = false
	} else if rPure.Block.Hash() != blk.Hash() {
		leak = true
	}
	if leak && err2 == nil {
		// find the culprit discard: survivors + d at its original relative position
		found := false
		for _, d := range discards {
			var lst []scn.Cand
			for _, cd := range cands {
				if inc[cd.Tx.Hash()] || cd.Tx.Hash() == d.Tx.Hash() {
					lst = append(lst, cd)
				}
			}
			r3, err := B.Mine(parent, t, scn.Txs(lst), "")
			c.Stat("executions", 1)
			if err == nil && !sameTxList(r3.Block, rPure.Block) {
				// alone with the survivors the candidate fits into the block (it was left out for the block gas limit,
				// not discarded): another ordered tx list, nothing to compare
				c.Stat("left_out_candidate_fits_alone", 1)
				continue
			}
			if err != nil || r3.Block.Hash() != rPure.Block.Hash() {
				found = true
				viol(fmt.Sprintf("discarded-tx-leaves-trace:%s", mech(logDiff(rPure.Block, r3))),
					fmt.Sprintf("block differs when the miner additionally tries and discards a %s candidate (tx type %d): %s", d.Kind, d.Tx.Type(), logDiff(rPure.Block, r3)))
			}
		}
		if !found && rAlt != nil && rAlt.Block != nil && sameTxList(rAlt.Block, blk) && rAlt.Block.Hash() != blk.Hash() {
			// the run with the discards at other positions of the list differs, no discard at its original position does:
			// named by the change logs that differ, like the single-discard case
			d := logDiff(blk, rAlt)
			found = true
			viol(fmt.Sprintf("discarded-tx-leaves-trace:%s", mech(d)), fmt.Sprintf("block differs when the miner tries the same discarded candidates at other positions of the list (packaged list equal): %s", d))
		}
		if !found {
			viol("miner-result-depends-on-candidate-set", fmt.Sprintf("hash with all candidates %s, with survivors only %s, no single discard reproduces it", blk.Hash().Hex(), rPure.Block.Hash().Hex()))
		}
		// continue the scenario with the discard-free block
		blk = rPure.Block
	} else if leak {
		viol("miner-error", fmt.Sprintf("mining survivors only failed: %v", err2))
		return nil
	}
	if _, err := fx.WireE(blk, true); err != nil {
		// consequence of C11's known finding (negative vote count): the change logs of this block cannot
		// be encoded, so the block can never be committed by the store. Not a determinism verdict; stop here.
		c.Stat("block_with_unencodable_logs", 1)
		c.Note("scenario stopped: change logs of an honest block cannot be encoded: " + err.Error())
		return nil
	}
	// validators
	if reopen && len(cl.Nodes) > 3 {
		n3 := cl.Nodes[3]
		n3.Reopen()
		c.Stat("reopens", 1)
		// a restarted node keeps only stable blocks: re-deliver the unstable part of the chain
		st := n3.BC.StableBlock().Height()
		for _, old := range cl.Chain {
			if old.Height() > st {
				if e := n3.Insert(old, false); e != nil {
					viol("restarted-node-rejects-known-block", fmt.Sprintf("reopened node rejects block %d it had accepted before the restart: %v", old.Height(), e))
				}
			}
		}
	}
	errs := cl.InsertAll(blk)
	c.Stat("executions", int64(len(errs)))
	rejected := false
	for i, e := range errs {
		if e != nil {
			rejected = true
			viol("honest-block-rejected:"+e.Error(), fmt.Sprintf("node %d rejects a block produced by the honest miner path at height %d: %v", i, blk.Height(), e))
			break
		}
	}
	if rejected {
		return nil
	}
	// field-for-field comparison across nodes
	cl.G.U.Block(blk)
	var ref, refRaw fx.Obs
	var refTop string
	for i, n := range cl.Nodes {
		o := fx.ObserveAt(n.DB, blk.Hash(), cl.G.U, fx.ObsOpts{Roots: true, Versions: true})
		raw := fx.RawAccounts(n.DB, blk.Hash(), cl.G.U)
		top := fx.TopStr(n.DB, blk.Hash())
		stored := n.BC.GetBlockByHash(blk.Hash())
		if stored == nil || stored.Hash() != blk.Hash() {
			viol("stored-block-differs", fmt.Sprintf("node %d does not return the accepted block by hash", i))
		}
		if i == 0 {
			ref, refRaw, refTop = o, raw, top
			c.Stat("fields_compared", int64(len(o)+len(raw)))
			continue
		}
		if d := fx.Diff(ref, o, 5); len(d) > 0 {
			viol("account-state-differs-between-nodes", fmt.Sprintf("node 0 vs node %d after block %d: %v", i, blk.Height(), d))
		}
		if d := fx.Diff(refRaw, raw, 5); len(d) > 0 {
			viol("raw-account-differs-between-nodes", fmt.Sprintf("node 0 vs node %d after block %d: %v", i, blk.Height(), d))
		}
		if top != refTop {
			viol("candidate-top-differs-between-nodes", fmt.Sprintf("node 0 %q vs node %d %q", refTop, i, top))
		}
	}
	return blk
}

// mech reduces a log diff to the set of affected log types (the mechanism).
func mech(d string) string {
	d = strings.Replace(d, "changed:", "", -1)
	parts := strings.FieldsFunc(d, func(r rune) bool { return r == '+' || r == '-' })
	seen := map[string]bool{}
	var out []string
	for _, p := range parts {
		if !seen[p] {
			seen[p] = true
			out = append(out, p)
		}
	}
	sort.Strings(out)
	return strings.Join(out, "+")
}

func sameTxList(a, b *types.Block) bool {
	if len(a.Txs) != len(b.Txs) {
		return false
	}
	for i := range a.Txs {
		if a.Txs[i].Hash() != b.Txs[i].Hash() {
			return false
		}
	}
	return true
}

func hashOf(r *fx.MineResult) string {
	if r == nil || r.Block == nil {
		return "<nil>"
	}
	return r.Block.Hash().Hex()
}

func logDiff(a *types.Block, r *fx.MineResult) string {
	if r == nil || r.Block == nil {
		return "no-block"
	}
	d := scn.LogTypeDiff(r.Block.ChangeLogs, a.ChangeLogs)
	if d == "same" {
		switch {
		case a.Header.VersionRoot != r.Block.Header.VersionRoot:
			return "version-root"
		case a.Header.GasUsed != r.Block.Header.GasUsed:
			return "gas-used"
		case a.Header.TxRoot != r.Block.Header.TxRoot:
			return "tx-root"
		}
	}
	return d
}

func scenario(c *run.Ctx, idx int) {
	r := run.NewRng(c.Seed, 1, uint64(idx))
	nDep := 1 + idx%5 // 1..5 deputies
	wcfg := fx.WorldCfg{Deputies: nDep, Users: 10, SlotMs: uint64(1000 * r.Range(2, 10))}
	gcfg := scn.DefaultCfg()
	if idx%7 == 3 {
		gcfg.Known = false
	}
	cl := scn.NewCluster(r, wcfg, 4, gcfg)
	defer cl.Close()
	nBlocks := r.Range(6, 10)
	if idx%3 == 0 {
		nBlocks = scn.Term + scn.Interim + 4 // cross snapshot, reward block and first blocks of term 1
	}
	kinds := map[string]bool{}
	discards := 0
	incomeSeq := 0
	for bi := 0; bi < nBlocks; bi++ {
		t := cl.NextTime()
		var cands []scn.Cand
		switch {
		case bi == 0:
			cands = cl.G.Setup(t)
		case bi == 1:
			cands = cl.G.Setup2(t)
		case cl.IsSnapshotNext():
			cands = nil // votes changing inside the snapshot block is C10's known finding; keep it out of C01
		default:
			cands = cl.G.Next(t, cl.Head.Height()+1, r.Range(3, 12))
			// deputies change the income address of their candidate profile (their accounts are funded in the third block):
			// who is paid the fees of a block depends on the state at its parent, never on what a node executed or cached before
			if bi == 2 {
				for i, d := range cl.W.Deputies {
					cands = append(cands, cl.G.C(cl.G.B.Transfer(cl.W.Founder, d.Addr, fx.LEMO(5000), uint64(t)+1500+uint64(i)), "fund-deputy", "ok"))
				}
			} else if r.Chance(1, 3) {
				d := cl.W.Deputies[r.Intn(len(cl.W.Deputies))]
				incomeSeq++
				inc := fx.NewKey(fmt.Sprintf("deputy-income-%d", idx), incomeSeq).Addr
				cl.G.U.Addr(inc)
				cands = append(cands, cl.G.C(cl.G.B.Register(d, fx.Profile(d, inc, true, "income moved"), big.NewInt(0), uint64(t)+1400+uint64(incomeSeq)), "deputy-income-update", "any"))
				c.Stat("deputy_income_updates_offered", 1)
			}
		}
		// every fourth block the miners choose a small block gas limit, so that candidates (and sub-txs of boxes) run into it
		lim := uint64(0)
		if bi >= 2 && r.Chance(1, 4) {
			lim = uint64(r.Range(200000, 600000))
		}
		for _, n := range cl.Nodes {
			n.GasLimit = lim
		}
		if lim != 0 {
			c.Stat("blocks_with_small_gas_limit", 1)
		}
		c.WAL(map[string]interface{}{"scenario": idx, "block": bi, "seed": c.Seed})
		blk := checkStep(c, cl, t, cands, r.Chance(1, 3))
		if blk == nil {
			break
		}
		ntypes := map[uint16]bool{}
		for _, tx := range blk.Txs {
			ntypes[tx.Type()] = true
		}
		shape := ""
		for _, cd := range cands {
			shape += cd.Kind + ","
			kinds[cd.Kind] = true
			c.Seen("tx_kinds", cd.Kind)
		}
		nd := len(cands) - len(blk.Txs)
		discards += nd
		c.Case(fmt.Sprintf("d%d h%d %s", nDep, blk.Height(), shape), nd > 0 && len(ntypes) >= 2, map[string]interface{}{
			"scenario": idx, "height": blk.Height(), "deputies": nDep, "candidates": shape, "included": len(blk.Txs), "discarded": nd, "hash": blk.Hash().Hex()})
		cl.Adopt(blk)
		if cl.MustStabiliseSoon() || r.Chance(1, 2) {
			if !cl.StabiliseAll() {
				c.Stat("scenario_stuck_unstabilisable", 1)
				break
			}
		}
	}
}

// fixedScenarios are the regression witnesses of the known findings; they run in every tier
// and for every seed.
func fixedScenarios(c *run.Ctx) {
	for variant := 0; variant < 4; variant++ {
		r := run.NewRng(7, 99, uint64(variant))
		cl := scn.NewCluster(r, fx.WorldCfg{Deputies: 3, Users: 6, SlotMs: 3000}, 4, scn.DefaultCfg())
		g := cl.G
		step := func(cands []scn.Cand) bool {
			t := cl.NextTime()
			c.WAL(map[string]interface{}{"fixed": variant, "height": cl.Head.Height() + 1})
			blk := checkStep(c, cl, t, cands, false)
			if blk == nil {
				return false
			}
			cl.Adopt(blk)
			cl.StabiliseAll()
			c.Case(fmt.Sprintf("fixed%d h%d", variant, blk.Height()), len(cands) > len(blk.Txs), map[string]interface{}{"fixed": variant, "height": blk.Height(), "included": len(blk.Txs), "candidates": len(cands)})
			return true
		}
		ok := step(g.Setup(cl.T+1)) && step(g.Setup2(cl.T+1))
		u1, u2 := cl.W.Users[1], cl.W.Users[2]
		exp := func() uint64 { return uint64(cl.Head.Time()) + 900 }
		if ok && variant == 0 {
			// oversized ModifyAsset is tried and discarded; the issuer has another tx in the block
			ca := g.B.CreateAsset(u1, 1, true, true, types.Profile{"name": "a", "symbol": "A", "description": "d", "suggestedGasLimit": "60000", "freeze": "false"}, exp())
			if step([]scn.Cand{g.C(ca, "create-asset-1", "ok")}) {
				big1 := make([]byte, 700)
				for i := range big1 {
					big1[i] = 'x'
				}
				step([]scn.Cand{g.C(g.B.ModifyAsset(u1, ca.Hash(), types.Profile{"newkey": string(big1)}, exp()), "modify-asset-oversized", "discard"),
					g.C(g.B.Transfer(u1, u2.Addr, fx.LEMO(1), exp()+1), "transfer", "ok")})
			}
		}
		if ok && variant == 1 {
			// a box whose first sub-tx writes contract storage and whose second sub-tx fails is discarded;
			// the contract receives LEMO in the same block
			s := g.ByKind("storeif")
			sub1 := g.B.Call(u1, s, big.NewInt(0), 200000, append(fx.Word(1), fx.Word(5)...), exp())
			sub2 := g.B.Transfer(u2, u1.Addr, fx.LEMO(900000000), exp())
			box := g.B.Box(u1, types.Transactions{sub1, sub2}, exp())
			step([]scn.Cand{g.C(box, "box-failing-sub", "discard"), g.C(g.B.Transfer(u2, s, fx.LEMO(1), exp()+1), "transfer", "ok")})
		}
		if ok && variant >= 2 {
			// a storage slot that is non-empty in the committed state is cleared by an included call; a discarded box behind
			// it (variant 2) or before it (variant 3) writes the same slot and is rolled back
			s := g.ByKind("store")
			u3 := cl.W.Users[3]
			if step([]scn.Cand{g.C(g.B.Call(u1, s, big.NewInt(0), 200000, append(fx.Word(1), fx.Word(5)...), exp()), "call-store", "ok")}) {
				clear := g.C(g.B.Call(u1, s, big.NewInt(0), 200000, append(fx.Word(1), fx.Word(0)...), exp()), "call-store-clear", "ok")
				sub1 := g.B.Call(u2, s, big.NewInt(0), 200000, append(fx.Word(1), fx.Word(7)...), exp()+1)
				sub2 := g.B.Transfer(u3, u1.Addr, fx.LEMO(900000000), exp()+1)
				box := g.C(g.B.Box(u3, types.Transactions{sub1, sub2}, exp()+1), "box-failing-sub", "discard")
				pay := g.C(g.B.Transfer(u2, s, fx.LEMO(1), exp()+2), "transfer", "ok")
				if variant == 2 {
					step([]scn.Cand{clear, box, pay})
				} else {
					step([]scn.Cand{box, clear, pay})
				}
				// and the slot is used again afterwards
				step([]scn.Cand{g.C(g.B.Call(u2, s, big.NewInt(0), 200000, append(fx.Word(1), fx.Word(9)...), exp()), "call-store", "ok")})
			}
		}
		cl.Close()
	}
}

// voteFlow aims at the end-of-block pass that walks a hash map of balance changes (ChangeVotesByBalance): several
// voters of the same candidate get balance changes of opposite sign and of a size comparable to the candidate's whole
// tally in one block, and payers (re-)vote after paying in the same block, so that the intermediate sums of the pass
// differ as much as possible between iteration orders. Additions commute, so every order must give the same block.
func voteFlow(c *run.Ctx, idx int) {
	r := run.NewRng(c.Seed, 11, uint64(idx))
	gcfg := scn.DefaultCfg()
	gcfg.Fund = 30000000
	cl := scn.NewCluster(r, fx.WorldCfg{Deputies: 1 + idx%3, Users: 10, SlotMs: 3000}, 4, gcfg)
	defer cl.Close()
	g := cl.G
	U := cl.W.Users
	seq := uint64(0)
	// every transaction gets its own expiry, so that no two of them coincide in all fields (a transaction that is
	// already in the chain is not something the pool offers an honest miner)
	exp := func() uint64 { seq++; return uint64(cl.W.GenesisTime) + 600 + seq }
	step := func(cands []scn.Cand, note string) *types.Block {
		t := cl.NextTime()
		c.WAL(map[string]interface{}{"voteflow": idx, "height": cl.Head.Height() + 1, "seed": c.Seed})
		if cl.IsSnapshotNext() {
			cands = nil
		}
		blk := checkStep(c, cl, t, cands, false)
		if blk == nil {
			return nil
		}
		cl.Adopt(blk)
		if cl.MustStabiliseSoon() || r.Chance(1, 2) {
			if !cl.StabiliseAll() {
				return nil
			}
		}
		c.Stat("voteflow_blocks", 1)
		c.Case(fmt.Sprintf("voteflow d%d h%d %s", 1+idx%3, blk.Height(), note), len(blk.Txs) > 1, map[string]interface{}{"voteflow": idx, "height": blk.Height(), "shape": note, "included": len(blk.Txs)})
		return blk
	}
	if step(g.Setup(cl.T+1), "setup") == nil {
		return
	}
	cand := []fx.Key{U[0], U[1]}
	var cs []scn.Cand
	for _, k := range cand {
		cs = append(cs, g.C(g.B.Register(k, fx.Profile(k, k.Addr, true, "vf"), params.MinCandidateDeposit, exp()), "register", "ok"))
	}
	if step(cs, "register") == nil {
		return
	}
	votes := map[int]int{} // voter user index -> candidate index
	cs = nil
	for u := 2; u < 10; u++ {
		if r.Chance(3, 4) {
			votes[u] = r.Intn(2)
			cs = append(cs, g.C(g.B.Vote(U[u], cand[votes[u]].Addr, exp()), "vote", "ok"))
		}
	}
	if step(cs, "votes") == nil {
		return
	}
	for bi := 0; bi < 5; bi++ {
		cs = nil
		shape := ""
		paid := map[int]bool{}
		for n := r.Range(2, 4); n > 0; n-- {
			from, to := r.Range(2, 9), r.Range(2, 9)
			if from == to || paid[from] {
				continue
			}
			paid[from] = true
			// 50..97 % of what the payer holds at the head
			bal := account.NewManager(cl.Head.Hash(), cl.Nodes[0].DB).GetAccount(U[from].Addr).GetBalance()
			amt := new(big.Int).Div(new(big.Int).Mul(bal, big.NewInt(int64(r.Range(50, 97)))), big.NewInt(100))
			if amt.Sign() <= 0 {
				continue
			}
			cs = append(cs, g.C(g.B.Transfer(U[from], U[to].Addr, amt, exp()), "transfer-large", "any"))
			shape += "pay,"
			if r.Chance(2, 3) {
				// the payer votes after paying, preferably for the candidate the receiver votes for
				ci := r.Intn(2)
				if v, ok := votes[to]; ok && r.Chance(3, 4) {
					ci = v
				}
				votes[from] = ci
				cs = append(cs, g.C(g.B.Vote(U[from], cand[ci].Addr, exp()), "vote-after-paying", "any"))
				shape += "vote,"
			}
			if _, ok := votes[to]; !ok && r.Chance(1, 2) {
				votes[to] = r.Intn(2)
				cs = append(cs, g.C(g.B.Vote(U[to], cand[votes[to]].Addr, exp()), "vote-after-receiving", "any"))
				shape += "rvote,"
			}
		}
		if len(cs) == 0 {
			continue
		}
		if step(cs, shape) == nil {
			return
		}
	}
}

// slowContracts: the miner has only a few milliseconds left for packaging while a contract call runs for much longer.
// Whatever the miner packages under that pressure (which transactions is its policy), it executed completely: every
// validator, which has all the time it needs, accepts the block.
func slowContracts(c *run.Ctx, idx int) {
	r := run.NewRng(c.Seed, 12, uint64(idx))
	cl := scn.NewCluster(r, fx.WorldCfg{Deputies: 1 + idx%3, Users: 6, SlotMs: 3000}, 3, scn.DefaultCfg())
	defer cl.Close()
	g := cl.G
	t := cl.NextTime()
	c.WAL(map[string]interface{}{"slow": idx, "seed": c.Seed})
	blk := checkStep(c, cl, t, g.Setup(t), false)
	if blk == nil {
		return
	}
	cl.Adopt(blk)
	cl.StabiliseAll()
	loop := g.ByKind("loop")
	store := g.ByKind("storefix")
	U := cl.W.Users
	for bi := 0; bi < 3; bi++ {
		t = cl.NextTime()
		exp := uint64(t) + 600
		var cands []scn.Cand
		switch bi {
		case 0:
			cands = []scn.Cand{g.C(g.B.Call(U[1], loop, big.NewInt(0), uint64(r.Range(20, 60))*1000000, nil, exp), "call-loop-long", "any"), g.C(g.B.Transfer(U[2], U[3].Addr, fx.LEMO(1), exp+1), "transfer", "any")}
		case 1:
			cands = []scn.Cand{g.C(g.B.Call(U[2], store, big.NewInt(0), 200000, nil, exp), "call-store", "any"), g.C(g.B.Call(U[3], loop, fx.LEMO(1), uint64(r.Range(20, 60))*1000000, nil, exp+1), "call-loop-long-with-value", "any")}
		default:
			cands = []scn.Cand{g.C(g.B.Box(U[4], types.Transactions{g.B.Call(U[1], store, big.NewInt(0), 200000, nil, exp+5), g.B.Call(U[2], loop, big.NewInt(0), uint64(r.Range(20, 40))*1000000, nil, exp+6)}, exp), "box-with-long-loop", "any")}
		}
		A := cl.Nodes[0]
		A.MineTimeoutMs = int64(r.Range(3, 25))
		t0 := time.Now()
		res, err := A.Mine(cl.Head, t, scn.Txs(cands), "")
		A.MineTimeoutMs = 0
		if err != nil {
			c.Note("slow-contract scenario: mining failed: " + err.Error())
			return
		}
		c.Stat("blocks_mined_under_time_pressure", 1)
		c.Stat("txs_packaged_under_time_pressure", int64(len(res.Block.Txs)))
		if time.Since(t0) > 40*time.Millisecond {
			c.Stat("packaging_outlasted_the_miner_window", 1)
		}
		if _, err := fx.WireE(res.Block, true); err != nil {
			return
		}
		for i, e := range cl.InsertAll(res.Block) {
			if e != nil {
				c.Violation("C01/honest-block-rejected:"+e.Error(), fmt.Sprintf("node %d rejects a block the honest miner path produced with %d ms left for packaging (height %d, %d of %d candidates packaged): %v", i, A.MineTimeoutMs, res.Block.Height(), len(res.Block.Txs), len(cands), e), cl.Witness(t, cands, "mined under time pressure"))
				return
			}
		}
		c.Case(fmt.Sprintf("slow d%d b%d packaged%d", 1+idx%3, bi, len(res.Block.Txs)), len(res.Block.Txs) > 0, map[string]interface{}{"slow": idx, "block": bi, "packaged": len(res.Block.Txs)})
		cl.Adopt(res.Block)
		cl.StabiliseAll()
	}
}

func runAll(c *run.Ctx) {
	fx.Quiet()
	scn.SetParams()
	if c.Batch == 0 {
		fixedScenarios(c)
	}
	n := c.Pick(64, 1600)
	lo, hi := c.Share(n)
	for i := lo; i < hi; i++ {
		if only := os.Getenv("C01_ONLY"); only != "" && only != fmt.Sprint(i) {
			continue
		}
		scenario(c, i)
		if i%4 == 1 {
			voteFlow(c, i)
		}
		if i%8 == 3 {
			slowContracts(c, i)
		}
	}
}

func replay(c *run.Ctx, raw json.RawMessage) {
	fx.Quiet()
	scn.SetParams()
	var w scn.Witness
	if err := json.Unmarshal(raw, &w); err != nil {
		c.Inconclusive("bad witness: " + err.Error())
		return
	}
	cl, cands, err := scn.Rebuild(&w)
	defer cl.Close()
	if err != nil {
		c.Inconclusive(err.Error())
		return
	}
	cl.T = w.Time
	checkStep(c, cl, w.Time, cands, false)
	c.Case("replay", true, nil)
}

func main() { run.Main(run.Engine{Batches: batches, Run: runAll, Replay: replay}) }
