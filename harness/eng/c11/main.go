// C11 — vote tallies. Reference-tally monitor: after every accepted block the vote count of
// every account with a candidate profile is compared with the statement's formula computed
// from the whole account universe; a second model carries exactly the known deviation.
package main

import (
	"encoding/json"
	"fmt"

	"github.com/LemoFoundationLtd/lemochain-core/chain/account"
	"github.com/LemoFoundationLtd/lemochain-core/chain/deputynode"
	"github.com/LemoFoundationLtd/lemochain-core/chain/params"
	"github.com/LemoFoundationLtd/lemochain-core/chain/types"

	"verif/fx"
	"verif/fx/run"
	"verif/mon"
	"verif/scn"
)

func batches(tier string) int { return 16 }

func checkStep(c *run.Ctx, cl *scn.Cluster, vm *mon.VoteMonitor, t uint32, cands []scn.Cand) *types.Block {
	A := cl.Nodes[0]
	parent := cl.Head
	viol := func(class, msg string) { c.Violation("C11/"+class, msg, cl.Witness(t, cands, msg)) }
	full, err := A.Mine(parent, t, scn.Txs(cands), "")
	if err != nil {
		c.Note("mine failed: " + err.Error())
		return nil
	}
	blk := full.Block
	cl.G.U.Block(blk)
	inc := scn.Included(blk)
	var survivors []scn.Cand
	for _, cd := range cands {
		if inc[cd.Tx.Hash()] {
			survivors = append(survivors, cd)
		}
	}
	infos := mon.VoteInfos(A, parent, t, survivors, func() { c.Stat("prefix_executions", 1) })
	c.Stat("vote_txs", int64(len(infos)))
	start := mon.ReadVoteState(account.NewManager(parent.Hash(), A.DB), cl.G.U) // before insertion, see C12
	for i, e := range cl.InsertAll(blk) {
		if e != nil {
			c.Stat("block_rejected", 1)
			c.Note(fmt.Sprintf("node %d rejected the mined block (C01's domain): %v", i, e))
			return nil
		}
	}
	end := mon.ReadVoteState(account.NewManager(blk.Hash(), A.DB), cl.G.U)
	trigger := vm.PreBlock(start, end, infos)
	if trigger {
		c.Stat("boundary_crossing_before_vote", 1)
	}
	ncand := 0
	for range end.IsCand {
		ncand++
	}
	c.Stat("candidate_tallies_compared", int64(len(end.HasProf)))
	c.Stat("registered_candidates_seen", int64(ncand))
	for _, v := range vm.Check(end) {
		if v.Known && !trigger {
			// drift left behind by an earlier block of this scenario: already reported there
			c.Stat("tallies_explained_by_earlier_drift", 1)
			continue
		}
		viol(v.Class, v.Msg)
	}
	c.Stat("blocks_checked", 1)
	return blk
}

func scenario(c *run.Ctx, idx int, fixed bool) {
	r := run.NewRng(c.Seed, 11, uint64(idx))
	if fixed {
		r = run.NewRng(5, 11, uint64(idx))
	}
	nDep := 2 + idx%3
	gcfg := scn.Cfg{Users: 10, RandomCode: false, Votes: true, Assets: false, Boxes: false, Multisig: false, Discards: true, Mode: "votes", DedicatedIncome: true}
	cl := scn.NewCluster(r, fx.WorldCfg{Deputies: nDep, Users: 10, SlotMs: uint64(1000 * r.Range(2, 6))}, 2, gcfg)
	defer cl.Close()
	vm := mon.NewVoteMonitor()
	nBlocks := r.Range(8, 14)
	if idx%3 == 0 {
		nBlocks = scn.Term + scn.Interim + 4
	}
	for bi := 0; bi < nBlocks; bi++ {
		t := cl.NextTime()
		h := cl.Head.Height() + 1
		var cands []scn.Cand
		switch {
		case bi == 0:
			cands = cl.G.Setup(t)
		case bi == 1:
			cands = cl.G.Setup2(t)
		case cl.IsSnapshotNext():
			cands = nil
		case fixed && bi == 2:
			u1, u2 := cl.W.Users[1], cl.W.Users[2]
			cands = []scn.Cand{cl.G.C(cl.G.B.Vote(u1, cl.W.Deputies[0].Addr, uint64(t)+900), "vote", "ok")}
			_ = u2
		case fixed && bi == 3:
			// receive 1000 LEMO, then re-vote in the same block
			u1, u2 := cl.W.Users[1], cl.W.Users[2]
			cands = []scn.Cand{cl.G.C(cl.G.B.Transfer(u2, u1.Addr, fx.LEMO(1000), uint64(t)+900), "transfer", "ok"),
				cl.G.C(cl.G.B.Vote(u1, cl.W.Deputies[1].Addr, uint64(t)+901), "vote", "ok")}
		default:
			cands = cl.G.Next(t, h, r.Range(3, 9))
			if deputynode.IsRewardBlock(h) {
				// the balance a vote tx sees cannot be reconstructed from prefix executions at a reward block (refunds are paid in Finalize): no vote txs here
				var keep []scn.Cand
				for _, cd := range cands {
					if cd.Tx.Type() != params.VoteTx {
						keep = append(keep, cd)
					}
				}
				cands = keep
			}
		}
		c.WAL(map[string]interface{}{"scenario": idx, "block": bi, "seed": c.Seed, "fixed": fixed})
		blk := checkStep(c, cl, vm, t, cands)
		if blk == nil {
			break
		}
		shape := ""
		nv := 0
		for _, cd := range cands {
			shape += cd.Kind + ","
		}
		for _, tx := range blk.Txs {
			if tx.Type() == params.VoteTx || tx.Type() == params.RegisterTx {
				nv++
			}
		}
		c.Case(fmt.Sprintf("d%d h%d %s", nDep, blk.Height(), shape), nv >= 1 && len(blk.Txs) >= 3,
			map[string]interface{}{"scenario": idx, "height": blk.Height(), "candidates": shape, "included": len(blk.Txs)})
		cl.Adopt(blk)
		if cl.MustStabiliseSoon() || r.Chance(1, 2) {
			if !cl.StabiliseAll() {
				c.Stat("scenario_stuck_unstabilisable", 1)
				break
			}
		}
	}
}

func runAll(c *run.Ctx) {
	fx.Quiet()
	scn.SetParams()
	if c.Batch == 0 {
		scenario(c, 0, true)
	}
	n := c.Pick(96, 2400)
	lo, hi := c.Share(n)
	for i := lo; i < hi; i++ {
		scenario(c, i, false)
	}
}

func replay(c *run.Ctx, raw json.RawMessage) {
	fx.Quiet()
	scn.SetParams()
	var w scn.Witness
	if err := json.Unmarshal(raw, &w); err != nil {
		c.Inconclusive("bad witness: " + err.Error())
		return
	}
	cl, cands, err := scn.Rebuild(&w)
	defer cl.Close()
	if err != nil {
		c.Inconclusive(err.Error())
		return
	}
	// the drift model starts empty at the replayed step: a mismatch that needs earlier drift shows as the raw formula mismatch
	checkStep(c, cl, mon.NewVoteMonitor(), w.Time, cands)
	c.Case("replay", true, nil)
}

func main() { run.Main(run.Engine{Batches: batches, Run: runAll, Replay: replay}) }
