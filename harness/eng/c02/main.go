// C02 — block acceptance is sound. Mutation monitor: valid blocks produced by the honest
// miner path are corrupted in every header and body field (with and without re-signing by
// the rightful deputy, another deputy or an outsider, singly and in pairs) and offered to a
// victim node; whatever it accepts must satisfy a validity predicate written from the
// statement, whatever it rejects must leave every observable chain state untouched.
package main

import (
	"bytes"
	"crypto/sha256"
	"encoding/hex"
	"encoding/json"
	"fmt"
	"sort"
	"strings"
	"time"

	"github.com/LemoFoundationLtd/lemochain-core/chain/deputynode"
	"github.com/LemoFoundationLtd/lemochain-core/chain/params"
	"github.com/LemoFoundationLtd/lemochain-core/chain/types"
	"github.com/LemoFoundationLtd/lemochain-core/common"
	"github.com/LemoFoundationLtd/lemochain-core/common/rlp"

	"verif/fx"
	"verif/fx/run"
	"verif/scn"
)

func batches(tier string) int { return 16 }

type mutant struct {
	Name string
	B    *types.Block
}

func clone(b *types.Block) *types.Block { return fx.Wire(b, true) }

type mctx struct {
	cl       *scn.Cluster
	r        *run.Rng
	base     *types.Block
	parent   *types.Block
	rightful fx.Key
	other    fx.Key // another deputy
	hasOther bool
	oldestTx *types.Transaction
	branch   map[common.Hash]bool // tx hashes on the ancestor path of base (excluding base)
	oldTx    *types.Transaction   // a tx from an ancestor (replay material)
}

type signer struct {
	name string
	key  *fx.Key // nil = keep the old signature
}

func (m *mctx) signers() []signer {
	out := []signer{{"unsigned", nil}, {"rightful", &m.rightful}, {"outsider", &m.cl.W.Outsider}}
	if m.hasOther {
		out = append(out, signer{"other-deputy", &m.other})
	}
	return out
}

func flip(h common.Hash) common.Hash { h[7] ^= 0x40; return h }

// headerOps are single-field corruptions of hashed header fields.
func (m *mctx) headerOps() map[string]func(h *types.Header) {
	slot := uint32(m.cl.W.SlotMs / 1000)
	gp := common.Hash{}
	if len(m.cl.Chain) >= 2 {
		gp = m.cl.Chain[len(m.cl.Chain)-2].ParentHash()
	}
	now := uint32(time.Now().Unix())
	ops := map[string]func(h *types.Header){
		"parent-zero":        func(h *types.Header) { h.ParentHash = common.Hash{} },
		"parent-grandparent": func(h *types.Header) { h.ParentHash = gp },
		"parent-random":      func(h *types.Header) { h.ParentHash = common.BytesToHash(m.r.Bytes(32)) },
		"parent-self":        func(h *types.Header) { h.ParentHash = m.base.Hash() },
		"miner-outsider":     func(h *types.Header) { h.MinerAddress = m.cl.W.Outsider.Addr },
		"miner-zero":         func(h *types.Header) { h.MinerAddress = common.Address{} },
		"versionroot-flip":   func(h *types.Header) { h.VersionRoot = flip(h.VersionRoot) },
		"versionroot-parent": func(h *types.Header) { h.VersionRoot = m.parent.Header.VersionRoot },
		"txroot-flip":        func(h *types.Header) { h.TxRoot = flip(h.TxRoot) },
		"txroot-empty":       func(h *types.Header) { h.TxRoot = (types.Transactions{}).MerkleRootSha() },
		"logroot-flip":       func(h *types.Header) { h.LogRoot = flip(h.LogRoot) },
		"logroot-zero":       func(h *types.Header) { h.LogRoot = common.Hash{} },
		"height-plus1":       func(h *types.Header) { h.Height++ },
		"height-minus1":      func(h *types.Header) { h.Height-- },
		"height-zero":        func(h *types.Header) { h.Height = 0 },
		"gaslimit-plus1":     func(h *types.Header) { h.GasLimit++ },
		"gaslimit-zero":      func(h *types.Header) { h.GasLimit = 0 },
		"gaslimit-huge":      func(h *types.Header) { h.GasLimit = 1 << 62 },
		"gasused-plus1":      func(h *types.Header) { h.GasUsed++ },
		"gasused-zero":       func(h *types.Header) { h.GasUsed = 0 },
		"time-before-parent": func(h *types.Header) { h.Time = m.parent.Time() - 1 },
		"time-future":        func(h *types.Header) { h.Time = now + 5 },
		"time-far-future":    func(h *types.Header) { h.Time = now + 100000 },
		"time-next-slot":     func(h *types.Header) { h.Time += slot },
		"time-prev-slot":     func(h *types.Header) { h.Time -= slot },
		"time-plus1":         func(h *types.Header) { h.Time++ },
		"deputyroot-garbage": func(h *types.Header) { h.DeputyRoot = m.r.Bytes(32) },
		"deputyroot-long":    func(h *types.Header) { h.DeputyRoot = m.r.Bytes(100) },
		"extra-257":          func(h *types.Header) { h.Extra = strings.Repeat("x", 257) },
		"extra-256":          func(h *types.Header) { h.Extra = strings.Repeat("y", 256) },
		"extra-other":        func(h *types.Header) { h.Extra = "other" },
		// the bound is in bytes: well-formed multi-byte text of few characters
		"extra-258-bytes-in-86-chars":  func(h *types.Header) { h.Extra = strings.Repeat("\u77ff", 86) },
		"extra-768-bytes-in-256-chars": func(h *types.Header) { h.Extra = strings.Repeat("\u77ff", 256) },
		"extra-255-bytes-in-85-chars":  func(h *types.Header) { h.Extra = strings.Repeat("\u77ff", 85) },
		"extra-257-bytes-invalid-utf8": func(h *types.Header) { h.Extra = strings.Repeat("\xff", 257) },
	}
	if m.hasOther {
		ops["miner-other-deputy"] = func(h *types.Header) { h.MinerAddress = m.other.Addr }
	}
	if len(m.cl.Chain) >= 2 {
		ob := m.cl.Chain[len(m.cl.Chain)-2]
		ops["versionroot-other-block"] = func(h *types.Header) { h.VersionRoot = ob.Header.VersionRoot }
		ops["logroot-other-block"] = func(h *types.Header) { h.LogRoot = ob.Header.LogRoot }
	}
	return ops
}

func sortedNames(m map[string]func(h *types.Header)) []string {
	ks := make([]string, 0, len(m))
	for k := range m {
		ks = append(ks, k)
	}
	sort.Strings(ks)
	return ks
}

func (m *mctx) mutants(pairs int) []mutant {
	var out []mutant
	add := func(name string, b *types.Block) { out = append(out, mutant{name, b}) }
	ops := m.headerOps()
	names := sortedNames(ops)
	resign := func(b *types.Block, s signer) {
		if s.key != nil {
			fx.Resign(b, *s.key)
		}
	}
	for _, n := range names {
		for _, s := range m.signers() {
			b := clone(m.base)
			ops[n](b.Header)
			resign(b, s)
			add("hdr:"+n+"/"+s.name, b)
		}
	}
	// pairs of header corruptions, re-signed by the rightful deputy
	for i := 0; i < pairs; i++ {
		a, c := names[m.r.Intn(len(names))], names[m.r.Intn(len(names))]
		if a == c {
			continue
		}
		b := clone(m.base)
		ops[a](b.Header)
		ops[c](b.Header)
		s := m.signers()[m.r.Intn(len(m.signers()))]
		resign(b, s)
		add("hdr2:"+a+"+"+c+"/"+s.name, b)
	}
	// signature corruptions
	{
		b := clone(m.base)
		b.Header.SignData[10] ^= 1
		add("sig:bitflip", b)
		b = clone(m.base)
		b.Header.SignData = b.Header.SignData[:40]
		add("sig:truncated", b)
		b = clone(m.base)
		b.Header.SignData = nil
		add("sig:nil", b)
		b = clone(m.base)
		b.Header.SignData = fx.HighS(b.Header.SignData)
		add("sig:high-s-twin", b)
		b = clone(m.base)
		fx.Resign(b, m.cl.W.Outsider)
		add("sig:outsider", b)
		if m.hasOther {
			b = clone(m.base)
			fx.Resign(b, m.other)
			add("sig:other-deputy", b)
		}
	}
	// body corruptions without touching the header
	if len(m.base.Txs) > 0 {
		b := clone(m.base)
		b.Txs = b.Txs[1:]
		add("body:drop-tx", b)
		b = clone(m.base)
		b.Txs = append(b.Txs, b.Txs[0])
		add("body:duplicate-tx", b)
		if len(m.base.Txs) > 1 {
			b = clone(m.base)
			b.Txs[0], b.Txs[1] = b.Txs[1], b.Txs[0]
			add("body:swap-txs", b)
		}
		b = clone(m.base)
		f := fx.Fields(b.Txs[0])
		f.GasUsed++
		b.Txs[0] = f.MustTx()
		add("body:tx-gasused-plus1", b)
		b = clone(m.base)
		f = fx.Fields(b.Txs[0])
		f.GasLimit++
		b.Txs[0] = f.MustTx()
		add("body:tx-field-tampered", b)
	}
	if len(m.base.ChangeLogs) > 1 {
		b := clone(m.base)
		b.ChangeLogs = b.ChangeLogs[1:]
		add("body:logs-truncated", b)
		b = clone(m.base)
		b.ChangeLogs[0], b.ChangeLogs[1] = b.ChangeLogs[1], b.ChangeLogs[0]
		add("body:logs-reordered", b)
		b = clone(m.base)
		b.ChangeLogs[0].Version += 7
		add("body:log-tampered", b)
	}
	{
		b := clone(m.base)
		b.ChangeLogs = nil
		add("body:logs-nil", b)
		b = clone(m.base)
		b.DeputyNodes = types.DeputyNodes{{MinerAddress: m.cl.W.Outsider.Addr, NodeID: m.cl.W.Outsider.NodeID, Rank: 0, Votes: fx.LEMO(1)}}
		add("body:deputynodes-garbage", b)
		if deputynode.IsSnapshotBlock(m.base.Height()) && len(m.base.DeputyNodes) > 0 {
			b = clone(m.base)
			b.DeputyNodes[0].Votes = fx.LEMO(7)
			add("body:snapshot-deputy-votes-tampered", b)
			b = clone(m.base)
			b.DeputyNodes = nil
			add("body:snapshot-deputynodes-nil", b)
		}
		b = clone(m.base)
		b.Confirms = []types.SignData{fx.SignBlock(b.Hash(), m.cl.W.Outsider), types.BytesToSignData(m.r.Bytes(65)), fx.SignBlock(common.Hash{}, m.rightful)}
		add("body:garbage-confirms", b)
	}
	// consistent re-mining by the rightful deputy with a manipulated transaction list
	remine := func(name string, txs types.Transactions) {
		res, err := m.cl.Nodes[1].Mine(m.parent, m.base.Time(), txs, "byz")
		if err != nil || res.Block == nil {
			return
		}
		add("remine:"+name, res.Block)
	}
	// the base block's transactions mined again in later slots, by whichever deputy the repository's schedule puts in
	// turn there (up to two rounds behind the parent): the predicate judges the signer with its own slot rule
	{
		slot := uint32(m.cl.W.SlotMs / 1000)
		nd := len(m.cl.Nodes[0].DM.GetDeputiesByHeight(m.base.Height(), true))
		for k := 1; k <= 2*nd+1; k++ {
			if k > 3 && !m.r.Chance(1, 2) {
				continue
			}
			lt := m.parent.Time() + uint32(k)*slot + uint32(m.r.Intn(int(slot)))
			if int64(lt) > time.Now().Unix() {
				continue
			}
			var keep types.Transactions
			for _, tx := range m.base.Txs {
				if tx.Expiration() >= uint64(lt) {
					keep = append(keep, tx)
				}
			}
			res, err := m.cl.Nodes[1].Mine(m.parent, lt, fx.CloneTxs(keep), "late")
			if err != nil {
				continue
			}
			add(fmt.Sprintf("remine:slot-%d-of-%d", k, nd), res.Block)
		}
	}
	u1, u2 := m.cl.W.Users[1], m.cl.W.Users[2]
	B := m.cl.G.B
	bt := uint64(m.base.Time())
	remine("other-valid-txs", types.Transactions{B.Transfer(u1, u2.Addr, fx.LEMO(1), bt+100)})
	remine("expired-tx", types.Transactions{B.Transfer(u1, u2.Addr, fx.LEMO(1), bt-1)})
	remine("expiry-too-far", types.Transactions{B.Transfer(u1, u2.Addr, fx.LEMO(1), bt+uint64(params.MaxTxLifeTime)+5)})
	remine("expiry-at-limit", types.Transactions{B.Transfer(u1, u2.Addr, fx.LEMO(1), bt+uint64(params.MaxTxLifeTime))})
	{
		tx := B.Transfer(u1, u2.Addr, fx.LEMO(1), bt+50)
		remine("duplicate-in-block", types.Transactions{tx, tx})
		f := fx.Fields(B.Unsigned(params.OrdinaryTx, u1.Addr, &u2.Addr, fx.LEMO(1), 100000, nil, bt+60))
		f.ChainID = 7
		remine("wrong-chain-id", types.Transactions{fx.Sign(f.MustTx(), u1)})
		f = fx.Fields(B.Unsigned(params.OrdinaryTx, u1.Addr, nil, fx.LEMO(1), 100000, nil, bt+60))
		remine("ordinary-without-recipient", types.Transactions{fx.Sign(f.MustTx(), u1)})
		sub := B.Transfer(u2, u1.Addr, fx.LEMO(1), bt+10)
		remine("box-expiring-after-subtx", types.Transactions{B.Box(u1, types.Transactions{sub}, bt+500)})
		inner := B.Box(u2, types.Transactions{B.Transfer(u2, u1.Addr, fx.LEMO(1), bt+700)}, bt+600)
		remine("box-in-box", types.Transactions{B.Box(u1, types.Transactions{inner}, bt+500)})
	}
	if m.oldestTx != nil && m.oldestTx != m.oldTx {
		// (as far back as the lifetime allows: empty blocks, a restart of the node may lie in between)
		remine("replay-oldest-ancestor-tx", types.Transactions{m.oldestTx})
	}
	if m.oldTx != nil {
		m.cl.G.U.Tx(m.oldTx)
		remine("replay-ancestor-tx", types.Transactions{m.oldTx})
		remine("box-with-ancestor-tx", types.Transactions{B.Box(u1, types.Transactions{m.oldTx}, m.oldTx.Expiration())})
	}
	return out
}

// digest is every observable piece of chain state the statement names.
func digest(n *fx.Node, u *fx.Universe, offered []common.Hash, sample types.Transactions) string {
	h := sha256.New()
	cur, st := n.BC.CurrentBlock(), n.BC.StableBlock()
	fmt.Fprintf(h, "cur=%x st=%x|", cur.Hash(), st.Hash())
	for _, o := range offered {
		fmt.Fprintf(h, "%v", n.BC.HasBlock(o))
	}
	var un []string
	n.DB.IterateUnConfirms(func(b *types.Block) { un = append(un, b.Hash().Hex()) })
	sort.Strings(un)
	fmt.Fprintf(h, "|%v|", un)
	obs := fx.ObserveAt(n.DB, cur.Hash(), u, fx.ObsOpts{Roots: true, Versions: true})
	keys := make([]string, 0, len(obs))
	for k := range obs {
		keys = append(keys, k)
	}
	sort.Strings(keys)
	for _, k := range keys {
		fmt.Fprintf(h, "%s=%s;", k, obs[k])
	}
	var pool []string
	for _, tx := range n.Pool.GetTxs(0, 100000) {
		pool = append(pool, tx.Hash().Hex())
	}
	sort.Strings(pool)
	fmt.Fprintf(h, "|pool=%v|", pool)
	for _, tx := range sample {
		fmt.Fprintf(h, "%v", n.BC.TxGuard().ExistTx(cur.Hash(), tx))
	}
	fmt.Fprintf(h, "|top=%s", fx.TopStr(n.DB, cur.Hash()))
	return hex.EncodeToString(h.Sum(nil))
}

// specInTurn is the slot rule written from the statement, from the term's deputy list alone (not the repository's
// schedule code, which the harness miner uses to choose the signer): slots of one mine-timeout rotate through the
// deputies of the block's term in rank order, starting behind the parent's miner - or at rank 0 for height 1 and for
// the first block a new term signs.
func (m *mctx) specInTurn(parent *types.Block, t uint32) (fx.Key, error) {
	V := m.cl.Nodes[0]
	h := parent.Height() + 1
	deps := V.DM.GetDeputiesByHeight(h, true)
	n := int64(len(deps))
	if n == 0 {
		return fx.Key{}, fmt.Errorf("no deputies for height %d", h)
	}
	pass := (int64(t) - int64(parent.Time())) * 1000
	if pass < 0 {
		return fx.Key{}, fmt.Errorf("before the parent")
	}
	s := (pass / int64(m.cl.W.SlotMs)) % n
	rank := int64(-1)
	firstOfTerm := h >= params.TermDuration+params.InterimDuration+1 && h%params.TermDuration == params.InterimDuration+1
	if h != 1 && !firstOfTerm {
		for i, d := range deps {
			if d.MinerAddress == parent.MinerAddress() {
				rank = int64(i)
			}
		}
		if rank < 0 {
			return fx.Key{}, fmt.Errorf("the parent's miner is no deputy of the term")
		}
	}
	a := deps[(rank+1+s)%n].MinerAddress
	k, ok := m.cl.W.DeputyByAddr(a)
	if !ok {
		return fx.Key{}, fmt.Errorf("in-turn miner %s is not a world deputy", a.String())
	}
	return k, nil
}

// valid is the validity predicate written from the statement; it returns "" or the clause that fails.
func (m *mctx) valid(b *types.Block, known func(common.Hash) *types.Block) string {
	parent := known(b.ParentHash())
	if parent == nil {
		return "parent-unknown"
	}
	if b.Height() != parent.Height()+1 {
		return "height-not-parent-plus-1"
	}
	if b.Time() < parent.Time() {
		return "time-before-parent"
	}
	if int64(b.Time()) > time.Now().Unix()+1 {
		return "time-in-future"
	}
	if len(b.Extra()) > 256 {
		return "extra-too-long"
	}
	id, err := b.SignerNodeID()
	if err != nil {
		return "signature-unrecoverable"
	}
	inTurn, err := m.specInTurn(parent, b.Time())
	if err != nil {
		return "no-in-turn-deputy"
	}
	if !bytes.Equal(id, inTurn.NodeID) {
		return "not-signed-by-in-turn-deputy"
	}
	if b.MinerAddress() != inTurn.Addr {
		return "miner-address-not-in-turn-deputy"
	}
	seen := map[common.Hash]bool{}
	var checkTx func(tx *types.Transaction, box bool) string
	checkTx = func(tx *types.Transaction, box bool) string {
		if seen[tx.Hash()] {
			return "duplicate-tx-in-block"
		}
		seen[tx.Hash()] = true
		if m.onBranch(b.ParentHash(), tx.Hash(), known) {
			return "tx-replayed-from-ancestor"
		}
		if tx.Expiration() < uint64(b.Time()) {
			return "tx-expired"
		}
		if tx.Expiration()-uint64(b.Time()) > uint64(params.MaxTxLifeTime) {
			return "tx-expiry-too-far"
		}
		if tx.ChainID() != m.cl.W.ChainID {
			return "tx-wrong-chain-id"
		}
		if !types.IsToExist(tx.Type(), tx.To()) {
			return "tx-malformed-recipient"
		}
		if tx.Type() == params.BoxTx {
			if box {
				return "box-in-box"
			}
			bx, err := types.GetBox(tx.Data())
			if err != nil {
				return "box-malformed"
			}
			for _, s := range bx.SubTxList {
				if s.Expiration() < tx.Expiration() {
					return "box-outlives-subtx"
				}
				if r := checkTx(s, true); r != "" {
					return r
				}
			}
		}
		return ""
	}
	for _, tx := range b.Txs {
		if r := checkTx(tx, false); r != "" {
			return r
		}
	}
	// re-execution by the honest miner path with the same miner-chosen fields
	res, err := m.cl.Nodes[1].MineH(parent, b.Time(), b.Txs, b.Extra(), func(h *types.Header) {
		h.GasLimit = b.GasLimit()
		if !deputynode.IsSnapshotBlock(b.Height()) {
			h.DeputyRoot = b.DeputyRoot()
		}
	})
	if err != nil {
		return "honest-reexecution-fails"
	}
	if len(res.Block.Txs) != len(b.Txs) {
		return "contains-tx-an-honest-execution-discards"
	}
	if res.Block.Hash() != b.Hash() {
		hb := res.Block.Header
		switch {
		case hb.VersionRoot != b.Header.VersionRoot:
			return "version-root-not-reproduced"
		case hb.LogRoot != b.Header.LogRoot:
			return "log-root-not-reproduced"
		case hb.TxRoot != b.Header.TxRoot:
			return "tx-root-not-reproduced"
		case hb.GasUsed != b.Header.GasUsed:
			return "gas-used-not-reproduced"
		case !bytes.Equal(hb.DeputyRoot, b.Header.DeputyRoot):
			return "deputy-root-not-reproduced"
		}
		return "hash-not-reproduced"
	}
	if len(b.ChangeLogs) > 0 && b.ChangeLogs.MerkleRootSha() != b.LogRoot() {
		return "body-logs-disagree-with-log-root"
	}
	if deputynode.IsSnapshotBlock(b.Height()) {
		r := b.DeputyNodes.MerkleRootSha()
		if !bytes.Equal(r[:], b.DeputyRoot()) {
			return "body-deputies-disagree-with-deputy-root"
		}
	}
	return ""
}

func (m *mctx) onBranch(from common.Hash, tx common.Hash, known func(common.Hash) *types.Block) bool {
	for b := known(from); b != nil && b.Height() > 0; b = known(b.ParentHash()) {
		for _, t := range b.Txs {
			if t.Hash() == tx {
				return true
			}
			if t.Type() == params.BoxTx {
				if bx, err := types.GetBox(t.Data()); err == nil {
					for _, s := range bx.SubTxList {
						if s.Hash() == tx {
							return true
						}
					}
				}
			}
		}
	}
	return false
}

type witness struct {
	Scn    *scn.Witness
	Mutant string // RLP hex of the offered block
	Name   string
}

func scenario(c *run.Ctx, idx int) {
	r := run.NewRng(c.Seed, 2, uint64(idx))
	nDep := 2 + idx%3
	wcfg := fx.WorldCfg{Deputies: nDep, Users: 8, SlotMs: uint64(1000 * r.Range(3, 8))}
	// every eighth scenario crosses a term change at which the deputy set grows (the nodes are configured for more
	// deputies than genesis has, users register as candidates) and mutates the first blocks the new term signs
	growth := idx%8 == 4
	if growth {
		wcfg.DeputyCap = nDep + 2
	}
	cl := scn.NewCluster(r, wcfg, 2, scn.Cfg{Users: 8, RandomCode: false, Votes: true, Assets: false, Boxes: true, Multisig: false, Discards: false})
	defer cl.Close()
	V := cl.Nodes[0]
	everything := map[common.Hash]*types.Block{}
	g0 := V.BC.Genesis()
	everything[g0.Hash()] = g0
	known := func(h common.Hash) *types.Block {
		if b, ok := everything[h]; ok && V.BC.HasBlock(h) {
			return b
		}
		return nil
	}
	var offered []common.Hash
	var sample types.Transactions
	nBlocks := r.Range(5, 9)
	if idx%4 == 0 {
		nBlocks = scn.Term + 2
	}
	if growth {
		nBlocks = scn.Term + scn.Interim + 3
	}
	for bi := 0; bi < nBlocks; bi++ {
		t := cl.NextTime()
		var cands []scn.Cand
		switch {
		case bi == 0:
			cands = cl.G.Setup(t)
		case bi == 1:
			cands = cl.G.Setup2(t)
		case cl.IsSnapshotNext():
			cands = nil
		default:
			cands = cl.G.Next(t, cl.Head.Height()+1, r.Range(2, 6))
		}
		if bi >= 3 && !growth && r.Chance(1, 5) {
			cands = nil // empty blocks belong to a chain too
		}
		if growth && bi == 2 {
			for u := 0; u < 2; u++ {
				k := cl.W.Users[u]
				if !cl.G.Cands[u] {
					cl.G.Cands[u] = true
					cands = append(cands, cl.G.C(cl.G.B.Register(k, fx.Profile(k, k.Addr, true, "growth"), params.MinCandidateDeposit, uint64(t)+800+uint64(u)), "register", "ok"))
				}
			}
		}
		if growth && cl.Head.Height() == params.TermDuration+params.InterimDuration {
			if got := V.DM.GetDeputiesCount(cl.Head.Height() + 1); got > nDep {
				c.Stat("scenarios_with_more_deputies_in_the_new_term", 1)
			} else {
				c.Stat("growth_not_effective", 1)
			}
		}
		parent := cl.Head
		res, err := cl.Nodes[1].Mine(parent, t, scn.Txs(cands), "")
		if err != nil {
			return
		}
		base := res.Block
		if _, err := fx.WireE(base, true); err != nil {
			// consequence of C11's known finding (negative vote count): the change logs of this honest block
			// cannot be encoded. Not a validation verdict; the scenario stops here (same rule as in C01).
			c.Stat("base_block_with_unencodable_logs", 1)
			c.Note("scenario stopped: change logs of an honest block cannot be encoded: " + err.Error())
			return
		}
		for i, e := range cl.InsertAll(base) {
			if e != nil {
				c.Note(fmt.Sprintf("node %d rejected the honest base block: %v", i, e))
				return
			}
		}
		everything[base.Hash()] = base
		cl.Adopt(base)
		offered = append(offered, base.Hash())
		if len(base.Txs) > 0 && len(sample) < 6 {
			sample = append(sample, base.Txs[0])
		}
		firstOfNewTerm := growth && base.Height() == params.TermDuration+params.InterimDuration+1
		if firstOfNewTerm {
			c.Stat("first_blocks_of_a_larger_term_mutated", 1)
		}
		if bi < 2 || (!c.Thorough() && bi%2 == 1 && !firstOfNewTerm) {
			// quick tier: every second base block is mutated
			if cl.MustStabiliseSoon() {
				if !cl.StabiliseAll() {
					return
				}
			}
			continue
		}
		m := &mctx{cl: cl, r: r, base: base, parent: parent}
		m.rightful, _ = cl.W.DeputyByAddr(base.MinerAddress())
		for _, dn := range V.DM.GetDeputiesByHeight(base.Height(), true) {
			if dn.MinerAddress != base.MinerAddress() {
				if k, ok := cl.W.DeputyByAddr(dn.MinerAddress); ok {
					m.other, m.hasOther = k, true
					break
				}
			}
		}
		for _, old := range cl.Chain[:len(cl.Chain)-1] {
			for _, otx := range old.Txs {
				// a plain transfer executes again if it is not recognised as a replay
				if otx.Type() == params.OrdinaryTx && len(otx.Data()) == 0 && otx.Expiration() >= uint64(base.Time()) && otx.Expiration()-uint64(base.Time()) <= uint64(params.MaxTxLifeTime) {
					m.oldTx = otx
					if m.oldestTx == nil {
						m.oldestTx = otx
					}
				}
			}
		}
		muts := m.mutants(c.Pick(8, 60))
		for _, mu := range muts {
			offered = append(offered, mu.B.Hash())
		}
		for _, mu := range muts {
			c.WAL(map[string]interface{}{"scenario": idx, "block": bi, "mutant": mu.Name, "seed": c.Seed})
			wit := func() interface{} {
				enc, _ := rlp.EncodeToBytes(mu.B)
				return witness{Scn: cl.Witness(t, cands, mu.Name), Mutant: hex.EncodeToString(enc), Name: mu.Name}
			}
			kind := mu.Name
			if i := strings.Index(kind, "/"); i >= 0 && strings.HasPrefix(kind, "hdr") {
				kind = kind[:i] + "/*"
			}
			before := digest(V, cl.G.U, offered, sample)
			err := V.Insert(mu.B, true)
			c.Stat("mutants_offered", 1)
			opName := mu.Name
			if strings.HasPrefix(opName, "hdr2:") {
				opName = "hdr2"
			}
			if err == nil {
				c.Stat("mutants_accepted", 1)
				c.Seen("accepted_mutant_kinds", opName)
				everything[mu.B.Hash()] = mu.B
				if why := m.valid(mu.B, known); why != "" {
					c.Violation("C02/invalid-block-accepted:"+why, fmt.Sprintf("mutant %s was accepted although the statement calls it invalid: %s", mu.Name, why), wit())
				} else {
					c.Stat("accepted_and_valid_by_predicate", 1)
				}
				// stored block: un-hashed parts must agree with the hashed roots
				st := V.BC.GetBlockByHash(mu.B.Hash())
				if st == nil {
					c.Violation("C02/accepted-block-not-stored", "accepted block cannot be read back by hash", wit())
				} else {
					if len(st.ChangeLogs) > 0 && st.ChangeLogs.MerkleRootSha() != st.LogRoot() {
						c.Violation("C02/stored-logs-disagree-with-log-root", "stored block's change logs do not hash to its LogRoot ("+mu.Name+")", wit())
					}
					for _, cf := range st.Confirms {
						id, e := cf.RecoverNodeID(st.Hash())
						if e != nil || V.DM.GetDeputyByNodeID(st.Height(), id) == nil {
							c.Violation("C02/stored-confirm-not-by-deputy", "stored block carries a confirm that does not recover to a deputy of its term ("+mu.Name+")", wit())
						}
					}
				}
			} else {
				after := digest(V, cl.G.U, offered, sample)
				c.Stat("rejections_digest_compared", 1)
				if before != after {
					c.Violation("C02/rejected-block-changed-state", fmt.Sprintf("rejecting mutant %s changed the node's observable state", mu.Name), wit())
				}
			}
			c.Case(fmt.Sprintf("d%d %s", nDep, kind), true, map[string]interface{}{"scenario": idx, "height": base.Height(), "mutant": mu.Name, "accepted": err == nil})
		}
		if cl.MustStabiliseSoon() || r.Chance(1, 3) {
			if !cl.StabiliseAll() {
				return
			}
			// the node under test restarts at a quiescent point: what it rebuilds from disk (the replay guard among it)
			// decides about the following mutants; its accounts are cold (read through from disk) from here on
			if bi >= 3 && r.Chance(1, 3) {
				V.Reopen()
				c.Stat("restarts_of_the_node_under_test", 1)
				st := V.BC.StableBlock().Height()
				for _, old := range cl.Chain {
					if old.Height() > st {
						if e := V.Insert(old, false); e != nil {
							c.Note("restarted node rejects a block it had accepted: " + e.Error())
							return
						}
					}
				}
			}
		}
	}
}

func runAll(c *run.Ctx) {
	fx.Quiet()
	scn.SetParams()
	n := c.Pick(16, 288)
	lo, hi := c.Share(n)
	for i := lo; i < hi; i++ {
		scenario(c, i)
	}
}

func replay(c *run.Ctx, raw json.RawMessage) {
	fx.Quiet()
	scn.SetParams()
	var w witness
	if err := json.Unmarshal(raw, &w); err != nil || w.Scn == nil {
		c.Inconclusive("bad witness")
		return
	}
	cl, cands, err := scn.Rebuild(w.Scn)
	defer cl.Close()
	if err != nil {
		c.Inconclusive(err.Error())
		return
	}
	// re-create the base block, then offer the recorded mutant
	parent := cl.Head
	res, err := cl.Nodes[1].Mine(parent, w.Scn.Time, scn.Txs(cands), "")
	if err != nil {
		c.Inconclusive(err.Error())
		return
	}
	cl.InsertAll(res.Block)
	cl.Adopt(res.Block)
	rawb, _ := hex.DecodeString(w.Mutant)
	mb := new(types.Block)
	if err := rlp.DecodeBytes(rawb, mb); err != nil {
		c.Inconclusive(err.Error())
		return
	}
	V := cl.Nodes[0]
	everything := map[common.Hash]*types.Block{V.BC.Genesis().Hash(): V.BC.Genesis()}
	for _, b := range cl.Chain {
		everything[b.Hash()] = b
	}
	known := func(h common.Hash) *types.Block {
		if b, ok := everything[h]; ok && V.BC.HasBlock(h) {
			return b
		}
		return nil
	}
	m := &mctx{cl: cl, r: run.NewRng(1), base: res.Block, parent: parent}
	before := digest(V, cl.G.U, []common.Hash{mb.Hash()}, nil)
	e := V.Insert(mb, true)
	if e == nil {
		everything[mb.Hash()] = mb
		if why := m.valid(mb, known); why != "" {
			c.Violation("C02/invalid-block-accepted:"+why, "replayed mutant "+w.Name+" accepted: "+why, w)
		}
	} else if digest(V, cl.G.U, []common.Hash{mb.Hash()}, nil) != before {
		c.Violation("C02/rejected-block-changed-state", "replayed mutant "+w.Name, w)
	}
	c.Case("replay", true, nil)
}

func main() { run.Main(run.Engine{Batches: batches, Run: runAll, Replay: replay}) }
