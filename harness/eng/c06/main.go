// C06 — only authorised transactions change state. Mutation monitor: valid transactions of
// plain, multi-signature, temp-address and gas-payer accounts are re-signed with every kind
// of wrong signature set and tampered field by field after signing; whatever the honest
// miner packages (and validators accept) must satisfy an authorisation predicate written
// from the statement and evaluated by the harness from recovered signers and the account's
// registered signer list.
package main

import (
	"encoding/hex"
	"encoding/json"
	"fmt"
	"math/big"
	"sort"

	"github.com/LemoFoundationLtd/lemochain-core/chain/account"
	"github.com/LemoFoundationLtd/lemochain-core/chain/params"
	"github.com/LemoFoundationLtd/lemochain-core/chain/types"
	"github.com/LemoFoundationLtd/lemochain-core/common"
	"github.com/LemoFoundationLtd/lemochain-core/common/crypto"
	"github.com/LemoFoundationLtd/lemochain-core/common/rlp"

	"verif/fx"
	"verif/fx/run"
	"verif/scn"
)

func batches(tier string) int { return 16 }

// recoverSet recovers the signers of a signature list over a hash; ok=false if any signature is unrecoverable.
func recoverSet(h common.Hash, sigs [][]byte) (addrs []common.Address, ok bool) {
	for _, s := range sigs {
		pub, err := crypto.Ecrecover(h[:], s)
		if err != nil || len(pub) == 0 || pub[0] != 4 {
			return nil, false
		}
		addrs = append(addrs, crypto.PubToAddress(pub))
	}
	return addrs, true
}

// authorised evaluates the statement for one party (sender or gas payer).
// It returns "" if the party authorised the content, else the reason.
func authorised(src fx.AccountSource, party common.Address, h common.Hash, sigs [][]byte) (reason string, repeated bool) {
	if len(sigs) == 0 {
		return "no-signature", false
	}
	addrs, ok := recoverSet(h, sigs)
	if !ok {
		return "unrecoverable-signature", false
	}
	distinct := map[common.Address]bool{}
	for _, a := range addrs {
		if distinct[a] {
			repeated = true
		}
		distinct[a] = true
	}
	reg := src.GetAccount(party).GetSigners()
	if len(reg) == 0 {
		if !distinct[party] {
			return "not-signed-by-own-key", repeated
		}
		return "", repeated
	}
	weights := map[common.Address]int{}
	for _, s := range reg {
		weights[s.Address] = int(s.Weight)
	}
	total, totalWithRepeats := 0, 0
	for a := range distinct {
		total += weights[a]
	}
	for _, a := range addrs {
		totalWithRepeats += weights[a]
	}
	if total < 100 {
		if totalWithRepeats >= 100 {
			return "weight-only-by-repeated-signature", repeated
		}
		return "insufficient-weight", repeated
	}
	return "", repeated
}

// judgeTx applies the predicate to a transaction that took effect.
func judgeTx(src fx.AccountSource, tx *types.Transaction) (class string, msg string) {
	from, payer := tx.From(), tx.GasPayer()
	reimb := len(tx.GasPayerSigs()) > 0
	var sh common.Hash
	if reimb {
		sh = types.MakeReimbursementTxSigner().Hash(tx)
	} else {
		sh = types.MakeSigner().Hash(tx)
	}
	r, rep := authorised(src, from, sh, tx.Sigs())
	kind := "plain"
	if len(src.GetAccount(from).GetSigners()) > 0 {
		kind = "multisig"
	}
	if r != "" {
		return "effective-without-sender-authorisation:" + kind + ":" + r, fmt.Sprintf("tx type %d from %s took effect: %s", tx.Type(), from.Hex(), r)
	}
	if rep {
		return "effective-with-repeated-signature:" + kind, fmt.Sprintf("tx type %d from %s took effect although one signer's signature is repeated", tx.Type(), from.Hex())
	}
	if reimb {
		ph := types.MakeGasPayerSigner().Hash(tx)
		pr, prep := authorised(src, payer, ph, tx.GasPayerSigs())
		pk := "plain"
		if len(src.GetAccount(payer).GetSigners()) > 0 {
			pk = "multisig"
		}
		if pr != "" {
			return "effective-without-payer-authorisation:" + pk + ":" + pr, fmt.Sprintf("gas of tx type %d charged to %s: %s", tx.Type(), payer.Hex(), pr)
		}
		if prep {
			return "effective-with-repeated-signature:payer-" + pk, "payer signature repeated"
		}
	} else if payer != from {
		return "effective-without-payer-authorisation:no-payer-signature", fmt.Sprintf("gas payer %s differs from sender but did not sign", payer.Hex())
	}
	return "", ""
}

type cand struct {
	tx     *types.Transaction
	kind   string // mutation operator (fingerprint)
	expect bool   // generator's expectation: authorised
	boxed  bool
	// a modify-signers transaction: the list it registers and for which account
	sets    types.Signers
	setsFor common.Address
}

type acct struct {
	addr    common.Address
	signers []fx.Key // registered signers (nil = plain, own key)
	weights []int
	own     fx.Key
}

func (a *acct) multisig() bool { return len(a.signers) > 0 }

// signWith signs tx as sender with the given keys using the right signer (default / reimbursement).
func signSender(tx *types.Transaction, reimb bool, keys ...fx.Key) *types.Transaction {
	for _, k := range keys {
		var err error
		if reimb {
			tx, err = types.MakeReimbursementTxSigner().SignTx(tx, k.Priv)
		} else {
			tx, err = types.MakeSigner().SignTx(tx, k.Priv)
		}
		if err != nil {
			panic(err)
		}
	}
	return tx
}

func signPayer(tx *types.Transaction, keys ...fx.Key) *types.Transaction {
	for _, k := range keys {
		var err error
		tx, err = types.MakeGasPayerSigner().SignTx(tx, k.Priv)
		if err != nil {
			panic(err)
		}
	}
	return tx
}

// quorum returns a minimal prefix of signers reaching weight 100 and the remaining weight without its last member.
func (a *acct) quorum() []fx.Key {
	if !a.multisig() {
		return []fx.Key{a.own}
	}
	total := 0
	var ks []fx.Key
	for i, k := range a.signers {
		ks = append(ks, k)
		total += a.weights[i]
		if total >= 100 {
			break
		}
	}
	return ks
}

type witness struct {
	Scn *scn.Witness
	Tx  string // RLP hex of the judged transaction
}

func scenario(c *run.Ctx, idx int) {
	r := run.NewRng(c.Seed, 6, uint64(idx))
	nDep := 1 + idx%3
	cl := scn.NewCluster(r, fx.WorldCfg{Deputies: nDep, Users: 12, SlotMs: 3000}, 2, scn.Cfg{Users: 12})
	defer cl.Close()
	M, V := cl.Nodes[0], cl.Nodes[1]
	B := cl.G.B
	W := cl.W
	registered := map[common.Address]types.Signers{}
	step := func(cs []cand, note string) (*types.Block, []cand) {
		// the term-snapshot block stays empty: a vote change inside it is C10's known finding (NewTermRecord panics when
		// the block becomes stable), not an authorisation verdict
		for cl.IsSnapshotNext() {
			res, err := M.Mine(cl.Head, cl.NextTime(), nil, "")
			if err != nil {
				return nil, nil
			}
			for _, e := range cl.InsertAll(res.Block) {
				if e != nil {
					return nil, nil
				}
			}
			cl.Adopt(res.Block)
			cl.StabiliseAll()
			c.Stat("empty_snapshot_blocks", 1)
		}
		t := cl.NextTime()
		var txs types.Transactions
		for _, x := range cs {
			txs = append(txs, x.tx)
			cl.G.U.Tx(x.tx)
		}
		var sc []scn.Cand
		for _, x := range cs {
			sc = append(sc, scn.Cand{Tx: x.tx, Kind: x.kind})
		}
		c.WAL(map[string]interface{}{"scenario": idx, "note": note, "seed": c.Seed})
		parent := cl.Head
		res, err := M.Mine(parent, t, txs, "")
		if err != nil {
			return nil, nil
		}
		blk := res.Block
		// judge everything that was packaged, against the account state at the parent
		src := account.NewManager(parent.Hash(), M.DB)
		inc := map[common.Hash]bool{}
		for _, tx := range blk.Txs {
			inc[tx.Hash()] = true
		}
		var effective []cand
		for _, x := range cs {
			c.Stat("candidates_offered", 1)
			c.Seen("mutation_operators", x.kind)
			if !inc[x.tx.Hash()] {
				if x.expect {
					c.Stat("authorised_but_not_packaged", 1)
					c.Seen("authorised_but_not_packaged_kinds", x.kind)
				}
				continue
			}
			effective = append(effective, x)
			c.Stat("candidates_packaged", 1)
			judged := types.Transactions{x.tx}
			if x.tx.Type() == params.BoxTx {
				if bx, err := types.GetBox(x.tx.Data()); err == nil {
					judged = append(judged, bx.SubTxList...)
				}
			}
			for ji, jt := range judged {
				if ji > 0 {
					// the box's signers signed the hashes of its sub transactions: a sub transaction's hash has to be the hash of
					// its fields (of the transaction its wire form decodes to), or the signature does not bind the content
					c.Stat("box_subtx_hashes_checked_against_fields", 1)
					if jt.Hash() != fx.WireTx(jt).Hash() {
						enc, _ := rlp.EncodeToBytes(x.tx)
						c.Violation("C06/effective-box-whose-signature-does-not-bind-its-content", fmt.Sprintf("[%s] sub transaction %d of a packaged box answers Hash() = %s, its fields hash to %s: the box signature covers the former", x.kind, ji-1, jt.Hash().Hex(), fx.WireTx(jt).Hash().Hex()),
							witness{Scn: cl.Witness(t, sc, x.kind), Tx: hex.EncodeToString(enc)})
					}
				}
				if class, msg := judgeTx(src, jt); class != "" {
					enc, _ := rlp.EncodeToBytes(jt)
					c.Violation("C06/"+class, fmt.Sprintf("[%s] %s", x.kind, msg), witness{Scn: cl.Witness(t, sc, x.kind), Tx: hex.EncodeToString(enc)})
				} else {
					c.Stat("packaged_and_authorised", 1)
				}
			}
		}
		for i, e := range cl.InsertAll(blk) {
			if e != nil {
				c.Note(fmt.Sprintf("node %d rejected the block (%s): %v", i, note, e))
				return nil, nil
			}
		}
		// the registered signer lists as the harness knows them from the modify-signers transactions that took effect: the
		// state behind the new block has to hold exactly these (the predicate above reads the lists from that state)
		for _, x := range effective {
			if x.sets != nil {
				registered[x.setsFor] = x.sets
			}
		}
		post := account.NewManager(blk.Hash(), M.DB)
		for a, want := range registered {
			c.Stat("registered_signer_lists_compared_with_the_state", 1)
			got := post.GetAccount(a).GetSigners()
			same := len(got) == len(want)
			wm := want.ToSignerMap()
			for _, sg := range got {
				if w, ok := wm[sg.Address]; !ok || w != sg.Weight {
					same = false
				}
			}
			if !same {
				c.Violation("C06/registered-signers-differ-from-the-change-that-took-effect", fmt.Sprintf("[%s] account %s: the last modify-signers transaction that took effect registered %s, the state behind block %d holds %s", note, a.Hex(), want.String(), blk.Height(), got.String()), witness{Scn: cl.Witness(t, sc, note)})
			}
		}
		_ = V
		cl.Adopt(blk)
		cl.StabiliseAll()
		return blk, effective
	}
	exp := func() uint64 { return uint64(cl.Head.Time()) + 1000 + uint64(r.Intn(500)) }
	// block 1: funding
	var cs []cand
	for i, u := range W.Users {
		cs = append(cs, cand{tx: B.Transfer(W.Founder, u.Addr, fx.LEMO(100000+int64(i)), exp()), kind: "fund", expect: true})
	}
	if b, _ := step(cs, "funding"); b == nil {
		return
	}
	// accounts: plain A, multisig MS (self), temp-address multisig TMP (created by user 3), payers
	U := W.Users
	plain := &acct{addr: U[0].Addr, own: U[0]}
	mkWeights := func(n int) []int {
		ws := make([]int, n)
		switch r.Intn(4) {
		case 0: // exactly 100 in total
			rest := 100
			for i := 0; i < n; i++ {
				if i == n-1 {
					ws[i] = rest
				} else {
					ws[i] = 1 + r.Intn(rest-(n-1-i))
					if ws[i] > rest-(n-1-i) {
						ws[i] = rest - (n - 1 - i)
					}
				}
				rest -= ws[i]
			}
		case 1: // two halves
			for i := range ws {
				ws[i] = 50
			}
		case 2: // one strong signer and weak ones
			ws[0] = 99
			for i := 1; i < n; i++ {
				ws[i] = 1 + r.Intn(3)
			}
		default:
			for i := range ws {
				ws[i] = 1 + r.Intn(100)
			}
			sum := 0
			for _, x := range ws {
				sum += x
			}
			if sum < 100 {
				ws[0] = 100
			}
		}
		return ws
	}
	nS := r.Range(2, 6)
	if c.Thorough() && idx%10 == 9 {
		nS = r.Range(20, 100)
	}
	var sks []fx.Key
	for i := 0; i < nS; i++ {
		sks = append(sks, fx.NewKey(fmt.Sprintf("signer-%d", idx), i))
	}
	ws := mkWeights(nS)
	ms := &acct{addr: U[1].Addr, own: U[1], signers: sks, weights: ws}
	var uid [10]byte
	copy(uid[:], r.Bytes(10))
	tmpAddr := crypto.CreateTempAddress(U[3].Addr, uid)
	tsk := []fx.Key{fx.NewKey(fmt.Sprintf("tsigner-%d", idx), 0), fx.NewKey(fmt.Sprintf("tsigner-%d", idx), 1)}
	tmp := &acct{addr: tmpAddr, signers: tsk, weights: []int{60, 40}}
	mp := &acct{addr: U[2].Addr, own: U[2], signers: []fx.Key{fx.NewKey(fmt.Sprintf("psigner-%d", idx), 0), fx.NewKey(fmt.Sprintf("psigner-%d", idx), 1)}, weights: []int{50, 50}}
	pp := &acct{addr: U[4].Addr, own: U[4]}
	toSigners := func(a *acct) types.Signers {
		var s types.Signers
		for i, k := range a.signers {
			s = append(s, types.SignAccount{Address: k.Addr, Weight: uint8(a.weights[i])})
		}
		return s
	}
	cs = []cand{
		{tx: B.ModifySigners(U[1], ms.addr, toSigners(ms), exp()), kind: "setup-multisig", expect: true, sets: toSigners(ms), setsFor: ms.addr},
		{tx: B.ModifySigners(U[2], mp.addr, toSigners(mp), exp()), kind: "setup-multisig-payer", expect: true, sets: toSigners(mp), setsFor: mp.addr},
		{tx: B.Transfer(W.Founder, tmpAddr, fx.LEMO(50000), exp()), kind: "fund-temp", expect: true},
		{tx: B.ModifySigners(U[3], tmpAddr, toSigners(tmp), exp()), kind: "setup-temp-multisig", expect: true, sets: toSigners(tmp), setsFor: tmpAddr},
	}
	if b, eff := step(cs, "account setup"); b == nil || len(eff) != len(cs) {
		c.Note("account setup not fully packaged")
		return
	}
	cl.G.U.Addr(tmpAddr)
	// only the weights of the multi-signature account change (its first signer is demoted), and somebody else pays the
	// gas: the account itself has no other change in that block
	{
		ws2 := append([]int{}, ms.weights...)
		ws2[0] = 1
		ws2[1] = 100
		old := ms.quorum()
		oldWeights := ms.weights
		ms.weights = ws2
		data, _ := json.Marshal(struct {
			Signers types.Signers `json:"signers"`
		}{toSigners(ms)})
		tx := B.Reimbursed(params.ModifySignersTx, old, ms.addr, &ms.addr, pp.addr, []fx.Key{pp.own}, big.NewInt(0), data, 2000000, fx.GasPrice, exp())
		if b, eff := step([]cand{{tx: tx, kind: "reweigh-paid-by-somebody-else", expect: true, sets: toSigners(ms), setsFor: ms.addr}}, "weights only, gas reimbursed"); b == nil || len(eff) != 1 {
			// (completeness is not this property's subject: the scenario goes on with the weights as they were)
			c.Stat("reimbursed_reweigh_not_packaged", 1)
			if b == nil {
				return
			}
			ms.weights = oldWeights
		}
	}
	accts := []*acct{plain, ms, tmp}
	payers := []*acct{nil, pp, mp}
	outsider := fx.NewKey("foreign", idx)
	rounds := c.Pick(6, 12)
	seq := int64(0)
	for round := 0; round < rounds; round++ {
		cs = nil
		for n := 0; n < 14; n++ {
			a := accts[r.Intn(len(accts))]
			p := payers[r.Intn(len(payers))]
			seq++
			to := U[5+r.Intn(5)].Addr
			amount := big.NewInt(seq * 1000)
			e := exp()
			// base unsigned tx (a transfer, a vote or a contract creation: every type shares the signature path)
			typ := []uint16{params.OrdinaryTx, params.OrdinaryTx, params.VoteTx, params.CreateContractTx}[r.Intn(4)]
			var data []byte
			toP := &to
			switch typ {
			case params.VoteTx:
				amount = big.NewInt(0)
				d := W.Deputies[r.Intn(len(W.Deputies))].Addr
				toP = &d
			case params.CreateContractTx:
				toP = nil
				data = fx.InitCode(fx.RtStore(uint64(seq%7), 3))
			}
			reimb := p != nil
			var base *types.Transaction
			if reimb {
				if toP != nil {
					base = types.NewReimbursementTransaction(a.addr, *toP, p.addr, amount, data, typ, W.ChainID, e, "", "")
				} else {
					base = types.NewReimbursementContractCreation(a.addr, p.addr, amount, data, typ, W.ChainID, e, "", "")
				}
			} else {
				base = B.Unsigned(typ, a.addr, toP, amount, 900000, data, e)
			}
			finish := func(stx *types.Transaction, payerKeys []fx.Key, price *big.Int, limit uint64) *types.Transaction {
				if !reimb {
					return stx
				}
				stx = types.GasPayerSignatureTx(stx, price, limit)
				return signPayer(stx, payerKeys...)
			}
			q := a.quorum()
			var pq []fx.Key
			if reimb {
				pq = p.quorum()
			}
			op := r.Intn(19)
			var tx *types.Transaction
			kind := ""
			expect := false
			switch op {
			case 0, 1: // exact, authorised
				tx = finish(signSender(base, reimb, q...), pq, fx.GasPrice, 900000)
				kind, expect = "exact", true
			case 2: // one signature short
				if len(q) > 1 {
					tx = finish(signSender(base, reimb, q[:len(q)-1]...), pq, fx.GasPrice, 900000)
					kind = "subset-under-threshold"
				} else {
					tx = finish(base, pq, fx.GasPrice, 900000)
					kind = "no-sender-signature"
				}
			case 3: // one signature repeated to fake weight
				if a.multisig() && len(q) > 1 {
					k := q[:len(q)-1]
					k = append(append([]fx.Key{}, k...), k[0])
					tx = finish(signSender(base, reimb, k...), pq, fx.GasPrice, 900000)
					kind = "repeated-signature-instead-of-missing-signer"
				} else {
					tx = finish(signSender(base, reimb, append(append([]fx.Key{}, q...), q[0])...), pq, fx.GasPrice, 900000)
					kind = "repeated-signature-extra"
				}
			case 4: // foreign key substituted
				k := append([]fx.Key{}, q...)
				k[len(k)-1] = outsider
				tx = finish(signSender(base, reimb, k...), pq, fx.GasPrice, 900000)
				kind = "foreign-key-substituted"
			case 5: // high-s twin replaces a missing signer
				if a.multisig() && len(q) > 1 {
					stx := signSender(base, reimb, q[:len(q)-1]...)
					f := fx.Fields(stx)
					f.Sigs = append(f.Sigs, fx.HighS(f.Sigs[0]))
					tx = finish(f.MustTx(), pq, fx.GasPrice, 900000)
					kind = "high-s-twin-instead-of-missing-signer"
				} else {
					stx := signSender(base, reimb, q...)
					f := fx.Fields(stx)
					f.Sigs[0] = fx.HighS(f.Sigs[0])
					tx = finish(f.MustTx(), pq, fx.GasPrice, 900000)
					kind, expect = "high-s-form-of-own-signature", true
				}
			case 6: // wrong signing hash: sender signs with the other signer kind
				tx = finish(signSender(base, !reimb, q...), pq, fx.GasPrice, 900000)
				kind = "wrong-signing-hash"
			case 7: // payer missing / payer foreign / payer under weight
				if reimb {
					switch r.Intn(3) {
					case 0:
						tx = finish(signSender(base, true, q...), nil, fx.GasPrice, 900000)
						f := fx.Fields(tx)
						f.GasPrice, f.GasLimit = fx.GasPrice, 900000
						tx = f.MustTx()
						kind = "payer-signature-missing"
					case 1:
						tx = finish(signSender(base, true, q...), []fx.Key{outsider}, fx.GasPrice, 900000)
						kind = "payer-foreign-key"
					default:
						if len(pq) > 1 {
							tx = finish(signSender(base, true, q...), []fx.Key{pq[0], pq[0]}, fx.GasPrice, 900000)
							kind = "payer-repeated-signature-instead-of-missing-signer"
						} else {
							tx = finish(signSender(base, true, q...), pq, fx.GasPrice, 900000)
							kind, expect = "exact", true
						}
					}
				} else {
					// sender names somebody else as payer without any payer signature
					f := fx.Fields(base)
					pa := pp.addr
					f.GasPayer = &pa
					tx = signSender(f.MustTx(), false, q...)
					kind = "unsigned-foreign-gas-payer"
				}
			case 8: // payer signed different gas terms
				if reimb {
					tx = finish(signSender(base, true, q...), pq, fx.GasPrice, 900000)
					f := fx.Fields(tx)
					if r.Chance(1, 2) {
						f.GasLimit += 100000
						kind = "gas-limit-raised-after-payer-signed"
					} else {
						f.GasPrice = new(big.Int).Mul(fx.GasPrice, big.NewInt(3))
						kind = "gas-price-raised-after-payer-signed"
					}
					tx = f.MustTx()
				} else {
					tx = signSender(base, false, q...)
					kind, expect = "exact", true
				}
			case 9: // the payer's signatures are made by the sender's signers (each party is weighed against its own list)
				if reimb && p.addr != a.addr {
					tx = finish(signSender(base, true, q...), q, fx.GasPrice, 900000)
					kind = "payer-signed-by-the-senders-signers"
				} else {
					tx = finish(signSender(base, reimb, q...), pq, fx.GasPrice, 900000)
					kind, expect = "exact", true
				}
			case 10: // the sender's signatures are made by the payer's signers
				if reimb && p.addr != a.addr {
					tx = finish(signSender(base, true, pq...), pq, fx.GasPrice, 900000)
					kind = "sender-signed-by-the-payers-signers"
				} else {
					tx = finish(signSender(base, reimb, q...), pq, fx.GasPrice, 900000)
					kind, expect = "exact", true
				}
			case 11: // a multi-signature account's own (original) key signs alone, as sender or as payer
				zero := fx.Key{}
				switch {
				case reimb && p.multisig() && p.own.Addr != zero.Addr && r.Chance(1, 2):
					tx = finish(signSender(base, true, q...), []fx.Key{p.own}, fx.GasPrice, 900000)
					kind = "multisig-payer-signed-by-its-own-key-alone"
				case a.multisig() && a.own.Addr != zero.Addr:
					tx = finish(signSender(base, reimb, a.own), pq, fx.GasPrice, 900000)
					kind = "multisig-sender-signed-by-its-own-key-alone"
				case reimb && p.multisig() && p.own.Addr != zero.Addr:
					tx = finish(signSender(base, true, q...), []fx.Key{p.own}, fx.GasPrice, 900000)
					kind = "multisig-payer-signed-by-its-own-key-alone"
				default:
					tx = finish(signSender(base, reimb, q...), pq, fx.GasPrice, 900000)
					kind, expect = "exact", true
				}
			default: // single-field tampering after signing
				tx = finish(signSender(base, reimb, q...), pq, fx.GasPrice, 900000)
				f := fx.Fields(tx)
				other := U[10].Addr
				switch r.Intn(12) {
				case 0:
					if f.Type == params.OrdinaryTx {
						f.Type = params.VoteTx
					} else {
						f.Type = params.OrdinaryTx
					}
					kind = "tamper:type"
				case 1:
					f.ChainID++
					kind = "tamper:chain-id"
				case 2:
					f.From = other
					kind = "tamper:from"
				case 3:
					f.GasPayer = &other
					kind = "tamper:gas-payer"
				case 4:
					f.Recipient = &other
					kind = "tamper:recipient"
				case 5:
					f.RecipientName = "bob"
					kind = "tamper:recipient-name"
				case 6:
					if reimb {
						f.Expiration++
						kind = "tamper:expiration"
					} else {
						f.GasPrice = new(big.Int).Add(f.GasPrice, big.NewInt(1))
						kind = "tamper:gas-price"
					}
				case 7:
					if reimb {
						f.Message = "hi"
						kind = "tamper:message"
					} else {
						f.GasLimit++
						kind = "tamper:gas-limit"
					}
				case 8:
					f.Amount = new(big.Int).Add(f.Amount, big.NewInt(1))
					kind = "tamper:amount"
				case 9:
					f.Data = append(append([]byte{}, f.Data...), 1)
					kind = "tamper:data"
				case 10:
					f.Expiration++
					kind = "tamper:expiration"
				default:
					f.Message = "hello"
					kind = "tamper:message"
				}
				var err error
				tx, err = f.Tx()
				if err != nil {
					continue
				}
			}
			if tx == nil {
				continue
			}
			boxed := r.Chance(1, 4)
			if boxed && expect && r.Chance(1, 3) {
				// a signed box whose sub transaction is swapped afterwards for another validly signed transaction; the JSON
				// text of the replacement announces the hash of the original
				box := B.Box(U[11], types.Transactions{tx}, tx.Expiration())
				other := B.Transfer(U[10], U[9].Addr, big.NewInt(777), tx.Expiration())
				var bx struct {
					SubTxList []json.RawMessage `json:"subTxList"`
				}
				var m map[string]json.RawMessage
				repl, _ := json.Marshal(other)
				if json.Unmarshal(box.Data(), &bx) == nil && len(bx.SubTxList) == 1 && json.Unmarshal(repl, &m) == nil {
					m["hash"] = json.RawMessage(`"` + tx.Hash().Hex() + `"`)
					bx.SubTxList[0], _ = json.Marshal(m)
					f := fx.Fields(box)
					f.Data, _ = json.Marshal(bx)
					if forged, err := f.Tx(); err == nil {
						cs = append(cs, cand{tx: forged, kind: "boxed-subtx-swapped-under-the-box-signature:hash-member-forged", expect: false, boxed: true})
						continue
					}
				}
			}
			if boxed {
				if !a.multisig() && r.Chance(1, 2) {
					// the box comes from the sub transaction's own sender: the box signature says nothing about the sub
					// transaction's gas payer, and nothing about a sub transaction the sender never signed as such
					tx = B.Box(a.own, types.Transactions{tx}, tx.Expiration())
					kind = "boxed-by-its-sender:" + kind
				} else {
					tx = B.Box(U[11], types.Transactions{tx}, tx.Expiration())
					kind = "boxed:" + kind
				}
			}
			cs = append(cs, cand{tx: tx, kind: kind, expect: expect, boxed: boxed})
		}
		blk, eff := step(cs, fmt.Sprintf("round %d", round))
		if blk == nil {
			return
		}
		ops := map[string]bool{}
		for _, x := range cs {
			ops[x.kind] = true
		}
		names := make([]string, 0, len(ops))
		for k := range ops {
			names = append(names, k)
		}
		sort.Strings(names)
		c.Case(fmt.Sprintf("d%d signers%d %v", nDep, nS, names), len(eff) > 0 && len(eff) < len(cs),
			map[string]interface{}{"scenario": idx, "round": round, "multisig_signers": nS, "weights": ws, "operators": names, "offered": len(cs), "packaged": len(eff)})
	}
	// stale authorisation: transactions that were correctly signed under the OLD signer set, presented once without
	// taking effect (the sender could not afford them), must not take effect after the signers were rotated
	// (multisig -> other signers; plain -> multisig) and the account was funded.
	e := exp()
	rich := fx.LEMO(90000000)
	to := U[6].Addr
	staleMS := signSender(B.Unsigned(params.OrdinaryTx, ms.addr, &to, rich, 900000, nil, e), false, ms.quorum()...)
	stalePlain := signSender(B.Unsigned(params.OrdinaryTx, U[7].Addr, &to, rich, 900000, nil, e+1), false, U[7])
	stalePayer := types.GasPayerSignatureTx(signSender(types.NewReimbursementTransaction(U[8].Addr, to, mp.addr, fx.LEMO(1), nil, params.OrdinaryTx, W.ChainID, e+2, "", ""), true, U[8]), new(big.Int).Mul(fx.GasPrice, big.NewInt(1000000000)), 900000)
	stalePayer = signPayer(stalePayer, mp.quorum()...)
	first := []cand{{tx: staleMS, kind: "stale:first-presentation-multisig"}, {tx: stalePlain, kind: "stale:first-presentation-plain"}, {tx: stalePayer, kind: "stale:first-presentation-payer"}}
	if b, eff := step(first, "stale authorisation: first presentation"); b == nil || len(eff) != 0 {
		c.Note("stale-authorisation sequence: first presentation was packaged or failed; skipped")
		return
	}
	newKeys := []fx.Key{fx.NewKey(fmt.Sprintf("rotated-%d", idx), 0), fx.NewKey(fmt.Sprintf("rotated-%d", idx), 1)}
	rot := types.Signers{{Address: newKeys[0].Addr, Weight: 60}, {Address: newKeys[1].Addr, Weight: 60}}
	rotate := []cand{
		{tx: signSender(B.ModifySignersUnsigned(ms.addr, ms.addr, rot, exp()), false, ms.quorum()...), kind: "stale:rotate-multisig-signers", expect: true, sets: rot, setsFor: ms.addr},
		{tx: B.ModifySigners(U[7], U[7].Addr, rot, exp()), kind: "stale:plain-becomes-multisig", expect: true, sets: rot, setsFor: U[7].Addr},
		{tx: signSender(B.ModifySignersUnsigned(mp.addr, mp.addr, rot, exp()), false, mp.quorum()...), kind: "stale:rotate-payer-signers", expect: true, sets: rot, setsFor: mp.addr},
		{tx: B.Transfer(W.Founder, ms.addr, fx.LEMO(200000000), exp()), kind: "fund", expect: true},
		{tx: B.Transfer(W.Founder, U[7].Addr, fx.LEMO(200000000), exp()), kind: "fund", expect: true},
		{tx: B.Transfer(W.Founder, mp.addr, fx.LEMO(200000000), exp()), kind: "fund", expect: true},
	}
	if b, eff := step(rotate, "stale authorisation: rotation"); b == nil || len(eff) != len(rotate) {
		c.Note("stale-authorisation sequence: rotation not fully packaged; skipped")
		return
	}
	second := []cand{{tx: fx.WireTx(staleMS), kind: "stale:after-signer-rotation-multisig"}, {tx: fx.WireTx(stalePlain), kind: "stale:after-plain-became-multisig"}, {tx: fx.WireTx(stalePayer), kind: "stale:after-payer-signer-rotation"}}
	if b, _ := step(second, "stale authorisation: second presentation"); b != nil {
		c.Stat("stale_authorisation_sequences", 1)
		c.Case(fmt.Sprintf("d%d stale-authorisation", nDep), true, map[string]interface{}{"scenario": idx, "sequence": "sign under old signers, present (unaffordable), rotate signers + fund, present again"})
	}
}

func runAll(c *run.Ctx) {
	fx.Quiet()
	scn.SetParams()
	n := c.Pick(64, 1600)
	lo, hi := c.Share(n)
	for i := lo; i < hi; i++ {
		scenario(c, i)
	}
}

func replay(c *run.Ctx, raw json.RawMessage) {
	fx.Quiet()
	scn.SetParams()
	var w witness
	if err := json.Unmarshal(raw, &w); err != nil || w.Scn == nil {
		c.Inconclusive("bad witness")
		return
	}
	cl, _, err := scn.Rebuild(w.Scn)
	defer cl.Close()
	if err != nil {
		c.Inconclusive(err.Error())
		return
	}
	rawtx, _ := hex.DecodeString(w.Tx)
	tx := new(types.Transaction)
	if err := rlp.DecodeBytes(rawtx, tx); err != nil {
		c.Inconclusive(err.Error())
		return
	}
	res, err := cl.Nodes[0].Mine(cl.Head, w.Scn.Time, types.Transactions{tx}, "")
	if err == nil && len(res.Block.Txs) == 1 {
		src := account.NewManager(cl.Head.Hash(), cl.Nodes[0].DB)
		if class, msg := judgeTx(src, tx); class != "" {
			c.Violation("C06/"+class, msg, w)
		}
	}
	c.Case("replay", true, nil)
}

func main() { run.Main(run.Engine{Batches: batches, Run: runAll, Replay: replay}) }
