// C13 — mining schedule. Executes the real schedule functions over an enumerated grid and
// compares them with a reference written from the property statement.
package main

import (
	"encoding/json"
	"fmt"
	"math/big"

	"github.com/LemoFoundationLtd/lemochain-core/chain/consensus"
	"github.com/LemoFoundationLtd/lemochain-core/chain/deputynode"
	"github.com/LemoFoundationLtd/lemochain-core/chain/miner"
	"github.com/LemoFoundationLtd/lemochain-core/chain/params"
	"github.com/LemoFoundationLtd/lemochain-core/chain/types"
	"github.com/LemoFoundationLtd/lemochain-core/common"
	"github.com/LemoFoundationLtd/lemochain-core/common/log"
	"github.com/LemoFoundationLtd/lemochain-core/store"

	"verif/fx/run"
)

type noBlocks struct{}

func (noBlocks) GetBlockByHeight(h uint32) (*types.Block, error) { return nil, store.ErrBlockNotExist }

const (
	term    = 20
	interim = 5
)

// Case is one (configuration, parent, instant) grid point; it is also the replay witness.
type Case struct {
	N0, N1, N2  int   // deputies per term
	Overlap     int   // how many term-0 deputies survive into term 1 (rotated)
	TSec        int64 // slot length in seconds
	Height      uint32
	ParentMiner int   // index into universe of miner addresses (term-0 list, then new ones)
	ParentTime  int64 // seconds
	K           int
	DeltaMs     int64
	What        string `json:",omitempty"`
}

func addr(i int) common.Address { return common.BigToAddress(big.NewInt(int64(0x100000 + i))) }
func nodeID(i int) []byte {
	b := make([]byte, 64)
	b[0] = byte(i >> 8)
	b[1] = byte(i)
	b[63] = 0x77
	return b
}

// terms builds three terms: term0 = universe[0..n0), term1 = rotated mix of survivors and
// newcomers, term2 = reverse of term 1 cut to n2.
func buildTerms(n0, n1, n2, overlap int) [3][]int {
	var t [3][]int
	for i := 0; i < n0; i++ {
		t[0] = append(t[0], i)
	}
	if overlap > n0 {
		overlap = n0
	}
	if overlap > n1 {
		overlap = n1
	}
	// survivors are the *last* `overlap` of term 0, placed after the newcomers
	for i := 0; i < n1-overlap; i++ {
		t[1] = append(t[1], 100+i)
	}
	for i := 0; i < overlap; i++ {
		t[1] = append(t[1], n0-1-i)
	}
	for i := 0; i < n2; i++ {
		if i < len(t[1]) {
			t[2] = append(t[2], t[1][len(t[1])-1-i])
		} else {
			t[2] = append(t[2], 200+i)
		}
	}
	return t
}

func mkNodes(ids []int) types.DeputyNodes {
	var out types.DeputyNodes
	for r, id := range ids {
		out = append(out, &types.DeputyNode{MinerAddress: addr(id), NodeID: nodeID(id), Rank: uint32(r), Votes: big.NewInt(int64(1000 - r))})
	}
	return out
}

func signerTerm(h uint32) int {
	if h < term+interim+1 {
		return 0
	}
	return int((h - interim - 1) / term)
}
func isReward(h uint32) bool { return h >= term+interim+1 && h%term == interim+1 }

type world struct {
	dm    *deputynode.Manager
	terms [3][]int
	val   *consensus.Validator
	mn    *miner.Miner
	T     int64 // ms
}

func mkWorld(n0, n1, n2, overlap int, tsec int64) *world {
	mx := n0
	if n1 > mx {
		mx = n1
	}
	if n2 > mx {
		mx = n2
	}
	dm := deputynode.NewManager(mx, noBlocks{})
	t := buildTerms(n0, n1, n2, overlap)
	dm.SaveSnapshot(0, mkNodes(t[0]))
	dm.SaveSnapshot(term, mkNodes(t[1]))
	dm.SaveSnapshot(2*term, mkNodes(t[2]))
	w := &world{dm: dm, terms: t, T: tsec * 1000}
	w.val = consensus.NewValidator(uint64(w.T), nil, dm, nil, nil)
	sleep := w.T * 3 / 10
	w.mn = miner.New(miner.MineConfig{SleepTime: sleep, Timeout: w.T, ReservedPropagationTime: w.T / 10}, nil, dm, nil)
	return w
}

func rankOf(ids []int, id int) int {
	for i, x := range ids {
		if x == id {
			return i
		}
	}
	return -1
}

// refInTurn is the reference written from the statement.
func refInTurn(ids []int, h uint32, parentMiner int, tpMs, tMs, T int64) int {
	n := int64(len(ids))
	s := ((tMs - tpMs) / T) % n
	if h == 1 || isReward(h) {
		return ids[s%n]
	}
	r := rankOf(ids, parentMiner)
	if r < 0 {
		return -1
	}
	return ids[(int64(r)+1+s)%n]
}

func check(c *run.Ctx, w *world, cs Case) (ok bool) {
	viol := func(class, msg string) {
		cs.What = msg
		c.Violation("C13/"+class, msg, cs)
		ok = false
	}
	ok = true
	h := cs.Height
	ids := w.terms[signerTerm(h)]
	n := len(ids)
	T := w.T
	tpMs := cs.ParentTime * 1000
	tMs := tpMs + int64(cs.K)*T + cs.DeltaMs
	parent := &types.Header{Height: h - 1, MinerAddress: addr(cs.ParentMiner), Time: uint32(cs.ParentTime)}
	want := refInTurn(ids, h, cs.ParentMiner, tpMs, tMs, T)
	got, err := consensus.GetCorrectMiner(parent, tMs, T, w.dm)
	c.Stat("GetCorrectMiner_calls", 1)
	if want < 0 {
		// parent miner is not a deputy of this term at an ordinary height: cannot occur on a valid chain
		return true
	}
	if err != nil {
		viol("no-in-turn-deputy", fmt.Sprintf("GetCorrectMiner error %v, reference says %s", err, addr(want).String()))
		return
	}
	if got != addr(want) {
		viol("in-turn-deputy-differs-from-rotation", fmt.Sprintf("GetCorrectMiner=%s reference=%s", got.String(), addr(want).String()))
		return
	}
	// exactly one deputy passes VerifyMiner at this instant's whole-second stamp
	stamp := tMs / 1000
	if stamp >= cs.ParentTime {
		accepted := 0
		wantStamp := refInTurn(ids, h, cs.ParentMiner, tpMs, stamp*1000, T)
		for _, id := range ids {
			hd := &types.Header{Height: h, MinerAddress: addr(id), Time: uint32(stamp)}
			e := w.val.VerifyMiner(hd, parent)
			c.Stat("VerifyMiner_calls", 1)
			if e == nil {
				accepted++
				if id != wantStamp {
					viol("verifier-accepts-out-of-turn", fmt.Sprintf("VerifyMiner accepted %s at stamp %d, in turn is %s", addr(id).String(), stamp, addr(wantStamp).String()))
					return
				}
			} else if id == wantStamp {
				viol("verifier-rejects-in-turn", fmt.Sprintf("VerifyMiner rejected in-turn %s at stamp %d: %v", addr(id).String(), stamp, e))
				return
			}
		}
		if accepted != 1 {
			viol("not-exactly-one-in-turn", fmt.Sprintf("%d deputies accepted at stamp %d", accepted, stamp))
			return
		}
	}
	// per target deputy: distance round trip, window, stamps inside window, sleep time
	for _, id := range ids {
		d := addr(id)
		dist, err := w.dm.GetMinerDistance(h, parent.MinerAddress, d)
		if err != nil {
			viol("distance-error", fmt.Sprintf("GetMinerDistance(%s): %v", d.String(), err))
			return
		}
		if dist < 1 || int(dist) > n {
			viol("distance-out-of-range", fmt.Sprintf("distance %d not in 1..%d", dist, n))
			return
		}
		back, err := w.dm.GetDeputyByDistance(h, parent.MinerAddress, dist)
		if err != nil || back.MinerAddress != d {
			viol("distance-roundtrip", fmt.Sprintf("GetDeputyByDistance(GetMinerDistance(%s)=%d) = %v,%v", d.String(), dist, back, err))
			return
		}
		cur := tMs
		from, to := consensus.GetNextMineWindow(h, dist, tpMs, cur, T, w.dm)
		c.Stat("windows", 1)
		loop := int64(n) * T
		switch {
		case to-from != T:
			viol("window-length", fmt.Sprintf("window [%d,%d) length != slot %d", from, to, T))
			return
		case to <= cur:
			viol("window-already-ended", fmt.Sprintf("window [%d,%d) ended at current %d", from, to, cur))
			return
		case to-loop > cur:
			viol("window-not-earliest", fmt.Sprintf("window [%d,%d): previous occurrence [%d,%d) has not ended at %d", from, to, from-loop, to-loop, cur))
			return
		case ((from-tpMs)%loop+loop)%loop != int64(dist-1)*T:
			viol("window-phase", fmt.Sprintf("window [%d,%d) phase %d != (dist-1)*T=%d", from, to, (from-tpMs)%loop, int64(dist-1)*T))
			return
		}
		// every whole-second stamp the deputy would write while inside its window
		lo := from
		if cur > lo {
			lo = cur
		}
		for st := lo / 1000; st*1000 < to; st++ {
			now := st * 1000
			if now < lo {
				now = lo
			}
			if st < cs.ParentTime {
				st = cs.ParentTime
			}
			for _, other := range ids {
				hd := &types.Header{Height: h, MinerAddress: addr(other), Time: uint32(st)}
				e := w.val.VerifyMiner(hd, parent)
				c.Stat("VerifyMiner_calls", 1)
				if other == id && e != nil {
					viol("own-window-block-rejected", fmt.Sprintf("deputy %s mines at %d ms (stamp %d) inside its window [%d,%d) but VerifyMiner says %v", d.String(), now, st, from, to, e))
					return
				}
				if other != id && e == nil {
					viol("other-accepted-in-window", fmt.Sprintf("deputy %s accepted at stamp %d inside window of %s", addr(other).String(), st, d.String()))
					return
				}
			}
		}
		wait, end := w.mn.VerifGetSleepTime(h, dist, tpMs, cur)
		c.Stat("sleep_calls", 1)
		wake := cur + wait
		if end != to || wake < from || wake >= to || wait < 0 {
			viol("sleep-outside-window", fmt.Sprintf("getSleepTime wait=%d end=%d -> wake %d outside window [%d,%d)", wait, end, wake, from, to))
			return
		}
	}
	return
}

var heights = []uint32{1, 2, 10, term, term + 1, term + interim, term + interim + 1, term + interim + 2, 2 * term, 2*term + interim, 2*term + interim + 1, 2*term + interim + 2}
var deltas = func(T int64) []int64 { return []int64{0, 1, T / 2, T - 1} }

func batches(tier string) int { return 16 }

type cfg struct{ n0, n1, n2, ov int }

func configs(maxN int) []cfg {
	var out []cfg
	for n := 1; n <= maxN; n++ {
		out = append(out, cfg{n, n, n, n / 2})
		if n > 1 {
			out = append(out, cfg{n, n - 1, n, (n - 1) / 2}, cfg{n - 1, n, n - 1, 0}, cfg{n, n, n - 1, n})
		}
	}
	return out
}

func runAll(c *run.Ctx) {
	log.Setup(log.LevelCrit, false, false)
	params.TermDuration = term
	params.InterimDuration = interim
	maxN := c.Pick(9, 17)
	slots := []int64{1, 2, 3, 10}
	cfgs := configs(maxN)
	idx := 0
	for _, cf := range cfgs {
		for _, ts := range slots {
			idx++
			if idx%c.NBatches != c.Batch {
				continue
			}
			w := mkWorld(cf.n0, cf.n1, cf.n2, cf.ov, ts)
			for _, h := range heights {
				ids := w.terms[signerTerm(h)]
				n := len(ids)
				// parent miners: every deputy of the signing term; at special heights also an outsider/old deputy
				pms := append([]int{}, ids...)
				if h == 1 || isReward(h) {
					prev := w.terms[signerTerm(h-1)]
					pms = append(pms, prev[0], 999)
				}
				for _, pm := range pms {
					for _, tp := range []int64{1600000007} {
						bad := false
						for k := 0; k <= 3*n && !bad; k++ {
							for _, dl := range deltas(w.T) {
								cs := Case{N0: cf.n0, N1: cf.n1, N2: cf.n2, Overlap: cf.ov, TSec: ts, Height: h, ParentMiner: pm, ParentTime: tp, K: k, DeltaMs: dl}
								okc := check(c, w, cs)
								special := h == 1 || isReward(h) || rankOf(ids, pm) < 0
								pr := rankOf(ids, pm)
								pc := "mid"
								if pr < 0 {
									pc = "outsider"
								} else if pr == 0 {
									pc = "first"
								} else if pr == n-1 {
									pc = "last"
								}
								kc := 0
								if k > 0 {
									kc = 1 + (k-1)/n
								}
								fp := fmt.Sprintf("n%d/%d/%d T%d h%d pm%s k%d d%d", cf.n0, cf.n1, cf.n2, ts, h, pc, kc, dl)
								c.Case(fp, n > 1 && (k > 0 || special), cs)
								if !okc {
									bad = true
									break
								}
							}
						}
					}
				}
			}
		}
	}
}

func replay(c *run.Ctx, raw json.RawMessage) {
	log.Setup(log.LevelCrit, false, false)
	params.TermDuration = term
	params.InterimDuration = interim
	var cs Case
	if err := json.Unmarshal(raw, &cs); err != nil {
		c.Inconclusive("bad witness: " + err.Error())
		return
	}
	w := mkWorld(cs.N0, cs.N1, cs.N2, cs.Overlap, cs.TSec)
	check(c, w, cs)
	c.Case("replay", true, cs)
}

func main() { run.Main(run.Engine{Batches: batches, Run: runAll, Replay: replay}) }
