// C17 — state commitments bind content.
//
// Two monitors run the repository's real code:
//
//   - trie.go: random histories of update / delete / get / Hash / Commit / TrieDatabase.Commit /
//     reopen-by-root / new TrieDatabase / close-and-reopen of the whole ChainDatabase on the
//     BeansDB-backed store.TrieDatabase, with a Go map model in lock-step.
//   - merkle.go: common/merkle over every length 0..N and every position, against an
//     independently written statement of the pairing rule.
//
// Every case is fully materialised (TrieCase / MerkleCase) before it is executed; the same
// structures are the replay witnesses.
package main

import (
	"encoding/json"

	"verif/fx"
	"verif/fx/run"
)

const (
	streamTrie   = 1701
	streamMerkle = 1702
)

func batches(tier string) int { return 16 }

func runAll(c *run.Ctx) {
	fx.Quiet()

	// fixed regression list: runs in every tier, seed and batch 0
	if c.Batch == 0 {
		for i, cs := range fixedTrieCases() {
			cs := cs
			c.WAL(cs)
			runTrie(c, &cs, "fixed", i)
		}
	}

	// Merkle: exhaustive over lengths 0..N (interleaved over the batches: cost grows with n)
	maxLen := c.Pick(40, 300)
	for n := 0; n <= maxLen; n++ {
		if n%c.NBatches != c.Batch {
			continue
		}
		for _, set := range merkleSets {
			mc := MerkleCase{Kind: "merkle", N: n, Set: set, Salt: run.NewRng(c.Seed, streamMerkle, uint64(n)).Uint64(), AllPairs: n <= 40}
			c.WAL(mc)
			runMerkle(c, &mc)
		}
	}

	// Trie histories
	histories := c.Pick(300, 6000)
	lo, hi := c.Share(histories)
	for h := lo; h < hi; h++ {
		cs := genTrieCase(run.NewRng(c.Seed, streamTrie, uint64(h)), h, c.Thorough())
		c.WAL(cs)
		runTrie(c, cs, "gen", h)
	}
}

func replay(c *run.Ctx, raw json.RawMessage) {
	fx.Quiet()
	var probe struct{ Kind string }
	if err := json.Unmarshal(raw, &probe); err != nil {
		c.Inconclusive("bad witness: " + err.Error())
		return
	}
	switch probe.Kind {
	case "trie":
		var cs TrieCase
		if err := json.Unmarshal(raw, &cs); err != nil {
			c.Inconclusive("bad witness: " + err.Error())
			return
		}
		runTrie(c, &cs, "replay", 0)
	case "merkle":
		var mc MerkleCase
		if err := json.Unmarshal(raw, &mc); err != nil {
			c.Inconclusive("bad witness: " + err.Error())
			return
		}
		runMerkle(c, &mc)
	default:
		c.Inconclusive("witness of unknown kind " + probe.Kind)
	}
}

func main() { run.Main(run.Engine{Batches: batches, Run: runAll, Replay: replay}) }
