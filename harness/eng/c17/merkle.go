package main

import (
	"encoding/hex"
	"fmt"
	"math/big"

	"github.com/LemoFoundationLtd/lemochain-core/chain/types"
	"github.com/LemoFoundationLtd/lemochain-core/common"
	"github.com/LemoFoundationLtd/lemochain-core/common/crypto"
	"github.com/LemoFoundationLtd/lemochain-core/common/merkle"

	"verif/fx/run"
)

// MerkleCase is one leaf list; every position of it is checked. Leaves are either spelled
// out (hex) or constructed from (Set, N, Salt) by a fixed function.
type MerkleCase struct {
	Kind     string // "merkle"
	N        int
	Set      string // random | dups | txs | logs | deputies
	Salt     uint64
	AllPairs bool     // swap every pair of positions (otherwise neighbours, ends and a sample)
	Leaves   []string `json:",omitempty"`
	What     string   `json:",omitempty"`
}

var merkleSets = []string{"random", "dups", "txs", "logs", "deputies"}

// ---------------------------------------------------------------------------------------
// The rule, written from its description ("pairs nodes left to right, promoting an odd
// tail"), level by level — not from the code's flat array:
//
//   - no leaves: the hash of nothing;
//   - one node left: it is the root;
//   - otherwise a round pairs the nodes of the current row left to right, parent =
//     keccak(left ‖ right); when the row has an odd number of nodes the last one is not
//     paired in this round: it is promoted, unchanged, to the FRONT of the next row, ahead
//     of the parents just computed.

type side int

const (
	sibLeft  side = iota // the sibling is the left input of the parent
	sibRight             // the sibling is the right input
)

type step struct {
	h common.Hash
	s side
}

func pair(l, r common.Hash) common.Hash { return crypto.Keccak256Hash(l[:], r[:]) }

// refTree returns the root and, when pos >= 0, the sibling path of the leaf at pos.
func refTree(leaves []common.Hash, pos int) (common.Hash, []step) {
	if len(leaves) == 0 {
		return crypto.Keccak256Hash(nil), nil
	}
	row := leaves
	var path []step
	for len(row) > 1 {
		m := len(row)
		var next []common.Hash
		odd := m%2 == 1
		if odd {
			next = append(next, row[m-1])
		}
		for i := 0; i+1 < m; i += 2 {
			next = append(next, pair(row[i], row[i+1]))
		}
		if pos >= 0 {
			shift := 0
			if odd {
				shift = 1
			}
			switch {
			case odd && pos == m-1:
				pos = 0
			case pos%2 == 0:
				path = append(path, step{row[pos+1], sibRight})
				pos = pos/2 + shift
			default:
				path = append(path, step{row[pos-1], sibLeft})
				pos = pos/2 + shift
			}
		}
		row = next
	}
	return row[0], path
}

// ---------------------------------------------------------------------------------------
// leaf lists

func addrOf(x uint64) common.Address { return common.BytesToAddress(expand(x, 20)) }

func typedLists(n int, salt uint64) (types.Transactions, types.ChangeLogSlice, types.DeputyNodes) {
	r := run.NewRng(salt, 77, uint64(n))
	var txs types.Transactions
	var logs types.ChangeLogSlice
	var deps types.DeputyNodes
	for i := 0; i < n; i++ {
		from, to := addrOf(r.Uint64()), addrOf(r.Uint64())
		amount := new(big.Int).SetUint64(r.Uint64() >> uint(r.Intn(60)))
		data := r.Bytes(r.Intn(40))
		if r.Chance(1, 5) {
			txs = append(txs, types.NoReceiverTransaction(from, amount, uint64(100000+i), big.NewInt(1e9), data, uint16(r.Intn(11)), 200, uint64(1700000000+i), "", "m"))
		} else {
			txs = append(txs, types.NewTransaction(from, to, amount, uint64(100000+i), big.NewInt(1e9), data, uint16(r.Intn(11)), 200, uint64(1700000000+i), "name", fmt.Sprintf("msg %d", i)))
		}
		var nv interface{}
		switch r.Intn(3) {
		case 0:
			nv = *new(big.Int).SetUint64(r.Uint64())
		case 1:
			nv = r.Bytes(r.Intn(70))
		default:
			nv = fmt.Sprintf("profile-%d", r.Intn(1000))
		}
		logs = append(logs, &types.ChangeLog{LogType: types.ChangeLogType(1 + r.Intn(12)), Address: from, Version: uint32(1 + r.Intn(9)), NewVal: nv})
		deps = append(deps, &types.DeputyNode{MinerAddress: to, NodeID: r.Bytes(64), Rank: uint32(i), Votes: new(big.Int).SetUint64(r.Uint64() >> 8)})
	}
	return txs, logs, deps
}

func (mc *MerkleCase) leaves() ([]common.Hash, func() common.Hash) {
	if mc.Leaves != nil {
		out := make([]common.Hash, len(mc.Leaves))
		for i, s := range mc.Leaves {
			b, _ := hex.DecodeString(s)
			out[i] = common.BytesToHash(b)
		}
		return out, nil
	}
	out := make([]common.Hash, mc.N)
	switch mc.Set {
	case "random":
		for i := range out {
			out[i] = common.BytesToHash(expand(mc.Salt+uint64(i)*7919, 32))
		}
	case "dups": // a list in which leaves repeat (the same element twice in a block)
		r := run.NewRng(mc.Salt, 78, uint64(mc.N))
		distinct := mc.N/2 + 1
		for i := range out {
			out[i] = common.BytesToHash(expand(mc.Salt+uint64(r.Intn(distinct))*104729, 32))
		}
	case "txs":
		txs, _, _ := typedLists(mc.N, mc.Salt)
		for i, x := range txs {
			out[i] = x.Hash()
		}
		return out, txs.MerkleRootSha
	case "logs":
		_, logs, _ := typedLists(mc.N, mc.Salt)
		for i, x := range logs {
			out[i] = x.Hash()
		}
		return out, logs.MerkleRootSha
	case "deputies":
		_, _, deps := typedLists(mc.N, mc.Salt)
		for i, x := range deps {
			out[i] = x.Hash()
		}
		return out, deps.MerkleRootSha
	}
	return out, nil
}

// ---------------------------------------------------------------------------------------

func runMerkle(c *run.Ctx, mc *MerkleCase) bool {
	leaves, typedRoot := mc.leaves()
	n := len(leaves)
	failed := false
	viol := func(class, msg string) {
		if failed {
			return
		}
		failed = true
		w := *mc
		w.What = msg
		w.Leaves = make([]string, n)
		for i, l := range leaves {
			w.Leaves[i] = hex.EncodeToString(l[:])
		}
		c.Violation("C17/"+class, fmt.Sprintf("%d leaves (%s): %s", n, mc.Set, msg), w)
	}
	root := merkle.New(append([]common.Hash{}, leaves...)).Root()
	want, _ := refTree(leaves, -1)
	c.Stat("merkle_roots_compared", 1)
	if root != want {
		viol("merkle-root-differs-from-rule", fmt.Sprintf("Root() = %x, rule gives %x", root, want))
	}
	if n == 0 && root != merkle.EmptyTrieHash {
		viol("merkle-root-differs-from-rule", "empty list does not give EmptyTrieHash")
	}
	if typedRoot != nil {
		c.Stat("merkle_roots_compared", 1)
		c.Stat("merkle_typed_roots_compared:"+mc.Set, 1)
		if tr := typedRoot(); tr != want {
			viol("merkle-root-differs-from-rule:"+mc.Set, fmt.Sprintf("MerkleRootSha() = %x, rule over the element hashes gives %x", tr, want))
		}
	}
	// determined by the list: a second tree over an equal list has the same root
	if again := merkle.New(append([]common.Hash{}, leaves...)).Root(); again != root {
		viol("merkle-root-not-deterministic", fmt.Sprintf("two trees over the same list: %x and %x", root, again))
	}
	// determined by the list also when the caller's slice has spare capacity and is used again: the roots of the
	// successive prefixes of one array, and a kept tree whose caller appends to the slice it was built from
	if n > 0 {
		arr := make([]common.Hash, n, 2*n+3)
		copy(arr, leaves)
		for k := 1; k <= n && !failed; k++ {
			got := merkle.New(arr[:k]).Root()
			wantK, _ := refTree(leaves[:k], -1)
			c.Stat("merkle_prefix_roots_over_one_array_compared", 1)
			if got != wantK {
				viol("merkle-root-depends-on-callers-memory:prefixes-of-one-array", fmt.Sprintf("root of the first %d leaves of an array = %x, rule gives %x (after the roots of the shorter prefixes were computed over the same array)", k, got, wantK))
			}
		}
		grown := make([]common.Hash, 0, 2*n+3)
		grown = append(grown, leaves...)
		kept := merkle.New(grown)
		r1 := kept.Root()
		kn := append([]common.Hash{}, kept.HashNodes()...)
		grown = append(grown, common.Hash{0xaa}, common.Hash{0xbb}, common.Hash{0xcc})
		_ = grown
		c.Stat("merkle_kept_trees_checked_after_caller_append", 1)
		if r2 := kept.Root(); r2 != r1 || r1 != root {
			viol("merkle-root-depends-on-callers-memory:caller-appends", fmt.Sprintf("root of a kept tree %x, after the caller appended to its own slice %x (rule %x)", r1, r2, want))
		} else {
			for pos := 0; pos < n; pos++ {
				sib, err := merkle.FindSiblingNodes(leaves[pos], kept.HashNodes())
				if err != nil || !merkle.Verify(leaves[pos], r1, sib) {
					viol("merkle-root-depends-on-callers-memory:caller-appends", fmt.Sprintf("inclusion proof of position %d of a kept tree does not verify after the caller appended to its own slice (err %v; %d nodes before, %d after)", pos, err, len(kn), len(kept.HashNodes())))
					break
				}
			}
		}
	}
	tree := merkle.New(append([]common.Hash{}, leaves...))
	nodes := tree.HashNodes()
	if n > 0 && len(nodes) != 2*n-1 {
		viol("merkle-root-differs-from-rule:node-count", fmt.Sprintf("%d nodes for %d leaves", len(nodes), n))
	}
	first := map[common.Hash]int{}
	for i, l := range leaves {
		if _, ok := first[l]; !ok {
			first[l] = i
		}
	}
	for pos := 0; pos < n && !failed; pos++ {
		leaf := leaves[pos]
		sib, err := merkle.FindSiblingNodes(leaf, nodes)
		if err != nil {
			viol("merkle-proof-fails:no-proof-for-member", fmt.Sprintf("position %d: %v", pos, err))
			break
		}
		c.Stat("merkle_proofs_verified", 1)
		if !merkle.Verify(leaf, root, sib) {
			viol("merkle-proof-fails:valid-proof-rejected", fmt.Sprintf("position %d: Verify is false for the tree's own sibling nodes", pos))
			break
		}
		// the proof is the one the rule gives (for the first position holding this leaf: the API finds leaves by hash)
		_, path := refTree(leaves, first[leaf])
		var got []step
		okShape := true
		for i, s := range sib {
			switch s.NodeType {
			case merkle.LeftNode:
				got = append(got, step{s.Hash, sibLeft})
			case merkle.RightNode:
				got = append(got, step{s.Hash, sibRight})
			case merkle.RootNode:
				if i != len(sib)-1 || s.Hash != root {
					okShape = false
				}
			default:
				okShape = false
			}
		}
		if len(got) != len(path) {
			okShape = false
		}
		for i := 0; okShape && i < len(got); i++ {
			if got[i] != path[i] {
				okShape = false
			}
		}
		c.Stat("merkle_paths_compared", 1)
		if !okShape {
			viol("merkle-proof-differs-from-rule", fmt.Sprintf("position %d: FindSiblingNodes gives %d steps, the rule gives %d (or hashes/sides differ)", pos, len(got), len(path)))
			break
		}
		reject := func(what string, ok bool) bool {
			if ok {
				viol("merkle-proof-accepted-for-altered-"+what, fmt.Sprintf("position %d: Verify is true after altering the %s", pos, what))
				return false
			}
			c.Stat("merkle_tampers_rejected", 1)
			return true
		}
		alt := leaf
		alt[pos%32] ^= 1 << uint(pos%8)
		if !reject("leaf", merkle.Verify(alt, root, sib)) {
			break
		}
		if n > 1 {
			other := leaves[(pos+1)%n]
			if other != leaf && !reject("leaf:another-member", merkle.Verify(other, root, sib)) {
				break
			}
		}
		badRoot := root
		badRoot[(pos+5)%32] ^= 0x80
		if !reject("root", merkle.Verify(leaf, badRoot, sib)) {
			break
		}
		for i := range sib {
			if sib[i].NodeType == merkle.RootNode {
				continue
			}
			t := append([]merkle.MerkleNode{}, sib...)
			t[i].Hash[(i+pos)%32] ^= 0x04
			if !reject("sibling", merkle.Verify(leaf, root, t)) {
				break
			}
			t = append([]merkle.MerkleNode{}, sib...)
			if t[i].NodeType == merkle.LeftNode {
				t[i].NodeType = merkle.RightNode
			} else {
				t[i].NodeType = merkle.LeftNode
			}
			if t[i].Hash != cur(leaf, sib, i) && !reject("sibling:side-swapped", merkle.Verify(leaf, root, t)) {
				break
			}
			// a step withheld
			t = append(append([]merkle.MerkleNode{}, sib[:i]...), sib[i+1:]...)
			if !reject("sibling:withheld", merkle.Verify(leaf, root, t)) {
				break
			}
		}
		// root sensitivity: changing this leaf changes the root
		mod := append([]common.Hash{}, leaves...)
		mod[pos] = alt
		c.Stat("merkle_root_sensitivity_checks", 1)
		if merkle.New(mod).Root() == root {
			viol("merkle-root-insensitive:leaf-change", fmt.Sprintf("changing the leaf at position %d leaves the root unchanged", pos))
			break
		}
	}
	// no proof for a hash that is not in the tree
	if !failed && n > 0 {
		stranger := crypto.Keccak256Hash([]byte("stranger"), leaves[0][:])
		if sib, err := merkle.FindSiblingNodes(stranger, nodes); err == nil && merkle.Verify(stranger, root, sib) {
			viol("merkle-proof-accepted-for-altered-leaf:non-member", "a proof was produced and verified for a hash that is not a leaf")
		} else {
			c.Stat("merkle_tampers_rejected", 1)
		}
	}
	// swapping two different leaves changes the root
	swap := func(i, j int) {
		if failed || i == j || leaves[i] == leaves[j] {
			return
		}
		mod := append([]common.Hash{}, leaves...)
		mod[i], mod[j] = mod[j], mod[i]
		c.Stat("merkle_root_sensitivity_checks", 1)
		if merkle.New(mod).Root() == root {
			viol("merkle-root-insensitive:swap", fmt.Sprintf("swapping the different leaves at positions %d and %d leaves the root unchanged", i, j))
		}
	}
	if mc.AllPairs {
		for i := 0; i < n; i++ {
			for j := i + 1; j < n; j++ {
				swap(i, j)
			}
		}
	} else {
		r := run.NewRng(mc.Salt, 79, uint64(n))
		for i := 0; i+1 < n; i++ {
			swap(i, i+1)
			swap(i, r.Intn(n))
		}
		swap(0, n-1)
	}
	c.Seen("merkle_lengths", fmt.Sprintf("%03d", n))
	var sample interface{}
	if mc.Set == "txs" && n%16 == 0 {
		sample = map[string]interface{}{"kind": "merkle", "set": mc.Set, "n": n, "positions_checked": n, "all_pairs_swapped": mc.AllPairs}
	}
	c.Case(fmt.Sprintf("merkle %s n=%d", mc.Set, n), n >= 3, sample)
	return !failed
}

// cur is the running hash of the verification just before step i is applied.
func cur(leaf common.Hash, sib []merkle.MerkleNode, i int) common.Hash {
	h := leaf
	for _, s := range sib[:i] {
		switch s.NodeType {
		case merkle.LeftNode:
			h = pair(s.Hash, h)
		case merkle.RightNode:
			h = pair(h, s.Hash)
		}
	}
	return h
}
