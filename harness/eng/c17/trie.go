package main

import (
	"bytes"
	"encoding/hex"
	"fmt"
	"os"
	"sort"
	"strings"
	"time"

	"github.com/LemoFoundationLtd/lemochain-core/common"
	"github.com/LemoFoundationLtd/lemochain-core/common/crypto"
	"github.com/LemoFoundationLtd/lemochain-core/store"
	"github.com/LemoFoundationLtd/lemochain-core/store/trie"

	"verif/fx"
	"verif/fx/run"
)

// ---------------------------------------------------------------------------------------
// case description (also the replay witness)

// Val describes a value without spelling out its bytes: L bytes expanded from S by a fixed
// function (expand). L == 0 is the empty value, which the trie defines as "delete".
type Val struct {
	L int    `json:"l"`
	S uint32 `json:"s"`
}

func (v *Val) Bytes() []byte {
	if v == nil || v.L == 0 {
		return nil
	}
	return expand(uint64(v.S), v.L)
}

func expand(s uint64, n int) []byte {
	out := make([]byte, n)
	x := s*0x9E3779B97F4A7C15 + 0xD1B54A32D192ED03
	var w uint64
	for i := range out {
		if i%8 == 0 {
			x += 0x9E3779B97F4A7C15
			z := x
			z = (z ^ (z >> 30)) * 0xBF58476D1CE4E5B9
			z = (z ^ (z >> 27)) * 0x94D049BB133111EB
			w = z ^ (z >> 31)
		}
		out[i] = byte(w >> (8 * uint(i%8)))
	}
	return out
}

// Op kinds.
const (
	opUpd     = "upd"     // TryUpdate(key I, value V) on lane L (empty V deletes)
	opDel     = "del"     // TryDelete(key I)
	opGet     = "get"     // TryGet(key I) == model
	opSweep   = "sweep"   // TryGet of every key of the universe == model
	opHash    = "hash"    // Hash() == root of fresh tries built from the model
	opCommit  = "commit"  // Trie.Commit(nil) only (nodes stay in the TrieDatabase's memory layer)
	opFlush   = "flush"   // Trie.Commit(nil) + TrieDatabase.Commit(root,false) as account.Manager.Save does
	opReopen  = "reopen"  // open committed root N through the same TrieDatabase, compare with the model of that commit; A: lane continues from it
	opFresh   = "fresh"   // open flushed root N through a new TrieDatabase of the same ChainDatabase
	opProve   = "prove"   // collect the path nodes of keys of committed root N, VerifyProof, tamper
	opSwap    = "swap"    // drop the TrieDatabase (memory layer) and continue on a new one from flushed roots
	opRestart = "restart" // quiesce, close and reopen the whole ChainDatabase, continue from flushed roots
)

type Op struct {
	K string `json:"k"`
	L int    `json:"l,omitempty"`
	I int    `json:"i,omitempty"`
	V *Val   `json:"v,omitempty"`
	N int    `json:"n,omitempty"` // selector, taken modulo the number of candidates at run time; <0 = most recent
	A bool   `json:"a,omitempty"`
}

type TrieCase struct {
	Kind   string   // "trie"
	Secure bool     // SecureTrie (keys hashed) or plain Trie
	Limit  uint16   // cache generations kept in memory
	Lanes  int      // tries living side by side on the same TrieDatabase
	Keys   []string // hex key universe
	Ops    []Op
	What   string `json:",omitempty"`
}

// ---------------------------------------------------------------------------------------
// generator

var nibbleBytes = []byte{0x00, 0x01, 0x10, 0x11, 0xf0}

func genKeys(r *run.Rng, style, n int) []string {
	seen := map[string]bool{}
	var out []string
	add := func(k []byte) {
		h := hex.EncodeToString(k)
		if !seen[h] {
			seen[h] = true
			out = append(out, h)
		}
	}
	few := func(l int) []byte {
		k := make([]byte, l)
		for i := range k {
			k[i] = nibbleBytes[r.Intn(len(nibbleBytes))]
		}
		return k
	}
	prefix := r.Bytes(31)
	for tries := 0; len(out) < n && tries < 20*n; tries++ {
		switch style {
		case 0: // short keys over very few nibbles: shared prefixes, keys that are prefixes of other keys, the empty key
			add(few(r.Intn(5)))
		case 1: // 32-byte keys that differ only in their last nibbles (long extension nodes)
			k := append(common.CopyBytes(prefix[:r.Range(29, 31)]), few(3)...)
			add(k[:32])
		case 2: // hash-like 32-byte keys whose first byte is forced to collide
			k := r.Bytes(32)
			k[0] = nibbleBytes[r.Intn(2)]
			add(k)
		default: // a mixture: address-like keys with a shared prefix, short keys, extensions of other keys
			switch r.Intn(3) {
			case 0:
				add(append(common.CopyBytes(prefix[:17]), few(3)...))
			case 1:
				add(few(r.Range(1, 3)))
			default:
				if len(out) > 0 {
					b, _ := hex.DecodeString(out[r.Intn(len(out))])
					add(append(b, few(r.Range(1, 2))...))
				}
			}
		}
	}
	return out
}

func genTrieCase(r *run.Rng, h int, thorough bool) *TrieCase {
	cs := &TrieCase{Kind: "trie", Secure: h%2 == 1, Lanes: 1}
	switch x := r.Intn(10); {
	case x == 0:
		cs.Limit = 0
	case x <= 5:
		cs.Limit = 1
	case x <= 8:
		cs.Limit = 2
	default:
		cs.Limit = 120 // what chain/account uses
	}
	if r.Chance(1, 3) {
		cs.Lanes = 2
	}
	// one history in 15 is "big": 110..150 keys, mostly 1 KiB values, so that one
	// TrieDatabase.Commit carries more than store.IdealBatchSize (100 KiB) and is written in
	// several batches
	big := r.Chance(1, 15)
	if big {
		cs.Keys = genKeys(r, r.Intn(4), r.Range(110, 150))
	} else {
		cs.Keys = genKeys(r, r.Intn(4), r.Range(4, 40))
	}
	nk := len(cs.Keys)
	sizes := []int{1, 3, 20, 33, 70, 1024}
	pool := make([]*Val, len(sizes))
	for i, l := range sizes {
		pool[i] = &Val{L: l, S: uint32(r.Uint64())}
	}
	val := func() *Val {
		if r.Chance(4, 10) {
			return pool[r.Intn(len(pool))]
		}
		var l int
		switch x := r.Intn(100); {
		case big && x >= 40:
			l = 1024
		case x < 10:
			l = 0
		case x < 45:
			l = r.Range(1, 8)
		case x < 60:
			l = r.Range(9, 31)
		case x < 85:
			l = r.Range(32, 100)
		default:
			l = 1024
		}
		return &Val{L: l, S: uint32(r.Uint64())}
	}
	key := func() int {
		if r.Chance(1, 2) {
			return r.Intn((nk + 2) / 3)
		}
		return r.Intn(nk)
	}
	nops := r.Range(100, 200)
	if big {
		for _, i := range r.Perm(nk) {
			cs.Ops = append(cs.Ops, Op{K: opUpd, L: r.Intn(cs.Lanes), I: i, V: &Val{L: 1024, S: uint32(r.Uint64())}})
		}
	}
	restartPermille := 4
	if thorough {
		restartPermille = 12
	}
	for i := 0; i < nops; i++ {
		op := Op{L: r.Intn(cs.Lanes)}
		switch x := r.Intn(1000); {
		case x < 340:
			op.K, op.I, op.V = opUpd, key(), val()
		case x < 460:
			op.K, op.I = opDel, key()
		case x < 640:
			op.K, op.I = opGet, key()
		case x < 660:
			op.K = opSweep
		case x < 740:
			op.K = opHash
		case x < 800:
			op.K = opCommit
		case x < 890:
			op.K = opFlush
		case x < 940:
			op.K, op.N, op.A = opReopen, r.Intn(1<<16), r.Chance(1, 2)
		case x < 965:
			op.K, op.N = opFresh, r.Intn(1<<16)
		case x < 980:
			op.K, op.N, op.I = opProve, r.Intn(1<<16), r.Intn(nk)
		case x < 1000-restartPermille:
			op.K, op.N = opSwap, r.Intn(1<<16)
		default:
			op.K, op.N = opRestart, r.Intn(1<<16)
		}
		cs.Ops = append(cs.Ops, op)
	}
	// every history ends with: all reads, root, flush, reopen through a new TrieDatabase, proofs
	for l := 0; l < cs.Lanes; l++ {
		cs.Ops = append(cs.Ops, Op{K: opSweep, L: l}, Op{K: opHash, L: l}, Op{K: opFlush, L: l},
			Op{K: opFresh, L: l, N: -1}, Op{K: opProve, L: l, N: -1, I: r.Intn(nk)})
	}
	if thorough && r.Chance(1, 4) {
		cs.Ops = append(cs.Ops, Op{K: opRestart, N: -1}, Op{K: opSweep})
	}
	return cs
}

// fixedTrieCases are hand-written histories that run in every tier and for every seed.
func fixedTrieCases() []TrieCase {
	hx := func(s ...string) []string {
		var out []string
		for _, x := range s {
			out = append(out, hex.EncodeToString([]byte(x)))
		}
		return out
	}
	v := func(l int, s uint32) *Val { return &Val{L: l, S: s} }
	var out []TrieCase
	// 1. chain of keys that are prefixes of each other; deleting the middle one collapses a branch node
	out = append(out, TrieCase{Kind: "trie", Limit: 0, Lanes: 1, Keys: hx("", "a", "ab", "abc", "abd", "b"), Ops: []Op{
		{K: opUpd, I: 1, V: v(3, 1)}, {K: opUpd, I: 2, V: v(40, 2)}, {K: opUpd, I: 3, V: v(1024, 3)}, {K: opUpd, I: 4, V: v(2, 4)},
		{K: opUpd, I: 0, V: v(5, 5)}, {K: opHash}, {K: opFlush}, {K: opDel, I: 2}, {K: opHash}, {K: opCommit}, {K: opUpd, I: 5, V: v(33, 6)},
		{K: opCommit}, {K: opSweep}, {K: opDel, I: 3}, {K: opDel, I: 4}, {K: opHash}, {K: opFlush}, {K: opFresh, N: -1}, {K: opProve, N: -1, I: 1},
		{K: opReopen, N: 0, A: true}, {K: opSweep}, {K: opUpd, I: 2, V: v(0, 0)}, {K: opDel, I: 0}, {K: opFlush}, {K: opSwap, N: -1}, {K: opSweep}, {K: opHash},
	}})
	// 2. secure trie with 1 KiB values: flush, idle commits so that everything is unloaded, reads from the store, restart
	c2 := TrieCase{Kind: "trie", Secure: true, Limit: 1, Lanes: 1}
	for i := 0; i < 20; i++ {
		c2.Keys = append(c2.Keys, hex.EncodeToString(expand(uint64(1000+i), 32)))
		c2.Ops = append(c2.Ops, Op{K: opUpd, I: i, V: v(1024, uint32(i))})
	}
	c2.Ops = append(c2.Ops, Op{K: opFlush}, Op{K: opUpd, I: 0, V: v(7, 99)}, Op{K: opCommit}, Op{K: opUpd, I: 1, V: v(7, 98)}, Op{K: opCommit},
		Op{K: opUpd, I: 2, V: v(7, 97)}, Op{K: opFlush}, Op{K: opSweep})
	for i := 0; i < 20; i += 2 {
		c2.Ops = append(c2.Ops, Op{K: opDel, I: i})
	}
	c2.Ops = append(c2.Ops, Op{K: opHash}, Op{K: opFlush}, Op{K: opProve, N: -1, I: 3}, Op{K: opRestart, N: -1}, Op{K: opSweep}, Op{K: opHash},
		Op{K: opFresh, N: 0}, Op{K: opFresh, N: 1})
	out = append(out, c2)
	// 3. two tries with the same content on one TrieDatabase: one is flushed while the other's nodes are only committed in memory
	out = append(out, TrieCase{Kind: "trie", Limit: 1, Lanes: 2, Keys: hx("k0", "k1", "k2", "k3", "x"), Ops: []Op{
		{K: opUpd, L: 0, I: 0, V: v(50, 1)}, {K: opUpd, L: 0, I: 1, V: v(50, 2)}, {K: opUpd, L: 0, I: 2, V: v(50, 3)}, {K: opCommit, L: 0},
		{K: opUpd, L: 1, I: 2, V: v(50, 3)}, {K: opUpd, L: 1, I: 1, V: v(50, 2)}, {K: opUpd, L: 1, I: 0, V: v(50, 1)}, {K: opFlush, L: 1},
		{K: opUpd, L: 0, I: 3, V: v(50, 4)}, {K: opFlush, L: 0}, {K: opFresh, N: 0}, {K: opFresh, N: -1}, {K: opSweep, L: 0}, {K: opSweep, L: 1},
		{K: opUpd, L: 1, I: 3, V: v(50, 4)}, {K: opHash, L: 1}, {K: opHash, L: 0}, {K: opDel, L: 0, I: 3}, {K: opFlush, L: 0}, {K: opSwap, N: 0}, {K: opSweep, L: 0}, {K: opSweep, L: 1},
	}})
	// 4. one TrieDatabase.Commit above store.IdealBatchSize: 130 x 1 KiB is written in several batches
	c4 := TrieCase{Kind: "trie", Limit: 1, Lanes: 1}
	for i := 0; i < 130; i++ {
		c4.Keys = append(c4.Keys, hex.EncodeToString(append([]byte{byte(i)}, expand(uint64(5000+i), i%7)...)))
		c4.Ops = append(c4.Ops, Op{K: opUpd, I: i, V: v(1024, uint32(i))})
	}
	c4.Ops = append(c4.Ops, Op{K: opFlush}, Op{K: opFresh, N: -1}, Op{K: opSwap, N: -1}, Op{K: opSweep}, Op{K: opHash}, Op{K: opProve, N: -1, I: 9})
	out = append(out, c4)
	return out
}

// ---------------------------------------------------------------------------------------
// executor

type tri interface {
	TryGet(key []byte) ([]byte, error)
	TryUpdate(key, value []byte) error
	TryDelete(key []byte) error
	Hash() common.Hash
	Commit(onleaf trie.LeafCallback) (common.Hash, error)
	VerifShape() (full, short, hash, value int)
}

var emptyRoot = crypto.Keccak256Hash([]byte{0x80})

// norm maps the two spellings of "empty trie" onto one.
func norm(h common.Hash) common.Hash {
	if h == (common.Hash{}) {
		return emptyRoot
	}
	return h
}

type lane struct {
	t tri
	m [][]byte // model: value per key index, nil = absent
}

type snap struct {
	root    common.Hash
	content [][]byte
}

type exec struct {
	c    *run.Ctx
	cs   *TrieCase
	keys [][]byte
	dir  string
	db   *store.ChainDatabase
	tdb  *store.TrieDatabase

	lanes   []*lane
	snaps   []snap               // roots resolvable through e.tdb (its memory layer or the store)
	flushed map[common.Hash]bool // roots handed to TrieDatabase.Commit
	byRoot  map[common.Hash]string

	step   int
	failed bool
	stuck  bool // the write-behind queue did not drain (reported as inconclusive); the history was abandoned

	// what happened (for non-triviality)
	evictions, flushes, reopens, realDeletes, dbReads, restarts int
}

func (e *exec) viol(class, msg string) {
	if e.failed {
		return
	}
	e.failed = true
	e.cs.What = fmt.Sprintf("op %d (%s): %s", e.step, e.opName(), msg)
	e.c.Violation("C17/"+class, e.cs.What, e.cs)
}

func (e *exec) opName() string {
	if e.step >= 0 && e.step < len(e.cs.Ops) {
		return e.cs.Ops[e.step].K
	}
	return "end"
}

func (e *exec) open(root common.Hash, tdb *store.TrieDatabase) (tri, error) {
	if e.cs.Secure {
		return trie.NewSecure(root, tdb, e.cs.Limit)
	}
	t, err := trie.New(root, tdb)
	if err != nil {
		return nil, err
	}
	t.SetCacheLimit(e.cs.Limit)
	return t, nil
}

// trieKey is the key under which the value sits in the underlying trie (proof verification).
func (e *exec) trieKey(i int) []byte {
	if e.cs.Secure {
		return crypto.Keccak256(e.keys[i])
	}
	return e.keys[i]
}

func copyContent(m [][]byte) [][]byte {
	out := make([][]byte, len(m))
	copy(out, m)
	return out
}

func (e *exec) digest(m [][]byte) string {
	var parts [][]byte
	for i, v := range m {
		if v != nil {
			parts = append(parts, []byte(fmt.Sprintf("|%d:%d:", i, len(v))), v)
		}
	}
	return string(crypto.Keccak256(parts...))
}

func present(m [][]byte) int {
	n := 0
	for _, v := range m {
		if v != nil {
			n++
		}
	}
	return n
}

func short(b []byte) string {
	if b == nil {
		return "<absent>"
	}
	if len(b) > 12 {
		return fmt.Sprintf("%x..(%d bytes)", b[:12], len(b))
	}
	return fmt.Sprintf("%x", b)
}

func sameValue(got, want []byte) bool {
	if want == nil {
		return len(got) == 0
	}
	return bytes.Equal(got, want)
}

// freshRoots builds new tries from the content alone, in four different ways, and returns
// their roots: sorted insertion; two random insertion orders (one of them through Commit
// into a scratch TrieDatabase); and "insert junk under every key of the universe, Hash,
// then overwrite / delete in random order".
func (e *exec) freshRoots(content [][]byte, salt uint64) (roots [4]common.Hash, err error) {
	var idx []int
	for i, v := range content {
		if v != nil {
			idx = append(idx, i)
		}
	}
	sort.Slice(idx, func(a, b int) bool { return bytes.Compare(e.keys[idx[a]], e.keys[idx[b]]) < 0 })
	rng := run.NewRng(0xC17, salt, uint64(len(idx)))
	for mode := 0; mode < 4; mode++ {
		var t tri
		t, err = e.open(common.Hash{}, e.db.GetTrieDatabase())
		if err != nil {
			return
		}
		switch mode {
		case 0:
			for _, i := range idx {
				if err = t.TryUpdate(e.keys[i], content[i]); err != nil {
					return
				}
			}
			roots[mode] = t.Hash()
		case 1, 2:
			for _, p := range rng.Perm(len(idx)) {
				i := idx[p]
				if err = t.TryUpdate(e.keys[i], content[i]); err != nil {
					return
				}
			}
			if mode == 1 {
				roots[mode], err = t.Commit(nil)
				if err != nil {
					return
				}
			} else {
				roots[mode] = t.Hash()
			}
		case 3:
			for n, i := range rng.Perm(len(content)) {
				if err = t.TryUpdate(e.keys[i], []byte{byte(i), 'j', 'u', 'n', 'k', byte(n)}); err != nil {
					return
				}
				if n == len(content)/2 {
					t.Hash()
				}
			}
			t.Hash()
			for _, i := range rng.Perm(len(content)) {
				if content[i] == nil {
					err = t.TryDelete(e.keys[i])
				} else {
					err = t.TryUpdate(e.keys[i], content[i])
				}
				if err != nil {
					return
				}
			}
			roots[mode] = t.Hash()
		}
		e.c.Stat("fresh_tries_built", 1)
	}
	return
}

// checkRoot is the "root is a function of content" oracle.
func (e *exec) checkRoot(ln *lane, root common.Hash, via string) bool {
	fr, err := e.freshRoots(ln.m, uint64(e.step))
	if err != nil {
		e.viol("fresh-trie-error", "building a fresh trie from the model failed: "+err.Error())
		return false
	}
	names := [4]string{"sorted-insertion", "random-insertion+Commit", "random-insertion", "insert-all-then-overwrite/delete"}
	for i := 1; i < 4; i++ {
		e.c.Stat("roots_compared", 1)
		if norm(fr[i]) != norm(fr[0]) {
			e.viol("root-depends-on-order:fresh-builds-disagree", fmt.Sprintf("fresh tries with the same %d entries: %s gives %x, %s gives %x",
				present(ln.m), names[0], fr[0], names[i], fr[i]))
			return false
		}
	}
	e.c.Stat("roots_compared", 1)
	if norm(root) != norm(fr[0]) {
		e.viol("root-depends-on-order:history-vs-fresh-build", fmt.Sprintf("%s after this history = %x, fresh trie with the same %d entries = %x",
			via, root, present(ln.m), fr[0]))
		return false
	}
	// binding: one root never stands for two contents within a history
	d := e.digest(ln.m)
	if prev, ok := e.byRoot[norm(root)]; ok && prev != d {
		e.viol("root-collision-different-content", fmt.Sprintf("root %x was observed for two different key/value sets", root))
		return false
	}
	e.byRoot[norm(root)] = d
	e.c.Stat("root_content_bindings_checked", 1)
	return true
}

func missing(err error) bool {
	_, ok := err.(*trie.MissingNodeError)
	return ok
}

func errClass(err error) string {
	if missing(err) {
		return "missing-node"
	}
	return "trie-error"
}

func (e *exec) get(ln *lane, i int) bool {
	_, _, hb, _ := ln.t.VerifShape()
	got, err := ln.t.TryGet(e.keys[i])
	e.c.Stat("reads_compared", 1)
	if err != nil {
		e.viol(errClass(err)+":get", fmt.Sprintf("TryGet(key %d = %x): %v; model says %s", i, e.keys[i], err, short(ln.m[i])))
		return false
	}
	if !sameValue(got, ln.m[i]) {
		e.viol("read-differs-from-model", fmt.Sprintf("TryGet(key %d = %x) = %s, last value written = %s", i, e.keys[i], short(got), short(ln.m[i])))
		return false
	}
	if _, _, ha, _ := ln.t.VerifShape(); ha < hb {
		e.dbReads++
		e.c.Stat("reads_resolved_from_triedb", 1)
	}
	return true
}

func (e *exec) addSnap(root common.Hash, m [][]byte) {
	for _, s := range e.snaps {
		if s.root == root {
			return
		}
	}
	e.snaps = append(e.snaps, snap{root: root, content: copyContent(m)})
}

func (e *exec) commit(ln *lane, flush bool) bool {
	_, _, hb, _ := ln.t.VerifShape()
	root, err := ln.t.Commit(nil)
	e.c.Stat("trie_commits", 1)
	if err != nil {
		e.viol(errClass(err)+":commit", "Trie.Commit: "+err.Error())
		return false
	}
	if _, _, ha, _ := ln.t.VerifShape(); ha > hb {
		e.evictions++
		e.c.Stat("commits_that_unloaded_nodes", 1)
		e.c.Stat("subtrees_unloaded", int64(ha-hb))
	}
	if !e.checkRoot(ln, root, "Commit()") {
		return false
	}
	e.addSnap(root, ln.m)
	if flush {
		if err := e.tdb.Commit(root, false); err != nil {
			e.viol("triedb-commit-error", "TrieDatabase.Commit: "+err.Error())
			return false
		}
		e.flushed[root] = true
		e.flushes++
		e.c.Stat("triedb_commits", 1)
	}
	return true
}

// checkReopen opens root through tdb and compares every key of the universe with the
// content recorded when root was committed.
func (e *exec) checkReopen(sn snap, tdb *store.TrieDatabase, how string) (tri, bool) {
	e.c.Stat("reopen_checks", 1)
	e.c.Stat("reopen_checks:"+how, 1)
	e.reopens++
	t, err := e.open(sn.root, tdb)
	if err != nil {
		e.viol("reopened-trie-differs:"+how+":"+errClass(err), fmt.Sprintf("opening committed root %x (%d entries): %v", sn.root, present(sn.content), err))
		return nil, false
	}
	for i := range e.keys {
		got, err := t.TryGet(e.keys[i])
		e.c.Stat("reopen_reads_compared", 1)
		if err != nil {
			e.viol("reopened-trie-differs:"+how+":"+errClass(err), fmt.Sprintf("root %x reopened: TryGet(key %d = %x): %v; content at commit: %s", sn.root, i, e.keys[i], err, short(sn.content[i])))
			return nil, false
		}
		if !sameValue(got, sn.content[i]) {
			e.viol("reopened-trie-differs:"+how+":value", fmt.Sprintf("root %x reopened: key %d = %x reads %s, content at commit: %s", sn.root, i, e.keys[i], short(got), short(sn.content[i])))
			return nil, false
		}
	}
	if h := t.Hash(); norm(h) != norm(sn.root) {
		e.viol("reopened-trie-differs:"+how+":root", fmt.Sprintf("trie opened by root %x hashes to %x", sn.root, h))
		return nil, false
	}
	return t, true
}

func pick(n, sel int) int {
	if sel < 0 {
		return n - 1
	}
	return sel % n
}

func (e *exec) flushedSnaps() []snap {
	var out []snap
	for _, s := range e.snaps {
		if e.flushed[s.root] {
			out = append(out, s)
		}
	}
	return out
}

// rebase continues on a new TrieDatabase (after dropping the old one, or after a restart):
// only flushed roots survive; every one of them must read back completely; each lane goes
// on from one of them (or from the empty trie).
func (e *exec) rebase(sel int, how string) bool {
	keep := e.flushedSnaps()
	e.snaps = keep
	e.tdb = e.db.GetTrieDatabase()
	for _, s := range keep {
		if _, ok := e.checkReopen(s, e.tdb, how); !ok {
			return false
		}
	}
	for li, ln := range e.lanes {
		if len(keep) == 0 {
			t, err := e.open(common.Hash{}, e.tdb)
			if err != nil {
				e.viol("trie-error:open-empty", err.Error())
				return false
			}
			ln.t, ln.m = t, make([][]byte, len(e.keys))
			continue
		}
		s := keep[pick(len(keep), sel+li)]
		if sel < 0 {
			s = keep[len(keep)-1]
		}
		t, err := e.open(s.root, e.tdb)
		if err != nil {
			e.viol("reopened-trie-differs:"+how+":"+errClass(err), fmt.Sprintf("opening flushed root %x: %v", s.root, err))
			return false
		}
		ln.t, ln.m = t, copyContent(s.content)
	}
	return true
}

// pending is the number of records the write-behind queue has not yet handed to the store.
func (e *exec) pending() int {
	q := e.db.Beansdb.Queue
	q.IndexRW.Lock()
	defer q.IndexRW.Unlock()
	return len(q.Index)
}

// waitIdle waits for the write-behind queue to drain. Watchdog only (never an oracle): it
// gives up when the backlog has not shrunk for 30s or after 5 minutes in total; a loaded
// machine with slow fsync is not a reason to give up as long as the backlog moves.
func (e *exec) waitIdle() bool {
	start := time.Now()
	last, lastChange := -1, start
	for {
		n := e.pending()
		if n == 0 && e.db.VerifQueueIdle() {
			return true
		}
		now := time.Now()
		if n != last {
			last, lastChange = n, now
		}
		if now.Sub(lastChange) > 30*time.Second || now.Sub(start) > 5*time.Minute {
			e.c.Inconclusive(fmt.Sprintf("write-behind queue did not drain: %d records pending, unchanged for %.0fs, waited %.0fs in total",
				n, now.Sub(lastChange).Seconds(), now.Sub(start).Seconds()))
			return false
		}
		time.Sleep(time.Millisecond)
	}
}

func (e *exec) closeDB() bool {
	// Close() does not wait for the write-behind goroutines: quiesce first, as a real restart
	// (a new process) would find the files.
	if !e.waitIdle() {
		e.stuck = true
		return false
	}
	time.Sleep(20 * time.Millisecond)
	_ = e.db.Close()
	time.Sleep(20 * time.Millisecond)
	return true
}

// ---------------------------------------------------------------------------------------
// proofs
//
// The repository has no Prove (it is commented out in store/trie/proof.go); the only proof
// API is VerifyProof(root, key, store.DatabaseReader). A proof is therefore collected the
// way a serving node would: the node blobs that VerifyProof asks for while it walks from
// the root to the key through the real TrieDatabase. The receiver side is a node set that
// is content addressed (every blob is filed under its own keccak hash).

type recReader struct {
	tdb   *store.TrieDatabase
	blobs [][]byte
}

func (r *recReader) Get(flg uint32, key []byte) ([]byte, error) {
	b, err := r.tdb.Node(common.BytesToHash(key))
	if err != nil || b == nil {
		return nil, err
	}
	r.blobs = append(r.blobs, common.CopyBytes(b))
	return b, nil
}
func (r *recReader) Has(flg uint32, key []byte) (bool, error) {
	b, err := r.tdb.Node(common.BytesToHash(key))
	return b != nil, err
}

type nodeSet map[common.Hash][]byte

func (s nodeSet) Get(flg uint32, key []byte) ([]byte, error) { return s[common.BytesToHash(key)], nil }
func (s nodeSet) Has(flg uint32, key []byte) (bool, error) {
	_, ok := s[common.BytesToHash(key)]
	return ok, nil
}
func (s nodeSet) add(blob []byte) { s[crypto.Keccak256Hash(blob)] = blob }

func setOf(blobs [][]byte, skip int) nodeSet {
	s := nodeSet{}
	for i, b := range blobs {
		if i != skip {
			s.add(b)
		}
	}
	return s
}

// forge builds a different trie (content with key ki set to v) in a scratch TrieDatabase
// and returns its root and the path nodes for the key.
func (e *exec) forge(content [][]byte, ki int, v []byte) (common.Hash, [][]byte, error) {
	tdb := e.db.GetTrieDatabase()
	t, err := e.open(common.Hash{}, tdb)
	if err != nil {
		return common.Hash{}, nil, err
	}
	for i, c := range content {
		if i == ki {
			c = v
		}
		if c != nil {
			if err := t.TryUpdate(e.keys[i], c); err != nil {
				return common.Hash{}, nil, err
			}
		}
	}
	root, err := t.Commit(nil)
	if err != nil {
		return common.Hash{}, nil, err
	}
	rec := &recReader{tdb: tdb}
	got, err, _ := trie.VerifyProof(root, e.trieKey(ki), rec)
	if err != nil {
		return common.Hash{}, nil, err
	}
	if !bytes.Equal(got, v) {
		return common.Hash{}, nil, fmt.Errorf("forged trie proves %s instead of %s", short(got), short(v))
	}
	return root, rec.blobs, nil
}

func (e *exec) proveKey(sn snap, ki int, deep bool) bool {
	key := e.trieKey(ki)
	want := sn.content[ki]
	rec := &recReader{tdb: e.tdb}
	got, err, _ := trie.VerifyProof(sn.root, key, rec)
	what := fmt.Sprintf("root %x (%d entries), key %d = %x", sn.root, present(sn.content), ki, e.keys[ki])
	if err != nil {
		if want != nil {
			e.viol("proof-rejected-for-present-key", what+": "+err.Error())
		} else {
			e.viol("absence-proof-rejected", what+": "+err.Error())
		}
		return false
	}
	if !sameValue(got, want) {
		if want != nil {
			e.viol("proof-yields-other-value", fmt.Sprintf("%s: proof yields %s, stored value is %s", what, short(got), short(want)))
		} else {
			e.viol("proof-yields-value-for-absent-key", fmt.Sprintf("%s: proof yields %s for a key that is not stored", what, short(got)))
		}
		return false
	}
	proof := rec.blobs
	// the collected nodes alone are a proof
	got2, err, _ := trie.VerifyProof(sn.root, key, setOf(proof, -1))
	if err != nil || !sameValue(got2, want) {
		e.viol("proof-not-self-contained", fmt.Sprintf("%s: the %d path nodes alone give (%s, %v)", what, len(proof), short(got2), err))
		return false
	}
	if want != nil {
		e.c.Stat("proofs_verified", 1)
	} else {
		e.c.Stat("absence_proofs_verified", 1)
	}
	e.c.Stat("proof_nodes", int64(len(proof)))
	reject := func(alt string, v []byte, err error) bool {
		if err == nil {
			e.viol("proof-accepted-for-altered-"+alt, fmt.Sprintf("%s: verification returned (%s, nil) after altering %s", what, short(v), alt))
			return false
		}
		e.c.Stat("proofs_rejected", 1)
		return true
	}
	// altered root
	bad := sn.root
	bad[(ki+e.step)%32] ^= 1 << uint(ki%8)
	v, err, _ := trie.VerifyProof(bad, key, setOf(proof, -1))
	if !reject("root", v, err) {
		return false
	}
	for i := range proof {
		// a node withheld: neither a value nor absence may be concluded
		v, err, _ := trie.VerifyProof(sn.root, key, setOf(proof, i))
		if !reject("proof:node-withheld", v, err) {
			return false
		}
		// a node altered (and filed under its own hash, as a receiver would)
		s := setOf(proof, i)
		alt := common.CopyBytes(proof[i])
		alt[(ki*31+i*7+e.step)%len(alt)] ^= 0x40
		s.add(alt)
		v, err, _ = trie.VerifyProof(sn.root, key, s)
		if !reject("proof:node-altered", v, err) {
			return false
		}
	}
	if !deep {
		return true
	}
	// another value for this key: take the nodes of a trie that really holds it and offer
	// them (alone, and mixed with the true nodes) against the committed root
	other := []byte{0xEE, byte(ki), byte(e.step)}
	if want != nil {
		other = common.CopyBytes(want)
		other[len(other)-1] ^= 0x01
	}
	froot, fproof, err := e.forge(sn.content, ki, other)
	if err != nil {
		e.viol("fresh-trie-error", what+": building the forged trie failed: "+err.Error())
		return false
	}
	e.c.Stat("roots_compared", 1)
	if froot == sn.root {
		e.viol("root-insensitive-to-value", fmt.Sprintf("%s: storing %s instead of %s gives the same root", what, short(other), short(want)))
		return false
	}
	v, err, _ = trie.VerifyProof(sn.root, key, setOf(fproof, -1))
	if err == nil && sameValue(v, other) {
		e.viol("proof-accepted-for-altered-value", fmt.Sprintf("%s: nodes of another trie prove %s", what, short(other)))
		return false
	}
	e.c.Stat("proofs_rejected", 1)
	union := setOf(proof, -1)
	for _, b := range fproof {
		union.add(b)
	}
	v, err, _ = trie.VerifyProof(sn.root, key, union)
	if err != nil || !sameValue(v, want) {
		e.viol("proof-accepted-for-altered-value", fmt.Sprintf("%s: true path nodes mixed with nodes of a trie holding %s give (%s, %v), stored value is %s", what, short(other), short(v), err, short(want)))
		return false
	}
	e.c.Stat("proofs_rejected", 1)
	return true
}

// ---------------------------------------------------------------------------------------

func runTrie(c *run.Ctx, cs *TrieCase, origin string, index int) (ok bool) {
	e := &exec{c: c, cs: cs, flushed: map[common.Hash]bool{}, byRoot: map[common.Hash]string{}}
	if cs.Lanes < 1 {
		cs.Lanes = 1
	}
	for _, k := range cs.Keys {
		b, err := hex.DecodeString(k)
		if err != nil {
			c.Inconclusive("bad key in witness: " + err.Error())
			return false
		}
		for _, o := range e.keys {
			if bytes.Equal(o, b) {
				c.Inconclusive("duplicate key in witness")
				return false
			}
		}
		e.keys = append(e.keys, b)
	}
	if len(e.keys) == 0 {
		c.Inconclusive("case without keys")
		return false
	}
	e.dir = fx.ScratchDir("c17-")
	e.db = store.NewChainDataBase(e.dir)
	defer func() {
		if e.db != nil {
			if !e.stuck {
				e.waitIdle()
			}
			_ = e.db.Close()
		}
		_ = os.RemoveAll(e.dir)
	}()
	e.tdb = e.db.GetTrieDatabase()
	for l := 0; l < cs.Lanes; l++ {
		t, err := e.open(common.Hash{}, e.tdb)
		if err != nil {
			e.viol("trie-error:open-empty", err.Error())
			return false
		}
		e.lanes = append(e.lanes, &lane{t: t, m: make([][]byte, len(e.keys))})
	}
	var letters strings.Builder
	for e.step = 0; e.step < len(cs.Ops) && !e.failed; e.step++ {
		op := cs.Ops[e.step]
		if op.L < 0 || op.L >= len(e.lanes) || op.I < 0 || op.I >= len(e.keys) {
			c.Inconclusive("op out of range in witness")
			return false
		}
		ln := e.lanes[op.L]
		letters.WriteByte(op.K[0])
		c.Stat("ops:"+op.K, 1)
		switch op.K {
		case opUpd:
			v := op.V.Bytes()
			if err := ln.t.TryUpdate(e.keys[op.I], v); err != nil {
				e.viol(errClass(err)+":update", fmt.Sprintf("TryUpdate(key %d = %x, %d bytes): %v", op.I, e.keys[op.I], len(v), err))
				break
			}
			if len(v) == 0 {
				if ln.m[op.I] != nil {
					e.realDeletes++
				}
				ln.m[op.I] = nil
			} else {
				ln.m[op.I] = v
			}
		case opDel:
			if err := ln.t.TryDelete(e.keys[op.I]); err != nil {
				e.viol(errClass(err)+":delete", fmt.Sprintf("TryDelete(key %d = %x): %v", op.I, e.keys[op.I], err))
				break
			}
			if ln.m[op.I] != nil {
				e.realDeletes++
			}
			ln.m[op.I] = nil
		case opGet:
			e.get(ln, op.I)
		case opSweep:
			for i := range e.keys {
				if !e.get(ln, i) {
					break
				}
			}
		case opHash:
			e.checkRoot(ln, ln.t.Hash(), "Hash()")
		case opCommit:
			e.commit(ln, false)
		case opFlush:
			e.commit(ln, true)
		case opReopen:
			if len(e.snaps) == 0 {
				break
			}
			sn := e.snaps[pick(len(e.snaps), op.N)]
			if t, ok := e.checkReopen(sn, e.tdb, "same-triedb"); ok && op.A {
				ln.t, ln.m = t, copyContent(sn.content)
			}
		case opFresh:
			fl := e.flushedSnaps()
			if len(fl) == 0 {
				break
			}
			e.checkReopen(fl[pick(len(fl), op.N)], e.db.GetTrieDatabase(), "new-triedb")
		case opProve:
			var cand []snap
			for _, s := range e.snaps {
				if present(s.content) > 0 {
					cand = append(cand, s)
				}
			}
			if len(cand) == 0 {
				break
			}
			sn := cand[pick(len(cand), op.N)]
			for j := 0; j < 3 && !e.failed; j++ {
				e.proveKey(sn, (op.I+j*7)%len(e.keys), j == 0)
			}
			// one key that is present and one that is absent, if the walk above missed either kind
			for _, wantPresent := range []bool{true, false} {
				for i := range e.keys {
					ki := (op.I + 1 + i) % len(e.keys)
					if (sn.content[ki] != nil) == wantPresent {
						if !e.failed {
							e.proveKey(sn, ki, true)
						}
						break
					}
				}
			}
		case opSwap:
			e.rebase(op.N, "new-triedb")
		case opRestart:
			if !e.closeDB() {
				e.failed = true // abandoned, not a violation
				break
			}
			e.db = store.NewChainDataBase(e.dir)
			e.restarts++
			c.Stat("database_restarts", 1)
			e.rebase(op.N, "after-restart")
		default:
			c.Inconclusive("unknown op " + op.K)
			return false
		}
	}
	nontrivial := e.evictions > 0 && e.flushes > 0 && e.reopens > 0 && e.realDeletes > 0
	kind := "plain"
	if cs.Secure {
		kind = "secure"
	}
	c.Seen("trie_configs", fmt.Sprintf("%s limit=%d lanes=%d", kind, cs.Limit, cs.Lanes))
	fp := fmt.Sprintf("trie %s lim%d lanes%d keys%d %s", kind, cs.Limit, cs.Lanes, len(cs.Keys), letters.String())
	var sample interface{}
	if origin == "gen" && index%16 == 0 || origin == "replay" || origin == "fixed" && index == 0 {
		n := len(cs.Ops)
		if n > 10 {
			n = 10
		}
		sample = map[string]interface{}{"kind": "trie", "secure": cs.Secure, "limit": cs.Limit, "lanes": cs.Lanes, "keys": len(cs.Keys),
			"first_keys": cs.Keys[:min(3, len(cs.Keys))], "ops": len(cs.Ops), "first_ops": cs.Ops[:n],
			"evicting_commits": e.evictions, "flushes": e.flushes, "reopens": e.reopens, "reads_from_triedb": e.dbReads}
	}
	c.Case(fp, nontrivial, sample)
	return !e.failed
}

func min(a, b int) int {
	if a < b {
		return a
	}
	return b
}
