// C03 — finality. Invariant monitor: random block trees and confirmation multisets are
// delivered to a real node in random orders; after every step the stable pointer must only
// move forward along one branch, stable heights must never be replaced, the head must stay
// on the stable block's subtree, and a block that became stable must carry signatures of at
// least ceil(2n/3) DISTINCT deputies of its term (miner included).
package main

import (
	"encoding/hex"
	"encoding/json"
	"fmt"
	"sync"
	"time"

	"github.com/LemoFoundationLtd/lemochain-core/chain/params"
	"github.com/LemoFoundationLtd/lemochain-core/chain/types"
	"github.com/LemoFoundationLtd/lemochain-core/common"
	"github.com/LemoFoundationLtd/lemochain-core/common/rlp"
	"github.com/LemoFoundationLtd/lemochain-core/common/verifhook"

	"verif/fx"
	"verif/fx/run"
	"verif/scn"
)

func batches(tier string) int { return 16 }

// Event is one delivery to the node under test (also the replay format).
type Event struct {
	Kind   string   // "block" | "confirms"
	Block  string   `json:",omitempty"` // RLP hex (block with embedded confirms)
	Height uint32   `json:",omitempty"`
	Hash   string   `json:",omitempty"`
	Sigs   []string `json:",omitempty"`
	Note   string   `json:",omitempty"`
}

type History struct {
	World    fx.WorldCfg
	SelfKind string // identity of the node under test: "outsider" or "deputy0"
	Prefix   []string // RLP hex of the stabilised linear prefix
	Events   []Event
}

type tree struct {
	parent map[common.Hash]common.Hash
	height map[common.Hash]uint32
}

func (t *tree) add(b *types.Block) {
	t.parent[b.Hash()] = b.ParentHash()
	t.height[b.Hash()] = b.Height()
}

// isAncestorOrSelf reports whether a is an ancestor of (or equal to) d in the harness's own record.
func (t *tree) isAncestorOrSelf(a, d common.Hash) bool {
	for cur := d; ; {
		if cur == a {
			return true
		}
		p, ok := t.parent[cur]
		if !ok {
			return false
		}
		cur = p
	}
}

type monitor struct {
	c        *run.Ctx
	V        *fx.Node
	t        *tree
	stable   *types.Block
	byHeight map[uint32]common.Hash // what GetBlockByHeight returned for stable heights
	hist     *History
	fired    map[string]bool
}

func (m *monitor) viol(class, msg string) {
	if m.fired[class] {
		return
	}
	m.fired[class] = true
	m.c.Violation("C03/"+class, msg, m.hist)
}

// distinctSigners counts the distinct deputies of the block's term among the header signature and the stored confirms.
func distinctSigners(V *fx.Node, b *types.Block) (distinct, entries int, foreign int) {
	seen := map[string]bool{}
	count := func(id []byte, err error) {
		entries++
		if err != nil || V.DM.GetDeputyByNodeID(b.Height(), id) == nil {
			foreign++
			return
		}
		seen[hex.EncodeToString(id)] = true
	}
	id, err := b.SignerNodeID()
	count(id, err)
	for _, cf := range b.Confirms {
		id, err := cf.RecoverNodeID(b.Hash())
		count(id, err)
	}
	return len(seen), entries, foreign
}

func (m *monitor) check(step string) {
	V := m.V
	st := V.BC.StableBlock()
	head := V.BC.CurrentBlock()
	m.c.Stat("invariant_checks", 1)
	if st.Hash() != m.stable.Hash() {
		m.c.Stat("stable_advances", 1)
		if st.Height() < m.stable.Height() {
			m.viol("stable-height-decreased", fmt.Sprintf("%s: stable went from height %d to %d", step, m.stable.Height(), st.Height()))
		} else if !m.t.isAncestorOrSelf(m.stable.Hash(), st.Hash()) {
			m.viol("stable-not-descendant-of-previous", fmt.Sprintf("%s: new stable %s (h%d) is not a descendant of the previous stable %s (h%d)", step, st.Hash().Prefix(), st.Height(), m.stable.Hash().Prefix(), m.stable.Height()))
		}
		// quorum of distinct deputies on the block that became stable
		stored := V.BC.GetBlockByHash(st.Hash())
		if stored == nil {
			m.viol("stable-block-unreadable", step)
		} else {
			nDep := V.DM.GetDeputiesCount(stored.Height())
			need := (2*nDep + 2) / 3
			distinct, entries, foreign := distinctSigners(V, stored)
			m.c.Stat("quorums_checked", 1)
			if distinct < need {
				switch {
				case entries >= need && foreign == 0:
					m.viol("quorum-by-reencoded-duplicate-signer", fmt.Sprintf("%s: block h%d became stable with %d signature entries but only %d distinct deputies of %d (need %d): the same deputy is counted more than once through a re-encoded signature", step, stored.Height(), entries, distinct, nDep, need))
				case entries >= need:
					m.viol("quorum-counts-non-deputy-signatures", fmt.Sprintf("%s: block h%d stable with %d entries, %d not by deputies, %d distinct deputies (need %d)", step, stored.Height(), entries, foreign, distinct, need))
				default:
					m.viol("stable-without-quorum", fmt.Sprintf("%s: block h%d stable with %d entries / %d distinct deputies of %d (need %d)", step, stored.Height(), entries, distinct, nDep, need))
				}
			}
		}
		m.stable = st
	}
	// stable heights are never replaced and lie on the stable block's ancestor path
	for h := uint32(0); h <= st.Height(); h++ {
		b := V.BC.GetBlockByHeight(h)
		if b == nil {
			m.viol("stable-height-unreadable", fmt.Sprintf("%s: height %d <= stable %d not readable", step, h, st.Height()))
			continue
		}
		if old, ok := m.byHeight[h]; ok {
			if old != b.Hash() {
				m.viol("stable-block-replaced", fmt.Sprintf("%s: height %d was %s, now %s", step, h, old.Prefix(), b.Hash().Prefix()))
			}
		} else {
			m.byHeight[h] = b.Hash()
			if h > 0 && !m.t.isAncestorOrSelf(b.Hash(), st.Hash()) {
				m.viol("stable-height-not-on-stable-path", fmt.Sprintf("%s: block at height %d is not an ancestor of the stable block", step, h))
			}
		}
		m.c.Stat("stable_heights_compared", 1)
	}
	if !m.t.isAncestorOrSelf(st.Hash(), head.Hash()) {
		m.viol("head-not-on-stable-subtree", fmt.Sprintf("%s: head %s (h%d) is not the stable block %s (h%d) or a descendant", step, head.Hash().Prefix(), head.Height(), st.Hash().Prefix(), st.Height()))
	}
}

func encBlock(b *types.Block) string {
	e, err := rlp.EncodeToBytes(b)
	if err != nil {
		panic(err)
	}
	return hex.EncodeToString(e)
}

func decBlock(s string) *types.Block {
	raw, _ := hex.DecodeString(s)
	b := new(types.Block)
	if err := rlp.DecodeBytes(raw, b); err != nil {
		panic(err)
	}
	return b
}

func sigsHex(s []types.SignData) []string {
	out := make([]string, len(s))
	for i := range s {
		out[i] = hex.EncodeToString(s[i][:])
	}
	return out
}

func (m *monitor) deliver(ev Event) {
	m.hist.Events = append(m.hist.Events, ev)
	m.c.WAL(m.hist)
	switch ev.Kind {
	case "block":
		b := decBlock(ev.Block)
		fx.SetSelf(m.V.Self)
		if err := m.V.BC.InsertBlock(b); err == nil {
			m.c.Stat("blocks_accepted", 1)
		} else {
			m.c.Stat("blocks_rejected", 1)
		}
		m.check("block h" + fmt.Sprint(b.Height()))
	case "confirms-concurrent":
		// every signature is its own packet, all of them in flight at once (the network layer starts a goroutine per
		// confirm message)
		fx.SetSelf(m.V.Self)
		var wg sync.WaitGroup
		for _, s := range ev.Sigs {
			raw, _ := hex.DecodeString(s)
			sig := types.BytesToSignData(raw)
			wg.Add(1)
			go func() {
				defer wg.Done()
				m.V.BC.InsertConfirms(ev.Height, common.HexToHash(ev.Hash), []types.SignData{sig})
			}()
		}
		wg.Wait()
		m.c.Stat("concurrent_confirm_deliveries", 1)
		m.c.Stat("confirm_signatures", int64(len(ev.Sigs)))
		m.check("concurrent confirms h" + fmt.Sprint(ev.Height) + " " + ev.Note)
	case "confirms":
		var sigs []types.SignData
		for _, s := range ev.Sigs {
			raw, _ := hex.DecodeString(s)
			sigs = append(sigs, types.BytesToSignData(raw))
		}
		fx.SetSelf(m.V.Self)
		m.V.BC.InsertConfirms(ev.Height, common.HexToHash(ev.Hash), sigs)
		m.c.Stat("confirm_packets", 1)
		m.c.Stat("confirm_signatures", int64(len(sigs)))
		m.check("confirms h" + fmt.Sprint(ev.Height) + " " + ev.Note)
	}
}

// confirmPool builds the multiset of signatures an adversarial network could deliver for a block.
func confirmPool(r *run.Rng, V *fx.Node, w *fx.World, b *types.Block, sibling *types.Block, hostile bool) (sigs []types.SignData, notes []string) {
	add := func(s types.SignData, note string) { sigs = append(sigs, s); notes = append(notes, note) }
	for _, dn := range V.DM.GetDeputiesByHeight(b.Height(), true) {
		k, ok := w.DeputyByAddr(dn.MinerAddress)
		if !ok {
			continue
		}
		s := fx.SignBlock(b.Hash(), k)
		if dn.MinerAddress == b.MinerAddress() {
			if hostile {
				add(types.BytesToSignData(fx.HighS(b.Header.SignData)), "miner-sig-high-s")
				add(types.BytesToSignData(b.Header.SignData), "miner-sig-copy")
			}
			continue
		}
		if r.Chance(2, 3) {
			add(s, "valid")
		}
		if hostile && r.Chance(1, 2) {
			add(types.BytesToSignData(fx.HighS(s[:])), "high-s-twin")
		}
		if hostile && r.Chance(1, 4) {
			add(s, "duplicate")
		}
		if hostile && sibling != nil && r.Chance(1, 4) {
			add(fx.SignBlock(sibling.Hash(), k), "sig-for-sibling")
		}
	}
	// nodes the term record lists behind the deputy cut sign too
	isDep := map[common.Address]bool{}
	for _, dn := range V.DM.GetDeputiesByHeight(b.Height(), true) {
		isDep[dn.MinerAddress] = true
	}
	for _, k := range w.Deputies {
		if !isDep[k.Addr] {
			add(fx.SignBlock(b.Hash(), k), "listed-candidate-not-deputy")
		}
	}
	if hostile {
		add(fx.SignBlock(b.Hash(), w.Outsider), "outsider")
		add(types.BytesToSignData(r.Bytes(65)), "random-bytes")
	}
	return
}

func scenario(c *run.Ctx, idx int, fixed bool) {
	r := run.NewRng(c.Seed, 3, uint64(idx))
	if fixed {
		r = run.NewRng(77, 3, uint64(idx))
	}
	nDep := 1 + idx%7
	if fixed {
		nDep = 5
	}
	wcfg := fx.WorldCfg{Deputies: nDep, Users: 4, SlotMs: uint64(1000 * r.Range(2, 5))}
	if idx%4 == 3 && !fixed {
		wcfg.DeputyCap = nDep + 3
	}
	// surplus: the genesis term record lists more nodes than the nodes' configured deputy count; the nodes behind the
	// cut are candidates, not deputies of the term, and their (valid) signatures must not count
	surplus := 0
	if idx%8 == 6 && !fixed {
		surplus = r.Range(1, 2)
		wcfg.Deputies, wcfg.DeputyCap = nDep+surplus, nDep
	}
	w := fx.NewWorld(wcfg)
	wcfg.GenesisTime, wcfg.SlotMs = w.GenesisTime, w.SlotMs
	dir := fx.ScratchDir("c03")
	selfKind := "outsider"
	self := w.Outsider
	if idx%3 == 2 && !fixed {
		selfKind, self = "deputy0", w.Deputies[0]
	}
	Bn := w.NewNode(fx.PathOf(dir, "builder"), w.Outsider)
	V := w.NewNode(fx.PathOf(dir, "victim"), self)
	defer func() { Bn.Destroy(); V.Destroy() }()
	hist := &History{World: wcfg, SelfKind: selfKind}
	tr := &tree{parent: map[common.Hash]common.Hash{}, height: map[common.Hash]uint32{}}
	g := V.BC.Genesis()
	tr.height[g.Hash()] = 0
	m := &monitor{c: c, V: V, t: tr, stable: V.BC.StableBlock(), byHeight: map[uint32]common.Hash{}, hist: hist, fired: map[string]bool{}}
	B := fx.TxB{W: w}
	slot := uint32(w.SlotMs / 1000)
	// linear stabilised prefix (both nodes)
	head := g
	prefixLen := r.Range(1, 4)
	if idx%4 == 1 {
		prefixLen = scn.Term - r.Range(1, 3) // the tree will contain the snapshot block
	}
	// growth: users register as candidates in the first blocks, so that the term elected at the snapshot block has more
	// deputies than the genesis term (a larger two-thirds threshold from the first block the new term signs); the block
	// tree then lies in the new term
	growth := 0
	if idx%4 == 3 && !fixed {
		growth = r.Range(1, 3)
		prefixLen = scn.Term + scn.Interim + r.Range(1, 3)
	}
	for i := 0; i < prefixLen; i++ {
		t := head.Time() + uint32(r.Range(1, int(2*slot)))
		var txs types.Transactions
		if i == 0 {
			txs = types.Transactions{B.Transfer(w.Founder, w.Users[0].Addr, fx.LEMO(1000), uint64(t)+600)}
			for j := 0; j < growth; j++ {
				txs = append(txs, B.Transfer(w.Founder, w.Users[1+j].Addr, fx.LEMO(5000000), uint64(t)+601+uint64(j)))
			}
		}
		if i == 1 {
			for j := 0; j < growth; j++ {
				k := w.Users[1+j]
				txs = append(txs, B.Register(k, fx.Profile(k, k.Addr, true, "growth"), params.MinCandidateDeposit, uint64(t)+600+uint64(j)))
			}
		}
		res, err := Bn.Mine(head, t, txs, "")
		if err != nil {
			return
		}
		if Bn.Insert(res.Block, true) != nil || V.Insert(res.Block, true) != nil {
			return
		}
		Bn.Stabilise(res.Block)
		V.Confirms(res.Block, Bn.ConfirmsOf(res.Block))
		tr.add(res.Block)
		hist.Prefix = append(hist.Prefix, encBlock(res.Block))
		head = res.Block
	}
	m.stable = V.BC.StableBlock()
	m.check("prefix")
	if growth > 0 {
		if got := V.DM.GetDeputiesCount(head.Height() + 1); got == nDep+growth {
			c.Stat("scenarios_with_more_deputies_in_the_new_term", 1)
			c.Seen("deputy_count_changes", fmt.Sprintf("%d->%d", nDep, got))
		} else {
			c.Stat("growth_not_effective", 1)
		}
	}
	// block tree above the stable block, built on the builder node only
	type node struct {
		b     *types.Block
		depth int
	}
	nodes := []node{{head, 0}}
	var built []*types.Block
	nTree := r.Range(3, 10)
	for i := 0; i < nTree; i++ {
		p := nodes[r.Intn(len(nodes))]
		if p.depth >= 6 {
			continue
		}
		if sb := Bn.BC.StableBlock(); p.b.Height() < sb.Height() || (p.b.Height() == sb.Height() && p.b.Hash() != sb.Hash()) {
			continue // with one deputy every block is stable at once: nothing can be mined below the stable block
		}
		t := p.b.Time() + uint32(r.Range(1, int(slot)*nDep+2))
		var txs types.Transactions
		if r.Chance(1, 2) {
			txs = types.Transactions{B.Transfer(w.Users[0], w.Users[1].Addr, fx.LEMO(int64(1+i)), uint64(t)+600+uint64(i))}
		}
		res, err := Bn.Mine(p.b, t, txs, fmt.Sprintf("t%d", i))
		if err != nil {
			continue
		}
		if Bn.Insert(res.Block, true) != nil {
			continue
		}
		tr.add(res.Block)
		built = append(built, res.Block)
		nodes = append(nodes, node{res.Block, p.depth + 1})
	}
	if fixed {
		// regression witness: the same two deputies confirm a block twice each (high-s twins) -> 5 entries, 3 distinct of 5 (need 4)
		if len(built) == 0 {
			return
		}
		b := built[0]
		m.deliver(Event{Kind: "block", Block: encBlock(fx.Wire(b, false))})
		var sigs []types.SignData
		cnt := 0
		for _, dn := range V.DM.GetDeputiesByHeight(b.Height(), true) {
			if dn.MinerAddress == b.MinerAddress() || cnt >= 2 {
				continue
			}
			k, _ := w.DeputyByAddr(dn.MinerAddress)
			s := fx.SignBlock(b.Hash(), k)
			sigs = append(sigs, s, types.BytesToSignData(fx.HighS(s[:])))
			cnt++
		}
		m.deliver(Event{Kind: "confirms", Height: b.Height(), Hash: b.Hash().Hex(), Sigs: sigsHex(sigs), Note: "two deputies, each signature plus its high-s twin"})
		c.Case("fixed high-s twins", true, map[string]interface{}{"deputies": nDep, "events": len(hist.Events)})
		return
	}
	// events: every block (some with embedded confirms), confirm packets drawn from the adversarial pool
	hostile := idx%2 == 0
	var events []Event
	sibOf := func(b *types.Block) *types.Block {
		for _, o := range built {
			if o.Height() == b.Height() && o.Hash() != b.Hash() {
				return o
			}
		}
		return nil
	}
	for _, b := range built {
		wb := fx.Wire(b, false)
		sigs, notes := confirmPool(r, V, w, b, sibOf(b), hostile)
		perm := r.Perm(len(sigs))
		k := 0
		if r.Chance(1, 3) && len(sigs) > 0 {
			k = r.Range(1, len(sigs))
			for _, i := range perm[:k] {
				wb.Confirms = append(wb.Confirms, sigs[i])
			}
		}
		events = append(events, Event{Kind: "block", Block: encBlock(wb), Height: b.Height()})
		if r.Chance(1, 4) {
			events = append(events, Event{Kind: "block", Block: encBlock(wb), Height: b.Height(), Note: "duplicate delivery"})
		}
		// the rest in 1..3 packets
		rest := perm[k:]
		for len(rest) > 0 {
			n := r.Range(1, len(rest))
			var pk []types.SignData
			note := ""
			for _, i := range rest[:n] {
				pk = append(pk, sigs[i])
				note += notes[i] + ","
			}
			rest = rest[n:]
			h := b.Height()
			if hostile && r.Chance(1, 8) {
				h++
				note += "wrong-height"
			}
			events = append(events, Event{Kind: "confirms", Height: h, Hash: b.Hash().Hex(), Sigs: sigsHex(pk), Note: note})
		}
	}
	if hostile {
		// one deputy's confirm in both of its encodings (and the same bytes twice), all in flight at once
		for _, b := range built {
			if !r.Chance(1, 2) {
				continue
			}
			for _, dn := range V.DM.GetDeputiesByHeight(b.Height(), true) {
				if dn.MinerAddress == b.MinerAddress() {
					continue
				}
				if k, ok := w.DeputyByAddr(dn.MinerAddress); ok {
					s := fx.SignBlock(b.Hash(), k)
					tw := types.BytesToSignData(fx.HighS(s[:]))
					events = append(events, Event{Kind: "confirms-concurrent", Height: b.Height(), Hash: b.Hash().Hex(), Sigs: sigsHex([]types.SignData{s, tw, s}), Note: "one deputy: signature, high-s twin, signature again"})
					break
				}
			}
		}
		events = append(events, Event{Kind: "confirms", Height: head.Height() + 1, Hash: common.BytesToHash(r.Bytes(32)).Hex(), Sigs: sigsHex([]types.SignData{fx.SignBlock(common.Hash{}, w.Deputies[0])}), Note: "unknown block"})
	}
	// random arrival order; blocks whose parent has not arrived are offered again later (the node keeps nothing of a rejected block)
	perm := r.Perm(len(events))
	queue := make([]Event, len(events))
	for i, p := range perm {
		queue[i] = events[p]
	}
	for round := 0; round < 3 && len(queue) > 0; round++ {
		var again []Event
		for _, ev := range queue {
			m.deliver(ev)
			if ev.Kind == "block" {
				b := decBlock(ev.Block)
				if !V.BC.HasBlock(b.Hash()) && b.Height() > V.BC.StableBlock().Height() {
					again = append(again, ev)
				}
			} else if round == 0 && !V.BC.HasBlock(common.HexToHash(ev.Hash)) {
				// (both kinds of confirm deliveries)
				again = append(again, ev) // confirms that arrived before their block are re-sent once
			}
		}
		queue = again
	}
	if surplus > 0 {
		c.Stat("scenarios_with_listed_nodes_behind_the_deputy_cut", 1)
	}
	shape := fmt.Sprintf("n%d+%d self=%s prefix%d tree%d hostile=%v", nDep, growth, selfKind, prefixLen, len(built), hostile)
	siblings := false
	for _, b := range built {
		if sibOf(b) != nil {
			siblings = true
		}
	}
	c.Case(shape, siblings && len(built) >= 3, map[string]interface{}{"deputies": nDep, "self": selfKind, "prefix": prefixLen, "tree_blocks": len(built), "events": len(hist.Events),
		"final_stable": V.BC.StableBlock().Height(), "final_head": V.BC.CurrentBlock().Height()})
}

// yieldBetweenVerifyAndSave: whoever verified a confirm packet waits a moment before saving it (harmless while both happen
// under the chain lock).
func yieldBetweenVerifyAndSave() {
	verifhook.SetYield(func(site string) {
		if site == "consensus.insertConfirms:between-verify-and-save" {
			time.Sleep(500 * time.Microsecond)
		}
	})
}

func runAll(c *run.Ctx) {
	yieldBetweenVerifyAndSave()
	fx.Quiet()
	scn.SetParams()
	if c.Batch == 0 {
		scenario(c, 0, true)
	}
	n := c.Pick(320, 8000)
	lo, hi := c.Share(n)
	for i := lo; i < hi; i++ {
		scenario(c, i, false)
	}
}

func replay(c *run.Ctx, raw json.RawMessage) {
	yieldBetweenVerifyAndSave()
	fx.Quiet()
	scn.SetParams()
	var h History
	if err := json.Unmarshal(raw, &h); err != nil {
		c.Inconclusive("bad witness: " + err.Error())
		return
	}
	w := fx.NewWorld(h.World)
	self := w.Outsider
	if h.SelfKind == "deputy0" {
		self = w.Deputies[0]
	}
	dir := fx.ScratchDir("c03r")
	V := w.NewNode(fx.PathOf(dir, "victim"), self)
	defer V.Destroy()
	tr := &tree{parent: map[common.Hash]common.Hash{}, height: map[common.Hash]uint32{}}
	for _, hx := range h.Prefix {
		b := decBlock(hx)
		if err := V.Insert(b, true); err != nil {
			c.Inconclusive("prefix block rejected: " + err.Error())
			return
		}
		V.Stabilise(b)
		tr.add(b)
	}
	for _, ev := range h.Events {
		if ev.Kind == "block" {
			tr.add(decBlock(ev.Block))
		}
	}
	m := &monitor{c: c, V: V, t: tr, stable: V.BC.StableBlock(), byHeight: map[uint32]common.Hash{}, hist: &History{World: h.World, SelfKind: h.SelfKind, Prefix: h.Prefix}, fired: map[string]bool{}}
	for _, ev := range h.Events {
		m.deliver(ev)
	}
	c.Case("replay", true, nil)
}

func main() { run.Main(run.Engine{Batches: batches, Run: runAll, Replay: replay}) }
