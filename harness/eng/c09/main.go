// C09 — per-block state views are isolated across forks and pruned exactly when stable.
//
// The engine drives the real store.ChainDatabase the way the node does (SetBlock, then the
// block's account writes through GetActDatabase(hash).Put(data, height) while the block has
// no children, reads through any live block's view at any time, SetStableBlock) with seeded
// random histories, and keeps a reference model (tree of blocks, write set per block,
// persisted map) in lock-step. After every operation the monitors compare every live
// block's view of every address, the tree listings and — after a stabilisation — the pruned
// set, the descendants' views and the persisted account data with the model.
package main

import (
	"encoding/hex"
	"encoding/json"
	"fmt"
	"math/big"
	"os"
	"path/filepath"
	"strings"
	"time"

	"github.com/LemoFoundationLtd/lemochain-core/chain/types"
	"github.com/LemoFoundationLtd/lemochain-core/common"
	"github.com/LemoFoundationLtd/lemochain-core/common/merkle"
	"github.com/LemoFoundationLtd/lemochain-core/store"

	"verif/fx"
	"verif/fx/run"
)

const (
	maxDepth    = 8  // unconfirmed depth above the stable block
	maxChildren = 4  // branching
	maxUnconf   = 22 // live unconfirmed blocks before the generator insists on a stabilisation
)

// Op is one step of a history. Blocks are numbered in creation order (0 = genesis).
//
//	block  : create block number len(blocks) as a child of block B (B = -1: the genesis)
//	write  : block B writes address A with the unique value V (only while B has no children)
//	read   : AccountTrieDB.Get of address A through the view of block B (caches in place)
//	stable : SetStableBlock(B)
//	sweep  : AccountTrieDB.Get of every address through every live view
//	reopen : close the database and open it again (a restart: the unconfirmed tree is lost,
//	         the stable block's view starts with an empty trie and is filled by reads)
type Op struct {
	K string `json:"k"`
	B int    `json:"b"`
	A int    `json:"a,omitempty"`
	V int64  `json:"v,omitempty"`
}

// Case is one history; it is also the replay witness.
type Case struct {
	Name  string   `json:",omitempty"`
	Addrs []string // 20-byte addresses, hex
	Mut   bool     // true: after every operation the monitor additionally sweeps all views with the caching Get (the side-effect-free sweep - trie Find, else disk - always runs)
	Ops   []Op
	// filled in when a monitor fires
	FailedAt int    `json:",omitempty"`
	What     string `json:",omitempty"`
}

// ---------------------------------------------------------------------------------------
// reference model

const (
	stLive   = 0 // unconfirmed, in the tree
	stStable = 1 // on the stable path
	stPruned = 2
	stLost   = 3 // unconfirmed when the database was closed
)

type mblk struct {
	parent   int
	height   uint32
	writes   map[int]int64
	children []int
	state    int
}

type model struct {
	blocks    []*mblk
	root      int // current stable block, -1 until the genesis is stable
	persisted map[int]int64
	owner     map[int64][2]int // value -> (block, address)
	stable    []int            // stable block per height
}

func newModel() *model {
	return &model{root: -1, persisted: map[int]int64{}, owner: map[int64][2]int{}}
}

func (m *model) addBlock(parent int) int {
	b := &mblk{parent: parent, writes: map[int]int64{}}
	if parent >= 0 {
		b.height = m.blocks[parent].height + 1
		m.blocks[parent].children = append(m.blocks[parent].children, len(m.blocks))
	}
	m.blocks = append(m.blocks, b)
	return len(m.blocks) - 1
}

func (m *model) write(b, a int, v int64) {
	m.blocks[b].writes[a] = v
	m.owner[v] = [2]int{b, a}
}

// read is the statement: nearest ancestor-or-self above the stable block that wrote a,
// else the stable value (0 = the account does not exist). src is the writing block or -1.
func (m *model) read(b, a int) (int64, int) {
	for i := b; i >= 0 && m.blocks[i].state == stLive; i = m.blocks[i].parent {
		if v, ok := m.blocks[i].writes[a]; ok {
			return v, i
		}
	}
	return m.persisted[a], -1
}

func (m *model) isAncestorOrSelf(w, b int) bool {
	for i := b; i >= 0; i = m.blocks[i].parent {
		if i == w {
			return true
		}
	}
	return false
}

func (m *model) isLive(i int) bool { return i == m.root || m.blocks[i].state == stLive }

// liveBlocks lists the stable block (if any) and every unconfirmed block.
func (m *model) liveBlocks() []int {
	var out []int
	for i := range m.blocks {
		if m.isLive(i) {
			out = append(out, i)
		}
	}
	return out
}

func (m *model) unconfirmed() []int {
	var out []int
	for i, b := range m.blocks {
		if b.state == stLive {
			out = append(out, i)
		}
	}
	return out
}

func (m *model) liveChildren(p int) int {
	n := 0
	for _, c := range m.blocks[p].children {
		if m.blocks[c].state == stLive {
			n++
		}
	}
	return n
}

func (m *model) rootHeight() uint32 {
	if m.root < 0 {
		return 0
	}
	return m.blocks[m.root].height
}

func (m *model) depth(i int) int { return int(m.blocks[i].height) - int(m.rootHeight()) }

// stabilise makes s stable: the write sets on the path old stable -> s are folded into
// persisted in order, every unconfirmed block that is not a descendant of s disappears.
func (m *model) stabilise(s int) (path, pruned, desc []int) {
	for i := s; i >= 0 && m.blocks[i].state == stLive; i = m.blocks[i].parent {
		path = append([]int{i}, path...)
	}
	for _, p := range path {
		b := m.blocks[p]
		for a, v := range b.writes {
			m.persisted[a] = v
		}
		b.state = stStable
		for len(m.stable) <= int(b.height) {
			m.stable = append(m.stable, -1)
		}
		m.stable[b.height] = p
	}
	for i, b := range m.blocks {
		if b.state != stLive {
			continue
		}
		if m.isAncestorOrSelf(s, i) {
			desc = append(desc, i)
		} else {
			b.state = stPruned
			pruned = append(pruned, i)
		}
	}
	m.root = s
	return
}

func (m *model) apply(op Op) {
	switch op.K {
	case "block":
		m.addBlock(op.B)
	case "write":
		m.write(op.B, op.A, op.V)
	case "stable":
		m.stabilise(op.B)
	case "reopen":
		for _, b := range m.blocks {
			if b.state == stLive {
				b.state = stLost
			}
		}
	}
}

// ---------------------------------------------------------------------------------------
// generator

func setNibble(a *[20]byte, pos int, v byte) {
	if pos%2 == 0 {
		a[pos/2] = a[pos/2]&0x0f | v<<4
	} else {
		a[pos/2] = a[pos/2]&0xf0 | v&0x0f
	}
}

// genAddrs: addresses share a long hex prefix and differ in the last nibbles (node splits
// at several depths); a few differ early so that the trie root has several children.
func genAddrs(r *run.Rng, n int) []string {
	var base [20]byte
	copy(base[:], r.Bytes(20))
	alpha := []byte{0x0, 0x1, 0xf}
	seen := map[[20]byte]bool{}
	var out []string
	for len(out) < n {
		a := base
		switch x := r.Intn(10); {
		case x < 6:
			k := r.Range(1, 4)
			for j := 0; j < k; j++ {
				setNibble(&a, 39-j, alpha[r.Intn(3)])
			}
		case x < 8:
			setNibble(&a, r.Range(20, 37), byte(r.Intn(16)))
			setNibble(&a, 39, alpha[r.Intn(3)])
		case x < 9:
			setNibble(&a, 0, byte(r.Intn(16)))
		default:
			setNibble(&a, 1, byte(r.Intn(16)))
			setNibble(&a, 39, byte(r.Intn(16)))
		}
		if seen[a] {
			continue
		}
		seen[a] = true
		out = append(out, hex.EncodeToString(a[:]))
	}
	return out
}

type generator struct {
	r    *run.Rng
	m    *model
	cs   *Case
	next int64
	hot  []int
	n    int // addresses
	last int // last created block
}

func (g *generator) push(op Op) {
	g.cs.Ops = append(g.cs.Ops, op)
	g.m.apply(op)
}

func (g *generator) addr() int {
	if g.r.Chance(3, 5) {
		return g.hot[g.r.Intn(len(g.hot))]
	}
	return g.r.Intn(g.n)
}

func (g *generator) anyLive() int {
	l := g.m.liveBlocks()
	return l[g.r.Intn(len(l))]
}

// block creates a child of parent followed by its save window: the block's writes with
// reads (of this and other views) interleaved before, between and after them.
func (g *generator) block(parent int, must []int) int {
	g.push(Op{K: "block", B: parent})
	b := len(g.m.blocks) - 1
	g.last = b
	var ws []int
	seen := map[int]bool{}
	for _, a := range must {
		if !seen[a] {
			seen[a] = true
			ws = append(ws, a)
		}
	}
	if parent < 0 {
		// the genesis creates many accounts so that stable values are common
		for _, a := range g.r.Perm(g.n)[:g.r.Range(g.n/3, g.n)] {
			seen[a] = true
			ws = append(ws, a)
		}
	} else if !g.r.Chance(1, 8) {
		for i, k := 0, g.r.Range(1, 5); i < k; i++ {
			a := g.addr()
			if !seen[a] {
				seen[a] = true
				ws = append(ws, a)
			}
		}
	}
	// shuffle the write order
	for i := len(ws) - 1; i > 0; i-- {
		j := g.r.Intn(i + 1)
		ws[i], ws[j] = ws[j], ws[i]
	}
	for _, a := range ws {
		if g.r.Chance(2, 5) {
			tb := b
			switch g.r.Intn(5) {
			case 0:
				if parent >= 0 && g.m.isLive(parent) {
					tb = parent
				}
			case 1:
				tb = g.anyLive()
			}
			ta := a
			if g.r.Chance(1, 3) {
				ta = g.r.Intn(g.n)
			}
			g.push(Op{K: "read", B: tb, A: ta})
		}
		g.push(Op{K: "write", B: b, A: a, V: g.next})
		g.next++
	}
	if len(ws) > 0 && g.r.Chance(1, 2) {
		tb := b
		if g.r.Chance(1, 2) {
			tb = g.anyLive()
		}
		g.push(Op{K: "read", B: tb, A: ws[g.r.Intn(len(ws))]})
	}
	return b
}

func (g *generator) parents(maxKids int) []int {
	var out []int
	for _, i := range g.m.liveBlocks() {
		if g.m.depth(i) < maxDepth && g.m.liveChildren(i) <= maxKids {
			out = append(out, i)
		}
	}
	return out
}

func (g *generator) stable() bool {
	u := g.m.unconfirmed()
	if len(u) == 0 {
		return false
	}
	var near []int
	for _, i := range u {
		if g.m.depth(i) <= 2 {
			near = append(near, i)
		}
	}
	s := u[g.r.Intn(len(u))]
	if len(near) > 0 && g.r.Chance(1, 2) {
		s = near[g.r.Intn(len(near))]
	}
	g.push(Op{K: "stable", B: s})
	return true
}

// gen builds one database life: the genesis, then nHist histories. Every history but the
// first starts with a reopen of the database (the unconfirmed tree is lost, the stable
// state carries over, the stable view's trie is empty and is filled by reads); the first
// one does so with probability 2/3.
func gen(r *run.Rng, nHist int, opsLo, opsHi int) Case {
	cs := Case{}
	n := r.Range(16, 24)
	cs.Addrs = genAddrs(r, n)
	cs.Mut = r.Chance(1, 3)
	g := &generator{r: r, m: newModel(), cs: &cs, next: 1, n: n}
	g.hot = r.Perm(n)[:r.Range(3, 6)]
	// prelude: the genesis, its accounts, stable
	g.block(-1, nil)
	g.push(Op{K: "stable", B: 0})
	for h := 0; h < nHist; h++ {
		if h > 0 || r.Chance(2, 3) {
			g.push(Op{K: "reopen"})
		}
		g.hot = r.Perm(n)[:r.Range(3, 6)]
		g.history(r.Range(opsLo, opsHi))
	}
	return cs
}

// history appends about nOps operations that build, read and stabilise one unconfirmed tree.
func (g *generator) history(nOps int) {
	r, cs := g.r, g.cs
	start := len(cs.Ops)
	nOps += start
	stables := 0
	for len(cs.Ops) < nOps {
		unconf := len(g.m.unconfirmed())
		x := r.Intn(100)
		pos := (len(cs.Ops) - start) * 100 / (nOps - start)
		force := unconf > 0 && (stables == 0 && pos > 45 || stables == 1 && pos > 80)
		switch {
		case force || unconf >= maxUnconf || (x < 11 && unconf > 0):
			if g.stable() {
				stables++
			}
		case x < 55:
			ps := g.parents(maxChildren - 1)
			if len(ps) == 0 {
				if g.stable() {
					stables++
				}
				continue
			}
			p := ps[r.Intn(len(ps))]
			switch y := r.Intn(10); {
			case y < 3:
				// a sibling of the block created last (equal height)
				lp := g.m.blocks[g.last].parent
				if lp >= 0 && g.m.isLive(lp) && g.m.isLive(g.last) && g.m.liveChildren(lp) < maxChildren && g.m.depth(lp) < maxDepth {
					p = lp
				}
			case y < 6:
				// extend the block created last / a deepest block
				if g.m.isLive(g.last) && g.m.depth(g.last) < maxDepth && g.m.liveChildren(g.last) < maxChildren {
					p = g.last
				}
			}
			g.block(p, nil)
		case x < 65:
			// fork burst: 2..3 siblings of one parent that all write one address
			ps := g.parents(maxChildren - 2)
			if len(ps) == 0 {
				continue
			}
			p := ps[r.Intn(len(ps))]
			k := r.Range(2, maxChildren-g.m.liveChildren(p))
			if k > 3 {
				k = 3
			}
			a := g.addr()
			if r.Chance(1, 2) {
				g.push(Op{K: "read", B: p, A: a})
			}
			for i := 0; i < k; i++ {
				g.block(p, []int{a})
			}
		case x < 96:
			for i, k := 0, r.Range(1, 3); i < k; i++ {
				g.push(Op{K: "read", B: g.anyLive(), A: g.addr()})
			}
		default:
			g.push(Op{K: "sweep"})
		}
	}
}

// fixedCases are hand-written histories executed by batch 0 in every tier and seed.
func fixedCases() []Case {
	pre := "5a5a5a5a5a5a5a5a5a5a5a5a5a5a5a5a5a5a5a5a"
	mk := func(tails ...string) []string {
		var out []string
		for _, t := range tails {
			out = append(out, pre[:40-len(t)]+t)
		}
		return out
	}
	addrs := mk("0000", "0001", "0010", "0011", "0f00", "f000", "1", "00ff")
	addrs = append(addrs, "1"+pre[1:], "f"+pre[1:38]+"00")
	var out []Case
	// 1. a cached read in the parent, then three siblings at equal height write the same
	// address; one of them becomes stable; building continues on it.
	out = append(out, Case{Name: "siblings-same-address", Addrs: addrs, Ops: []Op{
		{K: "block", B: -1}, {K: "write", B: 0, A: 0, V: 1}, {K: "write", B: 0, A: 1, V: 2}, {K: "stable", B: 0},
		{K: "block", B: 0}, {K: "write", B: 1, A: 2, V: 3},
		{K: "read", B: 1, A: 0}, {K: "read", B: 1, A: 3},
		{K: "block", B: 1}, {K: "read", B: 2, A: 0}, {K: "write", B: 2, A: 0, V: 4},
		{K: "block", B: 1}, {K: "write", B: 3, A: 0, V: 5}, {K: "write", B: 3, A: 3, V: 6},
		{K: "block", B: 1}, {K: "read", B: 4, A: 3}, {K: "write", B: 4, A: 0, V: 7}, {K: "write", B: 4, A: 1, V: 8},
		{K: "read", B: 1, A: 0}, {K: "read", B: 0, A: 0},
		{K: "block", B: 3}, {K: "write", B: 5, A: 4, V: 9},
		{K: "stable", B: 3},
		{K: "block", B: 5}, {K: "write", B: 6, A: 0, V: 10},
		{K: "block", B: 5}, {K: "read", B: 7, A: 0}, {K: "write", B: 7, A: 3, V: 11},
		{K: "sweep"},
		{K: "stable", B: 7},
	}})
	// 2. a chain with side branches at every level; the stable block jumps three levels.
	out = append(out, Case{Name: "multi-level-stabilisation", Addrs: addrs, Mut: true, Ops: []Op{
		{K: "block", B: -1}, {K: "write", B: 0, A: 5, V: 1}, {K: "stable", B: 0},
		{K: "block", B: 0}, {K: "write", B: 1, A: 0, V: 2}, {K: "write", B: 1, A: 8, V: 3},
		{K: "block", B: 0}, {K: "write", B: 2, A: 0, V: 4},
		{K: "block", B: 1}, {K: "write", B: 3, A: 1, V: 5}, {K: "write", B: 3, A: 0, V: 6},
		{K: "block", B: 1}, {K: "write", B: 4, A: 1, V: 7},
		{K: "block", B: 3}, {K: "write", B: 5, A: 9, V: 8},
		{K: "block", B: 3}, {K: "write", B: 6, A: 9, V: 9}, {K: "write", B: 6, A: 5, V: 10},
		{K: "block", B: 5}, {K: "write", B: 7, A: 7, V: 11},
		{K: "block", B: 2}, {K: "write", B: 8, A: 7, V: 12},
		{K: "stable", B: 5},
		{K: "block", B: 7}, {K: "write", B: 9, A: 0, V: 13},
		{K: "block", B: 5}, {K: "write", B: 10, A: 0, V: 14},
		{K: "stable", B: 10},
	}})
	// 3. reads of accounts that do not exist yet, through sibling views, around the writes.
	out = append(out, Case{Name: "absent-then-written", Addrs: addrs, Ops: []Op{
		{K: "block", B: -1}, {K: "stable", B: 0},
		{K: "block", B: 0}, {K: "read", B: 1, A: 6}, {K: "write", B: 1, A: 6, V: 1},
		{K: "block", B: 0}, {K: "read", B: 2, A: 6}, {K: "read", B: 0, A: 6},
		{K: "block", B: 2}, {K: "write", B: 3, A: 6, V: 2}, {K: "write", B: 3, A: 2, V: 3},
		{K: "read", B: 2, A: 6}, {K: "read", B: 1, A: 2},
		{K: "stable", B: 2},
		{K: "read", B: 2, A: 6}, {K: "read", B: 3, A: 6},
		{K: "block", B: 2}, {K: "read", B: 4, A: 6}, {K: "write", B: 4, A: 2, V: 4},
		{K: "stable", B: 3},
	}})
	// 4. after a restart the stable view's trie is empty: a read through one sibling caches
	// the stable value in the root node all views share, then the other sibling overwrites it.
	out = append(out, Case{Name: "cached-stable-value-then-sibling-write", Addrs: addrs, Ops: []Op{
		{K: "block", B: -1}, {K: "write", B: 0, A: 0, V: 1}, {K: "write", B: 0, A: 1, V: 2}, {K: "write", B: 0, A: 3, V: 3}, {K: "write", B: 0, A: 8, V: 4},
		{K: "stable", B: 0}, {K: "reopen"},
		{K: "read", B: 0, A: 0},
		{K: "block", B: 0}, {K: "read", B: 1, A: 1}, {K: "write", B: 1, A: 0, V: 5},
		{K: "block", B: 0}, {K: "read", B: 2, A: 0}, {K: "read", B: 2, A: 1}, {K: "write", B: 2, A: 1, V: 6},
		{K: "read", B: 0, A: 0}, {K: "read", B: 1, A: 1}, {K: "read", B: 1, A: 3},
		{K: "block", B: 1}, {K: "write", B: 3, A: 3, V: 7}, {K: "write", B: 3, A: 2, V: 8},
		{K: "block", B: 1}, {K: "read", B: 4, A: 2}, {K: "write", B: 4, A: 3, V: 9},
		{K: "stable", B: 1},
		{K: "read", B: 3, A: 1}, {K: "read", B: 4, A: 8},
		{K: "reopen"},
		{K: "block", B: 1}, {K: "read", B: 5, A: 0}, {K: "read", B: 5, A: 3}, {K: "write", B: 5, A: 3, V: 10},
		{K: "block", B: 1}, {K: "write", B: 6, A: 3, V: 11}, {K: "read", B: 1, A: 3},
		{K: "stable", B: 6},
	}})
	// 5. regression (found by the thorough tier, seed 1): PatriciaTrie.put's split case hands
	// the old node's children slice to the new lower node; a later read-through insert
	// through the parent's view appends into the spare capacity of that slice and shifts the
	// elements the child's view still uses.
	//   after the restart block 1 reads r0, r1 (the shared root gets a prefix node with two
	//   children) and writes r3 (clone of the prefix node + append: len 3, cap 4); block 2
	//   writes r4, which splits the prefix node in the middle (lower half shares the slice);
	//   a read of r2 through block 1 inserts before r3 in place -> block 2's view loses r3.
	p18 := pre[:36]
	raddrs := []string{p18 + "0000", p18 + "0001", p18 + "0002", p18 + "000f", p18[:20] + "f" + p18[21:] + "0000"}
	out = append(out, Case{Name: "regress-split-shares-children-slice", Addrs: raddrs, Ops: []Op{
		{K: "block", B: -1}, {K: "write", B: 0, A: 0, V: 1}, {K: "write", B: 0, A: 1, V: 2}, {K: "write", B: 0, A: 2, V: 3}, {K: "write", B: 0, A: 3, V: 4},
		{K: "stable", B: 0}, {K: "reopen"},
		{K: "block", B: 0}, {K: "read", B: 1, A: 0}, {K: "read", B: 1, A: 1}, {K: "write", B: 1, A: 3, V: 5},
		{K: "block", B: 1}, {K: "write", B: 2, A: 4, V: 6},
		{K: "read", B: 1, A: 2},
		{K: "read", B: 2, A: 3},
	}})
	// 6. the same defect in the other direction: the read of r2 goes through block 2, whose
	// lower node inserts in place into the slice block 1's own node still uses -> block 1
	// loses its own write of r3.
	out = append(out, Case{Name: "regress-split-shares-children-slice-parent-view", Addrs: raddrs, Ops: []Op{
		{K: "block", B: -1}, {K: "write", B: 0, A: 0, V: 1}, {K: "write", B: 0, A: 1, V: 2}, {K: "write", B: 0, A: 2, V: 3}, {K: "write", B: 0, A: 3, V: 4},
		{K: "stable", B: 0}, {K: "reopen"},
		{K: "block", B: 0}, {K: "read", B: 1, A: 0}, {K: "read", B: 1, A: 1}, {K: "write", B: 1, A: 3, V: 5},
		{K: "block", B: 1}, {K: "write", B: 2, A: 4, V: 6},
		{K: "read", B: 2, A: 2},
		{K: "read", B: 1, A: 3},
	}})
	return out
}

// ---------------------------------------------------------------------------------------
// executor + monitors

type exec struct {
	c      *run.Ctx
	cs     *Case
	dir    string
	db     *store.ChainDatabase
	m      *model
	addrs  []common.Address
	keys   []string
	blks   []*types.Block
	hashes []common.Hash
	byHash map[common.Hash]int
	opi    int
	failed bool
	// persisted values as last read from the store; the store writes accounts only in
	// SetStableBlock, the cache is dropped there and at reopen
	diskCache map[int]int64
	rot       int
	// Gets that fell back to disk and inserted the stable value into a trie in place since
	// the last complete clean sweep (the trigger part of a view-read-differs class)
	cachingGets    int
	lastCachingGet string
	// shape of the current history (a history ends at a reopen)
	hist histShape
}

type histShape struct {
	ops, blocks    int
	forkConflicts  int
	stabilisations int
	maxUnconf      int
	fp             []string
}

// endHistory reports the history that just ended as one case.
func (x *exec) endHistory() {
	h := x.hist
	x.hist = histShape{}
	if h.blocks == 0 {
		return
	}
	c := x.c
	nontrivial := h.forkConflicts >= 1 && h.stabilisations >= 1
	if nontrivial {
		c.Stat("nontrivial_histories", 1)
	}
	c.Stat("histories", 1)
	c.Seen("max_unconfirmed_blocks", fmt.Sprint(h.maxUnconf))
	mode := "peek"
	if x.cs.Mut {
		mode = "get"
	}
	var sample interface{}
	if nontrivial {
		sample = map[string]interface{}{"addresses": len(x.cs.Addrs), "ops": h.ops, "blocks": h.blocks, "stabilisations": h.stabilisations,
			"fork_writes_to_common_address": h.forkConflicts, "max_unconfirmed": h.maxUnconf, "sweep_mode": mode,
			"stable_height_at_end": x.m.rootHeight(), "shape": strings.Join(h.fp, " ")}
	}
	c.Case(mode+" "+strings.Join(h.fp, " "), nontrivial, sample)
}

func (x *exec) viol(class, msg string) {
	if x.failed {
		return
	}
	x.failed = true
	w := *x.cs
	w.FailedAt = x.opi
	w.What = msg
	if x.opi+1 < len(w.Ops) {
		w.Ops = w.Ops[:x.opi+1]
	}
	x.c.Violation("C09/"+class, fmt.Sprintf("op %d %s: %s", x.opi, opString(x.cs.Ops[x.opi]), msg), w)
}

func opString(o Op) string {
	switch o.K {
	case "block":
		return fmt.Sprintf("block(parent=%d)", o.B)
	case "write":
		return fmt.Sprintf("write(block=%d,addr=%d,val=%d)", o.B, o.A, o.V)
	case "read":
		return fmt.Sprintf("read(block=%d,addr=%d)", o.B, o.A)
	case "stable":
		return fmt.Sprintf("stable(block=%d)", o.B)
	}
	return o.K
}

func (x *exec) mkBlock(idx, parent int) *types.Block {
	h := &types.Header{
		Height:   0,
		GasLimit: 105000000,
		TxRoot:   merkle.EmptyTrieHash,
		LogRoot:  merkle.EmptyTrieHash,
		Extra:    fmt.Sprintf("c09/%d", idx),
	}
	if parent >= 0 {
		h.ParentHash = x.hashes[parent]
		h.Height = x.blks[parent].Height() + 1
	}
	h.Time = 1600000000 + 3*h.Height
	return &types.Block{Header: h}
}

func balanceOf(acc *types.AccountData, want common.Address) int64 {
	if acc == nil {
		return 0
	}
	if acc.Address != want || acc.Balance == nil || !acc.Balance.IsInt64() {
		return -1
	}
	return acc.Balance.Int64()
}

// disk reads the persisted account the way the store's fall-back does.
func (x *exec) disk(a int) (int64, error) {
	acc, err := x.db.GetAccount(x.addrs[a])
	if err == store.ErrAccountNotExist {
		return 0, nil
	}
	if err != nil {
		return 0, err
	}
	return balanceOf(acc, x.addrs[a]), nil
}

// get is the real, caching read through the view of block b.
func (x *exec) get(adb *store.AccountTrieDB, b, a int) (int64, error) {
	inTrie := adb.GetTrie().Find(x.keys[a]) != nil
	acc, err := adb.Get(x.addrs[a])
	if err == store.ErrAccountNotExist {
		return 0, nil
	}
	if err != nil {
		return 0, err
	}
	if !inTrie {
		// the stable value came from disk and was inserted into the (shared) trie in place
		x.cachingGets++
		x.lastCachingGet = fmt.Sprintf("Get(addr %d) through the view of block %d", a, b)
		x.c.Stat("gets_that_cached_the_stable_value", 1)
	}
	return balanceOf(acc, x.addrs[a]), nil
}

// trigger names what happened since the views were last seen right.
func (x *exec) trigger() string {
	if x.cachingGets > 0 {
		return "after-read-through-caching"
	}
	return "after-" + x.cs.Ops[x.opi].K
}

// peek observes what Get would return without inserting the stable value into the trie.
func (x *exec) peek(adb *store.AccountTrieDB, a int) (int64, error) {
	data := adb.GetTrie().Find(x.keys[a])
	if data == nil {
		if v, ok := x.diskCache[a]; ok {
			return v, nil
		}
		v, err := x.disk(a)
		if err == nil {
			x.diskCache[a] = v
		}
		return v, err
	}
	acc, ok := data.(*types.AccountData)
	if !ok {
		return -1, nil
	}
	return balanceOf(acc, x.addrs[a]), nil
}

func (x *exec) describe(v int64) string {
	if v == 0 {
		return "absent"
	}
	ow, ok := x.m.owner[v]
	if !ok {
		return fmt.Sprintf("%d(unknown value)", v)
	}
	return fmt.Sprintf("%d(written by block %d h%d to addr %d)", v, ow[0], x.m.blocks[ow[0]].height, ow[1])
}

func (x *exec) classifyRead(b, a int, got int64) string {
	if got == 0 {
		return "lost-write"
	}
	ow, ok := x.m.owner[got]
	if !ok || ow[1] != a {
		return "other"
	}
	if !x.m.isAncestorOrSelf(ow[0], b) {
		return "sibling-leak"
	}
	if _, src := x.m.read(b, a); src == b {
		return "lost-write"
	}
	return "stale-ancestor"
}

func (x *exec) checkRead(b, a int, got int64, how string) bool {
	want, src := x.m.read(b, a)
	x.c.Stat("view_reads_compared", 1)
	switch {
	case src == b:
		x.c.Stat("reads_expect_own_write", 1)
	case src >= 0:
		x.c.Stat("reads_expect_ancestor_write", 1)
	case want != 0:
		x.c.Stat("reads_expect_stable_value", 1)
	default:
		x.c.Stat("reads_expect_absent", 1)
	}
	if got == want {
		return true
	}
	msg := fmt.Sprintf("%s of addr %d (%s) through the view of block %d (height %d, stable height %d) returned %s, the model says %s",
		how, a, x.cs.Addrs[a], b, x.m.blocks[b].height, x.m.rootHeight(), x.describe(got), x.describe(want))
	if x.cachingGets > 0 {
		msg += fmt.Sprintf("; every view was right before %d read(s) that fell back to disk and cached the stable value in place, the last one %s", x.cachingGets, x.lastCachingGet)
	}
	x.viol("view-read-differs:"+x.classifyRead(b, a, got)+":"+x.trigger(), msg)
	return false
}

// viewSweep compares every live view x every address with the model.
func (x *exec) viewSweep(mut bool) bool {
	before := x.cachingGets
	defer func() {
		if !x.failed {
			// a clean sweep: only the caching reads of this sweep itself are still unobserved
			x.cachingGets -= before
		}
	}()
	for _, b := range x.m.liveBlocks() {
		ok, err := x.db.IsExistByHash(x.hashes[b])
		if err != nil || !ok {
			x.viol("tree-listing-differs", fmt.Sprintf("IsExistByHash(block %d) = %v,%v for a live block", b, ok, err))
			return false
		}
		adb, err := x.db.GetActDatabase(x.hashes[b])
		if err != nil || adb == nil {
			x.viol("unexpected-error:GetActDatabase", fmt.Sprintf("block %d: %v", b, err))
			return false
		}
		for a := range x.addrs {
			var got int64
			how := "Get"
			if mut {
				got, err = x.get(adb, b, a)
			} else {
				how = "Find-else-disk"
				got, err = x.peek(adb, a)
			}
			if err != nil {
				x.viol("unexpected-error:Get", fmt.Sprintf("block %d addr %d: %v", b, a, err))
				return false
			}
			if !x.checkRead(b, a, got, how) {
				return false
			}
		}
	}
	return true
}

// treeCheck compares the store's view of the block tree with the model's.
//
// full = false looks up every live block but only two of the blocks that are stable, pruned
// or lost (rotating); full = true (after SetStableBlock, reopen and at the end) all of them.
func (x *exec) treeCheck(full bool) bool {
	m := x.m
	x.c.Stat("tree_checks", 1)
	x.rot++
	for i, b := range m.blocks {
		if !full && !m.isLive(i) && len(m.blocks) > 2 && i != x.rot%len(m.blocks) && i != (x.rot*7+3)%len(m.blocks) {
			continue
		}
		x.c.Stat("block_lookups_compared", 1)
		ex, err := x.db.IsExistByHash(x.hashes[i])
		if err != nil {
			x.viol("unexpected-error:IsExistByHash", err.Error())
			return false
		}
		blk, gerr := x.db.GetBlockByHash(x.hashes[i])
		found := gerr == nil && blk != nil
		if gerr != nil && gerr != store.ErrBlockNotExist {
			x.viol("unexpected-error:GetBlockByHash", gerr.Error())
			return false
		}
		want := b.state == stLive || b.state == stStable
		if ex != want || found != want {
			cls := "tree-listing-differs"
			if b.state == stPruned {
				cls = "pruned-set-wrong:kept-non-descendant"
			} else if b.state == stLive && m.root >= 0 && m.isAncestorOrSelf(m.root, i) {
				cls = "pruned-set-wrong:dropped-descendant"
			}
			x.viol(cls, fmt.Sprintf("block %d (height %d, model state %d): IsExistByHash=%v GetBlockByHash found=%v, model says %v", i, b.height, b.state, ex, found, want))
			return false
		}
		if found && blk.Hash() != x.hashes[i] {
			x.viol("tree-listing-differs", fmt.Sprintf("GetBlockByHash(block %d) returned a block with another hash", i))
			return false
		}
	}
	// IterateUnConfirms = exactly the unconfirmed blocks, each once, parents first
	pos := map[int]int{}
	n := 0
	bad := ""
	x.db.IterateUnConfirms(func(b *types.Block) {
		i, ok := x.byHash[b.Hash()]
		if !ok {
			bad = "an unknown block"
			return
		}
		if _, dup := pos[i]; dup {
			bad = fmt.Sprintf("block %d twice", i)
		}
		pos[i] = n
		n++
	})
	if bad != "" {
		x.viol("tree-listing-differs", "IterateUnConfirms lists "+bad)
		return false
	}
	unconf := m.unconfirmed()
	for _, i := range unconf {
		p, ok := pos[i]
		if !ok {
			cls := "tree-listing-differs"
			if m.root >= 0 {
				cls = "pruned-set-wrong:dropped-descendant"
			}
			x.viol(cls, fmt.Sprintf("IterateUnConfirms does not list unconfirmed block %d (height %d)", i, m.blocks[i].height))
			return false
		}
		if par := m.blocks[i].parent; par >= 0 && m.blocks[par].state == stLive {
			if pp, ok := pos[par]; ok && pp > p {
				x.viol("tree-listing-differs", fmt.Sprintf("IterateUnConfirms lists block %d before its parent %d", i, par))
				return false
			}
		}
	}
	if len(pos) != len(unconf) {
		for i := range pos {
			if m.blocks[i].state != stLive {
				cls := "tree-listing-differs"
				if m.blocks[i].state == stPruned {
					cls = "pruned-set-wrong:kept-non-descendant"
				}
				x.viol(cls, fmt.Sprintf("IterateUnConfirms lists block %d (height %d) which the model has in state %d", i, m.blocks[i].height, m.blocks[i].state))
				return false
			}
		}
	}
	if m.root < 0 {
		return true
	}
	// the stable block
	if lb, err := x.db.LoadLatestBlock(); err != nil || lb.Hash() != x.hashes[m.root] {
		x.viol("tree-listing-differs", fmt.Sprintf("LoadLatestBlock is not the model's stable block %d (err %v)", m.root, err))
		return false
	}
	// GetUnConfirmByHeight(h, leaf) = the ancestor of leaf at height h
	rh := m.rootHeight()
	for _, l := range unconf {
		i := l
		for h := m.blocks[l].height; h > rh; h-- {
			got, err := x.db.GetUnConfirmByHeight(h, x.hashes[l])
			x.c.Stat("unconfirm_by_height_compared", 1)
			if err != nil || got == nil || got.Hash() != x.hashes[i] {
				x.viol("tree-listing-differs", fmt.Sprintf("GetUnConfirmByHeight(%d, block %d) != block %d (err %v)", h, l, i, err))
				return false
			}
			i = m.blocks[i].parent
		}
		if got, err := x.db.GetUnConfirmByHeight(rh, x.hashes[l]); err != store.ErrBlockNotExist {
			x.viol("tree-listing-differs", fmt.Sprintf("GetUnConfirmByHeight(stable height %d, block %d) = %v,%v, expected ErrBlockNotExist", rh, l, got != nil, err))
			return false
		}
	}
	return true
}

func (x *exec) stablePathCheck() bool {
	for h, i := range x.m.stable {
		blk, err := x.db.GetBlockByHeight(uint32(h))
		x.c.Stat("block_by_height_compared", 1)
		if err != nil || blk == nil || blk.Hash() != x.hashes[i] {
			x.viol("tree-listing-differs", fmt.Sprintf("GetBlockByHeight(%d) is not the stable-path block %d (err %v)", h, i, err))
			return false
		}
	}
	return true
}

func (x *exec) waitIdle() bool {
	deadline := time.Now().Add(30 * time.Second) // watchdog only
	for !x.db.VerifQueueIdle() {
		if time.Now().After(deadline) {
			return false
		}
		time.Sleep(200 * time.Microsecond)
	}
	return true
}

func (x *exec) persistedCheck(when string) bool {
	for a := range x.addrs {
		got, err := x.disk(a)
		if err != nil {
			x.viol("unexpected-error:GetAccount", err.Error())
			return false
		}
		x.c.Stat("persisted_reads_compared", 1)
		if want := x.m.persisted[a]; got != want {
			x.viol("persisted-differs-from-stable-view",
				fmt.Sprintf("GetAccount(addr %d %s) %s = %s, the new stable block %d's view is %s", a, x.cs.Addrs[a], when, x.describe(got), x.m.root, x.describe(want)))
			return false
		}
	}
	return true
}

func (x *exec) doStable(s int) bool {
	m := x.m
	// views of the descendants before
	var before [][]int64
	var descBefore []int
	for _, i := range m.unconfirmed() {
		if i == s || !m.isAncestorOrSelf(s, i) {
			continue
		}
		adb, err := x.db.GetActDatabase(x.hashes[i])
		if err != nil {
			x.viol("unexpected-error:GetActDatabase", err.Error())
			return false
		}
		row := make([]int64, len(x.addrs))
		for a := range x.addrs {
			row[a], _ = x.peek(adb, a)
		}
		descBefore = append(descBefore, i)
		before = append(before, row)
	}
	depth := m.depth(s)
	dropped, err := x.db.SetStableBlock(x.hashes[s])
	x.diskCache = map[int]int64{}
	if err != nil {
		x.viol("unexpected-error:SetStableBlock", err.Error())
		return false
	}
	_, pruned, desc := m.stabilise(s)
	if s != 0 {
		x.hist.stabilisations++
	}
	x.c.Stat("stabilisations", 1)
	x.c.Seen("stabilise_depth", fmt.Sprint(depth))
	x.c.Seen("pruned_per_stabilisation", fmt.Sprint(len(pruned)))
	x.c.Seen("descendants_kept_per_stabilisation", fmt.Sprint(len(desc)))
	x.hist.fp = append(x.hist.fp, fmt.Sprintf("s%d:%d:%d", depth, len(pruned), len(desc)))

	// removed = exactly the non-descendants
	got := map[int]bool{}
	for _, b := range dropped {
		i, ok := x.byHash[b.Hash()]
		if !ok {
			x.viol("pruned-set-wrong:kept-non-descendant", "SetStableBlock reports an unknown block as pruned")
			return false
		}
		got[i] = true
	}
	for _, i := range pruned {
		x.c.Stat("pruned_blocks_checked", 1)
		if !got[i] {
			x.viol("pruned-set-wrong:kept-non-descendant", fmt.Sprintf("block %d (height %d) is not a descendant of the new stable block %d but SetStableBlock did not report it pruned", i, m.blocks[i].height, s))
			return false
		}
		delete(got, i)
	}
	for i := range got {
		x.viol("pruned-set-wrong:dropped-descendant", fmt.Sprintf("SetStableBlock reports block %d (height %d, model state %d) pruned; it is on the stable path or a descendant of the new stable block %d", i, m.blocks[i].height, m.blocks[i].state, s))
		return false
	}
	if !x.treeCheck(true) {
		return false
	}
	// descendants keep their views
	for k, i := range descBefore {
		adb, err := x.db.GetActDatabase(x.hashes[i])
		if err != nil {
			x.viol("unexpected-error:GetActDatabase", err.Error())
			return false
		}
		for a := range x.addrs {
			now, _ := x.peek(adb, a)
			x.c.Stat("descendant_view_reads_compared", 1)
			if now != before[k][a] {
				x.viol("descendant-view-changed-by-stabilisation", fmt.Sprintf("view of descendant block %d (height %d), addr %d: %s before SetStableBlock(block %d), %s after",
					i, m.blocks[i].height, a, x.describe(before[k][a]), s, x.describe(now)))
				return false
			}
		}
	}
	// persisted = the new stable view; first as the node sees it right away (through the
	// write-behind queue), then on disk
	if !x.persistedCheck("right after SetStableBlock") {
		return false
	}
	if !x.waitIdle() {
		x.c.Inconclusive("write-behind queue did not become idle within 30s")
		x.failed = true
		return false
	}
	if !x.persistedCheck("on disk") {
		return false
	}
	return x.stablePathCheck()
}

func (x *exec) step(op Op) bool {
	m := x.m
	switch op.K {
	case "block":
		idx := len(x.blks)
		blk := x.mkBlock(idx, op.B)
		hash := blk.Hash()
		x.blks = append(x.blks, blk)
		x.hashes = append(x.hashes, hash)
		x.byHash[hash] = idx
		if err := x.db.SetBlock(hash, blk); err != nil {
			x.viol("unexpected-error:SetBlock", err.Error())
			return false
		}
		m.addBlock(op.B)
		x.c.Stat("blocks", 1)
		sib := 0
		if op.B >= 0 {
			sib = m.liveChildren(op.B)
			x.c.Seen("live_siblings_at_equal_height", fmt.Sprint(sib))
			x.c.Seen("unconfirmed_depth", fmt.Sprint(m.depth(idx)))
		}
		x.hist.fp = append(x.hist.fp, fmt.Sprintf("b%d.%d", m.depth(idx), sib))
		if op.B >= 0 {
			x.hist.blocks++
		}
		if n := len(m.unconfirmed()); n > x.hist.maxUnconf {
			x.hist.maxUnconf = n
		}
	case "write":
		adb, err := x.db.GetActDatabase(x.hashes[op.B])
		if err != nil || adb == nil {
			x.viol("unexpected-error:GetActDatabase", fmt.Sprint(err))
			return false
		}
		// like account.Manager.Save: Put(data, height of the block being saved)
		adb.Put(&types.AccountData{Address: x.addrs[op.A], Balance: big.NewInt(op.V)}, m.blocks[op.B].height)
		for i, b := range m.blocks {
			if i != op.B && b.state == stLive && !m.isAncestorOrSelf(i, op.B) {
				if _, ok := b.writes[op.A]; ok {
					x.hist.forkConflicts++
					x.c.Stat("fork_writes_to_common_address", 1)
					break
				}
			}
		}
		m.write(op.B, op.A, op.V)
		x.c.Stat("writes", 1)
		x.hist.fp = append(x.hist.fp, "w")
	case "read":
		adb, err := x.db.GetActDatabase(x.hashes[op.B])
		if err != nil || adb == nil {
			x.viol("unexpected-error:GetActDatabase", fmt.Sprint(err))
			return false
		}
		n := x.cachingGets
		got, err := x.get(adb, op.B, op.A)
		if err != nil {
			x.viol("unexpected-error:Get", err.Error())
			return false
		}
		x.c.Stat("get_reads", 1)
		if x.cachingGets > n {
			x.c.Stat("get_reads_that_cached_the_stable_value", 1)
		}
		x.hist.fp = append(x.hist.fp, "r")
		if !x.checkRead(op.B, op.A, got, "Get") {
			return false
		}
	case "stable":
		if !x.doStable(op.B) {
			return false
		}
	case "reopen":
		if !x.waitIdle() {
			x.c.Inconclusive("write-behind queue did not become idle within 30s")
			x.failed = true
			return false
		}
		x.endHistory()
		_ = x.db.Close()
		x.db = store.NewChainDataBase(x.dir)
		x.diskCache = map[int]int64{}
		m.apply(op)
		x.c.Stat("reopens", 1)
		x.hist.fp = append(x.hist.fp, "R")
		if !x.stablePathCheck() || !x.persistedCheck("after reopening the database") || !x.treeCheck(true) {
			return false
		}
	case "sweep":
		x.c.Stat("get_sweeps", 1)
		x.hist.fp = append(x.hist.fp, "S")
		if !x.viewSweep(true) {
			return false
		}
	default:
		x.c.Inconclusive("unknown op " + op.K)
		return false
	}
	// monitors after every operation: first without side effects (so that a difference is
	// attributed to the operation), then - in 1/3 of the databases - with the caching Get,
	// and once more without side effects if that sweep cached anything
	if !x.viewSweep(false) {
		return false
	}
	if x.cs.Mut {
		if !x.viewSweep(true) {
			return false
		}
		if x.cachingGets > 0 && !x.viewSweep(false) {
			return false
		}
	}
	if op.K != "stable" && op.K != "reopen" { // those have just done it
		if !x.treeCheck(false) {
			return false
		}
	}
	x.hist.ops++
	return true
}

// validate rejects witnesses that use the store in a way the node never does (this would
// be a false alarm, not a finding).
func validate(cs *Case) error {
	m := newModel()
	vals := map[int64]bool{}
	open := -1 // the block whose save window is open: created last, nothing but reads and its own writes since
	for i, op := range cs.Ops {
		bad := func(s string) error { return fmt.Errorf("op %d %s: %s", i, opString(op), s) }
		switch op.K {
		case "block":
			if len(m.blocks) == 0 {
				if op.B != -1 {
					return bad("first block must be the genesis")
				}
			} else if op.B < 0 || op.B >= len(m.blocks) || !m.isLive(op.B) || m.root < 0 {
				return bad("parent is not a live block")
			}
		case "write":
			if op.B != open || op.B >= len(m.blocks) || m.blocks[op.B].state != stLive || len(m.blocks[op.B].children) > 0 {
				return bad("a block's writes follow its SetBlock (account.Manager.Save), before any other block is inserted or made stable")
			}
			if _, dup := m.blocks[op.B].writes[op.A]; dup || op.A < 0 || op.A >= len(cs.Addrs) || op.V <= 0 || vals[op.V] {
				return bad("one write per address and block, unique positive values")
			}
			vals[op.V] = true
		case "read":
			if op.B < 0 || op.B >= len(m.blocks) || !m.isLive(op.B) || op.A < 0 || op.A >= len(cs.Addrs) {
				return bad("reads go through live views")
			}
		case "stable":
			if op.B < 0 || op.B >= len(m.blocks) || m.blocks[op.B].state != stLive {
				return bad("only unconfirmed blocks become stable")
			}
			if m.root < 0 && op.B != 0 {
				return bad("the genesis becomes stable first")
			}
		case "sweep":
		case "reopen":
			if m.root < 0 {
				return bad("reopen before the genesis is stable")
			}
		default:
			return bad("unknown op")
		}
		m.apply(op)
		switch op.K {
		case "block":
			open = len(m.blocks) - 1
		case "stable", "reopen":
			open = -1
		}
	}
	return nil
}

var dirSeq int

// execute runs one history against a fresh database. It returns whether it ran to the end.
func execute(c *run.Ctx, cs *Case) (x *exec) {
	x = &exec{c: c, cs: cs, m: newModel(), byHash: map[common.Hash]int{}, diskCache: map[int]int64{}}
	if err := validate(cs); err != nil {
		c.Inconclusive("invalid history: " + err.Error())
		x.failed = true
		return
	}
	for _, s := range cs.Addrs {
		b, err := hex.DecodeString(s)
		if err != nil || len(b) != 20 {
			c.Inconclusive("bad address in witness: " + s)
			x.failed = true
			return
		}
		a := common.BytesToAddress(b)
		x.addrs = append(x.addrs, a)
		x.keys = append(x.keys, a.Hex())
	}
	dirSeq++
	x.dir = filepath.Join(c.Scratch, fmt.Sprintf("db-%d-%d", c.Batch, dirSeq))
	_ = os.RemoveAll(x.dir)
	x.db = store.NewChainDataBase(x.dir)
	defer func() {
		x.waitIdle()
		_ = x.db.Close()
		_ = os.RemoveAll(x.dir)
	}()
	for i, op := range cs.Ops {
		x.opi = i
		if !x.step(op) {
			return
		}
	}
	// end of history: the real Get through every view, the stable path, the disk
	x.opi = len(cs.Ops) - 1
	if !x.viewSweep(true) || !x.viewSweep(false) || !x.treeCheck(true) || !x.stablePathCheck() || !x.persistedCheck("at the end") {
		return
	}
	x.endHistory()
	return
}

func runCase(c *run.Ctx, cs *Case) {
	c.WAL(cs)
	x := execute(c, cs)
	if x.failed {
		// a history in which a monitor fired still counts as executed
		x.endHistory()
	}
	c.Stat("databases", 1)
	c.Stat("ops", int64(len(cs.Ops)))
	c.Seen("addresses", fmt.Sprint(len(cs.Addrs)))
	if cs.Mut {
		c.Seen("sweep_mode", "get")
	} else {
		c.Seen("sweep_mode", "peek")
	}
}

func batches(tier string) int { return 16 }

func runAll(c *run.Ctx) {
	fx.Quiet()
	if c.Batch == 0 {
		for _, cs := range fixedCases() {
			cs := cs
			runCase(c, &cs)
		}
	}
	// quick: 76 databases x 4 histories = 304 histories; thorough: 1270 x 8 = 10160 (a
	// database stops at the first monitor report, so known findings cost a few histories)
	perDB := c.Pick(4, 8)
	lo, hi := c.Share(c.Pick(76, 1270))
	for i := lo; i < hi; i++ {
		r := run.NewRng(c.Seed, 9, uint64(i))
		opsLo, opsHi := 70, 100
		if c.Thorough() && i%4 == 0 {
			opsLo, opsHi = 100, 160
		}
		cs := gen(r, perDB, opsLo, opsHi)
		cs.Name = fmt.Sprintf("db%d", i)
		runCase(c, &cs)
	}
}

func replay(c *run.Ctx, raw json.RawMessage) {
	fx.Quiet()
	var cs Case
	if err := json.Unmarshal(raw, &cs); err != nil {
		c.Inconclusive("bad witness: " + err.Error())
		return
	}
	cs.FailedAt, cs.What = 0, ""
	execute(c, &cs)
	c.Case("replay", true, nil)
}

func main() { run.Main(run.Engine{Batches: batches, Run: runAll, Replay: replay}) }
