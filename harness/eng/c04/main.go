// C04 — replay protection. Ledger monitor: the harness keeps, per branch, the set of signed
// identities (signing hash + sender) of every transaction in every block the node accepted;
// a byzantine in-turn deputy keeps offering blocks that replay them (same bytes, inside a
// box, re-encoded, at the edges of the expiry window, after guard pruning, after a restart).
package main

import (
	"encoding/hex"
	"encoding/json"
	"fmt"

	"github.com/LemoFoundationLtd/lemochain-core/chain/params"
	"github.com/LemoFoundationLtd/lemochain-core/chain/types"
	"github.com/LemoFoundationLtd/lemochain-core/common"
	"github.com/LemoFoundationLtd/lemochain-core/common/rlp"

	"verif/fx"
	"verif/fx/run"
	"verif/scn"
)

func batches(tier string) int { return 16 }

// identity of what the user signed: the signing hash (covers every signed field, not the signatures) and the sender.
func identity(tx *types.Transaction) string {
	var h common.Hash
	if len(tx.GasPayerSigs()) > 0 {
		h = types.MakeReimbursementTxSigner().Hash(tx)
	} else {
		h = types.MakeSigner().Hash(tx)
	}
	return tx.From().Hex() + "/" + h.Hex()
}

type entry struct {
	hash  common.Hash
	where string // "standalone" | "box"
}

type ledger struct {
	parent map[common.Hash]common.Hash
	ids    map[common.Hash]map[string]entry // block -> identity -> how it appeared
}

func newLedger() *ledger {
	return &ledger{parent: map[common.Hash]common.Hash{}, ids: map[common.Hash]map[string]entry{}}
}

func flat(b *types.Block) (out []struct {
	tx    *types.Transaction
	where string
}) {
	for _, tx := range b.Txs {
		out = append(out, struct {
			tx    *types.Transaction
			where string
		}{tx, "standalone"})
		if tx.Type() == params.BoxTx {
			if bx, err := types.GetBox(tx.Data()); err == nil {
				for _, s := range bx.SubTxList {
					out = append(out, struct {
						tx    *types.Transaction
						where string
					}{s, "box"})
				}
			}
		}
	}
	return
}

func (l *ledger) add(b *types.Block) {
	l.parent[b.Hash()] = b.ParentHash()
	m := map[string]entry{}
	for _, e := range flat(b) {
		m[identity(e.tx)] = entry{e.tx.Hash(), e.where}
	}
	l.ids[b.Hash()] = m
}

// find looks an identity up on the ancestor path starting at block `from` (inclusive).
func (l *ledger) find(from common.Hash, id string) (entry, bool) {
	for cur := from; ; {
		if m, ok := l.ids[cur]; ok {
			if e, ok := m[id]; ok {
				return e, true
			}
		}
		p, ok := l.parent[cur]
		if !ok {
			return entry{}, false
		}
		cur = p
	}
}

// Witness is a fully materialised history: every block offered to the victim in order.
type Witness struct {
	World   fx.WorldCfg
	Offers  []Offer
	Restart []int // indexes of offers before which the victim was restarted
}

type Offer struct {
	Block     string
	Stabilise bool
	Note      string
	// Gossip: transactions (RLP hex) the victim's pool received before this offer, as from the network
	Gossip []string `json:",omitempty"`
	// PoolCheck: after this offer the victim's own miner selection is judged
	PoolCheck bool `json:",omitempty"`
}

type env struct {
	c             *run.Ctx
	w             *fx.World
	M, V          *fx.Node
	l             *ledger
	wit           *Witness
	accepted      map[common.Hash]*types.Block
	pendingGossip []string
}

func encBlock(b *types.Block) string {
	e, err := rlp.EncodeToBytes(b)
	if err != nil {
		return ""
	}
	return hex.EncodeToString(e)
}

// judge inspects a block the victim accepted.
func (e *env) judge(b *types.Block, note string) {
	e.c.Stat("accepted_blocks_judged", 1)
	seen := map[string]entry{}
	for _, x := range flat(b) {
		id := identity(x.tx)
		e.c.Stat("identities_checked", 1)
		if x.tx.Expiration() < uint64(b.Time()) {
			e.c.Violation("C04/expired-tx-included", fmt.Sprintf("%s: block time %d is past the tx expiration %d", note, b.Time(), x.tx.Expiration()), e.wit)
		}
		if x.tx.Expiration() > uint64(b.Time()) && x.tx.Expiration()-uint64(b.Time()) > uint64(params.MaxTxLifeTime) {
			e.c.Violation("C04/tx-included-earlier-than-max-lifetime", fmt.Sprintf("%s: expiration %d is more than the maximum lifetime after block time %d", note, x.tx.Expiration(), b.Time()), e.wit)
		}
		prev, dup := seen[id]
		onBranch := false
		if !dup {
			prev, onBranch = e.l.find(b.ParentHash(), id)
		}
		if dup || onBranch {
			variant := "same-hash"
			if prev.hash != x.tx.Hash() {
				variant = "different-hash:" + reencoding(x.tx)
			}
			place := prev.where + "-then-" + x.where
			if dup {
				place += ":same-block"
			}
			if variant == "same-hash" {
				e.c.Violation("C04/same-hash-reexecuted:"+place, fmt.Sprintf("%s: a transaction already executed on this branch (%s) was accepted again", note, place), e.wit)
			} else {
				e.c.Violation("C04/reexecuted-under-"+variant, fmt.Sprintf("%s: the same signed content (identity %s) was accepted again under another transaction hash (%s)", note, id[:20], place), e.wit)
			}
		}
		seen[id] = entry{x.tx.Hash(), x.where}
	}
}

// reencoding names how a transaction's signature list deviates from a canonical single signature per signer.
func reencoding(tx *types.Transaction) string {
	sigs := tx.Sigs()
	seen := map[string]bool{}
	dup, high := false, false
	for _, s := range sigs {
		if seen[string(s)] {
			dup = true
		}
		seen[string(s)] = true
		if len(s) == 65 && s[32] >= 0x80 {
			high = true
		}
	}
	switch {
	case dup:
		return "extra-signature"
	case high:
		return "high-s"
	case len(sigs) > 1:
		// signers that are not the sender although the account has no registered signer list
		if signers, err := types.MakeSigner().GetSigners(tx); err == nil {
			foreign := false
			for _, a := range signers {
				if a != tx.From() {
					foreign = true
				}
			}
			if foreign && len(signers) == 2 && signers[0] == tx.From() {
				return "foreign-signature-appended"
			}
		}
		return "multisig-other-order-or-subset"
	}
	return "other"
}

// offer gives a block to the victim; accepted blocks are recorded and judged.
func (e *env) offer(b *types.Block, note string, judge bool) bool {
	e.wit.Offers = append(e.wit.Offers, Offer{Block: encBlock(b), Note: note, Gossip: e.pendingGossip})
	e.pendingGossip = nil
	e.c.WAL(e.wit)
	err := e.V.Insert(b, false)
	e.c.Stat("blocks_offered", 1)
	if err != nil {
		return false
	}
	if judge {
		e.judge(b, note)
	}
	e.l.add(b)
	e.accepted[b.Hash()] = b
	return true
}

func (e *env) stabilise(b *types.Block) {
	if len(e.wit.Offers) > 0 {
		e.wit.Offers[len(e.wit.Offers)-1].Stabilise = true
	}
	e.V.Stabilise(b)
	e.M.Stabilise(b)
}

// gossip puts a transaction into the victim's pool the way the network handler does (it asks the guard first).
func (e *env) gossip(tx *types.Transaction) {
	enc, _ := rlp.EncodeToBytes(tx)
	e.pendingGossip = append(e.pendingGossip, hex.EncodeToString(enc))
	if e.V.BC.TxGuard().ExistTx(e.V.BC.CurrentBlock().Hash(), tx) {
		e.c.Stat("gossip_refused_by_guard", 1)
		return
	}
	if e.V.Pool.AddTx(tx) == nil {
		e.c.Stat("gossip_txs_pooled", 1)
	}
}

// poolCheck judges what the victim's own miner would package now: MineBlock takes pool.GetTxs(header time) and hands
// it to the assembler without consulting the replay guard, so a transaction (or a box around one) that is already on
// the current branch must not be handed out by the pool. The selection is then mined through the assembler on the
// victim's head and the block is judged like any accepted block.
func (e *env) poolCheck(note string) {
	if len(e.wit.Offers) > 0 {
		e.wit.Offers[len(e.wit.Offers)-1].PoolCheck = true
	}
	head := e.V.BC.CurrentBlock()
	t := head.Time() + 1
	sel := e.V.Pool.GetTxs(t, params.MaxTxsForMiner)
	e.c.Stat("own_miner_selections_judged", 1)
	e.c.Stat("own_miner_selected_txs", int64(len(sel)))
	for _, tx := range sel {
		items := []struct {
			tx    *types.Transaction
			where string
		}{{tx, "standalone"}}
		if tx.Type() == params.BoxTx {
			if bx, err := types.GetBox(tx.Data()); err == nil {
				for _, s := range bx.SubTxList {
					items = append(items, struct {
						tx    *types.Transaction
						where string
					}{s, "box"})
				}
			}
		}
		for _, it := range items {
			if prev, ok := e.l.find(head.Hash(), identity(it.tx)); ok {
				e.c.Violation("C04/own-miner-offered-executed-tx:"+prev.where+"-then-"+it.where,
					fmt.Sprintf("%s: the pool hands the node's own miner a transaction that was already executed on the current branch (%s there, %s now); MineBlock does not consult the replay guard", note, prev.where, it.where), e.wit)
			}
		}
	}
	if len(sel) == 0 {
		return
	}
	res, err := e.V.Mine(head, t, sel, "own")
	if err != nil {
		e.c.Stat("own_miner_not_in_turn_or_failed", 1)
		return
	}
	e.c.Stat("own_miner_blocks_judged", 1)
	e.judge(res.Block, note+" / block of the node's own miner")
}

// attack mines (on the helper node, by the in-turn deputy) a block on parent at time t that carries the given
// candidates and offers it to the victim only.
func (e *env) attack(parent *types.Block, t uint32, txs types.Transactions, note string) {
	res, err := e.M.Mine(parent, t, txs, "atk")
	if err != nil || len(res.Block.Txs) == 0 {
		e.c.Stat("attack_not_minable", 1)
		return
	}
	e.c.Stat("attack_blocks_offered", 1)
	e.c.Seen("attack_kinds", note)
	if e.offer(res.Block, note, true) {
		e.c.Stat("attack_blocks_accepted", 1)
	}
}

// forgedBox wraps tx (once or twice) into a box signed by boxer whose payload text announces random hashes for the sub
// transactions: the "hash" member of a sub transaction's JSON form is signed by nobody.
func forgedBox(B fx.TxB, boxer fx.Key, tx *types.Transaction, twice bool, r *run.Rng) *types.Transaction {
	one, err := json.Marshal(tx)
	if err != nil {
		return nil
	}
	var list []json.RawMessage
	n := 1
	if twice {
		n = 2
	}
	for i := 0; i < n; i++ {
		var m map[string]json.RawMessage
		if json.Unmarshal(one, &m) != nil {
			return nil
		}
		m["hash"] = json.RawMessage(`"` + common.BytesToHash(r.Bytes(32)).Hex() + `"`)
		enc, _ := json.Marshal(m)
		list = append(list, enc)
	}
	data, _ := json.Marshal(map[string]interface{}{"subTxList": list})
	f := fx.Fields(B.Box(boxer, types.Transactions{tx}, tx.Expiration()))
	f.Data = data
	f.Sigs = nil
	unsigned, err := f.Tx()
	if err != nil {
		return nil
	}
	return fx.Sign(unsigned, boxer)
}

func variants(tx *types.Transaction) map[string]*types.Transaction {
	out := map[string]*types.Transaction{"same-bytes": tx}
	f := fx.Fields(tx)
	if len(f.Sigs) == 1 {
		g := *f
		g.Sigs = [][]byte{f.Sigs[0], f.Sigs[0]}
		out["extra-signature"] = g.MustTx()
		h := *f
		h.Sigs = [][]byte{fx.HighS(f.Sigs[0])}
		out["high-s-twin"] = h.MustTx()
		// somebody else appends a signature of his own over the same content (anybody can do that to a pending or
		// executed transaction)
		un := *f
		un.Sigs = nil
		fs := fx.Fields(fx.Sign(un.MustTx(), fx.NewKey("c04-foreign", 0))).Sigs[0]
		k := *f
		k.Sigs = [][]byte{f.Sigs[0], fs}
		out["foreign-signature-appended"] = k.MustTx()
	}
	if len(f.Sigs) == 2 {
		g := *f
		g.Sigs = [][]byte{f.Sigs[1], f.Sigs[0]}
		out["reordered-multisig"] = g.MustTx()
	}
	return out
}

func scenario(c *run.Ctx, idx int, edge bool) {
	r := run.NewRng(c.Seed, 4, uint64(idx))
	if edge {
		r = run.NewRng(21, 4, uint64(idx))
	}
	nDep := 2 + idx%3
	wcfg := fx.WorldCfg{Deputies: nDep, Users: 6, SlotMs: 10000}
	w := fx.NewWorld(wcfg)
	wcfg.GenesisTime, wcfg.SlotMs = w.GenesisTime, w.SlotMs
	dir := fx.ScratchDir("c04")
	M := w.NewNode(fx.PathOf(dir, "m"), w.Outsider)
	V := w.NewNode(fx.PathOf(dir, "v"), w.Outsider)
	defer func() { M.Destroy(); V.Destroy() }()
	e := &env{c: c, w: w, M: M, V: V, l: newLedger(), wit: &Witness{World: wcfg}, accepted: map[common.Hash]*types.Block{}}
	B := fx.TxB{W: w}
	head := V.BC.Genesis()
	var history []*types.Transaction // txs executed on the main branch, with their inclusion time
	incl := map[common.Hash]uint32{}
	var chain []*types.Block
	honest := func(t uint32, txs types.Transactions, note string) bool {
		res, err := M.Mine(head, t, txs, "")
		if err != nil {
			return false
		}
		if M.Insert(res.Block, true) != nil {
			return false
		}
		if !e.offer(res.Block, note, true) {
			c.Note("victim rejected an honest block: " + note)
			return false
		}
		head = res.Block
		chain = append(chain, head)
		for _, x := range flat(head) {
			history = append(history, x.tx)
			incl[x.tx.Hash()] = head.Time()
		}
		return true
	}
	// funding
	t := head.Time() + 5
	var fund types.Transactions
	for i, u := range w.Users {
		fund = append(fund, B.Transfer(w.Founder, u.Addr, fx.LEMO(100000), uint64(t)+1700+uint64(i)))
	}
	if !honest(t, fund, "funding") {
		return
	}
	e.stabilise(head)
	// a multi-signature account: any two of three signers suffice, so the same signed content has several valid signature lists
	msKeys := []fx.Key{fx.NewKey("c04-signer", 0), fx.NewKey("c04-signer", 1), fx.NewKey("c04-signer", 2)}
	ms := w.Users[5]
	if !honest(head.Time()+7, types.Transactions{B.ModifySigners(ms, ms.Addr, types.Signers{{Address: msKeys[0].Addr, Weight: 50}, {Address: msKeys[1].Addr, Weight: 50}, {Address: msKeys[2].Addr, Weight: 50}}, uint64(head.Time())+1500)}, "multisig setup") {
		return
	}
	e.stabilise(head)
	nBlocks := r.Range(25, 45)
	if edge {
		nBlocks = 34
	}
	seq := 0
	var t1 uint32
	for bi := 0; bi < nBlocks; bi++ {
		// chain time advances by seconds to minutes; the history spans more than the 30 min tx lifetime
		dt := []int{1, 7, 30, 59, 60, 61, 120, 300, 600}[r.Intn(9)]
		if edge {
			dt = 60
		}
		t = head.Time() + uint32(dt)
		var txs types.Transactions
		for k := 0; k < r.Range(1, 3); k++ {
			seq++
			from := w.Users[r.Intn(len(w.Users))]
			to := w.Users[r.Intn(len(w.Users))].Addr
			life := []int{0, 1, 59, 60, 61, 600, 1799, 1800}[r.Intn(8)]
			if edge {
				life = 1800
			}
			tx := B.Transfer(from, to, fx.LEMO(int64(seq)), uint64(t)+uint64(life))
			if from.Addr == ms.Addr {
				i := r.Intn(3)
				tx = fx.Sign(B.Unsigned(params.OrdinaryTx, ms.Addr, &to, fx.LEMO(int64(seq)), 100000, nil, uint64(t)+uint64(life)), msKeys[i], msKeys[(i+1)%3])
			}
			switch r.Intn(6) {
			case 0: // inside a box
				txs = append(txs, B.Box(w.Users[r.Intn(len(w.Users))], types.Transactions{tx}, uint64(t)+uint64(life)))
			default:
				txs = append(txs, tx)
			}
		}
		if !honest(t, txs, fmt.Sprintf("honest #%d", bi)) {
			return
		}
		if edge && bi == 0 {
			t1 = head.Time()
		}
		// stable pointer follows with a lag of 0..3 blocks (prunes the guard)
		lag := r.Intn(4)
		if edge {
			lag = 0
		}
		if len(chain) > lag {
			sb := chain[len(chain)-1-lag]
			if sb.Height() > V.BC.StableBlock().Height() {
				e.stabilise(sb)
				c.Stat("stabilisations", 1)
			}
		}
		// restart the victim at a quiescent point
		if r.Chance(1, 10) && !edge {
			V.Reopen()
			e.wit.Restart = append(e.wit.Restart, len(e.wit.Offers))
			c.Stat("victim_restarts", 1)
			st := V.BC.StableBlock().Height()
			for _, b := range chain {
				if b.Height() > st {
					if err := V.Insert(b, false); err != nil {
						c.Note("restarted victim rejects a block it had accepted: " + err.Error())
						return
					}
				}
			}
		}
		// attacks on the current head
		nAtk := r.Range(1, 4)
		if edge {
			nAtk = 0
			if head.Time() >= t1+1740 {
				nAtk = 4
			}
		}
		for a := 0; a < nAtk && len(history) > 0; a++ {
			old := history[r.Intn(len(history))]
			if edge {
				// the transactions of the first block, right at the end of their life
				old = history[len(fund)+a%2]
			}
			at := head.Time() + uint32([]int{0, 1, 10, 59, 60}[r.Intn(5)])
			if old.Expiration() >= uint64(head.Time()) && r.Chance(1, 2) {
				// as late as its expiration allows
				at = uint32(old.Expiration())
				if r.Chance(1, 3) && at > head.Time() {
					at--
				}
			}
			if at < head.Time() {
				at = head.Time()
			}
			vs := variants(old)
			names := []string{"same-bytes", "extra-signature", "high-s-twin", "reordered-multisig", "foreign-signature-appended"}
			name := names[r.Intn(len(names))]
			if a == 0 || edge {
				name = "same-bytes"
			}
			v, ok := vs[name]
			if !ok {
				v, name = old, "same-bytes"
			}
			if old.From() == ms.Addr && len(old.Sigs()) == 2 && r.Chance(1, 2) {
				// the third signer signs the same content: another sufficient subset
				f := fx.Fields(old)
				f.Sigs = f.Sigs[:1]
				unsigned := *f
				unsigned.Sigs = nil
				for _, k := range msKeys {
					cand := fx.Sign(unsigned.MustTx(), k)
					sg := fx.Fields(cand).Sigs[0]
					if string(sg) != string(old.Sigs()[0]) && string(sg) != string(old.Sigs()[1]) {
						f.Sigs = append(f.Sigs, sg)
						break
					}
				}
				if len(f.Sigs) == 2 {
					v, name = f.MustTx(), "other-signer-subset"
				}
			}
			age := "young"
			if uint32(at) > incl[old.Hash()]+1700 {
				age = "near-lifetime-end"
			}
			switch r.Intn(5) {
			case 4: // wrapped into a box whose JSON text announces other hashes for the sub transactions (nobody signs that member)
				if fb := forgedBox(B, w.Users[0], v, r.Chance(1, 2), r); fb != nil {
					e.attack(head, at, types.Transactions{fb}, "replay-in-box-announcing-another-hash:"+name+":"+age)
				}
			case 0: // wrapped into a box
				bx := B.Box(w.Users[0], types.Transactions{v}, v.Expiration())
				e.attack(head, at, types.Transactions{bx}, "replay-in-box:"+name+":"+age)
			case 1: // twice in one block
				e.attack(head, at, types.Transactions{v, fx.WireTx(v)}, "replay-twice-in-block:"+name+":"+age)
			default:
				e.attack(head, at, types.Transactions{v}, "replay:"+name+":"+age)
			}
		}
		// a fresh transaction that expires more than the maximum lifetime after the block's time, on its own and inside
		// a box whose own expiration is within the lifetime
		if !edge && r.Chance(1, 3) {
			seq++
			at := head.Time() + uint32(r.Intn(30))
			d := []int{1, 60, 300, 600}[r.Intn(4)]
			far := B.Transfer(w.Users[r.Intn(5)], w.Users[2].Addr, fx.LEMO(int64(seq)), uint64(at)+uint64(params.MaxTxLifeTime)+uint64(d))
			if r.Chance(1, 2) {
				e.attack(head, at, types.Transactions{far}, "fresh-tx-beyond-lifetime:standalone")
			} else {
				bx := B.Box(w.Users[0], types.Transactions{far}, uint64(at)+600)
				e.attack(head, at, types.Transactions{bx}, "fresh-tx-beyond-lifetime:in-box-expiring-earlier")
			}
		}
		// a transaction executed only on an abandoned fork may be executed once on the main fork
		if !edge && r.Chance(1, 6) && len(chain) >= 2 {
			par := chain[len(chain)-2]
			if par.Height() >= V.BC.StableBlock().Height() {
				seq++
				ftx := B.Transfer(w.Users[1], w.Users[2].Addr, fx.LEMO(int64(seq)), uint64(head.Time())+900)
				res, err := M.Mine(par, par.Time()+uint32(nDep)*10+1, types.Transactions{ftx}, "fork")
				if err == nil && len(res.Block.Txs) == 1 {
					if e.offer(res.Block, "side-fork block", true) {
						c.Stat("side_fork_blocks", 1)
						if honest(head.Time()+13, types.Transactions{ftx}, "tx of the side fork on the main fork") {
							c.Stat("fork_tx_executed_on_main", 1)
						} else {
							c.Violation("C04/fork-tx-refused-on-other-fork", "a transaction executed only on a side fork was refused on the main fork", e.wit)
							return
						}
					}
				}
			}
		}
	}
	span := head.Time() - chain[0].Time()
	c.Case(fmt.Sprintf("n%d blocks%d span>%dmin edge=%v", nDep, len(chain), span/600*10, edge), span > 1800,
		map[string]interface{}{"deputies": nDep, "blocks": len(chain), "chain_time_span_s": span, "offers": len(e.wit.Offers), "edge": edge})
}

// forkSwitch: the victim follows one fork, then a longer one, possibly back again; the same signed transactions sit on
// both forks in different placements (on their own, inside a box, inside different boxes, on one fork only) and part
// of them also reached the victim's pool by gossip. After every accepted block the node's own miner selection is judged.
func forkSwitch(c *run.Ctx, idx int) {
	r := run.NewRng(c.Seed, 44, uint64(idx))
	nDep := 3 + idx%3
	wcfg := fx.WorldCfg{Deputies: nDep, Users: 8, SlotMs: 10000}
	w := fx.NewWorld(wcfg)
	wcfg.GenesisTime, wcfg.SlotMs = w.GenesisTime, w.SlotMs
	dir := fx.ScratchDir("c04f")
	M := w.NewNode(fx.PathOf(dir, "m"), w.Outsider)
	V := w.NewNode(fx.PathOf(dir, "v"), w.Outsider)
	defer func() { M.Destroy(); V.Destroy() }()
	e := &env{c: c, w: w, M: M, V: V, l: newLedger(), wit: &Witness{World: wcfg}, accepted: map[common.Hash]*types.Block{}}
	B := fx.TxB{W: w}
	root := V.BC.Genesis()
	t := root.Time() + 5
	var fund types.Transactions
	for i, u := range w.Users {
		fund = append(fund, B.Transfer(w.Founder, u.Addr, fx.LEMO(100000), uint64(t)+1700+uint64(i)))
	}
	res, err := M.Mine(root, t, fund, "")
	if err != nil || M.Insert(res.Block, true) != nil || !e.offer(res.Block, "funding", true) {
		return
	}
	root = res.Block
	e.stabilise(root)
	// the transactions and their placement on the two forks: 0 absent, 1 on its own, 2 in box A, 3 in box B
	nTx := r.Range(3, 7)
	var txs []*types.Transaction
	place := make([][2]int, nTx)
	for i := 0; i < nTx; i++ {
		from := w.Users[i%len(w.Users)]
		txs = append(txs, B.Transfer(from, w.Users[(i+3)%len(w.Users)].Addr, fx.LEMO(int64(10+i)), uint64(root.Time())+1200+uint64(i)))
		place[i] = [2]int{r.Intn(4), r.Intn(4)}
		if place[i][0] == 0 && place[i][1] == 0 {
			place[i][r.Intn(2)] = 1 + r.Intn(3)
		}
	}
	shape := ""
	for i := range place {
		shape += fmt.Sprintf("%d%d,", place[i][0], place[i][1])
	}
	boxer := w.Users[7]
	build := func(side int, parent *types.Block, n int, tag string) []*types.Block {
		// distribute this side's items over n blocks
		var items []*types.Transaction
		var boxA, boxB types.Transactions
		for i, tx := range txs {
			switch place[i][side] {
			case 1:
				items = append(items, tx)
			case 2:
				boxA = append(boxA, tx)
			case 3:
				boxB = append(boxB, tx)
			}
		}
		if len(boxA) > 0 {
			items = append(items, B.Box(boxer, boxA, uint64(root.Time())+1100+uint64(side)))
		}
		if len(boxB) > 0 {
			items = append(items, B.Box(boxer, boxB, uint64(root.Time())+1110+uint64(side)))
		}
		perm := r.Perm(len(items))
		var out []*types.Block
		cur := parent
		for k := 0; k < n; k++ {
			var cand types.Transactions
			for j, pi := range perm {
				if j%n == k {
					cand = append(cand, items[pi])
				}
			}
			bt := cur.Time() + uint32(r.Range(3, 12))
			res, err := M.Mine(cur, bt, cand, fmt.Sprintf("%s%d", tag, k))
			if err != nil {
				c.Seen("fork_build_errors", "mine: "+err.Error())
				return out
			}
			if err := M.Insert(res.Block, true); err != nil {
				c.Seen("fork_build_errors", "insert: "+err.Error())
				return out
			}
			out = append(out, res.Block)
			cur = res.Block
		}
		return out
	}
	nX := r.Range(1, 3)
	X := build(0, root, nX, "x")
	Y := build(1, root, nX+r.Range(1, 2), "y")
	if len(X) == 0 || len(Y) <= len(X) {
		c.Stat("fork_material_not_built", 1)
		return
	}
	// part of the transactions arrive by gossip first
	for _, tx := range txs {
		if r.Chance(1, 2) {
			e.gossip(tx)
		}
	}
	switches := 0
	deliver := func(bs []*types.Block, note string) bool {
		for i, b := range bs {
			before := V.BC.CurrentBlock()
			if !e.offer(b, fmt.Sprintf("%s #%d", note, i), true) {
				c.Note("victim rejected a fork block: " + note)
				return false
			}
			after := V.BC.CurrentBlock()
			if after.Hash() != before.Hash() && after.ParentHash() != before.Hash() {
				switches++
				c.Stat("fork_switches", 1)
			}
			e.poolCheck(fmt.Sprintf("after %s #%d", note, i))
		}
		return true
	}
	if !deliver(X, "fork x") || !deliver(Y, "fork y") {
		return
	}
	if r.Chance(1, 2) {
		// fork x grows past fork y: switch back (empty blocks and late gossip)
		for _, tx := range txs {
			if r.Chance(1, 4) {
				e.gossip(tx)
			}
		}
		cur := X[len(X)-1]
		var more []*types.Block
		for k := 0; k < len(Y)-len(X)+1; k++ {
			res, err := M.Mine(cur, cur.Time()+uint32(r.Range(3, 12)), nil, fmt.Sprintf("xx%d", k))
			if err != nil || M.Insert(res.Block, true) != nil {
				break
			}
			more = append(more, res.Block)
			cur = res.Block
		}
		if !deliver(more, "fork x again") {
			return
		}
	}
	c.Case(fmt.Sprintf("forkswitch n%d x%d y%d %s", nDep, len(X), len(Y), shape), switches > 0, map[string]interface{}{"deputies": nDep, "fork_x": len(X), "fork_y": len(Y), "placements": shape, "switches": switches})
}

func runAll(c *run.Ctx) {
	fx.Quiet()
	scn.SetParams()
	if c.Batch < 2 {
		scenario(c, c.Batch, true)
	}
	{
		n := c.Pick(96, 2400)
		lo, hi := c.Share(n)
		for i := lo; i < hi; i++ {
			forkSwitch(c, i)
		}
	}
	n := c.Pick(64, 1600)
	lo, hi := c.Share(n)
	for i := lo; i < hi; i++ {
		scenario(c, i, false)
	}
}

func replay(c *run.Ctx, raw json.RawMessage) {
	fx.Quiet()
	scn.SetParams()
	var wt Witness
	if err := json.Unmarshal(raw, &wt); err != nil {
		c.Inconclusive("bad witness: " + err.Error())
		return
	}
	w := fx.NewWorld(wt.World)
	dir := fx.ScratchDir("c04r")
	V := w.NewNode(fx.PathOf(dir, "v"), w.Outsider)
	defer V.Destroy()
	e := &env{c: c, w: w, M: V, V: V, l: newLedger(), wit: &Witness{World: wt.World}, accepted: map[common.Hash]*types.Block{}}
	restart := map[int]bool{}
	for _, i := range wt.Restart {
		restart[i] = true
	}
	var accepted []*types.Block
	for i, o := range wt.Offers {
		if restart[i] {
			V.Reopen()
			st := V.BC.StableBlock().Height()
			for _, b := range accepted {
				if b.Height() > st {
					_ = V.Insert(b, false)
				}
			}
		}
		for _, g := range o.Gossip {
			rawt, _ := hex.DecodeString(g)
			tx := new(types.Transaction)
			if err := rlp.DecodeBytes(rawt, tx); err == nil {
				e.gossip(tx)
			}
		}
		rawb, _ := hex.DecodeString(o.Block)
		b := new(types.Block)
		if err := rlp.DecodeBytes(rawb, b); err != nil {
			continue
		}
		if e.offer(b, o.Note, true) {
			accepted = append(accepted, b)
			if o.Stabilise {
				V.Stabilise(b)
			}
		}
		if o.PoolCheck {
			e.poolCheck(o.Note)
		}
	}
	c.Case("replay", true, nil)
}

func main() { run.Main(run.Engine{Batches: batches, Run: runAll, Replay: replay}) }
