// C12 — asset conservation and authority. Conservation monitor over every (holder, asset id)
// equity and every asset's recorded total supply, before and after each accepted block.
package main

import (
	"encoding/json"
	"fmt"
	"os"

	"github.com/LemoFoundationLtd/lemochain-core/chain/account"
	"github.com/LemoFoundationLtd/lemochain-core/chain/params"
	"github.com/LemoFoundationLtd/lemochain-core/chain/types"
	"github.com/LemoFoundationLtd/lemochain-core/common"

	"verif/fx"
	"verif/fx/run"
	"verif/mon"
	"verif/scn"
)

func batches(tier string) int { return 16 }

func checkStep(c *run.Ctx, cl *scn.Cluster, reg *mon.AssetReg, t uint32, cands []scn.Cand) *types.Block {
	A := cl.Nodes[0]
	parent := cl.Head
	viol := func(class, msg string) { c.Violation("C12/"+class, msg, cl.Witness(t, cands, msg)) }
	full, err := A.Mine(parent, t, scn.Txs(cands), "")
	if err != nil {
		c.Note("mine failed: " + err.Error())
		return nil
	}
	blk := full.Block
	cl.G.U.Block(blk)
	cl.G.U.Addr(common.Address{})
	reg.Learn(blk)
	// the parent's view must be read before the block is inserted: a block that becomes stable at once
	// (single deputy) replaces the only persisted account state
	before := mon.ReadAssets(account.NewManager(parent.Hash(), A.DB), cl.G.U, reg)
	for i, e := range cl.InsertAll(blk) {
		if e != nil {
			c.Stat("block_rejected", 1)
			c.Note(fmt.Sprintf("node %d rejected the mined block (C01's domain): %v", i, e))
			return nil
		}
	}
	if os.Getenv("C12_DEBUG") != "" {
		inc := scn.Included(blk)
		for _, cd := range cands {
			fmt.Fprintf(os.Stderr, "DEBUG h%d %s included=%v\n", blk.Height(), cd.Kind, inc[cd.Tx.Hash()])
		}
	}
	after := mon.ReadAssets(account.NewManager(blk.Hash(), A.DB), cl.G.U, reg)
	if os.Getenv("C12_DEBUG") != "" {
		fmt.Fprintf(os.Stderr, "DEBUG parent=%s h%d blk=%s h%d stable=%d\n", parent.Hash().Hex()[:10], parent.Height(), blk.Hash().Hex()[:10], blk.Height(), A.BC.StableBlock().Height())
		for id, hs := range after.Equity {
			for h, eq := range hs {
				var was interface{}
				if before.Equity[id] != nil && before.Equity[id][h] != nil {
					was = before.Equity[id][h].Equity
				}
				fmt.Fprintf(os.Stderr, "DEBUG h%d equity id=%s holder=%s %v -> %v\n", blk.Height(), id.Hex()[:10], h.Hex()[:10], was, eq.Equity)
			}
		}
	}
	for _, v := range mon.CheckAssets(before, after, blk, func(n int) { c.Stat("equity_entries_compared", int64(n)) }) {
		viol(v.Class, v.Msg)
	}
	for _, tx := range blk.Txs {
		switch tx.Type() {
		case params.CreateAssetTx, params.IssueAssetTx, params.ReplenishAssetTx, params.ModifyAssetTx, params.TransferAssetTx:
			c.Stat("asset_txs_included", 1)
		}
	}
	for _, cd := range cands {
		c.Seen("asset_tx_kinds", cd.Kind)
	}
	c.Stat("assets_live", int64(len(after.Assets)))
	c.Stat("blocks_checked", 1)
	return blk
}

func scenario(c *run.Ctx, idx int, fixed bool) {
	r := run.NewRng(c.Seed, 12, uint64(idx))
	if fixed {
		r = run.NewRng(3, 12, uint64(idx))
	}
	nDep := 1 + idx%3
	gcfg := scn.Cfg{Users: 8, RandomCode: false, Votes: false, Assets: true, Boxes: idx%4 == 1, Multisig: false, Discards: true, Known: false, Mode: "assets"}
	cl := scn.NewCluster(r, fx.WorldCfg{Deputies: nDep, Users: 8, SlotMs: uint64(1000 * r.Range(2, 6))}, 2, gcfg)
	defer cl.Close()
	reg := mon.NewAssetReg()
	nBlocks := r.Range(10, 18)
	var fixedCode, fixedID common.Hash
	for bi := 0; bi < nBlocks; bi++ {
		t := cl.NextTime()
		h := cl.Head.Height() + 1
		exp := uint64(t) + 900
		var cands []scn.Cand
		u1, u2 := cl.W.Users[1], cl.W.Users[2]
		switch {
		case bi == 0:
			cands = cl.G.Setup(t)
		case bi == 1:
			cands = cl.G.Setup2(t)
		case cl.IsSnapshotNext():
			cands = nil
		case fixed && bi == 2:
			tx := cl.G.B.CreateAsset(u1, types.TokenAsset, true, true, types.Profile{"name": "t", "symbol": "T", "description": "d", "suggestedGasLimit": "60000", "freeze": "false"}, exp)
			fixedCode = tx.Hash()
			cands = []scn.Cand{cl.G.C(tx, "create-asset-1", "ok")}
		case fixed && bi == 3:
			fixedID = fixedCode
			cands = []scn.Cand{cl.G.C(cl.G.B.IssueAsset(u1, u1.Addr, fixedCode, fx.LEMO(100), "m", exp), "issue-asset", "ok"),
				cl.G.C(cl.G.B.IssueAsset(u1, u2.Addr, fixedCode, fx.LEMO(100), "m", exp+1), "issue-asset", "ok")}
		case fixed && bi == 4:
			// regression witness of the negative-amount defect (fixed or known, see known_findings.json)
			cands = []scn.Cand{cl.G.C(cl.G.B.TransferAssetRaw(u1, u2.Addr, fixedID, `"-60000000000000000000"`, nil, 2000000, exp), "transfer-asset-negative", "discard")}
		default:
			cands = cl.G.Next(t, h, r.Range(3, 8))
		}
		c.WAL(map[string]interface{}{"scenario": idx, "block": bi, "seed": c.Seed, "fixed": fixed})
		blk := checkStep(c, cl, reg, t, cands)
		if blk == nil {
			break
		}
		shape := ""
		na := 0
		for _, cd := range cands {
			shape += cd.Kind + ","
		}
		for _, tx := range blk.Txs {
			if tx.Type() >= params.CreateAssetTx && tx.Type() <= params.TransferAssetTx {
				na++
			}
		}
		c.Case(fmt.Sprintf("d%d h%d %s", nDep, blk.Height(), shape), na >= 1,
			map[string]interface{}{"scenario": idx, "height": blk.Height(), "candidates": shape, "included": len(blk.Txs), "asset_txs": na})
		cl.Adopt(blk)
		// asset transactions require the creating / issuing block to be stable
		if cl.MustStabiliseSoon() || fixed || r.Chance(3, 4) {
			if !cl.StabiliseAll() {
				c.Stat("scenario_stuck_unstabilisable", 1)
				break
			}
		}
	}
}

func runAll(c *run.Ctx) {
	fx.Quiet()
	scn.SetParams()
	if c.Batch == 0 {
		scenario(c, 0, true)
	}
	n := c.Pick(96, 2400)
	lo, hi := c.Share(n)
	for i := lo; i < hi; i++ {
		scenario(c, i, false)
	}
}

func replay(c *run.Ctx, raw json.RawMessage) {
	fx.Quiet()
	scn.SetParams()
	var w scn.Witness
	if err := json.Unmarshal(raw, &w); err != nil {
		c.Inconclusive("bad witness: " + err.Error())
		return
	}
	cl, cands, err := scn.Rebuild(&w)
	defer cl.Close()
	if err != nil {
		c.Inconclusive(err.Error())
		return
	}
	reg := mon.NewAssetReg()
	for _, b := range cl.Chain {
		reg.Learn(b)
	}
	checkStep(c, cl, reg, w.Time, cands)
	c.Case("replay", true, nil)
}

func main() { run.Main(run.Engine{Batches: batches, Run: runAll, Replay: replay}) }
