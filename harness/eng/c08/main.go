// C08 — durability. Fault enumeration: a scripted history of block insertions and
// stabilisations is executed by a child process that is killed (os.Exit inside a hook, no
// deferred code, page cache intact) at an enumerated crash point — before/after every file
// write, fsync, file removal/creation and index put of the store, or with a torn (prefix)
// write; a fresh child then reopens the database and a recovery oracle compares what it
// finds with the acknowledged progress and with a crash-free reference.
package main

import (
	"bufio"
	"bytes"
	"encoding/hex"
	"encoding/json"
	"fmt"
	"io/ioutil"
	"math/big"
	"os"
	"os/exec"
	"path/filepath"
	"sort"
	"strconv"
	"strings"
	"sync"
	"time"

	"github.com/LemoFoundationLtd/lemochain-core/chain/account"
	"github.com/LemoFoundationLtd/lemochain-core/chain/params"
	"github.com/LemoFoundationLtd/lemochain-core/common/crypto"
	"github.com/LemoFoundationLtd/lemochain-core/chain/types"
	"github.com/LemoFoundationLtd/lemochain-core/common"
	"github.com/LemoFoundationLtd/lemochain-core/common/rlp"
	"github.com/LemoFoundationLtd/lemochain-core/common/verifhook"
	"github.com/LemoFoundationLtd/lemochain-core/store/trie"

	"verif/fx"
	"verif/fx/run"
	"verif/scn"
)

type Step struct {
	Kind   string // "block" | "confirms"
	Block  string `json:",omitempty"`
	Main   bool   `json:",omitempty"`
	Height uint32
	Hash   string
	Sigs   []string `json:",omitempty"`
	// Refused: a block the never-stopped node refused (it replays a transaction of an earlier block); a restarted
	// node must refuse it too
	Refused bool `json:",omitempty"`
}

type Plan struct {
	World       fx.WorldCfg
	Steps       []Step
	U           fx.UniverseDump
	Heights     map[string]string // height -> main-chain block hash
	ObsAt       map[string]fx.Obs // block hash -> observation with the final universe
	RawAt       map[string]fx.Obs
	FinalHead   string
	FinalStable string
}

type CrashSpec struct {
	Site string // Point or Tear site
	Occ  int    // 1-based occurrence of that site
	Tear int    // for Tear sites: per-mille of the buffer that gets written (1..999)
}

func (s CrashSpec) String() string { return fmt.Sprintf("%s#%d/%d", s.Site, s.Occ, s.Tear) }

// ---------------------------------------------------------------------------------------
// planning (in the supervisor)

func encBlock(b *types.Block) string {
	e, err := rlp.EncodeToBytes(b)
	if err != nil {
		panic(err)
	}
	return hex.EncodeToString(e)
}

func decBlock(s string) *types.Block {
	raw, _ := hex.DecodeString(s)
	b := new(types.Block)
	if err := rlp.DecodeBytes(raw, b); err != nil {
		panic(err)
	}
	return b
}

func sigsHex(s []types.SignData) []string {
	out := make([]string, len(s))
	for i := range s {
		out[i] = hex.EncodeToString(s[i][:])
	}
	return out
}

func makePlan(seed uint64, variant int) *Plan {
	r := run.NewRng(seed, 8, uint64(variant))
	wcfg := fx.WorldCfg{Deputies: 3 + variant%2, Users: 8, SlotMs: 3000}
	gcfg := scn.Cfg{Users: 8, RandomCode: false, Votes: true, Assets: true, Boxes: false, Multisig: true, Discards: false}
	cl := scn.NewCluster(r, wcfg, 1, gcfg)
	defer cl.Close()
	P := cl.Nodes[0]
	p := &Plan{World: cl.WCfg, Heights: map[string]string{}, ObsAt: map[string]fx.Obs{}, RawAt: map[string]fx.Obs{}}
	p.Heights["0"] = P.BC.Genesis().Hash().Hex()
	var pending []*types.Block // main-chain blocks not yet stabilised
	nBlocks := 10
	for bi := 0; bi < nBlocks; bi++ {
		t := cl.NextTime()
		var cands []scn.Cand
		switch bi {
		case 0:
			cands = cl.G.Setup(t)
		case 1:
			cands = cl.G.Setup2(t)
		default:
			cands = cl.G.Next(t, cl.Head.Height()+1, r.Range(3, 7))
			if bi >= 3 && r.Chance(1, 4) {
				cands = nil // empty blocks belong to a chain too
			}
		}
		// a side block on the same parent (pruned when the main chain stabilises)
		if bi >= 2 && r.Chance(1, 3) {
			t2 := t + uint32(cl.W.SlotMs/1000)*2
			if res, err := P.Mine(cl.Head, t2, scn.Txs(cl.G.Next(t2, cl.Head.Height()+1, 2)), "side"); err == nil && P.Insert(res.Block, true) == nil {
				p.Steps = append(p.Steps, Step{Kind: "block", Block: encBlock(fx.Wire(res.Block, false)), Height: res.Block.Height(), Hash: res.Block.Hash().Hex()})
			}
		}
		res, err := P.Mine(cl.Head, t, scn.Txs(cands), "")
		if err != nil || P.Insert(res.Block, true) != nil {
			break
		}
		blk := res.Block
		cl.Adopt(blk)
		pending = append(pending, blk)
		p.Steps = append(p.Steps, Step{Kind: "block", Block: encBlock(fx.Wire(blk, false)), Main: true, Height: blk.Height(), Hash: blk.Hash().Hex()})
		p.Heights[fmt.Sprint(blk.Height())] = blk.Hash().Hex()
		// stabilise after a lag of 1..4 blocks (multi-block commits); always at the end
		if len(pending) >= r.Range(1, 4) || bi == nBlocks-1 {
			p.Steps = append(p.Steps, Step{Kind: "confirms", Height: blk.Height(), Hash: blk.Hash().Hex(), Sigs: sigsHex(P.ConfirmsOf(blk))})
			if !cl.StabiliseAll() {
				break
			}
			pending = nil
		}
	}
	// blocks on the final head that replay a transaction of an earlier block (produced by the miner path, which packages
	// what it is given): the never-stopped node refuses them because of its replay guard
	{
		var old []*types.Transaction
		for _, b := range cl.Chain {
			if b.Height() < 3 {
				continue
			}
			for _, tx := range b.Txs {
				if tx.Type() == params.OrdinaryTx && len(tx.Data()) == 0 {
					old = append(old, tx)
				}
			}
		}
		for k := 0; k < 3 && len(old) > 0; k++ {
			tx := old[r.Intn(len(old))]
			at := cl.Head.Time() + uint32(k+1)*uint32(cl.W.SlotMs/1000)
			if tx.Expiration() < uint64(at) {
				continue
			}
			res, err := P.Mine(cl.Head, at, types.Transactions{fx.WireTx(tx)}, fmt.Sprintf("replay%d", k))
			if err != nil || len(res.Block.Txs) != 1 {
				continue
			}
			if P.Insert(res.Block, true) == nil {
				continue // (would be C04's subject)
			}
			p.Steps = append(p.Steps, Step{Kind: "block", Block: encBlock(fx.Wire(res.Block, false)), Height: res.Block.Height(), Hash: res.Block.Hash().Hex(), Refused: true})
		}
	}
	p.U = cl.G.U.Export()
	p.FinalHead = P.BC.CurrentBlock().Hash().Hex()
	p.FinalStable = P.BC.StableBlock().Hash().Hex()
	// second pass: per-block observations with the final universe, taken while each block is still unconfirmed
	w := fx.NewWorld(p.World)
	dir := fx.ScratchDir("c08obs")
	defer os.RemoveAll(dir)
	N := w.NewNode(dir, w.Outsider)
	defer N.Close()
	U := fx.ImportUniverse(p.U)
	g := N.BC.Genesis()
	p.ObsAt[g.Hash().Hex()] = fx.ObserveAt(N.DB, g.Hash(), U, fx.ObsOpts{Roots: true, Versions: true})
	p.RawAt[g.Hash().Hex()] = fx.RawAccounts(N.DB, g.Hash(), U)
	for _, s := range p.Steps {
		if s.Kind == "block" {
			N.WaitQueue()
		}
		applyStep(N, s)
		if s.Kind == "block" && s.Main {
			if !N.BC.HasBlock(common.HexToHash(s.Hash)) {
				panic("observation pass: main-chain block of the plan was rejected")
			}
			h := common.HexToHash(s.Hash)
			p.ObsAt[s.Hash] = fx.ObserveAt(N.DB, h, U, fx.ObsOpts{Roots: true, Versions: true})
			p.RawAt[s.Hash] = fx.RawAccounts(N.DB, h, U)
		}
	}
	return p
}

func applyStep(n *fx.Node, s Step) error {
	fx.SetSelf(n.Self)
	switch s.Kind {
	case "block":
		return n.BC.InsertBlock(decBlock(s.Block))
	case "confirms":
		var sigs []types.SignData
		for _, x := range s.Sigs {
			raw, _ := hex.DecodeString(x)
			sigs = append(sigs, types.BytesToSignData(raw))
		}
		n.BC.InsertConfirms(s.Height, common.HexToHash(s.Hash), sigs)
	}
	return nil
}

// ---------------------------------------------------------------------------------------
// children

var (
	hookMu   sync.Mutex
	counts   = map[string]int{}
	tcounts  = map[string]int{}
	armed    bool
	crashCfg *CrashSpec
)

const crashExit = 99

func installHooks(spec *CrashSpec) {
	crashCfg = spec
	verifhook.SetPoint(func(site string) {
		hookMu.Lock()
		counts[site]++
		die := armed || (crashCfg != nil && crashCfg.Tear == 0 && crashCfg.Site == site && counts[site] == crashCfg.Occ)
		hookMu.Unlock()
		if die {
			os.Exit(crashExit) // no deferred functions, no flushes: process death with the page cache intact
		}
	})
	verifhook.SetTear(func(site string, buf []byte) []byte {
		hookMu.Lock()
		defer hookMu.Unlock()
		tcounts[site]++
		if crashCfg != nil && crashCfg.Tear > 0 && crashCfg.Site == site && tcounts[site] == crashCfg.Occ && len(buf) > 1 {
			cut := len(buf) * crashCfg.Tear / 1000
			if cut < 1 {
				cut = 1
			}
			if cut >= len(buf) {
				cut = len(buf) - 1
			}
			armed = true // die at the next point, i.e. right after the torn write
			return buf[:cut]
		}
		return buf
	})
}

func loadPlan(path string) *Plan {
	b, err := ioutil.ReadFile(path)
	if err != nil {
		panic(err)
	}
	p := new(Plan)
	if err := json.Unmarshal(b, p); err != nil {
		panic(err)
	}
	return p
}

func parseSpec(s string) *CrashSpec {
	if s == "" || s == "-" {
		return nil
	}
	var c CrashSpec
	if err := json.Unmarshal([]byte(s), &c); err != nil {
		panic(err)
	}
	return &c
}

// childRun: child-run <plan> <dir> <acks> <spec|-> <out>
func childRun(args []string) {
	fx.Quiet()
	scn.SetParams()
	p := loadPlan(args[0])
	installHooks(parseSpec(args[3]))
	w := fx.NewWorld(p.World)
	n := w.NewNode(args[1], w.Outsider)
	ack, err := os.OpenFile(args[2], os.O_CREATE|os.O_WRONLY|os.O_APPEND, 0644)
	if err != nil {
		panic(err)
	}
	for _, s := range p.Steps {
		if s.Kind == "block" {
			n.WaitQueue() // transfer-asset txs read an index that the write-behind goroutine maintains
		}
		err := applyStep(n, s)
		switch s.Kind {
		case "block":
			if err == nil {
				fmt.Fprintf(ack, "INSERT_DONE %s\n", s.Hash)
			}
		case "confirms":
			st := n.BC.StableBlock()
			fmt.Fprintf(ack, "STABLE_DONE %d %s\n", st.Height(), st.Hash().Hex())
		}
		ack.Sync()
	}
	n.WaitQueue()
	hookMu.Lock()
	out := map[string]interface{}{"points": counts, "tears": tcounts, "head": n.BC.CurrentBlock().Hash().Hex(), "stable": n.BC.StableBlock().Hash().Hex()}
	b, _ := json.Marshal(out)
	hookMu.Unlock()
	_ = ioutil.WriteFile(args[4], b, 0644)
	os.Exit(0)
}

type verdict struct {
	Class string `json:"class"`
	Msg   string `json:"msg"`
}

func fieldKind(diff string) string {
	// "0xaddr/field[/key]: a != b"
	i := strings.Index(diff, "/")
	if i < 0 {
		return "other"
	}
	rest := diff[i+1:]
	for j, c := range rest {
		if c == '/' || c == ':' {
			return rest[:j]
		}
	}
	return rest
}

// childRecover: child-recover <plan> <dir> <acks> <spec|-> <out>
func childRecover(args []string) {
	fx.Quiet()
	scn.SetParams()
	p := loadPlan(args[0])
	installHooks(parseSpec(args[3]))
	var out []verdict
	stats := map[string]int{}
	v := func(class, msg string) { out = append(out, verdict{class, msg}) }
	finish := func() {
		b, _ := json.Marshal(map[string]interface{}{"verdicts": out, "stats": stats})
		_ = ioutil.WriteFile(args[4], b, 0644)
		os.Exit(0)
	}
	// last acknowledged progress
	ackH := uint32(0)
	if f, err := os.Open(args[2]); err == nil {
		sc := bufio.NewScanner(f)
		for sc.Scan() {
			fs := strings.Fields(sc.Text())
			if len(fs) == 3 && fs[0] == "STABLE_DONE" {
				if h, err := strconv.Atoi(fs[1]); err == nil && uint32(h) > ackH {
					ackH = uint32(h)
				}
			}
		}
		f.Close()
	}
	w := fx.NewWorld(p.World)
	n := w.NewNode(args[1], w.Outsider) // a panic here kills the child: the supervisor reports reopen-panics
	U := fx.ImportUniverse(p.U)
	st := n.BC.StableBlock()
	stats["recovered_stable_height"] = int(st.Height())
	stats["acked_stable_height"] = int(ackH)
	if st.Height() < ackH {
		v("stable-older-than-acknowledged", fmt.Sprintf("recovered stable height %d, but the promotion of height %d had completed before the crash", st.Height(), ackH))
	}
	if want := p.Heights[fmt.Sprint(st.Height())]; want != st.Hash().Hex() {
		v("stable-not-on-acknowledged-chain", fmt.Sprintf("recovered stable block %s at height %d, the chain has %s there", st.Hash().Hex(), st.Height(), want))
		finish()
	}
	// every height up to the stable block, by height and by hash, with consistent parent links
	prev := common.Hash{}
	for h := uint32(0); h <= st.Height(); h++ {
		want := common.HexToHash(p.Heights[fmt.Sprint(h)])
		b := n.BC.GetBlockByHeight(h)
		stats["stable_blocks_read"]++
		if b == nil || b.Hash() != want {
			v("stable-chain-unreadable:by-height", fmt.Sprintf("height %d below the stable height %d cannot be read by height (or is another block)", h, st.Height()))
			continue
		}
		bh := n.BC.GetBlockByHash(want)
		if bh == nil || bh.Hash() != want {
			v("stable-chain-unreadable:by-hash", fmt.Sprintf("block %d cannot be read by hash", h))
		}
		if h > 0 && b.ParentHash() != prev {
			v("stable-chain-unreadable:parent-link", fmt.Sprintf("block %d does not link to block %d", h, h-1))
		}
		prev = b.Hash()
	}
	// account data as of exactly the stable block
	obs := fx.ObserveAt(n.DB, st.Hash(), U, fx.ObsOpts{Roots: true, Versions: true})
	raw := fx.RawAccounts(n.DB, st.Hash(), U)
	stats["account_fields_compared"] = len(obs) + len(raw)
	if d := fx.Diff(p.ObsAt[st.Hash().Hex()], obs, 4); len(d) > 0 {
		// which way? A field whose recovered value is the value of an EARLIER main-chain block (and of no later one) is
		// older than the stable block the node presents: the block's effects are lost for good (a stable block is never
		// executed again). Records that are ahead of the stable block are the other, known, window of the commit path
		want := p.ObsAt[st.Hash().Hex()]
		older := 0
		var example string
		for k, got := range obs {
			if want[k] == got {
				continue
			}
			ahead, behind := false, false
			for hs, hh := range p.Heights {
				var h uint32
				fmt.Sscan(hs, &h)
				if o, ok := p.ObsAt[hh]; ok && o[k] == got {
					if h > st.Height() {
						ahead = true
					} else if h < st.Height() {
						behind = true
					}
				}
			}
			if behind && !ahead {
				older++
				if example == "" {
					example = fmt.Sprintf("%s = %s (as of an earlier block), the stable block has %s", k, got, want[k])
				}
			}
		}
		if older > 0 {
			v("account-state-older-than-stable-block", fmt.Sprintf("stable height %d (acked %d): %d fields hold the value of an earlier block, e.g. %s", st.Height(), ackH, older, example))
		} else {
			v("account-state-differs-from-stable-block", fmt.Sprintf("stable height %d (acked %d): %v", st.Height(), ackH, d))
		}
	}
	if d := fx.Diff(p.RawAt[st.Hash().Hex()], raw, 3); len(d) > 0 {
		v("raw-account-differs-from-stable-block", fmt.Sprintf("stable height %d: %v", st.Height(), d))
	}
	// version trie of the stable header agrees with the accounts' version records
	if st.Height() > 0 {
		tr, err := trie.NewSecure(st.Header.VersionRoot, n.DB.GetTrieDatabase(), 0)
		if err != nil {
			v("version-trie-unreadable", err.Error())
		} else {
			am := account.NewManager(st.Hash(), n.DB)
			for _, a := range U.Addrs() {
				acc := am.GetAccount(a)
				for t := types.ChangeLogType(1); t < account.LOG_TYPE_STOP; t++ {
					ver := acc.GetVersion(t)
					if ver == 0 {
						continue
					}
					k := append(a.Bytes(), big.NewInt(int64(t)).Bytes()...)
					val, err := tr.TryGet(k)
					stats["version_entries_compared"]++
					if err != nil {
						v("version-trie-unreadable", err.Error())
					} else if !bytes.Equal(val, big.NewInt(int64(ver)).Bytes()) {
						v("version-trie-disagrees-with-account", fmt.Sprintf("%s type %d: account says %d, trie %x", a.Hex(), t, ver, val))
					}
				}
			}
		}
	}
	// candidate file knows every account with a candidate profile (it drives deposit refunds)
	if all, err := n.DB.GetAllCandidates(); err != nil {
		v("candidate-list-unreadable", err.Error())
	} else {
		have := map[common.Address]bool{}
		for _, a := range all {
			have[a] = true
		}
		am := account.NewManager(st.Hash(), n.DB)
		for _, a := range U.Addrs() {
			if len(am.GetAccount(a).GetCandidate()) > 0 {
				stats["candidates_compared"]++
				if !have[a] {
					v("candidate-list-misses-candidate", fmt.Sprintf("%s has a candidate profile at the stable block but is not in the persisted candidate list", a.Hex()))
				}
			}
		}
	}
	// a restarted node then behaves like one that never stopped: replay everything, compare the end
	for _, s := range p.Steps {
		if s.Kind == "block" {
			n.WaitQueue()
		}
		if os.Getenv("C08_DEBUG_STDERR") != "" {
			fmt.Fprintf(os.Stderr, "STEP kind=%s h=%d main=%v refused=%v hash=%s stable=%d head=%d\n", s.Kind, s.Height, s.Main, s.Refused, s.Hash[:10], n.BC.StableBlock().Height(), n.BC.CurrentBlock().Height())
		}
		err := applyStep(n, s)
		if s.Kind == "block" && s.Main && err != nil && s.Height > st.Height() && !n.BC.HasBlock(common.HexToHash(s.Hash)) {
			v("restarted-node-rejects-block", fmt.Sprintf("main-chain block %d rejected after recovery at stable %d: %v", s.Height, st.Height(), err))
			break
		}
		if s.Refused {
			stats["refused_blocks_offered_to_the_restarted_node"]++
			if err == nil || n.BC.HasBlock(common.HexToHash(s.Hash)) {
				v("restarted-node-accepts-block-the-never-stopped-node-refused", fmt.Sprintf("block %d (replays a transaction of an earlier block) was refused by the node that never stopped and accepted after recovery at stable %d", s.Height, st.Height()))
			}
		}
	}
	if got := n.BC.StableBlock().Hash().Hex(); got != p.FinalStable {
		v("restarted-node-diverges:stable", fmt.Sprintf("final stable %s, never-stopped node %s", got, p.FinalStable))
	}
	if got := n.BC.CurrentBlock().Hash().Hex(); got != p.FinalHead {
		v("restarted-node-diverges:head", fmt.Sprintf("final head %s, never-stopped node %s", got, p.FinalHead))
	}
	fs := n.BC.StableBlock()
	if d := fx.Diff(p.ObsAt[fs.Hash().Hex()], fx.ObserveAt(n.DB, fs.Hash(), U, fx.ObsOpts{Roots: true, Versions: true}), 4); len(d) > 0 {
		v("restarted-node-diverges:state", fmt.Sprintf("%v", d))
	}
	// contract code is stored under its hash: after the history was played again every code record has to hash to its key
	// (a record torn by the crash is replaced when the deploying block is executed again)
	{
		am := account.NewManager(fs.Hash(), n.DB)
		for _, a := range U.Addrs() {
			ch := am.GetAccount(a).GetCodeHash()
			if ch == (common.Hash{}) || ch == sha3Nil {
				continue
			}
			stats["code_records_checked"]++
			code, err := n.DB.GetContractCode(ch)
			if err != nil {
				v("contract-code-unreadable-after-replay", fmt.Sprintf("code %s of %s: %v", ch.Hex(), a.Hex(), err))
			} else if crypto.Keccak256Hash(code) != ch {
				v("contract-code-does-not-hash-to-its-key", fmt.Sprintf("the record under code hash %s (account %s) holds %d bytes that hash to %s", ch.Hex(), a.Hex(), len(code), crypto.Keccak256Hash(code).Hex()))
			}
		}
	}
	n.WaitQueue()
	// stage 2: a recovery that looked clean must survive a further clean restart (a record that recovery skipped or
	// a cursor it left stale shows only when later writes have landed and the queue file has been recycled)
	if len(out) == 0 {
		_ = ioutil.WriteFile(args[4]+".stage2", []byte("x"), 0644)
		time.Sleep(20 * time.Millisecond)
		n.Close()
		time.Sleep(20 * time.Millisecond)
		n2 := w.NewNode(args[1], w.Outsider)
		stats["second_restarts"]++
		st2 := n2.BC.StableBlock()
		if st2.Hash().Hex() != p.FinalStable {
			v("restart-after-clean-recovery:stable-differs", fmt.Sprintf("after a clean restart the stable block is %s (h%d), before it was %s", st2.Hash().Hex(), st2.Height(), p.FinalStable))
		}
		prev := common.Hash{}
		for h := uint32(0); h <= st2.Height(); h++ {
			want := common.HexToHash(p.Heights[fmt.Sprint(h)])
			b := n2.BC.GetBlockByHeight(h)
			if b == nil || b.Hash() != want || n2.BC.GetBlockByHash(want) == nil || (h > 0 && b.ParentHash() != prev) {
				v("restart-after-clean-recovery:stable-chain-unreadable", fmt.Sprintf("height %d of the stable chain is not readable after the second restart", h))
				break
			}
			prev = b.Hash()
		}
		if d := fx.Diff(p.ObsAt[st2.Hash().Hex()], fx.ObserveAt(n2.DB, st2.Hash(), U, fx.ObsOpts{Roots: true, Versions: true}), 4); len(d) > 0 {
			v("restart-after-clean-recovery:state-differs", fmt.Sprintf("%v", d))
		}
		n2.WaitQueue()
		os.Remove(args[4] + ".stage2")
	}
	finish()
}

// ---------------------------------------------------------------------------------------
// supervisor

func self() string {
	p, err := os.Executable()
	if err != nil {
		panic(err)
	}
	return p
}

func runChild(c *run.Ctx, timeout time.Duration, args ...string) (rc int, stderr string) {
	cmd := exec.Command("timeout", append([]string{"-s", "KILL", fmt.Sprint(int(timeout.Seconds())), self()}, args...)...)
	var eb bytes.Buffer
	cmd.Stderr = &eb
	cmd.Stdout = ioutil.Discard
	err := cmd.Run()
	rc = 0
	if ee, ok := err.(*exec.ExitError); ok {
		rc = ee.ExitCode()
	} else if err != nil {
		rc = -1
	}
	return rc, eb.String()
}

// reopenClass maps the panic of a failed reopen to its mechanism; unknown panics keep their (number-free) message.
func reopenClass(stderr string) string {
	switch {
	case strings.Contains(stderr, "start queue.check tmp file err"):
		return "queue-file-scan-fails"
	case strings.Contains(stderr, "save genesis block failed"), strings.Contains(stderr, "setup genesis block failed"), strings.Contains(stderr, "build genesis block failed"):
		return "interrupted-genesis-setup-not-repeatable"
	case strings.Contains(stderr, "get candidates err"), strings.Contains(stderr, "load run context error"), strings.Contains(stderr, "start != pos"), strings.Contains(stderr, "decode candidate"),
		strings.Contains(stderr, "store.(*CandidateCache).Decode"), strings.Contains(stderr, "store.(*RunContext).load"):
		return "candidate-file-load-fails"
	case strings.Contains(stderr, "block does not exist"), strings.Contains(stderr, "get stable block err"):
		return "stable-pointer-without-block-data"
	case strings.Contains(stderr, "write extend data err"):
		return "write-behind-extension-fails"
	}
	return panicClass(stderr)
}

func panicClass(stderr string) string {
	i := strings.Index(stderr, "panic: ")
	if i < 0 {
		i = strings.Index(stderr, "fatal error: ")
	}
	if i < 0 {
		return "died-without-panic-message"
	}
	line := stderr[i:]
	if j := strings.Index(line, "\n"); j >= 0 {
		line = line[:j]
	}
	// mechanism: strip numbers / hashes / paths
	out := make([]rune, 0, len(line))
	for _, r := range line {
		if r >= '0' && r <= '9' {
			continue
		}
		out = append(out, r)
	}
	s := string(out)
	if len(s) > 80 {
		s = s[:80]
	}
	return strings.TrimSpace(s)
}

// siteGroup is the site with bitcask data file names collapsed.
func siteGroup(site string) string {
	parts := strings.Split(site, ":")
	if len(parts) == 3 && parts[0] == "flush" && parts[2] != "tmp.data" {
		parts[2] = "bitcask"
	}
	return strings.Join(parts, ":")
}

// siteClass names the write protocol a crash site belongs to (the mechanism part of a violation class):
// the candidate file (context.data) is rewritten in place; everything else belongs to the store's
// commit path (queue file -> bitcask data files -> LevelDB index -> stable pointer).
func siteClass(site string) string {
	if strings.HasPrefix(site, "context:") {
		return "candidate-file"
	}
	return "store-commit"
}

type point struct {
	Plan  int
	Spec  CrashSpec
	Spec2 *CrashSpec // crash during recovery (thorough)
}

func supervise(c *run.Ctx, planPath string, p *Plan, pt point, dir string) {
	defer os.RemoveAll(dir)
	acks := filepath.Join(dir, "acks")
	db := filepath.Join(dir, "db")
	out := filepath.Join(dir, "out.json")
	spec, _ := json.Marshal(pt.Spec)
	c.WAL(pt)
	rc, se := runChild(c, 120*time.Second, "child-run", planPath, db, acks, string(spec), out)
	wit := map[string]interface{}{"plan_variant": pt.Plan, "seed": c.Seed, "crash": pt.Spec, "crash_in_recovery": pt.Spec2}
	phase := "point"
	if pt.Spec.Tear > 0 {
		phase = "torn"
	}
	sc := siteClass(pt.Spec.Site)
	switch {
	case rc == 0:
		c.Stat("crash_point_not_reached", 1)
		return
	case rc != crashExit:
		c.Violation("C08/workload-died:"+panicClass(se), fmt.Sprintf("the workload child died on its own (rc=%d) before the crash point %s", rc, pt.Spec), wit)
		return
	}
	c.Stat("crashes_injected", 1)
	c.Seen("crash_sites", siteGroup(pt.Spec.Site)+"/"+phase)
	if pt.Spec2 != nil {
		s2, _ := json.Marshal(pt.Spec2)
		rc2, _ := runChild(c, 120*time.Second, "child-recover", planPath, db, acks, string(s2), out)
		if rc2 == crashExit {
			c.Stat("crashes_during_recovery_injected", 1)
		}
	}
	os.Remove(out)
	rc, se = runChild(c, 180*time.Second, "child-recover", planPath, db, acks, "-", out)
	if rc != 0 {
		if rc == 137 || rc == 124 {
			c.Violation("C08/reopen-hangs:"+sc, fmt.Sprintf("recovery after a crash at %s did not finish", pt.Spec), wit)
			return
		}
		if _, err := os.Stat(out + ".stage2"); err == nil {
			c.Violation("C08/restart-after-clean-recovery:reopen-panics:"+reopenClass(se), fmt.Sprintf("recovery after a crash at %s looked clean, the rest of the history was played, but the next clean restart dies: %s", pt.Spec, firstLines(se, 3)), wit)
			return
		}
		if f := os.Getenv("C08_DEBUG_STDERR"); f != "" {
			_ = ioutil.WriteFile(f, []byte(se), 0644)
		}
		c.Violation("C08/reopen-panics:"+reopenClass(se)+":"+sc, fmt.Sprintf("database does not open / recover after a crash at %s: %s", pt.Spec, firstLines(se, 3)), wit)
		return
	}
	b, err := ioutil.ReadFile(out)
	if err != nil {
		c.Violation("C08/recovery-child-no-result", pt.Spec.String(), wit)
		return
	}
	var res struct {
		Verdicts []verdict      `json:"verdicts"`
		Stats    map[string]int `json:"stats"`
	}
	_ = json.Unmarshal(b, &res)
	for k, n := range res.Stats {
		if k != "recovered_stable_height" && k != "acked_stable_height" {
			c.Stat(k, int64(n))
		}
	}
	c.Stat("recoveries_checked", 1)
	if res.Stats["recovered_stable_height"] > res.Stats["acked_stable_height"] {
		c.Stat("recovered_ahead_of_ack", 1)
	}
	for _, v := range res.Verdicts {
		cls := v.Class
		if cls == "account-state-older-than-stable-block" {
			// a torn append to the write-ahead file loses records on the unchanged tree too (its replay has no checksum: known
			// finding); after complete writes only an ordering mistake of the commit path can leave older account data
			if pt.Spec.Tear > 0 {
				cls += ":after-a-torn-write"
			} else {
				cls += ":after-complete-writes"
			}
		}
		c.Violation("C08/"+cls+":"+sc, fmt.Sprintf("after a crash at %s: %s", pt.Spec, v.Msg), wit)
	}
	c.Case(siteGroup(pt.Spec.Site)+"/"+phase+fmt.Sprintf("/plan%d/%s", pt.Plan, occClass(pt.Spec.Occ)), true, wit)
}

func occClass(o int) string {
	switch {
	case o <= 2:
		return "first"
	case o <= 10:
		return "early"
	}
	return "later"
}

func firstLines(s string, n int) string {
	i := strings.Index(s, "panic: ")
	if i >= 0 {
		s = s[i:]
	}
	ls := strings.SplitN(s, "\n", n+1)
	if len(ls) > n {
		ls = ls[:n]
	}
	return strings.Join(ls, " | ")
}

var sha3Nil = crypto.Keccak256Hash(nil)

func batches(tier string) int { return 16 }

func enumerate(c *run.Ctx, variant int, points, tears map[string]int) []point {
	var all []point
	var sites []string
	for s := range points {
		sites = append(sites, s)
	}
	sort.Strings(sites)
	r := run.NewRng(c.Seed, 88, uint64(variant))
	pick := func(site string, n int) []int {
		set := map[int]bool{1: true, n: true}
		highVolume := strings.HasPrefix(site, "leveldb:") && !strings.HasSuffix(site, "stable-pointer") || (strings.HasPrefix(site, "flush:") && !strings.HasSuffix(site, "tmp.data"))
		extra := 2
		if site == "leveldb:before-put:cursor" {
			extra = 40 // the window between publishing a record's position and advancing the file cursor
		}
		switch {
		case c.Thorough() && !highVolume:
			for i := 1; i <= n; i++ {
				set[i] = true
			}
		case c.Thorough():
			extra = 400
			fallthrough
		default:
			for _, x := range []int{2, n / 4, n / 2, 3 * n / 4, n - 1} {
				if x >= 1 && x <= n {
					set[x] = true
				}
			}
			for k := 0; k < extra; k++ {
				set[1+r.Intn(n)] = true
			}
		}
		var out []int
		for i := range set {
			out = append(out, i)
		}
		sort.Ints(out)
		return out
	}
	for _, s := range sites {
		n := points[s]
		// bitcask data files: one crash-point set per class, not per file
		for _, o := range pick(s, n) {
			all = append(all, point{Plan: variant, Spec: CrashSpec{Site: s, Occ: o}})
		}
	}
	var tsites []string
	for s := range tears {
		tsites = append(tsites, s)
	}
	sort.Strings(tsites)
	for _, s := range tsites {
		occs := pick(s, tears[s])
		if strings.HasSuffix(s, "tmp.data") {
			// the first appends to the write-ahead file carry the contract code records of the first blocks: every one of them
			seen := map[int]bool{}
			for _, o := range occs {
				seen[o] = true
			}
			for o := 1; o <= 40 && o <= tears[s]; o++ {
				if !seen[o] {
					occs = append(occs, o)
				}
			}
		}
		for _, o := range occs {
			all = append(all, point{Plan: variant, Spec: CrashSpec{Site: s, Occ: o, Tear: []int{50, 300, 700, 990}[r.Intn(4)]}})
		}
	}
	return all
}

func runAll(c *run.Ctx) {
	fx.Quiet()
	scn.SetParams()
	nPlans := c.Pick(2, 3)
	for variant := 0; variant < nPlans; variant++ {
		p := makePlan(c.Seed, variant)
		planPath := filepath.Join(c.Scratch, fmt.Sprintf("plan%d.json", variant))
		b, _ := json.Marshal(p)
		_ = ioutil.WriteFile(planPath, b, 0644)
		// crash-free twin run: counts the events per site and must reproduce the plan's end state
		tdir := filepath.Join(c.Scratch, fmt.Sprintf("twin%d", variant))
		os.MkdirAll(tdir, 0755)
		out := filepath.Join(tdir, "out.json")
		rc, se := runChild(c, 180*time.Second, "child-run", planPath, filepath.Join(tdir, "db"), filepath.Join(tdir, "acks"), "-", out)
		if rc != 0 {
			c.Violation("C08/workload-died:"+panicClass(se), "crash-free run of the workload died: "+firstLines(se, 3), map[string]interface{}{"plan_variant": variant, "seed": c.Seed})
			continue
		}
		var tw struct {
			Points map[string]int `json:"points"`
			Tears  map[string]int `json:"tears"`
			Head   string         `json:"head"`
			Stable string         `json:"stable"`
		}
		tb, _ := ioutil.ReadFile(out)
		_ = json.Unmarshal(tb, &tw)
		if tw.Head != p.FinalHead || tw.Stable != p.FinalStable {
			c.Inconclusive("crash-free twin run does not reproduce the plan's end state")
			continue
		}
		// group bitcask files: enumerate on the class with summed counts but address concrete sites
		all := enumerate(c, variant, tw.Points, tw.Tears)
		if !c.Thorough() {
			// quick: thin out the (many) per-bitcask-file sites to a seeded sample
			r := run.NewRng(c.Seed, 89, uint64(variant))
			var keep []point
			for _, pt := range all {
				if strings.HasPrefix(pt.Spec.Site, "flush:") && !strings.HasSuffix(pt.Spec.Site, "tmp.data") {
					if !r.Chance(1, 12) {
						continue
					}
				}
				keep = append(keep, pt)
			}
			all = keep
		}
		total := 0
		for _, n := range tw.Points {
			total += n
		}
		if c.Batch == 0 {
			c.Stat("write_events_in_crash_free_run", int64(total))
			c.Stat("crash_points_enumerated", int64(len(all)))
		}
		for i, pt := range all {
			if i%c.NBatches != c.Batch {
				continue
			}
			if c.Thorough() && i%7 == 3 {
				// second-level crash during recovery
				pt.Spec2 = &CrashSpec{Site: "flush:before-sync:tmp.data", Occ: 1 + i%3}
				if i%2 == 0 {
					pt.Spec2 = &CrashSpec{Site: "leveldb:before-put:index", Occ: 1 + i%5}
				}
			}
			supervise(c, planPath, p, pt, filepath.Join(c.Scratch, fmt.Sprintf("pt-%d-%d", variant, i)))
		}
		os.RemoveAll(tdir)
	}
}

func replay(c *run.Ctx, raw json.RawMessage) {
	fx.Quiet()
	scn.SetParams()
	var w struct {
		Plan  int        `json:"plan_variant"`
		Seed  uint64     `json:"seed"`
		Crash CrashSpec  `json:"crash"`
		Rec   *CrashSpec `json:"crash_in_recovery"`
	}
	if err := json.Unmarshal(raw, &w); err != nil {
		c.Inconclusive("bad witness")
		return
	}
	p := makePlan(w.Seed, w.Plan)
	planPath := filepath.Join(c.Scratch, "plan.json")
	b, _ := json.Marshal(p)
	_ = ioutil.WriteFile(planPath, b, 0644)
	supervise(c, planPath, p, point{Plan: w.Plan, Spec: w.Crash, Spec2: w.Rec}, filepath.Join(c.Scratch, "pt"))
}

func main() {
	if len(os.Args) > 1 {
		switch os.Args[1] {
		case "child-run":
			childRun(os.Args[2:])
			return
		case "child-recover":
			childRecover(os.Args[2:])
			return
		}
	}
	run.Main(run.Engine{Batches: batches, Run: runAll, Replay: replay})
}
