package main

// Deterministic regression witnesses of the defects this engine found on the unchanged tree;
// they run in every tier and for every seed (batch 0).

import (
	"encoding/hex"
	"encoding/json"
	"math/big"
	"strings"

	"github.com/LemoFoundationLtd/lemochain-core/chain/account"
	"github.com/LemoFoundationLtd/lemochain-core/chain/types"
	"github.com/LemoFoundationLtd/lemochain-core/common"

	"verif/fx"
)

func (m *mon) fixedCases() {
	c := m.c
	initKeys()
	k := keys[0]
	to := keys[1].Addr
	// 1. a signed transaction whose message is not UTF-8 (legal on the wire) through JSON
	{
		txOrigin = map[*types.Transaction]*fx.TxFields{}
		f := &fx.TxFields{Type: 0, Version: types.TxVersion, ChainID: 200, From: k.Addr, Recipient: &to, GasPrice: big.NewInt(1000000000), GasLimit: 100000,
			Amount: big.NewInt(1), Expiration: 1700000900, Message: "\xff\xfe message"}
		h := types.MakeSigner().Hash(mustBuild(f))
		f.Sigs = [][]byte{newG(nil).sigOver(h, k)}
		tx := mustBuild(f)
		cs := &Case{Mon: "value", Type: "Transaction", Shape: "fixed:non-utf8-message", Tree: witnessTree(tx)}
		m.checkValue(codecByName["Transaction"], tx, cs)
		c.Case("fixed/non-utf8-message", true, nil)
	}
	// 2. JSON transactions with a negative amount / gas price: accepted, no wire form, constant hash
	{
		tx := types.NewTransaction(k.Addr, to, big.NewInt(5), 100000, big.NewInt(1000000000), nil, 0, 200, 1700000900, "", "")
		js, _ := json.Marshal(tx)
		for _, s := range []string{strings.Replace(string(js), `"amount":"5"`, `"amount":"-5"`, 1), strings.Replace(string(js), `"gasPrice":"1000000000"`, `"gasPrice":"-1"`, 1),
			`{"subTxList":[` + strings.Replace(string(js), `"amount":"5"`, `"amount":"-5"`, 1) + `]}`} {
			cs := &Case{Mon: "text", Type: "Transaction", Form: "fixed:negative-integer", Text: s}
			m.textOne(s, cs)
			c.Case("fixed/json-negative", true, nil)
		}
	}
	// 3. decimal integers of unbounded length
	{
		s := `"` + strings.Repeat("9", 100000) + `"`
		cs := &Case{Mon: "text", Type: "Number", Form: "fixed:long-decimal", Text: s}
		m.textOne(s, cs)
		c.Case("fixed/long-decimal", true, nil)
	}
	// 4. Profile.DecodeRLP ignores the error of Stream.Kind: non-canonical / absent empty profile
	{
		a := &types.Asset{Category: 1, IsDivisible: true, Decimal: 5, TotalSupply: big.NewInt(7), Issuer: k.Addr, Profile: types.Profile{}}
		e, _ := rlpEnc(a)
		body := e[2 : len(e)-1] // drop list header (f8 xx) and the empty profile c0
		mk := func(tail ...byte) []byte {
			p := append(append([]byte{}, body...), tail...)
			return append(head(0xC0, uint64(len(p))), p...)
		}
		t := targetByName["Asset"]
		m.canonOne(t, mutant{form: "long-form-length-for-short-payload", enc: mk(0xF8, 0x00), node: []byte{0xF8, 0x00}, kind: 'l', own: "Profile"})
		m.canonOne(t, mutant{form: "length-with-leading-zero", enc: mk(0xF9, 0x00, 0x00), node: []byte{0xF9, 0x00, 0x00}, kind: 'l', own: "Profile"})
		m.canonOne(t, mutant{form: "missing-list-element", enc: mk(), node: mk(), kind: 's', own: "Profile"})
		m.canonOne(targetByName["Profile"], mutant{form: "truncated-input", enc: []byte{}, kind: 't'})
	}
	// 5. ChangeLog.DecodeRLP leaks the stream's end-of-list marker: a truncated last log is dropped silently
	{
		l1 := &types.ChangeLog{LogType: account.BalanceLog, Address: k.Addr, Version: 1, NewVal: *big.NewInt(5)}
		l2 := &types.ChangeLog{LogType: account.BalanceLog, Address: to, Version: 2, NewVal: *big.NewInt(6)}
		e1, _ := rlpEnc(l1)
		e2, _ := rlpEnc(l2)
		r2, _ := parseRLP(e2)
		r2.kids = r2.kids[:4]
		t2 := r2.encode(nil)
		body := append(append([]byte{}, e1...), t2...)
		m.canonOne(targetByName["ChangeLogSlice"], mutant{form: "missing-list-element", enc: append(head(0xC0, uint64(len(body))), body...), node: t2, kind: 'L', own: "ChangeLog"})
	}
	// 6. address text: characters outside the base26 alphabet and payloads longer than 21 bytes
	{
		ff := common.HexToAddress("0xffffffffffffffffffffffffffffffffffffffff")
		m.addrCorrupted(ff, ff.String(), "LemoD78WQQGH3NKW97SYSHZRPKQRQ5B89A2YHBNP", "substitution")
		m.addrCorrupted(ff, ff.String(), "LemoD78WQQGH3JNKW97SYSHZRPKQRQ5B84A2YHBNP", "insertion")
		a := common.HexToAddress("0x0391b11661e94e28699f68f84213c7366a5ec436")
		m.addrCorrupted(a, a.String(), "Lemo863FWPN3T4BKSF2DQ282KRQQZ5H85SAG1PN7S", "insertion")
		// exhaustive sweep of single substitutions by characters outside the alphabet over a few accounts
		for i := 0; i < nKeys; i++ {
			a := keys[i].Addr
			s := a.String()
			for p := 4; p < len(s); p++ {
				for _, ch := range "EILMOUVX01" {
					m.addrCorrupted(a, s, s[:p]+string(ch)+s[p+1:], "substitution")
				}
			}
		}
		c.Case("fixed/address-text", true, nil)
	}
	_ = hex.EncodeToString
}
