package main

// The table of encodable types: how a value is generated, encoded and decoded (mirroring the
// repository's own call sites), which hashes and signers it carries, and its wire schema.

import (
	"bytes"
	"fmt"
	"math/big"
	"strings"

	"github.com/LemoFoundationLtd/lemochain-core/chain/types"
	"github.com/LemoFoundationLtd/lemochain-core/common"
	"github.com/LemoFoundationLtd/lemochain-core/common/rlp"
	"github.com/LemoFoundationLtd/lemochain-core/network"
	"github.com/LemoFoundationLtd/lemochain-core/network/p2p"
)

type codec struct {
	name    string
	weight  int
	gen     func(g *G) interface{} // pointer to a fresh value
	fresh   func() interface{}     // decode target, pre-initialised the way the repository's call sites do
	hashed  bool                   // hashed or signed: encode(decode(b)) must equal b
	hash    func(v interface{}) string
	signers func(v interface{}) string
	schema  *sch
	viaMsg  bool // additionally decoded through p2p.Msg.Decode (the network call site)
	mapped  bool // contains a Go map: value round trip only
}

func rlpEnc(v interface{}) ([]byte, error) { return rlp.EncodeToBytes(v) }

// safely runs f and turns a panic into an error string.
func safely(f func() error) (err error, panicked string) {
	defer func() {
		if r := recover(); r != nil {
			panicked = fmt.Sprint(r)
		}
	}()
	return f(), ""
}

func msgDecode(b []byte, into interface{}) error {
	m := &p2p.Msg{Content: b}
	return m.Decode(into)
}

func hx(h common.Hash) string { return h.Hex() }

func signersOfTx(tx *types.Transaction) string {
	var out []string
	for i, s := range []types.Signer{types.MakeSigner(), types.MakeReimbursementTxSigner(), types.MakeGasPayerSigner()} {
		as, err := s.GetSigners(tx)
		if err != nil {
			out = append(out, fmt.Sprintf("%d:err:%v", i, err))
			continue
		}
		var ss []string
		for _, a := range as {
			ss = append(ss, a.Hex())
		}
		out = append(out, fmt.Sprintf("%d:%s", i, strings.Join(ss, "+")))
	}
	return strings.Join(out, " ")
}

func hashesOfTx(tx *types.Transaction) string {
	return fmt.Sprintf("%s sign=%s reimb=%s payer=%s", hx(tx.Hash()), hx(types.MakeSigner().Hash(tx)), hx(types.MakeReimbursementTxSigner().Hash(tx)), hx(types.MakeGasPayerSigner().Hash(tx)))
}

func recoverStr(sd types.SignData, h common.Hash) string {
	id, err := sd.RecoverNodeID(h)
	if err != nil {
		return "err"
	}
	return common.ToHex(id)
}

func headerSigner(h *types.Header) string {
	id, err := h.SignerNodeID()
	if err != nil {
		return "err"
	}
	return common.ToHex(id)
}

func blockHashes(b *types.Block) string {
	return fmt.Sprintf("%s txs=%s logs=%s deputies=%s", hx(b.Hash()), hx(b.Txs.MerkleRootSha()), hx(b.ChangeLogs.MerkleRootSha()), hx(b.DeputyNodes.MerkleRootSha()))
}

func blockSigners(b *types.Block) string {
	out := []string{headerSigner(b.Header)}
	for _, c := range b.Confirms {
		out = append(out, recoverStr(c, b.Hash()))
	}
	for _, tx := range b.Txs {
		out = append(out, signersOfTx(tx))
	}
	return strings.Join(out, " ")
}

var codecs []*codec
var codecByName = map[string]*codec{}

func initCodecs() {
	if codecs != nil {
		return
	}
	initKeys()
	initLogShapes()
	add := func(c *codec) {
		codecs = append(codecs, c)
		codecByName[c.name] = c
	}
	add(&codec{name: "Header", weight: 20, hashed: true, schema: schHeader,
		gen:     func(g *G) interface{} { return genHeader(g) },
		fresh:   func() interface{} { return new(types.Header) },
		hash:    func(v interface{}) string { return hx(v.(*types.Header).Hash()) },
		signers: func(v interface{}) string { return headerSigner(v.(*types.Header)) }})
	add(&codec{name: "Block", weight: 12, hashed: true, schema: schBlock,
		gen:     func(g *G) interface{} { return genBlock(g) },
		fresh:   func() interface{} { return new(types.Block) },
		hash:    func(v interface{}) string { return blockHashes(v.(*types.Block)) },
		signers: func(v interface{}) string { return blockSigners(v.(*types.Block)) }})
	add(&codec{name: "Blocks", weight: 3, hashed: true, schema: sL(schBlock), viaMsg: true,
		gen:   func(g *G) interface{} { return genBlocks(g) },
		fresh: func() interface{} { return new(types.Blocks) },
		hash: func(v interface{}) string {
			var s []string
			for _, b := range *v.(*types.Blocks) {
				s = append(s, blockHashes(b))
			}
			return strings.Join(s, ";")
		},
		signers: func(v interface{}) string {
			var s []string
			for _, b := range *v.(*types.Blocks) {
				s = append(s, blockSigners(b))
			}
			return strings.Join(s, ";")
		}})
	add(&codec{name: "Transaction", weight: 60, hashed: true, schema: schTx,
		gen:     func(g *G) interface{} { tx, _ := genTx(g, true); return tx },
		fresh:   func() interface{} { return new(types.Transaction) },
		hash:    func(v interface{}) string { return hashesOfTx(v.(*types.Transaction)) },
		signers: func(v interface{}) string { return signersOfTx(v.(*types.Transaction)) }})
	add(&codec{name: "Transactions", weight: 4, hashed: true, schema: sL(schTx), viaMsg: true,
		gen:   func(g *G) interface{} { return genTxs(g) },
		fresh: func() interface{} { return new(types.Transactions) },
		hash:  func(v interface{}) string { return hx(v.(*types.Transactions).MerkleRootSha()) },
		signers: func(v interface{}) string {
			var s []string
			for _, tx := range *v.(*types.Transactions) {
				s = append(s, signersOfTx(tx))
			}
			return strings.Join(s, ";")
		}})
	add(&codec{name: "ChangeLog", weight: 50, hashed: true, schema: schLog,
		gen:   func(g *G) interface{} { return genLog(g) },
		fresh: func() interface{} { return new(types.ChangeLog) },
		hash:  func(v interface{}) string { return hx(v.(*types.ChangeLog).Hash()) }})
	add(&codec{name: "ChangeLogSlice", weight: 4, hashed: true, schema: sL(schLog),
		gen:   func(g *G) interface{} { return genLogs(g) },
		fresh: func() interface{} { return new(types.ChangeLogSlice) },
		hash:  func(v interface{}) string { return hx(v.(*types.ChangeLogSlice).MerkleRootSha()) }})
	add(&codec{name: "AccountData", weight: 15, mapped: true, schema: schAccount,
		gen:   func(g *G) interface{} { return genAccount(g) },
		fresh: func() interface{} { return new(types.AccountData) }})
	add(&codec{name: "Asset", weight: 6, schema: schAsset,
		gen: func(g *G) interface{} { return genAsset(g, false) },
		// chain/account/account.go:468 GetAssetCode pre-initialises both fields
		fresh: func() interface{} {
			return &types.Asset{TotalSupply: new(big.Int), Profile: make(types.Profile)}
		}})
	add(&codec{name: "AssetEquity", weight: 3, schema: schEquity,
		gen:   func(g *G) interface{} { return genEquity(g) },
		fresh: func() interface{} { return new(types.AssetEquity) }})
	add(&codec{name: "DeputyNode", weight: 6, hashed: true, schema: schDeputy,
		gen:   func(g *G) interface{} { return genDeputy(g) },
		fresh: func() interface{} { return new(types.DeputyNode) },
		hash:  func(v interface{}) string { return hx(v.(*types.DeputyNode).Hash()) }})
	add(&codec{name: "DeputyNodes", weight: 3, hashed: true, schema: sL(schDeputy),
		gen:   func(g *G) interface{} { return genDeputies(g) },
		fresh: func() interface{} { return new(types.DeputyNodes) },
		hash:  func(v interface{}) string { return hx(v.(*types.DeputyNodes).MerkleRootSha()) }})
	add(&codec{name: "Signers", weight: 3, schema: schSigners,
		gen:   func(g *G) interface{} { return genSigners(g) },
		fresh: func() interface{} { return new(types.Signers) }})
	add(&codec{name: "Profile", weight: 4, mapped: true, schema: schProfile,
		gen:   func(g *G) interface{} { p := genProfile(g); return &p },
		fresh: func() interface{} { p := make(types.Profile); return &p }})
	add(&codec{name: "Event", weight: 3, hashed: true, schema: schEvent,
		gen:   func(g *G) interface{} { return genEvent(g) },
		fresh: func() interface{} { return new(types.Event) },
		hash:  func(v interface{}) string { return hx(v.(*types.Event).Hash()) }})
	// network messages (network/protocol.go, network/peer.go) decoded by ProtocolManager through p2p.Msg.Decode
	add(&codec{name: "BlockConfirmData", weight: 5, hashed: true, viaMsg: true, schema: sS("", sB, sI, sB),
		gen:   func(g *G) interface{} { return genConfirm(g) },
		fresh: func() interface{} { return new(network.BlockConfirmData) },
		signers: func(v interface{}) string {
			c := v.(*network.BlockConfirmData)
			return recoverStr(c.SignInfo, c.Hash)
		}})
	add(&codec{name: "BlockConfirms", weight: 4, hashed: true, viaMsg: true, schema: sS("", sI, sB, sL(sB)),
		gen:   func(g *G) interface{} { return genConfirms(g) },
		fresh: func() interface{} { return new(network.BlockConfirms) },
		signers: func(v interface{}) string {
			c := v.(*network.BlockConfirms)
			var s []string
			for _, p := range c.Pack {
				s = append(s, recoverStr(p, c.Hash))
			}
			return strings.Join(s, " ")
		}})
	add(&codec{name: "GetConfirmInfo", weight: 2, viaMsg: true, schema: sS("", sI, sB),
		gen:   func(g *G) interface{} { return &network.GetConfirmInfo{Height: g.u32(), Hash: g.hash()} },
		fresh: func() interface{} { return new(network.GetConfirmInfo) }})
	add(&codec{name: "GetBlocksData", weight: 2, viaMsg: true, schema: sS("", sI, sI),
		gen:   func(g *G) interface{} { return &network.GetBlocksData{From: g.u32(), To: g.u32()} },
		fresh: func() interface{} { return new(network.GetBlocksData) }})
	add(&codec{name: "GetSingleBlockData", weight: 1, viaMsg: true, schema: sS("", sB, sI),
		gen:   func(g *G) interface{} { return &network.GetSingleBlockData{Hash: g.hash(), Height: g.u32()} },
		fresh: func() interface{} { return new(network.GetSingleBlockData) }})
	add(&codec{name: "BlockHashData", weight: 2, viaMsg: true, schema: sS("", sI, sB),
		gen:   func(g *G) interface{} { return &network.BlockHashData{Height: g.u32(), Hash: g.hash()} },
		fresh: func() interface{} { return new(network.BlockHashData) }})
	add(&codec{name: "LatestStatus", weight: 2, viaMsg: true, schema: schStatus,
		gen:   func(g *G) interface{} { return genStatus(g) },
		fresh: func() interface{} { return new(network.LatestStatus) }})
	add(&codec{name: "GetLatestStatus", weight: 1, viaMsg: true, schema: sS("", sI),
		gen:   func(g *G) interface{} { return &network.GetLatestStatus{Revert: g.u32()} },
		fresh: func() interface{} { return new(network.GetLatestStatus) }})
	add(&codec{name: "ProtocolHandshake", weight: 3, viaMsg: true, schema: sS("", sI, sB, sI, schStatus),
		gen: func(g *G) interface{} {
			return &network.ProtocolHandshake{ChainID: g.u16(), GenesisHash: g.hash(), NodeVersion: g.u32(), LatestStatus: *genStatus(g)}
		},
		fresh: func() interface{} { return new(network.ProtocolHandshake) }})
	add(&codec{name: "DiscoverResData", weight: 2, viaMsg: true, schema: sS("", sI, sL(sB)),
		gen:   func(g *G) interface{} { return genDiscoverRes(g) },
		fresh: func() interface{} { return new(network.DiscoverResData) }})
	add(&codec{name: "DiscoverReqData", weight: 1, viaMsg: true, schema: sS("", sI),
		gen:   func(g *G) interface{} { return &network.DiscoverReqData{Sequence: uint(g.u64())} },
		fresh: func() interface{} { return new(network.DiscoverReqData) }})
	add(&codec{name: "authReqMsg", weight: 1, schema: sS("", sB, sB, sB),
		gen: func(g *G) interface{} {
			m := new(authReqMsg)
			copy(m.Signature[:], g.r.Bytes(65))
			copy(m.ClientPubKey[:], g.r.Bytes(64))
			copy(m.InitNonce[:], g.r.Bytes(32))
			if g.r.Chance(1, 4) {
				*m = authReqMsg{}
			}
			return m
		},
		fresh: func() interface{} { return new(authReqMsg) }})
	add(&codec{name: "authRespMsg", weight: 1, schema: sS("", sB, sB),
		gen: func(g *G) interface{} {
			m := new(authRespMsg)
			copy(m.RandomPubKey[:], g.r.Bytes(64))
			copy(m.RespNonce[:], g.r.Bytes(32))
			return m
		},
		fresh: func() interface{} { return new(authRespMsg) }})
}

// schedule spreads the codecs over case indices according to their weights.
func schedule() []*codec {
	var out []*codec
	maxw := 0
	for _, c := range codecs {
		if c.weight > maxw {
			maxw = c.weight
		}
	}
	// interleave so that any contiguous index range sees every type
	for round := 0; round < maxw; round++ {
		for _, c := range codecs {
			if round < c.weight {
				out = append(out, c)
			}
		}
	}
	return out
}

func firstDiff(a, b string) string {
	n := len(a)
	if len(b) < n {
		n = len(b)
	}
	i := 0
	for i < n && a[i] == b[i] {
		i++
	}
	lo := i - 60
	if lo < 0 {
		lo = 0
	}
	cut := func(s string) string {
		hi := i + 60
		if hi > len(s) {
			hi = len(s)
		}
		if lo > len(s) {
			return ""
		}
		return s[lo:hi]
	}
	return fmt.Sprintf("at %d: original ...%s... decoded ...%s...", i, cut(a), cut(b))
}

var _ = bytes.Equal
