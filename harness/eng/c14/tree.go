package main

// A harness-owned, reflection based value <-> JSON tree mapping. It does not use any codec of
// the repository, so it can (a) materialise generated values as replayable witnesses and (b)
// render a value and its decoded twin into a canonical text for the equality oracle
// ("deep equality modulo nil/empty", caches and unexported fields skipped, maps sorted).
//
// Node forms:
//   "n"                         nil pointer / nil slice / nil interface
//   "u:<decimal>"               unsigned integer
//   "t" / "f"                   bool
//   "x:<hex>"                   []byte, [N]byte, string
//   "i:<decimal>"               big.Int / *big.Int
//   [ ... ]                     slice (non byte)
//   { field: node }             struct (exported fields)
//   {"$map": [[k,v]...]}        map, sorted by rendered key
//   {"$type": T, "$val": node}  non-nil interface
//   {"$tx": { TxFields }}       *types.Transaction (unexported fields; see txFieldsOf)

import (
	"encoding/hex"
	"encoding/json"
	"fmt"
	"math/big"
	"reflect"
	"sort"
	"strings"

	"github.com/LemoFoundationLtd/lemochain-core/chain/account"
	"github.com/LemoFoundationLtd/lemochain-core/chain/types"
	"github.com/LemoFoundationLtd/lemochain-core/common"

	"verif/fx"
)

var (
	bigT    = reflect.TypeOf(big.Int{})
	bigPtrT = reflect.TypeOf((*big.Int)(nil))
	txPtrT  = reflect.TypeOf((*types.Transaction)(nil))
	logT    = reflect.TypeOf(types.ChangeLog{})
)

// dynTypes are the concrete types that may sit in ChangeLog.NewVal / Extra.
var dynTypes = map[string]reflect.Type{}

func init() {
	for _, v := range []interface{}{
		big.Int{}, []byte(nil), types.Code(nil), common.Hash{}, common.Address{}, "",
		(*types.Asset)(nil), (*types.AssetEquity)(nil), (*types.Event)(nil), types.Signers(nil),
		(*types.Profile)(nil), (*account.ProfileChangeLogExtra)(nil), (*interface{})(nil), []interface{}(nil),
	} {
		t := reflect.TypeOf(v)
		dynTypes[t.String()] = t
	}
}

// txOrigin remembers the wire fields a generated transaction was built from, so that a witness
// never depends on the codec under test.
var txOrigin = map[*types.Transaction]*fx.TxFields{}

func txFieldsOf(tx *types.Transaction, exact bool) *fx.TxFields {
	if exact {
		if f, ok := txOrigin[tx]; ok {
			return f
		}
	}
	// through getters only (GasPayer() cannot tell nil from "= From"; Hash() can, and is compared separately)
	gp := tx.GasPayer()
	return &fx.TxFields{Type: tx.Type(), Version: tx.Version(), ChainID: tx.ChainID(), From: tx.From(), GasPayer: &gp,
		Recipient: tx.To(), RecipientName: tx.ToName(), GasPrice: tx.GasPrice(), GasLimit: tx.GasLimit(), GasUsed: tx.GasUsed(),
		Amount: tx.Amount(), Data: tx.Data(), Expiration: tx.Expiration(), Message: tx.Message(), Sigs: tx.Sigs(), GasPayerSigs: tx.GasPayerSigs()}
}

// toTree renders v. exact=true keeps nil/empty distinctions and uses remembered tx fields
// (witness); exact=false is the comparison form (normalised afterwards by norm).
func toTree(v reflect.Value, exact bool) interface{} {
	if !v.IsValid() {
		return "n"
	}
	t := v.Type()
	switch {
	case t == bigT:
		b := v.Interface().(big.Int)
		return "i:" + (&b).String()
	case t == bigPtrT:
		if v.IsNil() {
			return "n"
		}
		return "i:" + v.Interface().(*big.Int).String()
	case t == txPtrT:
		if v.IsNil() {
			return "n"
		}
		tx := v.Interface().(*types.Transaction)
		m := map[string]interface{}{"$tx": toTree(reflect.ValueOf(*txFieldsOf(tx, exact)), exact)}
		if !exact {
			m["$hash"] = "x:" + hex.EncodeToString(tx.Hash().Bytes())
		}
		return m
	}
	switch t.Kind() {
	case reflect.Bool:
		if v.Bool() {
			return "t"
		}
		return "f"
	case reflect.Uint, reflect.Uint8, reflect.Uint16, reflect.Uint32, reflect.Uint64:
		return fmt.Sprintf("u:%d", v.Uint())
	case reflect.String:
		return "x:" + hex.EncodeToString([]byte(v.String()))
	case reflect.Slice:
		if v.IsNil() {
			return "n"
		}
		if t.Elem().Kind() == reflect.Uint8 {
			return "x:" + hex.EncodeToString(v.Bytes())
		}
		out := make([]interface{}, v.Len())
		for i := range out {
			out[i] = toTree(v.Index(i), exact)
		}
		return out
	case reflect.Array:
		if t.Elem().Kind() == reflect.Uint8 {
			b := make([]byte, v.Len())
			reflect.Copy(reflect.ValueOf(b), v)
			return "x:" + hex.EncodeToString(b)
		}
		out := make([]interface{}, v.Len())
		for i := range out {
			out[i] = toTree(v.Index(i), exact)
		}
		return out
	case reflect.Ptr:
		if v.IsNil() {
			return "n"
		}
		return toTree(v.Elem(), exact)
	case reflect.Interface:
		if v.IsNil() {
			return "n"
		}
		e := v.Elem()
		return map[string]interface{}{"$type": e.Type().String(), "$val": toTree(e, exact)}
	case reflect.Map:
		if v.IsNil() {
			return "n"
		}
		type kv struct {
			k string
			p []interface{}
		}
		var kvs []kv
		for _, k := range v.MapKeys() {
			kt := toTree(k, exact)
			kvs = append(kvs, kv{fmt.Sprint(kt), []interface{}{kt, toTree(v.MapIndex(k), exact)}})
		}
		sort.Slice(kvs, func(i, j int) bool { return kvs[i].k < kvs[j].k })
		pairs := make([]interface{}, len(kvs))
		for i := range kvs {
			pairs[i] = kvs[i].p
		}
		return map[string]interface{}{"$map": pairs}
	case reflect.Struct:
		m := map[string]interface{}{}
		for i := 0; i < t.NumField(); i++ {
			f := t.Field(i)
			if f.PkgPath != "" { // unexported: caches
				continue
			}
			if t == logT && f.Name == "OldVal" { // never encoded
				continue
			}
			m[f.Name] = toTree(v.Field(i), exact)
		}
		return m
	}
	return fmt.Sprintf("?%s", t)
}

// norm maps nil and empty to the same node and a nil big integer to zero; an interface whose
// content is empty is empty whatever its dynamic type.
func norm(n interface{}) interface{} {
	switch x := n.(type) {
	case string:
		if x == "x:" {
			return "n"
		}
		return x
	case []interface{}:
		if len(x) == 0 {
			return "n"
		}
		out := make([]interface{}, len(x))
		for i := range x {
			out[i] = norm(x[i])
		}
		return out
	case map[string]interface{}:
		if p, ok := x["$map"]; ok {
			ps := p.([]interface{})
			if len(ps) == 0 {
				return "n"
			}
			out := make([]interface{}, len(ps))
			for i := range ps {
				pr := ps[i].([]interface{})
				out[i] = []interface{}{pr[0], norm(pr[1])}
			}
			return map[string]interface{}{"$map": out}
		}
		if _, ok := x["$type"]; ok {
			v := norm(x["$val"])
			if v == "n" {
				return "n"
			}
			return map[string]interface{}{"$type": x["$type"], "$val": v}
		}
		out := map[string]interface{}{}
		for k, v := range x {
			out[k] = norm(v)
		}
		return out
	}
	return n
}

// dump is the canonical comparison text of a value.
func dump(v interface{}) string {
	t := norm(bigZero(toTree(reflect.ValueOf(v), false), reflect.ValueOf(v)))
	b, err := json.Marshal(t)
	if err != nil {
		return "!" + err.Error()
	}
	return string(b)
}

// bigZero walks tree and value in parallel and turns a nil *big.Int into "i:0".
func bigZero(n interface{}, v reflect.Value) interface{} {
	if !v.IsValid() {
		return n
	}
	t := v.Type()
	if t == bigPtrT {
		if v.IsNil() {
			return "i:0"
		}
		return n
	}
	if t == txPtrT || t == bigT {
		return n
	}
	switch t.Kind() {
	case reflect.Ptr, reflect.Interface:
		if v.IsNil() {
			return n
		}
		if t.Kind() == reflect.Interface {
			m := n.(map[string]interface{})
			m["$val"] = bigZero(m["$val"], v.Elem())
			return m
		}
		return bigZero(n, v.Elem())
	case reflect.Slice, reflect.Array:
		if l, ok := n.([]interface{}); ok {
			for i := range l {
				l[i] = bigZero(l[i], v.Index(i))
			}
		}
		return n
	case reflect.Struct:
		if m, ok := n.(map[string]interface{}); ok {
			for i := 0; i < t.NumField(); i++ {
				f := t.Field(i)
				if c, ok := m[f.Name]; ok {
					m[f.Name] = bigZero(c, v.Field(i))
				}
			}
		}
		return n
	}
	return n
}

// witnessTree is the exact form used in witnesses.
func witnessTree(v interface{}) interface{} { return toTree(reflect.ValueOf(v), true) }

func unhex(s string) ([]byte, error) {
	if !strings.HasPrefix(s, "x:") {
		return nil, fmt.Errorf("not a byte node: %q", s)
	}
	return hex.DecodeString(s[2:])
}

// fromTree rebuilds a value of v's type from a witness tree (after a JSON round trip of the tree).
func fromTree(n interface{}, v reflect.Value) error {
	t := v.Type()
	s, isStr := n.(string)
	switch {
	case t == bigT:
		if !isStr || !strings.HasPrefix(s, "i:") {
			return fmt.Errorf("big: %v", n)
		}
		b, ok := new(big.Int).SetString(s[2:], 10)
		if !ok {
			return fmt.Errorf("big: %v", n)
		}
		v.Set(reflect.ValueOf(*b))
		return nil
	case t == bigPtrT:
		if s == "n" {
			return nil
		}
		b, ok := new(big.Int).SetString(strings.TrimPrefix(s, "i:"), 10)
		if !ok {
			return fmt.Errorf("big: %v", n)
		}
		v.Set(reflect.ValueOf(b))
		return nil
	case t == txPtrT:
		if s == "n" {
			return nil
		}
		m, ok := n.(map[string]interface{})
		if !ok {
			return fmt.Errorf("tx: %v", n)
		}
		f := new(fx.TxFields)
		if err := fromTree(m["$tx"], reflect.ValueOf(f).Elem()); err != nil {
			return err
		}
		tx, err := buildTx(f)
		if err != nil {
			return err
		}
		v.Set(reflect.ValueOf(tx))
		return nil
	}
	switch t.Kind() {
	case reflect.Bool:
		v.SetBool(s == "t")
	case reflect.Uint, reflect.Uint8, reflect.Uint16, reflect.Uint32, reflect.Uint64:
		var u uint64
		if _, err := fmt.Sscanf(s, "u:%d", &u); err != nil {
			return fmt.Errorf("uint: %v", n)
		}
		v.SetUint(u)
	case reflect.String:
		b, err := unhex(s)
		if err != nil {
			return err
		}
		v.SetString(string(b))
	case reflect.Slice:
		if s == "n" {
			return nil
		}
		if t.Elem().Kind() == reflect.Uint8 {
			b, err := unhex(s)
			if err != nil {
				return err
			}
			if b == nil {
				b = []byte{}
			}
			v.Set(reflect.ValueOf(b).Convert(t))
			return nil
		}
		l, ok := n.([]interface{})
		if !ok {
			return fmt.Errorf("list: %v", n)
		}
		sl := reflect.MakeSlice(t, len(l), len(l))
		for i := range l {
			if err := fromTree(l[i], sl.Index(i)); err != nil {
				return err
			}
		}
		v.Set(sl)
	case reflect.Array:
		if t.Elem().Kind() == reflect.Uint8 {
			b, err := unhex(s)
			if err != nil {
				return err
			}
			reflect.Copy(v, reflect.ValueOf(b))
			return nil
		}
		l, _ := n.([]interface{})
		for i := range l {
			if err := fromTree(l[i], v.Index(i)); err != nil {
				return err
			}
		}
	case reflect.Ptr:
		if s == "n" {
			return nil
		}
		p := reflect.New(t.Elem())
		if err := fromTree(n, p.Elem()); err != nil {
			return err
		}
		v.Set(p)
	case reflect.Interface:
		if s == "n" {
			return nil
		}
		m, ok := n.(map[string]interface{})
		if !ok {
			return fmt.Errorf("iface: %v", n)
		}
		dt, ok := dynTypes[fmt.Sprint(m["$type"])]
		if !ok {
			return fmt.Errorf("unknown dynamic type %v", m["$type"])
		}
		p := reflect.New(dt)
		if err := fromTree(m["$val"], p.Elem()); err != nil {
			return err
		}
		v.Set(p.Elem())
	case reflect.Map:
		if s == "n" {
			return nil
		}
		m, _ := n.(map[string]interface{})
		ps, _ := m["$map"].([]interface{})
		mp := reflect.MakeMap(t)
		for _, p := range ps {
			pr := p.([]interface{})
			k := reflect.New(t.Key()).Elem()
			e := reflect.New(t.Elem()).Elem()
			if err := fromTree(pr[0], k); err != nil {
				return err
			}
			if err := fromTree(pr[1], e); err != nil {
				return err
			}
			mp.SetMapIndex(k, e)
		}
		v.Set(mp)
	case reflect.Struct:
		m, ok := n.(map[string]interface{})
		if !ok {
			return fmt.Errorf("struct %s: %v", t, n)
		}
		for i := 0; i < t.NumField(); i++ {
			f := t.Field(i)
			if f.PkgPath != "" {
				continue
			}
			if c, ok := m[f.Name]; ok {
				if err := fromTree(c, v.Field(i)); err != nil {
					return fmt.Errorf("%s.%s: %v", t, f.Name, err)
				}
			}
		}
	default:
		return fmt.Errorf("unsupported kind %s", t)
	}
	return nil
}
