package main

// Seeded, edge-biased generators for every encodable consensus type. Every generated value
// is a pointer to a repository type built by plain field assignment (transactions: from
// wire fields, see buildTx).

import (
	"bytes"
	"encoding/hex"
	"encoding/json"
	"fmt"
	"math/big"
	"strings"

	"github.com/LemoFoundationLtd/lemochain-core/chain/account"
	"github.com/LemoFoundationLtd/lemochain-core/chain/params"
	"github.com/LemoFoundationLtd/lemochain-core/chain/types"
	"github.com/LemoFoundationLtd/lemochain-core/common"
	"github.com/LemoFoundationLtd/lemochain-core/common/crypto"
	"github.com/LemoFoundationLtd/lemochain-core/common/merkle"
	"github.com/LemoFoundationLtd/lemochain-core/common/rlp"
	"github.com/LemoFoundationLtd/lemochain-core/network"

	"verif/fx"
	"verif/fx/run"
)

const nKeys = 6

var keys []fx.Key

func initKeys() {
	if keys != nil {
		return
	}
	for i := 0; i < nKeys; i++ {
		keys = append(keys, fx.NewKey("c14", i))
	}
}

// G is a generator context; shape collects the structural choices (the case fingerprint).
type G struct {
	r     *run.Rng
	shape []string
}

func newG(r *run.Rng) *G { return &G{r: r} }

func (g *G) flag(s string)    { g.shape = append(g.shape, s) }
func (g *G) shapeStr() string { return strings.Join(g.shape, ",") }

func (g *G) u64() uint64 {
	switch g.r.Intn(12) {
	case 0:
		return 0
	case 1:
		return 1
	case 2:
		return 0x7f
	case 3:
		return 0x80
	case 4:
		return 0xff
	case 5:
		return 0x100
	case 6:
		return ^uint64(0)
	case 7:
		return 1 << 32
	case 8:
		return 1<<56 - 1
	default:
		return g.r.Uint64() >> uint(g.r.Intn(64))
	}
}
func (g *G) u32() uint32 {
	switch g.r.Intn(8) {
	case 0:
		return 0
	case 1:
		return ^uint32(0)
	case 2:
		return 0x80
	case 3:
		return 0xffff
	case 4:
		return 0x10000
	default:
		return uint32(g.r.Uint64()) >> uint(g.r.Intn(32))
	}
}
func (g *G) u16() uint16 {
	switch g.r.Intn(6) {
	case 0:
		return 0
	case 1:
		return 0xffff
	case 2:
		return 0x7f
	case 3:
		return 0x100
	default:
		return uint16(g.r.Uint64()) >> uint(g.r.Intn(16))
	}
}
func (g *G) u8() uint8 {
	switch g.r.Intn(6) {
	case 0:
		return 0
	case 1:
		return 0xff
	case 2:
		return 0x7f
	case 3:
		return 0x80
	default:
		return uint8(g.r.Uint64())
	}
}

// big returns a non-negative integer (or nil when allowed).
func (g *G) big(allowNil bool) *big.Int {
	switch g.r.Intn(12) {
	case 0:
		if allowNil {
			return nil
		}
		return new(big.Int)
	case 1:
		return new(big.Int)
	case 2:
		return big.NewInt(1)
	case 3:
		return big.NewInt(127)
	case 4:
		return big.NewInt(128)
	case 5:
		return new(big.Int).SetUint64(^uint64(0))
	case 6:
		return new(big.Int).Lsh(big.NewInt(1), 64)
	case 7:
		return new(big.Int).Sub(new(big.Int).Lsh(big.NewInt(1), 256), big.NewInt(1))
	case 8:
		return new(big.Int).SetBytes(g.r.Bytes(g.r.Range(33, 80)))
	default:
		return new(big.Int).SetBytes(g.r.Bytes(g.r.Range(1, 32)))
	}
}

var edgeLens = []int{0, 1, 2, 31, 32, 33, 55, 56, 57, 255, 256, 257}

func (g *G) blen(max int) int {
	if g.r.Chance(1, 2) {
		l := edgeLens[g.r.Intn(len(edgeLens))]
		if l <= max {
			return l
		}
	}
	if g.r.Chance(1, 40) {
		return max
	}
	if max > 64 && g.r.Chance(3, 4) {
		return g.r.Intn(64)
	}
	return g.r.Intn(max + 1)
}

// bytes returns nil, empty, single edge bytes or random content up to max bytes.
func (g *G) bytes(max int) []byte {
	switch g.r.Intn(10) {
	case 0:
		return nil
	case 1:
		return []byte{}
	case 2:
		return []byte{[]byte{0x00, 0x01, 0x7f, 0x80, 0xff}[g.r.Intn(5)]}
	case 3:
		b := g.r.Bytes(g.blen(max))
		if len(b) > 0 {
			b[0] = 0 // leading zero byte must survive in a byte string
		}
		return b
	default:
		return g.r.Bytes(g.blen(max))
	}
}

const alnum = "abcdefghijklmnopqrstuvwxyzABCDEFGHIJKLMNOPQRSTUVWXYZ0123456789-_."

// text returns printable text; utf8Only=false occasionally returns a byte string that is not UTF-8.
func (g *G) text(max int, utf8Only bool) string {
	n := g.blen(max)
	switch g.r.Intn(12) {
	case 0:
		return ""
	case 1:
		s := strings.Repeat("\u6d4b\u8bd5\u00e9\"\\<>&\u2028 ", n/16+1)
		if len(s) > max {
			s = s[:max]
			for len(s) > 0 && !validUTF8(s) {
				s = s[:len(s)-1]
			}
		}
		return s
	case 2:
		if !utf8Only {
			g.flag("nonutf8")
			b := g.r.Bytes(n + 1)
			b[0] = 0xff
			if len(b) > max && max > 0 {
				b = b[:max]
			}
			return string(b)
		}
	case 3:
		return string([]byte{[]byte{0x00, 0x01, 0x7f, 0x20}[g.r.Intn(4)]})
	}
	b := make([]byte, n)
	for i := range b {
		b[i] = alnum[g.r.Intn(len(alnum))]
	}
	return string(b)
}

func validUTF8(s string) bool {
	for _, r := range s {
		if r == 0xFFFD {
			return false
		}
	}
	return true
}

func (g *G) hash() common.Hash {
	switch g.r.Intn(8) {
	case 0:
		return common.Hash{}
	case 1:
		return merkle.EmptyTrieHash
	case 2:
		var h common.Hash
		h[31] = byte(g.r.Intn(256))
		return h
	case 3:
		h := common.BytesToHash(g.r.Bytes(32))
		h[0], h[1] = 0, 0
		return h
	default:
		return common.BytesToHash(g.r.Bytes(32))
	}
}

func (g *G) addr() common.Address {
	switch g.r.Intn(8) {
	case 0:
		return common.Address{}
	case 1:
		var a common.Address
		a[19] = byte(1 + g.r.Intn(255))
		return a
	case 2:
		var a common.Address
		for i := range a {
			a[i] = 0xff
		}
		return a
	case 3:
		return keys[g.r.Intn(len(keys))].Addr
	default:
		a := common.BytesToAddress(g.r.Bytes(20))
		a[0] = []byte{0x01, 0x02, 0x03, 0x00, a[0]}[g.r.Intn(5)]
		return a
	}
}

func (g *G) sigOver(h common.Hash, k fx.Key) []byte {
	s, err := crypto.Sign(h[:], k.Priv)
	if err != nil {
		panic(err)
	}
	return s
}

// ---------------------------------------------------------------- header / block

func genHeader(g *G) *types.Header {
	h := &types.Header{ParentHash: g.hash(), MinerAddress: g.addr(), VersionRoot: g.hash(), TxRoot: g.hash(), LogRoot: g.hash(),
		Height: g.u32(), GasLimit: g.u64(), GasUsed: g.u64(), Time: g.u32()}
	if h.TxRoot == merkle.EmptyTrieHash {
		g.flag("txroot-elided")
	}
	if h.LogRoot == merkle.EmptyTrieHash {
		g.flag("logroot-elided")
	}
	switch g.r.Intn(5) {
	case 0:
		g.flag("deputyroot-nil")
	case 1:
		h.DeputyRoot = []byte{}
		g.flag("deputyroot-empty")
	case 2:
		h.DeputyRoot = g.bytes(64)
		g.flag("deputyroot-odd")
	default:
		h.DeputyRoot = g.r.Bytes(32)
	}
	h.Extra = g.text(300, false)
	if len(h.Extra) > 256 {
		g.flag("extra>256")
	} else if h.Extra == "" {
		g.flag("extra-empty")
	}
	switch g.r.Intn(10) {
	case 0:
		g.flag("sig-nil")
	case 1:
		h.SignData = []byte{}
		g.flag("sig-empty")
	case 2:
		h.SignData = g.r.Bytes(65)
		g.flag("sig-random")
	case 3:
		h.SignData = g.r.Bytes([]int{1, 64, 66, 130}[g.r.Intn(4)])
		g.flag("sig-badlen")
	default:
		h.SignData = g.sigOver(h.Hash(), keys[g.r.Intn(len(keys))])
		g.flag("sig-valid")
	}
	return h
}

func genDeputy(g *G) *types.DeputyNode {
	d := &types.DeputyNode{MinerAddress: g.addr(), Rank: g.u32(), Votes: g.big(true)}
	if d.Votes == nil {
		g.flag("votes-nil")
	}
	switch g.r.Intn(6) {
	case 0:
		g.flag("nodeid-nil")
	case 1:
		d.NodeID = []byte{}
		g.flag("nodeid-empty")
	case 2:
		d.NodeID = g.bytes(80)
		g.flag("nodeid-odd")
	default:
		d.NodeID = keys[g.r.Intn(len(keys))].NodeID
	}
	return d
}

func genDeputies(g *G) *types.DeputyNodes {
	var out types.DeputyNodes
	switch g.r.Intn(5) {
	case 0:
		g.flag("deputies-nil")
		return &out
	case 1:
		out = types.DeputyNodes{}
		g.flag("deputies-empty")
		return &out
	}
	n := g.r.Range(1, 5)
	for i := 0; i < n; i++ {
		out = append(out, genDeputy(newSub(g)))
	}
	g.flag(fmt.Sprintf("deputies-%d", n))
	return &out
}

// newSub shares the random stream but not the shape (sub-objects do not bloat fingerprints).
func newSub(g *G) *G { return &G{r: g.r} }

func genBlock(g *G) *types.Block {
	b := &types.Block{Header: genHeader(g)}
	switch g.r.Intn(4) {
	case 0:
		g.flag("txs-nil")
	case 1:
		b.Txs = types.Transactions{}
		g.flag("txs-empty")
	default:
		n := g.r.Range(1, 4)
		for i := 0; i < n; i++ {
			tx, _ := genTx(newSub(g), true)
			b.Txs = append(b.Txs, tx)
		}
		g.flag("txs")
	}
	switch g.r.Intn(4) {
	case 0:
		g.flag("logs-nil")
	case 1:
		b.ChangeLogs = types.ChangeLogSlice{}
		g.flag("logs-empty")
	default:
		n := g.r.Range(1, 6)
		for i := 0; i < n; i++ {
			b.ChangeLogs = append(b.ChangeLogs, genLog(newSub(g)))
		}
		g.flag("logs")
	}
	switch g.r.Intn(3) {
	case 0:
		g.flag("confirms-nil")
	case 1:
		b.Confirms = []types.SignData{}
		g.flag("confirms-empty")
	default:
		n := g.r.Range(1, 4)
		for i := 0; i < n; i++ {
			b.Confirms = append(b.Confirms, g.signData(b.Header.Hash()))
		}
		g.flag("confirms")
	}
	if g.r.Chance(1, 2) {
		b.DeputyNodes = *genDeputies(g)
	} else {
		g.flag("deputies-nil")
	}
	return b
}

func (g *G) signData(h common.Hash) types.SignData {
	if g.r.Chance(1, 5) {
		return types.BytesToSignData(g.r.Bytes(65))
	}
	return types.BytesToSignData(g.sigOver(h, keys[g.r.Intn(len(keys))]))
}

// ---------------------------------------------------------------- transactions

// wireMismatches collects transactions whose re-encoding differs from the wire bytes they were decoded from.
// Generated transactions are born by decoding wire fields with the repository's decoder, so a decoder that
// normalises a field (and thereby changes hash and signers) would otherwise be invisible to the round trip
// v -> encode -> decode: v itself is already normalised. The value monitor drains this list.
var wireMismatches []Case

func buildTx(f *fx.TxFields) (*types.Transaction, error) {
	tx, err := f.Tx()
	if err != nil {
		return nil, err
	}
	txOrigin[tx] = f
	if wire, e1 := rlp.EncodeToBytes(f); e1 == nil {
		if again, e2 := rlp.EncodeToBytes(tx); e2 == nil && !bytes.Equal(wire, again) && len(wireMismatches) < 4 {
			wireMismatches = append(wireMismatches, Case{Mon: "value", Type: "Transaction", Hex: hex.EncodeToString(wire),
				What: fmt.Sprintf("decoded from %d wire bytes, re-encodes to %d different bytes", len(wire), len(again))})
		}
	}
	return tx, nil
}

func mustBuild(f *fx.TxFields) *types.Transaction {
	tx, err := buildTx(f)
	if err != nil {
		panic(fmt.Sprintf("harness cannot build a transaction from wire fields: %v", err))
	}
	return tx
}

var txTypeNames = []string{"ordinary", "create", "vote", "register", "create-asset", "issue-asset", "replenish-asset", "modify-asset", "transfer-asset", "modify-signers", "box"}

func candidateProfile(g *G) types.Profile {
	k := keys[g.r.Intn(len(keys))]
	return types.Profile{types.CandidateKeyNodeID: common.ToHex(k.NodeID), types.CandidateKeyHost: "10.0.0.1", types.CandidateKeyPort: "7001",
		types.CandidateKeyIncomeAddress: k.Addr.String(), types.CandidateKeyIntroduction: g.text(80, true), types.CandidateKeyIsCandidate: "true"}
}

func txData(g *G, typ uint16, boxOK bool) []byte {
	if g.r.Chance(1, 12) {
		return g.bytes(100) // payload that is not what the type expects
	}
	switch typ {
	case params.OrdinaryTx:
		return g.bytes(200)
	case params.CreateContractTx:
		return g.r.Bytes(g.blen(2000) + 1)
	case params.VoteTx:
		return nil
	case params.RegisterTx:
		b, _ := json.Marshal(candidateProfile(g))
		return b
	case params.CreateAssetTx:
		a := genAsset(newSub(g), true)
		b, err := json.Marshal(a)
		if err != nil {
			return []byte(`{}`)
		}
		return b
	case params.IssueAssetTx:
		return []byte(fmt.Sprintf(`{"assetCode":"%s","metaData":%q,"supplyAmount":"%s"}`, g.hash().Hex(), g.text(60, true), g.big(false)))
	case params.ReplenishAssetTx:
		return []byte(fmt.Sprintf(`{"assetCode":"%s","assetId":"%s","replenishAmount":"%s"}`, g.hash().Hex(), g.hash().Hex(), g.big(false)))
	case params.ModifyAssetTx:
		b, _ := json.Marshal(&types.ModifyAssetInfo{AssetCode: g.hash(), UpdateProfile: types.Profile{"name": g.text(30, true), "k": g.text(30, true)}})
		return b
	case params.TransferAssetTx:
		return []byte(fmt.Sprintf(`{"assetId":"%s","transferAmount":"%s","input":"%s"}`, g.hash().Hex(), g.big(false), common.ToHex(g.r.Bytes(g.r.Intn(40)))))
	case params.ModifySignersTx:
		b, _ := json.Marshal(struct {
			Signers types.Signers `json:"signers"`
		}{*genSigners(newSub(g))})
		return b
	case params.BoxTx:
		if !boxOK {
			return []byte(`{"subTxList":[]}`)
		}
		n := g.r.Intn(4)
		var subs types.Transactions
		for i := 0; i < n; i++ {
			sg := newSub(g)
			t := uint16(g.r.Intn(10))
			f := genTxFields(sg, t, false, true)
			subs = append(subs, mustBuild(f))
		}
		g.flag(fmt.Sprintf("subs-%d", n))
		b, err := types.MarshalBoxData(subs)
		if err != nil {
			panic(err)
		}
		return b
	}
	return nil
}

// genTxFields draws wire fields. jsonSafe restricts to what the JSON form can carry by design
// (version 1, 65-byte sender signatures).
func genTxFields(g *G, typ uint16, boxOK bool, jsonSafe bool) *fx.TxFields {
	fromKey := keys[g.r.Intn(len(keys))]
	f := &fx.TxFields{Type: typ, Version: types.TxVersion, ChainID: g.u16(), From: fromKey.Addr, GasPrice: g.big(false), GasLimit: g.u64(),
		GasUsed: g.u64(), Amount: g.big(false), Expiration: g.u64()}
	if typ < uint16(len(txTypeNames)) {
		g.flag(txTypeNames[typ])
	} else {
		g.flag("type-unknown")
	}
	if !jsonSafe && g.r.Chance(1, 10) {
		f.Version = []uint8{0, 2, 127, 128, 255}[g.r.Intn(5)]
		g.flag("version-other")
	}
	if g.r.Chance(1, 8) {
		f.From = g.addr()
		g.flag("from-foreign")
	}
	var payerKey *fx.Key
	switch g.r.Intn(3) {
	case 0:
		g.flag("payer-nil")
	case 1:
		a := f.From
		f.GasPayer = &a
		g.flag("payer-self")
	default:
		k := keys[g.r.Intn(len(keys))]
		payerKey = &k
		a := k.Addr
		f.GasPayer = &a
		g.flag("payer-other")
	}
	wantTo := types.IsToExist(typ, &common.Address{})
	if g.r.Chance(1, 10) {
		wantTo = !wantTo
	}
	if wantTo {
		a := g.addr()
		f.Recipient = &a
		g.flag("to")
	} else {
		g.flag("to-nil")
	}
	if g.r.Chance(1, 3) {
		f.RecipientName = g.text(110, jsonSafe)
	}
	f.Data = txData(g, typ, boxOK)
	if len(f.Data) == 0 {
		g.flag("data-empty")
	}
	if g.r.Chance(1, 2) {
		f.Message = g.text(1100, jsonSafe)
	}
	// signatures
	mode := g.r.Intn(10)
	unsigned := mustBuild(f)
	switch {
	case mode == 0:
		g.flag("unsigned")
	case mode == 1 && !jsonSafe:
		f.Sigs = [][]byte{g.r.Bytes([]int{0, 1, 64, 66}[g.r.Intn(4)])}
		g.flag("sig-badlen")
	case mode == 2:
		f.Sigs = [][]byte{g.r.Bytes(65)}
		g.flag("sig-random")
	case payerKey != nil && mode < 8:
		// reimbursement: sender(s) sign without gas terms, payer signs (sigs, price, limit)
		h := types.MakeReimbursementTxSigner().Hash(unsigned)
		n := g.r.Range(1, 2)
		for i := 0; i < n; i++ {
			f.Sigs = append(f.Sigs, g.sigOver(h, keys[(g.r.Intn(len(keys)))]))
		}
		withSigs := mustBuild(f)
		ph := types.MakeGasPayerSigner().Hash(withSigs)
		np := g.r.Range(1, 2)
		for i := 0; i < np; i++ {
			f.GasPayerSigs = append(f.GasPayerSigs, g.sigOver(ph, *payerKey))
		}
		g.flag(fmt.Sprintf("reimbursed-%d-%d", n, np))
	default:
		h := types.MakeSigner().Hash(unsigned)
		n := g.r.Range(1, 3)
		for i := 0; i < n; i++ {
			k := fromKey
			if i > 0 {
				k = keys[g.r.Intn(len(keys))]
			}
			f.Sigs = append(f.Sigs, g.sigOver(h, k))
		}
		g.flag(fmt.Sprintf("signed-%d", n))
	}
	delete(txOrigin, unsigned)
	return f
}

// genTx returns a transaction and its wire fields.
func genTx(g *G, boxOK bool) (*types.Transaction, *fx.TxFields) {
	typ := uint16(g.r.Intn(11))
	if g.r.Chance(1, 40) {
		typ = []uint16{11, 255, 65535}[g.r.Intn(3)]
	}
	f := genTxFields(g, typ, boxOK, g.r.Chance(2, 3))
	return mustBuild(f), f
}

func genTxs(g *G) *types.Transactions {
	var out types.Transactions
	n := g.r.Intn(5)
	if n == 0 && g.r.Chance(1, 2) {
		out = types.Transactions{}
	}
	for i := 0; i < n; i++ {
		tx, _ := genTx(newSub(g), true)
		out = append(out, tx)
	}
	g.flag(fmt.Sprintf("txs-%d", n))
	return &out
}

// ---------------------------------------------------------------- account level types

func genProfile(g *G) types.Profile {
	switch g.r.Intn(6) {
	case 0:
		g.flag("profile-nil")
		return nil
	case 1:
		g.flag("profile-empty")
		return types.Profile{}
	case 2:
		g.flag("profile-candidate")
		return candidateProfile(g)
	case 3:
		g.flag("profile-large")
		p := types.Profile{}
		n := g.r.Range(8, 24)
		for i := 0; i < n; i++ {
			p[g.text(40, false)] = g.text(300, false)
		}
		return p
	default:
		g.flag("profile-small")
		p := types.Profile{}
		n := g.r.Range(1, 4)
		for i := 0; i < n; i++ {
			p[g.text(12, false)] = g.text(20, false)
		}
		return p
	}
}

func genAsset(g *G, jsonSafe bool) *types.Asset {
	a := &types.Asset{Category: g.u32(), IsDivisible: g.r.Chance(1, 2), AssetCode: g.hash(), Decimal: g.u32(), TotalSupply: g.big(true),
		IsReplenishable: g.r.Chance(1, 2), Issuer: g.addr()}
	if a.TotalSupply == nil {
		g.flag("supply-nil")
	}
	if jsonSafe {
		a.Profile = types.Profile{"name": "n", "symbol": "S", "description": g.text(40, true), "suggestedGasLimit": "60000"}
		if a.TotalSupply == nil {
			a.TotalSupply = new(big.Int)
		}
	} else {
		a.Profile = genProfile(g)
	}
	return a
}

func genEquity(g *G) *types.AssetEquity {
	e := &types.AssetEquity{AssetCode: g.hash(), AssetId: g.hash(), Equity: g.big(true)}
	if e.Equity == nil {
		g.flag("equity-nil")
	}
	return e
}

func genSigners(g *G) *types.Signers {
	var s types.Signers
	switch g.r.Intn(5) {
	case 0:
		g.flag("signers-nil")
	case 1:
		s = types.Signers{}
		g.flag("signers-empty")
	default:
		n := g.r.Range(1, 10)
		for i := 0; i < n; i++ {
			s = append(s, types.SignAccount{Address: g.addr(), Weight: g.u8()})
		}
		g.flag("signers")
	}
	return &s
}

func genEvent(g *G) *types.Event {
	// only the consensus fields: the derived ones (TxHash, TxIndex, Index, Removed) are documented as not encoded
	e := &types.Event{Address: g.addr(), Data: g.bytes(300)}
	switch g.r.Intn(4) {
	case 0:
		g.flag("topics-nil")
	case 1:
		e.Topics = []common.Hash{}
		g.flag("topics-empty")
	default:
		n := g.r.Range(1, 4)
		for i := 0; i < n; i++ {
			e.Topics = append(e.Topics, g.hash())
		}
		g.flag("topics")
	}
	return e
}

func genAccount(g *G) *types.AccountData {
	a := &types.AccountData{Address: g.addr(), Balance: g.big(true), CodeHash: g.hash(), StorageRoot: g.hash(), AssetCodeRoot: g.hash(),
		AssetIdRoot: g.hash(), EquityRoot: g.hash(), VoteFor: g.addr()}
	if a.Balance == nil {
		g.flag("balance-nil")
	}
	a.Candidate.Votes = g.big(true)
	if a.Candidate.Votes == nil {
		g.flag("votes-nil")
	}
	a.Candidate.Profile = genProfile(g)
	switch g.r.Intn(4) {
	case 0:
		g.flag("records-nil")
	case 1:
		a.NewestRecords = map[types.ChangeLogType]types.VersionRecord{}
		g.flag("records-empty")
	default:
		a.NewestRecords = map[types.ChangeLogType]types.VersionRecord{}
		n := g.r.Range(1, 19)
		for i := 0; i < n; i++ {
			t := types.ChangeLogType(g.r.Range(1, 19))
			if g.r.Chance(1, 20) {
				t = types.ChangeLogType(g.u32())
			}
			a.NewestRecords[t] = types.VersionRecord{Version: g.u32(), Height: g.u32()}
		}
		g.flag("records")
	}
	a.Signers = *genSigners(g)
	return a
}

// ---------------------------------------------------------------- change logs

type logShape struct {
	name string
	mk   func(g *G) (interface{}, interface{})
}

func bigVal(g *G) interface{} { return *g.big(false) }

var logShapes = map[types.ChangeLogType][]logShape{}
var logTypeList []types.ChangeLogType

func initLogShapes() {
	if len(logShapes) > 0 {
		return
	}
	bigNew := []logShape{
		{"zero", func(g *G) (interface{}, interface{}) { return *new(big.Int), nil }},
		{"big", func(g *G) (interface{}, interface{}) { return bigVal(g), nil }},
		{"2^256-1", func(g *G) (interface{}, interface{}) {
			return *new(big.Int).Sub(new(big.Int).Lsh(big.NewInt(1), 256), big.NewInt(1)), nil
		}},
	}
	logShapes[account.BalanceLog] = bigNew
	logShapes[account.VotesLog] = bigNew
	logShapes[account.StorageLog] = []logShape{
		{"nil", func(g *G) (interface{}, interface{}) { return []byte(nil), g.hash() }},
		{"empty", func(g *G) (interface{}, interface{}) { return []byte{}, g.hash() }},
		{"byte", func(g *G) (interface{}, interface{}) { return []byte{[]byte{0, 0x7f, 0x80}[g.r.Intn(3)]}, g.hash() }},
		{"word", func(g *G) (interface{}, interface{}) { return g.r.Bytes(32), g.hash() }},
		{"any", func(g *G) (interface{}, interface{}) { return g.bytes(1200), g.hash() }},
		{"max", func(g *G) (interface{}, interface{}) { return g.r.Bytes(70000), common.Hash{} }},
	}
	rootNew := []logShape{
		{"zero", func(g *G) (interface{}, interface{}) { return common.Hash{}, nil }},
		{"emptytrie", func(g *G) (interface{}, interface{}) { return merkle.EmptyTrieHash, nil }},
		{"hash", func(g *G) (interface{}, interface{}) { return g.hash(), nil }},
	}
	for _, t := range []types.ChangeLogType{account.StorageRootLog, account.AssetCodeRootLog, account.AssetIdRootLog, account.EquityRootLog} {
		logShapes[t] = rootNew
	}
	logShapes[account.AssetCodeLog] = []logShape{
		{"nil", func(g *G) (interface{}, interface{}) { return (*types.Asset)(nil), g.hash() }},
		{"zero", func(g *G) (interface{}, interface{}) { return (&types.Asset{}).Clone(), common.Hash{} }},
		{"cloned", func(g *G) (interface{}, interface{}) { return genAsset(g, false).Clone(), g.hash() }},
		{"raw", func(g *G) (interface{}, interface{}) { return genAsset(g, false), g.hash() }},
	}
	strNew := func(g *G) string { return g.text(700, false) }
	logShapes[account.AssetCodeStateLog] = []logShape{
		{"typical", func(g *G) (interface{}, interface{}) {
			return strNew(g), &account.ProfileChangeLogExtra{UUID: g.hash(), Key: g.text(40, false)}
		}},
		{"empty", func(g *G) (interface{}, interface{}) { return "", &account.ProfileChangeLogExtra{} }},
		{"extra-nilptr", func(g *G) (interface{}, interface{}) { return strNew(g), (*account.ProfileChangeLogExtra)(nil) }},
	}
	logShapes[account.AssetCodeTotalSupplyLog] = []logShape{
		{"zero", func(g *G) (interface{}, interface{}) { return *new(big.Int), g.hash() }},
		{"big", func(g *G) (interface{}, interface{}) { return bigVal(g), g.hash() }},
	}
	logShapes[account.AssetIdLog] = []logShape{
		{"empty", func(g *G) (interface{}, interface{}) { return "", g.hash() }},
		{"text", func(g *G) (interface{}, interface{}) { return strNew(g), g.hash() }},
	}
	logShapes[account.EquityLog] = []logShape{
		{"nil", func(g *G) (interface{}, interface{}) { return nil, g.hash() }},
		{"nilptr", func(g *G) (interface{}, interface{}) { return (*types.AssetEquity)(nil), g.hash() }},
		{"cloned", func(g *G) (interface{}, interface{}) { return genEquity(g).Clone(), g.hash() }},
		{"raw", func(g *G) (interface{}, interface{}) { return genEquity(g), g.hash() }},
	}
	logShapes[account.CodeLog] = []logShape{
		{"nil", func(g *G) (interface{}, interface{}) { return types.Code(nil), nil }},
		{"empty", func(g *G) (interface{}, interface{}) { return types.Code{}, nil }},
		{"byte", func(g *G) (interface{}, interface{}) { return types.Code{[]byte{0, 0x60, 0xfe}[g.r.Intn(3)]}, nil }},
		{"code", func(g *G) (interface{}, interface{}) { return types.Code(g.r.Bytes(g.blen(3000) + 1)), nil }},
		{"max", func(g *G) (interface{}, interface{}) { return types.Code(g.r.Bytes(24576)), nil }},
	}
	logShapes[account.AddEventLog] = []logShape{
		{"event", func(g *G) (interface{}, interface{}) { return genEvent(g), nil }},
	}
	logShapes[account.SuicideLog] = []logShape{
		{"nil", func(g *G) (interface{}, interface{}) { return nil, nil }},
	}
	logShapes[account.VoteForLog] = []logShape{
		{"zero", func(g *G) (interface{}, interface{}) { return common.Address{}, nil }},
		{"addr", func(g *G) (interface{}, interface{}) { return g.addr(), nil }},
	}
	logShapes[account.SignerLog] = []logShape{
		{"signers", func(g *G) (interface{}, interface{}) { return *genSigners(g), nil }},
	}
	logShapes[account.CandidateLog] = []logShape{
		{"profile", func(g *G) (interface{}, interface{}) { p := genProfile(g); return &p, nil }},
	}
	logShapes[account.CandidateStateLog] = []logShape{
		{"typical", func(g *G) (interface{}, interface{}) { return g.text(100, false), g.text(30, false) }},
		{"empty", func(g *G) (interface{}, interface{}) { return "", "" }},
	}
	for t := account.BalanceLog; t < account.LOG_TYPE_STOP; t++ {
		if _, ok := logShapes[t]; !ok {
			panic(fmt.Sprintf("no generator for change log type %d (%s)", t, t))
		}
		logTypeList = append(logTypeList, t)
	}
}

func genLog(g *G) *types.ChangeLog {
	t := logTypeList[g.r.Intn(len(logTypeList))]
	shapes := logShapes[t]
	sh := shapes[g.r.Intn(len(shapes))]
	nv, ex := sh.mk(g)
	g.flag(fmt.Sprintf("%s/%s", t, sh.name))
	return &types.ChangeLog{LogType: t, Address: g.addr(), Version: g.u32(), NewVal: nv, Extra: ex}
}

func genLogs(g *G) *types.ChangeLogSlice {
	var out types.ChangeLogSlice
	n := g.r.Intn(6)
	for i := 0; i < n; i++ {
		out = append(out, genLog(newSub(g)))
	}
	g.flag(fmt.Sprintf("logs-%d", n))
	return &out
}

// ---------------------------------------------------------------- network messages

// authReqMsg / authRespMsg mirror the unexported handshake structs of network/p2p
// (handshake.go:108,115): plain fixed-size byte arrays handled by the reflection codec.
type authReqMsg struct {
	Signature    [65]byte
	ClientPubKey [64]byte
	InitNonce    [32]byte
}
type authRespMsg struct {
	RandomPubKey [64]byte
	RespNonce    [32]byte
}

func genConfirm(g *G) *network.BlockConfirmData {
	h := g.hash()
	return &network.BlockConfirmData{Hash: h, Height: g.u32(), SignInfo: g.signData(h)}
}

func genConfirms(g *G) *network.BlockConfirms {
	c := &network.BlockConfirms{Height: g.u32(), Hash: g.hash()}
	switch g.r.Intn(4) {
	case 0:
		g.flag("pack-nil")
	case 1:
		c.Pack = []types.SignData{}
		g.flag("pack-empty")
	default:
		n := g.r.Range(1, 5)
		for i := 0; i < n; i++ {
			c.Pack = append(c.Pack, g.signData(c.Hash))
		}
		g.flag("pack")
	}
	return c
}

func genStatus(g *G) *network.LatestStatus {
	return &network.LatestStatus{CurHeight: g.u32(), CurHash: g.hash(), StaHeight: g.u32(), StaHash: g.hash()}
}

func genDiscoverRes(g *G) *network.DiscoverResData {
	d := &network.DiscoverResData{Sequence: uint(g.u64())}
	n := g.r.Intn(5)
	if n == 0 && g.r.Chance(1, 2) {
		d.Nodes = []string{}
	}
	for i := 0; i < n; i++ {
		d.Nodes = append(d.Nodes, g.text(150, false))
	}
	g.flag(fmt.Sprintf("nodes-%d", n))
	return d
}

func genBlocks(g *G) *types.Blocks {
	var out types.Blocks
	n := g.r.Intn(3)
	for i := 0; i < n; i++ {
		out = append(out, genBlock(newSub(g)))
	}
	g.flag(fmt.Sprintf("blocks-%d", n))
	return &out
}
