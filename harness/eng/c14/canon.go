package main

// Codec canonicity. An independent (harness-owned) RLP item parser turns a valid encoding
// into a tree; a small schema tells which leaves are integers and which custom decoder owns a
// node; every node is then re-emitted in each non-canonical form while the rest stays
// canonical, and rlp.DecodeBytes into the real type must reject the result.

import (
	"bytes"
	"encoding/binary"
	"errors"
	"fmt"
	"math/big"
	"reflect"

	"github.com/LemoFoundationLtd/lemochain-core/chain/account"
	"github.com/LemoFoundationLtd/lemochain-core/chain/types"
	"github.com/LemoFoundationLtd/lemochain-core/common/rlp"
)

// rn is one RLP item of a canonical encoding.
type rn struct {
	list bool
	pay  []byte // string payload
	kids []*rn
}

var errNotCanonical = errors.New("harness parser: not a canonical single item")

func parseItem(b []byte) (*rn, []byte, error) {
	if len(b) == 0 {
		return nil, nil, errNotCanonical
	}
	t := b[0]
	var base byte
	switch {
	case t < 0x80:
		return &rn{pay: b[:1]}, b[1:], nil
	case t < 0xC0:
		base = 0x80
	default:
		base = 0xC0
	}
	var size uint64
	hl := 1
	if t-base < 56 {
		size = uint64(t - base)
	} else {
		ll := int(t - base - 55)
		if len(b) < 1+ll || b[1] == 0 {
			return nil, nil, errNotCanonical
		}
		var buf [8]byte
		copy(buf[8-ll:], b[1:1+ll])
		size = binary.BigEndian.Uint64(buf[:])
		if size < 56 {
			return nil, nil, errNotCanonical
		}
		hl = 1 + ll
	}
	if uint64(len(b)-hl) < size {
		return nil, nil, errNotCanonical
	}
	body, rest := b[hl:hl+int(size)], b[hl+int(size):]
	if base == 0x80 {
		if size == 1 && body[0] < 0x80 {
			return nil, nil, errNotCanonical
		}
		return &rn{pay: body}, rest, nil
	}
	n := &rn{list: true}
	for len(body) > 0 {
		k, r, err := parseItem(body)
		if err != nil {
			return nil, nil, err
		}
		n.kids = append(n.kids, k)
		body = r
	}
	return n, rest, nil
}

func parseRLP(b []byte) (*rn, error) {
	n, rest, err := parseItem(b)
	if err != nil {
		return nil, err
	}
	if len(rest) != 0 {
		return nil, errNotCanonical
	}
	return n, nil
}

func minBE(n uint64) []byte {
	var buf [8]byte
	binary.BigEndian.PutUint64(buf[:], n)
	i := 0
	for i < 7 && buf[i] == 0 {
		i++
	}
	return buf[i:]
}

func head(base byte, size uint64) []byte {
	if size < 56 {
		return []byte{base + byte(size)}
	}
	lb := minBE(size)
	return append([]byte{base + 55 + byte(len(lb))}, lb...)
}

func encString(p []byte) []byte {
	if len(p) == 1 && p[0] < 0x80 {
		return []byte{p[0]}
	}
	return append(head(0x80, uint64(len(p))), p...)
}

// payload returns the canonical payload of a node.
func (n *rn) payload(over map[*rn][]byte) []byte {
	if !n.list {
		return n.pay
	}
	var out []byte
	for _, k := range n.kids {
		out = append(out, k.encode(over)...)
	}
	return out
}

// encode re-emits the tree; nodes in over are replaced by the given bytes.
func (n *rn) encode(over map[*rn][]byte) []byte {
	if r, ok := over[n]; ok {
		return r
	}
	if !n.list {
		return encString(n.pay)
	}
	p := n.payload(over)
	return append(head(0xC0, uint64(len(p))), p...)
}

func (n *rn) base() byte {
	if n.list {
		return 0xC0
	}
	return 0x80
}

// ---------------------------------------------------------------- schema

type sch struct {
	k      byte // 'i' integer, 'b' byte string, 'l' list of elem, 's' struct, 'L' change log, 'e' empty interface, '?' unknown
	owner  string
	elem   *sch
	fields []*sch
	nilOK  bool // pointer field with rlp:"nil"
}

var (
	sI = &sch{k: 'i'}
	sB = &sch{k: 'b'}
	sE = &sch{k: 'e'}
	sN = &sch{k: 'b', nilOK: true}
)

func sL(e *sch) *sch                   { return &sch{k: 'l', elem: e} }
func sS(owner string, f ...*sch) *sch  { return &sch{k: 's', owner: owner, fields: f} }
func sOwned(owner string, s *sch) *sch { c := *s; c.owner = owner; return &c }

var (
	schHeader  = sS("Header", sB, sB, sB, sB, sB, sI, sI, sI, sI, sB, sB, sB)
	schTx      = sS("Transaction", sI, sI, sI, sB, sN, sN, sB, sI, sI, sI, sI, sB, sI, sB, sL(sB), sL(sB))
	schDeputy  = sS("DeputyNode", sB, sB, sI, sI)
	schProfile = sOwned("Profile", sL(sS("", sB, sB)))
	schAsset   = sS("Asset", sI, sI, sB, sI, sI, sI, sB, schProfile)
	schEquity  = sS("AssetEquity", sB, sB, sI)
	schSigners = sL(sS("", sB, sI))
	schEvent   = sS("Event", sB, sL(sB), sB)
	schLog     = &sch{k: 'L', owner: "ChangeLog"}
	schAccount = sS("AccountData", sB, sI, sB, sB, sB, sB, sB, sL(sB), sB, sS("", sI, schProfile), sI, sL(sS("", sI, sI, sI)), schSigners)
	schBlock   = sS("Block", schHeader, sL(schTx), sL(schLog), sL(sB), sL(schDeputy))
	schStatus  = sS("", sI, sB, sI, sB)
)

func logValSchemas(t types.ChangeLogType) (*sch, *sch) {
	switch t {
	case account.BalanceLog, account.VotesLog:
		return sI, sE
	case account.StorageLog:
		return sB, sB
	case account.StorageRootLog, account.AssetCodeRootLog, account.AssetIdRootLog, account.EquityRootLog:
		return sB, sE
	case account.AssetCodeLog:
		return schAsset, sB
	case account.AssetCodeStateLog:
		return sB, sS("", sB, sB)
	case account.AssetCodeTotalSupplyLog:
		return sI, sB
	case account.AssetIdLog:
		return sB, sB
	case account.EquityLog:
		return schEquity, sB
	case account.CodeLog:
		return sB, sE
	case account.AddEventLog:
		return schEvent, sE
	case account.SuicideLog:
		return sE, sE
	case account.VoteForLog:
		return sB, sE
	case account.SignerLog:
		return schSigners, sE
	case account.CandidateLog:
		return schProfile, sE
	case account.CandidateStateLog:
		return sB, sB
	}
	return &sch{k: '?'}, &sch{k: '?'}
}

// schemaOf derives a schema for plain Go types handled by the reflection codec.
func schemaOf(t reflect.Type) *sch {
	switch {
	case t == bigT || t == bigPtrT:
		return sI
	}
	switch t.Kind() {
	case reflect.Uint, reflect.Uint8, reflect.Uint16, reflect.Uint32, reflect.Uint64, reflect.Bool:
		return sI
	case reflect.String:
		return sB
	case reflect.Slice, reflect.Array:
		if t.Elem().Kind() == reflect.Uint8 {
			return sB
		}
		return sL(schemaOf(t.Elem()))
	case reflect.Ptr:
		return schemaOf(t.Elem())
	case reflect.Struct:
		s := &sch{k: 's'}
		for i := 0; i < t.NumField(); i++ {
			f := t.Field(i)
			if f.PkgPath != "" {
				continue
			}
			fs := schemaOf(f.Type)
			if f.Tag.Get("rlp") == "nil" {
				c := *fs
				c.nilOK = true
				fs = &c
			}
			s.fields = append(s.fields, fs)
		}
		return s
	}
	return &sch{k: '?'}
}

type visit struct {
	n        *rn
	s        *sch
	owner    string
	lastKid  bool // last child of its parent
	isStruct bool // a list decoded into a fixed number of fields
	depth    int
}

// walk pairs the item tree with the schema.
func walk(n *rn, s *sch, owner string, last bool, depth int, out *[]visit) {
	if s.owner != "" {
		owner = s.owner
	}
	v := visit{n: n, s: s, owner: owner, lastKid: last, depth: depth}
	switch s.k {
	case 's':
		if n.list && len(n.kids) == len(s.fields) {
			v.isStruct = true
			*out = append(*out, v)
			for i, k := range n.kids {
				walk(k, s.fields[i], owner, i == len(n.kids)-1, depth+1, out)
			}
			return
		}
	case 'l':
		if n.list {
			*out = append(*out, v)
			for i, k := range n.kids {
				walk(k, s.elem, owner, i == len(n.kids)-1, depth+1, out)
			}
			return
		}
	case 'L':
		if n.list && len(n.kids) == 5 && !n.kids[0].list {
			v.isStruct = true
			*out = append(*out, v)
			lt := types.ChangeLogType(new(big.Int).SetBytes(n.kids[0].pay).Uint64())
			nv, ex := logValSchemas(lt)
			fs := []*sch{sI, sB, sI, nv, ex}
			for i, k := range n.kids {
				walk(k, fs[i], owner, i == 4, depth+1, out)
			}
			return
		}
	}
	// leaf, or a shape the schema does not describe (nil pointer encoded as empty item, ...)
	if s.k == 's' || s.k == 'l' || s.k == 'L' {
		v.s = &sch{k: '?'}
	}
	*out = append(*out, v)
}

// ---------------------------------------------------------------- forms

type mutant struct {
	form string
	enc  []byte
	node []byte // the non-canonical item alone (to attribute an acceptance to codec or custom decoder)
	kind byte   // schema kind of the node
	own  string
}

// nodeForms emits the non-canonical encodings of one node.
// missingOwner is set by nodeForms: the custom decoder owning the field dropped by "missing-list-element".
var missingOwner string

func nodeForms(v visit) (forms []string, encs [][]byte) {
	missingOwner = ""
	n := v.n
	p := n.payload(nil)
	base := n.base()
	add := func(f string, e []byte) { forms = append(forms, f); encs = append(encs, e) }
	isByteItem := !n.list && len(p) == 1 && p[0] < 0x80
	if !isByteItem {
		if len(p) < 56 {
			add("long-form-length-for-short-payload", append([]byte{base + 56, byte(len(p))}, p...))
		}
		lb := minBE(uint64(len(p)))
		if len(lb) < 8 {
			h := append([]byte{base + 55 + byte(len(lb)) + 1, 0x00}, lb...)
			add("length-with-leading-zero", append(h, p...))
		}
	} else {
		add("single-byte-wrapped-as-string", []byte{0x81, p[0]})
		add("long-form-length-for-short-payload", []byte{0xB8, 0x01, p[0]})
	}
	if v.s.k == 'i' && !n.list {
		add("integer-with-leading-zero", encString(append([]byte{0x00}, p...)))
		if len(p) > 0 {
			add("integer-with-leading-zero", encString(append([]byte{0x00, 0x00}, p...)))
		}
	}
	if v.lastKid && v.depth > 0 {
		// declared size one beyond what the enclosing list holds
		h := head(base, uint64(len(p))+1)
		if isByteItem {
			h = []byte{0x82}
		}
		add("element-size-beyond-enclosing-list", append(h, p...))
	}
	if v.isStruct {
		add("extra-list-element", append(head(0xC0, uint64(len(p))+1), append(append([]byte{}, p...), 0x80)...))
		if len(n.kids) > 0 {
			var short []byte
			for _, k := range n.kids[:len(n.kids)-1] {
				short = append(short, k.encode(nil)...)
			}
			add("missing-list-element", append(head(0xC0, uint64(len(short))), short...))
			missingOwner = ""
			if v.s.k == 's' && len(v.s.fields) > 0 {
				missingOwner = v.s.fields[len(v.s.fields)-1].owner
			}
		}
	}
	return
}

func topForms(e []byte, root *rn) (forms []string, encs [][]byte) {
	add := func(f string, x []byte) { forms = append(forms, f); encs = append(encs, x) }
	add("trailing-bytes", append(append([]byte{}, e...), 0x00))
	add("trailing-bytes", append(append([]byte{}, e...), 0x80))
	add("trailing-bytes", append(append([]byte{}, e...), e...))
	p := root.payload(nil)
	if root.list || len(p) != 1 || p[0] >= 0x80 {
		for _, d := range []uint64{1, 56, 1 << 16, 1 << 40, 1<<63 - uint64(len(p))} {
			add("declared-size-beyond-input", append(head(root.base(), uint64(len(p))+d), p...))
		}
		add("truncated-input", e[:len(e)-1])
		if len(e) > 2 {
			add("truncated-input", e[:len(e)/2])
		}
	}
	return
}

// standaloneRejected asks the low-level codec about the non-canonical item alone.
func standaloneRejected(item []byte, k byte) bool {
	var err error
	switch k {
	case 'i':
		err = rlp.DecodeBytes(item, new(big.Int))
	default:
		var x interface{}
		err = rlp.DecodeBytes(item, &x)
	}
	return err != nil
}

// canonMutants derives all non-canonical variants of a valid encoding. max bounds the number
// of nodes visited (chosen by pick).
func canonMutants(enc []byte, s *sch, pick func(n int) []int) ([]mutant, error) {
	root, err := parseRLP(enc)
	if err != nil {
		return nil, err
	}
	if !bytes.Equal(root.encode(nil), enc) {
		return nil, fmt.Errorf("harness parser does not reproduce the encoding")
	}
	var vs []visit
	walk(root, s, "", false, 0, &vs)
	var out []mutant
	fs, es := topForms(enc, root)
	for i := range fs {
		out = append(out, mutant{form: fs[i], enc: es[i], kind: 't'})
	}
	for _, idx := range pick(len(vs)) {
		v := vs[idx]
		fs, es := nodeForms(v)
		for i := range fs {
			full := root.encode(map[*rn][]byte{v.n: es[i]})
			own := v.owner
			if fs[i] == "missing-list-element" && missingOwner != "" {
				own = missingOwner
			}
			out = append(out, mutant{form: fs[i], enc: full, node: es[i], kind: v.s.k, own: own})
		}
		if v.s.nilOK && !v.n.list && len(v.n.pay) == 0 {
			full := root.encode(map[*rn][]byte{v.n: {0xC0}})
			out = append(out, mutant{form: "empty-list-for-nil-pointer", enc: full, node: []byte{0xC0}, kind: 'n', own: v.owner})
		}
	}
	return out, nil
}
