// C14 — encodings round-trip and are canonical. Five monitors over the real codecs:
//
//	value : generated values of every consensus type -> decode(encode(v)) == v, same hashes, same
//	        recovered signers, byte-identical re-encoding for hashed/signed objects, JSON round trip of
//	        transactions and box payloads;
//	canon : non-canonical variants of valid encodings must be rejected by rlp.DecodeBytes;
//	bytes : mutated / random byte strings into every RLP decoder: value or error, never a panic,
//	        allocation in proportion to the input;
//	text  : the same for the JSON and text decoders (transactions, box payloads, hexutil, addresses);
//	addr  : Lemo address text round trip, case-insensitivity, single-character corruptions.
package main

import (
	"bytes"
	"encoding/hex"
	"encoding/json"
	"fmt"
	"os"
	"reflect"
	"strings"
	"unicode/utf8"

	"github.com/LemoFoundationLtd/lemochain-core/chain/params"
	"github.com/LemoFoundationLtd/lemochain-core/chain/types"
	"github.com/LemoFoundationLtd/lemochain-core/common/rlp"

	"verif/fx"
	"verif/fx/run"
)

// Case is one executed case and the replay witness.
type Case struct {
	Mon     string      `json:"mon"`            // value | canon | bytes | text | addr
	Type    string      `json:"type,omitempty"` // codec / decoder / target name
	Tree    interface{} `json:"tree,omitempty"` // value witness (see tree.go)
	Hex     string      `json:"hex,omitempty"`  // byte string offered to the decoder(s)
	Form    string      `json:"form,omitempty"` // non-canonical form / mutation kind
	Node    string      `json:"node,omitempty"` // the non-canonical item alone
	NodeK   string      `json:"nodeKind,omitempty"`
	Owner   string      `json:"owner,omitempty"`
	Text    string      `json:"text,omitempty"` // text offered to a text decoder (hex of the bytes when not UTF-8: see TextHex)
	TextHex string      `json:"textHex,omitempty"`
	Addr    string      `json:"addr,omitempty"` // address (hex) the text was derived from
	Shape   string      `json:"shape,omitempty"`
	What    string      `json:"what,omitempty"`
}

func batches(tier string) int { return 16 }

type mon struct {
	c    *run.Ctx
	seen map[string]int
}

// viol reports a violation; per batch only the first two witnesses of a class are emitted, the
// rest is counted.
func (m *mon) viol(cs *Case, class, msg string) {
	if m.seen == nil {
		m.seen = map[string]int{}
	}
	m.seen[class]++
	m.c.Stat("oracle_firings", 1)
	if m.seen[class] > 2 {
		m.c.Stat("oracle_firings_not_reported_individually", 1)
		return
	}
	w := *cs
	w.What = msg
	m.c.Violation("C14/"+class, msg, w)
}

// ---------------------------------------------------------------- value monitor

func (m *mon) checkValue(cd *codec, v interface{}, cs *Case) bool {
	c := m.c
	var enc []byte
	err, p := safely(func() (e error) { enc, e = rlpEnc(v); return })
	if p != "" {
		m.viol(cs, "encoder-panics:"+cd.name, "encoding a generated value panicked: "+p)
		return false
	}
	if err != nil {
		m.viol(cs, "own-value-not-encodable:"+cd.name, "encoding a generated value failed: "+err.Error())
		return false
	}
	d1 := dump(v)
	var h1, s1 string
	if cd.hash != nil {
		h1 = cd.hash(v)
	}
	if cd.signers != nil {
		s1 = cd.signers(v)
	}
	into := cd.fresh()
	err, p = safely(func() error { return rlp.DecodeBytes(enc, into) })
	if p != "" {
		m.viol(cs, "decoder-panics:rlp:"+cd.name, fmt.Sprintf("decoding the value's own encoding %x panicked: %s", clip(enc), p))
		return false
	}
	if err != nil {
		m.viol(cs, "own-encoding-rejected:"+cd.name, fmt.Sprintf("decoding the value's own encoding %x failed: %v", clip(enc), err))
		return false
	}
	c.Stat("values_roundtripped", 1)
	ok := true
	if d2 := dump(into); d1 != d2 {
		m.viol(cs, "roundtrip-differs:"+cd.name, "decode(encode(v)) differs from v "+firstDiff(d1, d2))
		ok = false
	}
	if cd.hash != nil {
		c.Stat("hashes_compared", 1)
		if h2 := cd.hash(into); h1 != h2 {
			m.viol(cs, "hash-changes:"+cd.name, fmt.Sprintf("hash before %s after round trip %s", h1, h2))
			ok = false
		}
	}
	if cd.signers != nil {
		c.Stat("signer_sets_compared", 1)
		if strings.Contains(s1, "0x") {
			c.Stat("signer_sets_with_recovered_key", 1)
		}
		if s2 := cd.signers(into); s1 != s2 {
			m.viol(cs, "signer-changes:"+cd.name, fmt.Sprintf("recovered signers before %s after round trip %s", s1, s2))
			ok = false
		}
	}
	enc2, err := rlpEnc(into)
	if err != nil {
		m.viol(cs, "decoded-value-not-encodable:"+cd.name, err.Error())
		return false
	}
	switch {
	case cd.mapped:
		// a Go map inside: the byte order of the records follows map iteration, so value equality of a
		// second pass is what is required (and counted the same whatever order this run happened to see)
		c.Stat("mapped_values_second_pass", 1)
		into2 := cd.fresh()
		if err := rlp.DecodeBytes(enc2, into2); err != nil || dump(into2) != d1 {
			m.viol(cs, "roundtrip-differs:"+cd.name, fmt.Sprintf("second pass differs (err %v)", err))
			ok = false
		}
	case bytes.Equal(enc, enc2):
		c.Stat("reencodings_identical", 1)
	case cd.hashed:
		m.viol(cs, "reencode-differs:"+cd.name, fmt.Sprintf("encode(decode(b)) != b: b=%x re-encoded=%x", clip(enc), clip(enc2)))
		ok = false
	default:
		c.Stat("reencodings_differing_unhashed", 1)
		c.Seen("unhashed_types_reencoding_differently", cd.name)
	}
	if cd.viaMsg {
		into3 := cd.fresh()
		err, p := safely(func() error { return msgDecode(enc, into3) })
		if p != "" {
			m.viol(cs, "decoder-panics:msg:"+cd.name, p)
			ok = false
		} else if err != nil {
			m.viol(cs, "own-encoding-rejected:"+cd.name, "p2p.Msg.Decode: "+err.Error())
			ok = false
		} else if d3 := dump(into3); d3 != d1 {
			m.viol(cs, "roundtrip-differs:"+cd.name, "through p2p.Msg.Decode "+firstDiff(d1, d3))
			ok = false
		}
		c.Stat("values_through_msg_decode", 1)
	}
	if tx, isTx := v.(*types.Transaction); isTx {
		if !m.checkTxJSON(tx, cs, "Transaction") {
			ok = false
		}
	}
	return ok
}

func clip(b []byte) []byte {
	if len(b) > 300 {
		return b[:300]
	}
	return b
}

// checkTxJSON: JSON round trip of a transaction; for a box also the JSON-carried sub transactions.
func (m *mon) checkTxJSON(tx *types.Transaction, cs *Case, name string) bool {
	c := m.c
	var js []byte
	err, p := safely(func() (e error) { js, e = json.Marshal(tx); return })
	if p != "" || err != nil {
		m.viol(cs, "json-encoder-fails:"+name, fmt.Sprintf("panic %q err %v", p, err))
		return false
	}
	refuse := ""
	if tx.Version() != types.TxVersion {
		refuse = "version"
	}
	for _, s := range tx.Sigs() {
		if len(s) != types.TxSigLength {
			refuse = "signature-length"
		}
	}
	tx2 := new(types.Transaction)
	err, p = safely(func() error { return json.Unmarshal(js, tx2) })
	if p != "" {
		m.viol(cs, "decoder-panics:json:"+name, p)
		return false
	}
	if err != nil {
		if refuse != "" {
			c.Stat("json_refused_by_design", 1)
			c.Seen("json_refusals_by_design", refuse)
			return true
		}
		m.viol(cs, "own-encoding-rejected:"+name+".json", fmt.Sprintf("%v for %s", err, clipS(string(js))))
		return false
	}
	c.Stat("tx_json_roundtrips", 1)
	ok := true
	mech := ""
	if !utf8.ValidString(tx.ToName()) || !utf8.ValidString(tx.Message()) {
		mech = ":non-utf8-text"
	}
	e1, _ := rlpEnc(tx)
	e2, err := rlpEnc(tx2)
	switch {
	case err != nil:
		m.viol(cs, "decoded-value-not-encodable:"+name+".json", err.Error())
		ok = false
	case tx.Hash() != tx2.Hash():
		m.viol(cs, "hash-changes:"+name+".json"+mech, fmt.Sprintf("hash %s, after JSON round trip %s", tx.Hash().Hex(), tx2.Hash().Hex()))
		ok = false
	case !bytes.Equal(e1, e2):
		m.viol(cs, "roundtrip-differs:"+name+".json"+mech, fmt.Sprintf("wire form %x after JSON round trip %x", clip(e1), clip(e2)))
		ok = false
	case signersOfTx(tx) != signersOfTx(tx2):
		m.viol(cs, "signer-changes:"+name+".json", fmt.Sprintf("%s vs %s", signersOfTx(tx), signersOfTx(tx2)))
		ok = false
	}
	if js2, err := json.Marshal(tx2); ok && (err != nil || !bytes.Equal(js, js2)) {
		m.viol(cs, "reencode-differs:"+name+".json", fmt.Sprintf("JSON %s re-marshalled %s (err %v)", clipS(string(js)), clipS(string(js2)), err))
		ok = false
	}
	if tx.Type() == params.BoxTx {
		var box *types.Box
		err, p := safely(func() (e error) { box, e = types.GetBox(tx.Data()); return })
		if p != "" {
			m.viol(cs, "decoder-panics:json:Box", p)
			return false
		}
		if err != nil {
			c.Stat("box_payload_not_json", 1)
			return ok
		}
		// the payload carries each sub transaction's hash next to its fields: the hash the box hash
		// is taken over must be the one the payload announces
		var raw struct {
			SubTxList []struct {
				Hash string `json:"hash"`
			} `json:"subTxList"`
		}
		_ = json.Unmarshal(tx.Data(), &raw)
		for i, sub := range box.SubTxList {
			c.Stat("box_subtx_hashes_compared", 1)
			if i < len(raw.SubTxList) && raw.SubTxList[i].Hash != "" && !strings.EqualFold(raw.SubTxList[i].Hash, sub.Hash().Hex()) {
				m.viol(cs, "hash-changes:Box.subtx", fmt.Sprintf("sub transaction %d announces hash %s, decoded value hashes to %s", i, raw.SubTxList[i].Hash, sub.Hash().Hex()))
				ok = false
			}
			if len(name) < 20 && !m.checkTxJSON(sub, cs, "Box.subtx") {
				ok = false
			}
		}
	}
	return ok
}

func clipS(s string) string {
	if len(s) > 400 {
		return s[:400] + "..."
	}
	return s
}

// drainWireMismatches reports transactions whose re-encoding differs from the wire bytes they came from.
func (m *mon) drainWireMismatches() {
	for i := range wireMismatches {
		cs := wireMismatches[i]
		m.viol(&cs, "reencode-differs:Transaction:from-wire-fields", "encode(decode(b)) != b for a transaction built from wire fields: "+cs.What)
	}
	wireMismatches = nil
}

func (m *mon) valueCase(cd *codec, r *run.Rng) {
	defer m.drainWireMismatches()
	txOrigin = map[*types.Transaction]*fx.TxFields{}
	g := newG(r)
	v := cd.gen(g)
	cs := &Case{Mon: "value", Type: cd.name, Shape: g.shapeStr()}
	cs.Tree = witnessTree(v)
	m.c.WAL(cs)
	ok := m.checkValue(cd, v, cs)
	m.c.Seen("value_types", cd.name)
	if r.Chance(1, 16) {
		// harness self-check: the witness form must rebuild the same value
		if back, err := rebuild(cd, cs.Tree); err != nil || dump(back) != dump(v) {
			m.c.Inconclusive(fmt.Sprintf("harness: witness of a %s (%s) does not rebuild the value: %v", cd.name, g.shapeStr(), err))
		}
		m.c.Stat("witnesses_rebuilt", 1)
	}
	if l, isLog := v.(*types.ChangeLog); isLog {
		m.c.Seen("change_log_shapes", g.shapeStr())
		_ = l
	}
	if tx, isTx := v.(*types.Transaction); isTx && tx.Type() < uint16(len(txTypeNames)) {
		m.c.Seen("tx_types", txTypeNames[tx.Type()])
	}
	var sample interface{}
	if ok {
		sample = map[string]string{"mon": "value", "type": cd.name, "shape": g.shapeStr()}
	}
	m.c.Case("value/"+cd.name+"/"+g.shapeStr(), len(g.shape) > 0, sample)
}

// ---------------------------------------------------------------- canon monitor

func (m *mon) canonCase(t *target, r *run.Rng) {
	txOrigin = map[*types.Transaction]*fx.TxFields{}
	g := newG(r)
	v := t.gen(g)
	enc, err := rlpEnc(v)
	if err != nil {
		return
	}
	enc = stabilise(t.name, enc)
	muts, err := canonMutants(enc, t.schema, func(n int) []int {
		// all nodes of small objects, a random subset of big ones
		if n <= 24 {
			out := make([]int, n)
			for i := range out {
				out[i] = i
			}
			return out
		}
		p := r.Perm(n)
		return p[:24]
	})
	if err != nil {
		m.viol(&Case{Mon: "canon", Type: t.name, Hex: hex.EncodeToString(enc)}, "encoder-not-canonical:"+t.name, "an independent RLP parser rejects the encoder's output: "+err.Error())
		return
	}
	for _, mu := range muts {
		m.canonOne(t, mu)
	}
}

var structuralForms = map[string]bool{"extra-list-element": true, "missing-list-element": true}

func (m *mon) canonOne(t *target, mu mutant) {
	c := m.c
	cs := &Case{Mon: "canon", Type: t.name, Form: mu.form, Hex: hex.EncodeToString(mu.enc), Node: hex.EncodeToString(mu.node), NodeK: string(mu.kind), Owner: mu.own}
	if len(mu.enc) < 4096 {
		c.WAL(cs)
	}
	into := t.fresh()
	err, p := safely(func() error { return rlp.DecodeBytes(mu.enc, into) })
	c.Stat("noncanonical_encodings_offered", 1)
	switch {
	case p != "":
		m.viol(cs, "decoder-panics:rlp:"+t.name, fmt.Sprintf("non-canonical input (%s) panicked: %s", mu.form, p))
	case err != nil:
		c.Stat("noncanonical_encodings_rejected", 1)
		c.Seen("noncanonical_forms_rejected", mu.form)
	case mu.form == "empty-list-for-nil-pointer":
		// documented rule of the rlp:"nil" tag ("input values of size zero decode as a nil pointer"); recorded, not judged
		c.Stat("nil_pointer_accepts_empty_list_observed", 1)
	default:
		class := "noncanonical-accepted:" + mu.form
		owner := mu.own
		if owner == "" {
			owner = t.name
		}
		if structuralForms[mu.form] || (len(mu.node) > 0 && standaloneRejected(mu.node, mu.kind)) || (mu.kind == 't' && standaloneRejected(mu.enc, 't')) {
			// the low-level codec rejects this item on its own: the acceptance is the type's custom decoder
			class += "@" + owner
		}
		m.viol(cs, class, fmt.Sprintf("rlp.DecodeBytes into %s accepted a non-canonical encoding (%s, item %x): %x", t.name, mu.form, mu.node, clip(mu.enc)))
	}
	c.Case("canon/"+t.name+"/"+mu.form+"/"+string(mu.kind)+"/"+mu.own, true, nil)
}

// ---------------------------------------------------------------- driver

func runAll(c *run.Ctx) {
	fx.Quiet()
	initCodecs()
	initTargets()
	m := &mon{c: c}
	only := os.Getenv("C14_ONLY")
	want := func(s string) bool { return only == "" || strings.Contains(only, s) }
	if c.Batch == 0 && want("fixed") {
		m.fixedCases()
	}
	scale := c.Pick(1, 20)
	if want("value") {
		sched := schedule()
		n := 20000 * scale
		lo, hi := c.Share(n)
		for i := lo; i < hi; i++ {
			m.valueCase(sched[i%len(sched)], run.NewRng(c.Seed, 1, uint64(i)))
		}
	}
	if want("canon") {
		n := 1600 * scale
		lo, hi := c.Share(n)
		for i := lo; i < hi; i++ {
			m.canonCase(targets[i%len(targets)], run.NewRng(c.Seed, 2, uint64(i)))
		}
	}
	if want("bytes") {
		m.bytesRun(110000 * scale)
	}
	if only == "amp" {
		m.amplification()
	}
	if want("text") {
		m.textRun(24000 * scale)
	}
	if want("addr") {
		n := 1600 * scale
		lo, hi := c.Share(n)
		for i := lo; i < hi; i++ {
			m.addrCase(run.NewRng(c.Seed, 5, uint64(i)))
		}
	}
}

// rebuild materialises a value from its witness tree (through JSON, as a replay file would).
func rebuild(cd *codec, tree interface{}) (interface{}, error) {
	js, err := json.Marshal(tree)
	if err != nil {
		return nil, err
	}
	var generic interface{}
	if err := json.Unmarshal(js, &generic); err != nil {
		return nil, err
	}
	p := reflect.New(reflect.TypeOf(cd.fresh())).Elem() // a nil *T
	if err := fromTree(generic, p); err != nil {
		return nil, err
	}
	if p.IsNil() { // the value itself was a nil slice / map
		p.Set(reflect.New(p.Type().Elem()))
	}
	return p.Interface(), nil
}

func replay(c *run.Ctx, raw json.RawMessage) {
	fx.Quiet()
	initCodecs()
	initTargets()
	m := &mon{c: c}
	var cs Case
	if err := json.Unmarshal(raw, &cs); err != nil {
		c.Inconclusive("bad witness: " + err.Error())
		return
	}
	cs.What = ""
	switch cs.Mon {
	case "value":
		cd := codecByName[cs.Type]
		if cd == nil {
			c.Inconclusive("unknown type " + cs.Type)
			return
		}
		v, err := rebuild(cd, cs.Tree)
		if err != nil {
			c.Inconclusive("cannot rebuild the value: " + err.Error())
			return
		}
		m.checkValue(cd, v, &cs)
	case "canon":
		t := targetByName[cs.Type]
		b, err := hex.DecodeString(cs.Hex)
		if t == nil || err != nil {
			c.Inconclusive("bad canon witness")
			return
		}
		node, _ := hex.DecodeString(cs.Node)
		k := byte('?')
		if cs.NodeK != "" {
			k = cs.NodeK[0]
		}
		m.canonOne(t, mutant{form: cs.Form, enc: b, node: node, kind: k, own: cs.Owner})
	case "bytes":
		b, err := hex.DecodeString(cs.Hex)
		if err != nil {
			c.Inconclusive("bad hex")
			return
		}
		m.bytesOne(b, &cs)
	case "text":
		m.textOne(cs.text(), &cs)
	case "addr":
		m.addrReplay(&cs)
	default:
		c.Inconclusive("unknown monitor " + cs.Mon)
		return
	}
	c.Case("replay", true, nil)
}

func main() { run.Main(run.Engine{Batches: batches, Run: runAll, Replay: replay}) }
