package main

// Text side: JSON decoders (transactions, box payloads, tx data types, block level types),
// hexutil types, and the Lemo address text form.

import (
	"encoding/hex"
	"encoding/json"
	"fmt"
	"math/big"
	"runtime"
	"strings"
	"unicode/utf8"

	"github.com/LemoFoundationLtd/lemochain-core/chain/types"
	"github.com/LemoFoundationLtd/lemochain-core/common"
	"github.com/LemoFoundationLtd/lemochain-core/common/hexutil"
	"github.com/LemoFoundationLtd/lemochain-core/common/rlp"

	"verif/fx"
	"verif/fx/run"
)

func (cs *Case) text() string {
	if cs.TextHex != "" {
		b, _ := hex.DecodeString(cs.TextHex)
		return string(b)
	}
	return cs.Text
}

func (cs *Case) setText(s string) {
	if utf8.ValidString(s) {
		cs.Text = s
	} else {
		cs.TextHex = hex.EncodeToString([]byte(s))
	}
}

type textDecoder struct {
	name string
	dec  func(s string) (interface{}, error)
}

func jsonInto(name string, fresh func() interface{}) *textDecoder {
	return &textDecoder{name: "json:" + name, dec: func(s string) (interface{}, error) {
		v := fresh()
		return v, json.Unmarshal([]byte(s), v)
	}}
}

var textDecoders []*textDecoder

func initTextDecoders() {
	if textDecoders != nil {
		return
	}
	textDecoders = []*textDecoder{
		jsonInto("Transaction", func() interface{} { return new(types.Transaction) }),
		{name: "json:Box", dec: func(s string) (interface{}, error) { return types.GetBox([]byte(s)) }},
		{name: "json:Asset", dec: func(s string) (interface{}, error) { return types.GetAsset([]byte(s)) }},
		{name: "json:IssueAsset", dec: func(s string) (interface{}, error) { return types.GetIssueAsset([]byte(s)) }},
		{name: "json:ReplenishAsset", dec: func(s string) (interface{}, error) { return types.GetReplenishAsset([]byte(s)) }},
		{name: "json:ModifyAssetInfo", dec: func(s string) (interface{}, error) { return types.GetModifyAssetInfo([]byte(s)) }},
		{name: "json:TransferAsset", dec: func(s string) (interface{}, error) { return types.GetTransferAsset([]byte(s)) }},
		jsonInto("Header", func() interface{} { return new(types.Header) }),
		jsonInto("Block", func() interface{} { return new(types.Block) }),
		jsonInto("ChangeLog", func() interface{} { return new(types.ChangeLog) }),
		jsonInto("DeputyNode", func() interface{} { return new(types.DeputyNode) }),
		jsonInto("AccountData", func() interface{} { return new(types.AccountData) }),
		jsonInto("Signers", func() interface{} { return new(types.Signers) }),
		jsonInto("Address", func() interface{} { return new(common.Address) }),
		jsonInto("Hash", func() interface{} { return new(common.Hash) }),
		jsonInto("hexutil.Bytes", func() interface{} { return new(hexutil.Bytes) }),
		jsonInto("hexutil.Big", func() interface{} { return new(hexutil.Big) }),
		jsonInto("hexutil.Big10", func() interface{} { return new(hexutil.Big10) }),
		jsonInto("hexutil.Uint64", func() interface{} { return new(hexutil.Uint64) }),
		jsonInto("hexutil.Uint32", func() interface{} { return new(hexutil.Uint32) }),
		jsonInto("hexutil.Uint16", func() interface{} { return new(hexutil.Uint16) }),
		jsonInto("hexutil.Uint8", func() interface{} { return new(hexutil.Uint8) }),
		jsonInto("hexutil.IP", func() interface{} { return new(hexutil.IP) }),
		{name: "text:StringToAddress", dec: func(s string) (interface{}, error) { return common.StringToAddress(s) }},
		{name: "text:Address.UnmarshalText", dec: func(s string) (interface{}, error) {
			a := new(common.Address)
			return a, a.UnmarshalText([]byte(s))
		}},
		{name: "text:Hash.UnmarshalText", dec: func(s string) (interface{}, error) {
			a := new(common.Hash)
			return a, a.UnmarshalText([]byte(s))
		}},
		{name: "text:hexutil.Decode", dec: func(s string) (interface{}, error) { return hexutil.Decode(s) }},
		{name: "text:hexutil.ParseUint", dec: func(s string) (interface{}, error) { return hexutil.ParseUint(s, 64) }},
		{name: "text:hexutil.Bytes", dec: func(s string) (interface{}, error) {
			v := new(hexutil.Bytes)
			return v, v.UnmarshalText([]byte(s))
		}},
		{name: "text:hexutil.Big", dec: func(s string) (interface{}, error) {
			v := new(hexutil.Big)
			return v, v.UnmarshalText([]byte(s))
		}},
		{name: "text:hexutil.Big10", dec: func(s string) (interface{}, error) {
			v := new(hexutil.Big10)
			return v, v.UnmarshalText([]byte(s))
		}},
		{name: "text:hexutil.Uint64", dec: func(s string) (interface{}, error) {
			v := new(hexutil.Uint64)
			return v, v.UnmarshalText([]byte(s))
		}},
		{name: "text:hexutil.Uint8", dec: func(s string) (interface{}, error) {
			v := new(hexutil.Uint8)
			return v, v.UnmarshalText([]byte(s))
		}},
		{name: "text:hexutil.IP", dec: func(s string) (interface{}, error) {
			v := new(hexutil.IP)
			return v, v.UnmarshalText([]byte(s))
		}},
		{name: "text:common.FromHex", dec: func(s string) (interface{}, error) { return common.FromHex(s), nil }},
		{name: "text:common.HexToAddress", dec: func(s string) (interface{}, error) { return common.HexToAddress(s), nil }},
	}
}

// encodeFailureMechanism names why a decoded transaction cannot be put on the wire.
func encodeFailureMechanism(err error) string {
	if strings.Contains(err.Error(), "negative") {
		return "negative-integer"
	}
	return "other"
}

// textOne offers s to every text decoder.
func (m *mon) textOne(s string, cs *Case) (accepted int) {
	c := m.c
	initTextDecoders()
	var ms0, ms1 runtime.MemStats
	type okT struct {
		d *textDecoder
		v interface{}
	}
	var oks []okT
	runtime.ReadMemStats(&ms0)
	for _, d := range textDecoders {
		var v interface{}
		err, p := safely(func() (e error) { v, e = d.dec(s); return })
		if p != "" {
			m.viol(cs, "decoder-panics:"+d.name, fmt.Sprintf("%s panicked on %d bytes of text: %s", d.name, len(s), p))
		} else if err == nil {
			oks = append(oks, okT{d, v})
		}
	}
	runtime.ReadMemStats(&ms1)
	c.Stat("decoder_calls", int64(len(textDecoders)))
	c.Stat("allocation_windows_measured", 1)
	if ms1.TotalAlloc-ms0.TotalAlloc > allocBound(len(s)) {
		for _, d := range textDecoders {
			runtime.ReadMemStats(&ms0)
			safely(func() error { _, e := d.dec(s); return e })
			runtime.ReadMemStats(&ms1)
			if a := ms1.TotalAlloc - ms0.TotalAlloc; a > allocBound(len(s)) {
				// attribute: does the excess vanish when decimal digit runs are cut to what 256 bits need?
				cut := cutDigitRuns(s, 78)
				runtime.ReadMemStats(&ms0)
				safely(func() error { _, e := d.dec(cut); return e })
				runtime.ReadMemStats(&ms1)
				if cut != s && ms1.TotalAlloc-ms0.TotalAlloc <= allocBound(len(cut)) {
					m.viol(cs, "decoder-allocates-out-of-proportion:decimal-integer-of-unbounded-length", fmt.Sprintf("%s allocated %d bytes for %d bytes of text holding a decimal integer of more than 78 digits (bound %d*len+1MiB); with the digits cut it stays within the bound", d.name, a, len(s), allocFactor))
				} else {
					m.viol(cs, "decoder-allocates-out-of-proportion:"+d.name, fmt.Sprintf("%s allocated %d bytes for %d bytes of text", d.name, a, len(s)))
				}
			}
		}
	}
	for _, o := range oks {
		c.Stat("hostile_inputs_accepted", 1)
		c.Seen("decoders_accepting_hostile_input", o.d.name)
		var txs []*types.Transaction
		switch v := o.v.(type) {
		case *types.Transaction:
			txs = append(txs, v)
		case *types.Box:
			txs = append(txs, v.SubTxList...)
		}
		for _, tx := range txs {
			// a transaction accepted from JSON must have a wire form: its hash is the hash of that form
			var err error
			_, p := safely(func() error {
				tx.Hash()
				signersOfTx(tx)
				_, err = rlpEnc(tx)
				return nil
			})
			if p != "" {
				m.viol(cs, "decoded-value-panics:"+o.d.name, p)
			} else if err != nil {
				c.Stat("json_transactions_without_wire_form", 1)
				m.viol(cs, "json-accepts-unencodable-value:Transaction:"+encodeFailureMechanism(err),
					fmt.Sprintf("%s accepted a transaction that cannot be RLP encoded (%v); its Hash() is the hash of an empty encoding: %s", o.d.name, err, tx.Hash().Hex()))
			} else {
				c.Stat("json_transactions_with_wire_form", 1)
				// ... and only of that form: whatever the text said next to the fields (a "hash" member), the hash of the
				// accepted value is the hash of the transaction its wire form decodes to
				enc, _ := rlpEnc(tx)
				tx2 := new(types.Transaction)
				if e := rlp.DecodeBytes(enc, tx2); e == nil {
					c.Stat("json_transaction_hashes_compared_with_wire_form", 1)
					if tx2.Hash() != tx.Hash() {
						m.viol(cs, "hash-not-function-of-fields:"+o.d.name, fmt.Sprintf("%s accepted a transaction whose Hash() is %s, but its own wire form decodes to a transaction with hash %s", o.d.name, tx.Hash().Hex(), tx2.Hash().Hex()))
					}
				}
			}
		}
	}
	return len(oks)
}

var jsonEdge = []string{`"`, `{`, `}`, `[`, `]`, `:`, `,`, `-`, `0x`, `\`, `\u0000`, `null`, `1e9`, `-1`, `0`, ` `, "\xff", `""`, `{}`, `[]`, `.`, `+`}

var textKinds = []string{"quantity-negative", "byte-flip", "insert-token", "delete-range", "number-negative", "number-huge", "number-hex", "string-long", "value-null", "value-swap-type",
	"key-delete", "key-dup", "truncate", "deep-nesting", "random", "case-flip", "char-subst"}

func mutateText(r *run.Rng, kind, s, other string) string {
	if s == "" {
		s = `""`
	}
	b := []byte(s)
	digits := func() (lo, hi int, ok bool) {
		// a random run of decimal digits
		var runs [][2]int
		for i := 0; i < len(b); i++ {
			if b[i] >= '0' && b[i] <= '9' {
				j := i
				for j < len(b) && b[j] >= '0' && b[j] <= '9' {
					j++
				}
				runs = append(runs, [2]int{i, j})
				i = j
			}
		}
		if len(runs) == 0 {
			return 0, 0, false
		}
		x := runs[r.Intn(len(runs))]
		return x[0], x[1], true
	}
	quoted := func() (lo, hi int, ok bool) {
		var runs [][2]int
		for i := 0; i < len(b); i++ {
			if b[i] == '"' {
				j := i + 1
				for j < len(b) && b[j] != '"' {
					if b[j] == '\\' {
						j++
					}
					j++
				}
				if j < len(b) {
					runs = append(runs, [2]int{i, j + 1})
				}
				i = j
			}
		}
		if len(runs) == 0 {
			return 0, 0, false
		}
		x := runs[r.Intn(len(runs))]
		return x[0], x[1], true
	}
	repl := func(lo, hi int, with string) string { return string(b[:lo]) + with + string(b[hi:]) }
	switch kind {
	case "quantity-negative":
		// a quoted all-digit value ("amount":"5") gets a sign
		var at []int
		for i := 0; i+3 < len(b); i++ {
			if b[i] == ':' && b[i+1] == '"' && b[i+2] >= '0' && b[i+2] <= '9' {
				j := i + 2
				for j < len(b) && b[j] >= '0' && b[j] <= '9' {
					j++
				}
				if j < len(b) && b[j] == '"' {
					at = append(at, i+2)
				}
			}
		}
		if len(at) > 0 {
			p := at[r.Intn(len(at))]
			return repl(p, p, "-")
		}
		return "-" + s
	case "byte-flip":
		p := r.Intn(len(b))
		b[p] ^= 1 << uint(r.Intn(8))
		return string(b)
	case "insert-token":
		p := r.Intn(len(b) + 1)
		return repl(p, p, jsonEdge[r.Intn(len(jsonEdge))])
	case "delete-range":
		lo := r.Intn(len(b))
		hi := lo + r.Intn(minInt(len(b)-lo, 12)+1)
		return repl(lo, hi, "")
	case "number-negative":
		if lo, _, ok := digits(); ok {
			return repl(lo, lo, "-")
		}
	case "number-huge":
		if lo, hi, ok := digits(); ok {
			return repl(lo, hi, strings.Repeat("9", []int{20, 40, 78, 100, 5000}[r.Intn(5)]))
		}
	case "number-hex":
		if lo, hi, ok := digits(); ok {
			return repl(lo, hi, []string{"0x", "0x0", "0xff", "0x" + strings.Repeat("f", 65), "0X1", "00", "1.5", "1e3"}[r.Intn(8)])
		}
	case "string-long":
		if lo, hi, ok := quoted(); ok {
			return repl(lo, hi, `"`+strings.Repeat([]string{"a", "8", "0", "Z"}[r.Intn(4)], []int{37, 64, 1000, 100000}[r.Intn(4)])+`"`)
		}
	case "value-null":
		if lo, hi, ok := quoted(); ok {
			return repl(lo, hi, "null")
		}
	case "value-swap-type":
		if lo, hi, ok := quoted(); ok {
			return repl(lo, hi, []string{"0", "[]", "{}", "true", `[""]`, `{"a":1}`, "-0", `"0x"`, `""`, `"Lemo"`, `"lemo8"`}[r.Intn(11)])
		}
	case "key-delete", "key-dup":
		var mp map[string]json.RawMessage
		if json.Unmarshal(b, &mp) == nil && len(mp) > 0 {
			var ks []string
			for k := range mp {
				ks = append(ks, k)
			}
			sortStrings(ks)
			k := ks[r.Intn(len(ks))]
			if kind == "key-delete" {
				delete(mp, k)
				out, _ := json.Marshal(mp)
				return string(out)
			}
			return strings.TrimSuffix(s, "}") + `,"` + k + `":` + string(mp[ks[r.Intn(len(ks))]]) + "}"
		}
	case "truncate":
		return string(b[:r.Intn(len(b))])
	case "deep-nesting":
		n := []int{100, 9999, 10001, 30000}[r.Intn(4)]
		open := []string{"[", `{"subTxList":[`, `{"a":`}[r.Intn(3)]
		return strings.Repeat(open, n)
	case "random":
		return string(r.Bytes(r.Range(0, 80)))
	case "case-flip":
		for i := range b {
			if r.Chance(1, 3) && ((b[i] >= 'a' && b[i] <= 'z') || (b[i] >= 'A' && b[i] <= 'Z')) {
				b[i] ^= 0x20
			}
		}
		return string(b)
	case "char-subst":
		p := r.Intn(len(b))
		const set = "83456729ABCDFGHJKNPQRSTWYZEILMOUVX01abcxyz -_/\"\x00\xc3"
		b[p] = set[r.Intn(len(set))]
		return string(b)
	}
	if other != "" {
		return s[:r.Intn(len(s)+1)] + other[r.Intn(len(other)):]
	}
	return s
}

// cutDigitRuns shortens every run of decimal digits to at most n digits.
func cutDigitRuns(s string, n int) string {
	var out []byte
	run := 0
	for i := 0; i < len(s); i++ {
		if s[i] >= '0' && s[i] <= '9' {
			run++
			if run > n {
				continue
			}
		} else {
			run = 0
		}
		out = append(out, s[i])
	}
	return string(out)
}

func minInt(a, b int) int {
	if a < b {
		return a
	}
	return b
}

func sortStrings(s []string) {
	for i := 1; i < len(s); i++ {
		for j := i; j > 0 && s[j] < s[j-1]; j-- {
			s[j], s[j-1] = s[j-1], s[j]
		}
	}
}

// textSources builds the pool of valid texts (the same in every batch).
func textSources(seed uint64) map[string][]string {
	pool := map[string][]string{}
	add := func(k string, v interface{}) {
		b, err := json.Marshal(v)
		if err == nil {
			pool[k] = append(pool[k], string(b))
		}
	}
	for j := 0; j < 40; j++ {
		txOrigin = map[*types.Transaction]*fx.TxFields{}
		g := newG(run.NewRng(seed, 7, uint64(j)))
		f := genTxFields(g, uint16(j%11), true, true)
		tx := mustBuild(f)
		add("Transaction", tx)
		if tx.Type() == 10 {
			pool["Box"] = append(pool["Box"], string(tx.Data()))
		}
		if j%11 >= 3 && j%11 <= 9 && len(tx.Data()) > 0 && utf8.Valid(tx.Data()) {
			pool["TxData"] = append(pool["TxData"], string(tx.Data()))
		}
		add("Header", genHeader(g))
		if j < 8 {
			add("Block", genBlock(g))
		}
		add("ChangeLog", genLog(g))
		add("DeputyNode", genDeputy(g))
		add("AccountData", genAccount(g))
		add("Signers", genSigners(g))
		a := g.addr()
		pool["AddressText"] = append(pool["AddressText"], a.String(), a.Hex(), strings.ToLower(a.String()))
		add("Address", a)
		h := g.hash()
		pool["Hex"] = append(pool["Hex"], h.Hex(), common.ToHex(g.bytes(40)), "0x", "0x0", fmt.Sprintf("0x%x", g.u64()))
		pool["Number"] = append(pool["Number"], fmt.Sprint(g.u64()), g.big(false).String(), "0", fmt.Sprintf("%q", g.big(false).String()), "127.0.0.1", `"10.0.0.1"`, "::1")
	}
	return pool
}

func (m *mon) textRun(n int) {
	c := m.c
	pool := textSources(c.Seed)
	var kinds []string
	for k := range pool {
		kinds = append(kinds, k)
	}
	sortStrings(kinds)
	var all []string
	for _, k := range kinds {
		all = append(all, pool[k]...)
	}
	lo, hi := c.Share(n)
	for i := lo; i < hi; i++ {
		r := run.NewRng(c.Seed, 8, uint64(i))
		src := kinds[i%len(kinds)]
		s := pool[src][r.Intn(len(pool[src]))]
		kind := textKinds[(i/len(kinds))%len(textKinds)]
		t := mutateText(r, kind, s, all[r.Intn(len(all))])
		cs := &Case{Mon: "text", Type: src, Form: kind}
		cs.setText(t)
		if len(t) < 8192 {
			c.WAL(cs)
		}
		acc := m.textOne(t, cs)
		c.Stat("texts_offered", 1)
		c.Seen("text_mutation_kinds", kind)
		outcome := "rejected-by-all"
		if acc > 0 {
			outcome = "accepted-by-some"
		}
		c.Case("text/"+src+"/"+kind+"/"+outcome, kind != "random", nil)
	}
}

// ---------------------------------------------------------------- addresses

const b26 = "83456729ABCDFGHJKNPQRSTWYZ"

// canonText is the text modulo what the format declares insignificant: case and leading pad digits.
func canonText(s string) string {
	s = strings.ToUpper(s)
	s = strings.TrimPrefix(s, "LEMO")
	return strings.TrimLeft(s, "8")
}

// payloadBytes is the byte length of the base26 number of a text over the alphabet (harness-owned decoding).
func payloadBytes(s string) int {
	n := new(big.Int)
	for _, ch := range strings.ToUpper(s)[4:] {
		n.Mul(n, big.NewInt(26))
		n.Add(n, big.NewInt(int64(strings.IndexRune(b26, ch))))
	}
	return len(n.Bytes())
}

func inAlphabet(s string) bool {
	for _, ch := range strings.ToUpper(s)[4:] {
		if !strings.ContainsRune(b26, ch) {
			return false
		}
	}
	return true
}

// addrCorrupted judges one corrupted text derived from a's canonical text.
func (m *mon) addrCorrupted(a common.Address, orig, t, how string) {
	c := m.c
	cs := &Case{Mon: "addr", Addr: a.Hex(), Form: how}
	cs.setText(t)
	var got common.Address
	err, p := safely(func() (e error) { got, e = common.StringToAddress(t); return })
	c.Stat("corrupted_address_texts", 1)
	if p != "" {
		m.viol(cs, "decoder-panics:text:StringToAddress", p)
		return
	}
	if err != nil {
		c.Stat("corrupted_address_texts_rejected", 1)
		return
	}
	same := canonText(t) == canonText(orig)
	switch {
	case same && got == a:
		// only case or pad digits changed: the same text as far as the format is concerned
		c.Stat("corruptions_equal_modulo_case_and_padding", 1)
	case canonText(got.String()) == canonText(t):
		// passes the 8 bit checksum and is the canonical text of another account: the design's residual risk
		c.Stat("corruptions_that_are_another_valid_address", 1)
	default:
		mech := "noncanonical-text"
		switch {
		case got == a:
			mech = "decodes-to-original"
		case len(t) >= 4 && !inAlphabet(t):
			mech = "non-alphabet-character"
		case payloadBytes(t) > common.AddressLength+1:
			mech = "oversized-payload"
		}
		m.viol(cs, "address-corruption-accepted:"+mech, fmt.Sprintf("%q (%s of %s = %s) is accepted and decodes to %s whose text is %s", t, how, a.Hex(), orig, got.Hex(), got.String()))
	}
}

const substChars = "83456729ABCDFGHJKNPQRSTWYZEILMOUVX01 -_.\x00\x7f\xc3"

func (m *mon) addrCase(r *run.Rng) {
	c := m.c
	initKeys()
	g := newG(r)
	a := g.addr()
	s := a.String()
	cs := &Case{Mon: "addr", Addr: a.Hex(), Form: "roundtrip", Text: s}
	c.WAL(cs)
	m.addrRoundTrip(a, cs)
	// substitutions at every position, insertions and deletions
	for p := 4; p < len(s); p++ {
		for k := 0; k < 6; k++ {
			ch := substChars[r.Intn(len(substChars))]
			if k == 5 {
				ch = "EILMOUVX01"[r.Intn(10)]
			}
			if ch == s[p] || ch == s[p]|0x20 {
				continue
			}
			m.addrCorrupted(a, s, s[:p]+string(ch)+s[p+1:], "substitution")
		}
		m.addrCorrupted(a, s, s[:p]+s[p+1:], "deletion")
		m.addrCorrupted(a, s, s[:p]+string(substChars[r.Intn(len(substChars))])+s[p:], "insertion")
		if p+1 < len(s) && s[p] != s[p+1] {
			m.addrCorrupted(a, s, s[:p]+string(s[p+1])+string(s[p])+s[p+2:], "transposition")
		}
	}
	// corruption of the logo
	for p := 0; p < 4; p++ {
		m.addrCorrupted(a, s, s[:p]+"X"+s[p+1:], "logo")
	}
	c.Case("addr/"+fmt.Sprintf("lead%d", 36-len(canonText(s))), true, nil)
}

func (m *mon) addrRoundTrip(a common.Address, cs *Case) {
	c := m.c
	s := a.String()
	if len(s) != 40 || !strings.HasPrefix(s, "Lemo") || !inAlphabet(s) {
		m.viol(cs, "address-text-malformed", fmt.Sprintf("String() of %s is %q", a.Hex(), s))
	}
	mixed := []byte(s)
	for i := range mixed {
		if i%2 == 0 {
			mixed[i] |= 0x20
		}
	}
	for _, t := range []string{s, strings.ToLower(s), strings.ToUpper(s), string(mixed)} {
		got, err := common.StringToAddress(t)
		c.Stat("address_texts_roundtripped", 1)
		if err != nil || got != a {
			m.viol(cs, "address-roundtrip-differs", fmt.Sprintf("StringToAddress(%q) = %s, %v; account is %s", t, got.Hex(), err, a.Hex()))
		}
	}
	// JSON / text marshalling of the address type
	js, err := json.Marshal(a)
	var back common.Address
	if err != nil || json.Unmarshal(js, &back) != nil || back != a {
		m.viol(cs, "address-roundtrip-differs", fmt.Sprintf("JSON round trip of %s through %s gives %s", a.Hex(), js, back.Hex()))
	}
	var back2 common.Address
	if err := back2.UnmarshalText([]byte(a.Hex())); err != nil || back2 != a {
		m.viol(cs, "address-roundtrip-differs", fmt.Sprintf("UnmarshalText(%s) = %s, %v", a.Hex(), back2.Hex(), err))
	}
}

func (m *mon) addrReplay(cs *Case) {
	a := common.HexToAddress(cs.Addr)
	if cs.Form == "roundtrip" {
		m.addrRoundTrip(a, cs)
		return
	}
	m.addrCorrupted(a, a.String(), cs.text(), cs.Form)
}
