package main

// Robustness of the RLP decoders: mutated valid encodings and random byte strings are offered
// to every decoder under recover(); allocation per input is measured with runtime.MemStats.

import (
	"bytes"
	"encoding/hex"
	"fmt"
	"math/big"
	"reflect"
	"runtime"
	"sort"

	"github.com/LemoFoundationLtd/lemochain-core/common"
	"github.com/LemoFoundationLtd/lemochain-core/common/rlp"

	"verif/fx/run"
)

// target is something rlp.DecodeBytes can decode into: every codec plus plain Go types.
type target struct {
	name   string
	gen    func(g *G) interface{}
	fresh  func() interface{}
	schema *sch
	cd     *codec
}

var targets []*target
var targetByName = map[string]*target{}

type nested struct {
	A uint64
	B *big.Int
	C []byte
	D string
	E [4]byte
	F []uint16
	G struct {
		X uint8
		Y []byte
		Z bool
	}
	H *common.Address `rlp:"nil"`
	I [][]byte
}

func initTargets() {
	if targets != nil {
		return
	}
	for _, cd := range codecs {
		cd := cd
		targets = append(targets, &target{name: cd.name, gen: cd.gen, fresh: cd.fresh, schema: cd.schema, cd: cd})
	}
	prim := func(name string, gen func(g *G) interface{}) {
		t := reflect.TypeOf(gen(newG(run.NewRng(1, 0)))).Elem()
		targets = append(targets, &target{name: name, gen: gen, fresh: func() interface{} { return reflect.New(t).Interface() }, schema: schemaOf(t)})
	}
	initKeys()
	prim("uint8", func(g *G) interface{} { x := g.u8(); return &x })
	prim("uint16", func(g *G) interface{} { x := g.u16(); return &x })
	prim("uint32", func(g *G) interface{} { x := g.u32(); return &x })
	prim("uint64", func(g *G) interface{} { x := g.u64(); return &x })
	prim("uint", func(g *G) interface{} { x := uint(g.u64()); return &x })
	prim("bool", func(g *G) interface{} { x := g.r.Chance(1, 2); return &x })
	prim("big.Int", func(g *G) interface{} { return g.big(false) })
	prim("string", func(g *G) interface{} { x := g.text(300, false); return &x })
	prim("[]byte", func(g *G) interface{} { x := g.bytes(300); return &x })
	prim("common.Address", func(g *G) interface{} { x := g.addr(); return &x })
	prim("common.Hash", func(g *G) interface{} { x := g.hash(); return &x })
	prim("[]uint64", func(g *G) interface{} {
		var x []uint64
		for i := g.r.Intn(70); i > 0; i-- {
			x = append(x, g.u64())
		}
		return &x
	})
	prim("[]string", func(g *G) interface{} {
		var x []string
		for i := g.r.Intn(6); i > 0; i-- {
			x = append(x, g.text(80, false))
		}
		return &x
	})
	prim("[][]byte", func(g *G) interface{} {
		var x [][]byte
		for i := g.r.Intn(6); i > 0; i-- {
			x = append(x, g.bytes(80))
		}
		return &x
	})
	prim("nested-struct", func(g *G) interface{} {
		n := &nested{A: g.u64(), B: g.big(false), C: g.bytes(80), D: g.text(80, false), F: []uint16{g.u16(), g.u16()}}
		copy(n.E[:], g.r.Bytes(4))
		n.G.X, n.G.Y, n.G.Z = g.u8(), g.bytes(60), g.r.Chance(1, 2)
		if g.r.Chance(1, 2) {
			a := g.addr()
			n.H = &a
		}
		for i := g.r.Intn(4); i > 0; i-- {
			n.I = append(n.I, g.bytes(70))
		}
		return n
	})
	for _, t := range targets {
		targetByName[t.name] = t
	}
	initDecoders()
}

// ---------------------------------------------------------------- decoders

type decoder struct {
	name string
	dec  func(b []byte) (interface{}, error)
	cd   *codec
}

var rlpDecoders []*decoder

func initDecoders() {
	for _, t := range targets {
		t := t
		rlpDecoders = append(rlpDecoders, &decoder{name: "rlp:" + t.name, cd: t.cd, dec: func(b []byte) (interface{}, error) {
			v := t.fresh()
			return v, rlp.DecodeBytes(b, v)
		}})
		if t.cd != nil && t.cd.viaMsg {
			rlpDecoders = append(rlpDecoders, &decoder{name: "msg:" + t.name, cd: t.cd, dec: func(b []byte) (interface{}, error) {
				v := t.fresh()
				return v, msgDecode(b, v)
			}})
		}
	}
	// network/p2p/handshake.go:267,281 decode the decrypted handshake with an unlimited stream over a bytes.Reader
	for _, n := range []string{"authReqMsg", "authRespMsg"} {
		t := targetByName[n]
		rlpDecoders = append(rlpDecoders, &decoder{name: "stream:" + n, dec: func(b []byte) (interface{}, error) {
			v := t.fresh()
			return v, rlp.NewStream(bytes.NewReader(b), 0).Decode(v)
		}})
	}
}

// stabilise makes the encoding of a value holding a Go map independent of this run's map iteration
// order (AccountData.NewestRecords): the record items are sorted, so that derived byte strings are a
// function of the seed only.
func stabilise(name string, e []byte) []byte {
	if name != "AccountData" {
		return e
	}
	root, err := parseRLP(e)
	if err != nil || !root.list || len(root.kids) != 13 || !root.kids[11].list {
		return e
	}
	recs := root.kids[11].kids
	sort.Slice(recs, func(i, j int) bool { return bytes.Compare(recs[i].encode(nil), recs[j].encode(nil)) < 0 })
	return root.encode(nil)
}

// ---------------------------------------------------------------- mutation

var edgeBytes = []byte{0x00, 0x01, 0x7f, 0x80, 0x81, 0xb7, 0xb8, 0xb9, 0xbf, 0xc0, 0xc1, 0xf7, 0xf8, 0xf9, 0xff}

var mutationKinds = []string{"bitflip", "byteset", "truncate", "extend", "splice", "dup-region", "length-edit", "huge-length", "node-delete", "node-dup",
	"node-swap", "node-kind-flip", "node-empty", "node-foreign", "random", "random-list"}

func allNodes(n *rn, out *[]*rn) {
	*out = append(*out, n)
	for _, k := range n.kids {
		allNodes(k, out)
	}
}

// mutate derives one hostile byte string from a valid encoding e (other is another valid encoding).
func mutate(r *run.Rng, kind string, e, other []byte) []byte {
	b := append([]byte{}, e...)
	if len(b) == 0 {
		b = []byte{0x80}
	}
	var root *rn
	var nodes []*rn
	structural := func() bool {
		var err error
		root, err = parseRLP(e)
		if err != nil {
			return false
		}
		allNodes(root, &nodes)
		return true
	}
	switch kind {
	case "bitflip":
		for i := r.Range(1, 3); i > 0; i-- {
			p := r.Intn(len(b))
			b[p] ^= 1 << uint(r.Intn(8))
		}
	case "byteset":
		for i := r.Range(1, 2); i > 0; i-- {
			b[r.Intn(len(b))] = edgeBytes[r.Intn(len(edgeBytes))]
		}
	case "truncate":
		b = b[:r.Intn(len(b))]
	case "extend":
		b = append(b, r.Bytes(r.Range(1, 40))...)
	case "splice":
		if len(other) > 0 {
			lo := r.Intn(len(b))
			hi := lo + r.Intn(len(b)-lo+1)
			olo := r.Intn(len(other))
			ohi := olo + r.Intn(len(other)-olo+1)
			b = append(append(append([]byte{}, b[:lo]...), other[olo:ohi]...), b[hi:]...)
		}
	case "dup-region":
		lo := r.Intn(len(b))
		hi := lo + r.Intn(len(b)-lo+1)
		b = append(append(append([]byte{}, b[:hi]...), b[lo:hi]...), b[hi:]...)
	case "length-edit", "huge-length":
		if !structural() {
			break
		}
		n := nodes[r.Intn(len(nodes))]
		p := n.payload(nil)
		var h []byte
		if kind == "huge-length" {
			sz := []uint64{1 << 31, 1<<32 - 1, 1 << 40, 1<<63 - 1, ^uint64(0), 25 << 20}[r.Intn(6)]
			h = head(n.base(), sz)
		} else {
			d := []int64{-1, 1, 2, -2, 55, 56, -56, 255, 256, 65536}[r.Intn(10)]
			sz := int64(len(p)) + d
			if sz < 0 {
				sz = 0
			}
			h = head(n.base(), uint64(sz))
		}
		b = root.encode(map[*rn][]byte{n: append(h, p...)})
	case "node-delete", "node-dup", "node-swap":
		if !structural() {
			break
		}
		var lists []*rn
		for _, n := range nodes {
			if n.list && len(n.kids) > 0 {
				lists = append(lists, n)
			}
		}
		if len(lists) == 0 {
			break
		}
		l := lists[r.Intn(len(lists))]
		i := r.Intn(len(l.kids))
		switch kind {
		case "node-delete":
			l.kids = append(append([]*rn{}, l.kids[:i]...), l.kids[i+1:]...)
		case "node-dup":
			l.kids = append(append(append([]*rn{}, l.kids[:i]...), l.kids[i]), l.kids[i:]...)
		default:
			j := r.Intn(len(l.kids))
			l.kids[i], l.kids[j] = l.kids[j], l.kids[i]
		}
		b = root.encode(nil)
	case "node-kind-flip", "node-empty", "node-foreign":
		if !structural() {
			break
		}
		n := nodes[r.Intn(len(nodes))]
		p := n.payload(nil)
		var repl []byte
		switch kind {
		case "node-kind-flip":
			repl = append(head(n.base()^0x40, uint64(len(p))), p...)
		case "node-empty":
			repl = []byte{[]byte{0x80, 0xC0, 0x00}[r.Intn(3)]}
		default:
			switch r.Intn(4) {
			case 0:
				repl = encString(r.Bytes(r.Range(0, 300)))
			case 1:
				repl = encString(bytes.Repeat([]byte{0xff}, []int{8, 9, 32, 33, 65, 66}[r.Intn(6)]))
			case 2:
				repl = append(head(0xC0, uint64(len(other))), other...)
			default:
				repl = other
			}
		}
		b = root.encode(map[*rn][]byte{n: repl})
	case "random":
		b = r.Bytes(r.Range(0, 200))
		if len(b) > 0 && r.Chance(1, 2) {
			b[0] = edgeBytes[r.Intn(len(edgeBytes))]
		}
	case "random-list":
		body := r.Bytes(r.Range(0, 300))
		for i := range body {
			if r.Chance(1, 3) {
				body[i] = edgeBytes[r.Intn(len(edgeBytes))]
			}
		}
		b = append(head(0xC0, uint64(len(body))), body...)
	}
	return b
}

// ---------------------------------------------------------------- monitor

const allocSlack = 1 << 20
const allocFactor = 64

func allocBound(n int) uint64 { return uint64(allocFactor*n + allocSlack) }

type okDec struct {
	d *decoder
	v interface{}
}

// bytesOne offers b to every RLP decoder.
func (m *mon) bytesOne(b []byte, cs *Case) (accepted int) {
	c := m.c
	var ms0, ms1 runtime.MemStats
	oks := make([]okDec, 0, 8)
	var panics []string
	runtime.ReadMemStats(&ms0)
	for _, d := range rlpDecoders {
		var v interface{}
		err, p := safely(func() (e error) { v, e = d.dec(b); return })
		if p != "" {
			panics = append(panics, d.name+"\x00"+p)
		} else if err == nil {
			oks = append(oks, okDec{d, v})
		}
	}
	runtime.ReadMemStats(&ms1)
	c.Stat("decoder_calls", int64(len(rlpDecoders)))
	for _, p := range panics {
		name, msg := p[:bytes.IndexByte([]byte(p), 0)], p[bytes.IndexByte([]byte(p), 0)+1:]
		m.viol(cs, "decoder-panics:"+name, fmt.Sprintf("%s panicked on %d bytes: %s", name, len(b), msg))
	}
	if ms1.TotalAlloc-ms0.TotalAlloc > allocBound(len(b)) {
		// attribute
		for _, d := range rlpDecoders {
			runtime.ReadMemStats(&ms0)
			safely(func() error { _, e := d.dec(b); return e })
			runtime.ReadMemStats(&ms1)
			if a := ms1.TotalAlloc - ms0.TotalAlloc; a > allocBound(len(b)) {
				m.viol(cs, "decoder-allocates-out-of-proportion:"+d.name, fmt.Sprintf("%s allocated %d bytes for an input of %d bytes (bound %d*len+1MiB)", d.name, a, len(b), allocFactor))
			}
		}
	}
	c.Stat("allocation_windows_measured", 1)
	// use what was decoded: hashing, signer recovery and re-encoding must not panic either
	for _, o := range oks {
		c.Stat("hostile_inputs_accepted", 1)
		c.Seen("decoders_accepting_hostile_input", o.d.name)
		var enc2 []byte
		err, p := safely(func() (e error) {
			if o.d.cd != nil && o.d.cd.hash != nil {
				o.d.cd.hash(o.v)
			}
			if o.d.cd != nil && o.d.cd.signers != nil {
				o.d.cd.signers(o.v)
			}
			enc2, e = rlpEnc(o.v)
			return
		})
		if p != "" {
			m.viol(cs, "decoded-value-panics:"+o.d.name, fmt.Sprintf("value decoded by %s panics when hashed / signers recovered / re-encoded: %s", o.d.name, p))
			continue
		}
		if o.d.cd != nil && o.d.cd.mapped {
			// independent of this run's map iteration order
			enc2, b = stabilise(o.d.cd.name, enc2), stabilise(o.d.cd.name, b)
		}
		if err == nil && !bytes.Equal(enc2, b) {
			// type level leniency (e.g. short hash padded, nil pointer from empty list, trailing bytes through Msg.Decode): recorded, not judged
			c.Stat("accepted_inputs_reencoding_differently", 1)
			c.Seen("decoders_accepting_a_second_encoding", o.d.name)
		}
	}
	return len(oks)
}

func (m *mon) bytesRun(n int) {
	c := m.c
	// pool of valid encodings, the same in every batch
	pool := map[string][][]byte{}
	var all [][]byte
	for ti, t := range targets {
		for j := 0; j < 24; j++ {
			g := newG(run.NewRng(c.Seed, 3, uint64(ti), uint64(j)))
			e, err := rlpEnc(t.gen(g))
			if err != nil || len(e) > 20000 {
				continue
			}
			e = stabilise(t.name, e)
			pool[t.name] = append(pool[t.name], e)
			all = append(all, e)
		}
	}
	lo, hi := c.Share(n)
	for i := lo; i < hi; i++ {
		r := run.NewRng(c.Seed, 4, uint64(i))
		t := targets[i%len(targets)]
		src := pool[t.name]
		if len(src) == 0 {
			continue
		}
		e := src[r.Intn(len(src))]
		other := all[r.Intn(len(all))]
		kind := mutationKinds[(i/len(targets))%len(mutationKinds)]
		b := mutate(r, kind, e, other)
		cs := &Case{Mon: "bytes", Type: t.name, Form: kind, Hex: hex.EncodeToString(b)}
		if len(b) < 8192 {
			c.WAL(cs)
		}
		acc := m.bytesOne(b, cs)
		c.Stat("byte_strings_offered", 1)
		c.Seen("mutation_kinds", kind)
		outcome := "rejected-by-all"
		if acc > 0 {
			outcome = "accepted-by-some"
		}
		c.Case("bytes/"+t.name+"/"+kind+"/"+outcome, kind != "random", nil)
	}
	// amplification shapes: lists of very many empty items in every list position of a transaction,
	// a block and a discover response
	if c.Batch == c.NBatches-1 {
		m.amplification()
	}
}

func (m *mon) amplification() {
	c := m.c
	sizes := []int{1000, 20000}
	if c.Thorough() {
		sizes = append(sizes, 300000)
	}
	for _, name := range []string{"Transaction", "Block", "DiscoverResData", "BlockConfirms", "Event", "AccountData", "[][]byte", "[]string", "[]uint64"} {
		t := targetByName[name]
		g := newG(run.NewRng(c.Seed, 6, 1))
		e, err := rlpEnc(t.gen(g))
		if err != nil {
			continue
		}
		root, err := parseRLP(e)
		if err != nil {
			continue
		}
		var nodes []*rn
		allNodes(root, &nodes)
		for _, n := range nodes {
			if !n.list {
				continue
			}
			for _, sz := range sizes {
				for _, item := range []byte{0x80, 0xC0, 0x01} {
					body := bytes.Repeat([]byte{item}, sz)
					b := root.encode(map[*rn][]byte{n: append(head(0xC0, uint64(sz)), body...)})
					cs := &Case{Mon: "bytes", Type: name, Form: fmt.Sprintf("many-items-%02x", item), Hex: hex.EncodeToString(b)}
					c.Stat("amplification_inputs", 1)
					c.Case("bytes/"+name+"/many-items", true, nil)
					if sz <= 20000 {
						m.bytesOne(b, cs)
						continue
					}
					// Beyond the slack of the bound the representation cost of Go slices shows (a [][]byte of n empty
					// items is 24n bytes, grown by 1.5x: about 75 bytes per input byte). That is linear and inherent,
					// so here the bytes per input byte of every decoder are recorded and only 256*len+1MiB is judged.
					for _, d := range rlpDecoders {
						var ms0, ms1 runtime.MemStats
						runtime.ReadMemStats(&ms0)
						_, p := safely(func() error { _, e := d.dec(b); return e })
						runtime.ReadMemStats(&ms1)
						a := ms1.TotalAlloc - ms0.TotalAlloc
						if p != "" {
							m.viol(cs, "decoder-panics:"+d.name, p)
						}
						if ratio := a / uint64(len(b)); ratio >= 8 {
							c.Seen("alloc_bytes_per_input_byte_on_300k_item_lists", fmt.Sprintf("%s:%d", d.name, ratio/8*8))
						}
						if a > uint64(256*len(b)+allocSlack) {
							m.viol(cs, "decoder-allocates-out-of-proportion:"+d.name, fmt.Sprintf("%s allocated %d bytes for an input of %d bytes (a list of %d one-byte items)", d.name, a, len(b), sz))
						}
					}
				}
			}
		}
	}
}
