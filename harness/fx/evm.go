package fx

import (
	"math/big"

	"github.com/LemoFoundationLtd/lemochain-core/common"
)

// A tiny EVM assembler and the contract templates used by several engines.

const (
	STOP         = 0x00
	ADD          = 0x01
	MUL          = 0x02
	SUB          = 0x03
	LT           = 0x10
	EQ           = 0x14
	ISZERO       = 0x15
	SHA3         = 0x20
	ADDRESS      = 0x30
	BALANCE      = 0x31
	ORIGIN       = 0x32
	CALLER       = 0x33
	CALLVALUE    = 0x34
	CALLDATALOAD = 0x35
	CALLDATASIZE = 0x36
	CALLDATACOPY = 0x37
	CODESIZE     = 0x38
	CODECOPY     = 0x39
	RETURNDATASIZE = 0x3d
	POP          = 0x50
	MLOAD        = 0x51
	MSTORE       = 0x52
	SLOAD        = 0x54
	SSTORE       = 0x55
	JUMP         = 0x56
	JUMPI        = 0x57
	PC           = 0x58
	GAS          = 0x5a
	JUMPDEST     = 0x5b
	PUSH1        = 0x60
	DUP1         = 0x80
	SWAP1        = 0x90
	LOG0         = 0xa0
	LOG1         = 0xa1
	CREATE       = 0xf0
	CALL         = 0xf1
	CALLCODE     = 0xf2
	RETURN       = 0xf3
	DELEGATECALL = 0xf4
	STATICCALL   = 0xfa
	REVERT       = 0xfd
	INVALID      = 0xfe
	SELFDESTRUCT = 0xff
)

// Asm builds bytecode.
type Asm struct{ b []byte }

func (a *Asm) Op(ops ...byte) *Asm { a.b = append(a.b, ops...); return a }

// Push pushes the minimal big-endian encoding of v (PUSH1..PUSH32).
func (a *Asm) Push(v *big.Int) *Asm {
	bs := v.Bytes()
	if len(bs) == 0 {
		bs = []byte{0}
	}
	if len(bs) > 32 {
		bs = bs[len(bs)-32:]
	}
	a.b = append(a.b, byte(PUSH1+len(bs)-1))
	a.b = append(a.b, bs...)
	return a
}
func (a *Asm) PushU(v uint64) *Asm            { return a.Push(new(big.Int).SetUint64(v)) }
func (a *Asm) PushBytes(bs []byte) *Asm       { a.b = append(a.b, byte(PUSH1+len(bs)-1)); a.b = append(a.b, bs...); return a }
func (a *Asm) PushAddr(x common.Address) *Asm { return a.PushBytes(x[:]) }
func (a *Asm) Bytes() []byte                  { return append([]byte{}, a.b...) }
func (a *Asm) Len() int                       { return len(a.b) }

// InitCode wraps runtime code in a constructor that returns it.
func InitCode(runtime []byte) []byte {
	a := &Asm{}
	// PUSH len, PUSH off, PUSH 0, CODECOPY, PUSH len, PUSH 0, RETURN   -- off is fixed-size (PUSH2)
	n := len(runtime)
	hdr := 3 + 3 + 2 + 1 + 3 + 2 + 1
	a.Op(0x61, byte(n>>8), byte(n)).Op(0x61, byte(hdr>>8), byte(hdr)).Op(PUSH1, 0).Op(CODECOPY)
	a.Op(0x61, byte(n>>8), byte(n)).Op(PUSH1, 0).Op(RETURN)
	return append(a.Bytes(), runtime...)
}

// RtStore: SSTORE(k, v); STOP
func RtStore(k, v uint64) []byte { return (&Asm{}).PushU(v).PushU(k).Op(SSTORE, STOP).Bytes() }

// RtStoreCalldata: SSTORE(calldata[0:32], calldata[32:64]); STOP
func RtStoreCalldata() []byte {
	return (&Asm{}).Op(PUSH1, 32, CALLDATALOAD, PUSH1, 0, CALLDATALOAD, SSTORE, STOP).Bytes()
}

// RtStoreIfData: STOP when called without data, else SSTORE(calldata[0:32], calldata[32:64])
func RtStoreIfData() []byte {
	a := &Asm{}
	a.Op(CALLDATASIZE, ISZERO, PUSH1, 13, JUMPI)
	a.Op(PUSH1, 32, CALLDATALOAD, PUSH1, 0, CALLDATALOAD, SSTORE)
	a.Op(JUMPDEST, STOP) // offset 13
	return a.Bytes()
}

// RtStoreThenRevert: SSTORE(k,v); REVERT(0,0)
func RtStoreThenRevert(k, v uint64) []byte {
	return (&Asm{}).PushU(v).PushU(k).Op(SSTORE).Op(PUSH1, 0, PUSH1, 0, REVERT).Bytes()
}

// RtLoop: infinite loop (runs out of gas)
func RtLoop() []byte { return (&Asm{}).Op(JUMPDEST, PUSH1, 0, JUMP).Bytes() }

// RtInvalid: SSTORE then INVALID
func RtInvalid(k, v uint64) []byte { return (&Asm{}).PushU(v).PushU(k).Op(SSTORE, INVALID).Bytes() }

// RtLog: LOG1(topic) with 32 bytes of memory; then SSTORE(k,v)
func RtLog(topic uint64, k, v uint64) []byte {
	return (&Asm{}).PushU(topic).Op(PUSH1, 32, PUSH1, 0, LOG1).PushU(v).PushU(k).Op(SSTORE, STOP).Bytes()
}

// RtSuicideTo: SELFDESTRUCT(beneficiary)
func RtSuicideTo(b common.Address) []byte { return (&Asm{}).PushAddr(b).Op(SELFDESTRUCT).Bytes() }

// RtCallcodeValueLoop: n times CALLCODE(gas 0, to, value 1) (to has no code: only the value surcharge and the stipend matter).
func RtCallcodeValueLoop(n uint64, to common.Address) []byte {
	a := &Asm{}
	a.Op(PUSH1+1, byte(n>>8), byte(n)) // PUSH2 n
	l := a.Len()
	a.Op(JUMPDEST)
	a.Op(PUSH1, 0, PUSH1, 0, PUSH1, 0, PUSH1, 0, PUSH1, 1) // outSize outOff inSize inOff value
	a.PushAddr(to)
	a.Op(PUSH1, 0) // gas
	a.Op(CALLCODE, POP)
	a.Op(PUSH1, 1, SWAP1, SUB, DUP1)
	a.Op(PUSH1, byte(l), JUMPI, STOP)
	return a.Bytes()
}

// RtSuicideSelf: SELFDESTRUCT(ADDRESS)
func RtSuicideSelf() []byte { return (&Asm{}).Op(ADDRESS, SELFDESTRUCT).Bytes() }

// call emits <kind>(gas, to, value, in=0..0, out=0..0); leaves success flag on the stack.
func (a *Asm) call(kind byte, to common.Address, gas uint64, value *big.Int) *Asm {
	a.Op(PUSH1, 0, PUSH1, 0, PUSH1, 0, PUSH1, 0) // outSize outOff inSize inOff
	if kind == CALL || kind == CALLCODE {
		if value == nil {
			a.Op(CALLVALUE)
		} else {
			a.Push(value)
		}
	}
	a.PushAddr(to)
	if gas == 0 {
		a.Op(GAS)
	} else {
		a.PushU(gas)
	}
	return a.Op(kind)
}

// RtForward: CALL(to) forwarding the call value, then SSTORE(k, success+1)
func RtForward(kind byte, to common.Address, gas uint64, value *big.Int, k uint64) []byte {
	a := &Asm{}
	a.call(kind, to, gas, value).Op(PUSH1, 1, ADD).PushU(k).Op(SSTORE, STOP)
	return a.Bytes()
}

// RtForwardThenRevert: CALL(to) then REVERT
func RtForwardThenRevert(kind byte, to common.Address, gas uint64, value *big.Int) []byte {
	a := &Asm{}
	a.call(kind, to, gas, value).Op(POP, PUSH1, 0, PUSH1, 0, REVERT)
	return a.Bytes()
}

// RtStoreCallLoad: SSTORE(k,v); CALL(to); SSTORE(k2, SLOAD(k))  -- the C07 "revert after suicide" shape
func RtStoreCallLoad(k, v uint64, to common.Address, k2 uint64) []byte {
	a := &Asm{}
	a.PushU(v).PushU(k).Op(SSTORE)
	a.call(CALL, to, 0, big.NewInt(0)).Op(POP)
	a.PushU(k).Op(SLOAD).PushU(k2).Op(SSTORE, STOP)
	return a.Bytes()
}

// RtRecursive: calls itself with all gas; never stops by itself.
func RtRecursive() []byte {
	a := &Asm{}
	a.Op(PUSH1, 0, PUSH1, 0, PUSH1, 0, PUSH1, 0, PUSH1, 0, ADDRESS, GAS, CALL, STOP)
	return a.Bytes()
}

// RtCreateChild: CREATE a child whose runtime is childRt with the call value, SSTORE(k, child address)
func RtCreateChild(childRt []byte, k uint64) []byte {
	init := InitCode(childRt)
	a := &Asm{}
	// copy init code from own code tail into memory: CODECOPY(0, off, len)
	// layout: [prologue][init]; prologue length is fixed below
	prolog := 3 + 3 + 2 + 1 + 3 + 2 + 1 + 1 + 1 + 9 + 2 // computed to match emitted bytes, verified in init()
	_ = prolog
	n := len(init)
	body := &Asm{}
	body.Op(0x61, byte(n>>8), byte(n)) // len
	body.Op(0x61, 0, 0)                // off placeholder (patched)
	body.Op(PUSH1, 0, CODECOPY)
	body.Op(0x61, byte(n>>8), byte(n)).Op(PUSH1, 0, CALLVALUE, CREATE)
	body.PushU(k).Op(SSTORE, STOP)
	off := body.Len()
	bs := body.Bytes()
	bs[4], bs[5] = byte(off>>8), byte(off)
	a.b = append(bs, init...)
	return a.Bytes()
}

// RtTransferOut: CALL(to, value) with no gas stipend beyond 2300 (plain value send); SSTORE(k, success+1)
func RtTransferOut(to common.Address, value *big.Int, k uint64) []byte {
	return RtForward(CALL, to, 0, value, k)
}

// Word returns a 32-byte big-endian word.
func Word(v uint64) []byte {
	b := make([]byte, 32)
	new(big.Int).SetUint64(v).FillBytes(b)
	return b
}

// HashU returns the storage key for a small integer slot.
func HashU(v uint64) common.Hash { return common.BytesToHash(Word(v)) }
